import H3.Lemmas.DynTable
/-! Reference tracking: `track_map` is the sum of the per-block maps in `track_blocks`;
    blocked-stream accounting. -/
namespace H3.Dyn
open H3.Spec.Dyn (STable size evictCount)

def qsum (q : List RefMap) (a : Nat) : Nat := (q.map (cnt · a)).sum
def total (tb : List (Nat × List RefMap)) (a : Nat) : Nat := (tb.map fun p => qsum p.2 a).sum

/-- a per-block reference map: unique keys, counts at least 1 -/
def RefMapWF (m : RefMap) : Prop := (keys m).Nodup ∧ ∀ p ∈ m, 1 ≤ p.2

@[simp] theorem qsum_nil (a : Nat) : qsum [] a = 0 := rfl
@[simp] theorem qsum_cons (m : RefMap) (q : List RefMap) (a : Nat) : qsum (m :: q) a = cnt m a + qsum q a := by
  simp [qsum]
theorem qsum_append (q r : List RefMap) (a : Nat) : qsum (q ++ r) a = qsum q a + qsum r a := by
  simp [qsum]

@[simp] theorem total_nil (a : Nat) : total [] a = 0 := rfl
@[simp] theorem total_cons (p : Nat × List RefMap) (tb : List (Nat × List RefMap)) (a : Nat) :
    total (p :: tb) a = qsum p.2 a + total tb a := by simp [total]

theorem total_aset_some {tb : List (Nat × List RefMap)} {k : Nat} {q : List RefMap} (q' : List RefMap) (a : Nat)
    (h : aget tb k = some q) : total (aset tb k q') a + qsum q a = total tb a + qsum q' a := by
  induction tb with
  | nil => simp at h
  | cons p r ih =>
    obtain ⟨k', v'⟩ := p
    rw [aget_cons] at h
    by_cases hk : k' = k
    · rw [if_pos hk] at h; simp at h; subst h
      simp [aset, hk]; omega
    · rw [if_neg hk] at h
      have := ih h
      simp [aset, hk]; omega

theorem total_aset_none {tb : List (Nat × List RefMap)} {k : Nat} (q' : List RefMap) (a : Nat)
    (h : aget tb k = none) : total (aset tb k q') a = total tb a + qsum q' a := by
  induction tb with
  | nil => simp [aset]
  | cons p r ih =>
    obtain ⟨k', v'⟩ := p
    rw [aget_cons] at h
    by_cases hk : k' = k
    · rw [if_pos hk] at h; simp at h
    · rw [if_neg hk] at h
      have := ih h
      simp [aset, hk]; omega

theorem total_aerase {tb : List (Nat × List RefMap)} {k : Nat} {q : List RefMap} (a : Nat)
    (hn : (keys tb).Nodup) (h : aget tb k = some q) : total (aerase tb k) a + qsum q a = total tb a := by
  induction tb with
  | nil => simp at h
  | cons p r ih =>
    obtain ⟨k', v'⟩ := p
    simp only [keys, List.map_cons, List.nodup_cons] at hn
    rw [aget_cons] at h
    by_cases hk : k' = k
    · rw [if_pos hk] at h; simp at h; subst h; subst hk
      have : aerase ((k', v') :: r) k' = r := by
        simp only [aerase, ne_eq, not_true_eq_false, decide_false, Bool.false_eq_true, not_false_eq_true,
          List.filter_cons_of_neg]
        apply List.filter_eq_self.mpr
        intro p hp
        simp
        intro e; apply hn.1; rw [← e]; exact List.mem_map.mpr ⟨p, hp, rfl⟩
      rw [this]; simp; omega
    · rw [if_neg hk] at h
      have := ih hn.2 h
      simp [aerase, hk] at this ⊢; omega

theorem mem_aset {κ ν : Type} [DecidableEq κ] {m : List (κ × ν)} {k : κ} {v : ν} {p : κ × ν}
    (h : p ∈ aset m k v) : p ∈ m ∨ p = (k, v) := by
  induction m with
  | nil => simp [aset] at h; exact Or.inr h
  | cons q r ih =>
    obtain ⟨k', v'⟩ := q
    by_cases hk : k' = k
    · simp [aset, hk] at h
      rcases h with h | h
      · exact Or.inr (by rw [h])
      · exact Or.inl (List.mem_cons_of_mem _ h)
    · simp [aset, hk] at h
      rcases h with h | h
      · exact Or.inl (by rw [h]; simp)
      · rcases ih h with h | h
        · exact Or.inl (List.mem_cons_of_mem _ h)
        · exact Or.inr h

theorem mem_aerase {κ ν : Type} [DecidableEq κ] {m : List (κ × ν)} {k : κ} {p : κ × ν}
    (h : p ∈ aerase m k) : p ∈ m := (List.mem_filter.mp h).1

/-! ### `track_cancel` -/

theorem cnt_cons (a c : Nat) (r : RefMap) (x : Nat) : cnt ((a, c) :: r) x = if a = x then c else cnt r x := by
  unfold cnt; rw [aget_cons]; split <;> rfl

theorem cnt_eq_zero_of_not_mem {m : RefMap} {a : Nat} (h : a ∉ keys m) : cnt m a = 0 := by
  unfold cnt; rw [aget_none_iff.mpr h]; rfl

theorem cancelRefs_spec (tm m : RefMap) (hwf : RefMapWF m) (hge : ∀ a, cnt m a ≤ cnt tm a) :
    ∃ tm', cancelRefs tm m = .ok tm' ∧ ∀ a, cnt tm' a = cnt tm a - cnt m a := by
  induction m generalizing tm with
  | nil => exact ⟨tm, rfl, by simp⟩
  | cons p r ih =>
    obtain ⟨a, c⟩ := p
    obtain ⟨hnd, hpos⟩ := hwf
    simp only [keys, List.map_cons, List.nodup_cons] at hnd
    have hc1 : 1 ≤ c := hpos (a, c) (by simp)
    have hra : cnt r a = 0 := cnt_eq_zero_of_not_mem hnd.1
    have hca : cnt ((a, c) :: r) a = c := by rw [cnt_cons]; simp
    have hhave : c ≤ cnt tm a := by have := hge a; omega
    have hget : aget tm a = some (cnt tm a) := by
      unfold cnt at hhave ⊢
      cases hg : aget tm a with
      | none => rw [hg] at hhave; simp at hhave; omega
      | some v => simp
    have hwf' : RefMapWF r := ⟨hnd.2, fun p hp => hpos p (List.mem_cons_of_mem _ hp)⟩
    simp only [cancelRefs, hget]
    rw [if_neg (by omega)]
    by_cases he : cnt tm a = c
    · rw [if_pos he]
      obtain ⟨tm', h1, h2⟩ := ih (aerase tm a) hwf' (by
        intro x; rw [cnt_aerase]
        by_cases hx : a = x
        · subst hx; omega
        · rw [if_neg hx]; have := hge x; rw [cnt_cons, if_neg hx] at this; exact this)
      refine ⟨tm', h1, fun x => ?_⟩
      rw [h2, cnt_aerase, cnt_cons]
      by_cases hx : a = x
      · subst hx; simp [hra]; omega
      · simp [hx]
    · rw [if_neg he]
      obtain ⟨tm', h1, h2⟩ := ih (aset tm a (cnt tm a - c)) hwf' (by
        intro x; rw [cnt_aset]
        by_cases hx : a = x
        · subst hx; omega
        · rw [if_neg hx]; have := hge x; rw [cnt_cons, if_neg hx] at this; exact this)
      refine ⟨tm', h1, fun x => ?_⟩
      rw [h2, cnt_aset, cnt_cons]
      by_cases hx : a = x
      · subst hx; simp [hra]
      · simp [hx]

/-! ### the tracking invariant -/

/-- `extra`: the references of the block being encoded (`block_refs`), not yet in `track_blocks` -/
structure TrackOKx (t : Table) (extra : RefMap) : Prop where
  sum : ∀ a, cnt t.trackMap a = total t.trackBlocks a + cnt extra a
  live : ∀ a, 0 < cnt t.trackMap a → t.vas.dropped < a ∧ a ≤ t.vas.inserted
  nodup : (keys t.trackBlocks).Nodup
  wf : ∀ p ∈ t.trackBlocks, ∀ m ∈ p.2, RefMapWF m
  nonempty : ∀ p ∈ t.trackBlocks, p.2 ≠ []

abbrev TrackOK (t : Table) : Prop := TrackOKx t []

theorem qsum_le_total {tb : List (Nat × List RefMap)} {k : Nat} {q : List RefMap} (a : Nat)
    (h : aget tb k = some q) : qsum q a ≤ total tb a := by
  induction tb with
  | nil => simp at h
  | cons p r ih =>
    obtain ⟨k', v'⟩ := p
    rw [aget_cons] at h
    by_cases hk : k' = k
    · rw [if_pos hk] at h; simp at h; subst h; simp
    · rw [if_neg hk] at h; have := ih h; simp; omega

/-- `untrack_block`: pops the oldest reference map of the stream and releases its counts -/
theorem untrackBlock_spec {t : Table} {extra : RefMap} (h : TrackOKx t extra) (sid : Nat) :
    (aget t.trackBlocks sid = none ∧ t.untrackBlock sid = .err .unknownStreamId) ∨
    (∃ m rest t', aget t.trackBlocks sid = some (m :: rest) ∧ t.untrackBlock sid = .ok t' ∧ TrackOKx t' extra ∧
      aget t'.trackBlocks sid = (if rest = [] then none else some rest) ∧
      (∀ x, x ≠ sid → aget t'.trackBlocks x = aget t.trackBlocks x) ∧
      (∀ a, cnt t'.trackMap a = cnt t.trackMap a - cnt m a) ∧
      t'.fields = t.fields ∧ t'.currSize = t.currSize ∧ t'.maxSize = t.maxSize ∧ t'.vas = t.vas ∧
      t'.fieldMap = t.fieldMap ∧ t'.nameMap = t.nameMap ∧ t'.lkr = t.lkr ∧ t'.blockedMax = t.blockedMax ∧
      t'.blockedCount = t.blockedCount ∧ t'.blockedStreams = t.blockedStreams) := by
  cases hq : aget t.trackBlocks sid with
  | none => left; exact ⟨rfl, by simp [Table.untrackBlock, hq]⟩
  | some q =>
    cases q with
    | nil => exact absurd rfl (h.nonempty _ (aget_mem hq))
    | cons m rest =>
      right
      have hmem := aget_mem hq
      have hwf : RefMapWF m := h.wf _ hmem m (by simp)
      have hge : ∀ a, cnt m a ≤ cnt t.trackMap a := by
        intro a; rw [h.sum]; have := qsum_le_total a hq; simp at this; omega
      obtain ⟨tm', hc, hcnt⟩ := cancelRefs_spec t.trackMap m hwf hge
      cases rest with
      | nil =>
        refine ⟨m, [], { t with trackBlocks := aerase t.trackBlocks sid, trackMap := tm' }, rfl, ?_, ?_, by simp,
          fun x hx => by simp only; rw [aget_aerase_ne _ (Ne.symm hx)], hcnt, rfl, rfl, rfl, rfl, rfl, rfl, rfl, rfl, rfl, rfl⟩
        · simp only [Table.untrackBlock, hq, Table.trackCancel, hc, Res.bind_ok]
        · constructor
          · intro a; simp only
            rw [hcnt, h.sum]
            have := total_aerase a h.nodup hq; simp at this; omega
          · intro a ha; simp only at ha ⊢
            rw [hcnt] at ha; exact h.live a (by omega)
          · exact nodup_keys_aerase _ h.nodup
          · intro p hp; exact h.wf p (mem_aerase hp)
          · intro p hp; exact h.nonempty p (mem_aerase hp)
      | cons m2 rest2 =>
        refine ⟨m, m2 :: rest2, { t with trackBlocks := aset t.trackBlocks sid (m2 :: rest2), trackMap := tm' }, rfl,
          ?_, ?_, by simp, fun x hx => by simp only; rw [aget_aset_ne _ _ (Ne.symm hx)], hcnt,
          rfl, rfl, rfl, rfl, rfl, rfl, rfl, rfl, rfl, rfl⟩
        · simp only [Table.untrackBlock, hq, Table.trackCancel, hc, Res.bind_ok]
        · constructor
          · intro a; simp only
            rw [hcnt, h.sum]
            have := total_aset_some (m2 :: rest2) a hq; simp at this ⊢; omega
          · intro a ha; simp only at ha ⊢
            rw [hcnt] at ha; exact h.live a (by omega)
          · exact nodup_keys_aset _ _ h.nodup
          · intro p hp
            rcases mem_aset hp with hp | hp
            · exact h.wf p hp
            · subst hp; intro m' hm'
              exact h.wf _ hmem m' (List.mem_cons_of_mem _ hm')
          · intro p hp
            rcases mem_aset hp with hp | hp
            · exact h.nonempty p hp
            · subst hp; simp

/-- `track_block` (the tracking half of `commit`) -/
theorem trackBlock_spec {t : Table} {refs : RefMap} (h : TrackOKx t refs) (hwf : RefMapWF refs) (sid : Nat) :
    TrackOK (t.trackBlock sid refs) ∧
    aget (t.trackBlock sid refs).trackBlocks sid = some (((aget t.trackBlocks sid).getD []) ++ [refs]) ∧
    (∀ x, x ≠ sid → aget (t.trackBlock sid refs).trackBlocks x = aget t.trackBlocks x) := by
  unfold Table.trackBlock
  cases hq : aget t.trackBlocks sid with
  | some q =>
    simp only
    refine ⟨?_, by rw [aget_aset_self]; rfl, fun x hx => by rw [aget_aset_ne _ _ (Ne.symm hx)]⟩
    constructor
    · intro a; simp only
      rw [h.sum]
      have := total_aset_some (q ++ [refs]) a hq
      rw [qsum_append] at this; simp at this ⊢; omega
    · exact h.live
    · exact nodup_keys_aset _ _ h.nodup
    · intro p hp
      rcases mem_aset hp with hp | hp
      · exact h.wf p hp
      · subst hp; intro m' hm'
        rcases List.mem_append.mp hm' with hm' | hm'
        · exact h.wf _ (aget_mem hq) m' hm'
        · simp at hm'; subst hm'; exact hwf
    · intro p hp
      rcases mem_aset hp with hp | hp
      · exact h.nonempty p hp
      · subst hp; simp
  | none =>
    simp only
    refine ⟨?_, by rw [aget_aset_self]; rfl, fun x hx => by rw [aget_aset_ne _ _ (Ne.symm hx)]⟩
    constructor
    · intro a; simp only
      rw [h.sum, total_aset_none [refs] a hq]; simp
    · exact h.live
    · exact nodup_keys_aset _ _ h.nodup
    · intro p hp
      rcases mem_aset hp with hp | hp
      · exact h.wf p hp
      · subst hp; intro m' hm'; simp at hm'; subst hm'; exact hwf
    · intro p hp
      rcases mem_aset hp with hp | hp
      · exact h.nonempty p hp
      · subst hp; simp

/-! ### blocked-stream accounting -/

def vsum (m : RefMap) : Nat := (m.map (·.2)).sum

structure BlockedOK (t : Table) : Prop where
  sum : t.blockedCount = vsum t.blockedStreams

theorem vsum_aset (m : RefMap) (k : Nat) : vsum (aset m k (cnt m k + 1)) = vsum m + 1 := by
  induction m with
  | nil => simp [aset, vsum, cnt]
  | cons p r ih =>
    obtain ⟨k', v'⟩ := p
    by_cases hk : k' = k
    · subst hk; simp [aset, vsum, cnt_cons]; omega
    · simp only [aset, if_neg hk, cnt_cons]
      simp only [vsum, List.map_cons, List.sum_cons] at ih ⊢
      rw [ih]; omega

theorem registerBlocked_ok {t : Table} (h : BlockedOK t) (l : Nat) : BlockedOK (t.registerBlocked l) := by
  unfold Table.registerBlocked
  split
  · exact h
  · exact ⟨by simp only; rw [vsum_aset, h.sum]⟩

theorem vsum_filter (m : RefMap) (p : Nat × Nat → Bool) :
    vsum (m.filter p) + vsum (m.filter fun x => !p x) = vsum m := by
  induction m with
  | nil => rfl
  | cons q r ih =>
    by_cases hq : p q = true
    · simp [vsum, List.filter, hq] at ih ⊢; omega
    · simp [vsum, List.filter, hq] at ih ⊢; omega

theorem foldl_add_eq_sum (l : List Nat) (init : Nat) : l.foldl (· + ·) init = init + l.sum := by
  induction l generalizing init with
  | nil => simp
  | cons a r ih => simp [ih]; omega

theorem updateLargestReceived_spec {t : Table} (h : BlockedOK t) (inc : Nat) :
    ∃ t', t.updateLargestReceived inc = .ok t' ∧ BlockedOK t' ∧
      t'.fields = t.fields ∧ t'.currSize = t.currSize ∧ t'.maxSize = t.maxSize ∧ t'.vas = t.vas ∧
      t'.fieldMap = t.fieldMap ∧ t'.nameMap = t.nameMap ∧ t'.trackMap = t.trackMap ∧
      t'.trackBlocks = t.trackBlocks ∧ t'.blockedMax = t.blockedMax ∧ t'.lkr = t.lkr + inc := by
  unfold Table.updateLargestReceived
  simp only
  by_cases h0 : t.blockedCount = 0
  · rw [if_pos h0]
    exact ⟨_, rfl, ⟨h.sum⟩, rfl, rfl, rfl, rfl, rfl, rfl, rfl, rfl, rfl, rfl⟩
  · rw [if_neg h0]
    have hpart := vsum_filter t.blockedStreams (fun p => decide (p.1 ≤ t.lkr + inc))
    have hs := h.sum
    split
    · rename_i hemp
      refine ⟨_, rfl, ⟨?_⟩, rfl, rfl, rfl, rfl, rfl, rfl, rfl, rfl, rfl, rfl⟩
      simp only
      have : vsum (List.filter (fun p => decide (p.1 ≤ t.lkr + inc)) t.blockedStreams) = 0 := by
        simp at hemp
        rw [List.filter_eq_nil_iff.mpr (by simpa using hemp)]; rfl
      simp only [decide_not] at hpart ⊢
      omega
    · have htot : (List.map (fun x => x.2) (List.filter (fun p => decide (p.1 ≤ t.lkr + inc)) t.blockedStreams)).foldl
          (· + ·) 0 = vsum (List.filter (fun p => decide (p.1 ≤ t.lkr + inc)) t.blockedStreams) := by
        rw [foldl_add_eq_sum]; simp [vsum]
      rw [htot, csub_ok (by omega)]
      simp only [Res.bind_ok]
      refine ⟨_, rfl, ⟨?_⟩, rfl, rfl, rfl, rfl, rfl, rfl, rfl, rfl, rfl, rfl⟩
      simp only [decide_not] at hpart ⊢
      omega

end H3.Dyn
