import H3.Model.SendSide
import H3.Model.Qpack
import H3.Model.Config
import H3.Model.E2E
import H3.Gen.SendArms
/-! Agreement of the send-side models (`H3.SendSide`, `H3.Qpack.{sendSite, serverResolve}`,
    `H3.Config.{fromSettings, Cell}`, `H3.E2E.SOp`; C14, C10, C01, C13) with what the translator reads
    out of the Rust sources on every run (`H3.Gen.SendArms`): for each send call the *order* of its
    decisions (closing gate → headers built → stream opened → encode → which limit is read → the size
    test and its operator → which frame is written on which stream → grease frame → FIN), which
    variable the limit is read from, how the grease flag travels from the connection to the first
    handle, the 431 of `resolve`, and the conversion of the peer's SETTINGS.

    The decision lists are *run* by small interpreters over the model's vocabulary and the result is
    proved equal to the model's function for every input; a statement moved, a limit read from a field
    of the handle instead of the settings cell, `>` turned into `>=`, a `filter` on a received value
    change the generated list and the theorem about it stops to hold. -/
namespace H3.GenAgree.Send
open H3.Gen.Consts

abbrev Op := Gen.SendArms.Op

def cmp : Gen.SendArms.Cmp → Nat → Nat → Bool
  | .lt, a, b => decide (a < b)
  | .le, a, b => decide (a ≤ b)
  | .gt, a, b => decide (a > b)
  | .ge, a, b => decide (a ≥ b)
  | .eq, a, b => decide (a = b)
  | .ne, a, b => decide (a ≠ b)

/-! ### the size limit at the three header-sending calls (`Qpack.sendSite`) -/

/-- what a call can see when it runs -/
structure Env where
  /-- the settings cell of `SharedState` at that moment: the peer's MAX_FIELD_SECTION_SIZE once
      its SETTINGS have been applied, `none` before -/
  cell : Option Nat
  /-- whatever the handle's own fields hold (a value stored when the handle was created) -/
  field : String → Nat

structure HS where
  enc : Option (Qpack.Bytes × Nat) := none
  limit : Option Nat := none

/-- the decision list of a header-sending call, run up to its first write.  The steps in front of
    the encoder (closing gate, `Header::request`, `poll_open_bidi`) take no part in the size
    decision; anything else out of place (a size test before the limit was read, a write before the
    encoder ran, …) has no reading. -/
def runHdr (env : Env) (fs : List Qpack.Field) : List Op → HS → Option Qpack.SendOut
  | [], _ => none
  | .closingGate :: r, st => runHdr env fs r st
  | .buildHeaders _ _ :: r, st => runHdr env fs r st
  | .openBidi :: r, st => runHdr env fs r st
  | .encode _ _ :: r, st =>
    match Qpack.encodeStateless? fs with
    | none => some .panic
    | some e => runHdr env fs r { st with enc := some e }
  | .readLimit .peerSettingsAtCall :: r, st =>
    runHdr env fs r { st with limit := some (Qpack.peerLimit env.cell) }
  | .readLimit (.handleField n) :: r, st => runHdr env fs r { st with limit := some (env.field n) }
  | .refuseIf c :: r, st =>
    match st.enc, st.limit with
    | some e, some l => if cmp c e.2 l then some (.refused e.2 l) else runHdr env fs r st
    | _, _ => none
  | .write _ .headers :: _, st => st.enc.map (fun e => .written e.1)
  | _ :: _, _ => none

theorem sendTrailers_limit (env : Env) (fs : List Qpack.Field) :
    runHdr env fs Gen.SendArms.sendTrailers {} = some (Qpack.sendSite env.cell fs) := by
  simp only [Gen.SendArms.sendTrailers, runHdr, Qpack.sendSite]
  cases Qpack.encodeStateless? fs with
  | none => rfl
  | some e =>
    simp only [cmp]
    by_cases hgt : e.2 > Qpack.peerLimit env.cell <;> simp [hgt]

theorem sendRequest_limit (env : Env) (fs : List Qpack.Field) :
    runHdr env fs Gen.SendArms.sendRequest {} = some (Qpack.sendSite env.cell fs) := by
  simp only [Gen.SendArms.sendRequest, runHdr, Qpack.sendSite]
  cases Qpack.encodeStateless? fs with
  | none => rfl
  | some e =>
    simp only [cmp]
    by_cases hgt : e.2 > Qpack.peerLimit env.cell <;> simp [hgt]

theorem sendResponse_limit (env : Env) (fs : List Qpack.Field) :
    runHdr env fs Gen.SendArms.sendResponse {} = some (Qpack.sendSite env.cell fs) := by
  simp only [Gen.SendArms.sendResponse, runHdr, Qpack.sendSite]
  cases Qpack.encodeStateless? fs with
  | none => rfl
  | some e =>
    simp only [cmp]
    by_cases hgt : e.2 > Qpack.peerLimit env.cell <;> simp [hgt]

/-- the message a call encodes is the one it has built; a failing encoder is a connection error
    H3_INTERNAL_ERROR (the model: `encode_stateless` never answers `Err`) -/
theorem encoded_messages :
    (Gen.SendArms.sendRequest.filter fun o => match o with | .buildHeaders .. | .encode .. => true | _ => false) =
      [.buildHeaders .request (some CODE_H3_INTERNAL_ERROR), .encode .request CODE_H3_INTERNAL_ERROR] ∧
    (Gen.SendArms.sendResponse.filter fun o => match o with | .buildHeaders .. | .encode .. => true | _ => false) =
      [.buildHeaders .response none, .encode .response CODE_H3_INTERNAL_ERROR] ∧
    (Gen.SendArms.sendTrailers.filter fun o => match o with | .buildHeaders .. | .encode .. => true | _ => false) =
      [.encode .trailer CODE_H3_INTERNAL_ERROR] := ⟨rfl, rfl, rfl⟩

/-! ### the 431 of `resolve` (`Qpack.serverResolve`) -/

/-- `accept_with_frame` keeps the size `decode_stateless` stopped at; `resolve` first awaits
    `send_response(StatusCode::REQUEST_HEADER_FIELDS_TOO_LARGE)` — status 431 of the `http` crate,
    the field section `Qpack.response431` —, an error of that send is what it returns (`?`), else
    `HeaderTooBig { actual_size: <that size>, max_size: self.max_field_section_size }`. -/
theorem resolveTooBig_shape :
    Gen.SendArms.resolveTooBig =
      { status := "REQUEST_HEADER_FIELDS_TOO_LARGE", sendErrorPropagates := true, actualIsCancelSize := true,
        maxField := "max_field_section_size" } := rfl

/-- … and the model does exactly that, the send being the generated `send_response` list -/
theorem serverResolve_tooBig (env : Env) (mfs n m : Nat) (s : Option Nat) (block : Qpack.Bytes)
    (h : Qpack.recvSite .serverRequest mfs block = .tooBig n m s) :
    m = mfs ∧
    Qpack.serverResolve mfs env.cell block =
      match runHdr env Qpack.response431 Gen.SendArms.sendResponse {} with
      | some (.written b) => .tooBig n m (some b)
      | some (.refused a pm) => .tooBig a pm none
      | _ => .panic := by
  constructor
  · unfold Qpack.recvSite at h
    split at h <;> simp_all
  · rw [sendResponse_limit]
    simp only [Qpack.serverResolve, h]
    cases Qpack.sendSite env.cell Qpack.response431 <;> rfl

/-! ### which frame goes out on which stream, the grease frame, FIN (`H3.SendSide`, `H3.E2E.SOp`) -/

/-- what a decision list does on the transport -/
inductive Eff where
  | write (on : Gen.SendArms.Target) (k : Gen.SendArms.Written)
  | greaseOnce (clears : Bool)
  | fin
deriving DecidableEq, Repr

def effects : List Op → List Eff
  | [] => []
  | .write on k :: r => .write on k :: effects r
  | .greaseOnce c :: r => .greaseOnce c :: effects r
  | .finish :: r => .fin :: effects r
  | _ :: r => effects r

def sframe (payload : List Nat) (gN : Nat) : Gen.SendArms.Written → WriteBuf.SFrame
  | .data => .data payload
  | .headers => .headers payload
  | .grease => .grease (WriteBuf.greaseId gN)

/-- the model's reading of the transport effects of one call on the handle's own stream: a single
    write starts a call; "the grease frame if this handle still owes one (clearing the flag), then
    `poll_finish`" is `finish()` -/
def onOwn (payload : List Nat) (gN : Nat) : List Eff → SendSide.Stream → Option SendSide.Stream
  | [.write .own k], s => some (s.start (WriteBuf.fromFrame (sframe payload gN k)))
  | [.greaseOnce true, .fin], s =>
    some (if s.grease then SendSide.greaseThenFin s (WriteBuf.fromFrame (sframe payload gN .grease))
          else { s with fin := true })
  | _, _ => none

theorem sendData_step (s : SendSide.Stream) (buf : List Nat) :
    E2E.SOp.apply s (.data buf) =
      SendSide.onRequest (fun s => (onOwn buf 0 (effects Gen.SendArms.sendData) s).getD s) s := rfl

theorem sendTrailers_step (s : SendSide.Stream) (fs : List Nat) :
    E2E.SOp.apply s (.headers fs) =
      SendSide.onRequest (fun s => (onOwn fs 0 (effects Gen.SendArms.sendTrailers) s).getD s) s := rfl

theorem sendResponse_step (s : SendSide.Stream) (fs : List Nat) :
    E2E.SOp.apply s (.headers fs) =
      SendSide.onRequest (fun s => (onOwn fs 0 (effects Gen.SendArms.sendResponse) s).getD s) s := rfl

theorem finish_step (s : SendSide.Stream) (gN : Nat) :
    E2E.SOp.apply s (.finish gN) =
      SendSide.onRequest (fun s => (onOwn [] gN (effects Gen.SendArms.finish) s).getD s) s := rfl

/-- the connection machine addresses the same functions (`step` of `H3.SendSide`) -/
theorem step_uses_calls (st : SendSide.State) (sid gN : Nat) (p : List Nat) :
    SendSide.step st (.sendData sid p) =
      { st with streams := SendSide.updateStream st.streams sid (fun s => E2E.SOp.apply s (.data p)) } ∧
    SendSide.step st (.sendHeaders sid p) =
      { st with streams := SendSide.updateStream st.streams sid (fun s => E2E.SOp.apply s (.headers p)) } ∧
    SendSide.step st (.finish sid gN) =
      { st with streams := SendSide.updateStream st.streams sid (fun s => E2E.SOp.apply s (.finish gN)) } :=
  ⟨rfl, rfl, rfl⟩

/-- the wrappers of `client::RequestStream` / `server::RequestStream` add nothing -/
theorem wrappers_delegate :
    Gen.SendArms.delegating =
      ["server::RequestStream::send_data", "server::RequestStream::send_trailers", "server::RequestStream::finish",
       "client::RequestStream::send_data", "client::RequestStream::send_trailers", "client::RequestStream::finish"] := rfl

/-! ### creating a handle: the grease flag, the receive limit -/

/-- the part of a creating call behind its last early return, read into `H3.SendSide.State`: the
    new stream takes the connection's grease flag, the connection's flag is cleared -/
def create (st : SendSide.State) (sid : Nat) (cur : Option WriteBuf.WB) : List Op → Option SendSide.State
  | [.newHandle _ true, .clearConnGrease, .okHandle] =>
    some { st with
      streams := st.streams ++ [(sid, (SendSide.mkStream .request none false st.connGrease).start cur)],
      connGrease := false }
  | _ => none

def fromNewHandle : List Op → List Op
  | [] => []
  | .newHandle a b :: r => .newHandle a b :: r
  | _ :: r => fromNewHandle r

theorem sendRequest_creates (st : SendSide.State) (sid : Nat) (fs : List Nat)
    (h : st.built ∧ st.server = false ∧ sid % 4 = 0 ∧ SendSide.hasStream st.streams sid = false) :
    some (SendSide.step st (.sendRequest sid fs)) =
      create st sid (WriteBuf.fromFrame (sframe fs 0 .headers)) (fromNewHandle Gen.SendArms.sendRequest) := by
  simp only [SendSide.step, if_pos h]
  rfl

theorem accept_creates (st : SendSide.State) (sid : Nat)
    (h : st.built ∧ st.server = true ∧ sid % 4 = 0 ∧ SendSide.hasStream st.streams sid = false) :
    some (SendSide.step st (.acceptRequest sid)) = create st sid none Gen.SendArms.serverAccept := by
  simp only [SendSide.step, if_pos h]
  rfl

/-- the frame of `send_request` goes out on the stream the call has opened, before the handle exists;
    the field the new handle gets as its *receive* limit is the connection object's own
    `max_field_section_size` (not the peer's) -/
theorem sendRequest_write_before_handle :
    effects Gen.SendArms.sendRequest = [.write .opened .headers] ∧
    fromNewHandle Gen.SendArms.sendRequest = [.newHandle "max_field_section_size" true, .clearConnGrease, .okHandle] ∧
    Gen.SendArms.serverAccept = [.newHandle "max_field_section_size" true, .clearConnGrease, .okHandle] :=
  ⟨rfl, rfl, rfl⟩

/-- `RequestStream::new` stores its arguments unchanged: no value of the peer's settings is kept in
    the handle -/
theorem handle_fields :
    Gen.SendArms.handleInit =
      [("conn_state", "conn_state"), ("max_field_section_size", "max_field_section_size"),
       ("send_grease_frame", "grease"), ("stream", "stream"), ("trailers", "None")] := rfl

/-! ### the peer's SETTINGS become `config::Settings` (`H3.Config.fromSettings`, `Cell`) -/

def natField (s : Settings.Settings) (dflt : Nat) (f : Gen.SendArms.FromSetting) : Option Nat :=
  match f.conv with
  | .raw => some ((Settings.get s f.id).getD dflt)
  | .rawZeroIsDefault => some (((Settings.get s f.id).filter (· != 0)).getD dflt)
  | .nonZero => none

def boolField (s : Settings.Settings) (dflt : Bool) (f : Gen.SendArms.FromSetting) : Option Bool :=
  match f.conv with
  | .nonZero => some (((Settings.get s f.id).map (· != 0)).getD dflt)
  | _ => none

/-- `From<&frame::Settings> for Settings` as the generated per-field table says -/
def genFrom (s : Settings.Settings) : Option Config.Record := do
  let mfs ← natField s Config.Record.default.mfs Gen.SendArms.from_max_field_section_size
  let wt ← boolField s Config.Record.default.wt Gen.SendArms.from_enable_webtransport
  let ec ← boolField s Config.Record.default.ec Gen.SendArms.from_enable_extended_connect
  let dg ← boolField s Config.Record.default.dg Gen.SendArms.from_enable_datagram
  let wts ← natField s Config.Record.default.wts Gen.SendArms.from_max_webtransport_sessions
  pure { mfs := mfs, wt := wt, ec := ec, dg := dg, wts := wts }

theorem fromSettings_agrees (s : Settings.Settings) : some (Config.fromSettings s) = genFrom s := rfl

/-- the settings cell: written once, read at every call (`settings()` = the stored record or the
    defaults) — the generated flag only records that the three shapes were found -/
theorem settings_cell (c : Config.Cell) (r r' : Config.Record) :
    Gen.SendArms.settingsCellWriteOnce = true ∧
    ((c.set r).set r').get = (c.set r).get ∧ Config.Cell.new.get = Config.Record.default ∧
    (Config.Cell.new.set r).get = r := by
  refine ⟨rfl, ?_, rfl, rfl⟩
  cases c with
  | mk v => cases v <;> rfl

end H3.GenAgree.Send
