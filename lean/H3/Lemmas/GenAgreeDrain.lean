import H3.Model.Drain
import H3.Gen.DrainArms
/-! Agreement of the drain model (`H3.Drain`; C09) with what the translator reads, on every run, about the
    request-end channel (`H3.Gen.DrainArms`, `tools/extract.py` `drain_arms`): the constructor of the channel in
    `server::Builder::build` and the types of the fields that hold its ends, the whole body of
    `impl Drop for RequestEnd`, how the resolver and the request stream hold the `RequestEnd` (`Arc`), how
    `accept_with_frame` hands it on and what `split()` gives to each half.

    The model's channel is a list that grows without limit (`chan := s.chan ++ [id]`), its `dropHandle` sends
    when the LAST owner goes, its `clone` event adds one owner.  Here tokio's two channels are written down as far
    as a sender sees them (`callOn`: an unbounded channel takes every value while the receiver exists; a bounded
    one is full at its capacity), the generated `Drop` body is *run* on them (`runDrop`), and the owners'
    bookkeeping is rebuilt from the generated sharing facts (`genDropHandle`, `genSplit`); each is proved equal to
    the model's function for every state.  With `mpsc::channel(n)` (`send_never_full`, `drop_sends`), a `Drop` body
    that does not send or does something else with the error (refused by the translator), a `RequestEnd` held by
    value (`dropHandle_agrees`) or a half of `split()` that gets something else (`split_agrees`) there is no such
    equality. -/
namespace H3.GenAgree.Drain
open H3.Drain
open H3.Gen.DrainArms

/-! ### the channel -/

/-- what one call of a sender's method gives -/
inductive SendRes where
  /-- the value is in the queue (and the receiver's registered waker is woken: tokio, trusted) -/
  | sent (q : List Nat)
  /-- `TrySendError::Full` -/
  | full
  /-- `SendError` / `TrySendError::Closed`: the receiver has been closed or dropped -/
  | closed
  /-- not a call that sends by itself: `UnboundedSender` has no `try_send`; `Sender::send` is a future, which a
      synchronous `drop` does not await -/
  | notACall
deriving DecidableEq, Repr

/-- tokio's mpsc channels seen from a sender: `q` = the values waiting (oldest first), `alive` = the receiver
    exists and has not been closed -/
def callOn : Chan → SendCall → (alive : Bool) → List Nat → Nat → SendRes
  | .unbounded, .send, true, q, id => .sent (q ++ [id])
  | .unbounded, .send, false, _, _ => .closed
  | .unbounded, .trySend, _, _, _ => .notACall
  | .bounded _, .send, _, _, _ => .notACall
  | .bounded cap, .trySend, true, q, id => if q.length < cap then .sent (q ++ [id]) else .full
  | .bounded _, .trySend, false, _, _ => .closed

/-- the constructor and the three field types name the same, unbounded, channel -/
theorem channel_unbounded :
    channel = .unbounded ∧ connSender = .unbounded ∧ connReceiver = .unbounded ∧ endSender = .unbounded :=
  ⟨rfl, rfl, rfl, rfl⟩

/-- **No capacity.**  Whatever is waiting in the request-end channel — any number of notifications —, a `send`
    while the connection exists appends the value: it is never refused for lack of room and there is nothing to
    wait for.  This is the model's `chan := s.chan ++ [id]`. -/
theorem send_never_full (q : List Nat) (id : Nat) : callOn channel .send true q id = .sent (q ++ [id]) := rfl

/-- the only way a `send` on this channel fails is a receiver that is gone -/
theorem send_fails_only_closed (alive : Bool) (q : List Nat) (id : Nat) :
    callOn channel .send alive q id = .sent (q ++ [id]) ∨ (alive = false ∧ callOn channel .send alive q id = .closed) := by
  cases alive
  · exact .inr ⟨rfl, rfl⟩
  · exact .inl rfl

/-! ### `impl Drop for RequestEnd` -/

/-- the state of a run of the `Drop` body: the channel's queue, whether a value went in (⇒ the receiver's task is
    woken), the `Result` of a call that nothing has looked at yet -/
structure DropSt where
  q : List Nat
  woke : Bool := false
  result : Option SendRes := none
deriving DecidableEq, Repr

/-- the generated `Drop` body run on a channel `ch` whose receiver is `alive`, for the `RequestEnd` of stream `id`:
    `none` = the body is not one this reading covers (a `Result` left unlooked-at, a second call before the first
    result is consumed, a method the sender does not have) -/
def runDrop (ch : Chan) (alive : Bool) (id : Nat) : List DropOp → DropSt → Option DropSt
  | [], st => if st.result.isNone then some st else none
  | .sendId call :: r, st =>
    match st.result, callOn ch call alive st.q id with
    | some _, _ => none
    | none, .notACall => none
    | none, .sent q' => runDrop ch alive id r { q := q', woke := true, result := some (.sent q') }
    | none, res => runDrop ch alive id r { st with result := some res }
  | .ignoreErr :: r, st =>
    match st.result with
    | none => none
    -- `Ok(())`, `Closed` and `Full` alike: nothing happens
    | some _ => runDrop ch alive id r { st with result := none }

/-- **`Drop` sends the stream id, once, and only that.**  While the connection exists the body leaves the queue
    with exactly `id` appended, whatever was waiting (no loss at any length), and the receiver woken. -/
theorem drop_sends (q : List Nat) (id : Nat) :
    runDrop channel true id dropBody { q := q } = some { q := q ++ [id], woke := true } := rfl

/-- … and once the connection (the receiver) is gone the body does nothing at all: the error of the closed channel
    is the one error there is (`send_fails_only_closed`), and it is ignored — no panic in `drop`. -/
theorem drop_after_connection_gone (q : List Nat) (id : Nat) :
    runDrop channel false id dropBody { q := q } = some { q := q } := rfl

/-- the body calls `send`, the method of the sender type the field has -/
theorem drop_calls_send : dropBody = [.sendId .send, .ignoreErr] ∧ endSender = .unbounded := ⟨rfl, rfl⟩

/-! ### owners: resolver → stream → halves -/

/-- `RequestEnd::drop` for stream `id` on the model's state: the generated body run on the connection's channel
    (the model has no state in which the connection is gone); a value that went in wakes the task awaiting
    `accept()` -/
def genEndDrop (s : State) (id : Nat) : Option State :=
  (runDrop channel true id dropBody { q := s.chan }).map fun r =>
    let s' := { s with chan := r.q }
    if r.woke then wakeUp s' else s'

/-- the `RequestEnd` is made inside an `Arc` and every handle holds that `Arc` -/
def shared : Bool := decide (created = .arc ∧ resolverHolds = .arc ∧ streamHolds = .arc)

/-- one owner of request `id` goes away.  Shared through an `Arc`: `RequestEnd::drop` runs when no other owner is
    left.  Held by value: every holder's own copy is dropped, each time. -/
def genDropHandle (s : State) (id : Nat) : Option State :=
  if s.handles.contains id then
    let h := s.handles.erase id
    if shared && h.contains id then some { s with handles := h }
    else genEndDrop { s with handles := h } id
  else some s

/-- **The model's `dropHandle` is the generated `Drop` body behind the generated sharing.** -/
theorem dropHandle_agrees (s : State) (id : Nat) : some (dropHandle s id) = genDropHandle s id := by
  have hsh : shared = true := by decide
  have hend : ∀ t : State, genEndDrop t id = some (wakeUp { t with chan := t.chan ++ [id] }) := by
    intro t
    simp [genEndDrop, drop_sends]
  unfold dropHandle genDropHandle
  by_cases h : s.handles.contains id = true
  · rw [if_pos h, if_pos h]
    by_cases h2 : (s.handles.erase id).contains id = true
    · simp only [h2, hsh, Bool.and_self, if_true]
    · have h2' : (s.handles.erase id).contains id = false := by simpa using h2
      simp only [h2', hsh, Bool.and_false, if_false, hend, Bool.false_eq_true]
  · rw [if_neg h, if_neg h]

/-- `accept_with_frame` moves the resolver's `Arc` into the request stream: the owners of the request are the same
    before and after (the model has no event for it) -/
theorem resolve_moves : resolveGets = .move := rfl

/-- `split(self)` for a holder of request `id`: every half that gets `self.<field>.clone()` is one more owner; a
    half that gets `self.<field>` takes over the owner that `self` was; if no half does, `self`'s own is dropped
    when `split` returns.  Two moves of one value are not Rust. -/
def genSplit (halves : List Gets) (s : State) (id : Nat) : Option State :=
  if s.handles.contains id then
    let withClones : State := { s with handles := (halves.filter (· == .clone)).foldl (fun h _ => id :: h) s.handles }
    match (halves.filter (· == .move)).length with
    | 0 => genDropHandle withClones id
    | 1 => some withClones
    | _ => none
  else some s

/-- **The model's `clone` event is `split()`**: two halves, one gets a clone of the `Arc`, the other the `Arc`
    itself — one owner more than before, none dropped. -/
theorem split_agrees (s : State) (id : Nat) : some (step s (.clone id)).1 = genSplit splitHalves s id := by
  unfold genSplit
  by_cases h : s.handles.contains id = true
  · have h' : id ∈ s.handles := by simpa using h
    simp [step, h', splitHalves]
  · have h' : id ∉ s.handles := by simpa using h
    simp [step, h']

theorem split_two_halves : splitHalves.length = 2 := rfl

/-- **The end of a split request is reported once, when the last half goes.**  For a request with one owner (the
    request stream): after `split()`, dropping one half leaves the channel as it was and the request among the
    owners; dropping the other appends the id to the channel — exactly once; a further drop does nothing. -/
theorem last_half_reports (s : State) (id : Nat) (h1 : s.handles.count id = 1) :
    let s1 := (step s (.clone id)).1
    let s2 := dropHandle s1 id
    let s3 := dropHandle s2 id
    s2.chan = s.chan ∧ s2.handles.contains id = true ∧
    s3.chan = s.chan ++ [id] ∧ s3.handles.contains id = false ∧ dropHandle s3 id = s3 := by
  have hm : id ∈ s.handles := List.count_pos_iff.mp (by omega)
  have he : id ∉ s.handles.erase id := by
    have : (s.handles.erase id).count id = 0 := by simp [List.count_erase_self, h1]
    exact List.count_eq_zero.mp this
  simp [step, hm, dropHandle, he, wakeUp]

end H3.GenAgree.Drain
