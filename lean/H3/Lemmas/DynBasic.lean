import H3.Model.Dyn
/-! Basic lemmas for the stateful-QPACK model: `Res`, association lists, reference counts. -/
namespace H3.Dyn

/-! ### `Res` -/

@[simp] theorem Res.bind_ok (a : α) (f : α → Res β) : (Res.ok a).bind f = f a := rfl
@[simp] theorem Res.bind_err (e : Err) (f : α → Res β) : (Res.err e : Res α).bind f = .err e := rfl
@[simp] theorem Res.bind_panic (s : Site) (f : α → Res β) : (Res.panic s : Res α).bind f = .panic s := rfl

theorem Res.bind_eq_ok {x : Res α} {f : α → Res β} {b : β} :
    x.bind f = .ok b ↔ ∃ a, x = .ok a ∧ f a = .ok b := by
  cases x <;> simp [Res.bind]

theorem csub_ok {a b : Nat} {s : Site} (h : b ≤ a) : csub a b s = .ok (a - b) := by
  simp [csub, h]

/-! ### association lists -/

section AList
variable {κ ν : Type} [DecidableEq κ]

@[simp] theorem aget_nil (x : κ) : aget ([] : List (κ × ν)) x = none := rfl

theorem aget_cons (k : κ) (v : ν) (r : List (κ × ν)) (x : κ) :
    aget ((k, v) :: r) x = if k = x then some v else aget r x := rfl

@[simp] theorem aget_aset_self (m : List (κ × ν)) (k : κ) (v : ν) : aget (aset m k v) k = some v := by
  induction m with
  | nil => simp [aset, aget]
  | cons p r ih =>
    obtain ⟨k', v'⟩ := p
    by_cases h : k' = k
    · simp [aset, aget, h]
    · simp [aset, aget, h, ih]

theorem aget_aset_ne (m : List (κ × ν)) {k x : κ} (v : ν) (h : k ≠ x) : aget (aset m k v) x = aget m x := by
  induction m with
  | nil => simp [aset, aget, h]
  | cons p r ih =>
    obtain ⟨k', v'⟩ := p
    by_cases h' : k' = k
    · subst h'; simp [aset, aget, h]
    · simp only [aset, if_neg h', aget_cons, ih]

theorem aget_aset (m : List (κ × ν)) (k x : κ) (v : ν) :
    aget (aset m k v) x = if k = x then some v else aget m x := by
  by_cases h : k = x
  · subst h; simp
  · simp [aget_aset_ne m v h, h]

@[simp] theorem aget_aerase_self (m : List (κ × ν)) (k : κ) : aget (aerase m k) k = none := by
  induction m with
  | nil => rfl
  | cons p r ih =>
    obtain ⟨k', v'⟩ := p
    by_cases h : k' = k
    · simpa [aerase, List.filter, h] using ih
    · simp only [aerase, ne_eq, h, not_false_eq_true, decide_true, List.filter_cons_of_pos, aget_cons]
      exact ih

theorem aget_aerase_ne (m : List (κ × ν)) {k x : κ} (h : k ≠ x) : aget (aerase m k) x = aget m x := by
  induction m with
  | nil => rfl
  | cons p r ih =>
    obtain ⟨k', v'⟩ := p
    by_cases h' : k' = k
    · subst h'
      simp only [aerase, ne_eq, not_true_eq_false, decide_false, Bool.false_eq_true, not_false_eq_true,
        List.filter_cons_of_neg, aget_cons, if_neg h]
      exact ih
    · simp only [aerase, ne_eq, h', not_false_eq_true, decide_true, List.filter_cons_of_pos, aget_cons]
      split
      · rfl
      · exact ih

theorem aget_aerase (m : List (κ × ν)) (k x : κ) :
    aget (aerase m k) x = if k = x then none else aget m x := by
  by_cases h : k = x
  · subst h; simp
  · simp [aget_aerase_ne m h, h]

/-- a binding found by `aget` is a member -/
theorem aget_mem {m : List (κ × ν)} {k : κ} {v : ν} (h : aget m k = some v) : (k, v) ∈ m := by
  induction m with
  | nil => simp at h
  | cons p r ih =>
    obtain ⟨k', v'⟩ := p
    rw [aget_cons] at h
    split at h
    · rename_i hk; subst hk; simp at h; subst h; simp
    · exact List.mem_cons_of_mem _ (ih h)

def keys (m : List (κ × ν)) : List κ := m.map (·.1)

theorem aget_none_iff {m : List (κ × ν)} {k : κ} : aget m k = none ↔ k ∉ keys m := by
  induction m with
  | nil => simp [keys]
  | cons p r ih =>
    obtain ⟨k', v'⟩ := p
    rw [aget_cons]
    by_cases h : k' = k
    · simp [h, keys]
    · simp only [if_neg h, ih, keys, List.map_cons, List.mem_cons, not_or]
      constructor
      · intro h2; exact ⟨fun e => h e.symm, h2⟩
      · intro h2; exact h2.2

theorem keys_aset (m : List (κ × ν)) (k : κ) (v : ν) :
    keys (aset m k v) = if k ∈ keys m then keys m else keys m ++ [k] := by
  induction m with
  | nil => simp [aset, keys]
  | cons p r ih =>
    obtain ⟨k', v'⟩ := p
    by_cases h : k' = k
    · subst h; simp [aset, keys]
    · have hk : ¬ k = k' := fun e => h e.symm
      simp only [aset, if_neg h, keys, List.map_cons, List.mem_cons, hk, false_or] at ih ⊢
      rw [ih]; split <;> simp_all

theorem nodup_keys_aset {m : List (κ × ν)} (k : κ) (v : ν) (h : (keys m).Nodup) : (keys (aset m k v)).Nodup := by
  rw [keys_aset]
  split
  · exact h
  · rename_i hk
    exact List.nodup_append.mpr ⟨h, by simp, by
      intro a ha b hb
      simp at hb; subst hb
      intro e; subst e; exact hk ha⟩

theorem nodup_keys_aerase {m : List (κ × ν)} (k : κ) (h : (keys m).Nodup) : (keys (aerase m k)).Nodup := by
  unfold keys aerase at *
  exact (List.Nodup.sublist (List.Sublist.map _ List.filter_sublist) h)

end AList

/-! ### reference counts -/

@[simp] theorem cnt_nil (a : Nat) : cnt [] a = 0 := rfl

theorem cnt_aset (m : RefMap) (k a v : Nat) : cnt (aset m k v) a = if k = a then v else cnt m a := by
  unfold cnt; rw [aget_aset]; split <;> rfl

theorem cnt_aerase (m : RefMap) (k a : Nat) : cnt (aerase m k) a = if k = a then 0 else cnt m a := by
  unfold cnt; rw [aget_aerase]; split <;> rfl

theorem cnt_pos_of_mem_nodup {m : RefMap} (h : (keys m).Nodup) {a c : Nat} (hm : (a, c) ∈ m) : cnt m a = c := by
  induction m with
  | nil => simp at hm
  | cons p r ih =>
    obtain ⟨k', v'⟩ := p
    simp only [keys, List.map_cons, List.nodup_cons] at h
    unfold cnt
    rw [aget_cons]
    rcases List.mem_cons.mp hm with e | e
    · simp at e; obtain ⟨rfl, rfl⟩ := e; simp
    · have : k' ≠ a := by
        intro e'; subst e'
        exact h.1 (List.mem_map.mpr ⟨(k', c), e, rfl⟩)
      simp only [if_neg this]
      exact ih h.2 e

end H3.Dyn
