import H3.Model.Iso
import H3.Lemmas.ReqRecv
/-! Lemmas for C07: (1) the product machine — a step touches one stream and the cell; a history
    none of whose steps writes the cell decomposes into the runs of its streams; (2) the cell
    discipline of the `ReqRecv` polls — the cell changes only in a call that answers a
    connection-level error; (3) the documented pattern inside the product equals
    `ReqRecv.documented`. -/
namespace H3.Iso
open H3.Gen.Consts
open H3.ReqRecv (Role Res St FSt Env fsSrc fsFuel first)

/-! ### (1) the product -/

@[simp] theorem get_set (c : Conn) (i j : Nat) (r : Req) :
    (c.set i r).get j = if i = j then r else c.get j := by
  simp [Conn.get, Conn.set, lookup]

@[simp] theorem set_cell (c : Conn) (i : Nat) (r : Req) : (c.set i r).cell = c.cell := rfl
@[simp] theorem set_closed (c : Conn) (i : Nat) (r : Req) : (c.set i r).closed = c.closed := rfl

/-- a step on stream `i` leaves every other stream's state as it was -/
theorem step_other (cfg : Cfg) (c : Conn) (i j : Nat) (ev : StreamEv) (h : j ≠ i) :
    (step cfg c (i, ev)).1.get j = c.get j := by
  simp only [step, get_set]
  rw [if_neg (fun e => h e.symm)]
  rfl

theorem step_self (cfg : Cfg) (c : Conn) (i : Nat) (ev : StreamEv) :
    (step cfg c (i, ev)).1.get i = (Req.step cfg c.cell (c.get i) ev).1 := by
  simp [step]

theorem step_cell (cfg : Cfg) (c : Conn) (i : Nat) (ev : StreamEv) :
    (step cfg c (i, ev)).1.cell = (Req.step cfg c.cell (c.get i) ev).2.1 := rfl

theorem step_obs (cfg : Cfg) (c : Conn) (i : Nat) (ev : StreamEv) :
    (step cfg c (i, ev)).2 = (Req.step cfg c.cell (c.get i) ev).2.2 := rfl

/-- no step ever calls `close`: only the driver does -/
theorem step_closed (cfg : Cfg) (c : Conn) (x : Nat × StreamEv) : (step cfg c x).1.closed = c.closed := rfl

theorem drive_of_empty (c : Conn) (h : c.cell = none) : drive c = c := by
  simp [drive, h]

/-- every stream's own run, started with the cell empty, never writes the cell -/
def QuietHist (cfg : Cfg) (c : Conn) (h : List HEv) : Prop := ∀ i, Req.quiet cfg (c.get i) (proj i h)

theorem proj_on_same (j : Nat) (ev : StreamEv) (rest : List HEv) :
    proj j (.on j ev :: rest) = ev :: proj j rest := by simp [proj]

theorem proj_on_other {i j : Nat} (h : i ≠ j) (ev : StreamEv) (rest : List HEv) :
    proj j (.on i ev :: rest) = proj j rest := by simp [proj, h]

theorem run_cons (cfg : Cfg) (c : Conn) (e : HEv) (rest : List HEv) :
    run cfg c (e :: rest) =
      ((run cfg (hstep cfg c e).1 rest).1, (hstep cfg c e).2 ++ (run cfg (hstep cfg c e).1 rest).2) := rfl

theorem Req.run_cons (cfg : Cfg) (cell : Option Nat) (r : Req) (ev : StreamEv) (rest : List StreamEv) :
    Req.run cfg cell r (ev :: rest) =
      ((Req.run cfg (Req.step cfg cell r ev).2.1 (Req.step cfg cell r ev).1 rest).1,
       (Req.run cfg (Req.step cfg cell r ev).2.1 (Req.step cfg cell r ev).1 rest).2.1,
       (Req.step cfg cell r ev).2.2 ::
         (Req.run cfg (Req.step cfg cell r ev).2.1 (Req.step cfg cell r ev).1 rest).2.2) := rfl

/-- The decomposition: in a history none of whose streams writes the cell, the cell stays empty,
    `close` is never called, and what the run looks like from ANY stream `j` — final state and
    observations — is the run of `j`'s own events alone. Induction over the history. -/
theorem run_decomposes (cfg : Cfg) : ∀ (h : List HEv) (c : Conn), c.cell = none → c.closed = [] →
    QuietHist cfg c h →
    (run cfg c h).1.cell = none ∧ (run cfg c h).1.closed = [] ∧
    ∀ j, view j (run cfg c h) =
          ((Req.run cfg none (c.get j) (proj j h)).1, (Req.run cfg none (c.get j) (proj j h)).2.2) ∧
         (Req.run cfg none (c.get j) (proj j h)).2.1 = none := by
  intro h
  induction h with
  | nil => intro c hc hcl _; exact ⟨hc, hcl, fun j => ⟨rfl, rfl⟩⟩
  | cons e rest ih =>
    intro c hc hcl hq
    cases e with
    | drive =>
      have hd : hstep cfg c .drive = (c, []) := by simp [hstep, drive_of_empty c hc]
      rw [run_cons, hd]
      have := ih c hc hcl (fun i => by simpa [proj] using hq i)
      simpa [proj, view] using this
    | on sid ev =>
      have hs := hq sid
      rw [proj_on_same] at hs
      obtain ⟨hcell, hrest⟩ := hs
      -- the connection after the step
      have hc' : (step cfg c (sid, ev)).1.cell = none := by rw [step_cell, hc]; exact hcell
      have hcl' : (step cfg c (sid, ev)).1.closed = [] := hcl
      have hq' : QuietHist cfg (step cfg c (sid, ev)).1 rest := by
        intro i
        by_cases hi : i = sid
        · subst hi
          rw [step_self, hc]
          exact hrest
        · rw [step_other cfg c sid i ev hi]
          have := hq i
          rwa [proj_on_other (fun e => hi e.symm)] at this
      obtain ⟨h1, h2, h3⟩ := ih _ hc' hcl' hq'
      rw [run_cons]
      refine ⟨h1, h2, fun j => ?_⟩
      obtain ⟨hv, hn⟩ := h3 j
      simp only [view, hstep] at hv ⊢
      by_cases hj : sid = j
      · subst hj
        rw [proj_on_same, Req.run_cons]
        rw [step_self, hc] at hv hn
        rw [hcell]
        simp only [List.cons_append, List.nil_append, obsOf, if_true, step_obs, hc]
        rw [Prod.mk.injEq] at hv ⊢
        exact ⟨⟨hv.1, by rw [hv.2]⟩, hn⟩
      · rw [proj_on_other hj]
        rw [step_other cfg c sid j ev (fun e => hj e.symm)] at hv hn
        simp only [List.cons_append, List.nil_append, obsOf, if_neg hj]
        exact ⟨hv, hn⟩

/-- quietness only looks at each stream's own events -/
theorem quietHist_congr (cfg : Cfg) (c : Conn) (h₁ h₂ : List HEv) (h : ∀ j, proj j h₁ = proj j h₂)
    (hq : QuietHist cfg c h₁) : QuietHist cfg c h₂ := fun i => by rw [← h i]; exact hq i

/-- the history with the streams of `F` removed -/
def without (F : Nat → Bool) : List HEv → List HEv
  | [] => []
  | .on sid ev :: rest => if F sid then without F rest else .on sid ev :: without F rest
  | .drive :: rest => .drive :: without F rest

theorem proj_without (F : Nat → Bool) (j : Nat) : ∀ h : List HEv,
    proj j (without F h) = if F j then [] else proj j h := by
  intro h
  induction h with
  | nil => simp [without, proj]
  | cons e rest ih =>
    cases e with
    | drive => simpa [without, proj] using ih
    | on sid ev =>
      by_cases hF : F sid = true
      · simp only [without, hF, if_true, ih, proj]
        by_cases hj : sid = j
        · subst hj; simp [hF]
        · simp [hj]
      · have hF' : F sid = false := by simpa using hF
        simp only [without, hF', Bool.false_eq_true, if_false]
        by_cases hj : sid = j
        · subst hj; rw [proj_on_same, proj_on_same, ih]; simp [hF']
        · rw [proj_on_other hj, proj_on_other hj, ih]

/-- the history consisting of the events of stream `j` only -/
def only (j : Nat) (h : List HEv) : List HEv := (proj j h).map (.on j)

theorem proj_only (j k : Nat) (h : List HEv) : proj k (only j h) = if j = k then proj j h else [] := by
  unfold only
  induction proj j h with
  | nil => simp [proj]
  | cons e rest ih =>
    by_cases hk : j = k
    · simp [proj, hk] at ih ⊢; exact ih
    · simp [proj, hk] at ih ⊢; exact ih

/-! ### (2) the cell discipline of the request layer, for any frame layer

Only `connErr` (`handle_connection_error_on_stream`) writes the cell, and the call that runs it
answers `StreamError::ConnectionError`.  So a call that answers anything else — a value, `Pending`,
a stream-level error — leaves the cell as it found it. -/

section Cell
open H3.ReqRecv
variable {σ : Type}

def resConn : Res → Bool
  | .errConn _ => true
  | _ => false

/-- the call leaves the cell alone unless it answers a connection-level error -/
def CellOk (c0 : Option Nat) (x : Res × St σ) : Prop := resConn x.1 = false → x.2.env.cell = c0

theorem connErr_isConn (st : St σ) (c : Nat) : resConn (connErr st c).1 = true := by
  unfold connErr; split <;> rfl

theorem connErr_ok (st : St σ) (c : Nat) (c0 : Option Nat) : CellOk c0 (connErr st c) := by
  intro h; rw [connErr_isConn] at h; cases h

theorem fsErr_ok (st : St σ) (o : FOut) : CellOk st.env.cell (fsErr st o) := by
  cases o <;> first | (intro _; rfl) | exact connErr_ok _ _ _

theorem pollResolve_ok (S : Src σ) (H : ReqRecv.Hdr) (st : St σ) : CellOk st.env.cell (pollResolve S H st) := by
  unfold pollResolve
  generalize S.pollNext st.src = p
  obtain ⟨o, s'⟩ := p
  cases o with
  | frame fr =>
    cases fr with
    | headers enc =>
      simp only
      cases H.head enc <;> first | (intro _; rfl) | exact connErr_ok _ _ _
    | _ => exact connErr_ok _ _ _
  | none => intro _; rfl
  | pending => intro _; rfl
  | _ => exact fsErr_ok { st with src := s' } _

theorem pollRecvResponse_ok (S : Src σ) (H : ReqRecv.Hdr) (st : St σ) :
    CellOk st.env.cell (pollRecvResponse S H st) := by
  unfold pollRecvResponse
  generalize S.pollNext st.src = p
  obtain ⟨o, s'⟩ := p
  cases o with
  | frame fr =>
    cases fr with
    | headers enc =>
      simp only
      cases H.head enc <;> first | (intro _; rfl) | exact connErr_ok _ _ _
    | _ => exact connErr_ok _ _ _
  | none => intro _; rfl
  | pending => intro _; rfl
  | _ => exact fsErr_ok { st with src := s' } _

theorem pollHead_ok (role : Role) (S : Src σ) (H : ReqRecv.Hdr) (st : St σ) :
    CellOk st.env.cell (pollHead role S H st) := by
  cases role
  · exact pollResolve_ok S H st
  · exact pollRecvResponse_ok S H st

theorem dataOut_ok (st : St σ) (o : FOut) : CellOk st.env.cell (dataOut st o) := by
  cases o <;> first | (intro _; rfl) | exact connErr_ok _ _ _

theorem pollRecvData_ok (S : Src σ) : ∀ (fuel : Nat) (st : St σ),
    CellOk st.env.cell (pollRecvData S fuel st) := by
  intro fuel
  induction fuel with
  | zero => intro st _; rfl
  | succ f ih =>
    intro st
    rw [pollRecvData]
    by_cases hd : S.hasData st.src = true
    · rw [if_pos hd]
      generalize S.pollData st.src = p
      obtain ⟨o, s'⟩ := p
      exact dataOut_ok { st with src := s' } o
    · rw [if_neg hd]
      generalize S.pollNext st.src = p
      obtain ⟨o, s'⟩ := p
      cases o with
      | frame fr =>
        cases fr with
        | headers enc => intro _; rfl
        | data n => exact ih { st with src := s' }
        | _ => exact connErr_ok _ _ _
      | none => intro _; rfl
      | pending => intro _; rfl
      | data d => intro _; rfl
      | _ => exact fsErr_ok { st with src := s' } _

theorem decodeTrailers_ok (H : ReqRecv.Hdr) (st : St σ) (enc : Bytes) :
    CellOk st.env.cell (decodeTrailers H st enc) := by
  unfold decodeTrailers
  cases H.trailer enc <;> first | (intro _; rfl) | exact connErr_ok _ _ _

theorem trailersCheck_ok (S : Src σ) (H : ReqRecv.Hdr) (st : St σ) (enc : Bytes) :
    CellOk st.env.cell (trailersCheck S H st enc) := by
  unfold trailersCheck
  generalize S.pollNext st.src = p
  obtain ⟨o, s'⟩ := p
  cases o with
  | frame fr => exact connErr_ok _ _ _
  | none => exact decodeTrailers_ok H { st with src := s' } enc
  | pending => intro _; rfl
  | data d => intro _; rfl
  | _ => exact fsErr_ok { st with src := s' } _

theorem trailersTail_ok (S : Src σ) (H : ReqRecv.Hdr) (st : St σ) (enc : Bytes) :
    CellOk st.env.cell (trailersTail S H st enc) := by
  unfold trailersTail
  split
  · exact decodeTrailers_ok H st enc
  · exact trailersCheck_ok S H st enc

theorem trailersFirst_ok (S : Src σ) (H : ReqRecv.Hdr) (st : St σ) :
    CellOk st.env.cell (trailersFirst S H st) := by
  unfold trailersFirst
  generalize S.pollNext st.src = p
  obtain ⟨o, s'⟩ := p
  cases o with
  | frame fr =>
    cases fr with
    | headers enc => exact trailersTail_ok S H { st with src := s' } enc
    | _ => exact connErr_ok _ _ _
  | none => intro _; rfl
  | pending => intro _; rfl
  | data d => intro _; rfl
  | _ => exact fsErr_ok { st with src := s' } _

theorem pollRecvTrailers_ok (S : Src σ) (H : ReqRecv.Hdr) (st : St σ) :
    CellOk st.env.cell (pollRecvTrailers S H st) := by
  unfold pollRecvTrailers
  split
  · exact trailersTail_ok S H { st with trailers := none } _
  · exact trailersFirst_ok S H st

theorem drain_ok (S : Src σ) : ∀ (fuel : Nat) (st : St σ),
    (∀ r ∈ (drain S fuel st).1, resConn r = false) → (drain S fuel st).2.env.cell = st.env.cell := by
  intro fuel
  induction fuel with
  | zero => intro st _; rfl
  | succ f ih =>
    intro st
    rw [drain]
    have h1 := pollRecvData_ok S (f + 1) st
    generalize pollRecvData S (f + 1) st = p at h1
    obtain ⟨r, st'⟩ := p
    cases r with
    | data d =>
      intro h
      have h2 := ih st' (fun r hr => h r (by simp [hr]))
      simp only at h2 ⊢
      rw [h2]
      exact h1 rfl
    | _ =>
      intro h
      exact h1 (h _ (by simp))

end Cell

/-! the same for the steps of the product -/

def Ans.isConn : Ans → Bool
  | .res r => resConn r
  | .tooBig => false

def optConn : Option Ans → Bool
  | some a => a.isConn
  | none => false

/-- the application was told `StreamError::ConnectionError` in this step -/
def Obs.isConn : Obs → Bool
  | .ans a => a.isConn
  | .body rs t => rs.any resConn || optConn t
  | _ => false

theorem trailersPoll_ok (cfg : Cfg) (st : St FSt) :
    (trailersPoll cfg st).1.isConn = false → (trailersPoll cfg st).2.env.cell = st.env.cell := by
  unfold trailersPoll
  have h := pollRecvTrailers_ok fsSrc cfg.hdr.base st
  generalize H3.ReqRecv.pollRecvTrailers fsSrc cfg.hdr.base st = p at h
  obtain ⟨res, st'⟩ := p
  cases res with
  | trailers enc =>
    simp only
    split <;> intro _ <;> exact h rfl
  | _ => intro hh; exact h hh

theorem stepHead_ok (cfg : Cfg) (cell : Option Nat) (r : Req) :
    (stepHead cfg cell r).2.2.isConn = false → (stepHead cfg cell r).2.1 = cell := by
  unfold stepHead
  have h := pollHead_ok cfg.role fsSrc cfg.hdr.base (load cell r.rx)
  generalize H3.ReqRecv.pollHead cfg.role fsSrc cfg.hdr.base (load cell r.rx) = p at h
  obtain ⟨res, st'⟩ := p
  cases res with
  | head enc =>
    simp only
    split <;> intro _ <;> exact h rfl
  | _ => intro hh; exact h hh

theorem stepData_ok (cell : Option Nat) (r : Req) :
    (stepData cell r).2.2.isConn = false → (stepData cell r).2.1 = cell :=
  pollRecvData_ok fsSrc (fsFuel r.rx.src) (load cell r.rx)

theorem stepTrailers_ok (cfg : Cfg) (cell : Option Nat) (r : Req) :
    (stepTrailers cfg cell r).2.2.isConn = false → (stepTrailers cfg cell r).2.1 = cell :=
  trailersPoll_ok cfg (load cell r.rx)

theorem stepBody_ok (cfg : Cfg) (fuel : Nat) (cell : Option Nat) (r : Req) :
    (stepBody cfg fuel cell r).2.2.isConn = false → (stepBody cfg fuel cell r).2.1 = cell := by
  unfold stepBody
  by_cases ha : r.atTrailers = true
  · rw [if_pos ha]
    intro h
    exact trailersPoll_ok cfg (load cell r.rx) (by simpa [Obs.isConn, optConn] using h)
  · rw [if_neg ha]
    have hd := drain_ok fsSrc fuel (load cell r.rx)
    generalize H3.ReqRecv.drain fsSrc fuel (load cell r.rx) = p at hd
    obtain ⟨rs, st2⟩ := p
    simp only at hd ⊢
    by_cases he : rs.getLast? = some .end_
    · rw [if_pos he]
      intro h
      simp only [Obs.isConn, optConn, Bool.or_eq_false_iff, List.any_eq_false] at h
      have h2 := trailersPoll_ok cfg st2 h.2
      simp only at h2 ⊢
      rw [h2]
      exact hd (fun x hx => by simpa using h.1 x hx)
    · rw [if_neg he]
      intro h
      simp only [Obs.isConn, optConn, Bool.or_false, List.any_eq_false] at h
      exact hd (fun x hx => by simpa using h x hx)

/-- the guard of a call: the handle exists -/
def live (cfg : Cfg) (r : Req) (c : Call) : Prop := (r.gone || !accepts cfg.role r c) = false

instance (cfg : Cfg) (r : Req) (c : Call) : Decidable (live cfg r c) := by unfold live; exact inferInstance

theorem Req.step_refused (cfg : Cfg) (cell : Option Nat) (r : Req) (c : Call)
    (h : (r.gone || !accepts cfg.role r c) = true) :
    Req.step cfg cell r (.call c) = (r, cell, .noHandle) := by
  simp only [Req.step]; rw [if_pos h]

theorem Req.step_live (cfg : Cfg) (cell : Option Nat) (r : Req) (c : Call) (h : live cfg r c) :
    Req.step cfg cell r (.call c) =
      match c with
      | .head => stepHead cfg cell r
      | .data => stepData cell r
      | .trailers => stepTrailers cfg cell r
      | .body fuel => stepBody cfg fuel cell r
      | .sendHead fs => ((stepSend cfg r (.headers fs)).1, cell, (stepSend cfg r (.headers fs)).2)
      | .sendData b => ((stepSend cfg r (.data b)).1, cell, (stepSend cfg r (.data b)).2)
      | .sendTrailers fs => ((stepSend cfg r (.headers fs)).1, cell, (stepSend cfg r (.headers fs)).2)
      | .finish =>
        ({ r with snd := (r.snd.finish cfg.finSeesStop).1 }, cell, (r.snd.finish cfg.finSeesStop).2) := by
  have h' : ¬ (r.gone || !accepts cfg.role r c) = true := by rw [h]; simp
  simp only [Req.step]; rw [if_neg h']
  cases c <;> rfl

/-- A step of a request changes the shared cell only when it tells its application
    `StreamError::ConnectionError`: every other step — peer events, values, `Pending`, every
    stream-level error, every send call — leaves the cell exactly as it found it. -/
theorem Req.step_cell_ok (cfg : Cfg) (cell : Option Nat) (r : Req) (ev : StreamEv) :
    (Req.step cfg cell r ev).2.2.isConn = false → (Req.step cfg cell r ev).2.1 = cell := by
  cases ev with
  | peer p => intro _; rfl
  | call c =>
    by_cases hg : (r.gone || !accepts cfg.role r c) = true
    · rw [Req.step_refused cfg cell r c hg]; intro _; rfl
    · have hl : live cfg r c := by simpa [live] using hg
      rw [Req.step_live cfg cell r c hl]
      cases c with
      | head => exact stepHead_ok cfg cell r
      | data => exact stepData_ok cell r
      | trailers => exact stepTrailers_ok cfg cell r
      | body fuel => exact stepBody_ok cfg fuel cell r
      | _ => intro _; rfl

/-- a request none of whose own observations is a connection-level error never writes the cell -/
theorem quiet_of_no_connErr (cfg : Cfg) : ∀ (evs : List StreamEv) (r : Req),
    (∀ o ∈ (Req.run cfg none r evs).2.2, o.isConn = false) → Req.quiet cfg r evs := by
  intro evs
  induction evs with
  | nil => intro _ _; trivial
  | cons ev rest ih =>
    intro r h
    rw [Req.run_cons] at h
    have h0 : (Req.step cfg none r ev).2.1 = none :=
      Req.step_cell_ok cfg none r ev (h _ (by simp))
    refine ⟨h0, ih _ (fun o ho => h o ?_)⟩
    rw [h0] at *
    simp [ho]

/-! ### (3) the documented pattern inside the product is `ReqRecv.documented` -/

/-- what a peer event adds to the transport script of the receive half -/
def fsOf : Peer → List H3.FS.Ev
  | .chunk b => [.chunk b]
  | .fin => [.fin]
  | .reset c => [.reset c]
  | .stop _ => []
  | .grant _ => []

def fsScript (ps : List Peer) : List H3.FS.Ev := ps.flatMap fsOf

theorem run_peers (cfg : Cfg) (cell : Option Nat) : ∀ (ps : List Peer) (r : Req),
    Req.run cfg cell r (ps.map .peer) = (ps.foldl Req.deliver r, cell, List.replicate ps.length .quiet) := by
  intro ps
  induction ps with
  | nil => intro r; rfl
  | cons p rest ih =>
    intro r
    rw [List.map_cons, Req.run_cons]
    simp only [Req.step]
    rw [ih]
    rfl

theorem run_append (cfg : Cfg) : ∀ (a b : List StreamEv) (cell : Option Nat) (r : Req),
    Req.run cfg cell r (a ++ b) =
      ((Req.run cfg (Req.run cfg cell r a).2.1 (Req.run cfg cell r a).1 b).1,
       (Req.run cfg (Req.run cfg cell r a).2.1 (Req.run cfg cell r a).1 b).2.1,
       (Req.run cfg cell r a).2.2 ++ (Req.run cfg (Req.run cfg cell r a).2.1 (Req.run cfg cell r a).1 b).2.2) := by
  intro a
  induction a with
  | nil => intro b cell r; rfl
  | cons e rest ih =>
    intro b cell r
    rw [List.cons_append, Req.run_cons, Req.run_cons, ih]
    rfl

theorem deliver_all (ps : List Peer) : ∀ r : Req,
    (ps.foldl Req.deliver r).rx = { r.rx with src := (r.rx.src.1, r.rx.src.2 ++ fsScript ps) } ∧
    (ps.foldl Req.deliver r).resolved = r.resolved ∧ (ps.foldl Req.deliver r).gone = r.gone ∧
    (ps.foldl Req.deliver r).atTrailers = r.atTrailers ∧ (ps.foldl Req.deliver r).snd.tx = r.snd.tx ∧
    (ps.foldl Req.deliver r).snd.fin = r.snd.fin := by
  induction ps with
  | nil => intro r; simp [fsScript]
  | cons p rest ih =>
    intro r
    rw [List.foldl_cons]
    obtain ⟨h1, h2, h3, h4, h5, h6⟩ := ih (r.deliver p)
    rw [h1, h2, h3, h4, h5, h6]
    cases p <;> simp [Req.deliver, fsScript, fsOf, List.append_assoc]

theorem load_eq (cell : Option Nat) (st : St FSt) (h : st.env.cell = cell) : load cell st = st := by
  subst h; rfl

theorem load_unload (st : St FSt) : load st.env.cell (unload st) = st := rfl

section Doc
open H3.ReqRecv
variable {σ : Type}

theorem documented_head (role : Role) (S : Src σ) (H : ReqRecv.Hdr) (fuel : Nat) (st : St σ) :
    (documented role S H fuel st).head = (pollHead role S H st).1 := by
  unfold documented
  generalize pollHead role S H st = p
  obtain ⟨h, st1⟩ := p
  cases h <;> rfl

theorem documented_of_head (role : Role) (S : Src σ) (H : ReqRecv.Hdr) (fuel : Nat) (st : St σ) (enc : Bytes)
    (h : (pollHead role S H st).1 = .head enc) :
    documented role S H fuel st =
      { head := .head enc, body := (bodyRun S H fuel (pollHead role S H st).2).1,
        trailers := (bodyRun S H fuel (pollHead role S H st).2).2.1,
        env := (bodyRun S H fuel (pollHead role S H st).2).2.2 } := by
  unfold documented
  generalize pollHead role S H st = p at h
  obtain ⟨h', st1⟩ := p
  simp only at h
  subst h
  rfl

end Doc

/-- one `body` poll of a task that has not reached `recv_trailers` is `ReqRecv.bodyRun` -/
theorem stepBody_bodyRun (cfg : Cfg) (fuel : Nat) (cell : Option Nat) (r : Req) (st1 : St FSt)
    (hat : r.atTrailers = false) (hrx : load cell r.rx = st1)
    (ht : ∀ t, (H3.ReqRecv.bodyRun fsSrc cfg.hdr.base fuel st1).2.1 = some (.trailers t) →
      cfg.hdr.trailer t ≠ .tooBig) :
    (stepBody cfg fuel cell r).2.2 =
        .body (H3.ReqRecv.bodyRun fsSrc cfg.hdr.base fuel st1).1
              ((H3.ReqRecv.bodyRun fsSrc cfg.hdr.base fuel st1).2.1.map .res) ∧
    (stepBody cfg fuel cell r).2.1 = (H3.ReqRecv.bodyRun fsSrc cfg.hdr.base fuel st1).2.2.cell ∧
    (stepBody cfg fuel cell r).1.rx.env =
        { (H3.ReqRecv.bodyRun fsSrc cfg.hdr.base fuel st1).2.2 with cell := none } := by
  unfold stepBody H3.ReqRecv.bodyRun at *
  rw [if_neg (by simp [hat]), hrx]
  generalize H3.ReqRecv.drain fsSrc fuel st1 = p at ht ⊢
  obtain ⟨rs, st2⟩ := p
  simp only at ht ⊢
  by_cases he : rs.getLast? = some .end_
  · simp only [if_pos he] at ht ⊢
    unfold trailersPoll
    generalize H3.ReqRecv.pollRecvTrailers fsSrc cfg.hdr.base st2 = q at ht ⊢
    obtain ⟨t, st3⟩ := q
    simp only at ht ⊢
    cases t with
    | trailers enc =>
      have hne := ht enc rfl
      simp only
      split
      · next h _ => exact absurd h hne
      · next h _ => exact absurd h hne
      · exact ⟨rfl, rfl, rfl⟩
    | _ => exact ⟨rfl, rfl, rfl⟩
  · simp only [if_neg he] at ht ⊢
    refine ⟨?_, ?_, ?_⟩ <;> first | rfl | trivial

/-- A request that first receives `ps` from its peer and then runs the documented receive pattern
    (head, then one `body` poll) sees exactly the trace `ReqRecv.documented` computes for the
    transport script `ps` — when the head is delivered and no section is over the limit. -/
theorem run_documented (cfg : Cfg) (ps : List Peer) (fuel : Nat) (enc : Bytes)
    (hh : (H3.ReqRecv.documented cfg.role fsSrc cfg.hdr.base fuel { src := ({}, fsScript ps) }).head = .head enc)
    (hb : cfg.hdr.head enc ≠ .tooBig)
    (ht : ∀ t, (H3.ReqRecv.documented cfg.role fsSrc cfg.hdr.base fuel { src := ({}, fsScript ps) }).trailers
            = some (.trailers t) → cfg.hdr.trailer t ≠ .tooBig) :
    let T := H3.ReqRecv.documented cfg.role fsSrc cfg.hdr.base fuel { src := ({}, fsScript ps) }
    let x := Req.run cfg none {} (ps.map .peer ++ [.call .head, .call (.body fuel)])
    x.2.2 = List.replicate ps.length .quiet ++ [.ans (.res (.head enc)), .body T.body (T.trailers.map .res)] ∧
    x.2.1 = T.env.cell ∧ x.1.rx.env = { T.env with cell := none } := by
  intro T x
  have hd := deliver_all ps {}
  obtain ⟨d1, d2, d3, d4, _, _⟩ := hd
  generalize hr0 : ps.foldl Req.deliver {} = r0 at d1 d2 d3 d4
  have hrx : r0.rx = { src := ({}, fsScript ps) } := by rw [d1]; simp
  have hx : x = ((Req.run cfg none r0 [.call .head, .call (.body fuel)]).1,
           (Req.run cfg none r0 [.call .head, .call (.body fuel)]).2.1,
           List.replicate ps.length .quiet ++ (Req.run cfg none r0 [.call .head, .call (.body fuel)]).2.2) := by
    show Req.run cfg none {} (ps.map .peer ++ [.call .head, .call (.body fuel)]) = _
    rw [run_append, run_peers, hr0]
  -- the head poll
  have hph : (H3.ReqRecv.pollHead cfg.role fsSrc cfg.hdr.base { src := ({}, fsScript ps) }).1 = .head enc := by
    rw [← documented_head (fuel := fuel)]; exact hh
  have hT : T = _ := documented_of_head cfg.role fsSrc cfg.hdr.base fuel _ enc hph
  have hlive1 : live cfg r0 .head := by
    simp only [live, d3, accepts, d2]
    cases cfg.role <;> rfl
  have hload : load none r0.rx = { src := ({}, fsScript ps) } := by rw [hrx]; rfl
  have hs1 : Req.step cfg none r0 (.call .head) = stepHead cfg none r0 := Req.step_live cfg none r0 .head hlive1
  -- unfold the head step
  have hhead : ∃ st1, H3.ReqRecv.pollHead cfg.role fsSrc cfg.hdr.base { src := ({}, fsScript ps) } = (.head enc, st1) := by
    generalize H3.ReqRecv.pollHead cfg.role fsSrc cfg.hdr.base { src := ({}, fsScript ps) } = p at hph
    obtain ⟨a, b⟩ := p
    exact ⟨b, by simp only at hph; rw [hph]⟩
  obtain ⟨st1, hp⟩ := hhead
  have hsh : stepHead cfg none r0 =
      ({ r0 with rx := unload st1, resolved := true }, st1.env.cell, .ans (.res (.head enc))) := by
    unfold stepHead
    rw [hload, hp]
    simp only
    split
    · next h _ => exact absurd h hb
    · next h _ => exact absurd h hb
    · rfl
  rw [hp] at hT
  simp only at hT
  -- the body poll
  have hlive2 : live cfg { r0 with rx := unload st1, resolved := true } (.body fuel) := by
    simp only [live, d3, accepts]
    cases cfg.role <;> rfl
  have hb2 := stepBody_bodyRun cfg fuel st1.env.cell { r0 with rx := unload st1, resolved := true } st1
    d4 (load_unload st1) (by
      intro t h
      apply ht t
      show T.trailers = _
      rw [hT]; exact h)
  obtain ⟨b1, b2, b3⟩ := hb2
  rw [hx]
  simp only [hs1, hsh, Req.step_live cfg _ _ _ hlive2, Req.run]
  rw [hT]
  exact ⟨by rw [b1], b2, b3⟩

/-! ### (4) the stream-scoped fault transitions, one by one -/

theorem fs_next_reset (s : H3.FS.St) (c : Nat) (rest : List H3.FS.Ev) (he : s.eos = false) (hr : s.remaining = 0) :
    fsSrc.pollNext (s, .reset c :: rest) = (.errQuic c, (s, .reset c :: rest)) := by
  simp [fsSrc, H3.FS.pollNext, hr, H3.FS.pollNextLoop, he]

theorem fs_data_reset (s : H3.FS.St) (c : Nat) (rest : List H3.FS.Ev) (he : s.eos = false) (hr : s.remaining ≠ 0) :
    fsSrc.pollData (s, .reset c :: rest) = (.errQuic c, (s, .reset c :: rest)) := by
  simp [fsSrc, H3.FS.pollData, hr, H3.FS.recvForData, he]

/-- head poll: the frame layer reports the peer's RESET -/
theorem stepHead_reset (cfg : Cfg) (cell : Option Nat) (r : Req) (c : Nat) (s' : FSt)
    (h : fsSrc.pollNext r.rx.src = (.errQuic c, s')) :
    stepHead cfg cell r =
      ({ r with rx := unload { r.rx with src := s' }, gone := cfg.role == .server }, cell,
       .ans (.res (.errReset c))) := by
  have hp : H3.ReqRecv.pollHead cfg.role fsSrc cfg.hdr.base (load cell r.rx) =
      (.errReset c, { load cell r.rx with src := s' }) := by
    cases cfg.role <;>
      simp [H3.ReqRecv.pollHead, H3.ReqRecv.pollResolve, H3.ReqRecv.pollRecvResponse, load, h, H3.ReqRecv.fsErr]
  unfold stepHead
  rw [hp]
  rfl

/-- head poll: HEADERS arrived, validly encoded, the message is malformed -/
theorem stepHead_malformed (cfg : Cfg) (cell : Option Nat) (r : Req) (enc : Bytes) (s' : FSt)
    (h : fsSrc.pollNext r.rx.src = (.frame (.headers enc), s')) (hm : cfg.hdr.head enc = .malformed) :
    stepHead cfg cell r =
      ({ r with
          rx := { r.rx with
            src := s'
            env := { cell := none
                     rst := if cfg.role = .server then first r.rx.env.rst CODE_H3_MESSAGE_ERROR else r.rx.env.rst
                     stop := first r.rx.env.stop CODE_H3_MESSAGE_ERROR } }
          gone := cfg.role == .server }, cell,
       .ans (.res (.errStream CODE_H3_MESSAGE_ERROR))) := by
  unfold stepHead
  cases hr : cfg.role <;>
    simp [H3.ReqRecv.pollHead, H3.ReqRecv.pollResolve, H3.ReqRecv.pollRecvResponse, load, h, Hdr.base, hm,
      HClass.base, unload]

/-- server head poll: the stream ended before any HEADERS -/
theorem stepHead_finFirst (cfg : Cfg) (cell : Option Nat) (r : Req) (s' : FSt) (hs : cfg.role = .server)
    (h : fsSrc.pollNext r.rx.src = (.none, s')) :
    stepHead cfg cell r =
      ({ r with
          rx := { r.rx with
            src := s'
            env := { cell := none, rst := first r.rx.env.rst CODE_H3_REQUEST_INCOMPLETE, stop := r.rx.env.stop } }
          gone := true }, cell,
       .ans (.res (.errStream CODE_H3_REQUEST_INCOMPLETE))) := by
  unfold stepHead
  simp [hs, H3.ReqRecv.pollHead, H3.ReqRecv.pollResolve, load, h, unload]

/-- client head poll: the response stream ended before any HEADERS: the response is missing, an
    error of this request; nothing is sent against the stream, the handle stays -/
theorem stepHead_finFirst_client (cfg : Cfg) (cell : Option Nat) (r : Req) (s' : FSt) (hs : cfg.role = .client)
    (h : fsSrc.pollNext r.rx.src = (.none, s')) :
    stepHead cfg cell r =
      ({ r with rx := unload { r.rx with src := s' }, gone := false }, cell,
       .ans (.res (.errStream CODE_H3_MESSAGE_ERROR))) := by
  unfold stepHead
  simp [hs, H3.ReqRecv.pollHead, H3.ReqRecv.pollRecvResponse, load, h, unload]

/-- head poll: HEADERS arrived, the section is over the limit — client -/
theorem stepHead_tooBig_client (cfg : Cfg) (cell : Option Nat) (r : Req) (enc : Bytes) (s' : FSt)
    (hs : cfg.role = .client)
    (h : fsSrc.pollNext r.rx.src = (.frame (.headers enc), s')) (hm : cfg.hdr.head enc = .tooBig) :
    stepHead cfg cell r =
      ({ r with
          rx := { r.rx with
            src := s'
            env := { cell := none, rst := r.rx.env.rst,
                     stop := first r.rx.env.stop CODE_H3_REQUEST_CANCELLED } } }, cell, .ans .tooBig) := by
  unfold stepHead
  simp [hs, H3.ReqRecv.pollHead, H3.ReqRecv.pollRecvResponse, load, h, Hdr.base, hm, HClass.base, unload,
    tooBigClient]

/-- head poll: HEADERS arrived, the section is over the limit — server: the 431 attempt on THIS
    stream, then header-too-big (or the send error when the peer has stopped the stream) -/
theorem stepHead_tooBig_server (cfg : Cfg) (cell : Option Nat) (r : Req) (enc : Bytes) (s' : FSt)
    (hs : cfg.role = .server)
    (h : fsSrc.pollNext r.rx.src = (.frame (.headers enc), s')) (hm : cfg.hdr.head enc = .tooBig) :
    stepHead cfg cell r =
      ((tooBigServer cfg { r with rx := unload { r.rx with src := s' } }).1, cell,
       (tooBigServer cfg { r with rx := unload { r.rx with src := s' } }).2) := by
  unfold stepHead
  simp [hs, H3.ReqRecv.pollHead, H3.ReqRecv.pollResolve, load, h, Hdr.base, hm, HClass.base, unload]

theorem fsFuel_succ (c : FSt) : fsFuel c = (c.1.flat.length + H3.ReqRecv.scriptBytes c.2 + c.2.length + 3) + 1 := rfl

/-- `recv_data` poll between frames: the frame layer reports the peer's RESET -/
theorem stepData_reset_next (cell : Option Nat) (r : Req) (c : Nat) (s' : FSt)
    (hd : fsSrc.hasData r.rx.src = false) (h : fsSrc.pollNext r.rx.src = (.errQuic c, s')) :
    stepData cell r = ({ r with rx := unload { r.rx with src := s' } }, cell, .ans (.res (.errReset c))) := by
  unfold stepData
  rw [fsFuel_succ, H3.ReqRecv.pollRecvData]
  simp [load, hd, h, H3.ReqRecv.fsErr, unload]

/-- `recv_data` poll inside a DATA payload: the frame layer reports the peer's RESET -/
theorem stepData_reset_data (cell : Option Nat) (r : Req) (c : Nat) (s' : FSt)
    (hd : fsSrc.hasData r.rx.src = true) (h : fsSrc.pollData r.rx.src = (.errQuic c, s')) :
    stepData cell r = ({ r with rx := unload { r.rx with src := s' } }, cell, .ans (.res (.errReset c))) := by
  unfold stepData
  rw [fsFuel_succ, H3.ReqRecv.pollRecvData]
  simp [load, hd, h, H3.ReqRecv.dataOut, H3.ReqRecv.fsErr, unload]

/-- `recv_trailers` poll: the frame layer reports the peer's RESET -/
theorem stepTrailers_reset (cfg : Cfg) (cell : Option Nat) (r : Req) (c : Nat) (s' : FSt)
    (ht : r.rx.trailers = none) (h : fsSrc.pollNext r.rx.src = (.errQuic c, s')) :
    stepTrailers cfg cell r =
      ({ r with rx := unload { r.rx with src := s' } }, cell, .ans (.res (.errReset c))) := by
  unfold stepTrailers trailersPoll
  simp [H3.ReqRecv.pollRecvTrailers, load, ht, H3.ReqRecv.trailersFirst, h, H3.ReqRecv.fsErr, unload]

/-- `recv_trailers` poll at the end of the stream, trailer section validly encoded but malformed -/
theorem stepTrailers_malformed (cfg : Cfg) (cell : Option Nat) (r : Req) (enc : Bytes)
    (ht : r.rx.trailers = some enc) (he : fsSrc.isEos r.rx.src = true) (hm : cfg.hdr.trailer enc = .malformed) :
    stepTrailers cfg cell r =
      ({ r with rx := { r.rx with
            trailers := none
            env := { cell := none, rst := r.rx.env.rst, stop := first r.rx.env.stop CODE_H3_MESSAGE_ERROR } } },
       cell, .ans (.res (.errStream CODE_H3_MESSAGE_ERROR))) := by
  unfold stepTrailers trailersPoll
  simp [H3.ReqRecv.pollRecvTrailers, load, ht, H3.ReqRecv.trailersTail, he, H3.ReqRecv.decodeTrailers, Hdr.base,
    hm, HClass.base, unload]

/-- `recv_trailers` poll at the end of the stream, trailer section over the limit -/
theorem stepTrailers_tooBig (cfg : Cfg) (cell : Option Nat) (r : Req) (enc : Bytes)
    (ht : r.rx.trailers = some enc) (he : fsSrc.isEos r.rx.src = true) (hm : cfg.hdr.trailer enc = .tooBig) :
    stepTrailers cfg cell r =
      ({ r with rx := { r.rx with
            trailers := none
            env := { cell := none, rst := r.rx.env.rst,
                     stop := if cfg.role = .client then first r.rx.env.stop CODE_H3_REQUEST_CANCELLED
                             else r.rx.env.stop } } },
       cell, .ans .tooBig) := by
  unfold stepTrailers trailersPoll
  cases hr : cfg.role <;>
  simp [H3.ReqRecv.pollRecvTrailers, load, ht, H3.ReqRecv.trailersTail, he, H3.ReqRecv.decodeTrailers, Hdr.base,
    hm, HClass.base, unload]

/-- a write on a stream the peer has stopped: `RemoteTerminate`, nothing written, the buffer dropped -/
theorem write_stopped (wc : Option Nat) (s : Send) (f : H3.WriteBuf.SFrame) (c : Nat) (hs : s.stopped = some c)
    (hf : s.fin = false) :
    s.write wc f = ({ s with writing := none }, .ans (.res (.errReset c))) := by
  simp [Send.write, hs, hf]

/-- a write with no write in flight and no back-pressure -/
theorem write_ok (s : Send) (f : H3.WriteBuf.SFrame) (w : H3.WriteBuf.WB) (hs : s.stopped = none) (hf : s.fin = false)
    (hw0 : s.writing = none) (hw : H3.WriteBuf.fromFrame f = some w) :
    s.write none f = ({ s with tx := s.tx ++ w.view }, .ok) := by
  obtain ⟨tx, st, fin, g, wr⟩ := s
  simp only at hs hf hw0
  subst hs hf hw0
  simp [Send.write, hw, Send.flush, Send.avail]

/-- `recv_trailers` poll with the trailer block already in hand (remembered by `recv_data`), the
    stream not at its end: the look at the next frame meets the peer's RESET -/
theorem stepTrailers_reset_check (cfg : Cfg) (cell : Option Nat) (r : Req) (enc : Bytes) (c : Nat) (s' : FSt)
    (ht : r.rx.trailers = some enc) (he : fsSrc.isEos r.rx.src = false)
    (h : fsSrc.pollNext r.rx.src = (.errQuic c, s')) :
    stepTrailers cfg cell r =
      ({ r with rx := unload { r.rx with src := s', trailers := none } }, cell, .ans (.res (.errReset c))) := by
  unfold stepTrailers trailersPoll
  simp [H3.ReqRecv.pollRecvTrailers, load, ht, H3.ReqRecv.trailersTail, he, H3.ReqRecv.trailersCheck, h,
    H3.ReqRecv.fsErr, unload]

theorem fs_isEos_false (s : H3.FS.St) (sc : List H3.FS.Ev) (he : s.eos = false) : fsSrc.isEos (s, sc) = false := by
  simp [fsSrc, he]

/-- a `body` poll of a task that is inside `recv_trailers` is a `recv_trailers` poll -/
theorem stepBody_atTrailers (cfg : Cfg) (fuel : Nat) (cell : Option Nat) (r : Req) (h : r.atTrailers = true) :
    stepBody cfg fuel cell r =
      ((stepTrailers cfg cell r).1, (stepTrailers cfg cell r).2.1,
       .body [] (some (trailersPoll cfg (load cell r.rx)).1)) := by
  unfold stepBody stepTrailers
  rw [if_pos h]

theorem stepTrailers_obs (cfg : Cfg) (cell : Option Nat) (r : Req) :
    (stepTrailers cfg cell r).2.2 = .ans (trailersPoll cfg (load cell r.rx)).1 := rfl

/-- a `body` poll in the `recv_data` loop meets the peer's RESET at its first call -/
theorem stepBody_reset (cfg : Cfg) (fuel : Nat) (cell : Option Nat) (r : Req) (s : H3.FS.St) (c : Nat)
    (rest : List H3.FS.Ev) (hat : r.atTrailers = false) (hsrc : r.rx.src = (s, .reset c :: rest))
    (he : s.eos = false) :
    stepBody cfg (fuel + 1) cell r =
      ({ r with rx := unload r.rx }, cell, .body [.errReset c] none) := by
  have hp : H3.ReqRecv.pollRecvData fsSrc (fuel + 1) (load cell r.rx) = (.errReset c, load cell r.rx) := by
    rw [H3.ReqRecv.pollRecvData]
    by_cases hr : s.remaining = 0
    · have h1 : fsSrc.hasData (load cell r.rx).src = false := by
        show fsSrc.hasData r.rx.src = false
        rw [hsrc]; simp [fsSrc, hr]
      have h2 : fsSrc.pollNext (load cell r.rx).src = (.errQuic c, (load cell r.rx).src) := by
        show fsSrc.pollNext r.rx.src = (_, r.rx.src)
        rw [hsrc]; exact fs_next_reset s c rest he hr
      simp [h1, h2, H3.ReqRecv.fsErr]
    · have h1 : fsSrc.hasData (load cell r.rx).src = true := by
        show fsSrc.hasData r.rx.src = true
        rw [hsrc]; simp [fsSrc, hr]
      have h2 : fsSrc.pollData (load cell r.rx).src = (.errQuic c, (load cell r.rx).src) := by
        show fsSrc.pollData r.rx.src = (_, r.rx.src)
        rw [hsrc]; exact fs_data_reset s c rest he hr
      simp [h1, h2, H3.ReqRecv.dataOut, H3.ReqRecv.fsErr]
  unfold stepBody
  rw [if_neg (by simp [hat]), H3.ReqRecv.drain, hp]
  simp [unload, load]

/-- `recv_trailers` poll, trailer block in hand, the look at the next frame finds the clean end:
    trailer section validly encoded but malformed -/
theorem stepTrailers_malformed_fin (cfg : Cfg) (cell : Option Nat) (r : Req) (enc : Bytes) (s' : FSt)
    (ht : r.rx.trailers = some enc) (he : fsSrc.isEos r.rx.src = false)
    (hn : fsSrc.pollNext r.rx.src = (.none, s')) (hm : cfg.hdr.trailer enc = .malformed) :
    stepTrailers cfg cell r =
      ({ r with rx := { r.rx with
            src := s', trailers := none
            env := { cell := none, rst := r.rx.env.rst, stop := first r.rx.env.stop CODE_H3_MESSAGE_ERROR } } },
       cell, .ans (.res (.errStream CODE_H3_MESSAGE_ERROR))) := by
  unfold stepTrailers trailersPoll
  simp [H3.ReqRecv.pollRecvTrailers, load, ht, H3.ReqRecv.trailersTail, he, H3.ReqRecv.trailersCheck, hn,
    H3.ReqRecv.decodeTrailers, Hdr.base, hm, HClass.base, unload]

theorem stepTrailers_tooBig_fin (cfg : Cfg) (cell : Option Nat) (r : Req) (enc : Bytes) (s' : FSt)
    (ht : r.rx.trailers = some enc) (he : fsSrc.isEos r.rx.src = false)
    (hn : fsSrc.pollNext r.rx.src = (.none, s')) (hm : cfg.hdr.trailer enc = .tooBig) :
    stepTrailers cfg cell r =
      ({ r with rx := { r.rx with
            src := s', trailers := none
            env := { cell := none, rst := r.rx.env.rst,
                     stop := if cfg.role = .client then first r.rx.env.stop CODE_H3_REQUEST_CANCELLED
                             else r.rx.env.stop } } },
       cell, .ans .tooBig) := by
  unfold stepTrailers trailersPoll
  cases hr : cfg.role <;>
  simp [H3.ReqRecv.pollRecvTrailers, load, ht, H3.ReqRecv.trailersTail, he, H3.ReqRecv.trailersCheck, hn,
    H3.ReqRecv.decodeTrailers, Hdr.base, hm, HClass.base, unload]

/-! ### (5) histories: stream ids, prefixes, transpositions -/

/-- the stream ids that occur in a history -/
def sidsOf : List HEv → List Nat
  | [] => []
  | .on sid _ :: rest => sid :: sidsOf rest
  | .drive :: rest => sidsOf rest

theorem proj_nil_of_not_mem (j : Nat) : ∀ h : List HEv, j ∉ sidsOf h → proj j h = [] := by
  intro h
  induction h with
  | nil => intro _; rfl
  | cons e rest ih =>
    cases e with
    | drive => intro hj; simpa [proj] using ih (by simpa [sidsOf] using hj)
    | on sid ev =>
      intro hj
      simp only [sidsOf, List.mem_cons, not_or] at hj
      rw [proj_on_other (fun e => hj.1 e.symm)]
      exact ih hj.2

theorem proj_append (j : Nat) : ∀ a b : List HEv, proj j (a ++ b) = proj j a ++ proj j b := by
  intro a
  induction a with
  | nil => intro b; rfl
  | cons e rest ih =>
    intro b
    cases e with
    | drive => simpa [proj] using ih b
    | on sid ev =>
      by_cases h : sid = j
      · subst h; rw [List.cons_append, proj_on_same, proj_on_same, ih]; rfl
      · rw [List.cons_append, proj_on_other h, proj_on_other h, ih]

theorem quiet_prefix (cfg : Cfg) : ∀ (a b : List StreamEv) (r : Req), Req.quiet cfg r (a ++ b) → Req.quiet cfg r a := by
  intro a
  induction a with
  | nil => intro _ _ _; trivial
  | cons e rest ih => intro b r h; exact ⟨h.1, ih b _ h.2⟩

theorem quietHist_prefix (cfg : Cfg) (c : Conn) (a b : List HEv) (h : QuietHist cfg c (a ++ b)) :
    QuietHist cfg c a := fun i => quiet_prefix cfg _ (proj i b) _ (by rw [← proj_append]; exact h i)

/-- do the two events belong to different tasks? (events of one stream keep their order) -/
def independent : HEv → HEv → Bool
  | .on i _, .on j _ => i != j
  | _, _ => true

/-- swapping two adjacent events of different streams (or an event and a driver poll) changes no
    stream's own sequence of events -/
theorem proj_swap (j : Nat) (x y : HEv) (hxy : independent x y = true) (a b : List HEv) :
    proj j (a ++ x :: y :: b) = proj j (a ++ y :: x :: b) := by
  rw [proj_append, proj_append]
  congr 1
  cases x with
  | drive => cases y <;> simp [proj]
  | on i ev =>
    cases y with
    | drive => simp [proj]
    | on k ev' =>
      have hik : i ≠ k := by simpa [independent] using hxy
      by_cases h1 : i = j
      · subst h1
        rw [proj_on_same, proj_on_other (fun e => hik e.symm), proj_on_other (fun e => hik e.symm), proj_on_same]
      · rw [proj_on_other h1]
        by_cases h2 : k = j
        · subst h2; rw [proj_on_same, proj_on_same, proj_on_other h1]
        · rw [proj_on_other h2, proj_on_other h2, proj_on_other h1]

/-! ### (6) reading a delivered message off the trace -/

section Obs
open H3.ReqRecv H3.Spec.ReqSeq

theorem resObs_length (r : Res) : (resObs r).length ≤ 1 := by cases r <;> simp [resObs]

/-- trailers or none, as the specification's observation and as the answer of `recv_trailers` -/
def trObs : Option ReqRecv.Bytes → H3.Spec.ReqSeq.Obs
  | none => .noTrailers
  | some t => .trailers t

def trRes : Option ReqRecv.Bytes → Res
  | none => .noTrailers
  | some t => .trailers t

/-- the outcome "head, body, end of body, trailers / none" pins down the trace -/
theorem observe_delivered (T : Trace) (h : ReqRecv.Bytes) (body : ReqRecv.Bytes) (tr : Option ReqRecv.Bytes)
    (ho : observe T = { calls := [.head h, .body body, .bodyEnd, trObs tr]
                        connError := none, streamReset := none }) :
    T.head = .head h ∧ bodyBytes T.body = body ∧ T.body.getLast? = some .end_ ∧
    T.trailers = some (trRes tr) ∧ T.env.cell = none ∧ T.env.rst = none := by
  obtain ⟨hd, bd, tl, env⟩ := T
  simp only [observe, Outcome.mk.injEq] at ho
  obtain ⟨hc, hcell, hrst⟩ := ho
  refine ⟨?_, ?_, ?_, ?_, hcell, hrst⟩ <;>
  · cases hd with
    | head b =>
      simp only [List.cons_append, List.nil_append, List.cons.injEq, Obs.head.injEq] at hc
      obtain ⟨h1, h2, h3⟩ := hc
      simp only [tailObs] at h3
      cases hl : bd.getLast? with
      | none => rw [hl] at h3; simp at h3
      | some last =>
        rw [hl] at h3
        cases last with
        | end_ =>
          simp only [List.cons.injEq, true_and] at h3
          cases tl with
          | none => simp at h3
          | some t =>
            simp only at h3
            cases t <;> cases tr <;> simp [resObs, trObs] at h3 <;> simp_all [trRes]
        | _ => simp [resObs] at h3
    | _ => simp [resObs] at hc

end Obs

end H3.Iso
