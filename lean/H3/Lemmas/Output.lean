import H3.Spec.Output
import H3.Lemmas.VarintSpec
/-! Lemmas about the output specification `H3.Spec.Output`: a frame whose bytes are
    `varint type ++ varint |payload| ++ payload` is read back as one frame by the
    specification's segmenter whatever follows (`frameStep_whole`), every prefix of it is
    acceptable on an open stream (`frameStep_partial`), and the judgement of a stream that
    starts with whole frames is the judgement of the rest (`walkTop_frame`). -/
namespace H3.Spec.Output
open H3.Varint H3.Spec.Framing

theorem rfcDecode_length {w r : Bytes} {v : Nat} (h : rfcDecode w = some (v, r)) :
    r.length < w.length := by
  cases w with
  | nil => simp [rfcDecode] at h
  | cons b0 t =>
    simp only [rfcDecode] at h
    split at h
    · cases h
    · rename_i hl
      simp only [Option.some.injEq, Prod.mk.injEq] at h
      obtain ⟨_, hr⟩ := h
      subst hr
      have : 0 < rfcLen b0 := by unfold rfcLen; exact Nat.two_pow_pos _
      simp only [List.length_drop]
      simp only [List.length_cons] at hl ⊢
      omega

/-- shape of the bytes of one frame -/
def wire (ty : Nat) (p : Bytes) : Bytes := encode ty ++ encode p.length ++ p

theorem wire_length_pos (ty : Nat) (p : Bytes) (hty : ty < 2^62) : 0 < (wire ty p).length := by
  have := encode_length_pos ty hty
  simp [wire]; omega

theorem frameStep_whole (tyOk : Nat → Option Violation) (payOk : Nat → Bytes → Option Violation)
    (k : Bytes → Option Violation) (ty : Nat) (p rest : Bytes) (fin : Bool)
    (hty : ty < 2^62) (hp : p.length < 2^62) (h1 : tyOk ty = none) (h2 : payOk ty p = none) :
    frameStep tyOk payOk k (wire ty p ++ rest) fin = k rest := by
  unfold frameStep wire
  have e1 : encode ty ++ encode p.length ++ p ++ rest
      = encode ty ++ (encode p.length ++ (p ++ rest)) := by simp
  rw [e1, rfcDecode_encode ty hty]
  simp only [h1]
  rw [rfcDecode_encode _ hp]
  simp only
  have hlt : ¬ (p ++ rest).length < p.length := by simp
  rw [if_neg hlt]
  have e2 : (p ++ rest).take p.length = p := by simp
  have e3 : (p ++ rest).drop p.length = rest := by simp
  rw [e2, e3, h2]

theorem frameStep_partial (tyOk : Nat → Option Violation)
    (payOk : Nat → Bytes → Option Violation) (k : Bytes → Option Violation) (ty : Nat)
    (p : Bytes) (hty : ty < 2^62) (hp : p.length < 2^62) (h1 : tyOk ty = none) (c : Nat)
    (hc : c < (wire ty p).length) :
    frameStep tyOk payOk k ((wire ty p).take c) false = none := by
  unfold wire at hc ⊢
  simp only [List.length_append] at hc
  rw [List.append_assoc, List.take_append, List.take_append]
  unfold frameStep
  by_cases hA : c < (encode ty).length
  · -- inside the type
    have z1 : c - (encode ty).length = 0 := by omega
    rw [z1]
    simp only [List.take_zero, Nat.zero_sub, List.append_nil]
    rw [rfcDecode_encode_prefix ty hty c hA]
    rfl
  · rw [List.take_of_length_le (by omega)]
    by_cases hB : c - (encode ty).length < (encode p.length).length
    · -- inside the length
      have z2 : c - (encode ty).length - (encode p.length).length = 0 := by omega
      rw [z2]
      simp only [List.take_zero, List.append_nil]
      rw [rfcDecode_encode ty hty]
      simp only [h1]
      rw [rfcDecode_encode_prefix _ hp _ hB]
      rfl
    · -- inside the payload
      rw [List.take_of_length_le (l := encode p.length) (by omega)]
      rw [rfcDecode_encode ty hty]
      simp only [h1]
      rw [rfcDecode_encode _ hp]
      simp only
      have : (List.take (c - (encode ty).length - (encode p.length).length) p).length < p.length := by
        simp only [List.length_take]; omega
      rw [if_pos this]
      rfl

theorem frameStep_congr (tyOk : Nat → Option Violation) (payOk : Nat → Bytes → Option Violation)
    (k k' : Bytes → Option Violation) (w : Bytes) (fin : Bool)
    (h : ∀ r, r.length < w.length → k r = k' r) :
    frameStep tyOk payOk k w fin = frameStep tyOk payOk k' w fin := by
  unfold frameStep
  cases h1 : rfcDecode w with
  | none => rfl
  | some x1 =>
    obtain ⟨ty, r1⟩ := x1
    simp only
    cases tyOk ty with
    | some v => rfl
    | none =>
      simp only
      cases h2 : rfcDecode r1 with
      | none => rfl
      | some x2 =>
        obtain ⟨len, r2⟩ := x2
        simp only
        by_cases hl : r2.length < len
        · rw [if_pos hl, if_pos hl]
        · rw [if_neg hl, if_neg hl]
          cases payOk ty (r2.take len) with
          | some v => rfl
          | none =>
            simp only
            apply h
            have := rfcDecode_length h1
            have := rfcDecode_length h2
            simp only [List.length_drop]
            omega

/-- enough fuel is enough -/
theorem walk_fuel (tyOk : Nat → Option Violation) (payOk : Nat → Bytes → Option Violation)
    (fuel fuel' : Nat) (w : Bytes) (fin : Bool) (h1 : w.length < fuel) (h2 : w.length < fuel') :
    walk tyOk payOk fuel w fin = walk tyOk payOk fuel' w fin := by
  induction fuel generalizing fuel' w with
  | zero => omega
  | succ n ih =>
    cases fuel' with
    | zero => omega
    | succ m =>
      unfold walk
      by_cases hw : w = []
      · rw [if_pos hw, if_pos hw]
      · rw [if_neg hw, if_neg hw]
        apply frameStep_congr
        intro r hr
        exact ih m r (by omega) (by omega)

/-- a sequence of frames with exactly the fuel the specification uses -/
def walkTop (tyOk : Nat → Option Violation) (payOk : Nat → Bytes → Option Violation)
    (w : Bytes) (fin : Bool) : Option Violation := walk tyOk payOk (w.length + 1) w fin

theorem walkTop_nil (tyOk : Nat → Option Violation) (payOk : Nat → Bytes → Option Violation)
    (fin : Bool) : walkTop tyOk payOk [] fin = none := by
  simp [walkTop, walk]

/-- the bytes of one acceptable frame -/
def IsFrame (tyOk : Nat → Option Violation) (payOk : Nat → Bytes → Option Violation)
    (item : Bytes) : Prop :=
  ∃ ty p, ty < 2^62 ∧ p.length < 2^62 ∧ tyOk ty = none ∧ payOk ty p = none ∧ item = wire ty p

theorem walkTop_frame {tyOk : Nat → Option Violation} {payOk : Nat → Bytes → Option Violation}
    {item : Bytes} (hi : IsFrame tyOk payOk item) (rest : Bytes) (fin : Bool) :
    walkTop tyOk payOk (item ++ rest) fin = walkTop tyOk payOk rest fin := by
  obtain ⟨ty, p, hty, hp, h1, h2, rfl⟩ := hi
  have hpos := wire_length_pos ty p hty
  unfold walkTop
  rw [walk]
  have hne : wire ty p ++ rest ≠ [] := by
    intro h
    have := congrArg List.length h
    simp only [List.length_append, List.length_nil] at this; omega
  rw [if_neg hne, frameStep_whole tyOk payOk _ ty p rest fin hty hp h1 h2]
  apply walk_fuel
  · simp only [List.length_append]; omega
  · omega

theorem walkTop_partial {tyOk : Nat → Option Violation} {payOk : Nat → Bytes → Option Violation}
    {item : Bytes} (hi : IsFrame tyOk payOk item) (c : Nat) :
    walkTop tyOk payOk (item.take c) false = none := by
  by_cases hc : c < item.length
  · obtain ⟨ty, p, hty, hp, h1, h2, rfl⟩ := hi
    unfold walkTop
    rw [walk]
    split
    · rfl
    · exact frameStep_partial tyOk payOk _ ty p hty hp h1 c hc
  · rw [List.take_of_length_le (by omega)]
    have := walkTop_frame hi [] false
    rw [List.append_nil] at this
    rw [this, walkTop_nil]

/-- a stream that so far consists of whole acceptable frames: judging it with more bytes
    appended is judging those bytes -/
def Transparent (tyOk : Nat → Option Violation) (payOk : Nat → Bytes → Option Violation)
    (base : Bytes) : Prop :=
  ∀ rest fin, walkTop tyOk payOk (base ++ rest) fin = walkTop tyOk payOk rest fin

theorem transparent_nil (tyOk : Nat → Option Violation) (payOk : Nat → Bytes → Option Violation) :
    Transparent tyOk payOk [] := fun _ _ => rfl

theorem transparent_append {tyOk : Nat → Option Violation}
    {payOk : Nat → Bytes → Option Violation} {base item : Bytes}
    (hb : Transparent tyOk payOk base) (hi : IsFrame tyOk payOk item) :
    Transparent tyOk payOk (base ++ item) := by
  intro rest fin
  rw [List.append_assoc, hb, walkTop_frame hi]

theorem checkRequest_eq (w : Bytes) (fin : Bool) :
    checkRequest w fin = walkTop reqTyOk noPayCheck w fin := rfl

/-! ### SETTINGS payloads -/

/-- identifier/value pairs on the wire -/
def pairsWire : List (Nat × Nat) → Bytes
  | [] => []
  | (id, v) :: r => encode id ++ encode v ++ pairsWire r

theorem pairsWire_length (es : List (Nat × Nat)) (h : ∀ e ∈ es, e.1 < 2^62 ∧ e.2 < 2^62) :
    2 * es.length ≤ (pairsWire es).length := by
  induction es with
  | nil => simp [pairsWire]
  | cons e r ih =>
    obtain ⟨id, v⟩ := e
    have h0 := h (id, v) (by simp)
    have := encode_length_pos id h0.1
    have := encode_length_pos v h0.2
    have := ih (fun e he => h e (by simp [he]))
    simp [pairsWire]; omega

theorem pairs_pairsWire (es : List (Nat × Nat)) (h : ∀ e ∈ es, e.1 < 2^62 ∧ e.2 < 2^62)
    (fuel : Nat) (hf : es.length < fuel) : pairs fuel (pairsWire es) = some es := by
  induction es generalizing fuel with
  | nil =>
    cases fuel with
    | zero => omega
    | succ n => simp [pairs, pairsWire]
  | cons e r ih =>
    obtain ⟨id, v⟩ := e
    cases fuel with
    | zero => omega
    | succ n =>
      have h0 := h (id, v) (by simp)
      have hne : pairsWire ((id, v) :: r) ≠ [] := by
        intro hh
        have hh' := congrArg List.length hh
        simp only [pairsWire, List.length_append, List.length_nil] at hh'
        have := encode_length_pos id h0.1
        omega
      unfold pairs
      rw [if_neg hne]
      simp only [pairsWire, List.append_assoc]
      rw [rfcDecode_encode id h0.1]
      simp only
      rw [rfcDecode_encode v h0.2]
      simp only
      rw [ih (fun e he => h e (by simp [he])) n (by simp at hf; omega)]
      rfl

/-- an entry list is acceptable as a SETTINGS payload -/
def SettingsFine (es : List (Nat × Nat)) : Prop :=
  (∀ e ∈ es, e.1 < 2^62 ∧ e.2 < 2^62) ∧
  (∀ e ∈ es, h2Settings.contains e.1 = false) ∧
  (∀ e ∈ es, (definedSettings.contains e.1 || isReserved e.1) = true) ∧
  (es.map (·.1)).Nodup

theorem settingsOk_pairsWire (es : List (Nat × Nat)) (h : SettingsFine es) :
    settingsOk (pairsWire es) = none := by
  obtain ⟨hb, hh2, hdef, hnd⟩ := h
  unfold settingsOk
  have hl := pairsWire_length es hb
  rw [pairs_pairsWire es hb _ (by omega)]
  simp only
  have f1 : es.find? (fun e => h2Settings.contains e.1) = none := by
    rw [List.find?_eq_none]
    intro e he
    show ¬ h2Settings.contains e.1 = true
    rw [hh2 e he]; exact Bool.false_ne_true
  rw [f1]
  simp only
  have f2 : es.find? (fun e => !(definedSettings.contains e.1 || isReserved e.1)) = none := by
    rw [List.find?_eq_none]
    intro e he
    show ¬ (!(definedSettings.contains e.1 || isReserved e.1)) = true
    rw [hdef e he]; exact Bool.false_ne_true
  rw [f2]
  simp only
  rw [if_pos hnd]

end H3.Spec.Output
