import H3.Lemmas.FrameSpec
import H3.Lemmas.FrameLaws
import H3.Lemmas.FrameStreamReader
import H3.Spec.FrameAgree
/-! The reference automaton for `frameDec`, run over a well-formed byte string, agrees with
    the RFC 9114 §7.1 oracle `observe` (relation `Agree`). -/
namespace H3.Spec.Framing
open H3.Frame H3.FS H3.Varint

theorem observe_nil (fuel : Nat) (e : Ending) : observe (fuel + 1) [] e = [endTok e true] := by
  rw [observe, if_pos rfl]

theorem observe_hdr1 (fuel : Nat) (w : Varint.Bytes) (e : Ending) (hnil : w ≠ [])
    (h1 : rfcDecode w = none) : observe (fuel + 1) w e = [endTok e false] := by
  rw [observe, if_neg hnil]
  simp only [h1]

theorem observe_outside (fuel : Nat) (w r1 : Varint.Bytes) (e : Ending) (hnil : w ≠ [])
    (h1 : rfcDecode w = some (0x41, r1)) : observe (fuel + 1) w e = [.outside] := by
  rw [observe, if_neg hnil]
  simp only [h1, ↓reduceIte]

theorem observe_hdr2 (fuel : Nat) (w r1 : Varint.Bytes) (ty : Nat) (e : Ending) (hnil : w ≠ [])
    (h1 : rfcDecode w = some (ty, r1)) (hty : ty ≠ 0x41) (h2 : rfcDecode r1 = none) :
    observe (fuel + 1) w e = [endTok e false] := by
  rw [observe, if_neg hnil]
  simp only [h1]
  rw [if_neg hty]
  simp only [h2]

theorem observe_body (fuel : Nat) (w r1 r2 : Varint.Bytes) (ty len : Nat) (e : Ending) (hnil : w ≠ [])
    (h1 : rfcDecode w = some (ty, r1)) (hty : ty ≠ 0x41) (h2 : rfcDecode r1 = some (len, r2)) :
    observe (fuel + 1) w e =
      if ty = 0x0 then
        if len = 0 then .frame (.data 0) :: observe fuel r2 e
        else if len ≤ r2.length then
          .frame (.data len) :: .data (r2.take len) :: observe fuel (r2.drop len) e
        else match e with
          | .fin => .frame (.data len) :: ((if r2 = [] then [] else [.partialData r2]) ++ [.truncated])
          | .open_ => .frame (.data len) :: ((if r2 = [] then [] else [.data r2]) ++ [.pending])
      else if r2.length < len then [endTok e false]
      else if isKnown ty then
        match classify ty (r2.take len) with
        | .frame f => .frame f :: observe fuel (r2.drop len) e
        | .okSettings => .okSettings :: observe fuel (r2.drop len) e
        | t => [t]
      else observe fuel (r2.drop len) e := by
  rw [observe, if_neg hnil]
  simp only [h1]
  rw [if_neg hty]
  simp only [h2]
  rfl

theorem frameDec_kind (f : Frame) : frameDec.kind f = frameKind f := rfl

theorem run_inc (w : Varint.Bytes) (hnil : w ≠ []) (h : (frameDec.dec w).isIncomplete = true)
    (e : Ending) :
    Agree e (run frameDec (.hdr []) w).1 (run frameDec (.hdr []) w).2 [endTok e false] := by
  rw [run_incomplete frameDec frameDec_laws w (Or.inr h)]
  exact Agree.inFrame w hnil

theorem reference_is_spec_aux (e : Ending) : ∀ (fuel : Nat) (w : Varint.Bytes), WF w → w.length < fuel →
    Tok.outside ∉ observe fuel w e →
    Agree e (run frameDec (.hdr []) w).1 (run frameDec (.hdr []) w).2 (observe fuel w e) := by
  intro fuel
  induction fuel with
  | zero => intro w _ h; omega
  | succ fuel ih =>
    intro w hwf hlen hno
    by_cases hnil : w = []
    · subst hnil
      rw [observe_nil]
      exact Agree.clean
    · have hview := dec_view w
      rw [hdr2_of_rfc w hwf] at hview
      cases h1 : rfcDecode w with
      | none =>
        rw [observe_hdr1 fuel w e hnil h1]
        rw [h1] at hview
        exact run_inc w hnil (by rw [hview]; rfl) e
      | some p1 =>
        obtain ⟨ty, r1⟩ := p1
        rw [h1] at hview
        simp only at hview
        by_cases hty : ty = 0x41
        · subst hty
          rw [observe_outside fuel w r1 e hnil h1] at hno
          exact absurd (List.mem_singleton.mpr rfl) hno
        · cases h2 : rfcDecode r1 with
          | none =>
            rw [observe_hdr2 fuel w r1 ty e hnil h1 hty h2]
            rw [h2] at hview
            exact run_inc w hnil (by rw [hview]; rfl) e
          | some p2 =>
            obtain ⟨len, r2⟩ := p2
            rw [h2] at hview
            simp only at hview
            obtain ⟨hh2, hr2le, hr2⟩ := rfc_rest2 h1 h2
            have hwf2 : WF r2 := by rw [hr2]; exact WF_drop hwf _
            have hwf1 : WF r1 := by
              obtain ⟨n1, _, _, hr1⟩ := rfc_rest h1
              rw [hr1]; exact WF_drop hwf _
            have hlt62 : len < 2^62 := ((H3.Props.C16.C16_decode_total r1 hwf1).1 len r2 h2).2
            have hlen2 : r2.length < fuel := by omega
            have hwt : ty ≠ H3.Gen.Consts.FRAME_WEBTRANSPORT_BI_STREAM := hty
            rw [observe_body fuel w r1 r2 ty len e hnil h1 hty h2] at hno ⊢
            generalize hh : w.length - r2.length = h at *
            by_cases hdata : ty = 0x0
            · -- DATA: header only
              subst hdata
              rw [if_pos rfl] at hno ⊢
              have hdec : frameDec.dec w = .frame (.data len) h := by
                rw [hview]; simp [body, H3.Gen.Consts.FRAME_WEBTRANSPORT_BI_STREAM,
                  H3.Gen.Consts.FRAME_DATA, liftRes]
              have hrun := run_of_pos frameDec frameDec_laws w h (by rw [hdec]; rfl)
              rw [hdec, ← hr2] at hrun
              simp only [DecRes.fed, frameDec_kind, frameKind, Kind.rem] at hrun
              by_cases hl0 : len = 0
              · subst hl0
                rw [if_pos rfl] at hno ⊢
                rw [hrun]
                simp only [PSt.ofRem_zero, List.singleton_append]
                exact Agree.data0 _ _ _ (ih r2 hwf2 hlen2 (fun hm => hno (List.mem_cons_of_mem _ hm)))
              · rw [if_neg hl0] at hno ⊢
                rw [PSt.ofRem_pos hl0] at hrun
                by_cases hle : len ≤ r2.length
                · rw [if_pos hle] at hno ⊢
                  rw [hrun, run_data_full frameDec len r2 hl0 hle]
                  simp only [List.singleton_append]
                  refine Agree.data len (r2.take len) _ _ _ hl0 hlt62 (by simp; omega) ?_
                  exact ih (r2.drop len) (WF_drop hwf2 _) (by simp; omega)
                    (fun hm => hno (List.mem_cons_of_mem _ (List.mem_cons_of_mem _ hm)))
                · rw [if_neg hle]
                  rw [hrun, run_data_short frameDec len r2 (by omega)]
                  simp only [List.singleton_append]
                  have := Agree.dataCut (e := e) len r2 hlt62 (by omega)
                  cases e <;> exact this
            · rw [if_neg hdata] at hno ⊢
              have hdt : ty ≠ H3.Gen.Consts.FRAME_DATA := hdata
              by_cases hshort : r2.length < len
              · rw [if_pos hshort]
                refine run_inc w hnil ?_ e
                rw [hview, body_incomplete_iff]
                exact ⟨hwt, hdt, by omega⟩
              · rw [if_neg hshort] at hno ⊢
                have hbody : frameDec.dec w = liftRes (typed ty (r2.take len) (h + len)) := by
                  rw [hview]
                  unfold body
                  rw [if_neg hwt, if_neg hdt, if_neg (by omega), ← hr2]
                have hdrop : w.drop (h + len) = r2.drop len := by
                  rw [hr2, List.drop_drop]
                have hwfp : WF (r2.take len) := WF_take hwf2 _
                have hlen3 : (r2.drop len).length < fuel := by simp; omega
                by_cases hk : isKnown ty = true
                · rw [if_pos hk] at hno ⊢
                  have hTA := typed_classify ty (r2.take len) (h + len) hwfp hk
                  revert hTA hno
                  cases hc : classify ty (r2.take len) with
                  | frame f =>
                    intro hno
                    rintro ⟨hty', hns, hnd, hnw⟩
                    simp only at hno ⊢
                    rw [hty'] at hbody
                    have hplain : plainFrame f = true := by
                      cases f <;> simp_all [plainFrame]
                    have hkind : (frameDec.kind f).rem = 0 := by
                      cases f <;> simp_all [frameDec_kind, frameKind, Kind.rem]
                    have hrun := run_of_pos frameDec frameDec_laws w (h + len)
                      (by rw [hbody]; rfl)
                    rw [hbody, hdrop] at hrun
                    simp only [liftRes, DecRes.fed, hkind, PSt.ofRem_zero] at hrun
                    rw [hrun]
                    exact Agree.frame f _ _ _ hplain
                      (ih _ (WF_drop hwf2 _) hlen3 (fun hm => hno (List.mem_cons_of_mem _ hm)))
                  | okSettings =>
                    intro hno
                    rintro ⟨es, hty'⟩
                    simp only at hno ⊢
                    rw [hty'] at hbody
                    have hrun := run_of_pos frameDec frameDec_laws w (h + len)
                      (by rw [hbody]; rfl)
                    rw [hbody, hdrop] at hrun
                    simp only [liftRes, DecRes.fed, frameDec_kind, frameKind, Kind.rem,
                      PSt.ofRem_zero] at hrun
                    rw [hrun]
                    exact Agree.settings es _ _ _
                      (ih _ (WF_drop hwf2 _) hlen3 (fun hm => hno (List.mem_cons_of_mem _ hm)))
                  | malformed =>
                    intro _ hty'
                    rw [hty'] at hbody
                    rw [run_of_error frameDec frameDec_laws w _ hbody]
                    exact Agree.malformed
                  | h2 t =>
                    intro _ hty'
                    rw [hty'] at hbody
                    rw [run_of_error frameDec frameDec_laws w _ hbody]
                    exact Agree.h2 t
                  | badSettings =>
                    intro _
                    rintro ⟨err, hty'⟩
                    rw [hty'] at hbody
                    rw [run_of_error frameDec frameDec_laws w _ hbody]
                    exact Agree.badSettings err
                  | data _ => intro _ h; exact absurd h id
                  | partialData _ => intro _ h; exact absurd h id
                  | none_ => intro _ h; exact absurd h id
                  | pending => intro _ h; exact absurd h id
                  | truncated => intro _ h; exact absurd h id
                  | outside => intro _ h; exact absurd h id
                · have hk' : isKnown ty = false := by simpa using hk
                  rw [if_neg hk] at hno ⊢
                  rw [typed_unknown ty _ _ hk'] at hbody
                  have hrun := run_of_pos frameDec frameDec_laws w (h + len)
                    (by rw [hbody]; rfl)
                  rw [hbody, hdrop] at hrun
                  simp only [liftRes, DecRes.fed, List.nil_append] at hrun
                  rw [hrun]
                  exact ih _ (WF_drop hwf2 _) hlen3 hno

/-- Theorem 5: the reference automaton is the RFC oracle -/
theorem reference_is_spec (w : Varint.Bytes) (e : Ending) (hwf : WF w)
    (hno : Tok.outside ∉ observe (w.length + 1) w e) :
    Agree e (run frameDec (.hdr []) w).1 (run frameDec (.hdr []) w).2 (observe (w.length + 1) w e) :=
  reference_is_spec_aux e (w.length + 1) w hwf (by omega) hno

/-- a reference result that agrees with the oracle contains no WebTransport header and no
    DATA frame as long as `usize::MAX`: `poll_data` never runs in raw mode -/
theorem agree_noraw {e : Ending} {p : PSt} {ts : List RTok} {ss : List Tok} (h : Agree e p ts ss) :
    ∀ f, FS.Tok.frame f ∈ ts → (frameDec.kind f).rem < USIZE_MAX := by
  have h62 : (2:Nat)^62 < USIZE_MAX := by decide
  induction h with
  | clean => intro f hf; cases hf
  | inFrame acc _ => intro f hf; cases hf
  | frame f p ts ss hp _ ih =>
    intro g hg
    simp only [List.mem_cons, FS.Tok.frame.injEq] at hg
    rcases hg with rfl | hg
    · cases g <;> simp_all [plainFrame, frameDec_kind, frameKind, Kind.rem, usize_pos]
    · exact ih g hg
  | settings es p ts ss _ ih =>
    intro g hg
    simp only [List.mem_cons, FS.Tok.frame.injEq] at hg
    rcases hg with rfl | hg
    · simp [frameDec_kind, frameKind, Kind.rem, usize_pos]
    · exact ih g hg
  | data0 p ts ss _ ih =>
    intro g hg
    simp only [List.mem_cons, FS.Tok.frame.injEq] at hg
    rcases hg with rfl | hg
    · simp [frameDec_kind, frameKind, Kind.rem, usize_pos]
    · exact ih g hg
  | data len bs p ts ss _ hlt _ _ ih =>
    intro g hg
    simp only [List.mem_cons, FS.Tok.frame.injEq, List.mem_append, List.mem_map] at hg
    rcases hg with rfl | ⟨_, _, hc⟩ | hg
    · simp only [frameDec_kind, frameKind, Kind.rem]; omega
    · cases hc
    · exact ih g hg
  | dataCut len bs hlt _ =>
    intro g hg
    simp only [List.mem_cons, FS.Tok.frame.injEq, List.mem_map] at hg
    rcases hg with rfl | ⟨_, _, hc⟩
    · simp only [frameDec_kind, frameKind, Kind.rem]; omega
    · cases hc
  | malformed => intro f hf; simp at hf
  | h2 ty => intro f hf; simp at hf
  | badSettings err => intro f hf; simp at hf

end H3.Spec.Framing
