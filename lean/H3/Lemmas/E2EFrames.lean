import H3.Model.E2E
import H3.Lemmas.FrameStreamReader
import H3.Lemmas.FrameLaws
/-! The frame layer (`H3.FS` over a transport script) while it reads a byte string `w` that the
    reference automaton takes to a frame boundary with tokens `T`: every answer of
    `poll_next` / `poll_data` is forced by `T` — whatever the chunking, wherever `pend` stands.
    Built on the C02 invariant (`Inv`, `pollNextLoop_spec`, `pollData_spec`). -/
namespace H3.E2E
open H3.FS H3.ReqRecv

abbrev RTok' := H3.FS.Tok H3.Frame.Frame H3.Frame.FrameErr

theorem scriptBytes_eq (sc : List Ev) : scriptBytes sc = (evBytes sc).length := by
  induction sc with
  | nil => rfl
  | cons e r ih => cases e <;> simp [scriptBytes, evBytes, ih]

theorem scriptBytes_append (a b : List Ev) : scriptBytes (a ++ b) = scriptBytes a + scriptBytes b := by
  rw [scriptBytes_eq, scriptBytes_eq, scriptBytes_eq, evBytes_append, List.length_append]

/-- the frame layer in the middle of reading `w`: the C02 invariant for the bytes taken so far
    and the tokens handed out so far; what is still to come completes `w` and ends with FIN -/
structure Rdy (w seen : Bytes) (toks : List RTok') (c : FSt) : Prop where
  inv : Inv frameDec seen toks c.1
  ok : ScriptOK c.2
  nr : NoReset c.2
  hw : wOf seen c.1.eos c.2 = w
  hfin : finOf c.1.eos c.2 = true

theorem rdy_init (script : List Ev) (hsc : ScriptOK script) (hnr : NoReset script)
    (hfin : hasFin script = true) : Rdy (evBytes (upToFin script)) [] [] ({}, script) :=
  ⟨inv_init frameDec, hsc, hnr, by simp [wOf], by simpa [finOf] using hfin⟩

/-- the tokens handed out are a prefix of `T` -/
theorem rdy_prefix {w seen : Bytes} {T toks : List RTok'} {c : FSt} {p : PSt}
    (hW : run frameDec (.hdr []) w = (p, T)) (h : Rdy w seen toks c) : ∃ more, T = toks ++ more := by
  obtain ⟨more, hm⟩ := inv_toks_prefix frameDec h.inv (if c.1.eos then [] else evBytes (upToFin c.2))
  have : seen ++ (if c.1.eos then [] else evBytes (upToFin c.2)) = w := h.hw
  rw [this, hW] at hm
  exact ⟨more, hm⟩

/-- events are still to come while the stream has not ended -/
theorem rdy_script_ne {w seen : Bytes} {toks : List RTok'} {c : FSt} (h : Rdy w seen toks c)
    (he : c.1.eos = false) : c.2 ≠ [] := by
  intro hn
  have := h.hfin
  rw [he, hn] at this
  simp [finOf, hasFin] at this

/-! ### tokens after a header state never start with a payload byte -/

def isByte : RTok' → Bool
  | .byte _ => true
  | _ => false

/-- number of leading payload-byte tokens -/
def lead : List RTok' → Nat
  | t :: r => if isByte t then lead r + 1 else 0
  | [] => 0

theorem lead_bytes (bs : Bytes) (r : List RTok') : lead (bs.map .byte ++ r) = bs.length + lead r := by
  induction bs with
  | nil => simp
  | cons b bs ih => simp [lead, isByte, ih]; omega

theorem run_hdr_lead (x : Bytes) : ∀ acc, lead (run frameDec (.hdr acc) x).2 = 0 := by
  induction x with
  | nil => intro acc; rfl
  | cons b x ih =>
    intro acc
    simp only [run, feed]
    cases hd : frameDec.dec (acc ++ [b]) with
    | frame f n => simp [lead, isByte]
    | unknown n => simpa using ih []
    | incomplete m => simpa using ih (acc ++ [b])
    | error e => simp [lead, isByte]

/-- `remaining_data` is the number of payload bytes that `T` says come next -/
theorem rdy_rem {w seen : Bytes} {T toks rest : List RTok'} {c : FSt}
    (hW : run frameDec (.hdr []) w = (.hdr [], T)) (h : Rdy w seen toks c) (hT : T = toks ++ rest) :
    c.1.remaining = lead rest := by
  obtain ⟨consumed, hseen, hrun⟩ := h.inv.split
  have hw : w = consumed ++ (c.1.flat ++ (if c.1.eos then [] else evBytes (upToFin c.2))) := by
    rw [← h.hw]; unfold wOf; rw [hseen, List.append_assoc]
  generalize c.1.flat ++ (if c.1.eos then [] else evBytes (upToFin c.2)) = z at hw
  rw [hw, run_append, hrun] at hW
  simp only [Prod.mk.injEq] at hW
  obtain ⟨hst, htk⟩ := hW
  rw [hT] at htk
  have hrest : (run frameDec (PSt.ofRem c.1.remaining) z).2 = rest := List.append_cancel_left htk
  by_cases h0 : c.1.remaining = 0
  · rw [h0, PSt.ofRem_zero] at hrest
    rw [h0, ← hrest, run_hdr_lead]
  · rw [PSt.ofRem_pos h0] at hrest hst
    by_cases hlen : c.1.remaining ≤ z.length
    · rw [run_data_full frameDec _ z h0 hlen] at hrest
      simp only at hrest
      rw [← hrest, lead_bytes, run_hdr_lead]
      simp only [List.length_take]
      omega
    · rw [run_data_short frameDec _ z (by omega)] at hst
      cases hst

/-! ### `poll_next` -/

theorem fsFuel_pos (c : FSt) : 0 < fsFuel c := by unfold fsFuel; omega

theorem fs_next {w seen : Bytes} {T toks : List RTok'} {c : FSt}
    (hW : run frameDec (.hdr []) w = (.hdr [], T)) (h : Rdy w seen toks c) (h0 : c.1.remaining = 0) :
    ∃ seen',
      ((fsSrc.pollNext c).1 = .pending ∧ Rdy w seen' toks (fsSrc.pollNext c).2 ∧ c.1.eos = false ∧
        (fsSrc.pollNext c).2.1.eos = false ∧ fsFuel (fsSrc.pollNext c).2 < fsFuel c) ∨
      (∃ f, (fsSrc.pollNext c).1 = .frame f ∧ Rdy w seen' (toks ++ [.frame f]) (fsSrc.pollNext c).2 ∧
        fsFuel (fsSrc.pollNext c).2 < fsFuel c) ∨
      ((fsSrc.pollNext c).1 = .none ∧ toks = T ∧ Rdy w seen' toks (fsSrc.pollNext c).2 ∧
        (fsSrc.pollNext c).2.1.eos = true ∧ (fsSrc.pollNext c).2.1.flat = []) := by
  obtain ⟨s, script⟩ := c
  simp only at h0
  have hpn : pollNext frameDec s script = pollNextLoop frameDec s script := by
    unfold pollNext; rw [if_neg (by simpa using h0)]
  have hp := pollNextLoop_spec frameDec frameDec_laws script seen toks s h.inv h0 h.ok
  have hsrc : fsSrc.pollNext (s, script) =
      ((pollNextLoop frameDec s script).1, (pollNextLoop frameDec s script).2.1,
        (pollNextLoop frameDec s script).2.2) := by
    simp only [fsSrc, hpn]
  rw [hsrc]
  cases hres : pollNextLoop frameDec s script with
  | mk o rest =>
  obtain ⟨s', script'⟩ := rest
  rw [hres] at hp
  obtain ⟨taken, hscr, htk, hout⟩ := hp
  subst hscr
  obtain ⟨hw', hfin'⟩ := w_step seen s.eos s'.eos taken script' htk
  have hw := h.hw
  have hfin := h.hfin
  simp only at hw hfin
  rw [hw] at hw'
  rw [hfin] at hfin'
  have hsc' : ScriptOK script' := scriptOK_suffix h.ok
  have hnr' : NoReset script' := fun c hc => h.nr c (List.mem_append_right _ hc)
  refine ⟨seen ++ evBytes taken, ?_⟩
  simp only
  have hsb : scriptBytes (taken ++ script') = (evBytes taken).length + scriptBytes script' := by
    rw [scriptBytes_append, scriptBytes_eq taken]
  cases o with
  | frame f =>
    have hI' : Inv frameDec (seen ++ evBytes taken) (toks ++ [.frame f]) s' := hout
    right; left
    refine ⟨f, rfl, ⟨hI', hsc', hnr', hw', hfin'⟩, ?_⟩
    have hprog := inv_progress frameDec h.inv hI' (by simp)
    simp only [fsFuel, List.length_append, hsb] at hprog ⊢
    omega
  | pending =>
    obtain ⟨hI', _, heos', _⟩ := hout
    have heosf : s.eos = false := by
      cases hs : s.eos with
      | false => rfl
      | true =>
        rw [hs] at htk
        simp only [TakenOK, if_true] at htk
        rw [htk.2.2] at heos'; cases heos'
    obtain ⟨taken2, ht2, hlen2, hnt⟩ := pollNextLoop_pending frameDec _ s s' script' hres
    have : taken2 = taken := List.append_cancel_right ht2.symm
    subst this
    have hne : taken2 ++ script' ≠ [] := rdy_script_ne h heosf
    have htne := hnt heosf hne
    have : 0 < taken2.length := List.length_pos_iff.mpr htne
    left
    refine ⟨rfl, ⟨hI', hsc', hnr', hw', hfin'⟩, heosf, heos', ?_⟩
    simp only [fsFuel, List.length_append, hsb] at hlen2 ⊢
    omega
  | none =>
    obtain ⟨hI', hfl, heos', hrem⟩ := hout
    right; right
    refine ⟨rfl, ?_, ⟨hI', hsc', hnr', hw', hfin'⟩, heos', hfl⟩
    obtain ⟨c, hseen, hrun⟩ := hI'.split
    have hwseen : w = seen ++ evBytes taken := by
      rw [← hw']; simp [wOf, heos']
    rw [hfl, List.append_nil] at hseen
    rw [hrem, PSt.ofRem_zero] at hrun
    rw [hwseen, hseen, hrun] at hW
    simp only [Prod.mk.injEq, true_and] at hW
    exact hW
  | errEnd =>
    exfalso
    obtain ⟨hI', hne, hinc, heos', hrem⟩ := hout
    obtain ⟨c, hseen, hrun⟩ := hI'.split
    have hwseen : w = seen ++ evBytes taken := by
      rw [← hw']; simp [wOf, heos']
    rw [hrem, PSt.ofRem_zero] at hrun
    rw [hwseen, hseen, run_append, hrun, run_incomplete frameDec frameDec_laws s'.flat (Or.inr hinc)] at hW
    simp only [Prod.mk.injEq, PSt.hdr.injEq] at hW
    exact hne hW.1
  | errProto e =>
    exfalso
    obtain ⟨c, n, hseen, hrun, hn1, hn2, hrunE⟩ := hout
    have hsplit : w = c ++ (s'.flat.take n ++ (s'.flat.drop n ++
        (if s'.eos then [] else evBytes (upToFin script')))) := by
      rw [← hw']
      unfold wOf
      rw [hseen]
      simp only [List.append_assoc]
      rw [← List.append_assoc (s'.flat.take n), List.take_append_drop]
    rw [hsplit, run_append, hrun, run_append, hrunE, run_dead] at hW
    simp only [Prod.mk.injEq] at hW
    exact absurd hW.1 (by intro hc; cases hc)
  | errQuic c =>
    exfalso
    obtain ⟨_, ⟨r, hr⟩, _⟩ := hout
    exact absurd (by rw [hr]; simp) (hnr' c)
  | data _ => exact absurd hout id
  | panic => exact absurd hout id

/-! ### `poll_data` -/

theorem fs_data {w seen : Bytes} {T toks : List RTok'} {c : FSt}
    (hW : run frameDec (.hdr []) w = (.hdr [], T)) (h : Rdy w seen toks c) (h0 : c.1.remaining ≠ 0) :
    ∃ seen',
      ((fsSrc.pollData c).1 = .pending ∧ Rdy w seen' toks (fsSrc.pollData c).2 ∧
        (fsSrc.pollData c).2.1.eos = false ∧ fsFuel (fsSrc.pollData c).2 < fsFuel c) ∨
      (∃ d, (fsSrc.pollData c).1 = .data d ∧ d ≠ [] ∧ d.length ≤ c.1.remaining ∧
        Rdy w seen' (toks ++ d.map .byte) (fsSrc.pollData c).2 ∧
        fsFuel (fsSrc.pollData c).2 < fsFuel c) := by
  obtain ⟨s, script⟩ := c
  simp only at h0
  have hp := pollData_spec frameDec seen toks s script h.inv h.ok
  have hsrc : fsSrc.pollData (s, script) =
      ((pollData (F := H3.Frame.Frame) (E := H3.Frame.FrameErr) s script).1,
       (pollData (F := H3.Frame.Frame) (E := H3.Frame.FrameErr) s script).2.1,
       (pollData (F := H3.Frame.Frame) (E := H3.Frame.FrameErr) s script).2.2) := by
    simp only [fsSrc]
  rw [hsrc]
  cases hres : pollData (F := H3.Frame.Frame) (E := H3.Frame.FrameErr) s script with
  | mk o rest =>
  obtain ⟨s', script'⟩ := rest
  rw [hres] at hp
  obtain ⟨taken, hscr, htk, hout⟩ := hp
  subst hscr
  obtain ⟨hw', hfin'⟩ := w_step seen s.eos s'.eos taken script' htk
  have hw := h.hw
  have hfin := h.hfin
  simp only at hw hfin
  rw [hw] at hw'
  rw [hfin] at hfin'
  have hsc' : ScriptOK script' := scriptOK_suffix h.ok
  have hnr' : NoReset script' := fun c hc => h.nr c (List.mem_append_right _ hc)
  refine ⟨seen ++ evBytes taken, ?_⟩
  simp only
  have hsb : scriptBytes (taken ++ script') = (evBytes taken).length + scriptBytes script' := by
    rw [scriptBytes_append, scriptBytes_eq taken]
  cases o with
  | data d =>
    obtain ⟨hd, hdl, _, hI'⟩ := hout
    right
    refine ⟨d, rfl, hd, hdl, ⟨hI', hsc', hnr', hw', hfin'⟩, ?_⟩
    have hprog := inv_progress frameDec h.inv hI' (by simpa using hd)
    simp only [fsFuel, List.length_append, hsb] at hprog ⊢
    omega
  | pending =>
    obtain ⟨hI', hfl, heos', hrem⟩ := hout
    have heosf : s.eos = false := by
      cases hs : s.eos with
      | false => rfl
      | true =>
        rw [hs] at htk
        simp only [TakenOK, if_true] at htk
        rw [htk.2.2] at heos'; cases heos'
    obtain ⟨taken2, ht2, hnt⟩ := pollData_pending s s' (taken ++ script') script' hres
    have : taken2 = taken := List.append_cancel_right ht2.symm
    subst this
    have hne : taken2 ++ script' ≠ [] := rdy_script_ne h heosf
    have htne := hnt heosf hne
    have : 0 < taken2.length := List.length_pos_iff.mpr htne
    left
    refine ⟨rfl, ⟨hI', hsc', hnr', hw', hfin'⟩, heos', ?_⟩
    simp only [fsFuel, List.length_append, hsb, hfl, List.length_nil]
    omega
  | none =>
    exfalso
    obtain ⟨hI', hcase⟩ := hout
    rcases hcase with ⟨hz, _⟩ | ⟨_, hmax, heos', hfl⟩
    · exact h0 hz
    · obtain ⟨c, hseen, hrun⟩ := hI'.split
      have hwseen : w = seen ++ evBytes taken := by
        rw [← hw']; simp [wOf, heos']
      rw [hfl, List.append_nil] at hseen
      rw [hmax, PSt.ofRem_pos (by decide)] at hrun
      rw [hwseen, hseen, hrun] at hW
      simp only [Prod.mk.injEq] at hW
      exact absurd hW.1 (by intro hc; cases hc)
  | errEnd =>
    exfalso
    obtain ⟨heos', _, c, rest, hseen, hrun, hlt⟩ := hout
    have hwseen : w = seen ++ evBytes taken := by
      rw [← hw']; simp [wOf, heos']
    rw [hwseen, hseen, run_append, hrun, run_data_short frameDec _ rest hlt] at hW
    simp only [Prod.mk.injEq] at hW
    exact absurd hW.1 (by intro hc; cases hc)
  | errQuic c =>
    exfalso
    obtain ⟨_, ⟨r, hr⟩, _⟩ := hout
    exact absurd (by rw [hr]; simp) (hnr' c)
  | frame _ => exact absurd hout id
  | errProto _ => exact absurd hout id
  | panic => exact absurd hout id

end H3.E2E
