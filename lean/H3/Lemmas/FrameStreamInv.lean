import H3.Lemmas.FrameStream
/-! The two preservation lemmas of App. B.1 (`pollNext_preserves`, `pollData_preserves`):
    every answer of `poll_next` / `poll_data`, from a state satisfying `Inv`, is described in
    terms of the reference automaton, and non-error answers re-establish `Inv`. -/
namespace H3.FS
variable {F E : Type}

@[simp] theorem PSt.ofRem_zero : PSt.ofRem 0 = .hdr [] := rfl

theorem PSt.ofRem_pos {n : Nat} (h : n ≠ 0) : PSt.ofRem n = .data n := by
  simp [PSt.ofRem, h]

theorem evBytes_append (a b : List Ev) : evBytes (a ++ b) = evBytes a ++ evBytes b := by
  induction a with
  | nil => rfl
  | cons e r ih => cases e <;> simp [evBytes, ih]

/-- nothing that is buffered decodes -/
def Stuck (D : Dec F E) (s : St) : Prop := s.flat = [] ∨ (D.dec s.flat).isIncomplete = true

/-- a protocol error was reported: the consumed bytes end at a frame boundary and some prefix
    of the buffer drives the reference automaton into exactly this error -/
def ErrAt (D : Dec F E) (seen : Bytes) (toks : List (Tok F E)) (s : St) (e : E) : Prop :=
  ∃ consumed n, seen = consumed ++ s.flat ∧ run D (.hdr []) consumed = (.hdr [], toks) ∧
    1 ≤ n ∧ n ≤ s.flat.length ∧ run D (.hdr []) (s.flat.take n) = (.dead, [.errProto e])

/-- bookkeeping of what a call took from the script: never a reset, nothing after `fin` -/
def TakenOK (eos eos' : Bool) (taken : List Ev) : Prop :=
  (∀ c, Ev.reset c ∉ taken) ∧
  (if eos then taken = [] ∧ eos' = true
   else if eos' then ∃ pre, taken = pre ++ [.fin] ∧ .fin ∉ pre else .fin ∉ taken)

/-- specification of the decode step -/
def AfterSpec (D : Dec F E) (seen : Bytes) (toks : List (Tok F E)) (s : St) (e : End) :
    Option (Out F E × St) → Prop
  | some (.frame f, s') => s'.eos = s.eos ∧ Inv D seen (toks ++ [.frame f]) s'
  | some (.errProto e', s') => s'.eos = s.eos ∧ ErrAt D seen toks s' e'
  | some (.pending, s') => s'.eos = s.eos ∧ e = .pending ∧ Inv D seen toks s' ∧ Stuck D s' ∧
      s'.remaining = 0
  | some (.none, s') => s'.eos = s.eos ∧ e = .eos ∧ Inv D seen toks s' ∧ s'.flat = [] ∧
      s'.remaining = 0
  | some (.errEnd, s') => s'.eos = s.eos ∧ e = .eos ∧ Inv D seen toks s' ∧ s'.flat ≠ [] ∧
      (D.dec s'.flat).isIncomplete = true ∧ s'.remaining = 0
  | some (_, _) => False
  | none => e = .more ∧ ∃ d exp, decLoop D (s.flat.length + 1) s.flat s.expected 0 = .none d exp ∧
      Inv D seen toks { s with buf := advance d s.buf, expected := exp } ∧
      Stuck D { s with buf := advance d s.buf, expected := exp }

theorem flat_advance (s : St) (d : Nat) (exp : Option Nat) (h : ∀ c ∈ s.buf, c ≠ []) :
    ({ s with buf := advance d s.buf, expected := exp } : St).flat = s.flat.drop d := by
  simp [St.flat, advance_flatten d s.buf h]

theorem flat_of_buf (s s' : St) (d : Nat) (h : ∀ c ∈ s.buf, c ≠ [])
    (hb : s'.buf = advance d s.buf) : s'.flat = s.flat.drop d := by
  simp [St.flat, hb, advance_flatten d s.buf h]

theorem afterRecv_spec (D : Dec F E) (L : Laws D) (seen : Bytes) (toks : List (Tok F E)) (s : St)
    (hI : Inv D seen toks s) (h0 : s.remaining = 0) (e : End) :
    AfterSpec D seen toks s e (afterRecv D s e) := by
  obtain ⟨consumed, hseen, hrun⟩ := hI.split
  rw [h0, PSt.ofRem_zero] at hrun
  have hspec := decLoop_spec D L (s.flat.length + 1) s.flat s.expected 0 (by omega) hI.exp
  unfold afterRecv
  revert hspec
  cases hdl : decLoop D (s.flat.length + 1) s.flat s.expected 0 with
  | frame d f =>
    rintro ⟨d', rfl, hd1, hd2, hr⟩
    simp only [Nat.zero_add] at *
    refine ⟨by cases D.kind f <;> rfl, ?_⟩
    have hflat : (({ s with buf := advance d' s.buf, expected := none } : St).applyKind (D.kind f)).flat
        = s.flat.drop d' := by
      cases D.kind f <;> simp [St.applyKind, St.flat, advance_flatten d' s.buf hI.ne]
    have hbuf : (({ s with buf := advance d' s.buf, expected := none } : St).applyKind (D.kind f)).buf
        = advance d' s.buf := by
      cases D.kind f <;> rfl
    have hrem : (({ s with buf := advance d' s.buf, expected := none } : St).applyKind (D.kind f)).remaining
        = (D.kind f).rem := by
      cases D.kind f <;> rfl
    have hexp : (({ s with buf := advance d' s.buf, expected := none } : St).applyKind (D.kind f)).expected
        = none := by
      cases D.kind f <;> rfl
    refine ⟨?_, ⟨consumed ++ s.flat.take d', ?_, ?_⟩, ?_, ?_⟩
    · rw [hbuf]; exact advance_ne _ _ hI.ne
    · rw [hflat, hseen, List.append_assoc, List.take_append_drop]
    · rw [run_append, hrun, hrem]
      simp only [hr]
    · rw [hexp]; exact expSound_none D _
    · intro _; exact hexp
  | error d exp e' =>
    rintro ⟨d', n, rfl, hn1, hn2, hr0, hr⟩
    simp only [Nat.zero_add] at *
    have hfl : ({ s with buf := advance d' s.buf, expected := exp } : St).flat = s.flat.drop d' :=
      flat_of_buf s _ d' hI.ne rfl
    refine ⟨rfl, consumed ++ s.flat.take d', n, ?_, ?_, hn1, ?_, ?_⟩
    · rw [hfl, hseen, List.append_assoc, List.take_append_drop]
    · rw [run_append, hrun]
      simp only [hr0, List.append_nil]
    · rw [hfl, List.length_drop]
      omega
    · rw [hfl]
      exact hr
  | none d exp =>
    rintro ⟨d', rfl, hd2, hr0, hstuck, hsnd⟩
    simp only [Nat.zero_add] at *
    have hfl := flat_advance s d' exp hI.ne
    have hInv : Inv D seen toks { s with buf := advance d' s.buf, expected := exp } := by
      refine ⟨advance_ne _ _ hI.ne, ⟨consumed ++ s.flat.take d', ?_, ?_⟩, ?_, ?_⟩
      · rw [hfl, hseen, List.append_assoc, List.take_append_drop]
      · rw [run_append, hrun]
        simp only [hr0, List.append_nil]
        rw [show ({ s with buf := advance d' s.buf, expected := exp } : St).remaining = 0 from h0]
        rfl
      · rw [hfl]; exact hsnd
      · intro h; exact absurd h0 h
    have hSt : Stuck D { s with buf := advance d' s.buf, expected := exp } := by
      unfold Stuck; rw [hfl]; exact hstuck
    cases e with
    | more => exact ⟨rfl, d', exp, hdl, hInv, hSt⟩
    | pending => exact ⟨rfl, rfl, hInv, hSt, h0⟩
    | eos =>
      simp only
      by_cases hnil : ({ s with buf := advance d' s.buf, expected := exp } : St).flat = []
      · rw [if_pos hnil]
        exact ⟨rfl, rfl, hInv, hnil, h0⟩
      · rw [if_neg hnil]
        refine ⟨rfl, rfl, hInv, hnil, ?_, h0⟩
        rcases hSt with h | h
        · exact absurd h hnil
        · exact h

/-! ### `poll_next` -/

/-- what an answer of `poll_next` means (`seen` already includes the chunks the call took) -/
def NextOut (D : Dec F E) (seen : Bytes) (toks : List (Tok F E)) (s' : St) (script' : List Ev) :
    Out F E → Prop
  | .frame f => Inv D seen (toks ++ [.frame f]) s'
  | .pending => Inv D seen toks s' ∧ Stuck D s' ∧ s'.eos = false ∧ s'.remaining = 0
  | .none => Inv D seen toks s' ∧ s'.flat = [] ∧ s'.eos = true ∧ s'.remaining = 0
  | .errEnd => Inv D seen toks s' ∧ s'.flat ≠ [] ∧ (D.dec s'.flat).isIncomplete = true ∧
      s'.eos = true ∧ s'.remaining = 0
  | .errProto e => ErrAt D seen toks s' e
  | .errQuic c => Inv D seen toks s' ∧ (∃ r, script' = .reset c :: r) ∧ s'.eos = false
  | .data _ => False
  | .panic => False

def NextPost (D : Dec F E) (seen : Bytes) (toks : List (Tok F E)) (s : St) (script : List Ev) :
    Out F E × St × List Ev → Prop
  | (o, s', script') => ∃ taken, script = taken ++ script' ∧ TakenOK s.eos s'.eos taken ∧
      NextOut D (seen ++ evBytes taken) toks s' script' o

theorem nextPost_of_some (D : Dec F E) (seen : Bytes) (toks : List (Tok F E)) (s sA : St) (e : End)
    (o : Out F E) (s' : St) (taken script' : List Ev)
    (hA : AfterSpec D (seen ++ evBytes taken) toks sA e (some (o, s')))
    (hpend : e = .pending → sA.eos = false) (heos : e = .eos → sA.eos = true)
    (htk : TakenOK s.eos sA.eos taken) :
    NextPost D seen toks s (taken ++ script') (o, s', script') := by
  refine ⟨taken, rfl, ?_⟩
  cases o with
  | frame f =>
    simp only [AfterSpec] at hA
    exact ⟨by rw [hA.1]; exact htk, hA.2⟩
  | errProto e' =>
    simp only [AfterSpec] at hA
    exact ⟨by rw [hA.1]; exact htk, hA.2⟩
  | pending =>
    simp only [AfterSpec] at hA
    obtain ⟨h1, h2, h3, h4, h5⟩ := hA
    exact ⟨by rw [h1]; exact htk, h3, h4, by rw [h1]; exact hpend h2, h5⟩
  | none =>
    simp only [AfterSpec] at hA
    obtain ⟨h1, h2, h3, h4, h5⟩ := hA
    exact ⟨by rw [h1]; exact htk, h3, h4, by rw [h1]; exact heos h2, h5⟩
  | errEnd =>
    simp only [AfterSpec] at hA
    obtain ⟨h1, h2, h3, h4, h5, h6⟩ := hA
    exact ⟨by rw [h1]; exact htk, h3, h4, h5, by rw [h1]; exact heos h2, h6⟩
  | data _ => simp only [AfterSpec] at hA
  | errQuic _ => simp only [AfterSpec] at hA
  | panic => simp only [AfterSpec] at hA

theorem inv_push (D : Dec F E) (seen : Bytes) (toks : List (Tok F E)) (s : St) (b : Bytes)
    (hI : Inv D seen toks s) (hb : b ≠ []) : Inv D (seen ++ b) toks (s.push b) := by
  obtain ⟨consumed, hseen, hrun⟩ := hI.split
  have hfl : (s.push b).flat = s.flat ++ b := by simp [St.push, St.flat]
  refine ⟨?_, ⟨consumed, ?_, hrun⟩, ?_, hI.expData⟩
  · intro c hc
    simp only [St.push, List.mem_append, List.mem_singleton] at hc
    rcases hc with hc | rfl
    · exact hI.ne c hc
    · exact hb
  · rw [hfl, hseen, List.append_assoc]
  · rw [hfl]; exact expSound_append D _ _ _ hI.exp

theorem pollNextLoop_spec (D : Dec F E) (L : Laws D) (script : List Ev) :
    ∀ (seen : Bytes) (toks : List (Tok F E)) (s : St), Inv D seen toks s → s.remaining = 0 →
      ScriptOK script → NextPost D seen toks s script (pollNextLoop D s script) := by
  -- the branch taken once the stream has ended does not look at the script
  have hEos : ∀ (script : List Ev) (seen : Bytes) (toks : List (Tok F E)) (s : St),
      Inv D seen toks s → s.remaining = 0 → s.eos = true →
      NextPost D seen toks s script
        (match afterRecv D s .eos with
          | some (o, s') => (o, s', script)
          | none => (.pending, s, script)) := by
    intro script seen toks s hI h0 heos
    have hA := afterRecv_spec D L seen toks s hI h0 .eos
    cases hres : afterRecv D s .eos with
    | none => rw [hres] at hA; exact absurd hA.1 (by decide)
    | some p =>
      obtain ⟨o, s'⟩ := p
      rw [hres] at hA
      have := nextPost_of_some D seen toks s s .eos o s' [] script (by simpa [evBytes] using hA)
        (by intro h; cases h) (fun _ => heos) (by simp [TakenOK, heos])
      simpa using this
  induction script with
  | nil =>
    intro seen toks s hI h0 _
    rw [pollNextLoop]
    by_cases heos : s.eos = true
    · rw [if_pos heos]; exact hEos [] seen toks s hI h0 heos
    · rw [if_neg heos]
      have hA := afterRecv_spec D L seen toks s hI h0 .pending
      cases hres : afterRecv D s .pending with
      | none => rw [hres] at hA; exact absurd hA.1 (by decide)
      | some p =>
        obtain ⟨o, s'⟩ := p
        rw [hres] at hA
        have := nextPost_of_some D seen toks s s .pending o s' [] [] (by simpa [evBytes] using hA)
          (fun _ => by simpa using heos) (by intro h; cases h) (by simp [TakenOK, heos])
        simpa using this
  | cons ev r ih =>
    intro seen toks s hI h0 hsc
    by_cases heos : s.eos = true
    · have := hEos (ev :: r) seen toks s hI h0 heos
      cases ev <;> (rw [pollNextLoop, if_pos heos]; exact this)
    · have heosf : s.eos = false := by simpa using heos
      cases ev with
      | pend =>
        rw [pollNextLoop, if_neg heos]
        have hA := afterRecv_spec D L seen toks s hI h0 .pending
        cases hres : afterRecv D s .pending with
        | none => rw [hres] at hA; exact absurd hA.1 (by decide)
        | some p =>
          obtain ⟨o, s'⟩ := p
          rw [hres] at hA
          exact nextPost_of_some D seen toks s s .pending o s' [.pend] r
            (by simpa [evBytes] using hA) (fun _ => heosf) (by intro h; cases h)
            (by simp [TakenOK, heosf])
      | fin =>
        rw [pollNextLoop, if_neg heos]
        have hI' : Inv D seen toks { s with eos := true } := ⟨hI.ne, hI.split, hI.exp, hI.expData⟩
        have hA := afterRecv_spec D L seen toks { s with eos := true } hI' h0 .eos
        cases hres : afterRecv D { s with eos := true } .eos with
        | none => rw [hres] at hA; exact absurd hA.1 (by decide)
        | some p =>
          obtain ⟨o, s'⟩ := p
          rw [hres] at hA
          exact nextPost_of_some D seen toks s { s with eos := true } .eos o s' [.fin] r
            (by simpa [evBytes] using hA) (by intro h; cases h) (fun _ => rfl)
            (by simp only [TakenOK, heosf]; exact ⟨by simp, [], by simp⟩)
      | reset c =>
        rw [pollNextLoop, if_neg heos]
        exact ⟨[], by simp, by simp [TakenOK, heosf], by simpa [evBytes] using hI, ⟨r, rfl⟩, heosf⟩
      | chunk b =>
        rw [pollNextLoop, if_neg heos]
        have hb : b ≠ [] := hsc b (by simp)
        have hI1 := inv_push D seen toks s b hI hb
        have hA := afterRecv_spec D L (seen ++ b) toks (s.push b) hI1 h0 .more
        simp only
        cases hres : afterRecv D (s.push b) .more with
        | some p =>
          obtain ⟨o, s'⟩ := p
          rw [hres] at hA
          exact nextPost_of_some D seen toks s (s.push b) .more o s' [.chunk b] r
            (by simpa [evBytes] using hA) (by intro h; cases h) (by intro h; cases h)
            (by simp [TakenOK, heosf, St.push])
        | none =>
          rw [hres] at hA
          obtain ⟨_, d, exp, hdl, hI2, _⟩ := hA
          simp only [hdl]
          have hrec := ih (seen ++ b) toks _ hI2 h0 (fun b' hb' => hsc b' (by simp [hb']))
          revert hrec
          generalize pollNextLoop D { (s.push b) with buf := advance d (s.push b).buf, expected := exp } r = res
          obtain ⟨o, s', script'⟩ := res
          rintro ⟨taken, rfl, htk, hout⟩
          refine ⟨.chunk b :: taken, by simp, ?_, by simpa [evBytes, List.append_assoc] using hout⟩
          have he2 : ({ (s.push b) with buf := advance d (s.push b).buf, expected := exp } : St).eos = false := heosf
          rw [he2] at htk
          rw [heosf]
          simp only [TakenOK, Bool.false_eq_true, if_false] at htk ⊢
          refine ⟨by intro c; simp [htk.1 c], ?_⟩
          by_cases hs' : s'.eos = true
          · rw [if_pos hs'] at htk ⊢
            obtain ⟨pre, rfl, hpre⟩ := htk.2
            exact ⟨.chunk b :: pre, by simp, by simp [hpre]⟩
          · rw [if_neg hs'] at htk ⊢
            simp [htk.2]

/-! ### `poll_data` -/

theorem run_data (D : Dec F E) (d : Bytes) : ∀ (rem : Nat), rem ≠ 0 → d.length ≤ rem →
    run D (.data rem) d = (PSt.ofRem (rem - d.length), d.map .byte) := by
  induction d with
  | nil => intro rem h _; simp [run, PSt.ofRem_pos h]
  | cons b d ih =>
    intro rem h hle
    simp only [List.length_cons] at hle
    simp only [run, feed]
    by_cases h1 : rem - 1 = 0
    · have : d = [] := by
        cases d with
        | nil => rfl
        | cons _ _ => simp at hle; omega
      subst this
      simp [run, h1]
    · rw [PSt.ofRem_pos h1, ih (rem - 1) h1 (by omega)]
      simp [Nat.sub_sub, Nat.add_comm]

theorem run_data_full (D : Dec F E) (rem : Nat) (x : Bytes) (h0 : rem ≠ 0) (hle : rem ≤ x.length) :
    run D (.data rem) x = ((run D (.hdr []) (x.drop rem)).1,
      (x.take rem).map .byte ++ (run D (.hdr []) (x.drop rem)).2) := by
  conv => lhs; rw [← List.take_append_drop rem x]
  rw [run_append, run_data D (x.take rem) rem h0 (by simp only [List.length_take]; omega)]
  have : rem - (x.take rem).length = 0 := by simp only [List.length_take]; omega
  simp only [this, PSt.ofRem_zero]

theorem run_data_short (D : Dec F E) (rem : Nat) (x : Bytes) (h : x.length < rem) :
    run D (.data rem) x = (.data (rem - x.length), x.map .byte) := by
  rw [run_data D x rem (by omega) (by omega), PSt.ofRem_pos (by omega)]

theorem run_of_pos (D : Dec F E) (L : Laws D) (w : Bytes) (n : Nat)
    (hp : (D.dec w).pos? = some n) :
    run D (.hdr []) w = ((run D ((D.dec w).fed D).1 (w.drop n)).1,
      ((D.dec w).fed D).2 ++ (run D ((D.dec w).fed D).1 (w.drop n)).2) := by
  conv => lhs; rw [← List.take_append_drop n w]
  rw [run_append, run_frame D L w n hp]

theorem run_of_error (D : Dec F E) (L : Laws D) (w : Bytes) (e : E) (hd : D.dec w = .error e) :
    run D (.hdr []) w = (.dead, [.errProto e]) := by
  obtain ⟨n, _, _, hr⟩ := run_error D L w e hd
  conv => lhs; rw [← List.take_append_drop n w]
  rw [run_append, hr, run_dead]
  rfl

theorem takeChunk_spec (max : Nat) (buf : List Bytes) (hne : ∀ c ∈ buf, c ≠ []) (hmax : max ≠ 0) :
    match takeChunk max buf with
    | (none, buf') => buf = [] ∧ buf' = []
    | (some d, buf') => d ≠ [] ∧ d.length ≤ max ∧ buf.flatten = d ++ buf'.flatten ∧
        (∀ c ∈ buf', c ≠ []) := by
  cases buf with
  | nil => simp [takeChunk]
  | cons c cs =>
    have hc : c ≠ [] := hne c (by simp)
    have hclen : 0 < c.length := List.length_pos_iff.mpr hc
    simp only [takeChunk]
    refine ⟨?_, ?_, ?_, ?_⟩
    · intro h0
      have := congrArg List.length h0
      simp only [List.length_take, List.length_nil] at this
      omega
    · simp only [List.length_take]; omega
    · by_cases hk : min max c.length = c.length
      · rw [if_pos hk, hk]; simp
      · rw [if_neg hk]
        simp only [List.flatten_cons]
        rw [← List.append_assoc, List.take_append_drop]
    · by_cases hk : min max c.length = c.length
      · rw [if_pos hk]; exact fun x hx => hne x (by simp [hx])
      · rw [if_neg hk]
        intro x hx
        simp only [List.mem_cons] at hx
        rcases hx with rfl | hx
        · intro h0
          have := congrArg List.length h0
          simp at this
          omega
        · exact hne x (by simp [hx])

/-- what `try_recv` does for `poll_data` -/
def RecvSpec (D : Dec F E) (seen : Bytes) (toks : List (Tok F E)) (s : St) (script : List Ev) :
    Except Nat (Bool × St × List Ev) → Prop
  | .error c => s.eos = false ∧ ∃ r, script = .reset c :: r
  | .ok (e, s1, r) => ∃ taken, script = taken ++ r ∧ TakenOK s.eos s1.eos taken ∧ e = s1.eos ∧
      s1.remaining = s.remaining ∧ Inv D (seen ++ evBytes taken) toks s1

theorem recvForData_spec (D : Dec F E) (seen : Bytes) (toks : List (Tok F E)) (s : St)
    (script : List Ev) (hI : Inv D seen toks s) (hsc : ScriptOK script) :
    RecvSpec D seen toks s script (recvForData s script) := by
  unfold recvForData
  by_cases heos : s.eos = true
  · rw [if_pos heos]
    exact ⟨[], by simp, by simp [TakenOK, heos], heos.symm, rfl, by simpa [evBytes] using hI⟩
  · rw [if_neg heos]
    have heosf : s.eos = false := by simpa using heos
    cases script with
    | nil => exact ⟨[], by simp, by simp [TakenOK, heosf], heosf.symm, rfl, by simpa [evBytes] using hI⟩
    | cons ev r =>
      cases ev with
      | pend =>
        exact ⟨[.pend], by simp, by simp [TakenOK, heosf], heosf.symm, rfl, by simpa [evBytes] using hI⟩
      | fin =>
        refine ⟨[.fin], by simp, ?_, rfl, rfl, ?_⟩
        · simp only [TakenOK, heosf]; exact ⟨by simp, [], by simp⟩
        · simpa [evBytes] using (⟨hI.ne, hI.split, hI.exp, hI.expData⟩ : Inv D seen toks { s with eos := true })
      | reset c => exact ⟨heosf, r, rfl⟩
      | chunk b =>
        have hb : b ≠ [] := hsc b (by simp)
        exact ⟨[.chunk b], by simp, by simp [TakenOK, heosf, St.push], by simp [St.push, heosf], rfl,
          by simpa [evBytes] using inv_push D seen toks s b hI hb⟩

/-- what an answer of `poll_data` means (`seen` already includes the chunk the call took) -/
def DataOut (D : Dec F E) (seen : Bytes) (toks : List (Tok F E)) (s s' : St) (script' : List Ev) :
    Out F E → Prop
  | .none => Inv D seen toks s' ∧ ((s.remaining = 0 ∧ s' = s) ∨
      (s.remaining = USIZE_MAX ∧ s'.remaining = USIZE_MAX ∧ s'.eos = true ∧ s'.flat = []))
  | .data d => d ≠ [] ∧ d.length ≤ s.remaining ∧ s'.remaining = s.remaining - d.length ∧
      Inv D seen (toks ++ d.map .byte) s'
  | .pending => Inv D seen toks s' ∧ s'.flat = [] ∧ s'.eos = false ∧ s'.remaining = s.remaining
  | .errEnd => s'.eos = true ∧ s.remaining ≠ 0 ∧
      ∃ consumed rest, seen = consumed ++ rest ∧
        run D (.hdr []) consumed = (.data s.remaining, toks) ∧ rest.length < s.remaining
  | .errQuic c => s' = s ∧ (∃ r, script' = .reset c :: r) ∧ s.eos = false
  | .frame _ => False
  | .errProto _ => False
  | .panic => False

def DataPost (D : Dec F E) (seen : Bytes) (toks : List (Tok F E)) (s : St) (script : List Ev) :
    Out F E × St × List Ev → Prop
  | (o, s', script') => ∃ taken, script = taken ++ script' ∧ TakenOK s.eos s'.eos taken ∧
      DataOut D (seen ++ evBytes taken) toks s s' script' o

theorem takenOK_refl (eos : Bool) : TakenOK eos eos [] := by
  cases eos <;> simp [TakenOK]

theorem pollData_spec (D : Dec F E) (seen : Bytes) (toks : List (Tok F E)) (s : St)
    (script : List Ev) (hI : Inv D seen toks s) (hsc : ScriptOK script) :
    DataPost D seen toks s script (pollData (F := F) (E := E) s script) := by
  unfold pollData
  by_cases h0 : s.remaining = 0
  · rw [if_pos h0]
    exact ⟨[], by simp, takenOK_refl _, by simpa [evBytes] using hI, Or.inl ⟨h0, rfl⟩⟩
  · rw [if_neg h0]
    have hR := recvForData_spec D seen toks s script hI hsc
    revert hR
    cases recvForData s script with
    | error c =>
      rintro ⟨heosf, r, rfl⟩
      exact ⟨[], by simp, takenOK_refl _, rfl, ⟨r, rfl⟩, heosf⟩
    | ok p =>
      obtain ⟨e, s1, r⟩ := p
      rintro ⟨taken, rfl, htk, he, hrem, hI1⟩
      simp only
      obtain ⟨consumed, hseen, hrun⟩ := hI1.split
      rw [hrem, PSt.ofRem_pos h0] at hrun
      have hT := takeChunk_spec s1.remaining s1.buf hI1.ne (by rw [hrem]; exact h0)
      revert hT
      cases hres : takeChunk s1.remaining s1.buf with
      | mk od buf' =>
      cases od with
      | none =>
        rintro ⟨hb, _⟩
        have hfl : s1.flat = [] := by simp [St.flat, hb]
        simp only
        by_cases hE : e = true
        · rw [if_pos hE]
          by_cases hmax : s1.remaining ≠ USIZE_MAX
          · rw [if_pos hmax]
            refine ⟨taken, rfl, htk, by rw [← he]; exact hE, h0,
              consumed, [], ?_, hrun, by simp; omega⟩
            rw [hseen, hfl]
          · rw [if_neg hmax]
            have hmax' : s1.remaining = USIZE_MAX := by simpa using hmax
            exact ⟨taken, rfl, htk, hI1, Or.inr ⟨by rw [← hrem]; exact hmax', hmax',
              by rw [← he]; exact hE, hfl⟩⟩
        · rw [if_neg hE]
          exact ⟨taken, rfl, htk, hI1, hfl, by rw [← he]; simpa using hE, hrem⟩
      | some d =>
        rintro ⟨hd, hdlen, hflat, hne'⟩
        simp only
        by_cases hc : (e && decide (d.length < s1.remaining) && buf'.isEmpty) = true
        · rw [if_pos hc]
          simp only [Bool.and_eq_true, decide_eq_true_eq, List.isEmpty_iff] at hc
          obtain ⟨⟨hE, hlt⟩, hbe⟩ := hc
          refine ⟨taken, rfl, htk, by simp only; rw [← he]; exact hE, h0,
            consumed, d, ?_, hrun, by rw [← hrem]; exact hlt⟩
          · rw [hseen]; simp only [St.flat]; rw [hflat, hbe]; simp
        · rw [if_neg hc]
          refine ⟨taken, rfl, htk, hd, by rw [← hrem]; exact hdlen, by simp [hrem], ?_⟩
          have hfl' : ({ s1 with buf := buf', remaining := s1.remaining - d.length } : St).flat
              = buf'.flatten := rfl
          refine ⟨hne', ⟨consumed ++ d, ?_, ?_⟩, ?_, ?_⟩
          · rw [hfl', hseen]; simp only [St.flat]; rw [hflat, List.append_assoc]
          · rw [run_append, hrun]
            simp only
            rw [run_data D d s.remaining h0 (by rw [← hrem]; exact hdlen)]
            simp [hrem]
          · have := hI1.expData (by rw [hrem]; exact h0)
            show ExpSound D _ s1.expected
            rw [this]; exact expSound_none D _
          · intro _
            exact hI1.expData (by rw [hrem]; exact h0)

end H3.FS
