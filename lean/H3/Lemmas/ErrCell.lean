import H3.Model.ErrCell
/-! Invariants of the error-cell model (`H3.ErrCell`) and their preservation by every step of
    every task.  `InvW` holds for both orders of `poll_connection_error`; `InvT` (invariants J
    and K of DESIGN.md Appendix B.2) only for `registerFirst = true`. -/
namespace H3.ErrCell

/-! ### W: one error, seen everywhere, closed once -/

structure InvW (s : State) : Prop where
  handled_cell : ∀ h, s.handled = some h →
    ∃ e, s.cell = some e ∧ h = convert e ∧ s.closes = (closeOf e).toList
  handled_none : s.handled = none → s.closes = []
  tasks_cell : ∀ t ∈ s.tasks, (∀ r ∈ t.rets, s.cell = some r) ∧ (∀ r, t.mid = some r → s.cell = some r)
  drets_handled : ∀ h ∈ s.drets, s.handled = some h
  pc_handled : s.pc = .mid ∨ s.pc = .armed → s.handled = none

theorem invW_init (todo : List (List Err)) : InvW (init todo) := by
  constructor
  · intro h hh; simp [init] at hh
  · intro _; rfl
  · intro t ht
    simp only [init, List.mem_map] at ht
    obtain ⟨es, _, rfl⟩ := ht
    simp
  · intro h hh; simp [init] at hh
  · intro _; rfl

theorem getD_of_some {c : Option Err} {r e : Err} (h : c = some r) : c.getD e = r := by
  subst h; rfl

/-- storing with `get_or_init` keeps `InvW` (the cell only changes from `none`). -/
theorem invW_setCell {s : State} (hs : InvW s) (e : Err) :
    InvW { s with cell := some (s.cell.getD e) } := by
  constructor
  · intro h hh
    obtain ⟨e', hc, hh', hcl⟩ := hs.handled_cell h hh
    exact ⟨e', by simp [getD_of_some hc], hh', hcl⟩
  · exact hs.handled_none
  · intro t ht
    obtain ⟨h1, h2⟩ := hs.tasks_cell t ht
    exact ⟨fun r hr => by simp [getD_of_some (h1 r hr)], fun r hr => by simp [getD_of_some (h2 r hr)]⟩
  · exact hs.drets_handled
  · exact hs.pc_handled

theorem invW_retHandled {s : State} (hs : InvW s) {h : CErr} (hh : s.handled = some h) :
    InvW (retHandled s h) := by
  constructor
  · exact hs.handled_cell
  · exact hs.handled_none
  · exact hs.tasks_cell
  · intro h' hm
    simp only [retHandled, List.mem_cons] at hm
    rcases hm with rfl | hm
    · exact hh
    · exact hs.drets_handled h' hm
  · intro hp; simp [retHandled] at hp

theorem invW_observe {s : State} (hs : InvW s) (hn : s.handled = none) {e : Err}
    (hc : s.cell = some e) : InvW (observe s e) := by
  constructor
  · intro h hh
    simp only [observe, Option.some.injEq] at hh
    exact ⟨e, hc, hh.symm, by simp [observe, hs.handled_none hn]⟩
  · intro hh; simp [observe] at hh
  · exact hs.tasks_cell
  · intro h' hm
    simp only [observe, List.mem_cons] at hm
    rcases hm with rfl | hm
    · rfl
    · have := hs.drets_handled h' hm
      rw [hn] at this; cases this
  · intro hp; simp [observe] at hp

theorem invW_chk {s : State} (hs : InvW s) (hn : s.handled = none) (next : DPc) :
    InvW (chk s next) := by
  unfold chk
  split
  · rename_i e hc; exact invW_observe hs hn hc
  · exact ⟨hs.handled_cell, hs.handled_none, hs.tasks_cell, hs.drets_handled, fun _ => hn⟩

theorem invW_reg {s : State} (hs : InvW s) (hn : s.handled = none) (next : DPc) :
    InvW (reg s next) :=
  ⟨hs.handled_cell, hs.handled_none, hs.tasks_cell, hs.drets_handled, fun _ => hn⟩

theorem invW_pceFirst {s : State} (hs : InvW s) (rf : Bool) : InvW (pceFirst rf s) := by
  unfold pceFirst
  split
  · rename_i h hh; exact invW_retHandled hs hh
  · rename_i hn
    split
    · exact invW_reg hs hn _
    · exact invW_chk hs hn _

theorem invW_pceSecond {s : State} (hs : InvW s) (hp : s.pc = .mid) (rf : Bool) :
    InvW (pceSecond rf s) := by
  have hn := hs.pc_handled (Or.inl hp)
  unfold pceSecond
  split
  · exact invW_chk hs hn _
  · exact invW_reg hs hn _

theorem invW_detect {s : State} (hs : InvW s) (e : Err) : InvW (detect s e) := by
  unfold detect
  split
  · rename_i h hh; exact invW_retHandled hs hh
  · rename_i hn
    exact invW_observe (invW_setCell hs e) hn rfl

theorem invW_clientTail {s : State} (hs : InvW s) (r : Option QErr) : InvW (clientTail s r) := by
  unfold clientTail
  cases r with
  | none => exact invW_detect hs _
  | some q => exact invW_detect (invW_detect hs _) _

/-- `parked` is not mentioned by `InvW` -/
theorem invW_unpark {s : State} (hs : InvW s) : InvW { s with parked := false } :=
  ⟨hs.handled_cell, hs.handled_none, hs.tasks_cell, hs.drets_handled, hs.pc_handled⟩

theorem invW_checkErr {s : State} (hs : InvW s) : InvW (checkErr s) := by
  unfold checkErr
  split
  · rename_i h hh; exact invW_unpark (invW_retHandled hs hh)
  · rename_i hn
    split
    · rename_i e hc; exact invW_unpark (invW_observe hs hn hc)
    · exact hs

theorem invW_dstep {s : State} (hs : InvW s) (rf : Bool) (op : DOp) : InvW (dstep rf s op) := by
  cases op with
  | shut =>
    simp only [dstep]
    split
    · exact invW_checkErr hs
    · exact hs
  | bidi r =>
    simp only [dstep]
    split
    · exact invW_clientTail hs r
    · exact invW_clientTail hs r
    · exact hs
  | poll =>
    simp only [dstep]
    split
    · rename_i hp
      exact ⟨hs.handled_cell, hs.handled_none, hs.tasks_cell, hs.drets_handled, by simp⟩
    · exact hs
  | pce =>
    simp only [dstep]
    split
    · exact invW_pceFirst hs rf
    · exact invW_pceFirst hs rf
    · rename_i hp; exact invW_pceSecond hs hp rf
    · exact hs
  | det e =>
    simp only [dstep]
    split
    · exact invW_detect hs e
    · exact invW_detect hs e
    · exact hs
  | park =>
    simp only [dstep]
    split
    · exact ⟨hs.handled_cell, hs.handled_none, hs.tasks_cell, hs.drets_handled, by simp⟩
    · exact hs

theorem invW_sset {s : State} (hs : InvW s) {i : Nat} {t : Task} (ht : s.tasks[i]? = some t)
    (e : Err) (rest : List Err) : InvW (sset s i t e rest) := by
  have hs' := invW_setCell hs e
  have htm := List.mem_of_getElem? ht
  constructor
  · exact hs'.handled_cell
  · exact hs'.handled_none
  · intro t' ht'
    simp only [sset] at ht' ⊢
    rcases List.mem_or_eq_of_mem_set ht' with hm | rfl
    · exact hs'.tasks_cell t' hm
    · exact ⟨(hs'.tasks_cell t htm).1, fun r hr => by simp at hr; simp [hr]⟩
  · exact hs'.drets_handled
  · exact hs'.pc_handled

theorem invW_swake {s : State} (hs : InvW s) {i : Nat} {t : Task} (ht : s.tasks[i]? = some t)
    {r : Err} (hr : t.mid = some r) : InvW (swake s i t r) := by
  have htm := List.mem_of_getElem? ht
  constructor
  · exact hs.handled_cell
  · exact hs.handled_none
  · intro t' ht'
    simp only [swake] at ht' ⊢
    rcases List.mem_or_eq_of_mem_set ht' with hm | rfl
    · exact hs.tasks_cell t' hm
    · refine ⟨fun r' hr' => ?_, fun r' hr' => by simp at hr'⟩
      simp only [List.mem_cons] at hr'
      rcases hr' with rfl | hr'
      · exact (hs.tasks_cell t htm).2 _ hr
      · exact (hs.tasks_cell t htm).1 _ hr'
  · exact hs.drets_handled
  · exact hs.pc_handled

theorem invW_sstep {s : State} (hs : InvW s) (i : Nat) : InvW (sstep s i) := by
  unfold sstep
  split
  · exact hs
  · rename_i t ht
    split
    · rename_i r hr; exact invW_swake hs ht hr
    · split
      · exact hs
      · exact invW_sset hs ht _ _

theorem invW_step {s : State} (hs : InvW s) (rf : Bool) (l : TaskId) : InvW (step rf s l) := by
  cases l with
  | drv op => exact invW_dstep hs rf op
  | str i => exact invW_sstep hs i

theorem invW_run {s : State} (hs : InvW s) (rf : Bool) (sched : List TaskId) :
    InvW (run rf s sched) := by
  induction sched generalizing s with
  | nil => exact hs
  | cons l ls ih => exact ih (invW_step hs rf l)

theorem run_append (rf : Bool) (s : State) (a b : List TaskId) :
    run rf s (a ++ b) = run rf (run rf s a) b := by
  simp [run, List.foldl_append]

/-! ### the cell and `handled` never change once set -/

theorem cell_observe {s : State} {e e' : Err} (h : s.cell = some e) : (observe s e').cell = some e := h

theorem cell_detect {s : State} {e : Err} (h : s.cell = some e) (e' : Err) :
    (detect s e').cell = some e := by
  unfold detect; split <;> simp_all [observe, retHandled]

theorem cell_clientTail {s : State} {e : Err} (h : s.cell = some e) (r : Option QErr) :
    (clientTail s r).cell = some e := by
  unfold clientTail
  cases r with
  | none => exact cell_detect h _
  | some q => exact cell_detect (cell_detect h _) _

theorem cell_dstep {s : State} {e : Err} (h : s.cell = some e) (rf : Bool) (op : DOp) :
    (dstep rf s op).cell = some e := by
  cases op with
  | bidi r => simp only [dstep]; split <;> first | exact cell_clientTail h r | exact h
  | shut =>
    simp only [dstep]; split
    · unfold checkErr; split
      · exact h
      · split <;> simp_all [observe]
    · exact h
  | poll | pce | det _ | park =>
    simp only [dstep] <;> split <;>
      simp_all [pceFirst, pceSecond, detect, chk, reg, observe, retHandled] <;>
      (repeat' split) <;> simp_all

theorem cell_sstep {s : State} {e : Err} (h : s.cell = some e) (i : Nat) :
    (sstep s i).cell = some e := by
  unfold sstep
  repeat' split
  all_goals simp_all [swake, sset]

theorem cell_step {s : State} {e : Err} (h : s.cell = some e) (rf : Bool) (l : TaskId) :
    (step rf s l).cell = some e := by
  cases l with
  | drv op => exact cell_dstep h rf op
  | str i => exact cell_sstep h i

theorem cell_run {s : State} {e : Err} (h : s.cell = some e) (rf : Bool) (sched : List TaskId) :
    (run rf s sched).cell = some e := by
  induction sched generalizing s with
  | nil => exact h
  | cons l ls ih => exact ih (cell_step h rf l)

/-- with an error handled, `handle_connection_error` only returns it. -/
theorem detect_handled {s : State} {h : CErr} (hh : s.handled = some h) (e : Err) :
    detect s e = retHandled s h := by
  unfold detect; rw [hh]

theorem handled_clientTail {s : State} {h : CErr} (hh : s.handled = some h) (r : Option QErr) :
    (clientTail s r).handled = some h := by
  unfold clientTail
  cases r with
  | none => simp only []; rw [detect_handled hh]; exact hh
  | some q =>
    simp only []
    have h1 : (detect s (.quic q)).handled = some h := by rw [detect_handled hh]; exact hh
    rw [detect_handled h1]; exact h1

theorem handled_step {s : State} (hs : InvW s) {h : CErr} (hh : s.handled = some h) (rf : Bool)
    (l : TaskId) : (step rf s l).handled = some h := by
  have hpc : s.pc ≠ .mid := fun hp => by have := hs.pc_handled (Or.inl hp); simp_all
  cases l with
  | drv op =>
    cases op with
    | bidi r => simp only [step, dstep]; split <;> first | exact handled_clientTail hh r | exact hh
    | shut =>
      simp only [step, dstep]; split
      · unfold checkErr; rw [hh]; exact hh
      · exact hh
    | poll | pce | det _ | park =>
      simp only [step, dstep] <;> split <;>
        simp_all [pceFirst, detect, retHandled]
  | str i =>
    simp only [step, sstep]
    repeat' split
    all_goals simp_all [swake, sset]

theorem handled_run {s : State} (hs : InvW s) {h : CErr} (hh : s.handled = some h) (rf : Bool)
    (sched : List TaskId) : (run rf s sched).handled = some h := by
  induction sched generalizing s with
  | nil => exact hh
  | cons l ls ih => exact ih (invW_step hs rf l) (handled_step hs hh rf l)

/-! ### J, K: no lost wake-up when the waker is registered before the cell is read -/

structure InvT (s : State) : Prop where
  parked_idle : s.parked = true → s.pc = .idle
  /-- J -/
  waker_or_woken : s.pc = .mid ∨ s.pc = .armed ∨ s.parked = true → s.waker = true ∨ s.woken = true
  /-- K -/
  pending_wake : s.pc = .armed ∨ s.parked = true → s.cell ≠ none → s.woken = false →
    ∃ t ∈ s.tasks, t.mid ≠ none

theorem invT_init (todo : List (List Err)) : InvT (init todo) := by
  constructor <;> simp [init]

/-- `handle_connection_error` ends the poll with an error: the driver is idle and not parked. -/
theorem detect_idle (s : State) (e : Err) : (detect s e).pc = .idle ∧ (detect s e).parked = s.parked := by
  unfold detect; split <;> simp [retHandled, observe]

theorem clientTail_idle (s : State) (r : Option QErr) :
    (clientTail s r).pc = .idle ∧ (clientTail s r).parked = s.parked := by
  unfold clientTail
  cases r with
  | none => exact detect_idle s _
  | some q =>
    exact ⟨(detect_idle _ _).1, (detect_idle _ _).2.trans (detect_idle _ _).2⟩

theorem invT_of_idle_not_parked {s : State} (hp : s.pc = .idle) (hnp : s.parked = false) : InvT s := by
  constructor <;> simp [hp, hnp]

theorem invT_dstep {s : State} (hs : InvT s) (op : DOp) : InvT (dstep true s op) := by
  have h1 := hs.parked_idle
  have h2 := hs.waker_or_woken
  have h3 := hs.pending_wake
  cases op with
  | shut =>
    simp only [dstep]
    split
    · unfold checkErr
      split
      · exact invT_of_idle_not_parked (by simp [retHandled]) rfl
      · split
        · exact invT_of_idle_not_parked (by simp [observe]) rfl
        · exact hs
    · exact hs
  | bidi r =>
    simp only [dstep]
    split
    · rename_i hp
      have hnp : s.parked = false := by
        cases hpk : s.parked with
        | false => rfl
        | true => have := h1 hpk; simp_all
      exact invT_of_idle_not_parked (clientTail_idle s r).1 ((clientTail_idle s r).2.trans hnp)
    · rename_i hp
      have hnp : s.parked = false := by
        cases hpk : s.parked with
        | false => rfl
        | true => have := h1 hpk; simp_all
      exact invT_of_idle_not_parked (clientTail_idle s r).1 ((clientTail_idle s r).2.trans hnp)
    · exact hs
  | poll =>
    simp only [dstep]
    split
    · constructor <;> simp
    · exact hs
  | pce =>
    simp only [dstep]
    split
    · -- started: first half
      rename_i hp
      have hnp : s.parked = false := by
        cases hpk : s.parked with
        | false => rfl
        | true => have := h1 hpk; simp_all
      unfold pceFirst
      split
      · constructor <;> simp [retHandled, hnp]
      · constructor <;> simp [reg, hnp]
    · -- armed: first half of another call
      rename_i hp
      have hnp : s.parked = false := by
        cases hpk : s.parked with
        | false => rfl
        | true => have := h1 hpk; simp_all
      unfold pceFirst
      split
      · constructor <;> simp [retHandled, hnp]
      · constructor <;> simp [reg, hnp]
    · -- mid: the check
      rename_i hp
      have hnp : s.parked = false := by
        cases hpk : s.parked with
        | false => rfl
        | true => have := h1 hpk; simp_all
      have hw := h2 (Or.inl hp)
      simp only [pceSecond, if_true]
      unfold chk
      split
      · constructor <;> simp [observe, hnp]
      · rename_i hc
        constructor
        · simp [hnp]
        · intro _; exact hw
        · intro _ hne; exact absurd hc hne
    · exact hs
  | det e =>
    simp only [dstep]
    split
    · rename_i hp
      have hnp : s.parked = false := by
        cases hpk : s.parked with
        | false => rfl
        | true => have := h1 hpk; simp_all
      unfold detect
      split
      · constructor <;> simp [retHandled, hnp]
      · constructor <;> simp [observe, hnp]
    · rename_i hp
      have hnp : s.parked = false := by
        cases hpk : s.parked with
        | false => rfl
        | true => have := h1 hpk; simp_all
      unfold detect
      split
      · constructor <;> simp [retHandled, hnp]
      · constructor <;> simp [observe, hnp]
    · exact hs
  | park =>
    simp only [dstep]
    split
    · rename_i hp
      constructor
      · intro _; rfl
      · intro _; exact h2 (Or.inr (Or.inl hp))
      · intro _ hc hw; exact h3 (Or.inl hp) hc hw
    · exact hs

theorem invT_sstep {s : State} (hs : InvT s) (i : Nat) : InvT (sstep s i) := by
  have h1 := hs.parked_idle
  have h2 := hs.waker_or_woken
  have h3 := hs.pending_wake
  unfold sstep
  split
  · exact hs
  · rename_i t ht
    have hlen : i < s.tasks.length := by
      obtain ⟨h, _⟩ := List.getElem?_eq_some_iff.mp ht; exact h
    split
    · -- wake: the notification is delivered if a waker is registered
      rename_i r hr
      constructor
      · exact h1
      · intro hp
        have := h2 hp
        right
        simp only [swake, Bool.or_eq_true]
        rcases this with hw | hw
        · exact Or.inr hw
        · exact Or.inl hw
      · intro hp _ hw
        have := h2 (by rcases hp with hp | hp; exact Or.inr (Or.inl hp); exact Or.inr (Or.inr hp))
        simp only [swake, Bool.or_eq_false_iff] at hw
        rcases this with h | h <;> simp_all
    · split
      · exact hs
      · -- store: this handle is now between its store and its wake
        rename_i e rest _
        constructor
        · exact h1
        · exact h2
        · intro _ _ _
          refine ⟨_, List.mem_set hlen _, ?_⟩
          simp

theorem invT_step {s : State} (hs : InvT s) (l : TaskId) : InvT (step true s l) := by
  cases l with
  | drv op => exact invT_dstep hs op
  | str i => exact invT_sstep hs i

theorem invT_run {s : State} (hs : InvT s) (sched : List TaskId) : InvT (run true s sched) := by
  induction sched generalizing s with
  | nil => exact hs
  | cons l ls ih => exact ih (invT_step hs l)

theorem invT_not_lost {s : State} (hs : InvT s) : lostWakeup s = false := by
  cases hl : lostWakeup s with
  | false => rfl
  | true =>
    exfalso
    simp only [lostWakeup, quiescent, Bool.and_eq_true, beq_iff_eq, List.all_eq_true,
      Bool.not_eq_true'] at hl
    obtain ⟨⟨⟨⟨_, hq⟩, hc⟩, hp⟩, hw⟩ := hl
    have hne : s.cell ≠ none := by intro h; simp [h] at hc
    obtain ⟨t, ht, hm⟩ := hs.pending_wake (Or.inr hp) hne hw
    have := hq t ht
    cases hmid : t.mid <;> simp_all

/-! ### a parked driver is idle and has not handled an error (both orders) -/

def InvP (s : State) : Prop := s.parked = true → s.pc = .idle ∧ s.handled = none

theorem invP_init (todo : List (List Err)) : InvP (init todo) := by
  intro h; simp [init] at h

theorem not_parked_of_pc {s : State} (hp : InvP s) (h : s.pc ≠ .idle) : s.parked = false := by
  cases hpk : s.parked with
  | false => rfl
  | true => exact absurd (hp hpk).1 h

theorem invP_step {s : State} (hw : InvW s) (hp : InvP s) (rf : Bool) (l : TaskId) :
    InvP (step rf s l) := by
  cases l with
  | str i =>
    have : (sstep s i).parked = s.parked ∧ (sstep s i).pc = s.pc ∧ (sstep s i).handled = s.handled := by
      unfold sstep; repeat' split
      all_goals simp [swake, sset]
    intro h
    simp only [step] at h ⊢
    rw [this.1] at h; rw [this.2.1, this.2.2]; exact hp h
  | drv op =>
    cases op with
    | shut =>
      simp only [step, dstep]
      split
      · unfold checkErr
        split
        · intro h; simp at h
        · split
          · intro h; simp at h
          · exact hp
      · exact hp
    | bidi r =>
      simp only [step, dstep]
      split
      · rename_i hpc
        have hnp := not_parked_of_pc hp (by rw [hpc]; simp)
        intro h; rw [(clientTail_idle s r).2, hnp] at h; cases h
      · rename_i hpc
        have hnp := not_parked_of_pc hp (by rw [hpc]; simp)
        intro h; rw [(clientTail_idle s r).2, hnp] at h; cases h
      · exact hp
    | poll =>
      simp only [step, dstep]
      split
      · intro h; simp at h
      · exact hp
    | park =>
      simp only [step, dstep]
      split
      · rename_i hpc; intro _; exact ⟨rfl, hw.pc_handled (Or.inr hpc)⟩
      · exact hp
    | det e =>
      simp only [step, dstep]
      split
      · rename_i hpc
        have hnp := not_parked_of_pc hp (by rw [hpc]; simp)
        intro h; unfold detect at h; split at h <;> simp [retHandled, observe, hnp] at h
      · rename_i hpc
        have hnp := not_parked_of_pc hp (by rw [hpc]; simp)
        intro h; unfold detect at h; split at h <;> simp [retHandled, observe, hnp] at h
      · exact hp
    | pce =>
      simp only [step, dstep]
      split
      · rename_i hpc
        have hnp := not_parked_of_pc hp (by rw [hpc]; simp)
        intro h; unfold pceFirst at h
        split at h
        · simp [retHandled, hnp] at h
        · split at h
          · simp [reg, hnp] at h
          · unfold chk at h; split at h <;> simp [observe, hnp] at h
      · rename_i hpc
        have hnp := not_parked_of_pc hp (by rw [hpc]; simp)
        intro h; unfold pceFirst at h
        split at h
        · simp [retHandled, hnp] at h
        · split at h
          · simp [reg, hnp] at h
          · unfold chk at h; split at h <;> simp [observe, hnp] at h
      · rename_i hpc
        have hnp := not_parked_of_pc hp (by rw [hpc]; simp)
        intro h; unfold pceSecond at h
        split at h
        · unfold chk at h; split at h <;> simp [observe, hnp] at h
        · simp [reg, hnp] at h
      · exact hp

theorem invP_run {s : State} (hw : InvW s) (hp : InvP s) (rf : Bool) (sched : List TaskId) :
    InvP (run rf s sched) := by
  induction sched generalizing s with
  | nil => exact hp
  | cons l ls ih => exact ih (invW_step hw rf l) (invP_step hw hp rf l)

/-! ### a poll that completes one `poll_connection_error` call reports a set cell -/

/-- steps of stream handles change neither the driver's fields nor a set cell. -/
theorem str_frame {e : Err} (rf : Bool) (ms : List Nat) (u : State) (hu : u.cell = some e) :
    (run rf u (ms.map .str)).cell = some e ∧ (run rf u (ms.map .str)).pc = u.pc ∧
    (run rf u (ms.map .str)).handled = u.handled ∧ (run rf u (ms.map .str)).parked = u.parked ∧
    (run rf u (ms.map .str)).drets = u.drets := by
  induction ms generalizing u with
  | nil => exact ⟨hu, rfl, rfl, rfl, rfl⟩
  | cons m ms ih =>
    have h1 : (sstep u m).cell = some e := cell_sstep hu m
    have h2 : (sstep u m).pc = u.pc ∧ (sstep u m).handled = u.handled ∧
        (sstep u m).parked = u.parked ∧ (sstep u m).drets = u.drets := by
      unfold sstep; repeat' split
      all_goals simp [swake, sset]
    obtain ⟨a, b, c, d, f⟩ := ih (sstep u m) h1
    have hr : run rf u ((m :: ms).map .str) = run rf (sstep u m) (ms.map .str) := by
      simp [run, step]
    rw [hr]
    exact ⟨a, b.trans h2.1, c.trans h2.2.1, d.trans h2.2.2.1, f.trans h2.2.2.2⟩

theorem poll_reports {s : State} {e : Err} (hw : InvW s) (hc : s.cell = some e)
    (hidle : s.pc = .idle) (m1 m2 : List Nat) :
    let s' := run true s ([.drv .poll] ++ m1.map .str ++ [.drv .pce] ++ m2.map .str ++ [.drv .pce])
    s'.handled = some (convert e) ∧ s'.pc = .idle ∧ s'.parked = false ∧
    ∃ rest, s'.drets = convert e :: rest := by
  have hsplit : run true s ([.drv .poll] ++ m1.map .str ++ [.drv .pce] ++ m2.map .str ++ [.drv .pce])
      = step true (run true (step true (run true (step true s (.drv .poll)) (m1.map .str))
          (.drv .pce)) (m2.map .str)) (.drv .pce) := by
    simp [run, List.foldl_append]
  simp only []
  rw [hsplit]
  have ha : (step true s (.drv .poll)).cell = some e ∧ (step true s (.drv .poll)).pc = .started ∧
      (step true s (.drv .poll)).handled = s.handled ∧ (step true s (.drv .poll)).parked = false := by
    simp [step, dstep, hidle, hc]
  generalize step true s (.drv .poll) = a at ha ⊢
  obtain ⟨ha1, ha2, ha3, ha4⟩ := ha
  obtain ⟨hb1, hb2, hb3, hb4, _⟩ := str_frame true m1 a ha1
  generalize run true a (m1.map .str) = b at hb1 hb2 hb3 hb4 ⊢
  rw [ha2] at hb2; rw [ha3] at hb3; rw [ha4] at hb4
  cases hh : s.handled with
  | some h =>
    obtain ⟨e', hce, hhe, _⟩ := hw.handled_cell h hh
    rw [hc] at hce; cases hce
    rw [hh] at hb3
    have hcf : step true b (.drv .pce) = retHandled b h := by
      simp [step, dstep, hb2, pceFirst, hb3]
    rw [hcf]
    have hc1 : (retHandled b h).cell = some e := hb1
    obtain ⟨hd1, hd2, hd3, hd4, hd5⟩ := str_frame true m2 (retHandled b h) hc1
    generalize run true (retHandled b h) (m2.map .str) = d at hd1 hd2 hd3 hd4 hd5 ⊢
    have hdp : d.pc = .idle := hd2
    have hfin : step true d (.drv .pce) = d := by simp [step, dstep, hdp]
    rw [hfin]
    refine ⟨?_, hdp, ?_, ⟨b.drets, ?_⟩⟩
    · rw [hd3]; simp [retHandled, hb3, hhe]
    · rw [hd4]; simp [retHandled, hb4]
    · rw [hd5]; simp [retHandled, hhe]
  | none =>
    rw [hh] at hb3
    have hcf : step true b (.drv .pce) = reg b .mid := by
      simp [step, dstep, hb2, pceFirst, hb3]
    rw [hcf]
    have hc1 : (reg b .mid).cell = some e := hb1
    obtain ⟨hd1, hd2, hd3, hd4, hd5⟩ := str_frame true m2 (reg b .mid) hc1
    generalize run true (reg b .mid) (m2.map .str) = d at hd1 hd2 hd3 hd4 hd5 ⊢
    have hdp : d.pc = .mid := hd2
    have hfin : step true d (.drv .pce) = observe d e := by
      simp [step, dstep, hdp, pceSecond, chk, hd1]
    rw [hfin]
    refine ⟨rfl, rfl, ?_, ⟨d.drets, rfl⟩⟩
    show d.parked = false
    rw [hd4]; exact hb4

end H3.ErrCell
