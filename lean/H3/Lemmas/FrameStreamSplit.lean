import H3.Lemmas.FrameStreamReader
/-! `split()` on the frame layer (identity on `buf`, `eos`, `expected`, `remaining`): call
    sequences with splits anywhere answer like the same sequences without them; the request-body
    reader (`recvData`, `runR`) walks along reachable configurations of the frame layer, so the
    C02 invariant (and with it "the tokens handed out are those of the reference automaton")
    covers it, splits included. -/
namespace H3.FS

theorem split_eq (s : St) : s.split = s := rfl

theorem runCallsS_erase (cs : List CallS) :
    ∀ (s : St) (script : List Ev), runCallsS s script cs = runCalls s script (CallS.erase cs) := by
  induction cs with
  | nil => intro s script; rfl
  | cons c cs ih =>
    intro s script
    cases c with
    | split => rw [runCallsS, CallS.erase, split_eq]; exact ih s script
    | next =>
      rw [runCallsS, CallS.erase, runCalls]
      simp only
      cases hres : pollNext frameDec s script with
      | mk o rest =>
      obtain ⟨s', r⟩ := rest
      cases o <;> simp only [ih]
    | data =>
      rw [runCallsS, CallS.erase, runCalls]
      simp only
      cases hres : pollData (F := H3.Frame.Frame) (E := H3.Frame.FrameErr) s script with
      | mk o rest =>
      obtain ⟨s', r⟩ := rest
      cases o <;> simp only [ih]

/-- a request-level call sequence without its `split`s -/
def CallR.erase (cs : List CallR) : List CallR := cs.filter (fun c => c == .recv)

theorem runR_erase (cs : List CallR) :
    ∀ (s : St) (script : List Ev), runR s script cs = runR s script (CallR.erase cs) := by
  induction cs with
  | nil => intro s script; rfl
  | cons c cs ih =>
    intro s script
    cases c with
    | split =>
      have : CallR.erase (CallR.split :: cs) = CallR.erase cs := by simp [CallR.erase]
      rw [this, runR, split_eq]; exact ih s script
    | recv =>
      have : CallR.erase (CallR.recv :: cs) = CallR.recv :: CallR.erase cs := by simp [CallR.erase]
      rw [this, runR, runR]
      simp only
      cases (recvData (recvFuel s script) s script).out <;> simp only [ih]

/-- two call sequences that differ only in where (and how often) they split answer alike -/
theorem runR_splits_anywhere (cs cs' : List CallR) (h : CallR.erase cs = CallR.erase cs')
    (s : St) (script : List Ev) : runR s script cs = runR s script cs' := by
  rw [runR_erase cs, runR_erase cs', h]

/-! ### the request-body reader walks along reachable configurations -/

theorem recvData_reach (sc0 : List Ev) (fuel : Nat) :
    ∀ (toks : List (Tok H3.Frame.Frame H3.Frame.FrameErr)) (s : St) (script : List Ev),
      Reach frameDec sc0 toks s script →
      ∃ s2 r2, Reach frameDec sc0 (toks ++ (recvData fuel s script).raw.flatMap Out.toks) s2 r2 ∧
        ((recvData fuel s script).out.isErr = false →
          s2 = (recvData fuel s script).st ∧ r2 = (recvData fuel s script).script) := by
  induction fuel with
  | zero => intro toks s script h; exact ⟨s, script, by simpa [recvData] using h, fun _ => ⟨rfl, rfl⟩⟩
  | succ fuel ih =>
    intro toks s script h
    rw [recvData]
    by_cases hrem : s.remaining ≠ 0
    · rw [if_pos hrem]
      cases hres : pollData (F := H3.Frame.Frame) (E := H3.Frame.FrameErr) s script with
      | mk o rest =>
      obtain ⟨s', r⟩ := rest
      simp only
      by_cases he : o.isErr = false
      · exact ⟨s', r, by simpa using Reach.data h hres he, fun _ => ⟨rfl, rfl⟩⟩
      · refine ⟨s, script, ?_, fun h' => absurd h' he⟩
        cases o <;> simp_all [Out.isErr, Out.toks]
    · rw [if_neg hrem]
      cases hres : pollNext frameDec s script with
      | mk o rest =>
      obtain ⟨s', r⟩ := rest
      cases o with
      | frame f =>
        have hr := Reach.next h hres rfl
        cases f with
        | data n =>
          simp only
          obtain ⟨s2, r2, h2, h3⟩ := ih _ s' r hr
          exact ⟨s2, r2, by simpa [List.flatMap_cons, List.append_assoc] using h2, h3⟩
        | headers p => exact ⟨s', r, by simpa using hr, fun _ => ⟨rfl, rfl⟩⟩
        | cancelPush _ => exact ⟨s', r, by simpa using hr, fun _ => ⟨rfl, rfl⟩⟩
        | settings _ => exact ⟨s', r, by simpa using hr, fun _ => ⟨rfl, rfl⟩⟩
        | pushPromise _ _ => exact ⟨s', r, by simpa using hr, fun _ => ⟨rfl, rfl⟩⟩
        | goaway _ => exact ⟨s', r, by simpa using hr, fun _ => ⟨rfl, rfl⟩⟩
        | maxPushId _ => exact ⟨s', r, by simpa using hr, fun _ => ⟨rfl, rfl⟩⟩
        | webTransport _ => exact ⟨s', r, by simpa using hr, fun _ => ⟨rfl, rfl⟩⟩
      | data d => exact ⟨s', r, by simpa using Reach.next h hres rfl, fun _ => ⟨rfl, rfl⟩⟩
      | none => exact ⟨s', r, by simpa using Reach.next h hres rfl, fun _ => ⟨rfl, rfl⟩⟩
      | pending => exact ⟨s', r, by simpa using Reach.next h hres rfl, fun _ => ⟨rfl, rfl⟩⟩
      | errProto _ => exact ⟨s, script, by simpa [Out.toks] using h, fun h' => by simp [Out.isErr] at h'⟩
      | errEnd => exact ⟨s, script, by simpa [Out.toks] using h, fun h' => by simp [Out.isErr] at h'⟩
      | errQuic _ => exact ⟨s, script, by simpa [Out.toks] using h, fun h' => by simp [Out.isErr] at h'⟩
      | panic => exact ⟨s, script, by simpa [Out.toks] using h, fun h' => by simp [Out.isErr] at h'⟩

theorem runR_reach (sc0 : List Ev) (calls : List CallR) :
    ∀ (toks : List (Tok H3.Frame.Frame H3.Frame.FrameErr)) (s : St) (script : List Ev),
      Reach frameDec sc0 toks s script →
      ∃ s' script', Reach frameDec sc0 (toks ++ (runR s script calls).raw.flatMap Out.toks) s' script' := by
  induction calls with
  | nil => intro toks s script h; exact ⟨s, script, by simpa [runR] using h⟩
  | cons c cs ih =>
    intro toks s script h
    cases c with
    | split => rw [runR, split_eq]; exact ih toks s script h
    | recv =>
      rw [runR]
      simp only
      obtain ⟨s2, r2, h2, h3⟩ := recvData_reach sc0 (recvFuel s script) toks s script h
      cases hout : (recvData (recvFuel s script) s script).out with
      | data d =>
        obtain ⟨rfl, rfl⟩ := h3 (by rw [hout]; rfl)
        obtain ⟨s4, r4, h4⟩ := ih _ _ _ h2
        exact ⟨s4, r4, by simpa [List.flatMap_append, List.append_assoc] using h4⟩
      | pending =>
        obtain ⟨rfl, rfl⟩ := h3 (by rw [hout]; rfl)
        obtain ⟨s4, r4, h4⟩ := ih _ _ _ h2
        exact ⟨s4, r4, by simpa [List.flatMap_append, List.append_assoc] using h4⟩
      | frame _ => exact ⟨s2, r2, h2⟩
      | none => exact ⟨s2, r2, h2⟩
      | errProto _ => exact ⟨s2, r2, h2⟩
      | errEnd => exact ⟨s2, r2, h2⟩
      | errQuic _ => exact ⟨s2, r2, h2⟩
      | panic => exact ⟨s2, r2, h2⟩

end H3.FS
