import H3.Lemmas.IsoPolledReq
/-! C07, a healthy stream whose polls are interleaved with its deliveries — the request of the
    product machine and every schedule.

    `follows`: the application of a stream makes the calls of the documented receive pattern, each
    polled again while it answers `Pending` (`resolve_request`/`recv_response` until it answers, then
    the body task until it completes, nothing after), decided by what it has been answered so far;
    peer events arrive between any two polls.  `digest`: what the application has been given, the
    `Pending` answers left out.  `polled_run`: along every such schedule of a healthy stream the
    invariant `RInv` of the current phase holds, the shared cell is never written, and the digest
    is the one of the phase (`GOK`): the head; as body the payload bytes the frame layer has handed
    out (a prefix of the message's DATA payloads — all of them once the end is reported); the end;
    the trailers iff present.  A `body` poll made after FIN has arrived completes the pattern. -/
namespace H3.Iso
open H3.ReqRecv H3.Frame

/-! ### schedules and digests -/

/-- the application's own view of where the documented receive pattern of its stream stands -/
inductive APhase where
  | head | body | done
deriving DecidableEq, Repr

/-- the phase after the call of the phase has been answered `o` (`Pending`: poll the same call
    again; an error ends the pattern) -/
def APhase.after : APhase → Obs → APhase
  | .head, .ans (.res (.head _)) => .body
  | .head, .ans (.res .pending) => .head
  | .head, _ => .done
  | .body, .body rs none => if rs.getLast? = some .pending then .body else .done
  | .body, .body _ (some (.res .pending)) => .body
  | .body, _ => .done
  | .done, _ => .done

/-- `follows cfg fuel ph cell r evs`: in the run of `evs` from request state `r`, every call is the
    one the documented pattern makes at that point: in phase `head` one poll of `resolve_request` /
    `recv_response`, in phase `body` one poll of the body task (`recv_data` until it answers
    something else than data, then `recv_trailers` after a clean end), nothing once the pattern has
    ended; peer events anywhere in between. -/
def follows (cfg : Cfg) (fuel : Nat) : APhase → Option Nat → Req → List StreamEv → Bool
  | _, _, _, [] => true
  | ph, cell, r, .peer p :: evs => follows cfg fuel ph cell (r.deliver p) evs
  | .head, cell, r, .call .head :: evs =>
    follows cfg fuel (APhase.after .head (Req.step cfg cell r (.call .head)).2.2)
      (Req.step cfg cell r (.call .head)).2.1 (Req.step cfg cell r (.call .head)).1 evs
  | .body, cell, r, .call (.body f) :: evs =>
    f == fuel &&
    follows cfg fuel (APhase.after .body (Req.step cfg cell r (.call (.body f))).2.2)
      (Req.step cfg cell r (.call (.body f))).2.1 (Req.step cfg cell r (.call (.body f))).1 evs
  | _, _, _, _ => false

/-- what the application of a stream has been given so far, `Pending` answers left out -/
structure Dig where
  /-- answers of `resolve_request` / `recv_response` -/
  heads : List Ans := []
  /-- answers of the `recv_data` calls, in order -/
  body : List Res := []
  /-- answers of `recv_trailers` -/
  trailers : List Ans := []
deriving DecidableEq, Repr

def Dig.add (g : Dig) : Obs → Dig
  | .ans a => if a = .res .pending then g else { g with heads := g.heads ++ [a] }
  | .body rs t =>
    { g with
      body := g.body ++ rs.filter (fun r => r != .pending)
      trailers := g.trailers ++
        (match t with
         | some a => if a = .res .pending then [] else [a]
         | none => []) }
  | _ => g

def digest (obs : List Obs) : Dig := obs.foldl Dig.add {}

/-- the peer events among the events of a stream -/
def peersOf : List StreamEv → List Peer
  | [] => []
  | .peer p :: r => p :: peersOf r
  | .call _ :: r => peersOf r

theorem fsScript_cons (p : Peer) (ps : List Peer) : fsScript (p :: ps) = fsOf p ++ fsScript ps := rfl

theorem filter_pieces_last (pieces : List ReqRecv.Bytes) (last : Res) :
    (pieces.map Res.data ++ [last]).filter (fun r => r != .pending) =
      pieces.map Res.data ++ (if last = .pending then [] else [last]) := by
  rw [List.filter_append]
  have h1 : (pieces.map Res.data).filter (fun r => r != .pending) = pieces.map Res.data := by
    rw [List.filter_eq_self]
    intro r hr
    obtain ⟨d, _, rfl⟩ := List.mem_map.mp hr
    rfl
  rw [h1]
  by_cases hl : last = .pending
  · subst hl; simp
  · simp [hl]

/-! ### the phases of a healthy request in the product -/

/-- where the pattern of a healthy stream stands, as the model sees it (`trailers`: the body task
    is inside `recv_trailers`) -/
inductive DPhase where
  | head | body | trailers | done
deriving DecidableEq, Repr

def DPhase.app : DPhase → APhase
  | .head => .head
  | .body => .body
  | .trailers => .body
  | .done => .done

section Healthy
variable {w : FS.Bytes} {h : ReqRecv.Bytes} {ds : List ReqRecv.Bytes} {tr : Option ReqRecv.Bytes}

/-- the invariant of a healthy request: `D` delivered so far, `b` = body bytes answered so far -/
def RInv (w : FS.Bytes) (h : ReqRecv.Bytes) (ds : List ReqRecv.Bytes) (tr : Option ReqRecv.Bytes) (ph : DPhase)
    (D : List FS.Ev) (b : ReqRecv.Bytes) (r : Req) : Prop :=
  r.gone = false ∧ r.rx.env = {} ∧
  match ph with
  | .head => r.resolved = false ∧ r.atTrailers = false ∧ HeadSt w D r.rx ∧ b = []
  | .body => r.resolved = true ∧ r.atTrailers = false ∧ ∃ out, BodySt w h D out r.rx ∧ bodyOf out = b
  | .trailers => r.resolved = true ∧ r.atTrailers = true ∧ EndSt w h ds tr D r.rx ∧ b = ds.flatten
  | .done => b = ds.flatten

/-- the digest that goes with a phase -/
def GOK (h : ReqRecv.Bytes) (ds : List ReqRecv.Bytes) (tr : Option ReqRecv.Bytes) : DPhase → ReqRecv.Bytes → Dig → Prop
  | .head, _, g => g = {}
  | .body, b, g => g.heads = [.res (.head h)] ∧ (∃ ps : List ReqRecv.Bytes, g.body = ps.map .data ∧ ps.flatten = b) ∧
      g.trailers = []
  | .trailers, _, g => g.heads = [.res (.head h)] ∧
      (∃ ps : List ReqRecv.Bytes, g.body = ps.map .data ++ [.end_] ∧ ps.flatten = ds.flatten) ∧ g.trailers = []
  | .done, _, g => g.heads = [.res (.head h)] ∧
      (∃ ps : List ReqRecv.Bytes, g.body = ps.map .data ++ [.end_] ∧ ps.flatten = ds.flatten) ∧
      g.trailers = [.res (trRes tr)]

theorem rinv_init (w : FS.Bytes) (h : ReqRecv.Bytes) (ds : List ReqRecv.Bytes) (tr : Option ReqRecv.Bytes) :
    RInv w h ds tr .head [] [] {} :=
  ⟨rfl, rfl, rfl, rfl, ⟨hinv_init w, rfl, rfl⟩, rfl⟩

theorem bodyOf_prefix {x y : List RefTok} (hp : x <+: y) : bodyOf x <+: bodyOf y := by
  obtain ⟨m, rfl⟩ := hp
  rw [bodyOf_append]
  exact List.prefix_append _ _

/-- the body answered so far is a prefix of the message's DATA payloads -/
theorem rinv_prefix (hw : Wire w (msgToks h ds tr)) {ph : DPhase} {D : List FS.Ev} {b : ReqRecv.Bytes} {r : Req}
    (hr : RInv w h ds tr ph D b r) : b <+: ds.flatten := by
  obtain ⟨_, _, hph⟩ := hr
  cases ph with
  | head => obtain ⟨_, _, _, rfl⟩ := hph; exact List.nil_prefix
  | body =>
    obtain ⟨_, _, out, hb, rfl⟩ := hph
    have := bodyOf_prefix (hinv_prefix hw hb.inv)
    rwa [bodyOf_msgToks] at this
  | trailers => obtain ⟨_, _, _, rfl⟩ := hph; exact List.prefix_refl _
  | done => simp only at hph; subst hph; exact List.prefix_refl _

/-- a peer event arrives -/
theorem rinv_deliver {ph : DPhase} {D : List FS.Ev} {b : ReqRecv.Bytes} {r : Req} (p : Peer)
    (hr : RInv w h ds tr ph D b r) (hD : Deliv w (D ++ fsOf p)) :
    RInv w h ds tr ph (D ++ fsOf p) b (r.deliver p) := by
  obtain ⟨hg, henv, hph⟩ := hr
  have key : ∀ out, HInv w D out r.rx.src → HInv w (D ++ fsOf p) out (r.deliver p).rx.src := by
    intro out hI
    have := hinv_arrive (fsOf p) hI hD
    cases p <;> simpa [Req.deliver, fsOf] using this
  have htr : (r.deliver p).rx.trailers = r.rx.trailers := by cases p <;> rfl
  have hs1 : (r.deliver p).rx.src.1 = r.rx.src.1 := by cases p <;> rfl
  refine ⟨by cases p <;> exact hg, by cases p <;> exact henv, ?_⟩
  cases ph with
  | head =>
    obtain ⟨h1, h2, ⟨hI, h3, h4⟩, h5⟩ := hph
    exact ⟨by cases p <;> exact h1, by cases p <;> exact h2, ⟨key _ hI, by rw [htr]; exact h3, by rw [hs1]; exact h4⟩, h5⟩
  | body =>
    obtain ⟨h1, h2, out, ⟨hI, h3, h4⟩, h5⟩ := hph
    exact ⟨by cases p <;> exact h1, by cases p <;> exact h2, out, ⟨key _ hI, by rw [htr]; exact h3, h4⟩, h5⟩
  | trailers =>
    obtain ⟨h1, h2, ⟨hI, h3, h4⟩, h5⟩ := hph
    refine ⟨by cases p <;> exact h1, by cases p <;> exact h2, ⟨key _ hI, by rw [hs1]; exact h3, ?_⟩, h5⟩
    rw [htr, hs1]; exact h4
  | done => exact hph

theorem load_none_of_env {st : St FSt} (h : st.env = {}) : load none st = st :=
  load_eq none st (by rw [h])

theorem unload_of_env {st : St FSt} (h : st.env = {}) : unload st = st := by
  obtain ⟨src, trl, env⟩ := st
  simp only at h
  subst h
  rfl

/-- `trailersPoll` when the answer is not an oversized section -/
theorem trailersPoll_of (cfg : Cfg) (st st' : St FSt) (res : Res)
    (hp : pollRecvTrailers fsSrc cfg.hdr.base st = (res, st'))
    (hok : ∀ enc, res = .trailers enc → cfg.hdr.trailer enc = .ok) :
    trailersPoll cfg st = (.res res, st') := by
  unfold trailersPoll
  rw [hp]
  cases res with
  | trailers enc =>
    have := hok enc rfl
    simp only [this]
  | _ => rfl

variable (hw : Wire w (msgToks h ds tr)) (cfg : Cfg)

include hw in
/-- one poll of `resolve_request` / `recv_response` in phase `head` -/
theorem step_head (hh : cfg.hdr.head h = .ok) {D : List FS.Ev} {b : ReqRecv.Bytes} {r : Req}
    (hr : RInv w h ds tr .head D b r) :
    ∃ r', (Req.step cfg none r (.call .head) = (r', none, .ans (.res (.head h))) ∧ RInv w h ds tr .body D [] r') ∨
      (Req.step cfg none r (.call .head) = (r', none, .ans (.res .pending)) ∧ RInv w h ds tr .head D [] r' ∧
        FS.Ev.fin ∉ D) := by
  obtain ⟨hg, henv, hres, hat, hst, _⟩ := hr
  have hlive : live cfg r .head := by
    simp only [live, hg, accepts, hres]
    cases cfg.role <;> rfl
  have hbase : cfg.hdr.base.head h = .ok := by simp [Hdr.base, hh, HClass.base]
  obtain ⟨res, st', hp, henv', hc⟩ := healthy_head hw cfg.role cfg.hdr.base hbase D r.rx hst
  rw [henv] at henv'
  rw [Req.step_live cfg none r .head hlive]
  rcases hc with ⟨rfl, hb⟩ | ⟨rfl, hhd, hfin⟩
  · refine ⟨{ r with rx := unload st', resolved := true }, Or.inl ⟨?_, hg, ?_, rfl, hat, [FS.Tok.frame (Frame.headers h)], ?_, rfl⟩⟩
    · unfold stepHead
      rw [load_none_of_env henv, hp]
      simp only [henv']
      split
      · next h1 _ => rw [hh] at h1; cases h1
      · next h1 _ => rw [hh] at h1; cases h1
      · rfl
    · show (unload st').env = {}
      rw [unload_of_env henv']; exact henv'
    · show BodySt w h D _ (unload st')
      rw [unload_of_env henv']; exact hb
  · refine ⟨{ r with rx := unload st' }, Or.inr ⟨?_, ⟨hg, ?_, hres, hat, ?_, rfl⟩, hfin⟩⟩
    · unfold stepHead
      rw [load_none_of_env henv, hp]
      simp only [henv']
    · show (unload st').env = {}
      rw [unload_of_env henv']; exact henv'
    · show HeadSt w D (unload st')
      rw [unload_of_env henv']; exact hhd

include hw in
/-- one poll of the body task -/
theorem step_body (hT : ∀ t, tr = some t → cfg.hdr.trailer t = .ok) (fuel : Nat)
    (hfuel : (msgToks h ds tr).length < fuel) {ph : DPhase} (hph : ph = .body ∨ ph = .trailers)
    {D : List FS.Ev} {b : ReqRecv.Bytes} {r : Req} (hr : RInv w h ds tr ph D b r) :
    ∃ (r' : Req) (pieces : List ReqRecv.Bytes),
      (ph = .trailers → pieces = []) ∧
      ((∃ last, Req.step cfg none r (.call (.body fuel)) = (r', none, .body (pieces.map .data ++ [last]) none) ∧
          last = .pending ∧ ph = .body ∧ RInv w h ds tr .body D (b ++ pieces.flatten) r' ∧ FS.Ev.fin ∉ D) ∨
       (Req.step cfg none r (.call (.body fuel)) =
          (r', none, .body (pieces.map .data ++ (if ph = .body then [.end_] else [])) (some (.res .pending))) ∧
          RInv w h ds tr .trailers D ds.flatten r' ∧ b ++ pieces.flatten = ds.flatten ∧ FS.Ev.fin ∉ D) ∨
       (Req.step cfg none r (.call (.body fuel)) =
          (r', none, .body (pieces.map .data ++ (if ph = .body then [.end_] else [])) (some (.res (trRes tr)))) ∧
          RInv w h ds tr .done D ds.flatten r' ∧ b ++ pieces.flatten = ds.flatten)) := by
  have hbaseT : ∀ t, tr = some t → cfg.hdr.base.trailer t = .ok := by
    intro t ht; simp [Hdr.base, hT t ht, HClass.base]
  have hokT : ∀ enc, trRes tr = .trailers enc → cfg.hdr.trailer enc = .ok := by
    intro enc he
    cases tr with
    | none => cases he
    | some t => simp only [trRes, Res.trailers.injEq] at he; subst he; exact hT t rfl
  rcases hph with rfl | rfl
  · -- in the `recv_data` loop
    obtain ⟨hg, henv, hres, hat, out, hst, hb⟩ := hr
    have hlive : live cfg r (.body fuel) := by
      simp only [live, hg, accepts, hres]
      cases cfg.role <;> rfl
    rw [Req.step_live cfg none r _ hlive]
    obtain ⟨pieces, last, st2, hd, henv2, hc⟩ := healthy_drain hw fuel r.rx D out hst (by omega)
    rw [henv] at henv2
    have hlast : (pieces.map Res.data ++ [last]).getLast? = some last := List.getLast?_concat
    rcases hc with ⟨rfl, ⟨out', hst', hb'⟩, hfin⟩ | ⟨rfl, hend, hb'⟩
    · refine ⟨{ r with rx := unload st2 }, pieces, (by intro hc; cases hc), Or.inl ⟨.pending, ?_, rfl, rfl, ?_, hfin⟩⟩
      · show stepBody cfg fuel none r = _
        unfold stepBody
        rw [if_neg (by simp [hat]), load_none_of_env henv, hd]
        simp only [hlast, henv2]
        rw [if_neg (by simp)]
      · refine ⟨hg, ?_, hres, hat, out', ?_, by rw [hb', hb]⟩
        · show (unload st2).env = {}
          rw [unload_of_env henv2]; exact henv2
        · show BodySt w h D out' (unload st2)
          rw [unload_of_env henv2]; exact hst'
    · rw [hb] at hb'
      obtain ⟨res, st3, hp, henv3, hc3⟩ := healthy_trailers hw cfg.hdr.base hbaseT D st2 hend
      rw [henv2] at henv3
      have hstep : ∀ (hok : ∀ enc, res = .trailers enc → cfg.hdr.trailer enc = .ok),
          stepBody cfg fuel none r =
            ({ r with rx := unload st3, atTrailers := true }, none,
              .body (pieces.map .data ++ [.end_]) (some (.res res))) := by
        intro hok
        unfold stepBody
        rw [if_neg (by simp [hat]), load_none_of_env henv, hd]
        simp only [hlast, if_true, trailersPoll_of cfg st2 st3 res hp hok, henv3]
      rcases hc3 with rfl | ⟨rfl, hend3, hfin⟩
      · refine ⟨{ r with rx := unload st3, atTrailers := true }, pieces, (by intro hc; cases hc),
          Or.inr (Or.inr ⟨?_, ⟨hg, ?_, rfl⟩, hb'⟩)⟩
        · show stepBody cfg fuel none r = _
          rw [hstep hokT]; simp
        · show (unload st3).env = {}
          rw [unload_of_env henv3]; exact henv3
      · refine ⟨{ r with rx := unload st3, atTrailers := true }, pieces, (by intro hc; cases hc),
          Or.inr (Or.inl ⟨?_, ⟨hg, ?_, hres, rfl, ?_, rfl⟩, hb', hfin⟩)⟩
        · show stepBody cfg fuel none r = _
          rw [hstep (fun enc he => by cases he)]; simp
        · show (unload st3).env = {}
          rw [unload_of_env henv3]; exact henv3
        · show EndSt w h ds tr D (unload st3)
          rw [unload_of_env henv3]; exact hend3
  · -- inside `recv_trailers`
    obtain ⟨hg, henv, hres, hat, hend, hb⟩ := hr
    have hlive : live cfg r (.body fuel) := by
      simp only [live, hg, accepts, hres]
      cases cfg.role <;> rfl
    rw [Req.step_live cfg none r _ hlive]
    obtain ⟨res, st3, hp, henv3, hc3⟩ := healthy_trailers hw cfg.hdr.base hbaseT D r.rx hend
    rw [henv] at henv3
    have hstep : ∀ (hok : ∀ enc, res = .trailers enc → cfg.hdr.trailer enc = .ok),
        stepBody cfg fuel none r = ({ r with rx := unload st3 }, none, .body [] (some (.res res))) := by
      intro hok
      unfold stepBody
      rw [if_pos hat, load_none_of_env henv, trailersPoll_of cfg r.rx st3 res hp hok]
      simp only [henv3]
    rcases hc3 with rfl | ⟨rfl, hend3, hfin⟩
    · refine ⟨{ r with rx := unload st3 }, [], fun _ => rfl, Or.inr (Or.inr ⟨?_, ⟨hg, ?_, rfl⟩, by simpa using hb⟩)⟩
      · show stepBody cfg fuel none r = _
        rw [hstep hokT]; simp
      · show (unload st3).env = {}
        rw [unload_of_env henv3]; exact henv3
    · refine ⟨{ r with rx := unload st3 }, [], fun _ => rfl,
        Or.inr (Or.inl ⟨?_, ⟨hg, ?_, hres, hat, ?_, rfl⟩, by simpa using hb, hfin⟩)⟩
      · show stepBody cfg fuel none r = _
        rw [hstep (fun enc he => by cases he)]; simp
      · show (unload st3).env = {}
        rw [unload_of_env henv3]; exact henv3
      · show EndSt w h ds tr D (unload st3)
        rw [unload_of_env henv3]; exact hend3

end Healthy

/-! ### every schedule -/

theorem follows_peer (cfg : Cfg) (fuel : Nat) (ph : APhase) (cell : Option Nat) (r : Req) (p : Peer)
    (evs : List StreamEv) :
    follows cfg fuel ph cell r (.peer p :: evs) = follows cfg fuel ph cell (r.deliver p) evs := by
  cases ph <;> rfl

theorem follows_head_call (cfg : Cfg) (fuel : Nat) (cell : Option Nat) (r : Req) (c : Call) (evs : List StreamEv)
    (hf : follows cfg fuel .head cell r (.call c :: evs) = true) :
    c = .head ∧
    follows cfg fuel (APhase.after .head (Req.step cfg cell r (.call .head)).2.2)
      (Req.step cfg cell r (.call .head)).2.1 (Req.step cfg cell r (.call .head)).1 evs = true := by
  cases c <;> simp [follows] at hf
  exact ⟨rfl, hf⟩

theorem follows_body_call (cfg : Cfg) (fuel : Nat) (cell : Option Nat) (r : Req) (c : Call) (evs : List StreamEv)
    (hf : follows cfg fuel .body cell r (.call c :: evs) = true) :
    c = .body fuel ∧
    follows cfg fuel (APhase.after .body (Req.step cfg cell r (.call (.body fuel))).2.2)
      (Req.step cfg cell r (.call (.body fuel))).2.1 (Req.step cfg cell r (.call (.body fuel))).1 evs = true := by
  cases c <;> simp [follows] at hf
  obtain ⟨rfl, hf⟩ := hf
  exact ⟨rfl, hf⟩

theorem follows_done_call (cfg : Cfg) (fuel : Nat) (cell : Option Nat) (r : Req) (c : Call) (evs : List StreamEv) :
    follows cfg fuel .done cell r (.call c :: evs) = false := by
  cases c <;> rfl

/-- every prefix of the transport events of a healthy stream is a state of delivery -/
theorem deliv_of_prefix {cs : List FS.Bytes} (hne : ∀ b ∈ cs, b ≠ []) {D : List FS.Ev}
    (hp : D <+: cs.map FS.Ev.chunk ++ [FS.Ev.fin]) : Deliv cs.flatten D := by
  rcases List.prefix_concat_iff.mp hp with rfl | hp
  · exact ⟨cs, hne, Or.inr ⟨rfl, rfl⟩⟩
  · have hD := List.prefix_iff_eq_take.mp hp
    rw [← List.map_take] at hD
    refine ⟨cs.take D.length, fun b hb => hne b (List.mem_of_mem_take hb), Or.inl ⟨hD, ?_⟩⟩
    conv => rhs; rw [← List.take_append_drop D.length cs, List.flatten_append]
    exact List.prefix_append _ _

theorem getLast?_cons_of_ne {α : Type} (a : α) {l : List α} (h : l ≠ []) : (a :: l).getLast? = l.getLast? := by
  cases l with
  | nil => exact absurd rfl h
  | cons b r => simp [List.getLast?_cons_cons]

section Gok
variable {h : ReqRecv.Bytes} {ds : List ReqRecv.Bytes} {tr : Option ReqRecv.Bytes}

theorem gok_head_answer {b : ReqRecv.Bytes} {g : Dig} (hg : GOK h ds tr .head b g) :
    GOK h ds tr .body [] (g.add (.ans (.res (.head h)))) := by
  simp only [GOK] at hg
  subst hg
  exact ⟨by simp [Dig.add], ⟨[], rfl, rfl⟩, rfl⟩

theorem gok_head_pending {b : ReqRecv.Bytes} {g : Dig} (hg : GOK h ds tr .head b g) :
    GOK h ds tr .head [] (g.add (.ans (.res .pending))) := by
  simp only [GOK] at hg ⊢
  subst hg
  rfl

theorem gok_body_pending {b : ReqRecv.Bytes} {g : Dig} (pieces : List ReqRecv.Bytes) (hg : GOK h ds tr .body b g) :
    GOK h ds tr .body (b ++ pieces.flatten) (g.add (.body (pieces.map .data ++ [.pending]) none)) := by
  obtain ⟨h1, ⟨ps, h2, h3⟩, h4⟩ := hg
  refine ⟨h1, ⟨ps ++ pieces, ?_, by rw [List.flatten_append, h3]⟩, by simp [Dig.add, h4]⟩
  simp only [Dig.add, filter_pieces_last, if_true, List.append_nil, h2, List.map_append]

theorem gok_body_end {b : ReqRecv.Bytes} {g : Dig} (pieces : List ReqRecv.Bytes) (hg : GOK h ds tr .body b g)
    (hb : b ++ pieces.flatten = ds.flatten) :
    GOK h ds tr .trailers ds.flatten (g.add (.body (pieces.map .data ++ [.end_]) (some (.res .pending)))) ∧
    GOK h ds tr .done ds.flatten (g.add (.body (pieces.map .data ++ [.end_]) (some (.res (trRes tr))))) := by
  obtain ⟨h1, ⟨ps, h2, h3⟩, h4⟩ := hg
  have hbody : g.body ++ (pieces.map Res.data ++ [Res.end_]).filter (fun r => r != .pending) =
      (ps ++ pieces).map .data ++ [.end_] := by
    rw [filter_pieces_last, if_neg (by simp), h2, List.map_append, List.append_assoc]
  have hfl : (ps ++ pieces).flatten = ds.flatten := by rw [List.flatten_append, h3, hb]
  refine ⟨⟨h1, ⟨ps ++ pieces, hbody, hfl⟩, by simp [Dig.add, h4]⟩, ⟨h1, ⟨ps ++ pieces, hbody, hfl⟩, ?_⟩⟩
  cases tr <;> simp [Dig.add, h4, trRes]

theorem gok_trailers_step {b : ReqRecv.Bytes} {g : Dig} (hg : GOK h ds tr .trailers b g) :
    GOK h ds tr .trailers ds.flatten (g.add (.body [] (some (.res .pending)))) ∧
    GOK h ds tr .done ds.flatten (g.add (.body [] (some (.res (trRes tr))))) := by
  obtain ⟨h1, ⟨ps, h2, h3⟩, h4⟩ := hg
  refine ⟨⟨h1, ⟨ps, by simp [Dig.add, h2], h3⟩, by simp [Dig.add, h4]⟩, ⟨h1, ⟨ps, by simp [Dig.add, h2], h3⟩, ?_⟩⟩
  cases tr <;> simp [Dig.add, h4, trRes]

end Gok

theorem after_trRes (rs : List Res) (tr : Option ReqRecv.Bytes) :
    APhase.after .body (.body rs (some (.res (trRes tr)))) = .done := by
  cases tr <;> rfl

theorem after_body_pending (pieces : List ReqRecv.Bytes) :
    APhase.after .body (.body (pieces.map Res.data ++ [.pending]) none) = .body := by
  simp [APhase.after]

section Run
variable {w : FS.Bytes} {h : ReqRecv.Bytes} {ds : List ReqRecv.Bytes} {tr : Option ReqRecv.Bytes}

/-- **Every schedule of a healthy stream.**  From a state of the pattern (`RInv`, digest `g` so far),
    whatever sequence of further peer deliveries and polls of the documented pattern follows: the
    cell stays empty, the invariant and the digest of the phase reached hold, and if FIN has arrived
    and the last event is a poll of the body task, the pattern has completed. -/
theorem polled_run (hw : Wire w (msgToks h ds tr)) (cfg : Cfg) (hh : cfg.hdr.head h = .ok)
    (hT : ∀ t, tr = some t → cfg.hdr.trailer t = .ok) (fuel : Nat) (hfuel : (msgToks h ds tr).length < fuel)
    (cs : List FS.Bytes) (hne : ∀ b ∈ cs, b ≠ []) (hcs : cs.flatten = w) :
    ∀ (evs : List StreamEv) (ph : DPhase) (D : List FS.Ev) (b : ReqRecv.Bytes) (r : Req) (g : Dig),
      RInv w h ds tr ph D b r → GOK h ds tr ph b g →
      D ++ fsScript (peersOf evs) <+: cs.map FS.Ev.chunk ++ [FS.Ev.fin] →
      follows cfg fuel ph.app none r evs = true →
      ∃ ph' b', (Req.run cfg none r evs).2.1 = none ∧
        RInv w h ds tr ph' (D ++ fsScript (peersOf evs)) b' (Req.run cfg none r evs).1 ∧
        GOK h ds tr ph' b' ((Req.run cfg none r evs).2.2.foldl Dig.add g) ∧
        (FS.Ev.fin ∈ D ++ fsScript (peersOf evs) → evs.getLast? = some (.call (.body fuel)) → ph' = .done) := by
  intro evs
  induction evs with
  | nil =>
    intro ph D b r g hr hg _ _
    refine ⟨ph, b, rfl, ?_, hg, fun _ hl => by cases hl⟩
    show RInv w h ds tr ph (D ++ fsScript (peersOf [])) b r
    simpa [peersOf, fsScript] using hr
  | cons ev rest ih =>
    intro ph D b r g hr hg hpre hf
    -- the last event of `ev :: rest`
    have hlast : ∀ c, (ev :: rest).getLast? = some c → rest ≠ [] → rest.getLast? = some c := by
      intro c hc hne'
      rwa [getLast?_cons_of_ne ev hne'] at hc
    cases ev with
    | peer p =>
      have hpeers : D ++ fsScript (peersOf (.peer p :: rest)) = (D ++ fsOf p) ++ fsScript (peersOf rest) := by
        simp only [peersOf, fsScript_cons, List.append_assoc]
      rw [hpeers] at hpre ⊢
      have hD : Deliv w (D ++ fsOf p) := by
        rw [← hcs]
        exact deliv_of_prefix hne ((List.prefix_append _ _).trans hpre)
      rw [follows_peer] at hf
      obtain ⟨ph', b', h1, h2, h3, h4⟩ := ih ph (D ++ fsOf p) b (r.deliver p) g (rinv_deliver p hr hD) hg hpre hf
      refine ⟨ph', b', ?_, ?_, ?_, ?_⟩
      · rw [Req.run_cons]; exact h1
      · rw [Req.run_cons]; exact h2
      · rw [Req.run_cons]; exact h3
      · intro hfin hl
        by_cases hrest : rest = []
        · subst hrest; simp at hl
        · exact h4 hfin (hlast _ hl hrest)
    | call c =>
      have hpeers : D ++ fsScript (peersOf (.call c :: rest)) = D ++ fsScript (peersOf rest) := rfl
      rw [hpeers] at hpre ⊢
      -- after the step: the rest of the run
      have finish : ∀ (r' : Req) (o : Obs) (ph1 : DPhase) (b1 : ReqRecv.Bytes),
          Req.step cfg none r (.call c) = (r', none, o) → RInv w h ds tr ph1 D b1 r' →
          GOK h ds tr ph1 b1 (g.add o) → follows cfg fuel ph1.app none r' rest = true →
          (rest = [] → FS.Ev.fin ∈ D → c = .body fuel → ph1 = .done) →
          ∃ ph' b', (Req.run cfg none r (.call c :: rest)).2.1 = none ∧
            RInv w h ds tr ph' (D ++ fsScript (peersOf rest)) b' (Req.run cfg none r (.call c :: rest)).1 ∧
            GOK h ds tr ph' b' ((Req.run cfg none r (.call c :: rest)).2.2.foldl Dig.add g) ∧
            (FS.Ev.fin ∈ D ++ fsScript (peersOf rest) → (StreamEv.call c :: rest).getLast? = some (.call (.body fuel)) →
              ph' = .done) := by
        intro r' o ph1 b1 hstep hr1 hg1 hf1 hdone
        by_cases hrest : rest = []
        · subst hrest
          have hrun : Req.run cfg none r [.call c] = (r', none, [o]) := by
            rw [Req.run_cons, hstep]; rfl
          rw [hrun]
          refine ⟨ph1, b1, rfl, by simpa [peersOf, fsScript] using hr1, hg1, ?_⟩
          intro hfin hl
          simp only [List.getLast?_singleton, Option.some.injEq, StreamEv.call.injEq] at hl
          exact hdone rfl (by simpa [peersOf, fsScript] using hfin) hl
        · obtain ⟨ph', b', h1, h2, h3, h4⟩ := ih ph1 D b1 r' (g.add o) hr1 hg1 hpre hf1
          rw [Req.run_cons, hstep]
          exact ⟨ph', b', h1, h2, h3, fun hfin hl => h4 hfin (hlast _ hl hrest)⟩
      cases ph with
      | head =>
        obtain ⟨rfl, hf'⟩ := follows_head_call cfg fuel none r c rest hf
        obtain ⟨r', hc | hc⟩ := step_head hw cfg hh hr
        · obtain ⟨hstep, hr1⟩ := hc
          rw [hstep] at hf'
          exact finish r' _ .body [] hstep hr1 (gok_head_answer hg) hf' (fun _ _ hc => by cases hc)
        · obtain ⟨hstep, hr1, _⟩ := hc
          rw [hstep] at hf'
          exact finish r' _ .head [] hstep hr1 (gok_head_pending hg) hf' (fun _ _ hc => by cases hc)
      | body =>
        obtain ⟨rfl, hf'⟩ := follows_body_call cfg fuel none r c rest hf
        obtain ⟨r', pieces, _, hc | hc | hc⟩ := step_body hw cfg hT fuel hfuel (Or.inl rfl) hr
        · obtain ⟨last, hstep, rfl, _, hr1, hfin⟩ := hc
          rw [hstep, after_body_pending] at hf'
          exact finish r' _ .body _ hstep hr1 (gok_body_pending pieces hg) hf' (fun _ hd _ => absurd hd hfin)
        · obtain ⟨hstep, hr1, hb, hfin⟩ := hc
          simp only [if_true] at hstep
          rw [hstep] at hf'
          exact finish r' _ .trailers _ hstep hr1 (gok_body_end pieces hg hb).1 hf' (fun _ hd _ => absurd hd hfin)
        · obtain ⟨hstep, hr1, hb⟩ := hc
          simp only [if_true] at hstep
          rw [hstep, after_trRes] at hf'
          exact finish r' _ .done _ hstep hr1 (gok_body_end pieces hg hb).2 hf' (fun _ _ _ => rfl)
      | trailers =>
        obtain ⟨rfl, hf'⟩ := follows_body_call cfg fuel none r c rest hf
        obtain ⟨r', pieces, hp, hc | hc | hc⟩ := step_body hw cfg hT fuel hfuel (Or.inr rfl) hr
        · obtain ⟨_, _, _, hc, _⟩ := hc
          cases hc
        · obtain ⟨hstep, hr1, hb, hfin⟩ := hc
          rw [hp rfl] at hstep
          simp only [List.map_nil, List.nil_append, reduceCtorEq, if_false] at hstep
          rw [hstep] at hf'
          exact finish r' _ .trailers _ hstep hr1 (gok_trailers_step hg).1 hf' (fun _ hd _ => absurd hd hfin)
        · obtain ⟨hstep, hr1, hb⟩ := hc
          rw [hp rfl] at hstep
          simp only [List.map_nil, List.nil_append, reduceCtorEq, if_false] at hstep
          rw [hstep, after_trRes] at hf'
          exact finish r' _ .done _ hstep hr1 (gok_trailers_step hg).2 hf' (fun _ _ _ => rfl)
      | done =>
        rw [show DPhase.done.app = APhase.done from rfl, follows_done_call] at hf
        cases hf

/-- all deliveries at once -/
theorem rinv_deliver_all (cs : List FS.Bytes) (hne : ∀ b ∈ cs, b ≠ []) (hcs : cs.flatten = w) {ph : DPhase}
    {b : ReqRecv.Bytes} : ∀ (ps : List Peer) (D : List FS.Ev) (r : Req), RInv w h ds tr ph D b r →
      D ++ fsScript ps <+: cs.map FS.Ev.chunk ++ [FS.Ev.fin] →
      RInv w h ds tr ph (D ++ fsScript ps) b (ps.foldl Req.deliver r) := by
  intro ps
  induction ps with
  | nil => intro D r hr _; simpa [fsScript] using hr
  | cons p ps ih =>
    intro D r hr hpre
    rw [fsScript_cons, ← List.append_assoc] at hpre ⊢
    have hD : Deliv w (D ++ fsOf p) := by
      rw [← hcs]
      exact deliv_of_prefix hne ((List.prefix_append _ _).trans hpre)
    exact ih (D ++ fsOf p) (r.deliver p) (rinv_deliver p hr hD) hpre

theorem follows_peers (cfg : Cfg) (fuel : Nat) : ∀ (ps : List Peer) (ph : APhase) (cell : Option Nat) (r : Req)
    (rest : List StreamEv),
    follows cfg fuel ph cell r (ps.map .peer ++ rest) = follows cfg fuel ph cell (ps.foldl Req.deliver r) rest := by
  intro ps
  induction ps with
  | nil => intro ph cell r rest; rfl
  | cons p ps ih =>
    intro ph cell r rest
    rw [List.map_cons, List.cons_append, follows_peer, ih]
    rfl

theorem peersOf_peers_calls (ps : List Peer) (cs : List Call) :
    peersOf (ps.map StreamEv.peer ++ cs.map StreamEv.call) = ps := by
  induction ps with
  | nil =>
    induction cs with
    | nil => rfl
    | cons c cs ih => simpa [peersOf] using ih
  | cons p ps ih => simp only [List.map_cons, List.cons_append, peersOf, ih]

/-- the schedule of `C07_healthy_stream_delivers` — everything delivered, then one poll of the head
    call and one of the body task — follows the documented pattern: with FIN there the head call
    answers at once -/
theorem follows_delivered_first (hw : Wire w (msgToks h ds tr)) (cfg : Cfg) (hh : cfg.hdr.head h = .ok) (fuel : Nat)
    (cs : List FS.Bytes) (hne : ∀ b ∈ cs, b ≠ []) (hcs : cs.flatten = w) :
    follows cfg fuel .head none {}
      ((cs.map Peer.chunk ++ [Peer.fin]).map StreamEv.peer ++ [.call .head, .call (.body fuel)]) = true := by
  rw [follows_peers]
  have hr0 := rinv_deliver_all (h := h) (ds := ds) (tr := tr) cs hne hcs (cs.map Peer.chunk ++ [Peer.fin]) [] {}
    (rinv_init w h ds tr) (by rw [List.nil_append, fsScript_chunks_fin]; exact List.prefix_refl _)
  rw [List.nil_append, fsScript_chunks_fin] at hr0
  generalize (cs.map Peer.chunk ++ [Peer.fin]).foldl Req.deliver {} = r0 at hr0 ⊢
  obtain ⟨r1, hc | hc⟩ := step_head hw cfg hh hr0
  · obtain ⟨hstep, _⟩ := hc
    have e1 : follows cfg fuel .head none r0 [.call .head, .call (.body fuel)] =
        follows cfg fuel (APhase.after .head (Req.step cfg none r0 (.call .head)).2.2)
          (Req.step cfg none r0 (.call .head)).2.1 (Req.step cfg none r0 (.call .head)).1 [.call (.body fuel)] := rfl
    rw [e1, hstep]
    show follows cfg fuel .body none r1 [.call (.body fuel)] = true
    simp [follows]
  · obtain ⟨_, _, hfin⟩ := hc
    exact absurd (by simp) hfin

end Run

end H3.Iso
