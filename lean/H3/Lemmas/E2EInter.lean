import H3.Lemmas.E2ECompose
import H3.Lemmas.IsoPolled
/-! End to end under interleaving: the C14 connection machine of the sending endpoint
    (`H3.SendSide.run`), the product machine of the receiving endpoint (`H3.Iso.run`: any number of
    request streams, deliveries and polls as events of one history, the driver's polls) and the
    composition lemmas of `E2ECompose`, put together.

    * `headOk_of_values`: `HeadOk` — the head survives the trip — derived from the `http` laws for a
      head made of values of the crate (`HeadValues`), with the delivered head `expectedHead m`
      computed from the message.
    * `healthy_quiet`: a stream that carries the bytes of a valid message and whose application
      follows the documented pattern never writes the shared error cell, whatever the schedule —
      so that "no stream is told a connection error" is a conclusion, not a hypothesis, for the
      exchanges of the theorem.
    * `exchange_delivered`: one such stream inside ANY history. -/
namespace H3.E2E
open H3.Varint H3.WriteBuf H3.SendSide H3.Headers H3.FS H3.ReqRecv H3.Gen.WriteBuf
open H3.Iso (Peer StreamEv HEv Dig digest follows peersOf fsScript fsOf obsOf APhase DPhase)

/-! ### the head: from the `http` laws -/

/-- The head of the message is made of values of the `http` crate.  Requests: the method is a
    token; the scheme, the authority and the path-and-query of the target are values the crate's
    own parsers produced (what an `http::Uri` holds; `https` and `/`, which h3 fills in, included);
    the `Protocol` extension is one h3 knows; a target without an authority is completed by a `Host`
    value that is an authority; the submitted `Host` values are all the same (D-12e); and — what the
    CALLER owes since the D-12g fix, because `http::Uri` accepts `1http://…`, `h~p://…` and
    `https://a@b@c/` as the crate's `Scheme` / `Authority` parsers do — the scheme of the target is an
    RFC 3986 scheme and its authority has at most one `@` and a numeric port (`schemeSyntax`,
    `authoritySyntax`: what the receiving h3 checks; the `https` default and a path-and-query of the
    crate always pass, `HttpRoundTrip.path_print_no_fragment`).  Responses:
    the status is 100…999 (`http::StatusCode`). -/
inductive HeadValues (H : Http) : Role → Message → Prop where
  | request (m : Message) (method : Bytes) (uri : UriParts) (ext : Option Bytes) :
      m.head = .request method uri ext →
      validMethod method = true →
      (∀ s, (Pseudo.request method uri ext).scheme = some s → ∃ w, H.parseScheme w = some s) →
      (∀ a, uri.authority = some a → ∃ w, H.parseAuthority w = some a) →
      (∀ x, (Pseudo.request method uri ext).path = some x → ∃ w, H.parsePath w = some x) →
      (∀ x, (Pseudo.request method uri ext).protocol = some x → parseProtocol x = some x) →
      (uri.authority = none → ∀ hv, hmGet (mapOf m.headers) nHost = some hv → H.parseAuthority hv = some hv) →
      allFirst (hmGroup (mapOf m.headers) nHost) = true →
      (∀ s, uri.scheme = some s → schemeSyntax s = true) →
      (∀ a, uri.authority = some a → authoritySyntax a = true) →
      HeadValues H .server m
  | response (m : Message) (status : Nat) :
      m.head = .response status → 100 ≤ status → status ≤ 999 → HeadValues H .client m

/-- what the receiving application must be handed as head: the same method; the scheme the sender
    put in `:scheme` (the URI's own, `https` when it has none; none for a plain CONNECT), the
    authority of the URI (or the `Host` value), the path the sender put in `:path` (none for a plain
    CONNECT); the `Protocol`; the header map the application filled — resp. the same status -/
def expectedHead (m : Message) : HeadOut :=
  match m.head with
  | .request method uri ext =>
    .request { method := method
               uri := { scheme := (Pseudo.request method uri ext).scheme
                        authority := some (effAuthority uri.authority (hmGet (mapOf m.headers) nHost))
                        path := (Pseudo.request method uri ext).path }
               protocol := (Pseudo.request method uri ext).protocol
               headers := mapOf m.headers }
  | .response status => .response status (mapOf m.headers)

theorem pseudoBack_of_laws (H : Http) (L : HttpLaws H) (R : HttpRoundTrip H) (method : List Nat)
    (uri : UriParts) (ext : Option (List Nat)) (hm : validMethod method = true)
    (hs : ∀ s, (Pseudo.request method uri ext).scheme = some s → ∃ w, H.parseScheme w = some s)
    (ha : ∀ a, uri.authority = some a → ∃ w, H.parseAuthority w = some a)
    (hp : ∀ x, (Pseudo.request method uri ext).path = some x → ∃ w, H.parsePath w = some x)
    (hx : ∀ x, (Pseudo.request method uri ext).protocol = some x → parseProtocol x = some x)
    (hss : ∀ s, uri.scheme = some s → schemeSyntax s = true)
    (has : ∀ a, uri.authority = some a → authoritySyntax a = true) :
    PseudoBack H (Pseudo.request method uri ext) := by
  refine ⟨?_, ?_, ?_, ?_, ?_, hx, ?_, has, ?_⟩
  · intro v hv
    have : (Pseudo.request method uri ext).method = some method := rfl
    rw [this] at hv; cases hv; exact hm
  · intro s h
    obtain ⟨w, hw⟩ := hs s h
    exact R.scheme_print_parse w s hw
  · intro a h
    obtain ⟨w, hw⟩ := ha a h
    have := L.authority_as_str w a hw
    rw [this] at hw ⊢
    exact hw
  · intro x h
    obtain ⟨w, hw⟩ := hp x h
    exact R.path_print_parse w x hw
  · intro st h
    have : (Pseudo.request method uri ext).status = none := rfl
    rw [this] at h; cases h
  · -- the scheme h3 writes is the URI's own, or the `https` default
    intro s h
    have hs' : (Pseudo.request method uri ext).scheme =
        if method = mCONNECT ∧ (Pseudo.request method uri ext).protocol = none then none
        else some (uri.scheme.getD sHttps) := rfl
    rw [hs'] at h
    split at h
    · cases h
    · cases hu : uri.scheme with
      | none => rw [hu] at h; cases h; decide
      | some s' => rw [hu] at h; cases h; exact hss s' hu
  · intro x h
    obtain ⟨w, hw⟩ := hp x h
    exact R.path_print_no_fragment w x hw

/-- `Pseudo::request` sends `:scheme` and `:path` together — or neither (plain CONNECT) -/
theorem pseudo_scheme_path (method : Bytes) (uri : UriParts) (ext : Option Bytes) :
    ((Pseudo.request method uri ext).scheme = none ∧ (Pseudo.request method uri ext).path = none) ∨
    (∃ s p, (Pseudo.request method uri ext).scheme = some s ∧ (Pseudo.request method uri ext).path = some p) := by
  by_cases h1 : method = mCONNECT <;> cases ext <;> simp [Pseudo.request, h1]

/-- **`HeadOk` from the laws**: a head made of values of the crate, submitted in a message the
    sender accepts, survives the trip, and what arrives is `expectedHead m`. -/
theorem headOk_of_values (H : Http) (L : HttpLaws H) (R : HttpRoundTrip H) (role : Role) (m : Message)
    (h : Header) (hh : headerOf m = .ok h) (hv : HeadValues H role m) :
    HeadOk H role m (expectedHead m) := by
  cases hv with
  | response m status hm h1 h2 =>
    have : expectedHead m = .response status (mapOf m.headers) := by unfold expectedHead; rw [hm]
    rw [this]
    exact HeadOk.response m status hm h1 h2
  | request m method uri ext hm hmeth hs ha hp hx hhost hall hss has =>
    have hpb := pseudoBack_of_laws H L R method uri ext hmeth hs ha hp hx hss has
    -- the effective authority parses to itself
    have hauth : H.parseAuthority (effAuthority uri.authority (hmGet (mapOf m.headers) nHost)) =
        some (effAuthority uri.authority (hmGet (mapOf m.headers) nHost)) := by
      have hreq : Header.request method uri (mapOf m.headers) ext = .ok h := by
        unfold headerOf at hh; rw [hm] at hh; exact hh
      unfold Header.request at hreq
      cases hua : uri.authority with
      | none =>
        cases hho : hmGet (mapOf m.headers) nHost with
        | none => rw [hua, hho] at hreq; cases hreq
        | some hv' => exact hhost hua hv' hho
      | some a =>
        obtain ⟨w, hw⟩ := ha a hua
        have haa : H.parseAuthority a = some a := by
          have := L.authority_as_str w a hw
          rw [this] at hw ⊢; exact hw
        cases hho : hmGet (mapOf m.headers) nHost with
        | none => exact haa
        | some hv' =>
          rw [hua, hho] at hreq
          simp only at hreq
          by_cases hne : a ≠ hv'
          · rw [if_pos hne] at hreq; cases hreq
          · have : a = hv' := Classical.not_not.mp hne
            subst this
            exact haa
    -- so the receiver's builder builds
    have hbuilds : (H.uriBuild (Pseudo.request method uri ext).scheme
        (effAuthority uri.authority (hmGet (mapOf m.headers) nHost))
        (Pseudo.request method uri ext).path).isSome = true := by
      rcases pseudo_scheme_path method uri ext with ⟨h1, h2⟩ | ⟨s, p, h1, h2⟩
      · rw [h1, h2]; exact R.uri_builds_authority _ hauth
      · rw [h1, h2]; exact R.uri_builds s _ p (hpb.scheme s h1) hauth (hpb.path p h2)
    obtain ⟨u, hu⟩ := Option.isSome_iff_exists.mp hbuilds
    have hparts := R.uri_parts _ _ _ _ hu
    have hout : expectedHead m = .request (RequestParts.mk method u
        (Pseudo.request method uri ext).protocol (mapOf m.headers)) := by
      unfold expectedHead; rw [hm]; simp only [hparts]
    rw [hout]
    exact HeadOk.request m method uri ext u hm hpb hu hall

/-! ### the header oracle of the product machine -/

/-- `decode_stateless` + `Header::try_from` + `into_*` with the size limit kept apart
    (`H3.Iso.HClass.tooBig`, C10) -/
def isoClassify {α : Type} (max : Nat) (parse : List FieldLine → Headers.Res α) (block : Bytes) : Iso.HClass :=
  match Qpack.decodeStateless block max with
  | .ok fs _ =>
    match parse (lines fs) with
    | .ok _ => .ok
    | _ => .malformed
  | .err (.headerTooLong _) => .tooBig
  | .err _ => .qpack

def isoHdrOf (H : Http) (role : Role) (max : Nat) : Iso.Hdr where
  head := fun b =>
    match role with
    | .server => isoClassify max (recvRequest H) b
    | .client => isoClassify max (recvResponse H) b
  trailer := isoClassify max (recvTrailers H)

/-- the receiving endpoint: its role, QPACK + header validation with limit `max` -/
def isoCfg (H : Http) (role : Role) (max : Nat) : Iso.Cfg := { role := role, hdr := isoHdrOf H role max }

theorem isoClassify_ok {α : Type} (max : Nat) (parse : List FieldLine → Headers.Res α) (b : Bytes)
    (h : classifyBlock max parse b = .ok) : isoClassify max parse b = .ok := by
  unfold classifyBlock at h
  unfold isoClassify
  cases hd : Qpack.decodeStateless b max with
  | ok fs n =>
    rw [hd] at h
    simp only at h ⊢
    cases hp : parse (lines fs) with
    | ok a => rfl
    | err e => rw [hp] at h; cases h
    | panic => rw [hp] at h; cases h
  | err e =>
    rw [hd] at h
    cases e <;> cases h

theorem isoHdr_head_ok (H : Http) (role : Role) (max : Nat) (b : Bytes)
    (h : (hdrOf H role max).head b = .ok) : (isoHdrOf H role max).head b = .ok := by
  cases role <;> exact isoClassify_ok max _ b h

theorem isoHdr_trailer_ok (H : Http) (role : Role) (max : Nat) (b : Bytes)
    (h : (hdrOf H role max).trailer b = .ok) : (isoHdrOf H role max).trailer b = .ok :=
  isoClassify_ok max _ b h

/-! ### the wire of a well-formed message, for the product machine -/

theorem bodyToks_eq_iso (ps : List Bytes) : bodyToks ps = Iso.bodyToks ps := by
  induction ps with
  | nil => rfl
  | cons p r ih => rw [Iso.bodyToks_cons, ← ih]; rfl

theorem msgToks_eq_iso (hb : Bytes) (ps : List Bytes) (tr : Option Bytes) :
    msgToks hb ps tr = Iso.msgToks hb ps tr := by
  rw [Iso.msgToks_eq, msgToks, bodyToks_eq_iso]
  cases tr <;> rfl

/-- the stream bytes of a well-formed message are, for the frame layer, a sequence of complete
    frames: HEADERS, one DATA per piece, trailing HEADERS iff trailers (+ the skipped grease frame) -/
theorem wire_of_wellFormed (m : Message) (h : Header) (hwf : WellFormed m h) (g : Option Nat)
    (hg : ∀ n, g = some n → n < GREASE_RANGE_END) :
    Iso.Wire (streamBytes m g) (Iso.msgToks (fieldSection h) m.pieces (m.trailers.map trailerSection)) := by
  have hpl := all_plain m h hwf g hg
  have hrun := run_wireOf _ hpl
  rw [← streamBytes_eq m h hwf.header g, runToks_frames, msgToks_eq_iso] at hrun
  refine ⟨hrun, Iso.noRaw_of_msgToks _ _ _ _ _ hrun ?_⟩
  intro d hd
  have := (hwf.pieces d hd).1
  unfold FS.USIZE_MAX
  omega

/-! ### a healthy stream never writes the cell -/

theorem follows_nil (cfg : Iso.Cfg) (fuel : Nat) (ph : APhase) (cell : Option Nat) (r : Iso.Req) :
    follows cfg fuel ph cell r [] = true := by cases ph <;> rfl

/-- a schedule that follows the documented pattern does so up to any point -/
theorem follows_prefix (cfg : Iso.Cfg) (fuel : Nat) : ∀ (a b : List StreamEv) (ph : APhase) (cell : Option Nat)
    (r : Iso.Req), follows cfg fuel ph cell r (a ++ b) = true → follows cfg fuel ph cell r a = true := by
  intro a
  induction a with
  | nil => intro b ph cell r _; exact follows_nil cfg fuel ph cell r
  | cons ev a ih =>
    intro b ph cell r hf
    cases ev with
    | peer p =>
      rw [List.cons_append, Iso.follows_peer] at hf
      rw [Iso.follows_peer]
      exact ih b ph cell _ hf
    | call c =>
      rw [List.cons_append] at hf
      cases ph with
      | head =>
        obtain ⟨rfl, hf'⟩ := Iso.follows_head_call cfg fuel cell r c (a ++ b) hf
        show follows cfg fuel (APhase.after .head (Iso.Req.step cfg cell r (.call .head)).2.2)
          (Iso.Req.step cfg cell r (.call .head)).2.1 (Iso.Req.step cfg cell r (.call .head)).1 a = true
        exact ih b _ _ _ hf'
      | body =>
        obtain ⟨rfl, hf'⟩ := Iso.follows_body_call cfg fuel cell r c (a ++ b) hf
        show (fuel == fuel &&
          follows cfg fuel (APhase.after .body (Iso.Req.step cfg cell r (.call (.body fuel))).2.2)
            (Iso.Req.step cfg cell r (.call (.body fuel))).2.1 (Iso.Req.step cfg cell r (.call (.body fuel))).1 a) = true
        rw [ih b _ _ _ hf']
        simp
      | done => rw [Iso.follows_done_call] at hf; cases hf

theorem peersOf_append (a b : List StreamEv) : peersOf (a ++ b) = peersOf a ++ peersOf b := by
  induction a with
  | nil => rfl
  | cons ev a ih => cases ev <;> simp [peersOf, ih]

theorem fsScript_append (a b : List Peer) : fsScript (a ++ b) = fsScript a ++ fsScript b := by
  simp [fsScript]

/-- the cell is empty after every prefix ⇒ no step writes it -/
theorem quiet_of_prefix_cells (cfg : Iso.Cfg) : ∀ (evs : List StreamEv) (r : Iso.Req),
    (∀ a b, evs = a ++ b → (Iso.Req.run cfg none r a).2.1 = none) → Iso.Req.quiet cfg r evs := by
  intro evs
  induction evs with
  | nil => intro _ _; trivial
  | cons ev rest ih =>
    intro r h
    have h0 : (Iso.Req.step cfg none r ev).2.1 = none := by
      have := h [ev] rest rfl
      rw [Iso.Req.run_cons] at this
      exact this
    refine ⟨h0, ih _ ?_⟩
    intro a b hab
    have := h (ev :: a) b (by rw [hab]; rfl)
    rw [Iso.Req.run_cons, h0] at this
    exact this

section Healthy
variable {w : FS.Bytes} {h : ReqRecv.Bytes} {ds : List ReqRecv.Bytes} {tr : Option ReqRecv.Bytes}

/-- **A healthy stream is quiet.**  The stream carries the bytes of a valid message, cut in any way,
    FIN after them; its application follows the documented pattern (each call polled again after
    `Pending`); deliveries and polls interleaved in any way.  Then no step of the stream writes the
    shared error cell. -/
theorem healthy_quiet (hw : Iso.Wire w (Iso.msgToks h ds tr)) (cfg : Iso.Cfg) (hh : cfg.hdr.head h = .ok)
    (hT : ∀ t, tr = some t → cfg.hdr.trailer t = .ok) (fuel : Nat) (hfuel : (Iso.msgToks h ds tr).length < fuel)
    (cs : List FS.Bytes) (hne : ∀ b ∈ cs, b ≠ []) (hcs : cs.flatten = w) (evs : List StreamEv)
    (hpeers : peersOf evs = cs.map Peer.chunk ++ [Peer.fin])
    (hfollow : follows cfg fuel .head none {} evs = true) :
    Iso.Req.quiet cfg {} evs := by
  apply quiet_of_prefix_cells
  intro a b hab
  have hfa : follows cfg fuel .head none {} a = true := by
    rw [hab] at hfollow; exact follows_prefix cfg fuel a b _ _ _ hfollow
  have hpre : [] ++ fsScript (peersOf a) <+: cs.map FS.Ev.chunk ++ [FS.Ev.fin] := by
    rw [List.nil_append, ← Iso.fsScript_chunks_fin, ← hpeers, hab, peersOf_append, fsScript_append]
    exact List.prefix_append _ _
  obtain ⟨_, _, hc, _⟩ := Iso.polled_run hw cfg hh hT fuel hfuel cs hne hcs a .head [] [] {} {}
    (Iso.rinv_init _ h ds tr) rfl hpre hfa
  exact hc

end Healthy

/-! ### what the application has in hand, from the digest of its stream -/

/-- the receiving application's digest decoded as `deliver` decodes the trace of `recvPattern`:
    the head from the (single) answer of the head call, the body bytes and the number of `Ok(None)`
    answers from ALL answers of `recv_data`, the trailers from the (single) answer of
    `recv_trailers`; `env` = what h3 did on the stream besides -/
def deliveredOf (H : Http) (role : Role) (max : Nat) (g : Dig) (env : Env) : Delivered :=
  { head := match g.heads with
      | [.res (.head b)] => decodeHead H role max b
      | _ => none
    body := bodyOf g.body
    cleanEnd := g.body.getLast? == some .end_
    ends := endsOf g.body
    trailers := match g.trailers with
      | [.res (.trailers b)] => (decodeWith max (recvTrailers H) b).map some
      | [.res .noTrailers] => some none
      | _ => none
    env := env }

/-! ### one exchange on a connection -/

/-- one direction of one exchange: the message `m` submitted on request stream `sid` (`h` = its
    `Header`), whether the handle owes the grease frame (`g`, draw `gN`), the write-acceptance
    scripts of its calls, and how the transport cuts its bytes (`cs`) -/
structure Exchange where
  sid : Nat
  m : Message
  h : Header
  g : Bool
  gN : Nat
  scripts : List (List Nat)
  cs : List Bytes

/-- the sender's program for the exchange -/
def Exchange.calls (x : Exchange) : List (SOp × List Nat) := callsOf (framesOf x.m x.h) x.gN x.scripts

/-- the frame-layer tokens of the message of the exchange -/
def Exchange.toks (x : Exchange) : List ReqRecv.RefTok :=
  Iso.msgToks (fieldSection x.h) x.m.pieces (x.m.trailers.map trailerSection)

/-- What is asked of an exchange inside a run `steps` of the sending endpoint's connection machine
    (from `st`) and a history `hist` of the receiving endpoint. -/
structure Exchange.Ok (H : Http) (role : Role) (L : Nat) (fuel : Nat) (st : State) (steps : List Step)
    (hist : List HEv) (x : Exchange) : Prop where
  /-- the quantifier of C01 -/
  wf : WellFormed x.m x.h
  fits : Fits x.m x.h L
  values : HeadValues H role x.m
  draw : x.gN < GREASE_RANGE_END
  sid : x.sid % 4 = 0
  /-- sender: the stream is there, fresh; the steps that address it are the awaited calls of the
      message with their transport polls (R-14), interleaved at will with every other step -/
  fresh : getStream st.streams x.sid = some (freshStream x.g)
  awaited : Awaited (freshStream x.g) x.calls
  mine : steps.filterMap (proj x.sid) = opsOf x.calls
  /-- transport: the receiver's stream is delivered what the sender's transport was handed, cut into
      non-empty chunks in any way, then FIN — anywhere in the history -/
  chunks : ∀ b ∈ x.cs, b ≠ []
  carried : ∀ s, getStream (SendSide.run st steps).streams x.sid = some s → x.cs.flatten = s.log
  delivered : peersOf (Iso.proj x.sid hist) = x.cs.map Peer.chunk ++ [Peer.fin]
  /-- receiver: the application follows the documented pattern, each call polled again after
      `Pending`, anywhere in the history; its last poll comes after FIN -/
  follows : follows (isoCfg H role L) fuel .head none {} (Iso.proj x.sid hist) = true
  last : (Iso.proj x.sid hist).getLast? = some (.call (.body fuel))
  /-- the loop bound of a poll of the body task exceeds the number of frame-layer tokens -/
  bound : x.toks.length < fuel

section Exchange
variable {H : Http} {role : Role} {L fuel : Nat} {st : State} {steps : List Step} {hist : List HEv}
  {x : Exchange}

/-- the sender's side of an exchange: the stream's log is the stream bytes of the message, FIN set -/
theorem Exchange.Ok.sent (ok : x.Ok H role L fuel st steps hist) :
    ∃ s, getStream (SendSide.run st steps).streams x.sid = some s ∧
      s.log = streamBytes x.m (if x.g then some x.gN else none) ∧ s.fin = true := by
  obtain ⟨a, b, _⟩ := sendAll_message (framesOf x.m x.h) (frames_sendable x.m x.h ok.wf) x.g x.gN ok.draw
    x.scripts ok.awaited
  refine ⟨_, getStream_run steps st x.sid _ ok.sid ok.fresh, ?_, ?_⟩
  · rw [ok.mine]
    show (runS (freshStream x.g) (opsOf x.calls)).log = _
    rw [← sendAll_eq_runS]
    exact a.trans (by rw [streamBytes, wire_eq x.m x.h ok.wf.header])
  · rw [ok.mine]
    show (runS (freshStream x.g) (opsOf x.calls)).fin = true
    rw [← sendAll_eq_runS]
    exact b

theorem Exchange.Ok.grease_ok (ok : x.Ok H role L fuel st steps hist) :
    ∀ n, (if x.g then some x.gN else none) = some n → n < GREASE_RANGE_END := by
  intro n hn
  cases hg : x.g with
  | false => rw [hg] at hn; simp at hn
  | true => rw [hg] at hn; simp only [if_true, Option.some.injEq] at hn; subst hn; exact ok.draw

theorem Exchange.Ok.wire (ok : x.Ok H role L fuel st steps hist) : Iso.Wire x.cs.flatten x.toks := by
  obtain ⟨s, hs, hlog, _⟩ := ok.sent
  rw [ok.carried s hs, hlog]
  exact wire_of_wellFormed x.m x.h ok.wf _ ok.grease_ok

theorem Exchange.Ok.headOk (L' : HttpLaws H) (R : HttpRoundTrip H) (ok : x.Ok H role L fuel st steps hist) :
    HeadOk H role x.m (expectedHead x.m) :=
  headOk_of_values H L' R role x.m x.h ok.wf.header ok.values

theorem Exchange.Ok.hdr_head (L' : HttpLaws H) (R : HttpRoundTrip H) (ok : x.Ok H role L fuel st steps hist) :
    (isoCfg H role L).hdr.head (fieldSection x.h) = .ok :=
  isoHdr_head_ok H role L _ (head_block H role x.m x.h _ L ok.wf ok.fits (ok.headOk L' R)).1

theorem Exchange.Ok.hdr_trailer (ok : x.Ok H role L fuel st steps hist) :
    ∀ t, x.m.trailers.map trailerSection = some t → (isoCfg H role L).hdr.trailer t = .ok := by
  intro t ht
  cases hm : x.m.trailers with
  | none => rw [hm] at ht; cases ht
  | some t' =>
    rw [hm] at ht
    simp only [Option.map_some, Option.some.injEq] at ht
    subst ht
    exact isoHdr_trailer_ok H role L _ (trailer_block H role x.m x.h L ok.wf ok.fits t' hm).1

/-- the stream of an exchange never writes the cell -/
theorem Exchange.Ok.quiet (L' : HttpLaws H) (R : HttpRoundTrip H) (ok : x.Ok H role L fuel st steps hist) :
    Iso.Req.quiet (isoCfg H role L) {} (Iso.proj x.sid hist) :=
  healthy_quiet ok.wire (isoCfg H role L) (ok.hdr_head L' R) ok.hdr_trailer fuel ok.bound x.cs ok.chunks rfl _
    ok.delivered ok.follows

theorem trailers_of_digest (H : Http) (role : Role) (m : Message) (h : Header) (L : Nat)
    (hwf : WellFormed m h) (hfit : Fits m h L) :
    (match ([.res (Iso.trRes (m.trailers.map trailerSection))] : List Iso.Ans) with
      | [.res (.trailers b)] => (decodeWith L (recvTrailers H) b).map some
      | [.res .noTrailers] => some none
      | _ => none) = some (m.trailers.map mapOf) := by
  cases hm : m.trailers with
  | none => rfl
  | some t =>
    simp only [Option.map_some, Iso.trRes]
    rw [(trailer_block H role m h L hwf hfit t hm).2]
    rfl

/-- **One exchange inside any history.**  If no stream of the receiving endpoint's history writes
    the error cell, the application of the exchange's stream has been given — `Pending` answers left
    out, ALL other answers of all its polls counted — exactly its own message: one head, the one
    expected; body bytes = the concatenation of the pieces sent; exactly one `Ok(None)`, the last
    answer of `recv_data`; one answer of `recv_trailers`, the trailers sent or `None`; h3 has reset
    and stopped nothing on the stream. -/
theorem Exchange.Ok.delivered_in (L' : HttpLaws H) (R : HttpRoundTrip H)
    (ok : x.Ok H role L fuel st steps hist) (hq : Iso.QuietHist (isoCfg H role L) {} hist) :
    deliveredOf H role L (digest (obsOf x.sid (Iso.run (isoCfg H role L) {} hist).2))
        ((Iso.run (isoCfg H role L) {} hist).1.get x.sid).rx.env = expected x.m (expectedHead x.m) ∧
    (digest (obsOf x.sid (Iso.run (isoCfg H role L) {} hist).2)).heads.length = 1 ∧
    (digest (obsOf x.sid (Iso.run (isoCfg H role L) {} hist).2)).trailers.length = 1 := by
  obtain ⟨_, _, hview⟩ := Iso.run_decomposes (isoCfg H role L) hist {} rfl rfl hq
  have hv := (hview x.sid).1
  have hg : ({} : Iso.Conn).get x.sid = ({} : Iso.Req) := rfl
  rw [hg] at hv
  simp only [Iso.view, Prod.mk.injEq] at hv
  have hscript : fsScript (peersOf (Iso.proj x.sid hist)) = x.cs.map FS.Ev.chunk ++ [FS.Ev.fin] := by
    rw [ok.delivered, Iso.fsScript_chunks_fin]
  obtain ⟨ph', b', _, hr, hgok, hdone⟩ := Iso.polled_run ok.wire (isoCfg H role L) (ok.hdr_head L' R)
    ok.hdr_trailer fuel ok.bound x.cs ok.chunks rfl (Iso.proj x.sid hist) .head [] [] {} {}
    (Iso.rinv_init _ _ _ _) rfl (by rw [List.nil_append, hscript]; exact List.prefix_refl _) ok.follows
  have hph : ph' = .done := hdone (by rw [List.nil_append, hscript]; simp) ok.last
  subst hph
  obtain ⟨h1, ⟨ps, h2, h3⟩, h4⟩ := hgok
  have henv := hr.2.1
  have hdig : digest (obsOf x.sid (Iso.run (isoCfg H role L) {} hist).2) =
      List.foldl Dig.add {} (Iso.Req.run (isoCfg H role L) none {} (Iso.proj x.sid hist)).2.2 := by
    rw [hv.2]; rfl
  rw [hdig, hv.1, henv]
  refine ⟨?_, by rw [h1]; rfl, by rw [h4]; rfl⟩
  unfold deliveredOf expected
  rw [h1, h2, h4]
  simp only [(head_block H role x.m x.h _ L ok.wf ok.fits (ok.headOk L' R)).2, bodyOf_data, endsOf_data, h3,
    trailers_of_digest H role x.m x.h L ok.wf ok.fits]
  have hlast : ((ps.map Res.data ++ [Res.end_]).getLast? == some Res.end_) = true := by simp
  rw [hlast]

end Exchange

/-! ### one interleaved sequence for both endpoints -/

/-- a step of the connection, seen from both ends: a step of the sending endpoint's machine (an API
    call or a transport poll of any of its streams, GOAWAY, the grease stream) or an event of the
    receiving endpoint (a delivery on, or a poll of a call of, any request stream; a poll of its
    driver) -/
inductive GEv where
  | snd (s : Step)
  | rcv (e : HEv)

def sndOf : List GEv → List Step
  | [] => []
  | .snd s :: r => s :: sndOf r
  | .rcv _ :: r => sndOf r

def rcvOf : List GEv → List HEv
  | [] => []
  | .snd _ :: r => rcvOf r
  | .rcv e :: r => e :: rcvOf r

/-- the two endpoints run through one interleaved sequence: the sender's state, the receiver's
    state, and everything the receiver's applications observed -/
def grun (cfg : Iso.Cfg) : State → Iso.Conn → List GEv → State × Iso.Conn × List (Nat × Iso.Obs)
  | s, c, [] => (s, c, [])
  | s, c, .snd x :: r => grun cfg (step s x) c r
  | s, c, .rcv e :: r =>
    ((grun cfg s (Iso.hstep cfg c e).1 r).1, (grun cfg s (Iso.hstep cfg c e).1 r).2.1,
     (Iso.hstep cfg c e).2 ++ (grun cfg s (Iso.hstep cfg c e).1 r).2.2)

/-- the two endpoints share nothing but the transport: the interleaved run is the pair of the runs -/
theorem grun_eq (cfg : Iso.Cfg) : ∀ (evs : List GEv) (s : State) (c : Iso.Conn),
    grun cfg s c evs = (SendSide.run s (sndOf evs), (Iso.run cfg c (rcvOf evs)).1, (Iso.run cfg c (rcvOf evs)).2) := by
  intro evs
  induction evs with
  | nil => intro s c; rfl
  | cons e r ih =>
    intro s c
    cases e with
    | snd x =>
      rw [grun, ih]
      simp only [sndOf, rcvOf, SendSide.run, List.foldl_cons]
    | rcv e =>
      rw [grun, ih]
      simp only [sndOf, rcvOf, Iso.run_cons]

end H3.E2E
