import H3.Model.Goaway
import H3.Spec.Goaway
import H3.Lemmas.Goaway
/-! The queue rules of the GOAWAY oracle (`H3.Spec.Goaway.okQueue`, second audit: D-08b) on whole
histories of the model `H3.Goaway`: the history the judge sees is the model's observations with the
peer's `arrived`, the application's `completed` and `shutdownCalled` put in by the scenario
(`judged`).  Lemmas for `H3.Props.C08.C08_server_queue`. -/
namespace H3.Lemmas.GoawayQueue
open H3.Goaway H3.Spec.Goaway H3.Lemmas.Goaway H3.StreamId

/-- what the scenario adds to the observations of one step. -/
def judged (e : Ev) (os : List Obs) : List Obs :=
  match e with
  | .arrive id => .arrived id :: os
  | .complete id => .completed id :: os
  | .shutdown n => .shutdownCalled n :: os
  | _ => os

/-- the judged history of a run. -/
def runJ : State → List Ev → List Obs
  | _, [] => []
  | s, e :: es => judged e (step s e).2 ++ runJ (step s e).1 es

theorem validQ_append (a b : List Obs) : ∀ h : Hist,
    validQ h (a ++ b) = (validQ h a && validQ (pushAll h a) b) := by
  induction a with
  | nil => intro h; simp [validQ, pushAll]
  | cons o r ih => intro h; simp [validQ, pushAll, ih, Bool.and_assoc]

theorem disposed_iff (h : Hist) (i : Nat) : disposed h i = true ↔ i ∈ h.surfaced ∨ i ∈ h.rejected := by
  simp [disposed]

theorem disposed_false_iff (h : Hist) (i : Nat) : disposed h i = false ↔ ¬ (i ∈ h.surfaced ∨ i ∈ h.rejected) := by
  rw [← disposed_iff]; simp

private def fmax (m : Option Nat) (i : Nat) : Option Nat := some (match m with | some a => max a i | none => i)

theorem largestSurfaced_eq (h : Hist) : largestSurfaced h = h.surfaced.foldl fmax none := rfl

theorem foldl_fmax (l : List Nat) : ∀ a, l.foldl fmax (some a) = some (maxOpt (l.foldl fmax none) a) := by
  induction l with
  | nil => intro a; simp [maxOpt]
  | cons i l ih =>
    intro a
    simp only [List.foldl, fmax]
    rw [ih (max a i), ih i]
    cases l.foldl fmax none with
    | none => simp only [maxOpt]; congr 1; omega
    | some x => simp only [maxOpt]; congr 1; omega

theorem largestSurfaced_cons (h : Hist) (i : Nat) :
    largestSurfaced { h with surfaced := i :: h.surfaced } = some (maxOpt (largestSurfaced h) i) := by
  simp only [largestSurfaced_eq, List.foldl]
  exact foldl_fmax h.surfaced i

/-- state (the four fields the server's accept / shutdown read) against the judged history; `q` is the
    transport's queue as the accept loop sees it. -/
structure QInv (s : State) (h : Hist) (q : List Nat) : Prop where
  sent_eq : h.sent.head? = s.sentClosing
  largest_eq : largestSurfaced h = s.largest
  largest_ok : ∀ L, s.largest = some L → L % 4 = 0 ∧ L < 2^62
  opened_ok : ∀ i ∈ h.opened, (i ∈ h.surfaced ∨ i ∈ h.rejected) ∨ i ∈ q
  known : ∀ i, ((i ∈ h.surfaced ∨ i ∈ h.rejected) ∨ i ∈ q) → i ∈ h.opened
  surf_ok : ∀ i ∈ h.surfaced, i ∈ h.done ∨ i ∈ s.ongoing
  nodup : q.Nodup
  fresh : ∀ i ∈ q, ¬ (i ∈ h.surfaced ∨ i ∈ h.rejected)
  inc_ok : ∀ i ∈ q, i % 4 = 0 ∧ i < 2^62

theorem qinv_init : QInv {} {} [] := by
  constructor <;> simp [largestSurfaced]

theorem QInv.congr {s s' : State} {h : Hist} {q : List Nat} (hi : QInv s h q)
    (e1 : s'.sentClosing = s.sentClosing) (e2 : s'.largest = s.largest) (e3 : s'.ongoing = s.ongoing) :
    QInv s' h q :=
  ⟨by rw [e1]; exact hi.sent_eq, by rw [e2]; exact hi.largest_eq, by rw [e2]; exact hi.largest_ok, hi.opened_ok,
    hi.known, by rw [e3]; exact hi.surf_ok, hi.nodup, hi.fresh, hi.inc_ok⟩

/-- a history extension that touches none of the lists the invariant reads. -/
theorem QInv.hist {s : State} {h h' : Hist} {q : List Nat} (hi : QInv s h q)
    (e1 : h'.sent = h.sent) (e2 : h'.surfaced = h.surfaced) (e3 : h'.rejected = h.rejected)
    (e4 : h'.opened = h.opened) (e5 : h'.done = h.done) : QInv s h' q :=
  ⟨by rw [e1]; exact hi.sent_eq, by simp only [largestSurfaced, e2]; exact hi.largest_eq, hi.largest_ok,
    by rw [e2, e3, e4]; exact hi.opened_ok, by rw [e2, e3, e4]; exact hi.known, by rw [e2, e5]; exact hi.surf_ok,
    hi.nodup, by rw [e2, e3]; exact hi.fresh, hi.inc_ok⟩

/-- `shutdown`: what it shows (nothing, or one GOAWAY) passes the queue rules and keeps the invariant. -/
theorem shutdown_q (s : State) (h : Hist) (q : List Nat) (n : Nat) (hi : QInv s h q) :
    validQ h (shutdown s n).2 = true ∧ QInv (shutdown s n).1 (pushAll h (shutdown s n).2) q ∧
    (pushAll h (shutdown s n).2).opened = h.opened ∧ (pushAll h (shutdown s n).2).call = h.call ∧
    (∃ g, (shutdown s n).1.sentClosing = some g ∧ g ≤ shutdownId s.largest n) ∧
    (shutdown s n).1.ongoing = s.ongoing ∧ (shutdown s n).1.incoming = s.incoming := by
  by_cases hk : keepsPrevious s.sentClosing (shutdownId s.largest n) = true
  · have e : shutdown s n = (s, []) := by simp [shutdown, hk]
    rw [e]
    refine ⟨by simp [validQ], by simpa [pushAll] using hi, rfl, rfl, ?_, rfl, rfl⟩
    cases hs : s.sentClosing with
    | none => simp [keepsPrevious, hs] at hk
    | some g => exact ⟨g, rfl, by simpa [keepsPrevious, hs] using hk⟩
  · have e : shutdown s n = ({ s with sentClosing := some (shutdownId s.largest n), closing := true },
        [.goaway (shutdownId s.largest n)]) := by simp [shutdown, hk]
    rw [e]
    refine ⟨by simp [validQ, okQueue], ?_, rfl, rfl, ⟨_, rfl, Nat.le_refl _⟩, rfl, rfl⟩
    exact ⟨by simp [pushAll, Hist.push], by simpa [pushAll, Hist.push, largestSurfaced] using hi.largest_eq,
      hi.largest_ok, by simpa [pushAll, Hist.push] using hi.opened_ok, by simpa [pushAll, Hist.push] using hi.known,
      by simpa [pushAll, Hist.push] using hi.surf_ok, hi.nodup, by simpa [pushAll, Hist.push] using hi.fresh, hi.inc_ok⟩

theorem shutdown_ok_largest (s : State) (n : Nat) : (shutdown s n).1.largest = s.largest := by
  simp only [shutdown]; split <;> rfl

theorem acceptNone_q (s : State) (h : Hist) (hi : QInv s h []) (ho : s.ongoing = []) :
    validQ h (acceptNone s).2 = true ∧ QInv (acceptNone s).1 (pushAll h (acceptNone s).2) [] ∧
    (acceptNone s).1.incoming = s.incoming ∧ (pushAll h (acceptNone s).2).opened = h.opened := by
  obtain ⟨h1, h2, h3, _, _, h6, h7⟩ := shutdown_q s h [] 0 hi
  unfold acceptNone
  refine ⟨?_, ?_, h7, by rw [pushAll_append]; simpa [pushAll, Hist.push] using h3⟩
  · rw [validQ_append, h1]
    simp only [validQ, okQueue, Bool.and_true, Bool.true_and, Bool.and_eq_true, List.all_eq_true]
    refine ⟨?_, ?_⟩
    · intro i hi'
      rw [disposed_iff]
      rcases h2.opened_ok i hi' with hd | hq
      · exact hd
      · cases hq
    · intro i hi'
      rcases h2.surf_ok i hi' with hd | hq
      · simpa using hd
      · rw [h6, ho] at hq; cases hq
  · rw [pushAll_append]
    simpa [pushAll, Hist.push] using h2

theorem acceptLoop_q (q : List Nat) : ∀ (refused : Bool) (s : State) (h : Hist), QInv s h q →
    validQ h (acceptLoop refused s q).2 = true ∧
    QInv (acceptLoop refused s q).1 (pushAll h (acceptLoop refused s q).2) (acceptLoop refused s q).1.incoming ∧
    (pushAll h (acceptLoop refused s q).2).opened = h.opened := by
  induction q with
  | nil =>
    intro refused s h hi
    have hi0 : QInv { s with incoming := [] } h [] := hi.congr rfl rfl rfl
    unfold acceptLoop
    by_cases hd : drained refused { s with incoming := [] } = true
    · simp only [hd, if_true]
      have ho : ({ s with incoming := [] } : State).ongoing = [] := by
        simp only [drained, Bool.and_eq_true, List.isEmpty_iff] at hd
        exact hd.2
      obtain ⟨h1, h2, h3, h4⟩ := acceptNone_q _ h hi0 ho
      refine ⟨h1, ?_, h4⟩
      rw [h3]; exact h2
    · simp only [hd]
      simp only [Bool.false_eq_true, if_false]
      exact ⟨by simp [validQ, okQueue], by simpa [pushAll, Hist.push] using hi0, by simp [pushAll, Hist.push]⟩
  | cons id rest ih =>
    intro refused s h hi
    have hfresh := hi.fresh id (by simp)
    have hnd : id ∉ rest ∧ rest.Nodup := by simpa using hi.nodup
    have hok : ∀ o, (o = Obs.surfaced id ∨ o = Obs.rejected id) → okQueue h o = true := by
      intro o ho
      have : disposed h id = false := (disposed_false_iff h id).mpr hfresh
      rcases ho with rfl | rfl <;> simp [okQueue, this]
    unfold acceptLoop
    by_cases hrj : rejects s.sentClosing id = true
    · simp only [hrj, if_true]
      have hi' : QInv s (h.push (.rejected id)) rest := by
        refine ⟨by simpa [Hist.push] using hi.sent_eq, by simpa [Hist.push, largestSurfaced] using hi.largest_eq,
          hi.largest_ok, ?_, ?_, by simpa [Hist.push] using hi.surf_ok, hnd.2, ?_,
          fun i hi' => hi.inc_ok i (List.mem_cons_of_mem _ hi')⟩
        · intro i hio
          simp only [Hist.push, List.mem_cons] at hio ⊢
          rcases hi.opened_ok i hio with (hd | hd) | hq
          · exact Or.inl (Or.inl hd)
          · exact Or.inl (Or.inr (Or.inr hd))
          · rcases List.mem_cons.mp hq with rfl | hq
            · exact Or.inl (Or.inr (Or.inl rfl))
            · exact Or.inr hq
        · intro i hio
          simp only [Hist.push, List.mem_cons] at hio ⊢
          apply hi.known
          rcases hio with (hd | rfl | hd) | hq
          · exact Or.inl (Or.inl hd)
          · exact Or.inr (by simp)
          · exact Or.inl (Or.inr hd)
          · exact Or.inr (List.mem_cons_of_mem _ hq)
        · intro i hir
          simp only [Hist.push, List.mem_cons]
          have := hi.fresh i (List.mem_cons_of_mem _ hir)
          rintro (hd | rfl | hd)
          · exact this (Or.inl hd)
          · exact hnd.1 hir
          · exact this (Or.inr hd)
      obtain ⟨h1, h2, h3⟩ := ih true s (h.push (.rejected id)) hi'
      exact ⟨by simp only [validQ, hok _ (Or.inr rfl), h1, Bool.and_self], by simpa [pushAll] using h2,
        by simpa [pushAll, Hist.push] using h3⟩
    · simp only [hrj]
      simp only [Bool.false_eq_true, if_false]
      refine ⟨by simp only [validQ, hok _ (Or.inl rfl), Bool.and_self], ?_, by simp [pushAll, Hist.push]⟩
      simp only [pushAll, List.foldl, Hist.push, surface]
      refine ⟨by simpa using hi.sent_eq, ?_, ?_, ?_, ?_, ?_, hnd.2, ?_,
        fun i hi' => hi.inc_ok i (List.mem_cons_of_mem _ hi')⟩
      · rw [largestSurfaced_cons, hi.largest_eq]
      · intro L hL
        simp only [Option.some.injEq] at hL
        subst hL
        have hid := hi.inc_ok id (by simp)
        cases hl' : s.largest with
        | none => simpa [maxOpt] using hid
        | some L0 =>
          have := hi.largest_ok L0 hl'
          simp only [maxOpt]
          rcases Nat.le_total L0 id with h' | h'
          · rw [Nat.max_eq_right h']; exact hid
          · rw [Nat.max_eq_left h']; exact this
      · intro i hio
        simp only [List.mem_cons]
        rcases hi.opened_ok i hio with (hd | hd) | hq
        · exact Or.inl (Or.inl (Or.inr hd))
        · exact Or.inl (Or.inr hd)
        · rcases List.mem_cons.mp hq with rfl | hq
          · exact Or.inl (Or.inl (Or.inl rfl))
          · exact Or.inr hq
      · intro i hio
        simp only [List.mem_cons] at hio
        apply hi.known
        rcases hio with ((rfl | hd) | hd) | hq
        · exact Or.inr (by simp)
        · exact Or.inl (Or.inl hd)
        · exact Or.inl (Or.inr hd)
        · exact Or.inr (List.mem_cons_of_mem _ hq)
      · intro i his
        simp only [List.mem_cons] at his ⊢
        rcases his with rfl | his
        · exact Or.inr (Or.inl rfl)
        · rcases hi.surf_ok i his with hd | ho
          · exact Or.inl hd
          · exact Or.inr (Or.inr ho)
      · intro i hir
        simp only [List.mem_cons]
        have := hi.fresh i (List.mem_cons_of_mem _ hir)
        rintro ((rfl | hd) | hd)
        · exact hnd.1 hir
        · exact this (Or.inl hd)
        · exact this (Or.inr hd)

/-- the events of a server history as the transport and a 64-bit caller produce them. -/
def QEv : Ev → Prop
  | .arrive id => id % 4 = 0 ∧ id < 2^62
  | .shutdown n => n < 2^64
  | _ => True

/-- the identifier `shutdown(n)` computes, closed form (proved in `H3.Props.C08.C08_shutdown_id` from
    `C16_streamid_add_saturates`; a hypothesis here so that this file stays below `Props`). -/
def IdForm : Prop := ∀ L n, L % 4 = 0 → L < 2^62 → n < 2^64 →
  shutdownId (some L) n = 4 * min (L / 4 + n + 1) (2^60 - 1) ∧ shutdownId none n = 4 * min n (2^60 - 1)

theorem shutdownId_le_bound (hf : IdForm) (s : State) (h : Hist) (n : Nat) (hn : n < 2^64)
    (he : largestSurfaced h = s.largest) (hl : ∀ L, s.largest = some L → L % 4 = 0 ∧ L < 2^62) :
    shutdownId s.largest n ≤ shutdownBound h n := by
  unfold shutdownBound
  rw [he]
  cases hL : s.largest with
  | none =>
    rw [(hf 0 n (by omega) (by omega) hn).2]
    simp only
    omega
  | some L =>
    obtain ⟨h4, hlt⟩ := hl L hL
    rw [(hf L n h4 hlt hn).1]
    simp only
    omega

private theorem other_step (s : State) (h : Hist) (os : List Obs) (s' : State) (hi : QInv s h s.incoming)
    (e0 : s'.incoming = s.incoming) (e1 : s'.sentClosing = s.sentClosing) (e2 : s'.largest = s.largest)
    (e3 : s'.ongoing = s.ongoing)
    (hos : ∀ o ∈ os, okQueue h o = true ∧ ∀ h' : Hist, h'.push o = h') :
    validQ h os = true ∧ QInv s' (pushAll h os) s'.incoming ∧ (pushAll h os).opened = h.opened := by
  have hp : pushAll h os = h := by
    induction os with
    | nil => rfl
    | cons o r ih =>
      simp only [pushAll, List.foldl]
      rw [(hos o (by simp)).2 h]
      exact ih (fun o' ho' => hos o' (List.mem_cons_of_mem _ ho'))
  have hv : validQ h os = true := by
    induction os with
    | nil => rfl
    | cons o r ih =>
      simp only [validQ, (hos o (by simp)).1, (hos o (by simp)).2 h, Bool.true_and]
      apply ih (fun o' ho' => hos o' (List.mem_cons_of_mem _ ho'))
      simp only [pushAll, List.foldl] at hp
      rw [(hos o (by simp)).2 h] at hp
      exact hp
  rw [hp, e0]
  exact ⟨hv, hi.congr e1 e2 e3, rfl⟩

/-- one step of a judged history. -/
theorem step_q (hf : IdForm) (s : State) (h : Hist) (e : Ev) (hi : QInv s h s.incoming) (he : QEv e)
    (hnew : ∀ id, e = .arrive id → id ∉ h.opened) :
    validQ h (judged e (step s e).2) = true ∧
    QInv (step s e).1 (pushAll h (judged e (step s e).2)) (step s e).1.incoming ∧
    (pushAll h (judged e (step s e).2)).opened =
      (match e with | .arrive id => id :: h.opened | _ => h.opened) := by
  cases e with
  | arrive id =>
    have hno := hnew id rfl
    have hni : id ∉ s.incoming := fun hm => hno (hi.known id (Or.inr hm))
    have hnd : ¬ (id ∈ h.surfaced ∨ id ∈ h.rejected) := fun hm => hno (hi.known id (Or.inl hm))
    simp only [step, judged, validQ, okQueue, pushAll, List.foldl, Hist.push, Bool.and_self, true_and, and_true]
    refine ⟨hi.sent_eq, by simpa [largestSurfaced] using hi.largest_eq, hi.largest_ok, ?_, ?_, hi.surf_ok, ?_, ?_, ?_⟩
    · intro i hio
      simp only [List.mem_cons, List.mem_append, List.not_mem_nil, or_false] at hio ⊢
      rcases hio with rfl | hio
      · exact Or.inr (Or.inr rfl)
      · rcases hi.opened_ok i hio with hd | hq
        · exact Or.inl hd
        · exact Or.inr (Or.inl hq)
    · intro i hio
      simp only [List.mem_cons, List.mem_append, List.not_mem_nil, or_false] at hio ⊢
      rcases hio with hd | hq | rfl
      · exact Or.inr (hi.known i (Or.inl hd))
      · exact Or.inr (hi.known i (Or.inr hq))
      · exact Or.inl rfl
    · rw [List.nodup_append]
      refine ⟨hi.nodup, by simp, ?_⟩
      intro a ha b hb
      simp only [List.mem_singleton] at hb
      subst hb
      intro hab; subst hab; exact hni ha
    · intro i hiq
      simp only [List.mem_append, List.mem_singleton] at hiq
      rcases hiq with hq | rfl
      · exact hi.fresh i hq
      · exact hnd
    · intro i hiq
      simp only [List.mem_append, List.mem_singleton] at hiq
      rcases hiq with hq | rfl
      · exact hi.inc_ok i hq
      · exact he
  | accept =>
    simp only [judged, step, accept]
    by_cases hfl : s.failed = true
    · simp only [hfl, if_true]
      exact other_step s h _ s hi rfl rfl rfl rfl (by intro o ho; simp at ho; subst ho; exact ⟨rfl, fun _ => rfl⟩)
    · simp only [hfl]
      simp only [Bool.false_eq_true, if_false]
      obtain ⟨e1, e2, e3, e4⟩ := procCtlServer_fields s.ctl s
      by_cases hf1 : (procCtlServer s s.ctl).failed = true
      · simp only [hf1, if_true]
        exact other_step s h _ _ hi e3 e1 e2 e4 (by intro o ho; simp at ho; subst ho; exact ⟨rfl, fun _ => rfl⟩)
      · simp only [hf1]
        simp only [Bool.false_eq_true, if_false]
        have hi1 : QInv (procCtlServer s s.ctl) h (procCtlServer s s.ctl).incoming := by
          rw [e3]; exact hi.congr e1 e2 e4
        exact acceptLoop_q _ false _ h hi1
  | shutdown n =>
    simp only [judged, step]
    by_cases hfl : s.failed = true
    · simp only [hfl, if_true]
      refine ⟨by simp [validQ, okQueue], ?_, by simp [pushAll, Hist.push]⟩
      simp only [pushAll, List.foldl, Hist.push]
      exact hi.hist rfl rfl rfl rfl rfl
    · simp only [hfl]
      simp only [Bool.false_eq_true, if_false]
      have hi0 : QInv s (h.push (.shutdownCalled n)) s.incoming := hi.hist rfl rfl rfl rfl rfl
      obtain ⟨h1, h2, h3, h4, ⟨g, hg, hgle⟩, h6, h7⟩ := shutdown_q s (h.push (.shutdownCalled n)) s.incoming n hi0
      have hb := shutdownId_le_bound hf s (pushAll (h.push (.shutdownCalled n)) (shutdown s n).2) n he
        (by rw [h2.largest_eq]; exact (shutdown_ok_largest s n)) hi.largest_ok
      refine ⟨?_, ?_, ?_⟩
      · simp only [validQ, okQueue, Bool.true_and]
        rw [validQ_append, h1]
        simp only [validQ, okQueue, lastSent, Bool.and_true, Bool.true_and]
        rw [h2.sent_eq, hg, h4]
        exact decide_eq_true (Nat.le_trans hgle hb)
      · simp only [pushAll, List.foldl]
        have := h2
        rw [← h7] at this
        have e : List.foldl Hist.push (h.push (.shutdownCalled n)) ((shutdown s n).2 ++ [Obs.shutdownOk]) =
            pushAll (h.push (.shutdownCalled n)) (shutdown s n).2 := by
          rw [List.foldl_append]; rfl
        rw [e]; exact this
      · simp only [pushAll, List.foldl]
        rw [List.foldl_append]
        simpa [pushAll, Hist.push] using h3
  | complete id =>
    simp only [step, judged, validQ, okQueue, pushAll, List.foldl, Hist.push, Bool.and_self, true_and, and_true]
    refine ⟨hi.sent_eq, by simpa [largestSurfaced] using hi.largest_eq, hi.largest_ok, hi.opened_ok, hi.known, ?_,
      hi.nodup, hi.fresh, hi.inc_ok⟩
    intro i his
    simp only [List.mem_cons, List.mem_filter, bne_iff_ne, ne_eq]
    by_cases hid : i = id
    · exact Or.inl (Or.inl hid)
    · rcases hi.surf_ok i his with hd | ho
      · exact Or.inl (Or.inr hd)
      · exact Or.inr ⟨ho, hid⟩
  | recvGoaway id =>
    exact other_step s h _ _ hi rfl rfl rfl rfl (by intro o ho; simp [step, judged] at ho)
  | pollClose =>
    obtain ⟨e1, e2, e3, _⟩ := procCtlClient_fields s.ctl s
    have e4 := procCtlClient_ongoing s.ctl s
    simp only [judged, step, pollClose]
    by_cases hfl : s.failed = true
    · simp only [hfl, if_true]
      exact other_step s h _ s hi rfl rfl rfl rfl (by intro o ho; simp at ho; subst ho; exact ⟨rfl, fun _ => rfl⟩)
    · simp only [hfl]
      simp only [Bool.false_eq_true, if_false]
      by_cases hf1 : (procCtlClient s s.ctl).failed = true
      · simp only [hf1, if_true]
        exact other_step s h _ _ hi e3 e1 e2 e4 (by intro o ho; simp at ho; subst ho; exact ⟨rfl, fun _ => rfl⟩)
      · simp only [hf1]
        simp only [Bool.false_eq_true, if_false]
        exact other_step s h _ _ hi e3 e1 e2 e4 (by intro o ho; simp at ho; subst ho; exact ⟨rfl, fun _ => rfl⟩)
  | sendCall =>
    simp only [judged, step, sendCall]
    by_cases hc : s.closing = true
    · simp only [hc, if_true]
      exact other_step s h _ s hi rfl rfl rfl rfl (by intro o ho; simp at ho; subst ho; exact ⟨rfl, fun _ => rfl⟩)
    · simp only [hc]
      simp only [Bool.false_eq_true, if_false]
      exact other_step s h _ _ hi rfl rfl rfl rfl (by intro o ho; simp at ho)
  | sendOpened =>
    simp only [judged, step, sendOpened]
    by_cases hp : s.parked = 0
    · simp only [hp, if_true]
      exact other_step s h _ s hi rfl rfl rfl rfl (by intro o ho; simp at ho)
    · simp only [hp, if_false]
      by_cases hc : s.closing = true
      · simp only [hc, if_true]
        exact other_step s h _ _ hi rfl rfl rfl rfl
          (by intro o ho; simp at ho; rcases ho with rfl | rfl <;> exact ⟨rfl, fun _ => rfl⟩)
      · simp only [hc]
        simp only [Bool.false_eq_true, if_false]
        exact other_step s h _ _ hi rfl rfl rfl rfl (by intro o ho; simp at ho; subst ho; exact ⟨rfl, fun _ => rfl⟩)
  | resolve id =>
    simp only [judged, step]
    by_cases hc : s.ongoing.contains id = true
    · simp only [hc, if_true]
      exact other_step s h _ s hi rfl rfl rfl rfl (by intro o ho; simp at ho; subst ho; exact ⟨rfl, fun _ => rfl⟩)
    · simp only [hc]
      simp only [Bool.false_eq_true, if_false]
      exact other_step s h _ s hi rfl rfl rfl rfl (by intro o ho; simp at ho)

/-- the request streams a history lets arrive, in order. -/
def arrivalsOf : List Ev → List Nat
  | [] => []
  | .arrive id :: r => id :: arrivalsOf r
  | _ :: r => arrivalsOf r

/-- **whole histories**: every judged history of the model passes the queue rules. -/
theorem run_q (hf : IdForm) (evs : List Ev) : ∀ (s : State) (h : Hist), QInv s h s.incoming →
    (∀ e ∈ evs, QEv e) → (arrivalsOf evs).Nodup → (∀ id ∈ arrivalsOf evs, id ∉ h.opened) →
    validQ h (runJ s evs) = true := by
  induction evs with
  | nil => intro s h _ _ _ _; rfl
  | cons e es ih =>
    intro s h hi he hnd hnew
    have hnew1 : ∀ id, e = .arrive id → id ∉ h.opened := by
      intro id hid; subst hid; exact hnew id (by simp [arrivalsOf])
    obtain ⟨a1, a2, a3⟩ := step_q hf s h e hi (he e (by simp)) hnew1
    simp only [runJ]
    rw [validQ_append, a1, Bool.true_and]
    apply ih _ _ a2 (fun e' he' => he e' (List.mem_cons_of_mem _ he'))
    · cases e <;> simp_all [arrivalsOf]
    · intro id hid
      rw [a3]
      cases e with
      | arrive id0 =>
        simp only [arrivalsOf, List.nodup_cons] at hnd
        simp only [List.mem_cons, not_or]
        exact ⟨fun hc => hnd.1 (hc ▸ hid), hnew id (by simp [arrivalsOf, hid])⟩
      | _ => exact hnew id (by simpa [arrivalsOf] using hid)

end H3.Lemmas.GoawayQueue
