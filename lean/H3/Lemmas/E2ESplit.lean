import H3.Model.Split
/-! `split()` on a request stream (`H3.E2E.Handle`, `Model/Split.lean`): the receive calls made on
    the receive half answer what they would have answered on the whole stream, the send calls made
    on the send half write what they would have written on the whole stream — wherever the split
    falls, however the two tasks are interleaved.

    The facts about `Whole.split` everything rests on (`split_rx`, `split_maxSize`, `split_tx`) say
    that the receive half is handed the receive state — buffered chunks, end-of-stream flag, decoder
    memo, `remaining_data`, remembered trailers, size limit — and the send half the send side; they
    hold by unfolding the field-by-field definition of `Whole.split`, and fail for a `split` that
    forgets one of the fields. -/
namespace H3.E2E
open H3.SendSide
open H3.ReqRecv (Role Hdr HClass Res Env St FSt Trace fsSrc fsFuel pollHead pollRecvData pollRecvTrailers)

/-! ### what `split()` hands to whom -/

theorem Whole.split_rx (w : Whole) : w.split.2.rx = w.rx := rfl
theorem Whole.split_maxSize (w : Whole) : w.split.2.maxSize = w.maxSize := rfl
theorem Whole.split_tx (w : Whole) : w.split.1.tx = w.tx := rfl

theorem Handle.split_rx (h : Handle) : h.split.rx = h.rx := by cases h <;> rfl
theorem Handle.split_maxSize (h : Handle) : h.split.maxSize = h.maxSize := by cases h <;> rfl
theorem Handle.split_tx (h : Handle) : h.split.tx = h.tx := by cases h <;> rfl

/-! ### the two machines act on their own part of a handle -/

theorem Handle.recvPoll_ans (HL : Nat → Hdr) (c : RCall) (h : Handle) :
    (h.recvPoll HL c).1 = (c.poll (HL h.maxSize) h.rx).1 := by cases h <;> rfl
theorem Handle.recvPoll_rx (HL : Nat → Hdr) (c : RCall) (h : Handle) :
    (h.recvPoll HL c).2.rx = (c.poll (HL h.maxSize) h.rx).2 := by cases h <;> rfl
theorem Handle.recvPoll_maxSize (HL : Nat → Hdr) (c : RCall) (h : Handle) :
    (h.recvPoll HL c).2.maxSize = h.maxSize := by cases h <;> rfl
theorem Handle.recvPoll_tx (HL : Nat → Hdr) (c : RCall) (h : Handle) :
    (h.recvPoll HL c).2.tx = h.tx := by cases h <;> rfl

theorem Handle.sendOp_rx (op : SOp) (h : Handle) : (h.sendOp op).rx = h.rx := by cases h <;> rfl
theorem Handle.sendOp_maxSize (op : SOp) (h : Handle) : (h.sendOp op).maxSize = h.maxSize := by
  cases h <;> rfl
theorem Handle.sendOp_tx (op : SOp) (h : Handle) : (h.sendOp op).tx = op.apply h.tx := by cases h <;> rfl

/-- what a receive task and a send task can tell apart of two handles -/
structure Same (h h' : Handle) : Prop where
  rx : h.rx = h'.rx
  maxSize : h.maxSize = h'.maxSize
  tx : h.tx = h'.tx

theorem Same.rfl' (h : Handle) : Same h h := ⟨rfl, rfl, rfl⟩

/-- `split()` changes nothing either task can observe -/
theorem same_split (h : Handle) : Same h.split h := ⟨h.split_rx, h.split_maxSize, h.split_tx⟩

/-! ### any interleaving of the two tasks and a `split()` -/

/-- **Projection.**  Whatever the interleaving of receive polls, send steps (calls and transport
    polls) and `split()`s: the receive polls are answered, and leave the receive machine, as if they
    had been made alone on the stream as it was at the start; the send side is what the send steps
    alone make of it. -/
theorem Handle.run_projects (HL : Nat → Hdr) : ∀ (acts : List Act) (h : Handle),
    (Handle.run HL h acts).1 = (pollsRun (HL h.maxSize) h.rx (acts.filterMap Act.recv?)).1 ∧
    (Handle.run HL h acts).2.rx = (pollsRun (HL h.maxSize) h.rx (acts.filterMap Act.recv?)).2 ∧
    (Handle.run HL h acts).2.maxSize = h.maxSize ∧
    (Handle.run HL h acts).2.tx = runS h.tx (acts.filterMap Act.send?) := by
  intro acts
  induction acts with
  | nil => intro h; exact ⟨rfl, rfl, rfl, rfl⟩
  | cons a r ih =>
    intro h
    cases a with
    | recv c =>
      obtain ⟨h1, h2, h3, h4⟩ := ih (h.recvPoll HL c).2
      rw [Handle.recvPoll_rx, Handle.recvPoll_maxSize] at h1 h2
      rw [Handle.recvPoll_maxSize] at h3
      rw [Handle.recvPoll_tx] at h4
      simp only [Handle.run, Handle.act, Act.recv?, Act.send?, List.filterMap_cons, pollsRun, Option.toList,
        List.singleton_append]
      exact ⟨by rw [h1, Handle.recvPoll_ans], h2, h3, h4⟩
    | send op =>
      obtain ⟨h1, h2, h3, h4⟩ := ih (h.sendOp op)
      rw [Handle.sendOp_rx, Handle.sendOp_maxSize] at h1 h2
      rw [Handle.sendOp_maxSize] at h3
      rw [Handle.sendOp_tx] at h4
      simp only [Handle.run, Handle.act, Act.recv?, Act.send?, List.filterMap_cons, Option.toList,
        List.nil_append]
      exact ⟨h1, h2, h3, by rw [h4]; rfl⟩
    | split =>
      obtain ⟨h1, h2, h3, h4⟩ := ih h.split
      rw [Handle.split_rx, Handle.split_maxSize] at h1 h2
      rw [Handle.split_maxSize] at h3
      rw [Handle.split_tx] at h4
      simp only [Handle.run, Handle.act, Act.recv?, Act.send?, List.filterMap_cons, Option.toList,
        List.nil_append]
      exact ⟨h1, h2, h3, h4⟩

/-- a step of the task that owns the send side and a poll of the task that owns the receive side
    commute: same answer, same state of the receive machine, same state of the send machine —
    before the split (one object) as after it (two objects) -/
theorem send_recv_commute (HL : Nat → Hdr) (h : Handle) (op : SOp) (c : RCall) :
    ((h.sendOp op).recvPoll HL c).1 = (h.recvPoll HL c).1 ∧
    Same ((h.sendOp op).recvPoll HL c).2 ((h.recvPoll HL c).2.sendOp op) := by
  refine ⟨?_, ?_, ?_, ?_⟩
  · rw [Handle.recvPoll_ans, Handle.recvPoll_ans, Handle.sendOp_rx, Handle.sendOp_maxSize]
  · rw [Handle.recvPoll_rx, Handle.sendOp_rx, Handle.sendOp_rx, Handle.recvPoll_rx, Handle.sendOp_maxSize]
  · rw [Handle.recvPoll_maxSize, Handle.sendOp_maxSize, Handle.sendOp_maxSize, Handle.recvPoll_maxSize]
  · rw [Handle.recvPoll_tx, Handle.sendOp_tx, Handle.sendOp_tx, Handle.recvPoll_tx]

/-- `split()` commutes with a receive poll and with a send step -/
theorem split_recv_commute (HL : Nat → Hdr) (h : Handle) (c : RCall) :
    (h.split.recvPoll HL c).1 = (h.recvPoll HL c).1 ∧
    Same (h.split.recvPoll HL c).2 (h.recvPoll HL c).2.split := by
  refine ⟨?_, ?_, ?_, ?_⟩
  · rw [Handle.recvPoll_ans, Handle.recvPoll_ans, Handle.split_rx, Handle.split_maxSize]
  · rw [Handle.recvPoll_rx, Handle.split_rx, Handle.split_rx, Handle.recvPoll_rx, Handle.split_maxSize]
  · rw [Handle.recvPoll_maxSize, Handle.split_maxSize, Handle.split_maxSize, Handle.recvPoll_maxSize]
  · rw [Handle.recvPoll_tx, Handle.split_tx, Handle.split_tx, Handle.recvPoll_tx]

theorem split_send_commute (h : Handle) (op : SOp) : Same (h.split.sendOp op) (h.sendOp op).split := by
  refine ⟨?_, ?_, ?_⟩
  · rw [Handle.sendOp_rx, Handle.split_rx, Handle.split_rx, Handle.sendOp_rx]
  · rw [Handle.sendOp_maxSize, Handle.split_maxSize, Handle.split_maxSize, Handle.sendOp_maxSize]
  · rw [Handle.sendOp_tx, Handle.split_tx, Handle.split_tx, Handle.sendOp_tx]

/-! ### the documented pattern, split between any two calls -/

theorem Handle.await_sim (HL : Nat → Hdr) (call : RCall) : ∀ (fuel : Nat) (h : Handle),
    (Handle.await HL call fuel h).1 = (H3.E2E.await (call.poll (HL h.maxSize)) fuel h.rx).1 ∧
    (Handle.await HL call fuel h).2.rx = (H3.E2E.await (call.poll (HL h.maxSize)) fuel h.rx).2 ∧
    (Handle.await HL call fuel h).2.maxSize = h.maxSize ∧
    (Handle.await HL call fuel h).2.tx = h.tx := by
  intro fuel
  induction fuel with
  | zero => intro h; exact ⟨rfl, rfl, rfl, rfl⟩
  | succ fuel ih =>
    intro h
    rw [Handle.await, H3.E2E.await]
    simp only [Handle.recvPoll_ans, Handle.recvPoll_rx]
    by_cases hc : (call.poll (HL h.maxSize) h.rx).1 = Res.pending ∧ (call.poll (HL h.maxSize) h.rx).2.src.2 ≠ []
    · rw [if_pos hc, if_pos hc]
      obtain ⟨a, b, c, d⟩ := ih (h.recvPoll HL call).2
      rw [Handle.recvPoll_rx, Handle.recvPoll_maxSize] at a b
      rw [Handle.recvPoll_maxSize] at c
      rw [Handle.recvPoll_tx] at d
      exact ⟨a, b, c, d⟩
    · rw [if_neg hc, if_neg hc]
      exact ⟨Handle.recvPoll_ans HL call h, Handle.recvPoll_rx HL call h, Handle.recvPoll_maxSize HL call h,
        Handle.recvPoll_tx HL call h⟩

theorem Handle.awaitCall_sim (HL : Nat → Hdr) (call : RCall) (h : Handle) :
    (h.awaitCall HL call).1 = (H3.E2E.awaitCall (call.poll (HL h.maxSize)) h.rx).1 ∧
    (h.awaitCall HL call).2.rx = (H3.E2E.awaitCall (call.poll (HL h.maxSize)) h.rx).2 ∧
    (h.awaitCall HL call).2.maxSize = h.maxSize ∧ (h.awaitCall HL call).2.tx = h.tx :=
  Handle.await_sim HL call _ h

theorem tick_same (x : Option Nat × Handle) : Same (tick x).2 x.2 := by
  obtain ⟨k, h⟩ := x
  cases k with
  | none => exact Same.rfl' h
  | some n =>
    cases n with
    | zero => exact same_split h
    | succ n => exact Same.rfl' h

theorem recvBodyH_sim (HL : Nat → Hdr) : ∀ (fuel : Nat) (x : Option Nat × Handle),
    (recvBodyH HL fuel x).1 = (recvBody fuel x.2.rx).1 ∧
    (recvBodyH HL fuel x).2.2.rx = (recvBody fuel x.2.rx).2 ∧
    (recvBodyH HL fuel x).2.2.maxSize = x.2.maxSize ∧
    (recvBodyH HL fuel x).2.2.tx = x.2.tx := by
  intro fuel
  induction fuel with
  | zero => intro x; exact ⟨rfl, rfl, rfl, rfl⟩
  | succ fuel ih =>
    intro x
    have hs := tick_same x
    obtain ⟨a, b, c, d⟩ := Handle.awaitCall_sim HL .data (tick x).2
    rw [hs.rx, hs.maxSize] at a b
    rw [hs.maxSize] at c
    rw [hs.tx] at d
    have hrd : awaitCall (RCall.data.poll (HL x.2.maxSize)) x.2.rx = recvData x.2.rx := rfl
    rw [hrd] at a b
    rw [recvBodyH, recvBody]
    simp only
    rw [a]
    cases hres : (recvData x.2.rx).1 with
    | data dd =>
      simp only
      obtain ⟨e, f, g, i⟩ := ih ((tick x).1, ((tick x).2.awaitCall HL .data).2)
      simp only at e f g i
      rw [b] at e f
      exact ⟨by rw [e], f, by rw [g, c], by rw [i, d]⟩
    | _ => exact ⟨rfl, b, c, d⟩

theorem recvTailH_sim (HL : Nat → Hdr) (x : Option Nat × Handle) :
    (recvTailH HL x).1 = (recvTailFrom (HL x.2.maxSize) x.2.rx).1 ∧
    (recvTailH HL x).2.1 = (recvTailFrom (HL x.2.maxSize) x.2.rx).2.1 ∧
    (recvTailH HL x).2.2.rx = (recvTailFrom (HL x.2.maxSize) x.2.rx).2.2 ∧
    (recvTailH HL x).2.2.maxSize = x.2.maxSize ∧
    (recvTailH HL x).2.2.tx = x.2.tx := by
  obtain ⟨e, f, g, i⟩ := recvBodyH_sim HL (fsFuel x.2.rx.src) x
  unfold recvTailH recvTailFrom
  simp only
  generalize recvBodyH HL (fsFuel x.2.rx.src) x = q at e f g i ⊢
  generalize recvBody (fsFuel x.2.rx.src) x.2.rx = q' at e f ⊢
  rw [e]
  by_cases hl : q'.1.getLast? = some Res.end_
  · rw [if_pos hl, if_pos hl]
    have ht := tick_same q.2
    obtain ⟨a', b', c', d'⟩ := Handle.awaitCall_sim HL .trailers (tick q.2).2
    rw [ht.rx, ht.maxSize, f, g] at a' b'
    rw [ht.maxSize, g] at c'
    rw [ht.tx, i] at d'
    exact ⟨rfl, by simp only; rw [a']; rfl, b', c', d'⟩
  · rw [if_neg hl, if_neg hl]
    exact ⟨rfl, rfl, f, g, i⟩

theorem recvPatternFrom_fresh (role : Role) (H : Hdr) (script : List H3.FS.Ev) :
    (recvPatternFrom role H { src := ({}, script) }).1 = recvPattern role H script := by
  unfold recvPatternFrom recvPattern recvTailFrom recvTail
  simp only
  cases (awaitCall (pollHead role fsSrc H) { src := ({}, script) }).1 <;> simp only
  split <;> rfl

/-- **`split()` anywhere.**  The documented receive pattern on a handle that is split just before its
    `k`-th call — any `k`, or never; whole stream or halves to begin with — answers exactly what the
    pattern answers on the receive machine of that handle left alone, and leaves that machine in the
    same state; the send side is untouched. -/
theorem recvPatternH_sim (role : Role) (HL : Nat → Hdr) (k : Option Nat) (h : Handle) :
    (recvPatternH role HL k h).1 = (recvPatternFrom role (HL h.maxSize) h.rx).1 ∧
    (recvPatternH role HL k h).2.rx = (recvPatternFrom role (HL h.maxSize) h.rx).2 ∧
    (recvPatternH role HL k h).2.maxSize = h.maxSize ∧
    (recvPatternH role HL k h).2.tx = h.tx := by
  have hs := tick_same (k, h)
  obtain ⟨a, b, c, d⟩ := Handle.awaitCall_sim HL (.head role) (tick (k, h)).2
  rw [hs.rx, hs.maxSize] at a b
  rw [hs.maxSize] at c
  rw [hs.tx] at d
  simp only at a b c d
  have hhd : H3.E2E.awaitCall ((RCall.head role).poll (HL h.maxSize)) h.rx =
      H3.E2E.awaitCall (pollHead role fsSrc (HL h.maxSize)) h.rx := rfl
  rw [hhd] at a b
  unfold recvPatternH recvPatternFrom
  simp only
  generalize (tick (k, h)).2.awaitCall HL (.head role) = p at a b c d ⊢
  generalize H3.E2E.awaitCall (pollHead role fsSrc (HL h.maxSize)) h.rx = p' at a b ⊢
  rw [a]
  cases hres : p'.1 with
  | head blk =>
    simp only
    obtain ⟨e, f, g, i, j⟩ := recvTailH_sim HL ((tick (k, h)).1, p.2)
    simp only at e f g i j
    rw [b, c] at e f g
    rw [c] at i
    rw [d] at j
    generalize recvTailH HL ((tick (k, h)).1, p.2) = q at e f g i j ⊢
    generalize recvTailFrom (HL h.maxSize) p'.2 = q' at e f g ⊢
    exact ⟨by rw [e, f, g], g, i, j⟩
  | _ => simp only; exact ⟨by rw [b], b, c, d⟩

end H3.E2E
