import H3.Model.SendSide
import H3.Lemmas.SendSide
/-! The extended machine (`XState`, `xstep`): streams whose send side has ended where it was are
    frozen with the judgement they had; everything else is the invariant of `H3.SendSide`. -/
namespace H3.SendSide
open H3.Varint H3.WriteBuf H3.Gen.Consts H3.Gen.WriteBuf H3.Spec.Output H3.Spec.Framing

/-- a frozen stream: judged valid as it stands (a prefix of valid output, whole frames if it had
    been finished), and reset by h3 only if it is a request stream -/
def FInv (cx : Ctx) (e : Nat × Stream × Option Nat) : Prop :=
  checkStream cx e.1 e.2.1.log e.2.1.fin = none ∧ (e.2.2.isSome = true → e.1 % 4 = 0)

def XInv (x : XState) : Prop := Inv x.st ∧ ∀ e ∈ x.frozen, FInv (cxOf x.st) e

theorem freeze_inv (x : XState) (sid : Nat) (code : Option Nat) (h : XInv x)
    (hc : code.isSome = true → sid % 4 = 0) : XInv (freeze x sid code) := by
  obtain ⟨hi, hf⟩ := h
  refine ⟨?_, ?_⟩
  · intro e he
    simp only [freeze] at he
    exact hi e (List.mem_filter.mp he).1
  · intro e he
    simp only [freeze, List.mem_append, List.mem_map] at he
    rcases he with he | ⟨e0, he0, rfl⟩
    · exact hf e he
    · obtain ⟨hm, hs⟩ := List.mem_filter.mp he0
      have hv := sinv_valid _ _ _ (hi e0 hm)
      refine ⟨hv, ?_⟩
      intro hsome
      have : e0.1 = sid := by simpa using hs
      rw [this]
      exact hc hsome

theorem resetCode_inv (x : XState) (sid code : Nat) (h : XInv x) (hs : sid % 4 = 0) :
    XInv (resetCode x sid code) := by
  obtain ⟨hi, hf⟩ := h
  refine ⟨hi, ?_⟩
  intro e he
  simp only [resetCode, List.mem_map] at he
  obtain ⟨e0, he0, rfl⟩ := he
  have h0 := hf e0 he0
  split
  · rename_i hc
    simp only [Bool.and_eq_true, beq_iff_eq] at hc
    refine ⟨h0.1, fun _ => ?_⟩
    show e0.1 % 4 = 0
    rw [hc.1]; exact hs
  · exact h0

theorem xstep_cx (x : XState) (s : XStep) : cxOf (xstep x s).st = cxOf x.st := by
  cases s with
  | api s =>
    simp only [xstep]
    split
    · rfl
    · exact step_cx _ _
  | sendRequestVia h sid fs =>
    simp only [xstep]
    split
    · rfl
    · exact step_cx _ _
  | cloneSender h => rfl
  | stopStream sid code =>
    simp only [xstep]
    split <;> rfl
  | peerStop sid code => rfl
  | abandon sid => rfl
  | stopSending sid code => rfl
  | peerReset sid code => rfl
  | split sid => rfl

theorem xstep_inv (x : XState) (s : XStep) (h : XInv x) : XInv (xstep x s) := by
  cases s with
  | api s =>
    simp only [xstep]
    split
    · exact h
    · refine ⟨step_inv _ _ h.1, ?_⟩
      intro e he
      have := h.2 e he
      simp only [step_cx]
      exact this
  | sendRequestVia hd sid fs =>
    simp only [xstep]
    split
    · exact h
    · have hi : Inv { x.st with connGrease := (handleFlags x).getD hd false } := h.1
      refine ⟨step_inv _ _ hi, ?_⟩
      intro e he
      have := h.2 e he
      simp only [step_cx]
      exact this
  | cloneSender hd => exact h
  | stopStream sid code =>
    simp only [xstep]
    split
    · rename_i hs
      exact resetCode_inv _ sid code (freeze_inv x sid (some code) h (fun _ => hs)) hs
    · exact h
  | peerStop sid code => exact freeze_inv x sid none h (fun hc => by cases hc)
  | abandon sid => exact freeze_inv x sid none h (fun hc => by cases hc)
  | stopSending sid code => exact h
  | peerReset sid code => exact h
  | split sid => exact h

theorem xrun_inv (x : XState) (steps : List XStep) (h : XInv x) : XInv (xrun x steps) := by
  induction steps generalizing x with
  | nil => exact h
  | cons s r ih => exact ih (xstep x s) (xstep_inv x s h)

theorem xrun_cx (x : XState) (steps : List XStep) : cxOf (xrun x steps).st = cxOf x.st := by
  induction steps generalizing x with
  | nil => rfl
  | cons s r ih =>
    have := ih (xstep x s)
    simp only [xrun, List.foldl_cons] at this ⊢
    rw [this, xstep_cx]

/-- a request stream with no write in flight holds a whole number of frames, finished or not -/
theorem sinv_idle_request_whole (cx : Ctx) (sid : Nat) (st : Stream) (h : SInv cx sid st)
    (hk : st.kind = .request) (hc : st.cur = none) : checkRequest st.log true = none := by
  obtain ⟨_, ⟨base, item, c, hlog, hcur, hleg⟩, _, _⟩ := h
  rw [hc] at hcur
  simp only [CurOk] at hcur
  subst hcur
  rw [hk] at hleg
  obtain ⟨hb, _⟩ := hleg
  rw [hlog]
  simp only [List.take_nil, List.append_nil, checkRequest_eq]
  have := hb [] true
  rw [List.append_nil] at this
  rw [this, walkTop_nil]

end H3.SendSide
