import H3.Lemmas.ReqLiftToks
set_option linter.unusedSimpArgs false
/-! The recogniser's input (`List K`) read directly off the token list of the reference automaton
    (`kindsOf`), and: the frame sequence `decompile items t` has exactly these kinds.  This is what
    makes the outcome of the documented pattern a function of the bytes where the frame-layer
    tokens are (FIN on a frame boundary, still-open streams). -/
namespace H3.ReqRecv
open H3.Frame
open H3.Spec.ReqSeq hiding Bytes

/-- the payload bytes directly behind a frame token -/
def leadBytes : List RefTok → Bytes
  | .byte b :: r => b :: leadBytes r
  | _ => []

/-- a frame token by meaning; `payload` = the byte tokens behind it -/
def refKind (f : Frame) (payload : Bytes) : K :=
  match f with
  | .data n => if payload.length < n then .Dpart payload else .D payload
  | .headers b => .H b
  | .pushPromise _ _ => .P
  -- not used: excluded by `NoRaw`
  | .webTransport _ => .U
  | _ => .X

def errKind : FrameErr → K
  | .unsupported _ => .R
  | .malformed => .M
  | .settings _ => .S

/-- the recogniser's input read off the reference automaton's tokens (frames of unknown type
    leave no token: the recogniser skips `U` anyway) -/
def kindsOf : List RefTok → List K
  | [] => []
  | .byte _ :: r => kindsOf r
  | .frame f :: r => refKind f (leadBytes r) :: kindsOf r
  | .errProto e :: r => errKind e :: kindsOf r

/-- the token a protocol-error ending adds -/
def protoToks : Term → List RefTok
  | .proto e => [.errProto e]
  | _ => []

theorem leadBytes_bytes_append (d : Bytes) (x : List RefTok) :
    leadBytes (d.map .byte ++ x) = d ++ leadBytes x := by
  induction d with
  | nil => rfl
  | cons b d ih => simp [leadBytes, ih]

theorem kindsOf_bytes_append (d : Bytes) (x : List RefTok) : kindsOf (d.map .byte ++ x) = kindsOf x := by
  induction d with
  | nil => rfl
  | cons b d ih => simpa [kindsOf] using ih

theorem leadBytes_items (t : Term) : ∀ items : List Item,
    leadBytes (itemToks items ++ protoToks t) = (leadPieces items).flatten := by
  intro items
  induction items with
  | nil => cases t <;> rfl
  | cons it r ih =>
    cases it with
    | frame f => rfl
    | piece d =>
      simp only [itemToks, leadPieces, List.flatten_cons, List.append_assoc]
      rw [leadBytes_bytes_append, ih]

theorem kind_frameTok (f : Frame) (ps : List Bytes) : kind (frameTok f ps) = refKind f ps.flatten := by
  cases f <;> rfl

theorem decompile_kinds (t : Term) : ∀ items : List Item,
    (decompile items t).1.map kind = kindsOf (itemToks items ++ protoToks t) := by
  intro items
  induction items with
  | nil =>
    cases t with
    | proto e => cases e <;> rfl
    | _ => rfl
  | cons it r ih =>
    cases it with
    | piece d =>
      simp only [decompile, itemToks, List.append_assoc]
      rw [kindsOf_bytes_append]
      exact ih
    | frame f =>
      simp only [decompile, itemToks, List.map_cons, List.cons_append, kindsOf]
      rw [kind_frameTok, leadBytes_items, ih]

/-! ### the positional header hypothesis read off the reference tokens -/

theorem hdrBlocks_refKind (f : Frame) (x y : Bytes) : hdrBlocks [refKind f x] = hdrBlocks [refKind f y] := by
  cases f with
  | data n => simp only [refKind]; split <;> split <;> rfl
  | _ => rfl

theorem hdrBlocks_cons (k : K) (r : List K) : hdrBlocks (k :: r) = hdrBlocks [k] ++ hdrBlocks r := by
  cases k <;> simp [hdrBlocks]

theorem hdrBlocks_kindsOf_append : ∀ a b : List RefTok,
    hdrBlocks (kindsOf (a ++ b)) = hdrBlocks (kindsOf a) ++ hdrBlocks (kindsOf b) := by
  intro a
  induction a with
  | nil => intro b; simp [kindsOf, hdrBlocks]
  | cons t r ih =>
    intro b
    cases t with
    | byte x => simpa [kindsOf] using ih b
    | frame f =>
      simp only [List.cons_append, kindsOf]
      rw [hdrBlocks_cons (refKind f (leadBytes (r ++ b))) (kindsOf (r ++ b)),
        hdrBlocks_cons (refKind f (leadBytes r)) (kindsOf r), ih b,
        hdrBlocks_refKind f (leadBytes (r ++ b)) (leadBytes r), List.append_assoc]
    | errProto e =>
      simp only [List.cons_append, kindsOf]
      rw [hdrBlocks_cons (errKind e) (kindsOf (r ++ b)), hdrBlocks_cons (errKind e) (kindsOf r), ih b,
        List.append_assoc]

theorem hdrBlocks_protoToks (t : Term) : hdrBlocks (kindsOf (protoToks t)) = [] := by
  cases t with
  | proto e => cases e <;> rfl
  | _ => rfl

/-- if the blocks found by the reference automaton in the wire bytes are acceptable in their
    positions, so are those of any frame sequence whose answers are a prefix of its tokens -/
theorem hdrsOk_of_ref (H : Hdr) {toks : List Tok} {all more : List RefTok} {t : Term} {ref : List RefTok}
    (hk : toks.map kind = kindsOf (all ++ protoToks t)) (hp : ref = all ++ more)
    (h : HdrsOkK H .head (kindsOf ref)) : HdrsOk H toks := by
  unfold HdrsOk
  rw [hdrsOkK_iff] at h ⊢
  rw [hk, hdrBlocks_kindsOf_append, hdrBlocks_protoToks, List.append_nil]
  rw [hp, hdrBlocks_kindsOf_append] at h
  exact blocksOk_prefix H _ _ _ h

/-- the ending `compile` reports is the given one, unless a refused frame ends the sequence -/
theorem compile_snd (e : Ending) : ∀ toks : List Tok,
    (compile toks e).2 = e.term ∨ ∃ err, (compile toks e).2 = .proto err := by
  intro toks
  induction toks with
  | nil => exact Or.inl rfl
  | cons tok r ih =>
    cases tok with
    | bad err => exact Or.inr ⟨err, rfl⟩
    | data n ps =>
      by_cases hlt : ps.flatten.length < n
      · rw [compile_data_part hlt]; exact Or.inl rfl
      · rw [compile_data_full hlt]; exact ih
    | _ => simpa [compile] using ih

theorem ending_of_term {e : Ending} {toks : List Tok} :
    ((compile toks e).2 = .fin → e = .fin) ∧ ((compile toks e).2 = .open_ → e = .open_) := by
  rcases compile_snd e toks with h | ⟨err, h⟩
  · rw [h]
    cases e <;> simp [Ending.term]
  · rw [h]
    exact ⟨fun hc => Term.noConfusion hc, fun hc => Term.noConfusion hc⟩

end H3.ReqRecv
