import H3.Lemmas.E2EWire
import H3.Lemmas.SendSide
/-! The sender of a message on one request stream: what the transport has been handed once every
    call has been awaited — for every acceptance script — and why steps that address other streams
    do not matter (the connection machine `H3.SendSide.step` projected to one stream). -/
namespace H3.E2E
open H3.Varint H3.WriteBuf H3.SendSide H3.Gen.WriteBuf

/-! ### one `WriteBuf` against an acceptance script -/

theorem poll_cur_none (s : Stream) (k : Nat) (h : s.cur = none) : s.poll k = s := by
  unfold Stream.poll; rw [h]

theorem polls_cur_none (script : List Nat) (s : Stream) (h : s.cur = none) :
    script.foldl Stream.poll s = s := by
  induction script with
  | nil => rfl
  | cons k r ih => simp only [List.foldl_cons, poll_cur_none s k h, ih]

/-- the transport polls of one call: the log grows by a prefix of the buffer's content; when the
    buffer has been drained it has grown by exactly the content, and `poll_finish` has followed if
    the call was `finish()` -/
theorem polls_spec (script : List Nat) : ∀ (s : Stream) (w : WB), s.cur = some w → w.WF → w.view ≠ [] →
    (script.foldl Stream.poll s).kind = s.kind ∧ (script.foldl Stream.poll s).grease = s.grease ∧
    (∃ c, (script.foldl Stream.poll s).log = s.log ++ w.view.take c) ∧
    ((script.foldl Stream.poll s).cur = none →
      (script.foldl Stream.poll s).log = s.log ++ w.view ∧
      (script.foldl Stream.poll s).fin = (s.fin || s.finAfter) ∧
      (script.foldl Stream.poll s).finAfter = false) := by
  induction script with
  | nil =>
    intro s w hc _ _
    refine ⟨rfl, rfl, ⟨0, by simp⟩, ?_⟩
    intro h; simp only [List.foldl_nil] at h; rw [hc] at h; cases h
  | cons k r ih =>
    intro s w hc hwf hne
    obtain ⟨o, w', hs, hwf', hov, _, _⟩ := step_spec w hwf k
    simp only [List.foldl_cons]
    by_cases hrem : w'.remaining = 0
    · -- this poll drains the buffer
      have hv0 : w'.view = [] := by
        apply List.eq_nil_of_length_eq_zero
        rw [← remaining_eq_view w' hwf']; exact hrem
      have ho : o = w.view := by rw [← hov, hv0]; simp
      have hp : s.poll k =
          { s with log := s.log ++ o, cur := none, fin := (s.fin || s.finAfter), finAfter := false } := by
        unfold Stream.poll; rw [hc]; simp only [hs]; rw [if_pos hrem]
      rw [hp, polls_cur_none r _ rfl]
      refine ⟨rfl, rfl, ⟨w.view.length, by simp [ho]⟩, ?_⟩
      intro _
      exact ⟨by simp [ho], rfl, rfl⟩
    · have hv1 : w'.view ≠ [] := by
        intro hv; apply hrem; rw [remaining_eq_view w' hwf', hv]; rfl
      have hp : s.poll k = { s with log := s.log ++ o, cur := some w' } := by
        unfold Stream.poll; rw [hc]; simp only [hs]; rw [if_neg hrem]
      rw [hp]
      obtain ⟨h1, h2, ⟨c, h3⟩, h4⟩ := ih { s with log := s.log ++ o, cur := some w' } w' rfl hwf' hv1
      refine ⟨h1, h2, ⟨o.length + c, ?_⟩, ?_⟩
      · rw [h3]
        simp only [List.append_assoc]
        rw [← hov, List.take_append]
        have e1 : List.take (o.length + c) o = o := List.take_of_length_le (by omega)
        have e2 : o.length + c - o.length = c := by omega
        simp [e1, e2]
      · intro hn
        obtain ⟨a, b, c'⟩ := h4 hn
        refine ⟨?_, b, c'⟩
        rw [a]
        simp only [List.append_assoc]
        rw [hov]

/-! ### one awaited call -/

theorem runS_polls (s : Stream) (script : List Nat) :
    runS s (script.map .poll) = script.foldl Stream.poll s := by
  induction script generalizing s with
  | nil => rfl
  | cons k r ih => simp only [List.map_cons, runS, List.foldl_cons, SOp.apply]; exact ih _

/-- the frames the message calls send -/
def Sendable : SFrame → Prop
  | .data p => p.length < 2^62
  | .headers p => p.length < 2^62
  | _ => False

theorem fromFrame_sendable (f : SFrame) (hf : Sendable f) :
    ∃ w, fromFrame f = some w ∧ w.WF ∧ w.view = frameBytes f ∧ w.view ≠ [] := by
  cases f with
  | data p =>
    have hb : Bounded (.data p) := hf
    have hs := encodeFrame_total _ hb
    cases he : encodeFrame (.data p) with
    | none => rw [he] at hs; cases hs
    | some hdr =>
      obtain ⟨_, hh⟩ := encodeFrame_data he
      have hfit : hdr.length ≤ WRITE_BUF_ENCODE_SIZE := by
        rw [hh]
        have := encode_length_le 0 (by decide)
        have := encode_length_le p.length hf
        simp only [List.length_append, WRITE_BUF_ENCODE_SIZE]; omega
      obtain ⟨w, hw⟩ : ∃ w, fromFrame (.data p) = some w := by
        unfold fromFrame; rw [he]; exact putOpt_new_some _ _ hfit
      obtain ⟨a, b, c⟩ := fromFrame_data hw
      refine ⟨w, hw, a, by rw [b, frameBytes_data p hf], ?_⟩
      rw [b]; exact wire_ne_nil 0 p (by decide)
  | headers p =>
    have hb : Bounded (.headers p) := hf
    have hs := encodeFrame_total _ hb
    cases he : encodeFrame (.headers p) with
    | none => rw [he] at hs; cases hs
    | some hdr =>
      obtain ⟨_, hh⟩ := encodeFrame_headers he
      have hfit : hdr.length ≤ WRITE_BUF_ENCODE_SIZE := by
        rw [hh]
        have := encode_length_le 1 (by decide)
        have := encode_length_le p.length hf
        simp only [List.length_append, WRITE_BUF_ENCODE_SIZE]; omega
      obtain ⟨w, hw⟩ : ∃ w, fromFrame (.headers p) = some w := by
        unfold fromFrame; rw [he]; exact putOpt_new_some _ _ hfit
      obtain ⟨a, b, c⟩ := fromFrame_headers hw
      refine ⟨w, hw, a, by rw [b, frameBytes_headers p hf], ?_⟩
      rw [b]; exact wire_ne_nil 1 p (by decide)
  | cancelPush _ | settings _ | pushPromise _ _ | goaway _ | maxPushId _ | webTransport _ | grease _ =>
    exact absurd hf (by simp [Sendable])

theorem frameOp_apply (f : SFrame) (hf : Sendable f) (s : Stream) :
    (frameOp f).apply s = onRequest (fun s => s.start (fromFrame f)) s := by
  cases f with
  | data p => rfl
  | headers p => rfl
  | cancelPush _ | settings _ | pushPromise _ _ | goaway _ | maxPushId _ | webTransport _ | grease _ =>
    exact absurd hf (by simp [Sendable])

/-- an idle request-stream handle between two calls -/
structure Idle (s : Stream) : Prop where
  kind : s.kind = .request
  idle : s.idle = true

/-- `send_data(buf).await` / `send_response(..).await` / `send_trailers(..).await` on an idle
    handle, any acceptance script under which the call completes -/
theorem callS_frame (s : Stream) (hs : Idle s) (f : SFrame) (hf : Sendable f) (script : List Nat)
    (hdone : (callS s (frameOp f, script)).cur = none) :
    (callS s (frameOp f, script)).log = s.log ++ frameBytes f ∧ Idle (callS s (frameOp f, script)) ∧
    (callS s (frameOp f, script)).grease = s.grease := by
  obtain ⟨w, hw, hwf, hv, hne⟩ := fromFrame_sendable f hf
  obtain ⟨hcn, hfa, hfn⟩ := idle_flags hs.idle
  have hstart : (frameOp f).apply s = { s with cur := some w } := by
    rw [frameOp_apply f hf, onRequest, if_pos ⟨hs.kind, hs.idle⟩]
    simp only [Stream.start, hw]
  unfold callS at hdone ⊢
  simp only at hdone ⊢
  rw [hstart, runS_polls] at hdone ⊢
  obtain ⟨h1, h2, _, h4⟩ := polls_spec script { s with cur := some w } w rfl hwf hne
  obtain ⟨a, b, c⟩ := h4 hdone
  refine ⟨by rw [a, hv], ⟨by rw [h1]; exact hs.kind, ?_⟩, h2⟩
  unfold Stream.idle
  rw [hdone, b, c]
  simp [hfa, hfn]

/-- `finish().await`: the grease frame first if this handle owes it, then `poll_finish` -/
theorem callS_finish (s : Stream) (hs : Idle s) (gN : Nat) (hg : gN < GREASE_RANGE_END)
    (script : List Nat) (hdone : (callS s (.finish gN, script)).cur = none) :
    (callS s (.finish gN, script)).log = s.log ++ greaseBytes (if s.grease then some gN else none) ∧
    (callS s (.finish gN, script)).fin = true := by
  obtain ⟨hcn, hfa, hfn⟩ := idle_flags hs.idle
  unfold callS at hdone ⊢
  simp only [SOp.apply, onRequest, if_pos (And.intro hs.kind hs.idle), finishStream] at hdone ⊢
  rw [runS_polls] at hdone ⊢
  by_cases hgr : s.grease = true
  · rw [if_pos hgr] at hdone ⊢
    have hlt := greaseId_lt gN hg
    have hb : Bounded (.grease (greaseId gN)) := hlt
    have hs' := encodeFrame_total _ hb
    cases he : encodeFrame (.grease (greaseId gN)) with
    | none => rw [he] at hs'; cases hs'
    | some hdr =>
      obtain ⟨_, hh⟩ := encodeFrame_grease he
      have hfit : hdr.length ≤ WRITE_BUF_ENCODE_SIZE := by
        rw [hh]
        have := encode_length_le (greaseId gN) hlt
        have := encode_length_le GREASE_FRAME_PAYLOAD.length (by decide)
        have hp : GREASE_FRAME_PAYLOAD.length = 6 := by decide
        simp only [H3.Spec.Output.wire, List.length_append, WRITE_BUF_ENCODE_SIZE]; omega
      obtain ⟨w, hw⟩ : ∃ w, fromFrame (.grease (greaseId gN)) = some w := by
        unfold fromFrame; rw [he]; exact putOpt_new_some _ _ hfit
      obtain ⟨hwf, hv, _⟩ := fromFrame_grease hw
      have hne : w.view ≠ [] := by rw [hv]; exact wire_ne_nil _ _ hlt
      simp only [greaseThenFin, hw] at hdone ⊢
      obtain ⟨_, _, _, h4⟩ := polls_spec script
        { s with cur := some w, finAfter := true, grease := false } w rfl hwf hne
      obtain ⟨a, b, _⟩ := h4 hdone
      refine ⟨?_, by rw [b]; simp⟩
      rw [a, hv, hgr]
      simp [greaseBytes, frameBytes_grease _ hlt, fwire]
  · have hgf : s.grease = false := by simpa using hgr
    rw [if_neg hgr] at hdone ⊢
    rw [polls_cur_none script _ (by simpa using hcn)]
    simp [hgf, greaseBytes]

/-! ### the calls of a message -/

theorem sendAll_cons (s : Stream) (c : SOp × List Nat) (r : List (SOp × List Nat)) :
    sendAll s (c :: r) = sendAll (callS s c) r := rfl

theorem sendAll_append (s : Stream) (a b : List (SOp × List Nat)) :
    sendAll s (a ++ b) = sendAll (sendAll s a) b := by
  simp [sendAll, List.foldl_append]

theorem awaited_append (a b : List (SOp × List Nat)) : ∀ s,
    Awaited s (a ++ b) ↔ Awaited s a ∧ Awaited (sendAll s a) b := by
  induction a with
  | nil => intro s; simp [Awaited, sendAll]
  | cons c r ih =>
    intro s
    simp only [List.cons_append, Awaited, ih, sendAll_cons, and_assoc]

theorem sendAll_frames (fs : List SFrame) (hfs : ∀ f ∈ fs, Sendable f) :
    ∀ (s : Stream) (scripts : List (List Nat)), Idle s → Awaited s (frameCalls fs scripts) →
    (sendAll s (frameCalls fs scripts)).log = s.log ++ wireOf fs ∧
    Idle (sendAll s (frameCalls fs scripts)) ∧ (sendAll s (frameCalls fs scripts)).grease = s.grease := by
  induction fs with
  | nil => intro s _ hs _; exact ⟨by simp [frameCalls, sendAll, wireOf], hs, rfl⟩
  | cons f r ih =>
    intro s scripts hs haw
    simp only [frameCalls, Awaited] at haw
    obtain ⟨hdone, hrest⟩ := haw
    obtain ⟨a, b, c⟩ := callS_frame s hs f (hfs f (by simp)) _ hdone
    obtain ⟨a', b', c'⟩ := ih (fun x hx => hfs x (by simp [hx])) _ scripts.tail b hrest
    simp only [frameCalls, sendAll_cons]
    refine ⟨?_, b', by rw [c', c]⟩
    rw [a', a, wireOf_cons, List.append_assoc]

theorem freshStream_idle (g : Bool) : Idle (freshStream g) := ⟨rfl, rfl⟩

/-- all calls of a message, awaited, under any acceptance scripts: the stream carries the frames of
    the message (then the grease frame if owed) and is finished -/
theorem sendAll_message (fs : List SFrame) (hfs : ∀ f ∈ fs, Sendable f) (g : Bool) (gN : Nat)
    (hg : gN < GREASE_RANGE_END) (scripts : List (List Nat))
    (haw : Awaited (freshStream g) (callsOf fs gN scripts)) :
    (sendAll (freshStream g) (callsOf fs gN scripts)).log =
      wireOf fs ++ greaseBytes (if g then some gN else none) ∧
    (sendAll (freshStream g) (callsOf fs gN scripts)).fin = true ∧
    (sendAll (freshStream g) (callsOf fs gN scripts)).cur = none := by
  unfold callsOf at haw ⊢
  rw [awaited_append] at haw
  obtain ⟨h1, h2⟩ := haw
  obtain ⟨a, b, c⟩ := sendAll_frames fs hfs (freshStream g) scripts (freshStream_idle g) h1
  simp only [Awaited, and_true] at h2
  rw [sendAll_append]
  obtain ⟨d, e⟩ := callS_finish _ b gN hg _ h2
  refine ⟨?_, e, h2⟩
  show (callS _ _).log = _
  rw [d, a, c]
  simp only [freshStream, mkStream, List.nil_append] <;> rfl

/-! ### the connection machine seen from one request stream -/

theorem getStream_update (ss : List (Nat × Stream)) (sid' sid : Nat) (f : Stream → Stream) :
    getStream (updateStream ss sid' f) sid =
      (getStream ss sid).map (fun s => if sid' = sid then f s else s) := by
  induction ss with
  | nil => rfl
  | cons e r ih =>
    obtain ⟨i, s⟩ := e
    unfold getStream updateStream at *
    simp only [List.map_cons, List.find?_cons]
    by_cases h1 : i = sid
    · subst h1
      by_cases h2 : i = sid'
      · subst h2; simp
      · have : ¬ sid' = i := fun e => h2 e.symm
        simp [h2, this]
    · have hb : (i == sid) = false := by simpa using h1
      by_cases h2 : i = sid'
      · subst h2; simp only [if_true, hb]; exact ih
      · simp only [if_neg h2, hb]; exact ih

theorem getStream_append (ss : List (Nat × Stream)) (e : Nat × Stream) (sid : Nat) (s : Stream)
    (h : getStream ss sid = some s) : getStream (ss ++ [e]) sid = some s := by
  unfold getStream at *
  rw [List.find?_append]
  cases hf : ss.find? (fun e => e.1 == sid) with
  | none => rw [hf] at h; cases h
  | some x => rw [hf] at h; simpa using h

/-- **Locality of a step of the connection machine.**  A step either addresses request stream
    `sid` — then it acts on that stream's record alone, as `proj` says — or it leaves the record
    untouched (whatever it does to other streams and to the connection's flags). -/
theorem getStream_step (st : State) (x : Step) (sid : Nat) (hsid : sid % 4 = 0) (s : Stream)
    (h : getStream st.streams sid = some s) :
    getStream (step st x).streams sid =
      some (match proj sid x with | some op => op.apply s | none => s) := by
  cases x with
  | poll s' k =>
    simp only [step, proj, getStream_update, h, Option.map_some]
    by_cases e : s' = sid <;> simp [e, SOp.apply]
  | sendRequest s' fs =>
    simp only [step, proj]
    split
    · exact getStream_append _ _ _ _ h
    · exact h
  | acceptRequest s' =>
    simp only [step, proj]
    split
    · exact getStream_append _ _ _ _ h
    · exact h
  | sendHeaders s' fs =>
    simp only [step, proj, getStream_update, h, Option.map_some]
    by_cases e : s' = sid <;> simp [e, SOp.apply]
  | sendData s' buf =>
    simp only [step, proj, getStream_update, h, Option.map_some]
    by_cases e : s' = sid <;> simp [e, SOp.apply]
  | finish s' gN =>
    simp only [step, proj, getStream_update, h, Option.map_some]
    by_cases e : s' = sid <;> simp [e, SOp.apply]
  | goaway id =>
    simp only [step, proj]
    split
    · simp only [getStream_update, h, Option.map_some]
      have : ¬ uniId st.server 0 = sid := by
        intro e
        have hm := uniId_mod st.server 0
        rw [e, hsid] at hm
        cases hsv : st.server <;> rw [hsv] at hm <;> simp at hm
      simp [this]
    · exact h
  | greaseStream s' gS gF =>
    simp only [step, proj]
    split
    · split
      · exact h
      · exact getStream_append _ _ _ _ h
    · exact h

/-- ... hence over a whole run: the record of stream `sid` is the result of the steps that address
    it, in their order — every other step of the interleaving is irrelevant to it -/
theorem getStream_run (steps : List Step) : ∀ (st : State) (sid : Nat) (s : Stream), sid % 4 = 0 →
    getStream st.streams sid = some s →
    getStream (run st steps).streams sid = some (runS s (steps.filterMap (proj sid))) := by
  induction steps with
  | nil => intro st sid s _ h; exact h
  | cons x r ih =>
    intro st sid s hsid h
    have h1 := getStream_step st x sid hsid s h
    simp only [run, List.foldl_cons] at ih ⊢
    rw [ih (step st x) sid _ hsid h1]
    cases hp : proj sid x with
    | none => simp [List.filterMap_cons, hp]
    | some op => simp [List.filterMap_cons, hp, runS]

end H3.E2E
