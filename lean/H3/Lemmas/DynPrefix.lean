import H3.Lemmas.DynBasic
import H3.Spec.Dyn
/-! `HeaderPrefix::{new,get}`: the Required Insert Count survives the modulo encoding whenever the
    decoder's insert count lies in the window RFC 9204 §4.5.1.1 assumes. -/
namespace H3.Dyn

theorem mod_window_unique {F r r' : Nat} (hmod : r' % F = r % F) (h1 : r' < r + F) (h2 : r < r' + F) : r' = r := by
  rcases Nat.le_total r r' with h | h
  · have h0 : (r' - r) % F = 0 := Nat.sub_mod_eq_zero_of_mod_eq hmod
    have hlt : r' - r < F := by omega
    rw [Nat.mod_eq_of_lt hlt] at h0; omega
  · have h0 : (r - r') % F = 0 := Nat.sub_mod_eq_zero_of_mod_eq hmod.symm
    have hlt : r - r' < F := by omega
    rw [Nat.mod_eq_of_lt hlt] at h0; omega

/-- the decoder's reconstruction of the Required Insert Count -/
theorem prefixRequired_window (r total' mx : Nat) (hM : 1 ≤ mx / 32) (hr : 0 < r)
    (hw1 : r ≤ total' + mx / 32) (hw2 : total' < r + mx / 32) :
    prefixRequired (r % (2 * (mx / 32)) + 1) total' mx = .ok r := by
  generalize hMdef : mx / 32 = M at *
  have hF : 0 < 2 * M := by omega
  have hic : r % (2 * M) < 2 * M := Nat.mod_lt _ hF
  have hw : total' % (2 * M) < 2 * M := Nat.mod_lt _ hF
  have hdt := Nat.div_add_mod total' (2 * M)
  unfold prefixRequired
  rw [if_neg (by omega)]
  simp only [Nat.add_sub_cancel, hMdef]
  rw [if_neg (by omega)]
  -- in each branch the candidate is congruent to r and lies within the window around total'
  have hmodT : (total' - total' % (2 * M)) % (2 * M) = 0 := by
    have : total' - total' % (2 * M) = 2 * M * (total' / (2 * M)) := by omega
    rw [this]; exact Nat.mul_mod_right _ _
  by_cases hc1 : total' % (2 * M) ≥ r % (2 * M) + M
  · rw [if_pos hc1]
    congr 1
    apply mod_window_unique (F := 2 * M)
    · have : r % (2 * M) + 2 * M + total' - total' % (2 * M) = (total' - total' % (2 * M)) + (r % (2 * M) + 2 * M) := by omega
      rw [this, Nat.add_mod, hmodT, Nat.zero_add, Nat.mod_mod, Nat.add_mod_right, Nat.mod_mod]
    · omega
    · omega
  · rw [if_neg hc1]
    by_cases hc2 : total' % (2 * M) + M < r % (2 * M)
    · rw [if_pos hc2]
      -- no underflow: r itself is the witness that the window contains a congruent value
      have hge : total' % (2 * M) + 2 * M ≤ r % (2 * M) + total' := by
        apply Nat.le_of_not_lt; intro hlt
        -- then total' < 2M and r ≡ ic with r ≤ total' + M < ic, impossible since r ≥ ic
        have : r % (2 * M) ≤ r := Nat.mod_le _ _
        have hq : total' / (2 * M) = 0 ∨ 2 * M ≤ 2 * M * (total' / (2 * M)) := by
          rcases Nat.eq_zero_or_pos (total' / (2 * M)) with h | h
          · exact Or.inl h
          · exact Or.inr (Nat.le_mul_of_pos_right _ h)
        rcases hq with hq | hq
        · rw [hq] at hdt; omega
        · omega
      rw [csub_ok hge]
      congr 1
      apply mod_window_unique (F := 2 * M)
      · have : r % (2 * M) + total' - (total' % (2 * M) + 2 * M) + 2 * M = (total' - total' % (2 * M)) + r % (2 * M) := by omega
        have h2 : (r % (2 * M) + total' - (total' % (2 * M) + 2 * M)) % (2 * M) =
            (r % (2 * M) + total' - (total' % (2 * M) + 2 * M) + 2 * M) % (2 * M) := by
          rw [Nat.add_mod_right]
        rw [h2, this, Nat.add_mod, hmodT, Nat.zero_add, Nat.mod_mod, Nat.mod_mod]
      · omega
      · omega
    · rw [if_neg hc2]
      congr 1
      apply mod_window_unique (F := 2 * M)
      · have : r % (2 * M) + total' - total' % (2 * M) = (total' - total' % (2 * M)) + r % (2 * M) := by omega
        rw [this, Nat.add_mod, hmodT, Nat.zero_add, Nat.mod_mod, Nat.mod_mod]
      · omega
      · omega

/-- `HeaderPrefix::get (HeaderPrefix::new r base total max) total' max = (r, base)` for every decoder
    insert count `total'` with `total' − max/32 < r ≤ total' + max/32` -/
theorem prefix_roundtrip (r base total mx total' : Nat) (hr : 0 < r) (hrt : r ≤ total) (hM : 1 ≤ mx / 32)
    (hw1 : r ≤ total' + mx / 32) (hw2 : total' < r + mx / 32) :
    ∃ p, prefixNew r base total mx = .ok p ∧ prefixGet p total' mx = .ok (r, base) := by
  have hmx : mx ≠ 0 := by intro e; subst e; simp at hM
  unfold prefixNew
  rw [if_neg hmx, if_neg (by omega), if_neg (by omega)]
  simp only
  rw [if_neg (by omega)]
  refine ⟨_, rfl, ?_⟩
  unfold prefixGet
  rw [if_neg hmx]
  simp only [prefixRequired_window r total' mx hM hr hw1 hw2, Res.bind_ok]
  rw [if_neg (by omega)]
  by_cases hb : r > base
  · simp only [hb, if_true]
    rw [if_neg (by simp), if_neg (by omega)]
    congr 2; omega
  · simp only [hb, if_false]
    rw [if_pos (by simp)]
    congr 2; omega

theorem prefix_zero (base total mx total' : Nat) :
    prefixNew 0 base total mx = .ok ⟨0, false, 0⟩ ∧ prefixGet ⟨0, false, 0⟩ total' mx = .ok (0, 0) := by
  constructor
  · unfold prefixNew; split <;> simp
  · unfold prefixGet prefixRequired; split <;> simp

/-- the code's reconstruction agrees with the RFC's pseudo-code (§4.5.1.1) wherever the latter
    does not say "Error" -/
theorem prefixRequired_matches_rfc (eic total' mx r : Nat) (hM : 1 ≤ mx / 32)
    (h : H3.Spec.Dyn.decodeRIC eic (mx / 32) total' = some r) (hr : 0 < r) :
    prefixRequired eic total' mx = .ok r := by
  generalize hMdef : mx / 32 = M at *
  unfold H3.Spec.Dyn.decodeRIC at h
  simp only at h
  have hF : 0 < 2 * M := by omega
  split at h
  · simp at h; omega
  · rename_i he0
    split at h
    · simp at h
    · rename_i hle
      have hdm := Nat.div_add_mod (total' + M) (2 * M)
      have hml := Nat.mod_lt (total' + M) hF
      -- r ≡ eic - 1 (mod 2M) and r lies in the window
      have hmw : ((total' + M) / (2 * M) * (2 * M)) % (2 * M) = 0 := Nat.mul_mod_left _ _
      have hcomm : (total' + M) / (2 * M) * (2 * M) = 2 * M * ((total' + M) / (2 * M)) := Nat.mul_comm _ _
      have hwin : r ≤ total' + M ∧ total' < r + M ∧ r % (2 * M) = (eic - 1) % (2 * M) := by
        split at h
        · rename_i hgt
          split at h
          · simp at h
          · split at h
            · simp at h
            · simp at h; subst h
              refine ⟨by omega, by omega, ?_⟩
              have : (total' + M) / (2 * M) * (2 * M) + eic - 1 - 2 * M + 2 * M =
                  (total' + M) / (2 * M) * (2 * M) + (eic - 1) := by omega
              have h2 : ((total' + M) / (2 * M) * (2 * M) + eic - 1 - 2 * M) % (2 * M) =
                  ((total' + M) / (2 * M) * (2 * M) + eic - 1 - 2 * M + 2 * M) % (2 * M) := by
                rw [Nat.add_mod_right]
              rw [h2, this, Nat.add_mod, hmw, Nat.zero_add, Nat.mod_mod]
        · split at h
          · simp at h
          · simp at h; subst h
            refine ⟨by omega, by omega, ?_⟩
            have : (total' + M) / (2 * M) * (2 * M) + eic - 1 = (total' + M) / (2 * M) * (2 * M) + (eic - 1) := by omega
            rw [this, Nat.add_mod, hmw, Nat.zero_add, Nat.mod_mod]
      have heic : eic = r % (2 * M) + 1 := by
        have : (eic - 1) % (2 * M) = eic - 1 := Nat.mod_eq_of_lt (by omega)
        omega
      rw [heic, ← hMdef]
      exact prefixRequired_window r total' mx (by omega) hr (by omega) (by omega)

end H3.Dyn
