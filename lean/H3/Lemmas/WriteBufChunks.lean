import H3.Model.WriteBuf
import H3.Lemmas.WriteBuf
/-! `WriteBuf<B>` over a payload that is not contiguous (`WBC`, `segs*`): every transport step of
    the segmented buffer IS a step of the flat buffer (the same bytes, another acceptance size), so
    everything proved about `WB` for every script carries over. -/
namespace H3.WriteBuf
open H3.Varint H3.Gen.Consts H3.Gen.WriteBuf

theorem segsRemaining_eq (cs : List Bytes) : segsRemaining cs = cs.flatten.length := by
  simp [segsRemaining, List.length_flatten]

/-- the translator's reading of the source: the DATA length field and `WriteBuf::remaining` take
    `remaining()` of the payload, not the length of its first chunk (these two fail to build when
    `tools/extract.py` reads `b.chunk().len()` there) -/
theorem dataLen_source (cs : List Bytes) : segsLenBy DATA_LEN_SOURCE cs = segsRemaining cs := rfl
theorem remaining_source (cs : List Bytes) :
    segsLenBy WRITEBUF_REMAINING_SOURCE cs = segsRemaining cs := rfl

theorem segsChunk_prefix (cs : List Bytes) : ∃ t, cs.flatten = segsChunk cs ++ t := by
  induction cs with
  | nil => exact ⟨[], rfl⟩
  | cons c r ih =>
    unfold segsChunk
    by_cases h : 0 < c.length
    · rw [if_pos h]; exact ⟨r.flatten, by simp⟩
    · rw [if_neg h]
      have : c = [] := List.eq_nil_of_length_eq_zero (by omega)
      obtain ⟨t, ht⟩ := ih
      exact ⟨t, by rw [this]; simpa using ht⟩

theorem segsChunk_ne_nil (cs : List Bytes) (h : cs.flatten ≠ []) : segsChunk cs ≠ [] := by
  induction cs with
  | nil => exact absurd rfl h
  | cons c r ih =>
    unfold segsChunk
    by_cases hc : 0 < c.length
    · rw [if_pos hc]; exact List.length_pos_iff.mp hc
    · rw [if_neg hc]
      have : c = [] := List.eq_nil_of_length_eq_zero (by omega)
      apply ih
      rw [this] at h
      simpa using h

/-- `advance(cnt)` with `cnt ≤ remaining()`: no panic, `cnt` bytes of the flattened content go -/
theorem segsAdvance_spec (cs : List Bytes) (cnt : Nat) (h : cnt ≤ cs.flatten.length) :
    ∃ cs', segsAdvance cs cnt = some cs' ∧ cs'.flatten = cs.flatten.drop cnt := by
  induction cs generalizing cnt with
  | nil =>
    have : cnt = 0 := by simpa using h
    subst this
    exact ⟨[], rfl, rfl⟩
  | cons c r ih =>
    unfold segsAdvance
    by_cases hc : cnt ≤ c.length
    · rw [if_pos hc]
      refine ⟨_, rfl, ?_⟩
      simp only [List.flatten_cons]
      rw [List.drop_append_of_le_length hc]
    · rw [if_neg hc]
      have hle : cnt - c.length ≤ r.flatten.length := by
        simp only [List.flatten_cons, List.length_append] at h; omega
      obtain ⟨cs', h1, h2⟩ := ih (cnt - c.length) hle
      refine ⟨cs', h1, ?_⟩
      rw [h2]
      simp only [List.flatten_cons]
      have hcl : c.length ≤ cnt := by omega
      rw [List.drop_append, List.drop_eq_nil_of_le hcl]
      simp

/-- beyond the end the last segment's `advance` panics -/
theorem segsAdvance_none (cs : List Bytes) (cnt : Nat) (h : cs.flatten.length < cnt) :
    segsAdvance cs cnt = none := by
  induction cs generalizing cnt with
  | nil =>
    cases cnt with
    | zero => simp at h
    | succ n => rfl
  | cons c r ih =>
    simp only [List.flatten_cons, List.length_append] at h
    unfold segsAdvance
    rw [if_neg (by omega)]
    exact ih _ (by omega)

theorem flat_pay (w : WBC) : w.flat.pay = w.pay.flatten := by
  unfold WB.pay WBC.flat WBC.pay
  cases w.payload <;> rfl

theorem flat_remaining (w : WBC) : w.flat.remaining = w.remaining := by
  unfold WB.remaining WBC.remaining
  rw [flat_pay, remaining_source, segsRemaining_eq]
  rfl

/-- the segmented buffer's chunk is a prefix of the flat buffer's -/
theorem chunk_prefix_flat (w : WBC) : ∃ t, w.flat.chunk = w.chunk ++ t := by
  unfold WB.chunk WBC.chunk
  by_cases h : w.len - w.pos > 0
  · have h' : w.flat.len - w.flat.pos > 0 := h
    rw [if_pos h, if_pos h']; exact ⟨[], by simp [WBC.flat]⟩
  · have h' : ¬ w.flat.len - w.flat.pos > 0 := h
    rw [if_neg h, if_neg h', flat_pay]
    exact segsChunk_prefix _

theorem chunkC_ne_nil (w : WBC) (hwf : w.flat.WF) (h : w.flat.view ≠ []) : w.chunk ≠ [] := by
  have hf := chunk_ne_nil w.flat hwf h
  unfold WB.chunk at hf
  unfold WBC.chunk
  by_cases hh : w.len - w.pos > 0
  · have h' : w.flat.len - w.flat.pos > 0 := hh
    rw [if_pos h'] at hf
    rw [if_pos hh]; exact hf
  · have h' : ¬ w.flat.len - w.flat.pos > 0 := hh
    rw [if_neg h', flat_pay] at hf
    rw [if_neg hh]
    exact segsChunk_ne_nil _ hf

/-- `advance` commutes with flattening (within `remaining()`) -/
theorem advance_flat (w : WBC) (cnt : Nat) (hc : cnt ≤ w.remaining) :
    ∃ w', w.advance cnt = some w' ∧ w.flat.advance cnt = some w'.flat := by
  unfold WBC.remaining at hc
  rw [remaining_source] at hc
  unfold WBC.advance WB.advance
  cases hp : w.payload with
  | none =>
    refine ⟨_, rfl, ?_⟩
    simp [WBC.flat, hp]
  | some p =>
    simp only [WBC.pay, hp, Option.getD_some] at hc
    rw [segsRemaining_eq] at hc
    have hle : cnt - (if w.len - w.pos > 0 then min cnt (w.len - w.pos) else 0) ≤ p.flatten.length := by
      split <;> omega
    obtain ⟨p', h1, h2⟩ := segsAdvance_spec p _ hle
    simp only [h1, Option.map_some]
    refine ⟨_, rfl, ?_⟩
    simp only [WBC.flat, hp, Option.map_some]
    rw [if_pos hle, h2]

/-- One transport step of the segmented buffer is a step of the flat buffer that accepts exactly
    the bytes taken; it takes at least one byte whenever the transport accepts any and something is
    left. -/
theorem stepC_sim (w : WBC) (hwf : w.flat.WF) (k : Nat) :
    ∃ o w', w.step k = some (o, w') ∧ w.flat.step o.length = some (o, w'.flat) ∧
      w'.flat.WF ∧ o ++ w'.flat.view = w.flat.view ∧ o.length = min k w.chunk.length ∧
      (0 < k → w.flat.view ≠ [] → o ≠ []) := by
  obtain ⟨t, ht⟩ := chunk_prefix_flat w
  obtain ⟨t2, ht2⟩ := chunk_prefix w.flat hwf
  have hlen : w.chunk.length ≤ w.flat.view.length := by
    rw [ht2, ht]; simp
  have hle : min k w.chunk.length ≤ w.remaining := by
    rw [← flat_remaining, remaining_eq_view w.flat hwf]; omega
  obtain ⟨w', ha, hfa⟩ := advance_flat w _ hle
  have hol : (w.chunk.take (min k w.chunk.length)).length = min k w.chunk.length := by
    simp
  have hfs : w.flat.step (w.chunk.take (min k w.chunk.length)).length
      = some (w.chunk.take (min k w.chunk.length), w'.flat) := by
    unfold WB.step
    rw [hol]
    have hm : min (min k w.chunk.length) w.flat.chunk.length = min k w.chunk.length := by
      rw [ht]; simp
    simp only [hm, hfa, Option.map_some]
    rw [ht, List.take_append_of_le_length (by omega)]
  obtain ⟨o2, w2, hs2, hwf2, hv2, _, _⟩ := step_spec w.flat hwf (w.chunk.take (min k w.chunk.length)).length
  rw [hfs] at hs2
  cases hs2
  refine ⟨_, w', ?_, hfs, hwf2, hv2, hol, ?_⟩
  · unfold WBC.step; simp only [ha, Option.map_some]
  · intro hk hne hnil
    have hc := chunkC_ne_nil w hwf hne
    have hpos : 0 < w.chunk.length := List.length_pos_iff.mpr hc
    have : (w.chunk.take (min k w.chunk.length)).length = 0 := by rw [hnil]; rfl
    rw [hol] at this
    omega

/-- the `poll_ready` loop: a run of the segmented buffer under script `ks` is a run of the flat
    buffer under a script `ks'` of the same length (the sizes actually taken) -/
theorem drainC_sim (w : WBC) (hwf : w.flat.WF) (ks : List Nat) :
    ∃ o w' ks', w.drain ks = some (o, w') ∧ ks'.length = ks.length ∧
      w.flat.drain ks' = some (o, w'.flat) ∧ w'.flat.WF ∧ o ++ w'.flat.view = w.flat.view := by
  induction ks generalizing w with
  | nil => exact ⟨[], w, [], rfl, rfl, rfl, hwf, rfl⟩
  | cons k ks ih =>
    obtain ⟨o, w1, hs, hfs, hwf1, hv1, _, _⟩ := stepC_sim w hwf k
    obtain ⟨o', w2, ks', hd, hl, hfd, hwf2, hv2⟩ := ih w1 hwf1
    refine ⟨o ++ o', w2, o.length :: ks', ?_, by simp [hl], ?_, hwf2, ?_⟩
    · simp only [WBC.drain, hs, hd]
    · simp only [WB.drain, hfs, hfd]
    · rw [List.append_assoc, hv2, hv1]

/-- a script with as many accepting polls as there are bytes empties the segmented buffer too -/
theorem drainC_complete (w : WBC) (hwf : w.flat.WF) (ks : List Nat)
    (h : w.flat.view.length ≤ (ks.filter (0 < ·)).length) :
    ∃ o w', w.drain ks = some (o, w') ∧ w'.flat.view = [] ∧ o = w.flat.view := by
  induction ks generalizing w with
  | nil =>
    have : w.flat.view = [] := by
      apply List.eq_nil_of_length_eq_zero; simpa using h
    exact ⟨[], w, rfl, this, this.symm⟩
  | cons k ks ih =>
    obtain ⟨o, w1, hs, _, hwf1, hv1, _, hprog⟩ := stepC_sim w hwf k
    have hlen : w.flat.view.length = o.length + w1.flat.view.length := by rw [← hv1]; simp
    have h1 : w1.flat.view.length ≤ (ks.filter (0 < ·)).length := by
      by_cases hk : 0 < k
      · simp only [List.filter_cons, hk, decide_true, if_true, List.length_cons] at h
        by_cases hne : w.flat.view = []
        · rw [hne] at hlen; simp at hlen; omega
        · have := hprog hk hne
          have : 0 < o.length := List.length_pos_iff.mpr this
          omega
      · simp only [List.filter_cons, hk, decide_false] at h
        simp at h
        omega
    obtain ⟨o', w2, hd, hv2, ho'⟩ := ih w1 hwf1 h1
    refine ⟨o ++ o', w2, ?_, hv2, ?_⟩
    · simp only [WBC.drain, hs, hd]
    · rw [ho', hv1]

theorem put_payload_irrelevant (w : WB) (bs : Bytes) (p : Option Bytes) :
    ({ w with payload := p } : WB).put bs = (w.put bs).map (fun w' => { w' with payload := p }) := by
  unfold WB.put
  by_cases h : w.len + bs.length ≤ WRITE_BUF_ENCODE_SIZE
  · rw [if_pos h, if_pos h]; rfl
  · rw [if_neg h, if_neg h]; rfl

theorem dataHeaderC_eq (segs : List Bytes) : dataHeaderC segs = encodeFrame (.data segs.flatten) := by
  unfold dataHeaderC encodeFrame
  rw [dataLen_source, segsRemaining_eq]

/-- the conversion sees only the flattened payload -/
theorem fromDataC_flat (segs : List Bytes) :
    (fromDataC segs).map WBC.flat = fromFrame (.data segs.flatten) := by
  unfold fromDataC fromFrame WB.putOpt
  rw [dataHeaderC_eq]
  cases encodeFrame (.data segs.flatten) with
  | none => rfl
  | some hb =>
    simp only [Option.bind_some, framePayload, Option.map_map]
    have := put_payload_irrelevant (WB.new none) hb (some segs.flatten)
    have e : ({ WB.new none with payload := some segs.flatten } : WB) = WB.new (some segs.flatten) := rfl
    rw [e] at this
    rw [this]
    cases (WB.new none).put hb <;> rfl

theorem fromPairDataC_flat (ty : Nat) (segs : List Bytes) :
    (fromPairDataC ty segs).map WBC.flat = fromPair ty (.data segs.flatten) := by
  unfold fromPairDataC fromPair WB.putOpt
  rw [dataHeaderC_eq]
  cases writeVar ty with
  | none => rfl
  | some tb =>
    simp only [Option.bind_some, framePayload]
    have h1 := put_payload_irrelevant (WB.new none) tb (some segs.flatten)
    have e : ({ WB.new none with payload := some segs.flatten } : WB) = WB.new (some segs.flatten) := rfl
    rw [e] at h1
    rw [h1]
    cases hw : (WB.new none).put tb with
    | none => rfl
    | some w1 =>
      simp only [Option.map_some, Option.bind_some]
      cases encodeFrame (.data segs.flatten) with
      | none => rfl
      | some hb =>
        simp only [Option.bind_some]
        rw [put_payload_irrelevant w1 hb (some segs.flatten)]
        cases w1.put hb <;> rfl

end H3.WriteBuf
