import H3.Lemmas.E2ECompose
import H3.Lemmas.E2ESplit
/-! `recvPattern` as a sequence of single polls: the link between the awaited pattern (every call
    polled again after `Pending`) and the schedules of `Conn.run` (`E2EIso`), whose steps are single
    polls of single calls.

    `patternCalls role H st`: the polls the documented pattern makes from state `st`, in order — the
    head call as often as `await` polls it, then `recv_data` for every awaited call of the body loop,
    then `recv_trailers` after a clean end.  `pollsRun_pattern`: polling exactly these, one by one
    (`pollsRun`), gives — the `Pending` answers dropped — the answers of `recvPattern`, and ends in
    the same state.  With `conn_run_projects` this holds inside ANY schedule of any number of
    streams (`Props/C01.lean`). -/
namespace H3.E2E
open H3.FS H3.ReqRecv H3.Headers

/-- how often `await` polls its call -/
def awaitCount (poll : St FSt → Res × St FSt) : Nat → St FSt → Nat
  | 0, _ => 0
  | fuel+1, st =>
    if (poll st).1 = .pending ∧ (poll st).2.src.2 ≠ [] then awaitCount poll fuel (poll st).2 + 1 else 1

/-- what is left of a list of answers when the `Pending` ones are dropped -/
def settled (rs : List Res) : List Res := rs.filter (fun r => r != .pending)

theorem settled_append (a b : List Res) : settled (a ++ b) = settled a ++ settled b := by
  simp [settled]

theorem settled_replicate_pending (n : Nat) : settled (List.replicate n Res.pending) = [] := by
  induction n with
  | zero => rfl
  | succ n ih => simp [List.replicate_succ, settled] at ih ⊢

theorem mem_settled_or_pending {rs : List Res} {a : Res} (h : a ∈ rs) : a = .pending ∨ a ∈ settled rs := by
  by_cases hp : a = .pending
  · exact Or.inl hp
  · exact Or.inr (List.mem_filter.mpr ⟨h, by simpa using hp⟩)

theorem pollsRun_append (H : Hdr) : ∀ (a b : List RCall) (st : St FSt),
    (pollsRun H st (a ++ b)).1 = (pollsRun H st a).1 ++ (pollsRun H (pollsRun H st a).2 b).1 ∧
    (pollsRun H st (a ++ b)).2 = (pollsRun H (pollsRun H st a).2 b).2 := by
  intro a
  induction a with
  | nil => intro b st; exact ⟨rfl, rfl⟩
  | cons c a ih =>
    intro b st
    obtain ⟨h1, h2⟩ := ih b (c.poll H st).2
    simp only [List.cons_append, pollsRun]
    exact ⟨by rw [h1], h2⟩

/-- one awaited call as single polls: `Pending` as often as it was polled in vain, then its answer -/
theorem pollsRun_await (H : Hdr) (c : RCall) : ∀ (fuel : Nat) (st : St FSt),
    (await (c.poll H) fuel st).1 ≠ .invalid →
    (∃ n, (pollsRun H st (List.replicate (awaitCount (c.poll H) fuel st) c)).1 =
      List.replicate n .pending ++ [(await (c.poll H) fuel st).1]) ∧
    (pollsRun H st (List.replicate (awaitCount (c.poll H) fuel st) c)).2 = (await (c.poll H) fuel st).2 := by
  intro fuel
  induction fuel with
  | zero => intro st h; exact absurd rfl h
  | succ fuel ih =>
    intro st h
    rw [await] at h ⊢
    rw [awaitCount]
    by_cases hc : (c.poll H st).1 = Res.pending ∧ (c.poll H st).2.src.2 ≠ []
    · simp only [if_pos hc] at h ⊢
      obtain ⟨⟨n, h1⟩, h2⟩ := ih (c.poll H st).2 h
      rw [List.replicate_succ]
      simp only [pollsRun]
      refine ⟨⟨n + 1, ?_⟩, h2⟩
      rw [h1, hc.1, List.replicate_succ]
      rfl
    · simp only [if_neg hc] at h ⊢
      exact ⟨⟨0, rfl⟩, rfl⟩

/-- the single polls of the body loop (`recvBody`) -/
def bodyCalls : Nat → St FSt → List RCall
  | 0, _ => []
  | fuel+1, st =>
    match (recvData st).1 with
    | .data _ =>
      List.replicate (awaitCount (fun x => pollRecvData fsSrc (fsFuel x.src) x) (fsFuel st.src) st) .data ++
        bodyCalls fuel (recvData st).2
    | _ => List.replicate (awaitCount (fun x => pollRecvData fsSrc (fsFuel x.src) x) (fsFuel st.src) st) .data

/-- the single polls of the documented pattern from `st` -/
def patternCalls (role : Role) (H : Hdr) (st : St FSt) : List RCall :=
  List.replicate (awaitCount (pollHead role fsSrc H) (fsFuel st.src) st) (.head role) ++
  match (awaitCall (pollHead role fsSrc H) st).1 with
  | .head _ =>
    bodyCalls (fsFuel (awaitCall (pollHead role fsSrc H) st).2.src) (awaitCall (pollHead role fsSrc H) st).2 ++
    (if (recvBody (fsFuel (awaitCall (pollHead role fsSrc H) st).2.src)
          (awaitCall (pollHead role fsSrc H) st).2).1.getLast? = some .end_ then
      List.replicate
        (awaitCount (pollRecvTrailers fsSrc H)
          (fsFuel (recvBody (fsFuel (awaitCall (pollHead role fsSrc H) st).2.src)
            (awaitCall (pollHead role fsSrc H) st).2).2.src)
          (recvBody (fsFuel (awaitCall (pollHead role fsSrc H) st).2.src)
            (awaitCall (pollHead role fsSrc H) st).2).2) .trailers
     else [])
  | _ => []

/-- the answers of a trace in call order -/
def traceAnswers (t : Trace) : List Res := t.head :: (t.body ++ t.trailers.toList)

theorem settled_pending_answer (n : Nat) (r : Res) :
    settled (List.replicate n Res.pending ++ [r]) = settled [r] := by
  rw [settled_append, settled_replicate_pending, List.nil_append]

theorem pollsRun_body (H : Hdr) : ∀ (fuel : Nat) (st : St FSt),
    Res.invalid ∉ (recvBody fuel st).1 →
    settled (pollsRun H st (bodyCalls fuel st)).1 = settled (recvBody fuel st).1 ∧
    (pollsRun H st (bodyCalls fuel st)).2 = (recvBody fuel st).2 := by
  intro fuel
  induction fuel with
  | zero => intro st h; exact absurd (by simp [recvBody]) h
  | succ fuel ih =>
    intro st h
    have hd : recvData st = await (RCall.data.poll H) (fsFuel st.src) st := rfl
    rw [recvBody] at h ⊢
    rw [bodyCalls]
    simp only at h ⊢
    cases hres : (recvData st).1 with
    | data d =>
      rw [hres] at h
      simp only at h ⊢
      have hne : (await (RCall.data.poll H) (fsFuel st.src) st).1 ≠ .invalid := by
        rw [← hd, hres]; intro hc; cases hc
      obtain ⟨⟨n, a1⟩, a2⟩ := pollsRun_await H .data (fsFuel st.src) st hne
      have hcount : awaitCount (fun x => pollRecvData fsSrc (fsFuel x.src) x) (fsFuel st.src) st =
          awaitCount (RCall.data.poll H) (fsFuel st.src) st := rfl
      rw [hcount]
      obtain ⟨p1, p2⟩ := pollsRun_append H
        (List.replicate (awaitCount (RCall.data.poll H) (fsFuel st.src) st) .data) (bodyCalls fuel (recvData st).2) st
      rw [p1, p2, a2, ← hd]
      obtain ⟨i1, i2⟩ := ih (recvData st).2 (fun hm => h (List.mem_cons_of_mem _ hm))
      refine ⟨?_, i2⟩
      rw [settled_append, i1, a1, settled_pending_answer, ← hd, hres]
      rfl
    | _ =>
      rw [hres] at h
      simp only at h ⊢
      have hne : (await (RCall.data.poll H) (fsFuel st.src) st).1 ≠ .invalid := by
        rw [← hd]
        intro hc
        rw [hc] at hres
        exact h (List.mem_singleton.mpr hres)
      obtain ⟨⟨n, a1⟩, a2⟩ := pollsRun_await H .data (fsFuel st.src) st hne
      have hcount : awaitCount (fun x => pollRecvData fsSrc (fsFuel x.src) x) (fsFuel st.src) st =
          awaitCount (RCall.data.poll H) (fsFuel st.src) st := rfl
      rw [hcount, a1, a2, settled_pending_answer, ← hd, hres]
      exact ⟨rfl, rfl⟩

/-- **`recvPattern` is a sequence of single polls.**  Polling the calls `patternCalls role H st` one
    by one answers, the `Pending` answers dropped, what the awaited pattern answers, and ends in the
    same state (when no answer of the pattern is the model's fuel artefact `invalid`). -/
theorem pollsRun_pattern (role : Role) (H : Hdr) (st : St FSt)
    (hinv : Res.invalid ∉ traceAnswers (recvPatternFrom role H st).1) :
    settled (pollsRun H st (patternCalls role H st)).1 = settled (traceAnswers (recvPatternFrom role H st).1) ∧
    (pollsRun H st (patternCalls role H st)).2 = (recvPatternFrom role H st).2 := by
  have hh : awaitCall (pollHead role fsSrc H) st = await ((RCall.head role).poll H) (fsFuel st.src) st := rfl
  unfold recvPatternFrom at hinv ⊢
  unfold patternCalls
  simp only at hinv ⊢
  generalize hp : awaitCall (pollHead role fsSrc H) st = p at hinv hh ⊢
  have hne : (await ((RCall.head role).poll H) (fsFuel st.src) st).1 ≠ .invalid := by
    rw [← hh]
    intro hc
    apply hinv
    rw [hc]
    simp [traceAnswers]
  obtain ⟨⟨n, a1⟩, a2⟩ := pollsRun_await H (.head role) (fsFuel st.src) st hne
  have hcount : awaitCount (pollHead role fsSrc H) (fsFuel st.src) st =
      awaitCount ((RCall.head role).poll H) (fsFuel st.src) st := rfl
  rw [hcount]
  cases hp1 : p.1 with
  | head blk =>
    rw [hp1] at hinv
    simp only at hinv ⊢
    unfold recvTailFrom at hinv ⊢
    simp only at hinv ⊢
    generalize hq : recvBody (fsFuel p.2.src) p.2 = q at hinv ⊢
    have hbinv : Res.invalid ∉ (recvBody (fsFuel p.2.src) p.2).1 := by
      rw [hq]
      intro hm
      apply hinv
      by_cases hl : q.1.getLast? = some Res.end_
      · rw [if_pos hl]; simp [traceAnswers, hm]
      · rw [if_neg hl]; simp [traceAnswers, hm]
    obtain ⟨b1, b2⟩ := pollsRun_body H (fsFuel p.2.src) p.2 hbinv
    rw [hq] at b1 b2
    by_cases hl : q.1.getLast? = some Res.end_
    · rw [if_pos hl] at hinv ⊢
      rw [if_pos hl]
      simp only at hinv ⊢
      have htne : (await (RCall.trailers.poll H) (fsFuel q.2.src) q.2).1 ≠ .invalid := by
        intro hc
        apply hinv
        have : (awaitCall (pollRecvTrailers fsSrc H) q.2).1 = .invalid := hc
        simp [traceAnswers, this]
      obtain ⟨⟨m, t1⟩, t2⟩ := pollsRun_await H .trailers (fsFuel q.2.src) q.2 htne
      have htc : awaitCount (pollRecvTrailers fsSrc H) (fsFuel q.2.src) q.2 =
          awaitCount (RCall.trailers.poll H) (fsFuel q.2.src) q.2 := rfl
      have hta : awaitCall (pollRecvTrailers fsSrc H) q.2 = await (RCall.trailers.poll H) (fsFuel q.2.src) q.2 := rfl
      rw [htc]
      obtain ⟨p1, p2⟩ := pollsRun_append H
        (List.replicate (awaitCount ((RCall.head role).poll H) (fsFuel st.src) st) (.head role))
        (bodyCalls (fsFuel p.2.src) p.2 ++
          List.replicate (awaitCount (RCall.trailers.poll H) (fsFuel q.2.src) q.2) .trailers) st
      rw [p1, p2, a2, ← hh]
      obtain ⟨r1, r2⟩ := pollsRun_append H (bodyCalls (fsFuel p.2.src) p.2)
        (List.replicate (awaitCount (RCall.trailers.poll H) (fsFuel q.2.src) q.2) .trailers) p.2
      rw [r1, r2, b2, t2, ← hta]
      refine ⟨?_, rfl⟩
      rw [settled_append, settled_append, a1, settled_pending_answer, b1, t1, settled_pending_answer, ← hh, hp1,
        ← hta]
      simp only [traceAnswers, Option.toList]
      rw [show (Res.head blk :: (q.1 ++ [(awaitCall (pollRecvTrailers fsSrc H) q.2).1])) =
        [Res.head blk] ++ (q.1 ++ [(awaitCall (pollRecvTrailers fsSrc H) q.2).1]) from rfl,
        settled_append, settled_append]
    · rw [if_neg hl] at hinv ⊢
      rw [if_neg hl]
      simp only at hinv ⊢
      rw [List.append_nil]
      obtain ⟨p1, p2⟩ := pollsRun_append H
        (List.replicate (awaitCount ((RCall.head role).poll H) (fsFuel st.src) st) (.head role))
        (bodyCalls (fsFuel p.2.src) p.2) st
      rw [p1, p2, a2, ← hh, b2]
      refine ⟨?_, rfl⟩
      rw [settled_append, a1, settled_pending_answer, b1, ← hh, hp1]
      simp only [traceAnswers, Option.toList, List.append_nil]
      rw [show (Res.head blk :: q.1) = [Res.head blk] ++ q.1 from rfl, settled_append]
  | _ =>
    simp only [List.append_nil]
    rw [a1, a2, settled_pending_answer, ← hh, hp1]
    exact ⟨rfl, rfl⟩

/-! ### a stream alone in the product of `E2EIso` is `pollsRun` -/

theorem isolated_pollsRun (H : Hdr) : ∀ (calls : List RCall) (st : St FSt),
    (isolated H st.env.cell (Comp.ofSt st) calls).1 = (pollsRun H st calls).1 ∧
    (isolated H st.env.cell (Comp.ofSt st) calls).2.1 = (pollsRun H st calls).2.env.cell ∧
    (isolated H st.env.cell (Comp.ofSt st) calls).2.2 = Comp.ofSt (pollsRun H st calls).2 := by
  intro calls
  induction calls with
  | nil => intro st; exact ⟨rfl, rfl, rfl⟩
  | cons c r ih =>
    intro st
    have hst : (Comp.ofSt st).toSt st.env.cell = st := rfl
    obtain ⟨i1, i2, i3⟩ := ih (c.poll H st).2
    simp only [isolated, pollComp, pollsRun, hst]
    exact ⟨by rw [i1], i2, i3⟩

/-! ### a stream that carries a well-formed message, inside any schedule -/

/-- stream `i` of the product carries the message `m`: its component is fresh, its transport script
    carries the stream bytes of `m` (any non-empty chunks, `pend` anywhere, FIN), and the calls
    scheduled for it are the single polls of the documented pattern -/
structure Carries (H : Http) (role : Role) (L : Nat) (k : Conn) (σ : List (Nat × RCall)) (i : Nat)
    (m : Message) (h : Header) (out : HeadOut) (g : Option Nat) (script : List Ev) : Prop where
  wf : WellFormed m h
  fits : Fits m h L
  head : HeadOk H role m out
  grease : ∀ n, g = some n → n < H3.Gen.WriteBuf.GREASE_RANGE_END
  scriptOK : ScriptOK script
  noReset : NoReset script
  fin : hasFin script = true
  bytes : evBytes (upToFin script) = streamBytes m g
  comp : k.comps i = { src := ({}, script) }
  calls : callsFor σ i = patternCalls role (hdrOf H role L) { src := ({}, script) }

section Carries
variable {H : Http} {role : Role} {L : Nat} {k : Conn} {σ : List (Nat × RCall)} {i : Nat}
  {m : Message} {h : Header} {out : HeadOut} {g : Option Nat} {script : List Ev}

/-- the trace of the awaited pattern on the stream's script -/
theorem Carries.trace (c : Carries H role L k σ i m h out g script) :
    ∃ ds : List Bytes, recvPattern role (hdrOf H role L) script =
        { head := .head (fieldSection h), body := ds.map .data ++ [.end_],
          trailers := some (trailersAns (m.trailers.map trailerSection)), env := {} } ∧
      ds.flatten = m.pieces.flatten := by
  have hpl := all_plain m h c.wf g c.grease
  have hrun := run_wireOf _ hpl
  rw [← streamBytes_eq m h c.wf.header g, runToks_frames] at hrun
  obtain ⟨hH, _⟩ := head_block H role m h out L c.wf c.fits c.head
  have hTr : ∀ t, m.trailers.map trailerSection = some t → (hdrOf H role L).trailer t = .ok := by
    intro t ht
    cases hm : m.trailers with
    | none => rw [hm] at ht; cases ht
    | some t' =>
      rw [hm] at ht
      simp only [Option.map_some, Option.some.injEq] at ht
      subst ht
      exact (trailer_block H role m h L c.wf c.fits t' hm).1
  obtain ⟨ds, hpat, hflat, _⟩ := recvPattern_valid role (hdrOf H role L) _ _ _ _ hrun hH hTr script c.scriptOK
    c.noReset c.fin c.bytes
  exact ⟨ds, hpat, hflat⟩

/-- the trace of a message read to its end -/
def goodTrace (hb : Bytes) (ds : List Bytes) (tr : Option Bytes) : Trace :=
  { head := .head hb, body := ds.map .data ++ [.end_], trailers := some (trailersAns tr), env := {} }

theorem goodTrace_answers (ds : List Bytes) (hb : Bytes) (tr : Option Bytes) (a : Res)
    (ha : a ∈ traceAnswers (goodTrace hb ds tr)) : isErrConn a = false ∧ a ≠ .invalid ∧ a ≠ .pending := by
  simp only [traceAnswers, goodTrace, Option.toList, List.mem_cons, List.mem_append, List.mem_map,
    List.mem_nil_iff, or_false] at ha
  rcases ha with h | (⟨d, _, h⟩ | h) | h
  · subst h; exact ⟨rfl, (by intro hc; cases hc), (by intro hc; cases hc)⟩
  · subst h; exact ⟨rfl, (by intro hc; cases hc), (by intro hc; cases hc)⟩
  · subst h; exact ⟨rfl, (by intro hc; cases hc), (by intro hc; cases hc)⟩
  · subst h; cases tr <;> exact ⟨rfl, (by intro hc; cases hc), (by intro hc; cases hc)⟩

/-- alone, the stream's scheduled polls answer — `Pending` dropped — the trace of `recvPattern`,
    none of them a connection error -/
theorem Carries.isolated (c : Carries H role L k σ i m h out g script) (hcell : k.cell = none) :
    settled (isolated (hdrOf H role L) k.cell (k.comps i) (callsFor σ i)).1 =
      traceAnswers (recvPattern role (hdrOf H role L) script) ∧
    (∀ a ∈ (isolated (hdrOf H role L) k.cell (k.comps i) (callsFor σ i)).1, isErrConn a = false) := by
  obtain ⟨ds, hpat, _⟩ := c.trace
  have hpat' : recvPattern role (hdrOf H role L) script =
      goodTrace (fieldSection h) ds (m.trailers.map trailerSection) := hpat
  have hfresh := recvPatternFrom_fresh role (hdrOf H role L) script
  have hinv : Res.invalid ∉ traceAnswers (recvPatternFrom role (hdrOf H role L) { src := ({}, script) }).1 := by
    rw [hfresh, hpat']
    intro hm
    exact (goodTrace_answers ds _ _ _ hm).2.1 rfl
  obtain ⟨p1, _⟩ := pollsRun_pattern role (hdrOf H role L) { src := ({}, script) } hinv
  have hiso := (isolated_pollsRun (hdrOf H role L) (callsFor σ i) { src := ({}, script) }).1
  have hcomp : k.comps i = Comp.ofSt { src := ({}, script) } := by rw [c.comp]; rfl
  have hc0 : k.cell = ({ src := ({}, script) } : St FSt).env.cell := by rw [hcell]
  rw [hcomp, hc0, hiso, c.calls]
  rw [hfresh] at p1
  have hset : settled (traceAnswers (recvPattern role (hdrOf H role L) script)) =
      traceAnswers (recvPattern role (hdrOf H role L) script) := by
    rw [settled, List.filter_eq_self]
    intro a ha
    rw [hpat'] at ha
    simpa using (goodTrace_answers ds _ _ _ ha).2.2
  refine ⟨by rw [p1, hset], ?_⟩
  intro a ha
  rcases mem_settled_or_pending ha with rfl | hs
  · rfl
  · rw [p1, hset, hpat'] at hs
    exact (goodTrace_answers ds _ _ _ hs).1

end Carries

end H3.E2E
