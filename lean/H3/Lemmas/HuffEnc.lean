import H3.Model.Huffman
import H3.Lemmas.Bits
import H3.Lemmas.Pack
/-! The Huffman encoder model (`H3.Huffman.hencode?`, section "encode.rs" of `H3.Model.Huffman`)
    computes "concatenate the code words of the generated table, fill up with ones to the byte
    boundary" and never panics on byte strings (`hencode?_eq`).

    Structure: (1) the byte arithmetic of `write_bits` as finite facts (`decide +kernel`),
    (2) `writeBits` on a buffer of the form `pack (bits ++ ones)`, (3) the rows of `raw` spell the
    rows of `table` (`decide +kernel` over the 256 rows), (4) the invariant `Inv` through
    `ensureFreeSpace`, `putParts`, `put`, `putAll`.  The facts about `pack` (`bitsOf_pack`,
    `pack_bitsOf`, `length_pack`, `pack_lt`) are in `H3.Lemmas.Pack` (namespace `H3.Bits`). -/
namespace H3.Huffman
open H3.Bits
open H3.Gen.HuffEnc (PAD_LEFT PAD_RIGHT)

/-- code word of byte `c` according to the generated encode table -/
def codeT (c : Nat) : List Bool :=
  match H3.Gen.HuffEnc.table[c]? with
  | some (l, v) => bitsN l v
  | none => []

/-- concatenated code words of a byte string -/
def encT : List Nat → List Bool
  | [] => []
  | c :: r => codeT c ++ encT r

/-! ### the byte arithmetic of `write_bits` (finite facts) -/

/-- the `debug_assert_eq!` of `write_bits` holds: the bits from `r` on are ones -/
theorem byte_assert : ∀ r < 8, ∀ h < 2 ^ r,
    (h * 2 ^ (8 - r) + (2 ^ (8 - r) - 1)) ||| PAD_LEFT.getD r 0 = 255 := by
  decide +kernel

/-- one-byte case of `write_bits`: the byte written -/
theorem byte_one : ∀ r < 8, ∀ h < 2 ^ r, ∀ c < 9 - r, ∀ v < 2 ^ c,
    (((h * 2 ^ (8 - r) + (2 ^ (8 - r) - 1)) ||| PAD_RIGHT.getD (8 - r) 0) &&&
      (((v <<< (8 - r - c)) % 256) ||| PAD_LEFT.getD r 0)) ||| PAD_RIGHT.getD (8 - c - r) 0
    = h * 2 ^ (8 - r) + (v * 2 ^ (8 - r - c) + (2 ^ (8 - r - c) - 1)) := by
  decide +kernel

/-- two-byte case of `write_bits`: the first byte (`w` = the high bits of the value) -/
theorem byte_two_fst : ∀ r < 8, ∀ h < 2 ^ r, ∀ w < 2 ^ (8 - r),
    ((h * 2 ^ (8 - r) + (2 ^ (8 - r) - 1)) ||| PAD_RIGHT.getD (8 - r) 0) &&&
      (w ||| PAD_LEFT.getD r 0) = h * 2 ^ (8 - r) + w := by
  decide +kernel

/-- two-byte case of `write_bits`: the second byte -/
theorem byte_two_snd : ∀ rem < 8, ∀ v < 256,
    ((v <<< rem) % 256) ||| PAD_RIGHT.getD rem 0 = (v % 2 ^ (8 - rem)) * 2 ^ rem + (2 ^ rem - 1) := by
  decide +kernel

private theorem getElem?_mid (pre post : List Nat) (x : Nat) : (pre ++ x :: post)[pre.length]? = some x := by
  simp

private theorem set_mid (pre post : List Nat) (x y : Nat) :
    (pre ++ x :: post).set pre.length y = pre ++ y :: post := by
  simp

private theorem set_mid2 (pre post : List Nat) (x y z : Nat) :
    (pre ++ x :: y :: post).set (pre.length + 1) z = pre ++ x :: z :: post := by
  simp

/-! ### `write_bits` -/

/-- `write_bits` within one byte whose bits from `r` on are ones (`h` = the `r` bits before) -/
theorem writeBits_one (pre post : List Nat) (r c h v : Nat)
    (hr : r < 8) (hh : h < 2 ^ r) (hc : 1 ≤ c) (hrc : r + c ≤ 8) (hv : v < 2 ^ c) :
    writeBits (pre ++ (h * 2 ^ (8 - r) + (2 ^ (8 - r) - 1)) :: post) ⟨pre.length, r, c⟩ v =
      some (pre ++ (h * 2 ^ (8 - r) + (v * 2 ^ (8 - r - c) + (2 ^ (8 - r - c) - 1))) :: post) := by
  unfold writeBits
  simp only []
  rw [if_neg (by omega), getElem?_mid]
  simp only []
  rw [if_neg (by rw [byte_assert r hr h hh]; simp), if_pos hrc, set_mid,
    byte_one r hr h hh c (by omega) v hv]

/-- `write_bits` across two bytes -/
theorem writeBits_two (pre post : List Nat) (r c h v nxt : Nat)
    (hr : r < 8) (hh : h < 2 ^ r) (hc : c ≤ 8) (hrc : 8 < r + c) (hv : v < 2 ^ c) :
    writeBits (pre ++ (h * 2 ^ (8 - r) + (2 ^ (8 - r) - 1)) :: nxt :: post) ⟨pre.length, r, c⟩ v =
      some (pre ++ (h * 2 ^ (8 - r) + v / 2 ^ (c - (8 - r))) ::
        ((v % 2 ^ (c - (8 - r))) * 2 ^ (8 - (c - (8 - r))) + (2 ^ (8 - (c - (8 - r))) - 1)) :: post) := by
  unfold writeBits
  simp only []
  rw [if_neg (by omega), getElem?_mid]
  simp only []
  rw [if_neg (by rw [byte_assert r hr h hh]; simp), if_neg (by omega), set_mid]
  rw [if_pos (by simp), set_mid2, Nat.shiftRight_eq_div_pow]
  have hw : v / 2 ^ (c - (8 - r)) < 2 ^ (8 - r) := by
    rw [Nat.div_lt_iff_lt_mul (Nat.two_pow_pos _), ← Nat.pow_add]
    have : 8 - r + (c - (8 - r)) = c := by omega
    rw [this]; exact hv
  have hv8 : v < 256 := Nat.lt_of_lt_of_le hv (Nat.pow_le_pow_right (by decide) hc)
  have e : 8 - (8 - (c - (8 - r))) = c - (8 - r) := by omega
  rw [byte_two_fst r hr h hh _ hw, byte_two_snd (8 - (c - (8 - r))) (by omega) v hv8, e]

/-- `write_bits` at bit `R.length` of the byte after `pre`, in terms of bit strings -/
theorem writeBits_tail (pre : List Nat) (R : List Bool) (n c v : Nat) (hR : R.length < 8)
    (hc : 1 ≤ c) (hc8 : c ≤ 8) (hv : v < 2 ^ c) (hn : R.length + c ≤ 8 * n) :
    writeBits (pre ++ pack (R ++ ones (8 * n - R.length))) ⟨pre.length, R.length, c⟩ v =
      some (pre ++ pack ((R ++ bitsN c v) ++ ones (8 * n - (R.length + c)))) := by
  have hh := val_lt R
  by_cases hrc : R.length + c ≤ 8
  · obtain ⟨m, rfl⟩ : ∃ m, n = m + 1 := ⟨n - 1, by omega⟩
    have e1 : 8 * (m + 1) - R.length = (8 - R.length) + 8 * m := by omega
    have e2 : 8 * (m + 1) - (R.length + c) = (8 - R.length - c) + 8 * m := by omega
    rw [e1, e2, ones_add, ones_add, ← List.append_assoc, ← List.append_assoc,
      pack_append8 _ _ (by simp; omega), pack_append8 _ _ (by simp; omega), pack_ones, val_pad,
      List.append_assoc R, val_append R, val_pad, val_bitsN, Nat.mod_eq_of_lt hv]
    have e3 : (bitsN c v ++ ones (8 - R.length - c)).length = 8 - R.length := by simp; omega
    rw [e3]
    exact writeBits_one pre _ R.length c (val R) v hR hh hc hrc hv
  · obtain ⟨m, rfl⟩ : ∃ m, n = m + 2 := ⟨n - 2, by omega⟩
    have key := writeBits_two pre (List.replicate m 255) R.length c (val R) v (val (ones 8))
      hR hh hc8 (by omega) hv
    obtain ⟨d, hd⟩ : ∃ d, d = c - (8 - R.length) := ⟨_, rfl⟩
    rw [← hd] at key
    have hw : v / 2 ^ d < 2 ^ (8 - R.length) := by
      rw [Nat.div_lt_iff_lt_mul (Nat.two_pow_pos _), ← Nat.pow_add]
      have : 8 - R.length + d = c := by omega
      rw [this]; exact hv
    have e1 : 8 * (m + 2) - R.length = (8 - R.length) + (8 + 8 * m) := by omega
    have e2 : 8 * (m + 2) - (R.length + c) = (8 - d) + 8 * m := by omega
    have e3 : c = (8 - R.length) + d := by omega
    have e4 : bitsN c v = bitsN (8 - R.length) (v / 2 ^ d) ++ bitsN d v := by
      rw [e3, bitsN_add]
    have e5 : (R ++ (bitsN (8 - R.length) (v / 2 ^ d) ++ bitsN d v)) ++ (ones (8 - d) ++ ones (8 * m))
        = (R ++ bitsN (8 - R.length) (v / 2 ^ d)) ++ ((bitsN d v ++ ones (8 - d)) ++ ones (8 * m)) := by
      simp only [List.append_assoc]
    rw [e1, e2, e4, ones_add, ones_add, ones_add, e5, ← List.append_assoc R,
      pack_append8 _ _ (by simp; omega), pack_append8 _ _ (by simp),
      pack_append8 _ _ (by simp; omega), pack_append8 _ _ (by simp; omega),
      pack_ones, val_pad, val_pad, val_append, val_bitsN, val_bitsN, length_bitsN,
      Nat.mod_eq_of_lt hw]
    exact key

/-- the write step: `c` bits appended to `bits` in a buffer of `L` bytes -/
theorem writeBits_pack (bits : List Bool) (L c v : Nat) (hc : 1 ≤ c) (hc8 : c ≤ 8)
    (hv : v < 2 ^ c) (hL : bits.length + c ≤ 8 * L) :
    writeBits (pack (bits ++ ones (8 * L - bits.length))) ⟨bits.length / 8, bits.length % 8, c⟩ v =
      some (pack ((bits ++ bitsN c v) ++ ones (8 * L - (bits.length + c)))) := by
  obtain ⟨F, R, rfl, hF, hR⟩ : ∃ F R, bits = F ++ R ∧ F.length = 8 * (bits.length / 8) ∧
      R.length = bits.length % 8 :=
    ⟨bits.take (8 * (bits.length / 8)), bits.drop (8 * (bits.length / 8)),
      (List.take_append_drop _ _).symm, by simp; omega, by simp; omega⟩
  generalize hP : (F ++ R).length = P at *
  have hP' : P = 8 * (P / 8) + R.length := by rw [← hP, List.length_append] at *; omega
  have hk : (pack F).length = P / 8 := by rw [length_pack, hF]; omega
  have e1 : 8 * L - P = 8 * (L - P / 8) - R.length := by omega
  have e2 : 8 * L - (P + c) = 8 * (L - P / 8) - (R.length + c) := by omega
  rw [List.append_assoc, List.append_assoc, List.append_assoc, pack_append _ _ ⟨_, hF⟩,
    pack_append _ _ ⟨_, hF⟩, ← hk, ← hR, e1, e2, ← List.append_assoc]
  exact writeBits_tail (pack F) R (L - P / 8) c v (by omega) hc hc8 hv (by omega)

/-! ### the table -/

/-- the bits `putParts` writes for a row of `raw` -/
def partsBits : List Nat → Nat → List Bool
  | [], _ => []
  | p :: ps, rest =>
    bitsN (if rest < 8 then rest else 8) p ++ partsBits ps (rest - (if rest < 8 then rest else 8))

/-- every part fits its window and no window is empty -/
def partsOK : List Nat → Nat → Bool
  | [], _ => true
  | p :: ps, rest =>
    decide (1 ≤ rest) && decide (p < 2 ^ (if rest < 8 then rest else 8)) &&
      partsOK ps (rest - (if rest < 8 then rest else 8))

/-- row `c` of `raw` is well formed and spells row `c` of `table` -/
def rowOK (c : Nat) : Bool :=
  match H3.Gen.HuffEnc.raw[c]?, H3.Gen.HuffEnc.table[c]? with
  | some (cnt, parts), some (cnt', code) =>
    cnt == cnt' && partsOK parts cnt && (partsBits parts cnt == bitsN cnt code)
  | _, _ => false

theorem rows_ok : ∀ c < 256, rowOK c = true := by decide +kernel

/-- the per-symbol statement of `rows_ok` -/
theorem raw_row (c : Nat) (hc : c < 256) : ∃ cnt parts,
    H3.Gen.HuffEnc.raw[c]? = some (cnt, parts) ∧ partsOK parts cnt = true ∧
      partsBits parts cnt = codeT c ∧ (codeT c).length = cnt := by
  have h := rows_ok c hc
  unfold rowOK at h
  unfold codeT
  split at h
  · next cnt parts cnt' code h1 h2 =>
    simp only [Bool.and_eq_true, beq_iff_eq] at h
    obtain ⟨⟨rfl, h3⟩, h4⟩ := h
    exact ⟨cnt, parts, h1, h3, by rw [h2]; exact h4, by rw [h2]; exact length_bitsN _ _⟩
  · exact absurd h (by simp)

/-! ### the invariant -/

/-- `bits` have been emitted: the last window ends at `bits.length`, the buffer holds `bits`
    followed by ones. -/
structure Inv (e : Encoder) (bits : List Bool) : Prop where
  pos : 8 * e.pos.byte + e.pos.bit + e.pos.count = bits.length
  bit : e.pos.bit < 8
  len : bits.length ≤ 8 * e.buffer.length
  buf : e.buffer = pack (bits ++ ones (8 * e.buffer.length - bits.length))

theorem ensureFreeSpace_inv (e : Encoder) (bits : List Bool) (bc : Nat) (hI : Inv e bits) :
    Inv (ensureFreeSpace e bc) bits ∧
    bits.length + bc ≤ 8 * (ensureFreeSpace e bc).buffer.length ∧
    (e.buffer.length = (bits.length + 7) / 8 →
      (ensureFreeSpace e bc).buffer.length = (bits.length + bc + 7) / 8) := by
  obtain ⟨h1, h2, h3, h4⟩ := hI
  have eb : ((e.pos.forwards bc).forwards 0).byte = (bits.length + bc) / 8 := by
    simp only [BitWindow.forwards]; omega
  have et : ((e.pos.forwards bc).forwards 0).bit = (bits.length + bc) % 8 := by
    simp only [BitWindow.forwards]; omega
  unfold ensureFreeSpace
  simp only []
  rw [eb, et]
  by_cases hlt : e.buffer.length > (bits.length + bc) / 8
  · rw [if_pos hlt]
    exact ⟨⟨h1, h2, h3, h4⟩, by omega, by omega⟩
  · rw [if_neg hlt]
    generalize hf : (bits.length + bc) / 8 - e.buffer.length +
      (if (bits.length + bc) % 8 > 0 then 1 else 0) = f
    have hf' : e.buffer.length + f = (bits.length + bc + 7) / 8 := by
      split at hf <;> omega
    have hl : (e.buffer ++ List.replicate f 255).length = e.buffer.length + f := by simp
    refine ⟨⟨h1, h2, ?_, ?_⟩, ?_, fun _ => ?_⟩ <;> dsimp only <;> rw [hl]
    · omega
    rotate_left
    · omega
    · exact hf'
    have e1 : 8 * (e.buffer.length + f) - bits.length =
        (8 * e.buffer.length - bits.length) + 8 * f := by omega
    rw [e1, ones_add, ← List.append_assoc, pack_append _ _ ⟨e.buffer.length, by simp; omega⟩,
      pack_ones, ← h4]

theorem forwards_eq (w : BitWindow) (P c : Nat) (h : 8 * w.byte + w.bit + w.count = P) :
    w.forwards c = ⟨P / 8, P % 8, c⟩ := by
  subst h
  simp only [BitWindow.forwards, BitWindow.mk.injEq]
  refine ⟨by omega, by omega, trivial⟩

theorem putParts_inv (ps : List Nat) (rest : Nat) (e : Encoder) (bits : List Bool)
    (hI : Inv e bits) (hok : partsOK ps rest = true)
    (hsp : bits.length + rest ≤ 8 * e.buffer.length) :
    ∃ e', putParts ps rest e = some e' ∧ Inv e' (bits ++ partsBits ps rest) ∧
      e'.buffer.length = e.buffer.length := by
  induction ps generalizing rest e bits with
  | nil => exact ⟨e, rfl, by simpa [partsBits] using hI, rfl⟩
  | cons p ps ih =>
    obtain ⟨h1, h2, h3, h4⟩ := hI
    simp only [partsOK, Bool.and_eq_true, decide_eq_true_eq] at hok
    obtain ⟨⟨hr1, hp⟩, hok'⟩ := hok
    generalize hc : (if rest < 8 then rest else 8) = c at hp hok'
    have hc1 : 1 ≤ c := by split at hc <;> omega
    have hc8 : c ≤ 8 := by split at hc <;> omega
    have hcr : c ≤ rest := by split at hc <;> omega
    have hw := writeBits_pack bits e.buffer.length c p hc1 hc8 hp (by omega)
    rw [← h4] at hw
    unfold putParts
    simp only [hc]
    rw [forwards_eq e.pos bits.length c h1, hw]
    simp only []
    have hlen : (pack ((bits ++ bitsN c p) ++ ones (8 * e.buffer.length - (bits.length + c)))).length
        = e.buffer.length := by
      rw [length_pack]; simp; omega
    generalize hb : pack ((bits ++ bitsN c p) ++ ones (8 * e.buffer.length - (bits.length + c)))
      = buf at hlen
    have hI' : Inv ⟨⟨bits.length / 8, bits.length % 8, c⟩, buf⟩ (bits ++ bitsN c p) := by
      refine ⟨?_, ?_, ?_, ?_⟩ <;> dsimp only
      · simp; omega
      · omega
      · simp; omega
      · rw [hlen, ← hb]; simp
    obtain ⟨e', he1, he2, he3⟩ := ih (rest - c) ⟨⟨bits.length / 8, bits.length % 8, c⟩, buf⟩
      (bits ++ bitsN c p) hI' hok' (by dsimp only; simp; omega)
    refine ⟨e', he1, ?_, by rw [he3]; exact hlen⟩
    simp only [partsBits, hc, ← List.append_assoc]
    exact he2

/-- invariant between two `put`s: the buffer is exactly `pack bits` -/
def Inv₀ (e : Encoder) (bits : List Bool) : Prop :=
  Inv e bits ∧ e.buffer.length = (bits.length + 7) / 8

theorem put_inv (e : Encoder) (bits : List Bool) (c : Nat) (hc : c < 256) (hI : Inv₀ e bits) :
    ∃ e', put e c = some e' ∧ Inv₀ e' (bits ++ codeT c) := by
  obtain ⟨cnt, parts, hraw, hok, hbits, hlen⟩ := raw_row c hc
  obtain ⟨hI1, hsp, hL⟩ := ensureFreeSpace_inv e bits cnt hI.1
  obtain ⟨e', he1, he2, he3⟩ := putParts_inv parts cnt _ bits hI1 hok hsp
  unfold put
  rw [hraw]
  refine ⟨e', he1, hbits ▸ he2, ?_⟩
  rw [he3, hL hI.2, List.length_append, hlen]

theorem putAll_inv (s : List Nat) (hs : ∀ b ∈ s, b < 256) (e : Encoder) (bits : List Bool)
    (hI : Inv₀ e bits) : ∃ e', putAll s e = some e' ∧ Inv₀ e' (bits ++ encT s) := by
  induction s generalizing e bits with
  | nil => exact ⟨e, rfl, by simpa [encT] using hI⟩
  | cons c s ih =>
    obtain ⟨e₁, h1, hI₁⟩ := put_inv e bits c (hs c List.mem_cons_self) hI
    obtain ⟨e', h2, hI'⟩ := ih (fun b hb => hs b (List.mem_cons_of_mem _ hb)) e₁ _ hI₁
    refine ⟨e', ?_, ?_⟩
    · unfold putAll; rw [h1]; exact h2
    · simpa [encT] using hI'

theorem Inv₀.buffer_eq {e : Encoder} {bits : List Bool} (h : Inv₀ e bits) :
    e.buffer = pack bits := by
  have := h.1.buf
  rw [h.2] at this
  rw [this, ← pack_pad bits]
  congr 3
  omega

/-- MAIN: the encoder never panics on a byte string and emits the concatenated code words,
    filled up with ones. -/
theorem hencode?_eq (s : List Nat) (hs : ∀ b ∈ s, b < 256) :
    hencode? s = some (pack (encT s)) := by
  have h0 : Inv₀ ⟨⟨0, 0, 0⟩, []⟩ [] :=
    ⟨⟨rfl, by decide, by simp, by simp [pack_nil]⟩, rfl⟩
  obtain ⟨e', h1, hI⟩ := putAll_inv s hs _ _ h0
  unfold hencode?
  rw [h1, Option.map_some, hI.buffer_eq, List.nil_append]

theorem hencode_eq (s : List Nat) (hs : ∀ b ∈ s, b < 256) : hencode s = pack (encT s) := by
  unfold hencode
  rw [hencode?_eq s hs, Option.getD_some]

end H3.Huffman
