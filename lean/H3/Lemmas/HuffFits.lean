import H3.Model.PrefixString
/-! The Huffman decoder's machine arithmetic (`u32` bit positions, `u8`/`u16` shifts, slice indexings):
    for an input of `L` bytes with `8·L + 8 < 2^32` the decoder with every operation checked
    (`H3.Huffman.hdecodeC`) never answers `none` and is the unchecked model (`hdecodeX`); with the
    refusal of longer Huffman literals in `prefix_string::decode` (the repair of D-06u) the string
    literal decoder never overflows on ANY input; without it, every input of 2^29 bytes or more
    overflows at the first `read_bits`.  Collected in `C15_huffman_positions_fit`. -/
namespace H3.Huffman
open H3.Gen.HuffDec (Level Entry)

theorem forwardsC_eq (w : BitWindow) (k L : Nat) (hL : 8 * L + 8 < 2 ^ 32) (hpos : w.endPos ≤ 8 * L) :
    w.forwardsC k = some (w.forwards k) := by
  simp only [BitWindow.endPos] at hpos
  have h1 : w.bit + w.count < 2 ^ 32 := by omega
  have h2 : w.byte + (w.bit + w.count) / 8 < 2 ^ 32 := by omega
  simp only [BitWindow.forwardsC, add32, if_pos h1, if_pos h2, BitWindow.forwards]

theorem oppositeC_eq (w : BitWindow) : w.oppositeC = some w.opposite := by
  have h : w.bit % 8 ≤ 8 := by omega
  simp only [BitWindow.oppositeC, subU, if_pos h, BitWindow.opposite]

theorem readBitsArmsC_eq (src : List Nat) (byte bit len : Nat)
    (hbit : bit < 8) (hl1 : 1 ≤ len) (hl8 : len ≤ 8) (hin : 8 * byte + bit + len ≤ 8 * src.length) :
    readBitsArmsC src byte bit len =
      if bit + len ≤ 8 then some ((((src.getD byte 0) <<< bit) % 256) >>> (8 - len))
      else some (((((src.getD byte 0 <<< 8 ||| src.getD (byte + 1) 0) <<< bit) % 65536) >>> (16 - len)) % 256) := by
  have h1 : bit + len < 2 ^ 32 := by omega
  have hb : byte < src.length := by omega
  have hg : src[byte]? = some (src.getD byte 0) := by
    rw [List.getD_eq_getElem?_getD, List.getElem?_eq_getElem hb]; rfl
  simp only [readBitsArmsC, add32, if_pos h1]
  by_cases he : bit + len ≤ 8
  · have h8 : len ≤ 8 := hl8
    have hs : bit < 8 ∧ 8 - len < 8 := ⟨hbit, by omega⟩
    simp only [if_pos he, hg, subU, if_pos h8, if_pos hs]
  · have hb1 : byte + 1 < src.length := by omega
    have hg1 : src[byte + 1]? = some (src.getD (byte + 1) 0) := by
      rw [List.getD_eq_getElem?_getD, List.getElem?_eq_getElem hb1]; rfl
    have h16 : len ≤ 16 := by omega
    have hs : bit < 16 ∧ 16 - len < 16 := ⟨by omega, by omega⟩
    simp only [if_neg he, hg, hg1, subU, if_pos h16, if_pos hs]

/-- `read_bits`: no operation overflows, both indexings are in range -/
theorem readBitsC_eq (src : List Nat) (byte bit len : Nat) (hL : 8 * src.length + 8 < 2 ^ 32)
    (hpos : 8 * byte + bit ≤ 8 * src.length) :
    readBitsC src byte bit len = some (readBits src byte bit len) := by
  by_cases hlen : len = 0 ∨ len > 8
  · have hR : readBits src byte bit len = none := by
      unfold readBits; rw [if_pos (by omega)]
    rw [hR]; unfold readBitsC; rw [if_pos hlen]
  · have hcast : ¬ ¬ src.length < 2 ^ 32 := by omega
    have ht : src.length * 8 < 2 ^ 32 := by omega
    have ha : byte * 8 < 2 ^ 32 := by omega
    have hb : byte * 8 + bit < 2 ^ 32 := by omega
    have hc : byte * 8 + bit + len < 2 ^ 32 := by omega
    by_cases hg : src.length * 8 < byte * 8 + bit + len
    · have hR : readBits src byte bit len = none := by
        unfold readBits; rw [if_pos (by omega)]
      rw [hR]; unfold readBitsC; rw [if_neg hlen, if_neg hcast]
      simp only [mul32, add32, if_pos ht, if_pos ha, if_pos hb, if_pos hc, if_pos hg]
    · have hcond : ¬ (len = 0 ∨ len > 8 ∨ src.length * 8 < byte * 8 + bit + len) := by omega
      have hR : readBits src byte bit len =
          if bit - bit / 8 * 8 + len ≤ 8 then
            some ((((src.getD (byte + bit / 8) 0) <<< (bit - bit / 8 * 8)) % 256) >>> (8 - len))
          else some (((((src.getD (byte + bit / 8) 0 <<< 8 ||| src.getD (byte + bit / 8 + 1) 0)
            <<< (bit - bit / 8 * 8)) % 65536) >>> (16 - len)) % 256) := by
        unfold readBits; rw [if_neg hcond]
      rw [hR]; unfold readBitsC; rw [if_neg hlen, if_neg hcast]
      have h1 : byte + bit / 8 < 2 ^ 32 := by omega
      have h2 : bit / 8 * 8 < 2 ^ 32 := by omega
      have h3 : bit / 8 * 8 ≤ bit := by omega
      simp only [mul32, add32, if_pos ht, if_pos ha, if_pos hb, if_pos hc, if_neg hg, if_pos h1, if_pos h2,
        subU, if_pos h3]
      rw [readBitsArmsC_eq src (byte + bit / 8) (bit - bit / 8 * 8) len (by omega) (by omega) (by omega)
        (by omega)]
      by_cases he : bit - bit / 8 * 8 + len ≤ 8
      · simp only [if_pos he, Option.map]
      · simp only [if_neg he, Option.map]

theorem eofFillerC_eq : ∀ r < 8, eofFillerC (8 - r) = some (((2 <<< (8 - r - 1)) - 1) % 256) := by decide

/-- `check_eof`, called with the window `forwards` has just produced -/
theorem checkEofC_eq (w : BitWindow) (inp : List Nat) (hL : 8 * inp.length + 8 < 2 ^ 32)
    (hpos : 8 * w.byte + w.bit ≤ 8 * inp.length) :
    checkEofC w inp = some (checkEof w inp) := by
  unfold checkEofC checkEof
  have h1 : w.byte + 1 < 2 ^ 32 := by omega
  simp only [add32, if_pos h1]
  by_cases ha : w.byte + 1 > inp.length
  · rw [if_pos ha, if_pos ha]
  · rw [if_neg ha, if_neg ha]
    by_cases hb : w.byte + 1 = inp.length
    · rw [if_pos hb, if_pos hb]
      simp only [oppositeC_eq]
      rw [readBitsC_eq inp w.opposite.byte w.opposite.bit w.opposite.count hL (by simpa [BitWindow.opposite] using hpos)]
      cases readBits inp w.opposite.byte w.opposite.bit w.opposite.count with
      | none => rfl
      | some rest =>
        have hf : eofFillerC w.opposite.count = some (((2 <<< (w.opposite.count - 1)) - 1) % 256) :=
          eofFillerC_eq (w.bit % 8) (by omega)
        simp only [hf]
        exact (apply_ite some _ _ _).symm
    · rw [if_neg hb, if_neg hb]

/-! ### the level walker -/

mutual
theorem decodeNextC_eq (inp : List Nat) (hL : 8 * inp.length + 8 < 2 ^ 32) : ∀ (l : Level) (w : BitWindow),
    w.endPos ≤ 8 * inp.length →
    decodeNextC l w inp = some (decodeNext l w inp) ∧
    ∀ s, (decodeNext l w inp).2 = .sym s → (decodeNext l w inp).1.endPos ≤ 8 * inp.length
  | .mk k tbl, w, hpos => by
    have hs : 8 * (w.forwards k).byte + (w.forwards k).bit = w.endPos := by
      simp only [BitWindow.forwards, BitWindow.endPos]; omega
    have hc : (w.forwards k).count = k := rfl
    rw [decodeNextC, decodeNext, forwardsC_eq w k inp.length hL hpos]
    simp only
    rw [readBitsC_eq inp _ _ _ hL (by omega)]
    cases hr : readBits inp (w.forwards k).byte (w.forwards k).bit (w.forwards k).count with
    | none =>
      simp only
      rw [checkEofC_eq (w.forwards k) inp hL (by omega)]
      cases hce : checkEof (w.forwards k) inp with
      | ok u => cases u; exact ⟨rfl, fun s h => by simp at h⟩
      | error e => exact ⟨rfl, fun s h => by simp at h⟩
    | some value =>
      simp only
      have hin : (w.forwards k).endPos ≤ 8 * inp.length := by
        unfold readBits at hr
        by_cases hcond : (w.forwards k).count = 0 ∨ (w.forwards k).count > 8 ∨
            inp.length * 8 < (w.forwards k).byte * 8 + (w.forwards k).bit + (w.forwards k).count
        · rw [if_pos hcond] at hr; cases hr
        · simp only [BitWindow.endPos]; omega
      exact tableGetC_eq inp hL tbl value value (w.forwards k) hin
theorem tableGetC_eq (inp : List Nat) (hL : 8 * inp.length + 8 < 2 ^ 32) :
    ∀ (tbl : List Entry) (i v : Nat) (w : BitWindow), w.endPos ≤ 8 * inp.length →
    tableGetC tbl i v w inp = some (tableGet tbl i v w inp) ∧
    ∀ s, (tableGet tbl i v w inp).2 = .sym s → (tableGet tbl i v w inp).1.endPos ≤ 8 * inp.length
  | [], i, v, w, _ => by
    rw [tableGetC, tableGet]; exact ⟨rfl, fun s h => by simp at h⟩
  | e :: _, 0, v, w, hpos => by
    rw [tableGetC, tableGet]; exact entryGoC_eq inp hL e w hpos
  | _ :: es, i+1, v, w, hpos => by
    rw [tableGetC, tableGet]; exact tableGetC_eq inp hL es i v w hpos
theorem entryGoC_eq (inp : List Nat) (hL : 8 * inp.length + 8 < 2 ^ 32) : ∀ (e : Entry) (w : BitWindow),
    w.endPos ≤ 8 * inp.length →
    entryGoC e w inp = some (entryGo e w inp) ∧
    ∀ s, (entryGo e w inp).2 = .sym s → (entryGo e w inp).1.endPos ≤ 8 * inp.length
  | .sym s, w, hpos => by
    rw [entryGoC, entryGo]; exact ⟨rfl, fun _ _ => hpos⟩
  | .sub l, w, hpos => by
    rw [entryGoC, entryGo]; exact decodeNextC_eq inp hL l w hpos
end

/-! ### the loop -/

theorem decodeAllC_eq (root : Level) (inp : List Nat) (hL : 8 * inp.length + 8 < 2 ^ 32) :
    ∀ (fuel : Nat) (w : BitWindow), w.endPos ≤ 8 * inp.length →
      decodeAllC root fuel w inp = some (decodeAll root fuel w inp)
  | 0, _, _ => rfl
  | fuel+1, w, hpos => by
    obtain ⟨he, hs⟩ := decodeNextC_eq inp hL root w hpos
    rw [decodeAllC, decodeAll, he]
    rcases hd : decodeNext root w inp with ⟨w', st⟩
    rw [hd] at hs
    cases st with
    | sym s =>
      simp only
      rw [decodeAllC_eq root inp hL fuel w' (hs s rfl)]
      cases decodeAll root fuel w' inp with
      | error e => rfl
      | ok v => rfl
    | done => rfl
    | err e => rfl

/-- Under the bound no machine operation of the Huffman decoder overflows, underflows, over-shifts or
    indexes out of range, and the checked decoder is the model. -/
theorem hdecodeC_eq (inp : List Nat) (hL : 8 * inp.length + 8 < 2 ^ 32) :
    hdecodeC inp = some (hdecodeX inp) :=
  decodeAllC_eq _ inp hL _ _ (by simp [BitWindow.endPos])

/-- The bound is needed: 2^29 bytes or more (any bytes) overflow in the first `read_bits` —
    `src.len() as u32 * 8` does not fit, or (from 2^32 bytes on) the cast `src.len() as u32` loses bits
    (D-06u's witness `huff decn 00 536870912`). -/
theorem hdecodeC_overflow (inp : List Nat) (h1 : 2 ^ 29 ≤ inp.length) : hdecodeC inp = none := by
  have hroot : ∃ tbl, H3.Gen.HuffDec.root = .mk 5 tbl := ⟨_, rfl⟩
  obtain ⟨tbl, hr⟩ := hroot
  have hm : ¬ inp.length * 8 < 2 ^ 32 := by omega
  have hn : decodeNextC (.mk 5 tbl) ⟨0, 0, 0⟩ inp = none := by
    rw [decodeNextC]
    simp only [BitWindow.forwardsC, add32, readBitsC, mul32]
    by_cases h2 : inp.length < 2 ^ 32
    · simp [hm, h2]
    · simp [h2]
  rw [hdecodeC, decodeAllC, hr, hn]

end H3.Huffman

namespace H3.PrefixString

theorem decodePayloadC_eq (flags len : Nat) (rest : List Nat)
    (h : flags % 2 = 1 → 8 * len + 8 < 2 ^ 32) :
    decodePayloadC flags len rest = some (decodePayload flags len rest) := by
  unfold decodePayloadC decodePayload
  by_cases hl : rest.length < len
  · rw [if_pos hl, if_pos hl]
  · rw [if_neg hl, if_neg hl]
    by_cases hf : flags % 2 = 0
    · simp only [if_pos hf]
    · simp only [if_neg hf]
      have hlen : (rest.take len).length = len := by rw [List.length_take]; omega
      have hb : 8 * (rest.take len).length + 8 < 2 ^ 32 := by rw [hlen]; exact h (by omega)
      rw [Huffman.hdecodeC_eq _ hb]
      simp only [Huffman.hdecode]
      cases Huffman.hdecodeX (rest.take len) with
      | error e => rfl
      | ok v => rfl

/-- With the refusal in `prefix_string::decode` the Huffman decoder's arithmetic never overflows, whatever
    the input and the size argument. -/
theorem decodeGC?_true (n : Nat) (bs : List Nat) : decodeGC? true n bs = decodeG? true n bs := by
  unfold decodeGC? decodeG?
  by_cases hn : n = 0
  · rw [if_pos hn, if_pos hn]
  · rw [if_neg hn, if_neg hn]
    cases PrefixInt.decode? (n - 1) bs with
    | none => rfl
    | some r =>
      cases r with
      | endOf => rfl
      | overflow => rfl
      | ok flags len rest =>
        simp only
        by_cases hg : (true && hugeHuffman flags len) = true
        · rw [if_pos hg, if_pos hg]
        · rw [if_neg hg, if_neg hg]
          apply decodePayloadC_eq
          intro hf
          simp only [hugeHuffman, Bool.true_and, Bool.and_eq_true, beq_iff_eq, decide_eq_true_eq, not_and,
            Nat.not_le] at hg
          have := hg hf
          omega

end H3.PrefixString
