import H3.Model.Datagram
import H3.Gen.DgSendArms
/-! Agreement of the datagram sender's error model (`H3.Datagram.handleSendError`, `convertOrigin`; C18, C19, C05)
    with what the translator reads, on every run, in `DatagramSender::handle_send_datagram_error`
    (h3-datagram/src/datagram_handler.rs) and in the two functions of h3 its `ConnectionError` arm goes through
    (`CloseStream::handle_quic_stream_error`, `convert_to_connection_error`): `H3.Gen.DgSendArms`, `tools/extract.py`
    `dg_send_arms`.

    The generated arms are *run* (`genHandle`, `genConvert`: the first matching arm of `convert_to_connection_error`)
    and proved equal to the model's functions on every input.  With the shape of the arm before the repair of
    D-05g / D-18b (`connArm = .ownRemote`: the transport's own error wrapped in `Remote`, the cell's winner dropped)
    there is no such equality (`ownRemote_differs`), and this file does not build. -/
namespace H3.GenAgree.DgSend
open H3.Datagram
open H3.Gen.DgSendArms

def toArm : H3.Gen.DgSendArms.ConnArm → H3.Datagram.ConnArm
  | .cellWinner => .cellWinner
  | .ownRemote => .ownRemote

def patMatches : OriginPat → Origin → Bool
  | .internal, .internal _ => true
  | .quicTimeout, .quic .timeout => true
  | .quicAny, .quic _ => true
  | _, _ => false

def build : Conv → Origin → Option ConnErr
  | .localApplication, .internal c => some (.local_ c)
  | .timeout, _ => some .timeout
  | .remote, .quic e => some (.remote e)
  | _, _ => none

/-- a `match`: the first arm whose pattern matches (`none` = no arm, or an arm that builds from a field the
    pattern does not bind) -/
def runConvert : List (OriginPat × Conv) → Origin → Option ConnErr
  | [], _ => none
  | (p, c) :: rest, o => if patMatches p o then build c o else runConvert rest o

def genConvert (o : Origin) : Option ConnErr := runConvert convertArms o

def plainOut : Plain → SendErr
  | .notAvailable => .notAvailable
  | .tooLarge => .tooLarge

/-- the generated `match error { .. }` of `handle_send_datagram_error`, the `ConnectionError` arm through the
    generated conversion -/
def genHandle (cell : Option Origin) : SendIn → Option (SendErr × Option CE)
  | .notAvailable => (plainArms[0]?).map (fun p => (plainOut p, none))
  | .tooLarge => (plainArms[1]?).map (fun p => (plainOut p, none))
  | .conn e =>
    match H3.Gen.DgSendArms.connArm with
    | .cellWinner => (genConvert (cellAfter cell (.quic e))).map (fun c => (.conn c, some e))
    | .ownRemote => some (.conn (.remote e), some e)

/-- `convert_to_connection_error` as read from the tree is the model's `convertOrigin` -/
theorem convert_agrees (o : Origin) : genConvert o = some (convertOrigin o) := by
  cases o with
  | internal c => rfl
  | quic e => cases e <;> rfl

/-- the arm the model follows is the arm of the tree -/
theorem connArm_agrees : toArm H3.Gen.DgSendArms.connArm = H3.Datagram.connArm := rfl

/-- **`handle_send_datagram_error` as read from the tree is the model**, for every state of the cell and every
    answer of the transport -/
theorem handle_agrees (cell : Option Origin) (a : SendIn) : genHandle cell a = some (handleSendError cell a) := by
  cases a with
  | notAvailable => rfl
  | tooLarge => rfl
  | conn e =>
    have h : genHandle cell (.conn e)
        = (genConvert (cellAfter cell (.quic e))).map (fun c => (SendErr.conn c, some e)) := rfl
    rw [h, convert_agrees]; rfl

theorem handleBy_agrees (cell : Option Origin) (a : SendIn) :
    handleSendErrorBy (toArm H3.Gen.DgSendArms.connArm) cell a = handleSendError cell a := by
  cases a <;> rfl

/-- the former shape is a different function: an idle timeout that is the connection's first error (D-18b), and a
    transport error behind an error h3 detected itself (D-05g) -/
theorem ownRemote_differs :
    handleSendErrorBy .ownRemote none (.conn .timeout) ≠ handleSendError none (.conn .timeout) ∧
    handleSendErrorBy .ownRemote (some (.internal 0x105)) (.conn .timeout)
      ≠ handleSendError (some (.internal 0x105)) (.conn .timeout) := by decide

end H3.GenAgree.DgSend
