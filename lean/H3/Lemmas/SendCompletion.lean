import H3.Lemmas.WriteBuf
/-! Lemmas for `C06_send_completion`: the send-side calls (`WriteBuf.callE`) against a transport
    whose answers include errors (STOP_SENDING ⇒ `StreamTerminated`, connection close / timeout ⇒
    a connection error).  Per stage (`wait` = `poll_open_bidi` / `poll_finish`, `write` = one
    `stream::write`): what each outcome says about the script (`StageOK`) and how the outcome
    changes when more answers arrive (`StageExt`); then the composition over the stages. -/
namespace H3.WriteBuf
open H3.Varint H3.Gen.Consts H3.Gen.WriteBuf

/-- the script contains no error answer -/
def NoErr (sc : List Acc) : Prop := ∀ e, Acc.err e ∉ sc

theorem noErr_nil : NoErr [] := fun _ h => by cases h

theorem noErr_cons_take {k : Nat} {sc : List Acc} (h : NoErr sc) : NoErr (.take k :: sc) := by
  intro e he
  rcases List.mem_cons.mp he with h1 | h1
  · cases h1
  · exact h e h1

theorem noErr_append {a b : List Acc} (ha : NoErr a) (hb : NoErr b) : NoErr (a ++ b) := by
  intro e he
  rcases List.mem_append.mp he with h | h
  · exact ha e h
  · exact hb e h

theorem posTakes_append (a b : List Acc) : posTakes (a ++ b) = posTakes a + posTakes b := by
  induction a with
  | nil => simp [posTakes]
  | cons x r ih =>
    cases x with
    | err e => simpa [posTakes] using ih
    | take k =>
      cases k with
      | zero => simpa [posTakes] using ih
      | succ n => simp only [List.cons_append, posTakes, ih]; omega

/-! ### one `stream::write` -/

theorem drainE_zero (w : WB) (out : Bytes) (sc : List Acc) (h : w.remaining = 0) :
    w.drainE out sc = .ready out sc := by
  cases sc with
  | nil => simp [WB.drainE, h]
  | cons a r => cases a <;> simp [WB.drainE, h]

/-- what an outcome of the write loop says about the script and about the bytes -/
def DrainOK (w : WB) (out : Bytes) (sc : List Acc) : WriteResE → Prop
  | .ready out' rest => out' = out ++ w.view ∧
      ∃ used, sc = used ++ rest ∧ NoErr used ∧ posTakes used ≤ w.remaining
  | .failed out' e => ∃ pre post t, sc = pre ++ .err e :: post ∧ NoErr pre ∧ out' ++ t = out ++ w.view
  | .pending out' left => NoErr sc ∧ posTakes sc < w.remaining ∧ left.WF ∧ left.remaining ≠ 0 ∧
      out' ++ left.view = out ++ w.view
  | .panic => False

theorem drainE_ok (w : WB) (hwf : w.WF) (out : Bytes) (sc : List Acc) :
    DrainOK w out sc (w.drainE out sc) := by
  induction sc generalizing w out with
  | nil =>
    by_cases h : w.remaining = 0
    · have hv : w.view = [] := by
        apply List.eq_nil_of_length_eq_zero; rw [← remaining_eq_view w hwf]; exact h
      simp only [WB.drainE, h, if_true, DrainOK, hv, List.append_nil, true_and]
      exact ⟨[], rfl, noErr_nil, by simp [posTakes]⟩
    · simp only [WB.drainE, h, if_false, DrainOK]
      exact ⟨noErr_nil, by simp only [posTakes]; omega, hwf, h, trivial⟩
  | cons a r ih =>
    by_cases h : w.remaining = 0
    · have hv : w.view = [] := by
        apply List.eq_nil_of_length_eq_zero; rw [← remaining_eq_view w hwf]; exact h
      rw [drainE_zero w out _ h]
      simp only [DrainOK, hv, List.append_nil, true_and]
      exact ⟨[], rfl, noErr_nil, by simp [posTakes]⟩
    · cases a with
      | err e =>
        simp only [WB.drainE, h, if_false, DrainOK]
        exact ⟨[], r, w.view, rfl, noErr_nil, rfl⟩
      | take k =>
        obtain ⟨o, w1, hs, hwf1, hv1, _, hprog⟩ := step_spec w hwf k
        have hrem : w.remaining = o.length + w1.remaining := by
          rw [remaining_eq_view w hwf, remaining_eq_view w1 hwf1, ← hv1]; simp
        have hne : w.view ≠ [] := by
          intro hnil
          have := remaining_eq_view w hwf
          rw [hnil] at this
          exact h (by simpa using this)
        have hstep : w.drainE out (.take k :: r) = w1.drainE (out ++ o) r := by
          simp only [WB.drainE, h, if_false, hs]
        rw [hstep]
        have ih1 := ih w1 hwf1 (out ++ o)
        have hpos : posTakes (.take k :: r) ≤ posTakes r + o.length ∧
            ∀ u : List Acc, posTakes (.take k :: u) ≤ posTakes u + o.length := by
          cases k with
          | zero => exact ⟨by simp [posTakes], fun u => by simp [posTakes]⟩
          | succ n =>
            have : 0 < o.length := List.length_pos_iff.mpr (hprog (by omega) hne)
            exact ⟨by simp only [posTakes]; omega, fun u => by simp only [posTakes]; omega⟩
        cases hres : w1.drainE (out ++ o) r with
        | ready out' rest =>
          rw [hres] at ih1
          obtain ⟨h1, used, h2, h3, h4⟩ := ih1
          refine ⟨by rw [h1, List.append_assoc, hv1], .take k :: used, by rw [h2]; rfl,
            noErr_cons_take h3, ?_⟩
          have := hpos.2 used
          omega
        | failed out' e =>
          rw [hres] at ih1
          obtain ⟨pre, post, t, h1, h2, h3⟩ := ih1
          exact ⟨.take k :: pre, post, t, by rw [h1]; rfl, noErr_cons_take h2,
            by rw [h3, List.append_assoc, hv1]⟩
        | pending out' left =>
          rw [hres] at ih1
          obtain ⟨h1, h2, h3, h4, h5⟩ := ih1
          refine ⟨noErr_cons_take h1, ?_, h3, h4, by rw [h5, List.append_assoc, hv1]⟩
          have := hpos.1
          omega
        | panic =>
          rw [hres] at ih1
          exact ih1

/-- how the outcome changes when the transport has more answers -/
def DrainExt (w : WB) (out : Bytes) (sc more : List Acc) : WriteResE → Prop
  | .ready out' rest => w.drainE out (sc ++ more) = .ready out' (rest ++ more)
  | .failed out' e => w.drainE out (sc ++ more) = .failed out' e
  | .pending out' left => w.drainE out (sc ++ more) = left.drainE out' more
  | .panic => w.drainE out (sc ++ more) = .panic

theorem drainE_ext (w : WB) (out : Bytes) (sc more : List Acc) :
    DrainExt w out sc more (w.drainE out sc) := by
  induction sc generalizing w out with
  | nil =>
    by_cases h : w.remaining = 0
    · simp only [WB.drainE, h, if_true, DrainExt, List.nil_append]
      exact drainE_zero w out more h
    · simp only [WB.drainE, h, if_false, DrainExt, List.nil_append]
  | cons a r ih =>
    by_cases h : w.remaining = 0
    · rw [drainE_zero w out _ h]
      simp only [DrainExt]
      exact drainE_zero w out _ h
    · cases a with
      | err e => simp only [WB.drainE, h, if_false, DrainExt, List.cons_append]
      | take k =>
        cases hs : w.step k with
        | none => simp only [WB.drainE, h, if_false, hs, DrainExt, List.cons_append]
        | some p =>
          obtain ⟨o, w1⟩ := p
          have h1 : w.drainE out (.take k :: r) = w1.drainE (out ++ o) r := by
            simp only [WB.drainE, h, if_false, hs]
          have h2 : w.drainE out (.take k :: r ++ more) = w1.drainE (out ++ o) (r ++ more) := by
            simp only [List.cons_append, WB.drainE, h, if_false, hs]
          rw [h1]
          have := ih w1 (out ++ o)
          cases hres : w1.drainE (out ++ o) r <;> rw [hres] at this <;>
            simp only [DrainExt] at this ⊢ <;> rw [h2] <;> exact this

/-! ### one stage -/

def Stage.WF : Stage → Prop
  | .wait => True
  | .write w => w.WF

def StageOK (s : Stage) (out : Bytes) (sc : List Acc) : StageRes → Prop
  | .done out' rest => out' = out ++ s.content ∧
      ∃ used, sc = used ++ rest ∧ NoErr used ∧ posTakes used ≤ s.need
  | .failed out' e => ∃ pre post t, sc = pre ++ .err e :: post ∧ NoErr pre ∧ out' ++ t = out ++ s.content
  | .pending out' => NoErr sc ∧ posTakes sc < s.need ∧ ∃ t, out' ++ t = out ++ s.content
  | .panic => False

def StageExt (s : Stage) (out : Bytes) (sc : List Acc) : StageRes → Prop
  | .done out' rest => ∀ more, s.run out (sc ++ more) = .done out' (rest ++ more)
  | .failed out' e => ∀ more, s.run out (sc ++ more) = .failed out' e
  | .pending out' => ∀ e more, s.run out (sc ++ .err e :: more) = .failed out' e
  | .panic => True

theorem waitE_ok (out : Bytes) (sc : List Acc) : StageOK .wait out sc (waitE out sc) := by
  induction sc with
  | nil =>
    simp only [waitE, StageOK, Stage.need, Stage.content, List.append_nil]
    exact ⟨noErr_nil, by simp [posTakes], [], by simp⟩
  | cons a r ih =>
    cases a with
    | err e =>
      simp only [waitE, StageOK, Stage.content, List.append_nil]
      exact ⟨[], r, [], rfl, noErr_nil, by simp⟩
    | take k =>
      cases k with
      | succ n =>
        simp only [waitE, StageOK, Stage.need, Stage.content, List.append_nil, true_and]
        exact ⟨[.take (n + 1)], rfl, noErr_cons_take noErr_nil, by simp [posTakes]⟩
      | zero =>
        simp only [waitE]
        cases hres : waitE out r with
        | done out' rest =>
          rw [hres] at ih
          obtain ⟨h1, used, h2, h3, h4⟩ := ih
          exact ⟨h1, .take 0 :: used, by rw [h2]; rfl, noErr_cons_take h3, by simpa [posTakes] using h4⟩
        | failed out' e =>
          rw [hres] at ih
          obtain ⟨pre, post, t, h1, h2, h3⟩ := ih
          exact ⟨.take 0 :: pre, post, t, by rw [h1]; rfl, noErr_cons_take h2, h3⟩
        | pending out' =>
          rw [hres] at ih
          obtain ⟨h1, h2, h3⟩ := ih
          exact ⟨noErr_cons_take h1, by simpa [posTakes] using h2, h3⟩
        | panic =>
          rw [hres] at ih
          exact ih

theorem waitE_ext (out : Bytes) (sc : List Acc) : StageExt .wait out sc (waitE out sc) := by
  induction sc with
  | nil =>
    simp only [waitE, StageExt, Stage.run, List.nil_append]
    intro e more; trivial
  | cons a r ih =>
    cases a with
    | err e => simp only [waitE, StageExt, Stage.run, List.cons_append]; intro more; trivial
    | take k =>
      cases k with
      | succ n => simp only [waitE, StageExt, Stage.run, List.cons_append]; intro more; trivial
      | zero =>
        simp only [waitE]
        cases hres : waitE out r <;> rw [hres] at ih <;>
          simp only [StageExt, Stage.run, List.cons_append, waitE] at ih ⊢ <;> exact ih

theorem stage_ok (s : Stage) (hwf : s.WF) (out : Bytes) (sc : List Acc) :
    StageOK s out sc (s.run out sc) := by
  cases s with
  | wait => exact waitE_ok out sc
  | write w =>
    have h := drainE_ok w hwf out sc
    simp only [Stage.run]
    cases hres : w.drainE out sc with
    | ready out' rest =>
      rw [hres] at h
      exact h
    | failed out' e =>
      rw [hres] at h
      exact h
    | pending out' left =>
      rw [hres] at h
      obtain ⟨h1, h2, _, _, h5⟩ := h
      exact ⟨h1, h2, left.view, h5⟩
    | panic =>
      rw [hres] at h
      exact h

theorem stage_ext (s : Stage) (hwf : s.WF) (out : Bytes) (sc : List Acc) :
    StageExt s out sc (s.run out sc) := by
  cases s with
  | wait => exact waitE_ext out sc
  | write w =>
    have hok := drainE_ok w hwf out sc
    simp only [Stage.run]
    cases hres : w.drainE out sc with
    | ready out' rest =>
      intro more
      have := drainE_ext w out sc more
      rw [hres] at this
      simp only [DrainExt] at this
      simp only [Stage.run, this, WriteResE.stage]
    | failed out' e =>
      intro more
      have := drainE_ext w out sc more
      rw [hres] at this
      simp only [DrainExt] at this
      simp only [Stage.run, this, WriteResE.stage]
    | pending out' left =>
      intro e more
      have := drainE_ext w out sc (.err e :: more)
      rw [hres] at this hok
      simp only [DrainExt] at this
      obtain ⟨_, _, _, h4, _⟩ := hok
      simp only [Stage.run, this, WB.drainE, h4, if_false, WriteResE.stage]
    | panic => trivial

/-! ### a whole call -/

def need (ss : List Stage) : Nat := (ss.map Stage.need).sum
def content (ss : List Stage) : Bytes := (ss.map Stage.content).flatten

def CallOK (ss : List Stage) (out : Bytes) (sc : List Acc) : CallRes → Prop
  | .ok out' => out' = out ++ content ss
  | .failed out' e => (∃ pre post, sc = pre ++ .err e :: post ∧ NoErr pre) ∧
      (∃ t, out' ++ t = out ++ content ss) ∧ ∀ more, stagesE ss out (sc ++ more) = .failed out' e
  | .pending out' => NoErr sc ∧ posTakes sc < need ss ∧ (∃ t, out' ++ t = out ++ content ss) ∧
      ∀ e more, stagesE ss out (sc ++ .err e :: more) = .failed out' e
  | .panic => False

theorem stagesE_ok (ss : List Stage) (hwf : ∀ s ∈ ss, s.WF) (out : Bytes) (sc : List Acc) :
    CallOK ss out sc (stagesE ss out sc) := by
  induction ss generalizing out sc with
  | nil => simp [stagesE, CallOK, content]
  | cons s ss ih =>
    have hs := stage_ok s (hwf s (by simp)) out sc
    have he := stage_ext s (hwf s (by simp)) out sc
    have hc : content (s :: ss) = s.content ++ content ss := by simp [content]
    have hn : need (s :: ss) = s.need + need ss := by simp [need]
    simp only [stagesE]
    cases hres : s.run out sc with
    | done out' rest =>
      rw [hres] at hs he
      obtain ⟨h1, used, h2, h3, h4⟩ := hs
      simp only [StageExt] at he
      have ih' := ih (fun t ht => hwf t (by simp [ht])) out' rest
      simp only
      cases hr : stagesE ss out' rest with
      | ok o2 =>
        rw [hr] at ih'
        simp only [CallOK] at ih' ⊢
        rw [ih', h1, hc, List.append_assoc]
      | failed o2 e =>
        rw [hr] at ih'
        obtain ⟨⟨pre, post, hp1, hp2⟩, ⟨t, ht⟩, hx⟩ := ih'
        refine ⟨⟨used ++ pre, post, by rw [h2, hp1, List.append_assoc], noErr_append h3 hp2⟩,
          ⟨t, by rw [ht, h1, hc, List.append_assoc]⟩, fun more => ?_⟩
        simp only [stagesE, he more]
        exact hx more
      | pending o2 =>
        rw [hr] at ih'
        obtain ⟨hp1, hp2, ⟨t, ht⟩, hx⟩ := ih'
        refine ⟨by rw [h2]; exact noErr_append h3 hp1, ?_, ⟨t, by rw [ht, h1, hc, List.append_assoc]⟩,
          fun e more => ?_⟩
        · rw [h2, posTakes_append, hn]; omega
        · simp only [stagesE, he (.err e :: more)]
          exact hx e more
      | panic =>
        rw [hr] at ih'
        exact ih'
    | failed out' e =>
      rw [hres] at hs he
      obtain ⟨pre, post, t, h1, h2, h3⟩ := hs
      simp only [StageExt] at he
      refine ⟨⟨pre, post, h1, h2⟩, ⟨t ++ content ss, by rw [← List.append_assoc, h3, hc, List.append_assoc]⟩,
        fun more => ?_⟩
      simp only [stagesE, he more]
    | pending out' =>
      rw [hres] at hs he
      obtain ⟨h1, h2, t, h3⟩ := hs
      simp only [StageExt] at he
      refine ⟨h1, by rw [hn]; omega, ⟨t ++ content ss, by rw [← List.append_assoc, h3, hc, List.append_assoc]⟩,
        fun e more => ?_⟩
      simp only [stagesE, he e more]
    | panic =>
      rw [hres] at hs
      exact hs

theorem stages_wf (c : SendCall) (hwf : ∀ w ∈ c.writes, w.WF) : ∀ s ∈ c.stages, s.WF := by
  intro s hs
  simp only [SendCall.stages, List.mem_append, List.mem_map] at hs
  rcases hs with (hs | ⟨w, hw, rfl⟩) | hs
  · split at hs
    · simp only [List.mem_cons, List.not_mem_nil, or_false] at hs; subst hs; trivial
    · cases hs
  · exact hwf w hw
  · split at hs
    · simp only [List.mem_cons, List.not_mem_nil, or_false] at hs; subst hs; trivial
    · cases hs

end H3.WriteBuf
