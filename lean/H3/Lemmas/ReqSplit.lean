import H3.Lemmas.ReqRecv
set_option linter.unusedSimpArgs false
/-! `RequestStream::split` in the scenario machine `Sim` (what the correspondence run executes): a
    `split` posted anywhere — before, between or behind the receive calls, while a call is waiting
    (it then waits in the mailbox), twice, to a task that has ended — changes nothing but its own
    entries in the log: the stream state (buffered bytes, decoder state, `remaining_data`, saved
    trailers, the error cell and the resets), the task's life, the call in progress, the calls
    waiting and every other log entry are what they are without it (`SimEq`, `runOps_noSp`). -/
namespace H3.ReqRecv

def Call.isSp (c : Call) : Bool := c.cmd == .sp
def notSpL (e : Cmd × Ans) : Bool := e.1 != .sp
def Op.isSpCall : Op → Bool
  | .call c => c.isSp
  | _ => false

/-- equal up to `split` entries in the log and `split` calls waiting in the mailbox -/
structure SimEq (a b : Sim) : Prop where
  role : a.role = b.role
  st : a.st = b.st
  alive : a.alive = b.alive
  resolved : a.resolved = b.resolved
  inflight : a.inflight = b.inflight
  mailbox : a.mailbox.filter (fun c => !c.isSp) = b.mailbox.filter (fun c => !c.isSp)
  log : a.log.filter notSpL = b.log.filter notSpL

theorem SimEq.refl (a : Sim) : SimEq a a := ⟨rfl, rfl, rfl, rfl, rfl, rfl, rfl⟩
theorem SimEq.symm {a b : Sim} (h : SimEq a b) : SimEq b a :=
  ⟨h.role.symm, h.st.symm, h.alive.symm, h.resolved.symm, h.inflight.symm, h.mailbox.symm, h.log.symm⟩
theorem SimEq.trans {a b c : Sim} (h : SimEq a b) (g : SimEq b c) : SimEq a c :=
  ⟨h.role.trans g.role, h.st.trans g.st, h.alive.trans g.alive, h.resolved.trans g.resolved,
   h.inflight.trans g.inflight, h.mailbox.trans g.mailbox, h.log.trans g.log⟩

/-- a task with no call in progress has nothing waiting -/
def Sim.WFm (m : Sim) : Prop := m.inflight = none → m.mailbox = []

theorem recvHalf_eq {σ : Type} (st : St σ) : st.recvHalf = st := rfl

/-- `split` is carried out at once and leaves everything but the log as it is -/
theorem attempt_sp (H : Hdr) (m : Sim) (c : Call) (hc : c.isSp = true) (fuel : Nat) :
    attempt H m c (fuel + 1) = some { m with log := (.sp, .ok) :: m.log } := by
  have : c.cmd = .sp := by simpa [Call.isSp] using hc
  rw [attempt]
  simp only [this]
  rfl

theorem accepts_eq {a b : Sim} (h : SimEq a b) (c : Cmd) : accepts a c = accepts b c := by
  unfold accepts
  rw [h.role, h.resolved]

/-- the same call on machines that are equal up to `split` entries: the same answer, and equal again -/
theorem attempt_congr (H : Hdr) (c : Call) (hc : c.isSp = false) : ∀ (fuel : Nat) (a b : Sim), SimEq a b →
    (attempt H a c fuel = none ∧ attempt H b c fuel = none) ∨
    (∃ a' b', attempt H a c fuel = some a' ∧ attempt H b c fuel = some b' ∧ SimEq a' b') := by
  have hne : c.cmd ≠ .sp := by
    intro h; simp [Call.isSp, h] at hc
  intro fuel
  induction fuel with
  | zero =>
    intro a b h
    refine Or.inr ⟨_, _, rfl, rfl, ⟨h.role, h.st, h.alive, h.resolved, h.inflight, h.mailbox, ?_⟩⟩
    have : notSpL (c.cmd, Ans.res Res.invalid) = true := by simp [notSpL, hne]
    simp [List.filter_cons, this, h.log]
  | succ f ih =>
    intro a b h
    have hfuel : a.fuel = b.fuel := by simp only [Sim.fuel, h.st]
    cases hcmd : c.cmd with
    | sp => exact absurd hcmd hne
    | res =>
      simp only [attempt, hcmd, h.st]
      split
      · exact Or.inl ⟨rfl, rfl⟩
      · refine Or.inr ⟨_, _, rfl, rfl, ⟨h.role, rfl, rfl, rfl, h.inflight, h.mailbox, ?_⟩⟩
        simp [List.filter_cons, notSpL, h.log]
    | rr =>
      simp only [attempt, hcmd, h.st]
      split
      · exact Or.inl ⟨rfl, rfl⟩
      · refine Or.inr ⟨_, _, rfl, rfl, ⟨h.role, rfl, rfl, h.resolved, h.inflight, h.mailbox, ?_⟩⟩
        simp [List.filter_cons, notSpL, h.log]
    | rd =>
      simp only [attempt, hcmd, h.st, hfuel]
      split
      · exact Or.inl ⟨rfl, rfl⟩
      · refine Or.inr ⟨_, _, rfl, rfl, ⟨h.role, rfl, rfl, h.resolved, h.inflight, h.mailbox, ?_⟩⟩
        simp [List.filter_cons, notSpL, h.log]
    | rt =>
      simp only [attempt, hcmd, h.st]
      split
      · exact Or.inl ⟨rfl, rfl⟩
      · refine Or.inr ⟨_, _, rfl, rfl, ⟨h.role, rfl, rfl, h.resolved, h.inflight, h.mailbox, ?_⟩⟩
        simp [List.filter_cons, notSpL, h.log]
    | rda =>
      rw [attempt, attempt]
      simp only [hcmd, h.st, hfuel]
      rcases hq : pollRecvData fsSrc b.fuel b.st with ⟨r, st'⟩
      cases r with
      | pending => exact Or.inl ⟨rfl, rfl⟩
      | data d =>
        simp only
        have h' : SimEq { a with st := st', log := (Cmd.rd, Ans.res (Res.data d)) :: a.log }
            { b with st := st', log := (Cmd.rd, Ans.res (Res.data d)) :: b.log } :=
          ⟨h.role, rfl, h.alive, h.resolved, h.inflight, h.mailbox, by simp [List.filter_cons, notSpL, h.log]⟩
        rcases ih _ _ h' with ⟨h1, h2⟩ | ⟨a', b', h1, h2, h3⟩
        · rw [h1, h2]
          exact Or.inr ⟨_, _, rfl, rfl, ⟨h'.role, h'.st, h'.alive, h'.resolved, rfl, h'.mailbox, h'.log⟩⟩
        · rw [h1, h2]
          exact Or.inr ⟨_, _, rfl, rfl, h3⟩
      | _ =>
        refine Or.inr ⟨_, _, rfl, rfl, ⟨h.role, rfl, by simp [h.alive], h.resolved, h.inflight, h.mailbox, ?_⟩⟩
        simp [List.filter_cons, notSpL, h.log]

/-- what a completed attempt leaves of the call in progress: nothing, except for the body loop
    that made progress and waits again -/
theorem attempt_inflight (H : Hdr) (c : Call) : ∀ (fuel : Nat) (m m' : Sim), m.inflight = none →
    attempt H m c fuel = some m' → m'.inflight = none ∨ m'.inflight = some c := by
  intro fuel
  induction fuel with
  | zero => intro m m' hm h; simp only [attempt, Option.some.injEq] at h; subst h; exact Or.inl hm
  | succ f ih =>
    intro m m' hm h
    cases hcmd : c.cmd with
    | sp => simp only [attempt, hcmd, Option.some.injEq] at h; subst h; exact Or.inl hm
    | res =>
      simp only [attempt, hcmd] at h
      split at h
      · cases h
      · simp only [Option.some.injEq] at h; subst h; exact Or.inl hm
    | rr =>
      simp only [attempt, hcmd] at h
      split at h
      · cases h
      · simp only [Option.some.injEq] at h; subst h; exact Or.inl hm
    | rd =>
      simp only [attempt, hcmd] at h
      split at h
      · cases h
      · simp only [Option.some.injEq] at h; subst h; exact Or.inl hm
    | rt =>
      simp only [attempt, hcmd] at h
      split at h
      · cases h
      · simp only [Option.some.injEq] at h; subst h; exact Or.inl hm
    | rda =>
      rw [attempt] at h
      simp only [hcmd] at h
      rcases hq : pollRecvData fsSrc m.fuel m.st with ⟨r, st'⟩
      rw [hq] at h
      cases r with
      | pending => cases h
      | data d =>
        simp only at h
        cases hrec : attempt H { m with st := st', log := (Cmd.rd, Ans.res (Res.data d)) :: m.log } c f with
        | some m'' =>
          rw [hrec] at h
          simp only [Option.some.injEq] at h
          subst h
          exact ih { m with st := st', log := (Cmd.rd, Ans.res (Res.data d)) :: m.log } m'' hm hrec
        | none =>
          rw [hrec] at h
          simp only [Option.some.injEq] at h
          subst h
          exact Or.inr rfl
      | _ => simp only [Option.some.injEq] at h; subst h; exact Or.inl hm

/-! equations of `runQueue` and `Sim.step`, one per branch -/

theorem runQueue_dead (H : Hdr) (c : Call) (rest : List Call) (a : Sim) (h : a.alive = false) :
    runQueue H (c :: rest) a = { a with mailbox := [] } := by
  rw [runQueue]; simp [h]

theorem runQueue_bad (H : Hdr) (c : Call) (rest : List Call) (a : Sim) (h : a.alive = true)
    (hacc : accepts a c.cmd = false) :
    runQueue H (c :: rest) a = runQueue H rest { a with log := (c.cmd, .badCmd) :: a.log } := by
  rw [runQueue]; simp [h, hacc]

/-- what `runQueue` does with the outcome of an attempt -/
def afterAttempt (H : Hdr) (rest : List Call) (a : Sim) (c : Call) : Option Sim → Sim
  | none => { a with inflight := some c, mailbox := rest }
  | some m' =>
    match m'.inflight with
    | some _ => { m' with mailbox := rest }
    | none => runQueue H rest m'

theorem runQueue_run (H : Hdr) (c : Call) (rest : List Call) (a : Sim) (h : a.alive = true)
    (hacc : accepts a c.cmd = true) :
    runQueue H (c :: rest) a = afterAttempt H rest a c (attempt H a c (a.fuel + 1)) := by
  rw [runQueue, if_neg (by simp [h]), if_neg (by simp [hacc])]
  cases attempt H a c (a.fuel + 1) <;> rfl

theorem afterAttempt_idle (H : Hdr) (rest : List Call) (a : Sim) (c : Call) (m' : Sim) (hi : m'.inflight = none) :
    afterAttempt H rest a c (some m') = runQueue H rest m' := by
  simp only [afterAttempt]
  rw [hi]

theorem afterAttempt_busy (H : Hdr) (rest : List Call) (a : Sim) (c c' : Call) (m' : Sim)
    (hi : m'.inflight = some c') :
    afterAttempt H rest a c (some m') = { m' with mailbox := rest } := by
  simp only [afterAttempt]
  rw [hi]

/-- running a queue of calls: the `split` calls in it do not matter -/
theorem runQueue_congr (H : Hdr) : ∀ (l : List Call) (a b : Sim), SimEq a b → a.inflight = none →
    SimEq (runQueue H l a) (runQueue H (l.filter fun c => !c.isSp) b) ∧ (runQueue H l a).WFm := by
  intro l
  induction l with
  | nil =>
    intro a b h _
    exact ⟨⟨h.role, h.st, h.alive, h.resolved, h.inflight, rfl, h.log⟩, fun _ => rfl⟩
  | cons c rest ih =>
    intro a b h ha
    have hb : b.inflight = none := by rw [← h.inflight]; exact ha
    by_cases halive : a.alive = true
    · have hbalive : b.alive = true := by rw [← h.alive]; exact halive
      by_cases hsp : c.isSp = true
      · -- a `split`: carried out (or refused) at once, only the log changes
        have hfil : ((c :: rest).filter fun c => !c.isSp) = rest.filter fun c => !c.isSp := by
          simp [List.filter_cons, hsp]
        have hcmd : c.cmd = .sp := by simpa [Call.isSp] using hsp
        rw [hfil]
        by_cases hacc : accepts a c.cmd = true
        · rw [runQueue_run H c rest a halive hacc, attempt_sp H a c hsp,
            afterAttempt_idle H rest a c { a with log := (.sp, .ok) :: a.log } ha]
          exact ih { a with log := (.sp, .ok) :: a.log } b
            ⟨h.role, h.st, h.alive, h.resolved, h.inflight, h.mailbox,
              by simp [List.filter_cons, notSpL, h.log]⟩ ha
        · rw [runQueue_bad H c rest a halive (by simpa using hacc)]
          exact ih { a with log := (c.cmd, .badCmd) :: a.log } b
            ⟨h.role, h.st, h.alive, h.resolved, h.inflight, h.mailbox,
              by simp [List.filter_cons, notSpL, hcmd, h.log]⟩ ha
      · have hsp' : c.isSp = false := by simpa using hsp
        have hfil : ((c :: rest).filter fun c => !c.isSp) = c :: rest.filter fun c => !c.isSp := by
          simp [List.filter_cons, hsp']
        have hne : c.cmd ≠ .sp := by intro hc; simp [Call.isSp, hc] at hsp'
        rw [hfil]
        by_cases hacc : accepts a c.cmd = true
        · have hacc' : accepts b c.cmd = true := by rw [← accepts_eq h]; exact hacc
          rw [runQueue_run H c rest a halive hacc, runQueue_run H c _ b hbalive hacc']
          have hfuel : a.fuel = b.fuel := by simp only [Sim.fuel, h.st]
          rw [← hfuel]
          rcases attempt_congr H c hsp' (a.fuel + 1) a b h with ⟨h1, h2⟩ | ⟨a', b', h1, h2, h3⟩
          · rw [h1, h2]
            exact ⟨⟨h.role, h.st, h.alive, h.resolved, rfl, by simp [afterAttempt, List.filter_filter], h.log⟩,
              fun hc => by cases hc⟩
          · rw [h1, h2]
            rcases attempt_inflight H c _ a a' ha h1 with hi | hi
            · have hi' : b'.inflight = none := by rw [← h3.inflight]; exact hi
              rw [afterAttempt_idle H rest a c a' hi, afterAttempt_idle H _ b c b' hi']
              exact ih a' b' h3 hi
            · have hi' : b'.inflight = some c := by rw [← h3.inflight]; exact hi
              rw [afterAttempt_busy H rest a c c a' hi, afterAttempt_busy H _ b c c b' hi']
              exact ⟨⟨h3.role, h3.st, h3.alive, h3.resolved, h3.inflight, by simp [List.filter_filter], h3.log⟩,
                fun hc => absurd (hi.symm.trans hc) (by simp)⟩
        · have hacc0 : accepts a c.cmd = false := by simpa using hacc
          have hacc' : accepts b c.cmd = false := by rw [← accepts_eq h]; exact hacc0
          rw [runQueue_bad H c rest a halive hacc0, runQueue_bad H c _ b hbalive hacc']
          exact ih { a with log := (c.cmd, .badCmd) :: a.log } { b with log := (c.cmd, .badCmd) :: b.log }
            ⟨h.role, h.st, h.alive, h.resolved, h.inflight, h.mailbox,
              by simp [List.filter_cons, notSpL, hne, h.log]⟩ ha
    · have halive' : a.alive = false := by simpa using halive
      have hbalive : b.alive = false := by rw [← h.alive]; exact halive'
      rw [runQueue_dead H c rest a halive']
      refine ⟨?_, fun _ => rfl⟩
      cases hfl : ((c :: rest).filter fun c => !c.isSp) with
      | nil => exact ⟨h.role, h.st, h.alive, h.resolved, h.inflight, rfl, h.log⟩
      | cons c' r' =>
        rw [runQueue_dead H c' r' b hbalive]
        exact ⟨h.role, h.st, h.alive, h.resolved, h.inflight, rfl, h.log⟩

theorem runQueue_congr2 (H : Hdr) (l l' : List Call) (a b : Sim) (h : SimEq a b) (ha : a.inflight = none)
    (hl : (l.filter fun c => !c.isSp) = l'.filter fun c => !c.isSp) :
    SimEq (runQueue H l a) (runQueue H l' b) ∧ (runQueue H l a).WFm ∧ (runQueue H l' b).WFm := by
  have hb : b.inflight = none := by rw [← h.inflight]; exact ha
  obtain ⟨h1, w1⟩ := runQueue_congr H l a b h ha
  obtain ⟨h2, w2⟩ := runQueue_congr H l' b b (SimEq.refl b) hb
  rw [hl] at h1
  exact ⟨h1.trans h2.symm, w1, w2⟩

/-- the machine with one more event in its transport script -/
def Sim.arrive (m : Sim) (e : FS.Ev) : Sim :=
  { m with st := { m.st with src := (m.st.src.1, m.st.src.2 ++ [e]) } }

theorem step_ev_dead (H : Hdr) (e : FS.Ev) (a : Sim) (h : a.alive = false) : a.step H (.ev e) = a.arrive e := by
  simp [Sim.step, Sim.arrive, h]

theorem step_ev_idle (H : Hdr) (e : FS.Ev) (a : Sim) (h : a.alive = true) (hi : a.inflight = none) :
    a.step H (.ev e) = a.arrive e := by
  simp [Sim.step, Sim.arrive, h, hi]

theorem step_ev_run (H : Hdr) (e : FS.Ev) (a : Sim) (c : Call) (h : a.alive = true) (hi : a.inflight = some c) :
    a.step H (.ev e) = runQueue H (c :: a.mailbox) { a.arrive e with inflight := none } := by
  simp [Sim.step, Sim.arrive, h, hi]

theorem step_call_dead (H : Hdr) (c : Call) (a : Sim) (h : a.alive = false) :
    a.step H (.call c) = { a with log := (c.cmd, .noTask) :: a.log } := by
  simp [Sim.step, h]

theorem step_call_busy (H : Hdr) (c c0 : Call) (a : Sim) (h : a.alive = true) (hi : a.inflight = some c0) :
    a.step H (.call c) = { a with mailbox := a.mailbox ++ [c] } := by
  simp [Sim.step, h, hi]

theorem step_call_idle (H : Hdr) (c : Call) (a : Sim) (h : a.alive = true) (hi : a.inflight = none) :
    a.step H (.call c) = runQueue H [c] a := by
  simp [Sim.step, h, hi]

theorem arrive_eq {a b : Sim} (h : SimEq a b) (e : FS.Ev) : SimEq (a.arrive e) (b.arrive e) :=
  ⟨h.role, by simp [Sim.arrive, h.st], h.alive, h.resolved, h.inflight, h.mailbox, h.log⟩

/-- one op on machines equal up to `split` entries -/
theorem step_congr (H : Hdr) (op : Op) (a b : Sim) (h : SimEq a b) (wa : a.WFm) (wb : b.WFm) :
    SimEq (a.step H op) (b.step H op) ∧ (a.step H op).WFm ∧ (b.step H op).WFm := by
  cases op with
  | ev e =>
    have h1 := arrive_eq h e
    by_cases halive : a.alive = true
    · have hbalive : b.alive = true := by rw [← h.alive]; exact halive
      cases hi : a.inflight with
      | none =>
        have hi' : b.inflight = none := by rw [← h.inflight]; exact hi
        rw [step_ev_idle H e a halive hi, step_ev_idle H e b hbalive hi']
        exact ⟨h1, fun _ => wa hi, fun _ => wb hi'⟩
      | some c =>
        have hi' : b.inflight = some c := by rw [← h.inflight]; exact hi
        rw [step_ev_run H e a c halive hi, step_ev_run H e b c hbalive hi']
        refine runQueue_congr2 H _ _ _ _
          ⟨h1.role, h1.st, h1.alive, h1.resolved, rfl, h1.mailbox, h1.log⟩ rfl ?_
        have hm : (a.mailbox.filter fun c => !c.isSp) = b.mailbox.filter fun c => !c.isSp := h.mailbox
        by_cases hcs : c.isSp = true
        · simp [List.filter_cons, hcs, hm]
        · simp [List.filter_cons, hcs, hm]
    · have halive' : a.alive = false := by simpa using halive
      have hbalive : b.alive = false := by rw [← h.alive]; exact halive'
      rw [step_ev_dead H e a halive', step_ev_dead H e b hbalive]
      exact ⟨h1, wa, wb⟩
  | call c =>
    by_cases halive : a.alive = true
    · have hbalive : b.alive = true := by rw [← h.alive]; exact halive
      cases hi : a.inflight with
      | none =>
        have hi' : b.inflight = none := by rw [← h.inflight]; exact hi
        rw [step_call_idle H c a halive hi, step_call_idle H c b hbalive hi']
        exact runQueue_congr2 H [c] [c] a b h hi rfl
      | some c0 =>
        have hi' : b.inflight = some c0 := by rw [← h.inflight]; exact hi
        rw [step_call_busy H c c0 a halive hi, step_call_busy H c c0 b hbalive hi']
        refine ⟨⟨h.role, h.st, h.alive, h.resolved, h.inflight, ?_, h.log⟩, fun hc => ?_, fun hc => ?_⟩
        · have hm : (a.mailbox.filter fun c => !c.isSp) = b.mailbox.filter fun c => !c.isSp := h.mailbox
          simp [List.filter_append, hm]
        · exact absurd (hi.symm.trans hc) (by simp)
        · exact absurd (hi'.symm.trans hc) (by simp)
    · have halive' : a.alive = false := by simpa using halive
      have hbalive : b.alive = false := by rw [← h.alive]; exact halive'
      rw [step_call_dead H c a halive', step_call_dead H c b hbalive]
      refine ⟨⟨h.role, h.st, h.alive, h.resolved, h.inflight, h.mailbox, ?_⟩, wa, wb⟩
      have hl : a.log.filter notSpL = b.log.filter notSpL := h.log
      by_cases hs : notSpL (c.cmd, Ans.noTask) = true
      · simp [List.filter_cons, hs, hl]
      · simp [List.filter_cons, hs, hl]

/-- a `split` posted to the task: nothing but its own entries changes -/
theorem step_sp (H : Hdr) (c : Call) (hc : c.isSp = true) (a : Sim) (wa : a.WFm) :
    SimEq (a.step H (.call c)) a ∧ (a.step H (.call c)).WFm := by
  have hcmd : c.cmd = .sp := by simpa [Call.isSp] using hc
  by_cases halive : a.alive = true
  · cases hi : a.inflight with
    | none =>
      rw [step_call_idle H c a halive hi]
      obtain ⟨h1, w1⟩ := runQueue_congr H [c] a a (SimEq.refl a) hi
      have hf : ([c].filter fun c => !c.isSp) = [] := by simp [List.filter_cons, hc]
      rw [hf, runQueue] at h1
      refine ⟨h1.trans ⟨rfl, rfl, rfl, rfl, rfl, ?_, rfl⟩, w1⟩
      rw [wa hi]
    | some c0 =>
      rw [step_call_busy H c c0 a halive hi]
      refine ⟨⟨rfl, rfl, rfl, rfl, rfl, ?_, rfl⟩, fun h => absurd (hi.symm.trans h) (by simp)⟩
      simp [List.filter_append, hc]
  · have halive' : a.alive = false := by simpa using halive
    rw [step_call_dead H c a halive']
    refine ⟨⟨rfl, rfl, rfl, rfl, rfl, rfl, ?_⟩, wa⟩
    simp [List.filter_cons, notSpL, hcmd]

/-- **Splitting does not change what the receive side does.**  Remove every `split` from a scenario:
    the machine ends up equal up to the `split` entries of the log (and `split` calls still waiting). -/
theorem runOps_noSp (H : Hdr) : ∀ (ops : List Op) (a b : Sim), SimEq a b → a.WFm → b.WFm →
    SimEq (runOps H a ops) (runOps H b (ops.filter fun o => !o.isSpCall)) := by
  intro ops
  induction ops with
  | nil => intro a b h _ _; exact h
  | cons op rest ih =>
    intro a b h wa wb
    by_cases hs : op.isSpCall = true
    · have hf : ((op :: rest).filter fun o => !o.isSpCall) = rest.filter fun o => !o.isSpCall := by
        simp [List.filter_cons, hs]
      rw [hf]
      cases op with
      | ev e => simp [Op.isSpCall] at hs
      | call c =>
        obtain ⟨h1, w1⟩ := step_sp H c (by simpa [Op.isSpCall] using hs) a wa
        exact ih _ b (h1.trans h) w1 wb
    · have hf : ((op :: rest).filter fun o => !o.isSpCall) = op :: rest.filter fun o => !o.isSpCall := by
        simp [List.filter_cons, hs]
      rw [hf]
      obtain ⟨h1, w1, w2⟩ := step_congr H op a b h wa wb
      exact ih _ _ h1 w1 w2

end H3.ReqRecv
