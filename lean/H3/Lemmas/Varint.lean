import H3.Model.Varint
/-! Helper lemmas for the varint model. -/
namespace H3.Varint

theorem be1 (x : Nat) : be 1 x = [x % 256] := by simp [be]
theorem be2 (x : Nat) : be 2 x = [x / 256 % 256, x % 256] := by simp [be]
theorem be4 (x : Nat) :
    be 4 x = [x / 256 / 256 / 256 % 256, x / 256 / 256 % 256, x / 256 % 256, x % 256] := by
  simp [be]
theorem be8 (x : Nat) :
    be 8 x = [x / 256 / 256 / 256 / 256 / 256 / 256 / 256 % 256,
              x / 256 / 256 / 256 / 256 / 256 / 256 % 256,
              x / 256 / 256 / 256 / 256 / 256 % 256,
              x / 256 / 256 / 256 / 256 % 256,
              x / 256 / 256 / 256 % 256, x / 256 / 256 % 256, x / 256 % 256, x % 256] := by
  simp [be]

theorem be_length (n x : Nat) : (be n x).length = n := by
  induction n generalizing x with
  | zero => simp [be]
  | succ n ih => simp [be, ih]

theorem be_wf (n x : Nat) : WF (be n x) := by
  induction n generalizing x with
  | zero => simp [be, WF]
  | succ n ih =>
    intro b hb
    simp only [be, List.mem_append, List.mem_singleton] at hb
    rcases hb with hb | hb
    · exact ih _ b hb
    · subst hb; exact Nat.mod_lt _ (by decide)

theorem size_eq_of_lt {x : Nat} (h : x < 2^62) : size? x = some (size x) := by
  unfold size? size
  repeat' split
  all_goals first | rfl | omega


theorem decode1 (b0 : Nat) (r : Bytes) (h : b0 / 64 = 0) : decode (b0 :: r) = .ok (b0 % 64) r := by
  simp [decode, h]

theorem decode2 (b0 b1 : Nat) (r : Bytes) (h : b0 / 64 = 1) :
    decode (b0 :: b1 :: r) = .ok (b0 % 64 * 256 + b1) r := by
  simp [decode, h, beVal]

theorem decode4 (b0 b1 b2 b3 : Nat) (r : Bytes) (h : b0 / 64 = 2) :
    decode (b0 :: b1 :: b2 :: b3 :: r) = .ok (((b0 % 64 * 256 + b1) * 256 + b2) * 256 + b3) r := by
  simp [decode, h, beVal]

theorem decode8 (b0 b1 b2 b3 b4 b5 b6 b7 : Nat) (r : Bytes) (h : b0 / 64 = 3) :
    decode (b0 :: b1 :: b2 :: b3 :: b4 :: b5 :: b6 :: b7 :: r) =
      .ok (((((((b0 % 64 * 256 + b1) * 256 + b2) * 256 + b3) * 256 + b4) * 256 + b5) * 256 + b6)
            * 256 + b7) r := by
  simp [decode, h, beVal]

theorem decode_short (b0 : Nat) (r : Bytes) (h : r.length + 1 < 2 ^ (b0 / 64)) (hb : b0 < 256) :
    ∃ k, decode (b0 :: r) = .endOf k := by
  have htag : b0 / 64 = 0 ∨ b0 / 64 = 1 ∨ b0 / 64 = 2 ∨ b0 / 64 = 3 := by omega
  rcases htag with ht | ht | ht | ht
  · simp [ht] at h
  · simp [ht] at h
    have : r = [] := by cases r with | nil => rfl | cons _ _ => (simp at h; omega)
    subst this; simp [decode, ht]
  · simp [ht] at h
    have : r.length < 3 := by omega
    simp [decode, ht, this]
  · simp [ht] at h
    have : r.length < 7 := by omega
    simp [decode, ht, this]

end H3.Varint
