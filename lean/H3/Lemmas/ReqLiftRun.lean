import H3.Lemmas.ReqSimP
import H3.Lemmas.FrameStreamStep
import H3.Lemmas.FrameLaws
/-! The answers the `FrameStream` model gives to the canonical reader (`poll_next` at a frame
    boundary, `poll_data` inside a DATA payload) from a configuration, up to and including the
    first answer that is not a frame or a data piece: `Fut s script items term`.

    `fut_exists`: from every configuration satisfying the C02 invariant such a run exists (the
    reader terminates: every frame and every piece uses up at least one byte), it is well formed
    (`Run`: pieces non-empty, within the announced length, nothing but the ending after a payload
    that has not arrived in full), and it is tied to the bytes of the script by the invariant:
    the tokens handed out are those of the reference automaton over the bytes taken from the
    transport (`TermOK`). -/
namespace H3.ReqRecv
open H3.Frame

abbrev RefTok := FS.Tok Frame FrameErr

/-- frame-layer answers at byte granularity (the alphabet of the reference automaton) -/
def itemToks : List Item → List RefTok
  | [] => []
  | .frame f :: r => .frame f :: itemToks r
  | .piece b :: r => b.map .byte ++ itemToks r

theorem kindLen_eq (f : Frame) : kindLen f = (FS.frameDec.kind f).rem := by
  unfold kindLen
  show _ = (FS.frameKind f).rem
  cases FS.frameKind f <;> rfl

/-- the canonical reader's run of the `FrameStream` model from configuration `(s, script)` -/
inductive Fut : FS.St → List FS.Ev → List Item → Term → Prop
  | frame {s sc f s' sc' items t} (h0 : s.remaining = 0)
      (hc : FS.pollNext FS.frameDec s sc = (.frame f, s', sc')) (hr : Fut s' sc' items t) :
      Fut s sc (.frame f :: items) t
  | piece {s sc d s' sc' items t} (h0 : s.remaining ≠ 0)
      (hc : FS.pollData (F := Frame) (E := FrameErr) s sc = (.data d, s', sc'))
      (hr : Fut s' sc' items t) : Fut s sc (.piece d :: items) t
  | nextEnd {s sc t} (h0 : s.remaining = 0)
      (hc : (FS.pollNext FS.frameDec s sc).1 = t.next) : Fut s sc [] t
  | dataEnd {s sc t} (h0 : s.remaining ≠ 0)
      (hc : (FS.pollData (F := Frame) (E := FrameErr) s sc).1 = t.data) : Fut s sc [] t

/-- a well-formed sequence of answers from a state with `remaining_data = rem` -/
inductive Run : Nat → List Item → Term → Prop
  | nil0 {t} : Run 0 [] t
  | nilD {rem t} (h0 : rem ≠ 0) (ht : ∀ e, t ≠ .proto e) : Run rem [] t
  | frame {f items t} (hwt : ∀ x, f ≠ .webTransport x) (hr : Run (kindLen f) items t) :
      Run 0 (.frame f :: items) t
  | piece {rem d items t} (h0 : rem ≠ 0) (hd : d ≠ []) (hle : d.length ≤ rem)
      (hr : Run (rem - d.length) items t) : Run rem (.piece d :: items) t

/-- how the run ended, in terms of the reference automaton's result `R` over the bytes taken from
    the transport, the tokens `all` handed out, whether FIN was taken (`eos`), what was taken from
    the script (`taken`) and what is left of it (`rest`); `open_` = the frame layer answered
    `Pending`: the script is used up or a `pend` event was taken -/
def TermOK (R : FS.PSt × List RefTok) (all : List RefTok) (eos : Bool) (taken rest : List FS.Ev) :
    Term → Prop
  | .fin => eos = true ∧ R.1 = .hdr [] ∧ R.2 = all
  | .truncated => eos = true ∧
      ((∃ acc, acc ≠ [] ∧ R.1 = .hdr acc ∧ R.2 = all) ∨
       (∃ (rem : Nat) (bs : FS.Bytes), rem ≠ 0 ∧ R.1 = .data rem ∧ R.2 = all ++ bs.map .byte))
  | .open_ => eos = false ∧ R.2 = all ∧ R.1 ≠ .dead ∧ (rest = [] ∨ FS.Ev.pend ∈ taken)
  | .proto e => R.1 = .dead ∧ R.2 = all ++ [.errProto e]
  | .reset c => eos = false ∧ (∃ r, rest = .reset c :: r) ∧ ∃ more, R.2 = all ++ more

/-- the bytes taken from the transport so far are a prefix of the bytes the script carries before
    its first `fin` -/
theorem wire_split {sc0 tkn rest' : List FS.Ev} {eos : Bool} (h0 : sc0 = tkn ++ rest')
    (htk : FS.TakenOK false eos tkn) :
    FS.evBytes (FS.upToFin sc0) =
      FS.evBytes tkn ++ (if eos then [] else FS.evBytes (FS.upToFin rest')) := by
  have hw := (FS.w_step [] false eos tkn rest' htk).1
  simp only [FS.wOf, List.nil_append, Bool.false_eq_true, if_false] at hw
  rw [h0, ← hw]

/-- ... so the tokens handed out are a prefix of the reference automaton's tokens over them -/
theorem toks_in_wire {sc0 tkn rest' : List FS.Ev} {toks' : List RefTok} {s' : FS.St}
    (h0 : sc0 = tkn ++ rest') (htk : FS.TakenOK false s'.eos tkn)
    (hI' : FS.Inv FS.frameDec (FS.evBytes tkn) toks' s') :
    ∃ more, (FS.run FS.frameDec (.hdr []) (FS.evBytes (FS.upToFin sc0))).2 = toks' ++ more := by
  rw [wire_split h0 htk]
  exact FS.inv_toks_prefix FS.frameDec hI' _

theorem fut_exists (sc0 : List FS.Ev) (hsc0 : FS.ScriptOK sc0)
    (hraw : ∀ f, FS.Tok.frame f ∈ (FS.run FS.frameDec (.hdr []) (FS.evBytes (FS.upToFin sc0))).2 →
      (FS.frameDec.kind f).rem < FS.USIZE_MAX) :
    ∀ (n : Nat) (s : FS.St) (script : List FS.Ev) (toks : List RefTok),
      FS.CInv FS.frameDec sc0 toks s script → s.flat.length + (FS.evBytes script).length < n →
      ∃ items t, Fut s script items t ∧ Run s.remaining items t ∧
        items.length ≤ s.flat.length + (FS.evBytes script).length ∧
        ∃ takenF restF eosF, sc0 = takenF ++ restF ∧ FS.TakenOK false eosF takenF ∧
          TermOK (FS.run FS.frameDec (.hdr []) (FS.evBytes takenF)) (toks ++ itemToks items)
            eosF takenF restF t := by
  intro n
  induction n with
  | zero => intro s script toks _ h; omega
  | succ n ih =>
    intro s script toks hC hn
    obtain ⟨taken, hsc0eq, htk0, hI⟩ := hC
    have hsc : FS.ScriptOK script := by rw [hsc0eq] at hsc0; exact FS.scriptOK_suffix hsc0
    have hpre : ∀ (tkn rest' : List FS.Ev) (toks' : List RefTok) (s' : FS.St),
        sc0 = tkn ++ rest' → FS.TakenOK false s'.eos tkn →
        FS.Inv FS.frameDec (FS.evBytes tkn) toks' s' →
        ∀ f, FS.Tok.frame f ∈ toks' → (FS.frameDec.kind f).rem < FS.USIZE_MAX := by
      intro tkn rest' toks' s' h0' htk' hI' f hf
      obtain ⟨more, hm⟩ := toks_in_wire h0' htk' hI'
      apply hraw f
      rw [hm]
      exact List.mem_append_left _ hf
    by_cases h0 : s.remaining = 0
    · -- `poll_next`
      rcases FS.pollNext_preserves FS.frameDec FS.frameDec_laws _ toks s script hI hsc with
        ⟨hne, _⟩ | ⟨_, hp⟩
      · exact absurd h0 hne
      · cases hres : FS.pollNext FS.frameDec s script with
        | mk o rest =>
        obtain ⟨s', script'⟩ := rest
        rw [hres] at hp
        obtain ⟨tk, hs, htk, hout⟩ := hp
        have htkF := FS.takenOK_trans htk0 htk
        have hsc0' : sc0 = (taken ++ tk) ++ script' := by rw [hsc0eq, hs, List.append_assoc]
        have hlenS : (FS.evBytes script).length = (FS.evBytes tk).length + (FS.evBytes script').length := by
          rw [hs, FS.evBytes_append, List.length_append]
        cases o with
        | frame f =>
          have hI' : FS.Inv FS.frameDec (FS.evBytes taken ++ FS.evBytes tk) (toks ++ [.frame f]) s' := hout
          have hprog := FS.inv_progress FS.frameDec hI hI' (by simp)
          have hC' : FS.CInv FS.frameDec sc0 (toks ++ [.frame f]) s' script' :=
            ⟨taken ++ tk, hsc0', htkF, by rw [FS.evBytes_append]; exact hI'⟩
          obtain ⟨items, t, hF, hR, hlen, tF, rF, eF, h1, h2, h3⟩ := ih s' script' _ hC' (by omega)
          have hrem := FS.pollNext_frame_rem FS.frameDec s s' _ script' f hres
          refine ⟨.frame f :: items, t, Fut.frame h0 hres hF, ?_, by simp only [List.length_cons]; omega,
            tF, rF, eF, h1, h2, ?_⟩
          · rw [h0]
            refine Run.frame ?_ (by rw [kindLen_eq, ← hrem]; exact hR)
            intro x hx
            subst hx
            have := hpre (taken ++ tk) script' _ s' hsc0' htkF (by rw [FS.evBytes_append]; exact hI')
              (.webTransport x) (by simp)
            exact absurd this (Nat.lt_irrefl _)
          · simpa [itemToks, List.append_assoc] using h3
        | pending =>
          obtain ⟨hI', hstuck, heos', hrem⟩ := hout
          have heosf : s.eos = false := by
            cases hse : s.eos with
            | false => rfl
            | true =>
              rw [hse] at htk
              simp only [FS.TakenOK, if_true] at htk
              rw [htk.2.2] at heos'; cases heos'
          have hpl : FS.pollNextLoop FS.frameDec s script = (.pending, s', script') := by
            have : FS.pollNext FS.frameDec s script = FS.pollNextLoop FS.frameDec s script := by
              unfold FS.pollNext; rw [if_neg (by simp [h0])]
            rw [← this]; exact hres
          obtain ⟨tk2, ht2, hwhy⟩ :=
            FS.pollNextLoop_pending_why FS.frameDec script s s' script' hpl heosf
          have htk2 : tk2 = tk := List.append_cancel_right (ht2.symm.trans hs)
          subst htk2
          refine ⟨[], .open_, Fut.nextEnd h0 (by rw [hres]; rfl), by rw [h0]; exact Run.nil0, by simp,
            taken ++ tk2, script', s'.eos, hsc0', htkF, ?_⟩
          obtain ⟨c, hseen, hrun⟩ := hI'.split
          rw [hrem, FS.PSt.ofRem_zero] at hrun
          simp only [TermOK, itemToks, List.append_nil]
          rw [FS.evBytes_append, hseen, FS.run_append, hrun,
            FS.run_incomplete FS.frameDec FS.frameDec_laws s'.flat hstuck]
          exact ⟨heos', by simp, (by intro hc; cases hc),
            hwhy.imp id (fun h => List.mem_append_right _ h)⟩
        | none =>
          obtain ⟨hI', hfl, heos', hrem⟩ := hout
          refine ⟨[], .fin, Fut.nextEnd h0 (by rw [hres]; rfl), by rw [h0]; exact Run.nil0, by simp,
            taken ++ tk, script', s'.eos, hsc0', htkF, ?_⟩
          obtain ⟨c, hseen, hrun⟩ := hI'.split
          rw [hrem, FS.PSt.ofRem_zero] at hrun
          rw [hfl, List.append_nil] at hseen
          simp only [TermOK, itemToks, List.append_nil]
          rw [FS.evBytes_append, hseen, hrun]
          exact ⟨heos', rfl, rfl⟩
        | errEnd =>
          obtain ⟨hI', hne, hinc, heos', hrem⟩ := hout
          refine ⟨[], .truncated, Fut.nextEnd h0 (by rw [hres]; rfl), by rw [h0]; exact Run.nil0, by simp,
            taken ++ tk, script', s'.eos, hsc0', htkF, ?_⟩
          obtain ⟨c, hseen, hrun⟩ := hI'.split
          rw [hrem, FS.PSt.ofRem_zero] at hrun
          simp only [TermOK, itemToks, List.append_nil]
          rw [FS.evBytes_append, hseen, FS.run_append, hrun,
            FS.run_incomplete FS.frameDec FS.frameDec_laws s'.flat (Or.inr hinc)]
          exact ⟨heos', Or.inl ⟨s'.flat, hne, rfl, by simp⟩⟩
        | errProto e =>
          obtain ⟨c, k, hseen, hrun, hk1, hk2, hrunE⟩ := hout
          refine ⟨[], .proto e, Fut.nextEnd h0 (by rw [hres]; rfl), by rw [h0]; exact Run.nil0, by simp,
            taken ++ tk, script', s'.eos, hsc0', htkF, ?_⟩
          simp only [TermOK, itemToks, List.append_nil]
          rw [FS.evBytes_append, hseen, ← List.take_append_drop k s'.flat, FS.run_append, hrun,
            FS.run_append, hrunE, FS.run_dead]
          exact ⟨rfl, by simp⟩
        | errQuic c =>
          obtain ⟨hI', ⟨r, hr⟩, heos'⟩ := hout
          refine ⟨[], .reset c, Fut.nextEnd h0 (by rw [hres]; rfl), by rw [h0]; exact Run.nil0, by simp,
            taken ++ tk, script', s'.eos, hsc0', htkF, ?_⟩
          obtain ⟨more, hm⟩ := FS.inv_toks_prefix FS.frameDec hI' []
          simp only [TermOK, itemToks, List.append_nil]
          rw [List.append_nil] at hm
          rw [FS.evBytes_append]
          exact ⟨heos', ⟨r, hr⟩, more, hm⟩
        | data _ => exact absurd hout id
        | panic => exact absurd hout id
    · -- `poll_data`
      have hbound : s.remaining < FS.USIZE_MAX :=
        FS.inv_rem_bound FS.frameDec FS.USIZE_MAX hI
          (hpre taken script toks s hsc0eq htk0 hI) FS.usize_pos
      have hp := FS.pollData_spec FS.frameDec _ toks s script hI hsc
      cases hres : FS.pollData (F := Frame) (E := FrameErr) s script with
      | mk o rest =>
      obtain ⟨s', script'⟩ := rest
      rw [hres] at hp
      obtain ⟨tk, hs, htk, hout⟩ := hp
      have htkF := FS.takenOK_trans htk0 htk
      have hsc0' : sc0 = (taken ++ tk) ++ script' := by rw [hsc0eq, hs, List.append_assoc]
      have hlenS : (FS.evBytes script).length = (FS.evBytes tk).length + (FS.evBytes script').length := by
        rw [hs, FS.evBytes_append, List.length_append]
      cases o with
      | data d =>
        obtain ⟨hd, hdle, hrem', hI'⟩ := hout
        have hprog := FS.inv_progress FS.frameDec hI hI' (by simpa using hd)
        have hC' : FS.CInv FS.frameDec sc0 (toks ++ d.map .byte) s' script' :=
          ⟨taken ++ tk, hsc0', htkF, by rw [FS.evBytes_append]; exact hI'⟩
        obtain ⟨items, t, hF, hR, hlen, tF, rF, eF, h1, h2, h3⟩ := ih s' script' _ hC' (by omega)
        rw [hrem'] at hR
        refine ⟨.piece d :: items, t, Fut.piece h0 hres hF, Run.piece h0 hd hdle hR,
          by simp only [List.length_cons]; omega, tF, rF, eF, h1, h2, ?_⟩
        simpa [itemToks, List.append_assoc] using h3
      | pending =>
        obtain ⟨hI', hfl, heos', hrem'⟩ := hout
        refine ⟨[], .open_, Fut.dataEnd h0 (by rw [hres]; rfl),
          Run.nilD h0 (by intro e h; cases h), by simp,
          taken ++ tk, script', s'.eos, hsc0', htkF, ?_⟩
        obtain ⟨c, hseen, hrun⟩ := hI'.split
        rw [hfl, List.append_nil] at hseen
        rw [hrem', FS.PSt.ofRem_pos h0] at hrun
        obtain ⟨tk2, ht2, hwhy⟩ := FS.pollData_pending_why s s' script script' hres
        have htk2 : tk2 = tk := List.append_cancel_right (ht2.symm.trans hs)
        subst htk2
        simp only [TermOK, itemToks, List.append_nil]
        rw [FS.evBytes_append, hseen, hrun]
        exact ⟨heos', rfl, (by intro hc; cases hc), hwhy.imp id (fun h => List.mem_append_right _ h)⟩
      | errEnd =>
        obtain ⟨heos', _, c, rest, hseen, hrun, hlt⟩ := hout
        refine ⟨[], .truncated, Fut.dataEnd h0 (by rw [hres]; rfl),
          Run.nilD h0 (by intro e h; cases h), by simp,
          taken ++ tk, script', s'.eos, hsc0', htkF, ?_⟩
        simp only [TermOK, itemToks, List.append_nil]
        rw [FS.evBytes_append, hseen, FS.run_append, hrun, FS.run_data_short FS.frameDec _ rest hlt]
        exact ⟨heos', Or.inr ⟨_, rest, by omega, rfl, rfl⟩⟩
      | errQuic c =>
        obtain ⟨hs', ⟨r, hr⟩, heosf⟩ := hout
        refine ⟨[], .reset c, Fut.dataEnd h0 (by rw [hres]; rfl),
          Run.nilD h0 (by intro e h; cases h), by simp,
          taken ++ tk, script', s'.eos, hsc0', htkF, ?_⟩
        obtain ⟨more, hm⟩ := FS.inv_toks_prefix FS.frameDec hI (FS.evBytes tk)
        simp only [TermOK, itemToks, List.append_nil]
        rw [FS.evBytes_append]
        exact ⟨by rw [hs']; exact heosf, ⟨r, hr⟩, more, hm⟩
      | none =>
        obtain ⟨_, hcase⟩ := hout
        rcases hcase with ⟨hz, _⟩ | ⟨hmax, _⟩
        · exact absurd hz h0
        · omega
      | frame _ => exact absurd hout id
      | errProto _ => exact absurd hout id
      | panic => exact absurd hout id

end H3.ReqRecv
