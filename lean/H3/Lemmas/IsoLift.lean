import H3.Lemmas.Iso
import H3.Lemmas.ReqLift
/-! C07 composed with the closed lifting of C03 (`lift_exists`, `liftR_sim`, `tied_fin_exact`):
    a *valid message* stated on the wire bytes through the reference automaton of C02
    (`msgToks`), what the §4.1 recogniser demands for it (`spec_msgKinds`), and the outcome of the
    documented pattern over ANY cutting of these bytes, for every loop bound at least the model's
    own (`chunked_outcome_fin_fuel`: `C03_chunked_outcome_fin` with the bound a parameter). -/
namespace H3.Iso
open H3.ReqRecv H3.Frame
open H3.Spec.ReqSeq hiding Bytes

/-- The tokens the reference automaton (C02, `FS.run frameDec`) emits on the bytes of a valid
    message: HEADERS `h`; DATA frames with payloads `ds` (any lengths, zero included), each
    followed by its payload bytes; HEADERS `t` iff there are trailers.  Frames of unknown type —
    before, between and after these — leave no token. -/
def msgToks (h : ReqRecv.Bytes) (ds : List ReqRecv.Bytes) (tr : Option ReqRecv.Bytes) : List RefTok :=
  .frame (.headers h) ::
    (ds.flatMap (fun p => .frame (.data p.length) :: p.map .byte) ++
      (match tr with | none => [] | some t => [.frame (.headers t)]))

/-- the recogniser's input for such a message: `H D* H?` (the `U`s are skipped anyway) -/
def msgKinds (h : ReqRecv.Bytes) (ds : List ReqRecv.Bytes) (tr : Option ReqRecv.Bytes) : List K :=
  .H h :: (ds.map .D ++ (match tr with | none => [] | some t => [.H t]))

def trToks (tr : Option ReqRecv.Bytes) : List RefTok :=
  match tr with | none => [] | some t => [.frame (.headers t)]

def bodyToks (ds : List ReqRecv.Bytes) : List RefTok :=
  ds.flatMap (fun p => .frame (.data p.length) :: p.map .byte)

theorem msgToks_eq (h : ReqRecv.Bytes) (ds : List ReqRecv.Bytes) (tr : Option ReqRecv.Bytes) :
    msgToks h ds tr = .frame (.headers h) :: (bodyToks ds ++ trToks tr) := rfl

theorem bodyToks_cons (p : ReqRecv.Bytes) (ds : List ReqRecv.Bytes) :
    bodyToks (p :: ds) = .frame (.data p.length) :: (p.map .byte ++ bodyToks ds) := by
  simp [bodyToks]

theorem leadBytes_trToks (tr : Option ReqRecv.Bytes) : leadBytes (trToks tr) = [] := by
  cases tr <;> rfl

theorem leadBytes_bodyToks (ds : List ReqRecv.Bytes) (tr : Option ReqRecv.Bytes) :
    leadBytes (bodyToks ds ++ trToks tr) = [] := by
  cases ds with
  | nil => simpa [bodyToks] using leadBytes_trToks tr
  | cons p ds => rw [bodyToks_cons]; rfl

theorem kindsOf_body (tr : Option ReqRecv.Bytes) : ∀ ds : List ReqRecv.Bytes,
    kindsOf (bodyToks ds ++ trToks tr) = ds.map .D ++ (match tr with | none => [] | some t => [.H t]) := by
  intro ds
  induction ds with
  | nil => cases tr <;> rfl
  | cons p ds ih =>
    rw [bodyToks_cons, List.cons_append, List.append_assoc]
    simp only [kindsOf, List.map_cons, List.cons_append]
    rw [leadBytes_bytes_append, kindsOf_bytes_append, leadBytes_bodyToks, ih]
    simp [refKind]

theorem kindsOf_msgToks (h : ReqRecv.Bytes) (ds : List ReqRecv.Bytes) (tr : Option ReqRecv.Bytes) :
    kindsOf (msgToks h ds tr) = msgKinds h ds tr := by
  rw [msgToks_eq]
  simp only [kindsOf, refKind, msgKinds]
  rw [kindsOf_body]

theorem expected_Ds (side : Side) (h : ReqRecv.Bytes) (rest : List K) (stop : Stop) :
    ∀ (ds : List ReqRecv.Bytes) (acc : ReqRecv.Bytes),
      expected side (.body h acc) (ds.map .D ++ rest) stop = expected side (.body h (acc ++ ds.flatten)) rest stop := by
  intro ds
  induction ds with
  | nil => intro acc; simp
  | cons p ds ih =>
    intro acc
    simp only [List.map_cons, List.cons_append, expected, List.flatten_cons]
    rw [ih, List.append_assoc]

/-- what RFC 9114 §4.1 demands for a valid message ended by FIN: the head, the DATA payloads
    concatenated, the end of the body, the trailers iff present; no error, nothing reset -/
theorem spec_msgKinds (side : Side) (h : ReqRecv.Bytes) (ds : List ReqRecv.Bytes) (tr : Option ReqRecv.Bytes) :
    spec side (msgKinds h ds tr) .fin =
      .oneOf [{ calls := [.head h, .body ds.flatten, .bodyEnd, trObs tr] }] := by
  unfold spec msgKinds
  simp only [expected]
  rw [expected_Ds]
  cases tr <;> simp [expected, atStop, trObs]

/-- the positional header hypothesis of C03 for a valid message: the head block is an acceptable
    head, the trailer block (if any) an acceptable trailer section -/
theorem hdrsOkK_msgKinds (H : ReqRecv.Hdr) (h : ReqRecv.Bytes) (ds : List ReqRecv.Bytes) (tr : Option ReqRecv.Bytes)
    (hh : H.head h = .ok) (hT : ∀ t, tr = some t → H.trailer t = .ok) :
    HdrsOkK H .head (msgKinds h ds tr) := by
  have hD : ∀ (ds : List ReqRecv.Bytes) (r : List K), hdrBlocks (ds.map K.D ++ r) = hdrBlocks r := by
    intro ds r
    induction ds with
    | nil => rfl
    | cons d ds ih => simpa [hdrBlocks] using ih
  rw [hdrsOkK_iff]
  unfold msgKinds
  simp only [hdrBlocks]
  rw [hD]
  cases tr with
  | none => exact ⟨hh, trivial⟩
  | some t => exact ⟨hh, hT t rfl⟩

/-- the HEADERS blocks among the tokens of a valid message are its head and its trailers -/
theorem headers_mem_msgToks (h : ReqRecv.Bytes) (ds : List ReqRecv.Bytes) (tr : Option ReqRecv.Bytes)
    (b : ReqRecv.Bytes) (hb : FS.Tok.frame (Frame.headers b) ∈ msgToks h ds tr) : b = h ∨ tr = some b := by
  rw [msgToks_eq] at hb
  simp only [List.mem_cons, FS.Tok.frame.injEq, Frame.headers.injEq, List.mem_append] at hb
  rcases hb with hb | hb | hb
  · exact Or.inl hb
  · exfalso
    simp only [bodyToks, List.mem_flatMap, List.mem_cons, List.mem_map] at hb
    obtain ⟨p, _, hp | ⟨x, _, hx⟩⟩ := hb
    · cases hp
    · cases hx
  · cases tr with
    | none => simp [trToks] at hb
    | some t =>
      simp only [trToks, List.mem_singleton, FS.Tok.frame.injEq, Frame.headers.injEq] at hb
      exact Or.inr (by rw [hb])

/-- no WebTransport header, no DATA frame of length `usize::MAX` in a valid message -/
theorem noRaw_of_msgToks (w : FS.Bytes) (p : FS.PSt) (h : ReqRecv.Bytes) (ds : List ReqRecv.Bytes)
    (tr : Option ReqRecv.Bytes) (hw : FS.run FS.frameDec (.hdr []) w = (p, msgToks h ds tr))
    (hlen : ∀ d ∈ ds, d.length < FS.USIZE_MAX) : NoRaw w := by
  intro f hf
  rw [hw, msgToks_eq] at hf
  simp only [List.mem_cons, FS.Tok.frame.injEq, List.mem_append] at hf
  rcases hf with rfl | hf | hf
  · exact FS.usize_pos
  · simp only [bodyToks, List.mem_flatMap, List.mem_cons, List.mem_map] at hf
    obtain ⟨d, hd, hp | ⟨x, _, hx⟩⟩ := hf
    · simp only [FS.Tok.frame.injEq] at hp
      subst hp
      exact hlen d hd
    · cases hx
  · cases tr with
    | none => simp [trToks] at hf
    | some t =>
      simp only [trToks, List.mem_singleton, FS.Tok.frame.injEq] at hf
      subst hf
      exact FS.usize_pos

/-- `C03_chunked_outcome_fin` with the loop bound a parameter: the wire bytes cut into non-empty
    chunks in any way, then FIN on a frame boundary; every bound at least the model's own. -/
theorem chunked_outcome_fin_fuel (role : Role) (H : ReqRecv.Hdr) (pre post : List FS.Ev) (fuel : Nat)
    (hpre : OnlyChunks pre) (hsc : FS.ScriptOK (pre ++ .fin :: post)) (hraw : NoRaw (FS.evBytes pre))
    (hH : HdrsOkK H .head (kindsOf (FS.run FS.frameDec (.hdr []) (FS.evBytes pre)).2))
    (hclean : (FS.run FS.frameDec (.hdr []) (FS.evBytes pre)).1 = .hdr [])
    (hfuel : fsFuel ({}, pre ++ .fin :: post) ≤ fuel) :
    (spec (sideOf role) (kindsOf (FS.run FS.frameDec (.hdr []) (FS.evBytes pre)).2) .fin).accepts
      (observe (documented role fsSrc H fuel { src := ({}, pre ++ .fin :: post) })) := by
  have hfin : FS.Ev.fin ∉ pre := fun hm => by obtain ⟨b, hb⟩ := hpre _ hm; cases hb
  have hup : FS.upToFin (pre ++ .fin :: post) = pre := FS.upToFin_fin pre post hfin
  obtain ⟨toks, e, hR, hwf, hfuel0, hhdr, htied⟩ :=
    lift_exists (pre ++ .fin :: post) hsc (by rw [hup]; exact hraw)
  have hok : HdrsOk H toks := tied_hdrsOk H htied (by rw [hup]; exact hH)
  have hdoc : documented role fsSrc H fuel { src := ({}, pre ++ .fin :: post) } =
      documented role tokSrc H fuel { src := TS.ofToks toks e } :=
    same_documentedP liftR_sim tokSrc_hdrNoData role H fuel (x := { src := ({}, pre ++ .fin :: post) })
      (y := { src := TS.ofToks toks e }) ⟨fun _ => hR, rfl, rfl⟩ rfl
  obtain ⟨he, hk⟩ := tied_fin_exact hpre htied hclean
  subst he
  rw [hdoc, ← hk]
  exact recv_spec role H .fin toks fuel hwf hok (by omega)

/-! the transport script of a healthy stream -/

theorem fsScript_chunks_fin (cs : List Bytes) :
    fsScript (cs.map Peer.chunk ++ [.fin]) = cs.map FS.Ev.chunk ++ [.fin] := by
  induction cs with
  | nil => rfl
  | cons c cs ih =>
    simp only [fsScript, List.map_cons, List.cons_append, List.flatMap_cons, fsOf] at ih ⊢
    rw [ih]
    rfl

theorem evBytes_chunks (cs : List Bytes) : FS.evBytes (cs.map FS.Ev.chunk) = cs.flatten := by
  induction cs with
  | nil => rfl
  | cons c cs ih => simp [FS.evBytes, ih]

theorem onlyChunks_map (cs : List Bytes) : OnlyChunks (cs.map FS.Ev.chunk) := by
  intro ev hev
  obtain ⟨b, _, rfl⟩ := List.mem_map.mp hev
  exact ⟨b, rfl⟩

theorem scriptOK_chunks_fin (cs : List Bytes) (hne : ∀ b ∈ cs, b ≠ []) :
    FS.ScriptOK (cs.map FS.Ev.chunk ++ [.fin]) := by
  intro b hb
  simp only [List.mem_append, List.mem_map, List.mem_singleton] at hb
  rcases hb with ⟨c, hc, hcb⟩ | hb
  · cases hcb; exact hne b hc
  · cases hb

end H3.Iso
