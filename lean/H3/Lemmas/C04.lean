import H3.Model.UniAccept
import H3.Model.Control
import H3.Spec.ControlRules
import H3.Props.C16
/-! Vocabulary, helper lemmas and the proofs behind the C04 property theorems
    (`H3/Props/C04.lean` states them).  Models: `H3.UniAccept` (`AcceptRecvStream`), `H3.Control`
    (`poll_accept_recv`, `poll_control`, `poll_grease_stream`, role handlers).
    Oracle: `H3.Spec.ControlRules`. -/
namespace H3.Lemmas.C04
open H3.Control H3.Frame

/-! ## Stream type resolution -/

section resolution
open H3.UniAccept H3.Varint
open H3.Spec.ControlRules (Hdr header hasId)

/-- the bytes the transport delivers before the stream ends (events behind FIN/RESET are never
    looked at) -/
def bytesOf : List Ev → Bytes
  | [] => []
  | .chunk b :: r => b ++ bytesOf r
  | .pend :: r => bytesOf r
  | .fin :: _ => []
  | .reset _ :: _ => []

def hasEnd : List Ev → Bool
  | [] => false
  | .chunk _ :: r => hasEnd r
  | .pend :: r => hasEnd r
  | .fin :: _ => true
  | .reset _ :: _ => true

/-- every chunk consists of bytes -/
def ScriptWF (sc : List Ev) : Prop := ∀ b, FS.Ev.chunk b ∈ sc → WF b

/-- what is still to come for a stream in state `s` with the script `sc` left -/
def future (s : St) (sc : List Ev) : Bytes := if s.ended.isSome then [] else bytesOf sc

def endSeen (s : St) (sc : List Ev) : Bool := s.ended.isSome || hasEnd sc

private def Inv (s : St) : Prop :=
  WF s.buf ∧ (s.expected = none ∨ ∃ b0 r, s.buf = b0 :: r ∧ s.expected = some (encodedSize b0))

private theorem wf_append {a b : Bytes} : WF (a ++ b) ↔ WF a ∧ WF b := by
  simp only [WF, List.mem_append]
  constructor
  · intro h; exact ⟨fun x hx => h x (Or.inl hx), fun x hx => h x (Or.inr hx)⟩
  · rintro ⟨h1, h2⟩ x (hx | hx)
    · exact h1 x hx
    · exact h2 x hx

private theorem wf_drop {a : Bytes} (n : Nat) (h : WF a) : WF (a.drop n) :=
  fun x hx => h x (List.mem_of_mem_drop hx)

private theorem rfcDecode_rest (bs : Bytes) (v : Nat) (rest : Bytes) (h : rfcDecode bs = some (v, rest)) :
    ∃ b0 r, bs = b0 :: r ∧ ¬ bs.length < rfcLen b0 ∧ rest = bs.drop (rfcLen b0) := by
  cases bs with
  | nil => simp [rfcDecode] at h
  | cons b0 r =>
    simp only [rfcDecode] at h
    split at h
    · cases h
    · rename_i hl
      simp only [Option.some.injEq, Prod.mk.injEq] at h
      exact ⟨b0, r, rfl, hl, h.2.symm⟩

private theorem rfcDecode_none (b0 : Nat) (r : Bytes) (h : rfcDecode (b0 :: r) = none) :
    (b0 :: r).length < rfcLen b0 := by
  simp only [rfcDecode] at h
  split at h
  · assumption
  · cases h

private theorem rfcDecode_append (a b : Bytes) (v : Nat) (rest : Bytes) (h : rfcDecode a = some (v, rest)) :
    rfcDecode (a ++ b) = some (v, rest ++ b) := by
  cases a with
  | nil => simp [rfcDecode] at h
  | cons b0 r =>
    simp only [rfcDecode] at h
    split at h
    · cases h
    · rename_i hl
      simp only [Option.some.injEq, Prod.mk.injEq] at h
      obtain ⟨hv, hr⟩ := h
      have hl' : rfcLen b0 ≤ (b0 :: r).length := by omega
      have hl2 : ¬ (b0 :: r ++ b).length < rfcLen b0 := by simp at hl' ⊢; omega
      simp only [List.cons_append, rfcDecode]
      rw [← List.cons_append, if_neg hl2]
      simp only [Option.some.injEq, Prod.mk.injEq]
      constructor
      · rw [← hv]
        simp only [rfcValue, List.cons_append]
        rw [← List.cons_append, List.take_append_of_le_length hl']
      · rw [← hr, List.drop_append_of_le_length hl']

private theorem announce_eq (s : St) (hinv : Inv s) (b0 : Nat) (r : Bytes) (hb : s.buf = b0 :: r) :
    announce s = some (encodedSize b0) := by
  unfold announce
  rcases hinv.2 with h | ⟨b0', r', hb', he⟩
  · simp [h, hb]
  · rw [hb] at hb'; cases hb'; simp [he]

private theorem tryBuf_ok (s : St) (v : Nat) (rest : Bytes) (hinv : Inv s)
    (h : rfcDecode s.buf = some (v, rest)) :
    tryBuf s = (some (.ok v), { s with buf := rest, expected := none }) := by
  obtain ⟨b0, r, hb, hl, _⟩ := rfcDecode_rest _ _ _ h
  have ha := announce_eq s hinv b0 r hb
  have hd := ((H3.Props.C16.C16_decode_total s.buf hinv.1).1 v rest h).1
  have hl' : ¬ s.buf.length < encodedSize b0 := hl
  unfold tryBuf
  rw [ha]
  simp only
  rw [if_neg hl', hd]

private theorem tryBuf_none (s : St) (hinv : Inv s) (h : rfcDecode s.buf = none) :
    ∃ s1, tryBuf s = (none, s1) ∧ s1.buf = s.buf ∧ s1.ended = s.ended ∧ s1.ty = s.ty ∧ s1.id = s.id ∧
      Inv s1 := by
  by_cases hnil : s.buf = []
  · have he : s.expected = none := by
      rcases hinv.2 with h | ⟨b0', r', hb', _⟩
      · exact h
      · rw [hnil] at hb'; cases hb'
    refine ⟨s, ?_, rfl, rfl, rfl, rfl, hinv⟩
    have ha : announce s = none := by unfold announce; simp [he, hnil]
    unfold tryBuf
    rw [ha]
  · obtain ⟨b0, r, hb⟩ := List.exists_cons_of_ne_nil hnil
    have ha := announce_eq s hinv b0 r hb
    have hl : s.buf.length < encodedSize b0 := by
      rw [hb] at h ⊢; exact rfcDecode_none b0 r h
    refine ⟨{ s with expected := some (encodedSize b0) }, ?_, rfl, rfl, rfl, rfl,
      ⟨hinv.1, Or.inr ⟨b0, r, hb, rfl⟩⟩⟩
    unfold tryBuf
    rw [ha]
    simp only
    rw [if_pos hl]

private theorem pollVarint_ready (s s1 : St) (sc : List Ev) (x : VRes) (h : tryBuf s = (some x, s1)) :
    pollVarint s sc = (x, s1, sc) := by
  unfold pollVarint; rw [h]

private theorem pollVarint_ended (s s1 : St) (sc : List Ev) (y : End) (h : tryBuf s = (none, s1))
    (he : s1.ended = some y) : pollVarint s sc = (.ended, s1, sc) := by
  unfold pollVarint; rw [h]; simp only [he]

private theorem pollVarint_nil (s s1 : St) (h : tryBuf s = (none, s1)) (he : s1.ended = none) :
    pollVarint s [] = (.pending, s1, []) := by
  unfold pollVarint; rw [h]; simp only [he]

private theorem pollVarint_pend (s s1 : St) (r : List Ev) (h : tryBuf s = (none, s1)) (he : s1.ended = none) :
    pollVarint s (.pend :: r) = (.pending, s1, r) := by
  unfold pollVarint; rw [h]; simp only [he]

private theorem pollVarint_chunk (s s1 : St) (b : Bytes) (r : List Ev) (h : tryBuf s = (none, s1))
    (he : s1.ended = none) :
    pollVarint s (.chunk b :: r) = pollVarint { s1 with buf := s1.buf ++ b } r := by
  conv => lhs; unfold pollVarint
  rw [h]; simp only [he]

private theorem pollVarint_fin (s s1 : St) (r : List Ev) (h : tryBuf s = (none, s1)) (he : s1.ended = none) :
    pollVarint s (.fin :: r) = pollVarint { s1 with ended := some .fin } r := by
  conv => lhs; unfold pollVarint
  rw [h]; simp only [he]

private theorem pollVarint_reset (s s1 : St) (c : Nat) (r : List Ev) (h : tryBuf s = (none, s1))
    (he : s1.ended = none) :
    pollVarint s (.reset c :: r) = pollVarint { s1 with ended := some (.reset c) } r := by
  conv => lhs; unfold pollVarint
  rw [h]; simp only [he]

private def VSpec (s : St) (sc : List Ev) (out : VRes × St × List Ev) : Prop :=
  match out with
  | (.ok v, s', r) =>
    rfcDecode (s.buf ++ future s sc) = some (v, s'.buf ++ future s' r) ∧ Inv s' ∧ s'.ty = s.ty ∧
    s'.id = s.id ∧ ScriptWF r ∧ r.length ≤ sc.length ∧ endSeen s' r = endSeen s sc
  | (.pending, s', r) =>
    rfcDecode s'.buf = none ∧ s'.buf ++ future s' r = s.buf ++ future s sc ∧ s'.ended = none ∧ Inv s' ∧
    s'.ty = s.ty ∧ s'.id = s.id ∧ ScriptWF r ∧ endSeen s' r = endSeen s sc ∧
    (sc ≠ [] → r.length < sc.length) ∧ (sc = [] → r = [])
  | (.ended, _, _) => rfcDecode (s.buf ++ future s sc) = none ∧ endSeen s sc = true
  | (.internal, _, _) => False

private theorem VSpec_lift (s s2 : St) (sc r : List Ev) (out : VRes × St × List Ev)
    (hw : s2.buf ++ future s2 r = s.buf ++ future s sc) (hty : s2.ty = s.ty) (hid : s2.id = s.id)
    (hend : endSeen s2 r = endSeen s sc) (hlen : r.length < sc.length) (h : VSpec s2 r out) :
    VSpec s sc out := by
  obtain ⟨res, s', r'⟩ := out
  cases res with
  | ok v =>
    unfold VSpec at h ⊢
    simp only at h ⊢
    obtain ⟨h1, h2, h3, h4, h5, h6, h7⟩ := h
    exact ⟨by rw [← hw]; exact h1, h2, by rw [h3, hty], by rw [h4, hid], h5, by omega, by rw [h7, hend]⟩
  | pending =>
    unfold VSpec at h ⊢
    simp only at h ⊢
    obtain ⟨h1, h2, h3, h4, h5, h6, h7, h8, h9, h10⟩ := h
    refine ⟨h1, by rw [h2, hw], h3, h4, by rw [h5, hty], by rw [h6, hid], h7, by rw [h8, hend], ?_, ?_⟩
    · intro _
      by_cases hr : r = []
      · rw [h10 hr]; simp; omega
      · have := h9 hr; omega
    · intro hsc; subst hsc; simp at hlen
  | ended =>
    unfold VSpec at h ⊢
    simp only at h ⊢
    exact ⟨by rw [← hw]; exact h.1, by rw [← hend]; exact h.2⟩
  | internal => exact h

private theorem scriptWF_tail {x : Ev} {r : List Ev} (h : ScriptWF (x :: r)) : ScriptWF r :=
  fun b hb => h b (List.mem_cons_of_mem _ hb)

private theorem pollVarint_hit (s : St) (sc : List Ev) (v : Nat) (rest : Bytes) (hinv : Inv s)
    (hwf : ScriptWF sc) (hd : rfcDecode s.buf = some (v, rest)) : VSpec s sc (pollVarint s sc) := by
  rw [pollVarint_ready s _ sc _ (tryBuf_ok s v rest hinv hd)]
  obtain ⟨b0, r0, hb, _, hrest⟩ := rfcDecode_rest _ _ _ hd
  unfold VSpec
  refine ⟨?_, ⟨by rw [hrest]; exact wf_drop _ hinv.1, Or.inl rfl⟩, rfl, rfl, hwf, by simp, rfl⟩
  exact rfcDecode_append _ _ _ _ hd

private theorem pollVarint_spec :
    ∀ (sc : List Ev) (s : St), Inv s → ScriptWF sc → VSpec s sc (pollVarint s sc) := by
  intro sc
  induction sc with
  | nil =>
    intro s hinv hwf
    cases hd : rfcDecode s.buf with
    | some vr => exact pollVarint_hit s [] vr.1 vr.2 hinv hwf hd
    | none =>
      obtain ⟨s1, he, hb1, he1, ht1, hi1, hinv1⟩ := tryBuf_none s hinv hd
      cases hen : s.ended with
      | some y =>
        rw [pollVarint_ended s s1 [] y he (by rw [he1, hen])]
        unfold VSpec
        exact ⟨by simp [future, hen, hd], by simp [endSeen, hen]⟩
      | none =>
        have hen1 : s1.ended = none := by rw [he1, hen]
        rw [pollVarint_nil s s1 he hen1]
        unfold VSpec
        exact ⟨by rw [hb1]; exact hd, by simp [future, hen, hen1, hb1], hen1, hinv1, ht1, hi1, hwf,
          by simp [endSeen, hen, hen1], by simp, by simp⟩
  | cons x r ih =>
    intro s hinv hwf
    cases hd : rfcDecode s.buf with
    | some vr => exact pollVarint_hit s _ vr.1 vr.2 hinv hwf hd
    | none =>
      obtain ⟨s1, he, hb1, he1, ht1, hi1, hinv1⟩ := tryBuf_none s hinv hd
      cases hen : s.ended with
      | some y =>
        rw [pollVarint_ended s s1 _ y he (by rw [he1, hen])]
        unfold VSpec
        exact ⟨by simp [future, hen, hd], by simp [endSeen, hen]⟩
      | none =>
        have hen1 : s1.ended = none := by rw [he1, hen]
        have hwf' := scriptWF_tail hwf
        cases x with
        | pend =>
          rw [pollVarint_pend s s1 r he hen1]
          unfold VSpec
          exact ⟨by rw [hb1]; exact hd, by simp [future, hen, hen1, hb1, bytesOf], hen1, hinv1, ht1, hi1, hwf',
            by simp [endSeen, hen, hen1, hasEnd], by simp, by simp⟩
        | chunk b =>
          rw [pollVarint_chunk s s1 b r he hen1]
          have hb : WF b := hwf b (List.mem_cons_self)
          have hinv2 : Inv { s1 with buf := s1.buf ++ b } := by
            refine ⟨wf_append.mpr ⟨hinv1.1, hb⟩, ?_⟩
            rcases hinv1.2 with h | ⟨b0, r0, hb0, he0⟩
            · exact Or.inl h
            · exact Or.inr ⟨b0, r0 ++ b, by simp [hb0], he0⟩
          apply VSpec_lift s { s1 with buf := s1.buf ++ b } _ r _ _ ht1 hi1 _ (by simp) (ih _ hinv2 hwf')
          · simp [future, hen, hen1, hb1, bytesOf]
          · simp [endSeen, hen, hen1, hasEnd]
        | fin =>
          rw [pollVarint_fin s s1 r he hen1]
          have hinv2 : Inv { s1 with ended := some .fin } := hinv1
          apply VSpec_lift s { s1 with ended := some .fin } _ r _ _ ht1 hi1 _ (by simp) (ih _ hinv2 hwf')
          · simp [future, hen, hb1, bytesOf]
          · simp [endSeen, hasEnd]
        | reset c =>
          rw [pollVarint_reset s s1 c r he hen1]
          have hinv2 : Inv { s1 with ended := some (.reset c) } := hinv1
          apply VSpec_lift s { s1 with ended := some (.reset c) } _ r _ _ ht1 hi1 _ (by simp) (ih _ hinv2 hwf')
          · simp [future, hen, hb1, bytesOf]
          · simp [endSeen, hasEnd]

/-- the stream header (RFC 9114 §6.2) as it remains to be read in state `s` from the bytes `w` -/
private def hdrFrom (s : St) (w : Bytes) : Hdr :=
  match s.ty with
  | none => header w
  | some ty =>
    if wantsId s then
      match rfcDecode w with
      | none => .incomplete
      | some (id, r2) => .complete ty (some id) r2
    else .complete ty s.id w

private theorem hdrFrom_congr (s1 s : St) (w : Bytes) (h1 : s1.ty = s.ty) (h2 : s1.id = s.id) :
    hdrFrom s1 w = hdrFrom s w := by
  unfold hdrFrom wantsId; rw [h1, h2]

private theorem needsId_eq (v : Nat) : needsId v = hasId v := rfl

private def TSpec (s : St) (sc : List Ev) (out : TRes × St × List Ev) : Prop :=
  match out with
  | (.ready, s', r) =>
    ∃ ty, s'.ty = some ty ∧
      hdrFrom s (s.buf ++ future s sc) = .complete ty s'.id (s'.buf ++ future s' r)
  | (.pending, s', r) =>
    hdrFrom s' (s'.buf ++ future s' r) = hdrFrom s (s.buf ++ future s sc) ∧
    hdrFrom s' s'.buf = .incomplete ∧ s'.ended = none ∧ Inv s' ∧ (s'.ty = none → s'.id = none) ∧
    ScriptWF r ∧ endSeen s' r = endSeen s sc ∧ (sc ≠ [] → r.length < sc.length) ∧ (sc = [] → r = [])
  | (.ended, _, _) => hdrFrom s (s.buf ++ future s sc) = .incomplete ∧ endSeen s sc = true
  | (.internal, _, _) => False

private theorem TSpec_lift (s s2 : St) (sc r : List Ev) (out : TRes × St × List Ev)
    (hh : hdrFrom s2 (s2.buf ++ future s2 r) = hdrFrom s (s.buf ++ future s sc))
    (hend : endSeen s2 r = endSeen s sc) (hlen : r.length ≤ sc.length) (h : TSpec s2 r out) :
    TSpec s sc out := by
  obtain ⟨res, s', r'⟩ := out
  cases res with
  | ready =>
    unfold TSpec at h ⊢
    simp only at h ⊢
    obtain ⟨ty, h1, h2⟩ := h
    exact ⟨ty, h1, by rw [← hh]; exact h2⟩
  | pending =>
    unfold TSpec at h ⊢
    simp only at h ⊢
    obtain ⟨h1, h2, h3, h4, h5, h6, h7, h8, h9⟩ := h
    refine ⟨by rw [h1, hh], h2, h3, h4, h5, h6, by rw [h7, hend], ?_, ?_⟩
    · intro hsc
      by_cases hr : r = []
      · rw [h9 hr]
        cases sc with
        | nil => exact absurd rfl hsc
        | cons _ _ => simp
      · have := h8 hr; omega
    · intro hsc
      subst hsc
      have : r = [] := by simpa using hlen
      exact h9 this
  | ended =>
    unfold TSpec at h ⊢
    simp only at h ⊢
    exact ⟨by rw [← hh]; exact h.1, by rw [← hend]; exact h.2⟩
  | internal => exact h

private theorem pollId_spec (s : St) (sc : List Ev) (ty : Nat) (hty : s.ty = some ty) (hinv : Inv s)
    (hwf : ScriptWF sc) : TSpec s sc (pollId s sc) := by
  by_cases hw : wantsId s = true
  · unfold pollId
    rw [if_pos hw]
    have hv := pollVarint_spec sc s hinv hwf
    rcases hp : pollVarint s sc with ⟨res, s1, r⟩
    rw [hp] at hv
    cases res with
    | ok v =>
      unfold VSpec at hv
      simp only at hv ⊢
      obtain ⟨h1, h2, h3, h4, h5, h6, h7⟩ := hv
      unfold TSpec
      refine ⟨ty, by simp [h3, hty], ?_⟩
      unfold hdrFrom
      rw [hty]
      simp only
      rw [if_pos hw, h1]
      rfl
    | pending =>
      unfold VSpec at hv
      simp only at hv ⊢
      obtain ⟨h1, h2, h3, h4, h5, h6, h7, h8, h9, h10⟩ := hv
      unfold TSpec
      have hw1 : wantsId s1 = true := by unfold wantsId at hw ⊢; rw [h5, h6]; exact hw
      refine ⟨by rw [h2]; exact hdrFrom_congr s1 s _ h5 h6, ?_, h3, h4, ?_, h7, h8, h9, h10⟩
      · unfold hdrFrom
        rw [h5, hty]
        simp only
        rw [if_pos hw1, h1]
      · intro hn; rw [h5, hty] at hn; cases hn
    | ended =>
      unfold VSpec at hv
      simp only at hv ⊢
      unfold TSpec
      refine ⟨?_, hv.2⟩
      unfold hdrFrom
      rw [hty]
      simp only
      rw [if_pos hw, hv.1]
    | internal => exact hv
  · unfold pollId
    rw [if_neg hw]
    unfold TSpec
    refine ⟨ty, hty, ?_⟩
    unfold hdrFrom
    rw [hty]
    simp only
    rw [if_neg hw]

private theorem pollType_some (s : St) (sc : List Ev) (ty : Nat) (hty : s.ty = some ty) :
    pollType s sc = pollId s sc := by
  unfold pollType; rw [hty]

private theorem pollType_none (s : St) (sc : List Ev) (hty : s.ty = none) :
    pollType s sc =
      match pollVarint s sc with
      | (.ok v, s1, r) => pollId { s1 with ty := some v } r
      | (.pending, s1, r) => (.pending, s1, r)
      | (.ended, s1, r) => (.ended, s1, r)
      | (.internal, s1, r) => (.internal, s1, r) := by
  unfold pollType; rw [hty]; rfl

private theorem header_none (w : Bytes) (h : rfcDecode w = none) : header w = .incomplete := by
  unfold header; rw [h]

private theorem pollType_spec (s : St) (sc : List Ev) (hinv : Inv s) (hwf : ScriptWF sc)
    (hid : s.ty = none → s.id = none) : TSpec s sc (pollType s sc) := by
  cases hty : s.ty with
  | some ty =>
    rw [pollType_some s sc ty hty]
    exact pollId_spec s sc ty hty hinv hwf
  | none =>
    rw [pollType_none s sc hty]
    have hv := pollVarint_spec sc s hinv hwf
    rcases hp : pollVarint s sc with ⟨res, s1, r⟩
    rw [hp] at hv
    have hidn : s.id = none := hid hty
    cases res with
    | ok v =>
      unfold VSpec at hv
      simp only at hv ⊢
      obtain ⟨h1, h2, h3, h4, h5, h6, h7⟩ := hv
      have hinv2 : Inv { s1 with ty := some v } := h2
      have h := pollId_spec { s1 with ty := some v } r v rfl hinv2 h5
      refine TSpec_lift s { s1 with ty := some v } sc r _ ?_ h7 h6 h
      -- the header read from `s` is the type just decoded followed by what `s2` still reads
      have hi2 : s1.id = none := by rw [h4, hidn]
      have hfut : future { s1 with ty := some v } r = future s1 r := rfl
      rw [hfut]
      show hdrFrom { s1 with ty := some v } (s1.buf ++ future s1 r) = hdrFrom s (s.buf ++ future s sc)
      conv => rhs; unfold hdrFrom; rw [hty]; simp only; unfold header; rw [h1]; simp only
      unfold hdrFrom wantsId
      simp only [hi2, Option.isNone_none, Bool.and_true, needsId_eq]
      rfl
    | pending =>
      unfold VSpec at hv
      simp only at hv ⊢
      obtain ⟨h1, h2, h3, h4, h5, h6, h7, h8, h9, h10⟩ := hv
      unfold TSpec
      refine ⟨by rw [h2]; exact hdrFrom_congr s1 s _ h5 h6, ?_, h3, h4, fun _ => by rw [h6, hidn], h7, h8, h9, h10⟩
      unfold hdrFrom
      rw [h5, hty]
      exact header_none _ h1
    | ended =>
      unfold VSpec at hv
      simp only at hv ⊢
      unfold TSpec
      refine ⟨?_, hv.2⟩
      unfold hdrFrom
      rw [hty]
      exact header_none _ hv.1
    | internal => exact hv

private def RSpec (s : St) (sc : List Ev) : Outcome → Prop
  | .resolved s' r =>
    ∃ ty, s'.ty = some ty ∧
      hdrFrom s (s.buf ++ future s sc) = .complete ty s'.id (s'.buf ++ future s' r)
  | .dropped => hdrFrom s (s.buf ++ future s sc) = .incomplete ∧ endSeen s sc = true
  | .waiting _ => hdrFrom s (s.buf ++ future s sc) = .incomplete ∧ endSeen s sc = false
  | .internal => False

private theorem resolve_spec :
    ∀ (fuel : Nat) (s : St) (sc : List Ev), sc.length < fuel → Inv s → ScriptWF sc →
      (s.ty = none → s.id = none) → RSpec s sc (resolve fuel s sc) := by
  intro fuel
  induction fuel with
  | zero => intro s sc h; omega
  | succ fuel ih =>
    intro s sc hlen hinv hwf hid
    have ht := pollType_spec s sc hinv hwf hid
    unfold resolve
    rcases hp : pollType s sc with ⟨res, s1, r⟩
    rw [hp] at ht
    cases res with
    | ready => exact ht
    | ended => exact ht
    | internal => exact ht
    | pending =>
      unfold TSpec at ht
      simp only at ht ⊢
      obtain ⟨h1, h2, h3, h4, h5, h6, h7, h8, h9⟩ := ht
      by_cases hemp : sc.isEmpty = true
      · rw [if_pos hemp]
        have hsc : sc = [] := by simpa using hemp
        have hr : r = [] := h9 hsc
        unfold RSpec
        subst hr
        constructor
        · rw [← h1]
          simpa [future, h3, bytesOf] using h2
        · rw [← h7]; simp [endSeen, h3, hasEnd]
      · rw [if_neg hemp]
        have hsc : sc ≠ [] := by simpa using hemp
        have hlt := h8 hsc
        have := ih s1 r (by omega) h4 h6 h5
        generalize resolve fuel s1 r = out at this
        cases out with
        | resolved s' r' =>
          unfold RSpec at this ⊢
          obtain ⟨ty, g1, g2⟩ := this
          exact ⟨ty, g1, by rw [← h1]; exact g2⟩
        | dropped =>
          unfold RSpec at this ⊢
          exact ⟨by rw [← h1]; exact this.1, by rw [← h7]; exact this.2⟩
        | waiting s' =>
          unfold RSpec at this ⊢
          exact ⟨by rw [← h1]; exact this.1, by rw [← h7]; exact this.2⟩
        | internal => exact this

/-- **Stream type resolution.**  For every transport script — every way of cutting the stream
    into chunks, `Pending` anywhere, FIN or RESET at any position (what follows them is never looked
    at) — `poll_type`, called again while it answers `Pending`, ends as RFC 9114 §6.2 says:
    * the header (type varint of any length form, plus push id / session id for push and
      WebTransport streams) is complete in the bytes sent before the end ⇒ the stream is resolved
      with exactly the RFC 9000 §16 values, and what is left in the buffer followed by what the
      transport still has is exactly the rest of the stream, in order;
    * the header is incomplete and the stream has ended ⇒ the stream is dropped, no error;
    * the header is incomplete and the stream is still open ⇒ `Pending`;
    * H3_INTERNAL_ERROR never. -/
theorem type_resolution (sc : List Ev) (hwf : ScriptWF sc) :
    match header (bytesOf sc), resolve (sc.length + 1) {} sc with
    | .complete ty id rest, .resolved s r => s.ty = some ty ∧ s.id = id ∧ s.buf ++ future s r = rest
    | .incomplete, .dropped => hasEnd sc = true
    | .incomplete, .waiting _ => hasEnd sc = false
    | _, _ => False := by
  have hinv : Inv {} := ⟨fun _ h => by simp at h, Or.inl rfl⟩
  have h := resolve_spec (sc.length + 1) {} sc (by omega) hinv hwf (fun _ => rfl)
  have h0 : hdrFrom {} (({} : St).buf ++ future {} sc) = header (bytesOf sc) := by
    simp [hdrFrom, future]
  generalize resolve (sc.length + 1) {} sc = out at h
  cases out with
  | resolved s r =>
    unfold RSpec at h
    obtain ⟨ty, h1, h2⟩ := h
    rw [h0] at h2
    rw [h2]
    exact ⟨h1, rfl, rfl⟩
  | dropped =>
    unfold RSpec at h
    rw [h0] at h
    rw [h.1]
    simpa [endSeen] using h.2
  | waiting s =>
    unfold RSpec at h
    rw [h0] at h
    rw [h.1]
    simpa [endSeen] using h.2
  | internal => exact h.elim

end resolution

/-! ## The first connection error is the oracle's -/

section machine
open H3.Spec.ControlRules H3.Gen.Consts

/-- a stream as the model classifies it ↦ the RFC's notion -/
def absKind (cfg : Cfg) : UniAccept.Kind → StreamTy
  | .control => .control
  | .push => .push
  | .encoder => .encoder
  | .decoder => .decoder
  | .wtUni _ => if cfg.wt then .wtUni else .unknown
  | .unknown _ => .unknown

/-- what the frame layer reports on the control stream ↦ what the peer did -/
def absItem : Item → CtlEv
  | .frame (.settings _) => .settings
  | .frame (.data _) => .data
  | .frame (.headers _) => .headers
  | .frame (.pushPromise _ _) => .pushPromise
  | .frame (.goaway id) => .goaway id
  | .frame (.cancelPush id) => .cancelPush id
  | .frame (.maxPushId id) => .maxPushId id
  | .frame (.webTransport _) => .wtSignal
  | .fin => .fin
  | .reset _ => .reset
  | .truncated => .truncatedFin
  | .proto .malformed => .malformed
  | .proto (.unsupported ty) => .h2 ty
  | .proto (.settings _) => .badSettings

/-- `none`: no event for the oracle (`pend`), or an arrival that `type_resolution` rules out -/
def absIn (cfg : Cfg) : In → Option Ev
  | .pend => none
  | .uni _ (.kind k) => some (.stream (absKind cfg k))
  | .uni _ .dropped => some .closedEarly
  | .uni _ .internal => none
  | .item i => some (.ctl (absItem i))

def isServer (cfg : Cfg) : Bool :=
  match cfg.role with
  | .server => true
  | .client => false

/-- does the verdict accept what happened (`some e` = a connection error with code `e` was raised)? -/
def accepts : Verdict → Option Nat → Prop
  | .ok, none => True
  | .ok, some _ => False
  | .must cs, some e => e ∈ cs
  | .must _, none => False
  | .may cs, some e => e ∈ cs
  | .may _, none => True

/-- Step by step along a history: at every input the oracle's verdict accepts what the machine
    did, up to and including the first connection error. -/
def Conforms (cfg : Cfg) : St → Conn → List In → Prop
  | _, _, [] => True
  | sp, c, x :: r =>
    match absIn cfg x with
    | none => Conforms cfg sp (step cfg c x).1 r
    | some ev =>
      accepts (verdict (isServer cfg) sp ev).1 (step cfg c x).2.2 ∧
      ((step cfg c x).2.2 = none → Conforms cfg (verdict (isServer cfg) sp ev).2 (step cfg c x).1 r)

def NoInternal (ins : List In) : Prop := ∀ tag, In.uni tag .internal ∉ ins

/-- oracle state and connection state tell the same story -/
def Sim (sp : St) (c : Conn) : Prop :=
  sp.control = c.control ∧ sp.encoder = c.encoder ∧ sp.decoder = c.decoder ∧
  sp.settings = c.gotSettings ∧ sp.lastGoaway = c.recvClosing

private theorem step_uni (cfg : Cfg) (sp : St) (c : Conn) (tag : Nat) (a : Arrival) (ev : Ev)
    (hs : Sim sp c) (ha : absIn cfg (.uni tag a) = some ev) :
    accepts (verdict (isServer cfg) sp ev).1 (step cfg c (.uni tag a)).2.2 ∧
    ((step cfg c (.uni tag a)).2.2 = none → Sim (verdict (isServer cfg) sp ev).2 (step cfg c (.uni tag a)).1) := by
  obtain ⟨h1, h2, h3, h4, h5⟩ := hs
  cases a with
  | internal => simp [absIn] at ha
  | dropped =>
    simp only [absIn, Option.some.injEq] at ha; subst ha
    simp [verdict, step, acceptArrival, accepts, Sim, h1, h2, h3, h4, h5]
  | kind k =>
    simp only [absIn, Option.some.injEq] at ha; subst ha
    cases k with
    | control =>
      by_cases hc : c.control = true
      · simp [absKind, verdict, step, acceptArrival, acceptKind, accepts, h1, hc, Conn.fail,
          CODE_H3_STREAM_CREATION_ERROR, H3_STREAM_CREATION_ERROR]
      · simp [absKind, verdict, step, acceptArrival, acceptKind, accepts, Sim, h1, h2, h3, h4, h5, hc]
    | encoder =>
      by_cases hc : c.encoder = true
      · simp [absKind, verdict, step, acceptArrival, acceptKind, accepts, h2, hc, Conn.fail,
          CODE_H3_STREAM_CREATION_ERROR, H3_STREAM_CREATION_ERROR]
      · simp [absKind, verdict, step, acceptArrival, acceptKind, accepts, Sim, h1, h2, h3, h4, h5, hc]
    | decoder =>
      by_cases hc : c.decoder = true
      · simp [absKind, verdict, step, acceptArrival, acceptKind, accepts, h3, hc, Conn.fail,
          CODE_H3_STREAM_CREATION_ERROR, H3_STREAM_CREATION_ERROR]
      · simp [absKind, verdict, step, acceptArrival, acceptKind, accepts, Sim, h1, h2, h3, h4, h5, hc]
    | push => simp [absKind, verdict, step, acceptArrival, acceptKind, accepts, Sim, h1, h2, h3, h4, h5]
    | wtUni sid =>
      by_cases hw : cfg.wt = true
      · simp [absKind, verdict, step, acceptArrival, acceptKind, accepts, Sim, h1, h2, h3, h4, h5, hw]
      · simp [absKind, verdict, step, acceptArrival, acceptKind, accepts, Sim, h1, h2, h3, h4, h5, hw]
    | unknown ty => simp [absKind, verdict, step, acceptArrival, acceptKind, accepts, Sim, h1, h2, h3, h4, h5]

private theorem goaway_server (sp : St) (c : Conn) (id : Nat) (h5 : sp.lastGoaway = c.recvClosing) :
    accepts (if goawayOk true sp id then Verdict.ok else .must [H3_ID_ERROR]) (processGoaway c id).2 ∧
    ((processGoaway c id).2 = none → (processGoaway c id).1 = { c with recvClosing := some id }) := by
  unfold processGoaway goawayOk
  rw [h5]
  cases hrc : c.recvClosing with
  | none => simp [accepts]
  | some prev =>
    by_cases hlt : prev < id
    · have : ¬ id ≤ prev := by omega
      simp [hlt, this, accepts, H3_ID_ERROR, CODE_H3_ID_ERROR]
    · have : id ≤ prev := by omega
      simp [hlt, this, accepts]

private theorem goaway_client (sp : St) (c : Conn) (id : Nat) (h5 : sp.lastGoaway = c.recvClosing) :
    accepts (if goawayOk false sp id then Verdict.ok else .must [H3_ID_ERROR]) (clientHandle c (.goaway id)).2 ∧
    ((clientHandle c (.goaway id)).2 = none → (clientHandle c (.goaway id)).1 = { c with recvClosing := some id }) := by
  unfold clientHandle processGoaway goawayOk
  rw [h5]
  by_cases h4 : id % 4 = 0
  · cases hrc : c.recvClosing with
    | none => simp [accepts, h4]
    | some prev =>
      by_cases hlt : prev < id
      · have : ¬ id ≤ prev := by omega
        simp [hlt, this, accepts, h4, H3_ID_ERROR, CODE_H3_ID_ERROR]
      · have : id ≤ prev := by omega
        simp [hlt, this, accepts, h4]
  · simp [h4, accepts, Conn.fail, H3_ID_ERROR, CODE_H3_ID_ERROR]

private theorem step_item_nocontrol (cfg : Cfg) (sp : St) (c : Conn) (i : Item)
    (hs : Sim sp c) (hc : c.control = false) :
    accepts (verdict (isServer cfg) sp (.ctl (absItem i))).1 (step cfg c (.item i)).2.2 ∧
    ((step cfg c (.item i)).2.2 = none →
      Sim (verdict (isServer cfg) sp (.ctl (absItem i))).2 (step cfg c (.item i)).1) := by
  obtain ⟨h1, h2, h3, h4, h5⟩ := hs
  simp [verdict, step, h1, hc, accepts, Sim, h2, h3, h4, h5]

private theorem step_item_first (cfg : Cfg) (sp : St) (c : Conn) (i : Item)
    (hs : Sim sp c) (hc : c.control = true) (hg : c.gotSettings = false) :
    accepts (verdict (isServer cfg) sp (.ctl (absItem i))).1 (step cfg c (.item i)).2.2 ∧
    ((step cfg c (.item i)).2.2 = none →
      Sim (verdict (isServer cfg) sp (.ctl (absItem i))).2 (step cfg c (.item i)).1) := by
  obtain ⟨h1, h2, h3, h4, h5⟩ := hs
  cases i with
  | fin => simp [verdict, step, h1, h4, hc, hg, absItem, firstFrame, classify, accepts,
      CODE_H3_CLOSED_CRITICAL_STREAM, H3_CLOSED_CRITICAL_STREAM]
  | reset x => simp [verdict, step, h1, h4, hc, hg, absItem, firstFrame, classify, accepts,
      CODE_H3_CLOSED_CRITICAL_STREAM, H3_CLOSED_CRITICAL_STREAM]
  | truncated => simp [verdict, step, h1, h4, hc, hg, absItem, firstFrame, classify, accepts,
      CODE_H3_FRAME_ERROR, H3_FRAME_ERROR, H3_CLOSED_CRITICAL_STREAM, H3_MISSING_SETTINGS]
  | proto e =>
    cases e <;> simp [verdict, step, h1, h4, hc, hg, absItem, firstFrame, classify, accepts, protoCode,
      CODE_H3_FRAME_ERROR, H3_FRAME_ERROR, H3_MISSING_SETTINGS, CODE_H3_FRAME_UNEXPECTED,
      H3_FRAME_UNEXPECTED, CODE_H3_SETTINGS_ERROR, H3_SETTINGS_ERROR]
  | frame f =>
    cases f with
    | settings es =>
      cases hr : cfg.role <;>
        simp [verdict, step, h1, h4, hc, hg, absItem, firstFrame, classify, accepts, handle, hr,
          serverHandle, clientHandle, Sim, h2, h3, h5]
    | _ =>
      simp [verdict, step, h1, h4, hc, hg, absItem, firstFrame, classify, accepts,
        CODE_H3_MISSING_SETTINGS, H3_MISSING_SETTINGS, H3_FRAME_UNEXPECTED]

private theorem step_item_later (cfg : Cfg) (sp : St) (c : Conn) (i : Item)
    (hs : Sim sp c) (hc : c.control = true) (hg : c.gotSettings = true) :
    accepts (verdict (isServer cfg) sp (.ctl (absItem i))).1 (step cfg c (.item i)).2.2 ∧
    ((step cfg c (.item i)).2.2 = none →
      Sim (verdict (isServer cfg) sp (.ctl (absItem i))).2 (step cfg c (.item i)).1) := by
  obtain ⟨h1, h2, h3, h4, h5⟩ := hs
  cases i with
  | fin => simp [verdict, step, h1, h4, hc, hg, absItem, laterFrame, classify, accepts,
      CODE_H3_CLOSED_CRITICAL_STREAM, H3_CLOSED_CRITICAL_STREAM]
  | reset x => simp [verdict, step, h1, h4, hc, hg, absItem, laterFrame, classify, accepts,
      CODE_H3_CLOSED_CRITICAL_STREAM, H3_CLOSED_CRITICAL_STREAM]
  | truncated => simp [verdict, step, h1, h4, hc, hg, absItem, laterFrame, classify, accepts,
      CODE_H3_FRAME_ERROR, H3_FRAME_ERROR, H3_CLOSED_CRITICAL_STREAM]
  | proto e =>
    cases e <;> simp [verdict, step, h1, h4, hc, hg, absItem, laterFrame, classify, accepts, protoCode,
      CODE_H3_FRAME_ERROR, H3_FRAME_ERROR, CODE_H3_FRAME_UNEXPECTED,
      H3_FRAME_UNEXPECTED, CODE_H3_SETTINGS_ERROR, H3_SETTINGS_ERROR]
  | frame f =>
    cases f with
    | settings es => simp [verdict, step, h1, h4, hc, hg, absItem, laterFrame, classify, accepts,
        CODE_H3_FRAME_UNEXPECTED, H3_FRAME_UNEXPECTED]
    | data n => simp [verdict, step, h1, h4, hc, hg, absItem, laterFrame, classify, classifyLater, accepts,
        CODE_H3_FRAME_UNEXPECTED, H3_FRAME_UNEXPECTED]
    | headers n => simp [verdict, step, h1, h4, hc, hg, absItem, laterFrame, classify, classifyLater, accepts,
        CODE_H3_FRAME_UNEXPECTED, H3_FRAME_UNEXPECTED]
    | pushPromise a b => simp [verdict, step, h1, h4, hc, hg, absItem, laterFrame, classify, classifyLater, accepts,
        CODE_H3_FRAME_UNEXPECTED, H3_FRAME_UNEXPECTED]
    | webTransport a => simp [verdict, step, h1, h4, hc, hg, absItem, laterFrame, classify, classifyLater, accepts,
        CODE_H3_FRAME_UNEXPECTED, H3_FRAME_UNEXPECTED]
    | cancelPush id =>
      cases hr : cfg.role <;>
        simp [verdict, step, h1, h4, hc, hg, absItem, laterFrame, classify, classifyLater, accepts, handle, hr,
          isServer, serverHandle, clientHandle, Sim, h2, h3, h5, Conn.fail,
          CODE_H3_FRAME_UNEXPECTED, H3_FRAME_UNEXPECTED, H3_ID_ERROR]
    | maxPushId id =>
      cases hr : cfg.role
      · simp only [verdict, step, h1, h4, hc, hg, absItem, laterFrame, classify, classifyLater, handle, hr,
          isServer, serverHandle, if_true]
        refine ⟨?_, fun _ => by simp [Sim, hc, hg, h2, h3, h5]⟩
        split <;> simp [accepts]
      · simp [verdict, step, h1, h4, hc, hg, absItem, laterFrame, classify, classifyLater, accepts, handle, hr,
          isServer, clientHandle, Conn.fail, CODE_H3_FRAME_UNEXPECTED, H3_FRAME_UNEXPECTED]
    | goaway id =>
      cases hr : cfg.role
      · have := goaway_server sp c id h5
        simp only [verdict, step, h1, h4, hc, hg, absItem, laterFrame, classify, classifyLater, handle, hr,
          isServer, serverHandle, if_true]
        refine ⟨this.1, fun hn => ?_⟩
        rw [this.2 hn]
        simp [Sim, hc, hg, h2, h3]
      · have := goaway_client sp c id h5
        simp only [verdict, step, h1, h4, hc, hg, absItem, laterFrame, classify, classifyLater, handle, hr,
          isServer, if_true]
        refine ⟨this.1, fun hn => ?_⟩
        rw [this.2 hn]
        simp [Sim, hc, hg, h2, h3]

private theorem step_sound (cfg : Cfg) (sp : St) (c : Conn) (x : In) (ev : Ev)
    (hs : Sim sp c) (ha : absIn cfg x = some ev) :
    accepts (verdict (isServer cfg) sp ev).1 (step cfg c x).2.2 ∧
    ((step cfg c x).2.2 = none → Sim (verdict (isServer cfg) sp ev).2 (step cfg c x).1) := by
  cases x with
  | pend => simp [absIn] at ha
  | uni tag a => exact step_uni cfg sp c tag a ev hs ha
  | item i =>
    simp only [absIn, Option.some.injEq] at ha; subst ha
    by_cases hc : c.control = true
    · by_cases hg : c.gotSettings = true
      · exact step_item_later cfg sp c i hs hc hg
      · exact step_item_first cfg sp c i hs hc (by simpa using hg)
    · exact step_item_nocontrol cfg sp c i hs (by simpa using hc)

private theorem conforms_of_sim (cfg : Cfg) :
    ∀ (ins : List In) (sp : St) (c : Conn), Sim sp c → NoInternal ins → Conforms cfg sp c ins := by
  intro ins
  induction ins with
  | nil => intro sp c _ _; simp [Conforms]
  | cons x r ih =>
    intro sp c hs hni
    have hni' : NoInternal r := fun tag hm => hni tag (List.mem_cons_of_mem _ hm)
    simp only [Conforms]
    cases ha : absIn cfg x with
    | none =>
      simp only
      cases x with
      | pend => simpa [step] using ih sp c hs hni'
      | uni tag a =>
        cases a with
        | internal => exact absurd (List.mem_cons_self) (hni tag)
        | dropped => simp [absIn] at ha
        | kind k => simp [absIn] at ha
      | item i => simp [absIn] at ha
    | some ev =>
      simp only
      obtain ⟨h1, h2⟩ := step_sound cfg sp c x ev hs ha
      exact ⟨h1, fun hn => ih _ _ (h2 hn) hni'⟩

/-- **The control machine raises the oracle's error.**  For every role and configuration and
    every history — unidirectional streams of any type arriving (or being dropped) in any order,
    interleaved with whatever the frame layer reports on the control stream, of any length: at
    every input the verdict of the RFC table (`Spec.ControlRules.verdict`) accepts what the machine
    does — no connection error where the verdict is `ok`, an error with one of the listed codes
    where it is `must`, and this up to and including the first connection error.  (`NoInternal`:
    `poll_type` never answers H3_INTERNAL_ERROR, which is `type_resolution`.) -/
theorem control_machine (cfg : Cfg) (ins : List In) (h : NoInternal ins) :
    Conforms cfg {} {} ins :=
  conforms_of_sim cfg ins {} {} ⟨rfl, rfl, rfl, rfl, rfl⟩ h

/-- the error the reference run ends with — hence, by `acted_once_any`, the error the polled
    machine returns — is the one raised at the first input that raises one -/
def firstErr (cfg : Cfg) : Conn → List In → Option Nat
  | _, [] => none
  | c, x :: r =>
    match (step cfg c x).2.2 with
    | some e => some e
    | none => firstErr cfg (step cfg c x).1 r

theorem refRun_err (cfg : Cfg) : ∀ (ins : List In) (c : Conn), (refRun cfg c ins).2.1 = firstErr cfg c ins := by
  intro ins
  induction ins with
  | nil => intro c; rfl
  | cons x r ih =>
    intro c
    simp only [refRun, firstErr]
    rcases hs : step cfg c x with ⟨c1, f, e⟩
    cases e with
    | some e' => rfl
    | none =>
      simp only
      rw [← ih c1]

/-- `into_stream` + the arms of `poll_accept_recv` classify a resolved stream as RFC 9114 §6.2 does
    (WebTransport streams only when the extension is enabled); neither `expect` can fire once
    `poll_type` has answered `Ready`. -/
theorem into_stream (cfg : Cfg) (s : UniAccept.St) (ty : Nat) (hty : s.ty = some ty)
    (hid : hasId ty = true → s.id.isSome = true) :
    ∃ k, UniAccept.intoStream s = some k ∧ absKind cfg k = streamTy cfg.wt ty := by
  unfold UniAccept.intoStream
  rw [hty]
  simp only [STREAM_CONTROL, STREAM_PUSH, STREAM_ENCODER, STREAM_DECODER, STREAM_WEBTRANSPORT_UNI]
  by_cases h0 : ty = 0
  · subst h0; exact ⟨.control, by simp, by simp [absKind, streamTy, TY_CONTROL]⟩
  by_cases h1 : ty = 1
  · subst h1; exact ⟨.push, by simp, by simp [absKind, streamTy, TY_CONTROL, TY_PUSH]⟩
  by_cases h2 : ty = 2
  · subst h2; exact ⟨.encoder, by simp, by simp [absKind, streamTy, TY_CONTROL, TY_PUSH, TY_QPACK_ENCODER]⟩
  by_cases h3 : ty = 3
  · subst h3
    exact ⟨.decoder, by simp, by simp [absKind, streamTy, TY_CONTROL, TY_PUSH, TY_QPACK_ENCODER, TY_QPACK_DECODER]⟩
  by_cases h4 : ty = 84
  · subst h4
    have := hid (by decide)
    obtain ⟨i, hi⟩ := Option.isSome_iff_exists.mp this
    refine ⟨.wtUni i, by simp [hi], ?_⟩
    simp [absKind, streamTy, TY_CONTROL, TY_PUSH, TY_QPACK_ENCODER, TY_QPACK_DECODER, TY_WEBTRANSPORT_UNI]
  · refine ⟨.unknown ty, by simp [h0, h1, h2, h3, h4], ?_⟩
    simp [absKind, streamTy, TY_CONTROL, TY_PUSH, TY_QPACK_ENCODER, TY_QPACK_DECODER, TY_WEBTRANSPORT_UNI,
      h0, h1, h2, h3, h4]

/-- a stream of unknown type is told to stop with H3_STREAM_CREATION_ERROR (RFC 9114 §6.2 SHOULD)
    and never causes a connection error; neither does a stream dropped before its type is known -/
theorem unknown_stream (cfg : Cfg) (c : Conn) (ty : Nat) :
    acceptArrival cfg c (.kind (.unknown ty)) = { conn := c, stop := some 0x0103 } ∧
    acceptArrival cfg c .dropped = { conn := c } := ⟨rfl, rfl⟩

/-- the same against the oracle: a resolved stream whose type the RFC table calls unknown -/
theorem unknown_stream_spec (cfg : Cfg) (c : Conn) (sp : St) (s : UniAccept.St) (ty : Nat)
    (hty : s.ty = some ty) (hid : hasId ty = true → s.id.isSome = true)
    (hunk : streamTy cfg.wt ty = .unknown) :
    (verdict (isServer cfg) sp (.stream (streamTy cfg.wt ty))).1 = .ok ∧
    (verdict (isServer cfg) sp .closedEarly).1 = .ok ∧
    (∃ k, UniAccept.intoStream s = some k ∧
      (acceptArrival cfg c (.kind k)).err = none ∧ (acceptArrival cfg c (.kind k)).conn = c ∧
      ((acceptArrival cfg c (.kind k)).stop = none ∨
       (acceptArrival cfg c (.kind k)).stop = some H3_STREAM_CREATION_ERROR)) ∧
    (acceptArrival cfg c .dropped).err = none ∧ (acceptArrival cfg c .dropped).conn = c := by
  refine ⟨by rw [hunk]; rfl, rfl, ?_, rfl, rfl⟩
  obtain ⟨k, hk, habs⟩ := into_stream cfg s ty hty hid
  rw [hunk] at habs
  refine ⟨k, hk, ?_⟩
  cases k with
  | control => simp [absKind] at habs
  | push => simp [absKind] at habs
  | encoder => simp [absKind] at habs
  | decoder => simp [absKind] at habs
  | wtUni sid =>
    by_cases hw : cfg.wt = true
    · simp [absKind, hw] at habs
    · simp [acceptArrival, acceptKind, hw]
  | unknown t => simp [acceptArrival, acceptKind, H3_STREAM_CREATION_ERROR, CODE_H3_STREAM_CREATION_ERROR]

/-- the RFC-by-the-letter table differs from the property's table only in the rules of server push
    and in the closing of a peer QPACK stream (RFC 9204 §4.2; reading R-04e) -/
theorem rfc_table_differs (server : Bool) (sp : St) (e : Ev) :
    verdictRfc server sp e = verdict server sp e ∨
    e = .stream .push ∨ (∃ id, e = .ctl (.cancelPush id)) ∨ (∃ id, e = .ctl (.maxPushId id) ∧ server = true) ∨
    e = .qpackClosed := by
  cases e with
  | stream t => cases t <;> simp [verdictRfc]
  | closedEarly => simp [verdictRfc]
  | qpackClosed => simp
  | ctl ce =>
    by_cases h : (sp.control && sp.settings) = true
    · have hc : sp.control = true := by simp at h; exact h.1
      have hs : sp.settings = true := by simp at h; exact h.2
      cases ce <;> simp [verdictRfc, verdict, laterFrameRfc, hc, hs]
      cases server <;> simp
    · simp [verdictRfc, h]

end machine

/-! ## Every control frame is acted upon exactly once, whatever the grease stream does -/

private theorem accept_err_none (cfg : Cfg) (c : Conn) (a : Arrival) (h : c.err = none)
    (h2 : (acceptArrival cfg c a).err = none) : (acceptArrival cfg c a).conn.err = none := by
  cases a with
  | dropped => simpa [acceptArrival] using h
  | internal => simp [acceptArrival] at h2
  | kind k =>
    cases k <;> simp only [acceptArrival, acceptKind] at h2 ⊢ <;> (try split at h2) <;>
      (try split) <;> simp_all

private theorem processGoaway_none (c c2 : Conn) (id : Nat) (h : processGoaway c id = (c2, none)) :
    c2.err = c.err ∧ c2.control = c.control := by
  unfold processGoaway at h
  split at h
  · split at h
    · simp at h
    · simp only [Prod.mk.injEq, and_true] at h; subst h; simp
  · simp only [Prod.mk.injEq, and_true] at h; subst h; simp

private theorem handle_none (role : Role) (c c2 : Conn) (f : Frame) (h : handle role c f = (c2, none)) :
    c2.err = c.err ∧ c2.control = c.control := by
  cases role <;> cases f <;> simp only [handle, serverHandle, clientHandle] at h <;>
    first
      | (simp only [Prod.mk.injEq, and_true] at h; subst h; exact ⟨rfl, rfl⟩)
      | exact processGoaway_none _ _ _ h
      | (split at h
         · exact processGoaway_none _ _ _ h
         · simp at h)
      | simp at h

private theorem classifyLater_pass (c c1 : Conn) (f f' : Frame) (h : classifyLater c f = .pass f' c1) :
    c1 = c ∧ f' = f := by
  cases f <;> simp [classifyLater] at h <;> simp [h]

private theorem classify_pass (c c1 : Conn) (i : Item) (f : Frame) (h : classify c i = .pass f c1) :
    c1.err = c.err ∧ c1.control = c.control ∧ i = .frame f := by
  cases i with
  | frame f0 =>
    cases f0 with
    | settings es =>
      simp only [classify] at h
      split at h
      · simp at h
      · simp only [Class.pass.injEq] at h; obtain ⟨h1, h2⟩ := h; subst h1 h2; simp
    | data n =>
      simp only [classify] at h; split at h
      · obtain ⟨h1, h2⟩ := classifyLater_pass _ _ _ _ h; subst h1 h2; simp
      · simp at h
    | headers p =>
      simp only [classify] at h; split at h
      · obtain ⟨h1, h2⟩ := classifyLater_pass _ _ _ _ h; subst h1 h2; simp
      · simp at h
    | cancelPush v =>
      simp only [classify] at h; split at h
      · obtain ⟨h1, h2⟩ := classifyLater_pass _ _ _ _ h; subst h1 h2; simp
      · simp at h
    | pushPromise v e =>
      simp only [classify] at h; split at h
      · obtain ⟨h1, h2⟩ := classifyLater_pass _ _ _ _ h; subst h1 h2; simp
      · simp at h
    | goaway v =>
      simp only [classify] at h; split at h
      · obtain ⟨h1, h2⟩ := classifyLater_pass _ _ _ _ h; subst h1 h2; simp
      · simp at h
    | maxPushId v =>
      simp only [classify] at h; split at h
      · obtain ⟨h1, h2⟩ := classifyLater_pass _ _ _ _ h; subst h1 h2; simp
      · simp at h
    | webTransport v =>
      simp only [classify] at h; split at h
      · obtain ⟨h1, h2⟩ := classifyLater_pass _ _ _ _ h; subst h1 h2; simp
      · simp at h
  | fin => simp [classify] at h
  | reset c => simp [classify] at h
  | truncated => simp [classify] at h
  | proto e => simp [classify] at h

private theorem afterFrame_false (f : Frame) (c : Conn) (gs : Grease) (r : List In) (g : List GAns) :
    (afterFrame false f c gs r g).res = .ready f ∧ (afterFrame false f c gs r g).conn = c ∧
    (afterFrame false f c gs r g).ins = r := by
  unfold afterFrame
  split
  · simp
  · simp

/-- what one call of `poll_control` means in terms of the reference run -/
private def PCSpec (cfg : Cfg) (c : Conn) (ins : List In) (o : PollOut) : Prop :=
  match o.res with
  | .pending =>
    o.conn.err = none ∧ refRun cfg c ins = refRun cfg o.conn o.ins ∧
    (ins ≠ [] → o.ins.length < ins.length) ∧ (ins = [] → o.ins = [])
  | .err e => refRun cfg c ins = ([], some e, o.conn)
  | .ready f =>
    o.conn.err = none ∧ o.ins.length < ins.length ∧
    refRun cfg c ins =
      (match handle cfg.role o.conn f with
       | (c2, some e) => ([f], some e, c2)
       | (c2, none) =>
         match refRun cfg c2 o.ins with
         | (a, e, c3) => (f :: a, e, c3))

private theorem refRun_cons_none (cfg : Cfg) (c c1 : Conn) (x : In) (r : List In)
    (h : step cfg c x = (c1, none, none)) : refRun cfg c (x :: r) = refRun cfg c1 r := by
  simp only [refRun, h]
  rcases refRun cfg c1 r with ⟨a, e, c2⟩
  simp [optList]

private theorem PCSpec_stops (cfg : Cfg) (c : Conn) (ins : List In) (o : PollOut) (st : List (Nat × Nat)) :
    PCSpec cfg c ins { o with stops := st } = PCSpec cfg c ins o := rfl

private theorem PCSpec_lift (cfg : Cfg) (c c1 : Conn) (x : In) (r : List In) (o : PollOut)
    (hr : refRun cfg c (x :: r) = refRun cfg c1 r) (h : PCSpec cfg c1 r o) : PCSpec cfg c (x :: r) o := by
  unfold PCSpec at h ⊢
  cases hres : o.res with
  | pending =>
    simp only [hres] at h ⊢
    obtain ⟨h1, h2, h3, h4⟩ := h
    refine ⟨h1, by rw [hr, h2], ?_, by simp⟩
    intro _
    by_cases hrn : r = []
    · simp [h4 hrn]
    · have := h3 hrn; simp; omega
  | err e => simp only [hres] at h ⊢; rw [hr]; exact h
  | ready f =>
    simp only [hres] at h ⊢
    obtain ⟨h1, h2, h3⟩ := h
    exact ⟨h1, by simp; omega, by rw [hr]; exact h3⟩

private theorem pollControl_spec (cfg : Cfg) (gs : Grease) (g : List GAns) :
    ∀ (ins : List In) (c : Conn), c.err = none → PCSpec cfg c ins (pollControl false cfg c gs ins g) := by
  intro ins
  induction ins with
  | nil =>
    intro c hc
    simp [pollControl, hc, PCSpec]
  | cons x r ih =>
    intro c hc
    cases x with
    | pend =>
      simp only [pollControl, hc]
      unfold PCSpec
      refine ⟨hc, ?_, by simp, by simp⟩
      exact refRun_cons_none cfg c c .pend r (by simp [step])
    | uni tag a =>
      simp only [pollControl, hc]
      cases hae : (acceptArrival cfg c a).err with
      | some e =>
        simp only [PCSpec]
        simp [refRun, step, hae, optList]
      | none =>
        have hc1 := accept_err_none cfg c a hc hae
        have := ih (acceptArrival cfg c a).conn hc1
        have hr : refRun cfg c (.uni tag a :: r) = refRun cfg (acceptArrival cfg c a).conn r :=
          refRun_cons_none cfg c _ (.uni tag a) r (by simp [step, hae])
        simp only [PCSpec_stops]
        exact PCSpec_lift cfg c _ _ r _ hr this
    | item i =>
      simp only [pollControl, hc]
      by_cases hctl : c.control = true
      · rw [if_pos hctl]
        cases hcl : classify c i with
        | error e =>
          simp only [PCSpec]
          simp [refRun, step, hctl, hcl, optList]
        | pass f c1 =>
          obtain ⟨h1, h2, h3⟩ := afterFrame_false f c1 gs r g
          obtain ⟨he, _, _⟩ := classify_pass c c1 i f hcl
          simp only [PCSpec, h1, h2, h3]
          refine ⟨by rw [he]; exact hc, by simp, ?_⟩
          simp only [refRun, step, hctl, if_true, hcl]
          rcases hh : handle cfg.role c1 f with ⟨c2, e⟩
          cases e with
          | some e' => simp [optList]
          | none =>
            simp only
            rcases refRun cfg c2 r with ⟨a, e, c3⟩
            simp [optList]
      · rw [if_neg hctl]
        unfold PCSpec
        refine ⟨hc, ?_, by simp, by simp⟩
        exact refRun_cons_none cfg c c (.item i) r (by simp [step, hctl])

private def DSpec (cfg : Cfg) (c : Conn) (ins : List In) (d : DriveOut) : Prop :=
  match d.res with
  | some e => refRun cfg c ins = (d.acts, some e, d.conn)
  | none =>
    d.conn.err = none ∧ (ins ≠ [] → d.ins.length < ins.length) ∧ (ins = [] → d.ins = []) ∧
    refRun cfg c ins =
      (match refRun cfg d.conn d.ins with
       | (a, e, c3) => (d.acts ++ a, e, c3))

private theorem drivePoll_spec (cfg : Cfg) :
    ∀ (fuel : Nat) (c : Conn) (gs : Grease) (ins : List In) (g : List GAns),
      c.err = none → ins.length < fuel → DSpec cfg c ins (drivePoll false cfg fuel c gs ins g) := by
  intro fuel
  induction fuel with
  | zero => intro c gs ins g _ h; omega
  | succ fuel ih =>
    intro c gs ins g hc hlen
    have hp := pollControl_spec cfg gs g ins c hc
    simp only [drivePoll]
    generalize pollControl false cfg c gs ins g = o at hp
    simp only [PCSpec] at hp
    cases hres : o.res with
    | pending =>
      simp only [hres] at hp ⊢
      obtain ⟨h1, h2, h3, h4⟩ := hp
      simp only [DSpec]
      refine ⟨h1, h3, h4, ?_⟩
      rw [h2]; rcases refRun cfg o.conn o.ins with ⟨a, e, c3⟩; simp
    | err e =>
      simp only [hres] at hp ⊢
      simpa [DSpec] using hp
    | ready f =>
      simp only [hres] at hp ⊢
      obtain ⟨h1, h2, h3⟩ := hp
      rcases hh : handle cfg.role o.conn f with ⟨c1, e⟩
      rw [hh] at h3
      cases e with
      | some e' => simpa [DSpec] using h3
      | none =>
        simp only at h3 ⊢
        have hc1 : c1.err = none := by rw [(handle_none _ _ _ _ hh).1]; exact h1
        have := ih c1 o.gs o.ins o.g hc1 (by omega)
        generalize drivePoll false cfg fuel c1 o.gs o.ins o.g = d at this
        simp only [DSpec] at this ⊢
        cases hd : d.res with
        | some e2 =>
          simp only [hd] at this ⊢
          rw [h3, this]
        | none =>
          simp only [hd] at this ⊢
          obtain ⟨g1, g2, g3, g4⟩ := this
          refine ⟨g1, ?_, ?_, ?_⟩
          · intro _
            by_cases hn : o.ins = []
            · rw [g3 hn]; simp at h2 ⊢; omega
            · have := g2 hn; omega
          · intro hn; subst hn; simp at h2
          · rw [h3, g4]
            rcases refRun cfg d.conn d.ins with ⟨a, e, c3⟩
            simp

private theorem driveAll_spec (cfg : Cfg) :
    ∀ (fuel : Nat) (c : Conn) (gs : Grease) (ins : List In) (g : List GAns),
      c.err = none → ins.length < fuel → driveAll false cfg fuel c gs ins g = refRun cfg c ins := by
  intro fuel
  induction fuel with
  | zero => intro c gs ins g _ h; omega
  | succ fuel ih =>
    intro c gs ins g hc hlen
    have hd := drivePoll_spec cfg (ins.length + 1) c gs ins g hc (by omega)
    simp only [driveAll]
    generalize drivePoll false cfg (ins.length + 1) c gs ins g = d at hd
    simp only [DSpec] at hd
    cases hres : d.res with
    | some e => simp only [hres] at hd ⊢; exact hd.symm
    | none =>
      simp only [hres] at hd ⊢
      obtain ⟨h1, h2, h3, h4⟩ := hd
      by_cases he : d.ins.isEmpty = true
      · rw [if_pos he]
        have : d.ins = [] := by simpa using he
        rw [h4, this]; simp [refRun]
      · rw [if_neg he]
        have hne : d.ins ≠ [] := by simpa using he
        have hins : ins ≠ [] := fun h => hne (h3 h)
        have := h2 hins
        rw [ih d.conn d.gs d.ins d.g h1 (by omega), h4]

/-- the frames the frame layer delivers on the control stream, in order -/
def delivered : List In → List Frame
  | [] => []
  | .item (.frame f) :: r => f :: delivered r
  | _ :: r => delivered r

private theorem accept_control (cfg : Cfg) (c : Conn) (a : Arrival) (h : c.control = true)
    (h2 : (acceptArrival cfg c a).err = none) : (acceptArrival cfg c a).conn.control = true := by
  cases a with
  | dropped => simpa [acceptArrival] using h
  | internal => simp [acceptArrival] at h2
  | kind k =>
    cases k <;> simp only [acceptArrival, acceptKind] at h2 ⊢ <;> (try split at h2) <;>
      (try split) <;> simp_all

private theorem refRun_prefix (cfg : Cfg) :
    ∀ (ins : List In) (c : Conn), c.control = true →
      (refRun cfg c ins).1 <+: delivered ins ∧
      ((refRun cfg c ins).2.1 = none → (refRun cfg c ins).1 = delivered ins) := by
  intro ins
  induction ins with
  | nil => intro c _; simp [refRun, delivered]
  | cons x r ih =>
    intro c hctl
    cases x with
    | pend =>
      rw [refRun_cons_none cfg c c .pend r (by simp [step])]
      simpa [delivered] using ih c hctl
    | uni tag a =>
      cases hae : (acceptArrival cfg c a).err with
      | some e => simp [refRun, step, hae, optList]
      | none =>
        rw [refRun_cons_none cfg c (acceptArrival cfg c a).conn (.uni tag a) r (by simp [step, hae])]
        simpa [delivered] using ih _ (accept_control cfg c a hctl hae)
    | item i =>
      cases hcl : classify c i with
      | error e => simp [refRun, step, hctl, hcl, optList]
      | pass f c1 =>
        obtain ⟨_, hc1, hi⟩ := classify_pass c c1 i f hcl
        subst hi
        simp only [refRun, step, hctl, if_true, hcl, delivered]
        rcases hh : handle cfg.role c1 f with ⟨c2, e⟩
        cases e with
        | some e' => simp [optList]
        | none =>
          have hc2 : c2.control = true := by rw [(handle_none _ _ _ _ hh).2, hc1]; exact hctl
          have := ih c2 hc2
          dsimp only
          generalize refRun cfg c2 r = p at this ⊢
          obtain ⟨a, e, c3⟩ := p
          simp only [optList, List.singleton_append, List.cons.injEq, true_and]
          exact ⟨(List.prefix_cons_inj f).mpr this.1, this.2⟩

/-- **Acted upon exactly once.**  Whatever `poll_open_send` / `send_data` / `poll_ready` /
    `poll_finish` of the grease stream answer (`g`: pending, ok or error in any pattern, for ever
    pending when exhausted), in whatever state the grease stream is (`gs`), and however the
    arrival of the inputs is spread over polls of the driver (`pend` anywhere in `ins`): the frames
    handed to the role handler, the connection error returned and the final connection state are
    those of the reference run, which does not know about polls or the grease stream.  The frames
    handed over are, in order and each once, the frames the frame layer delivered — all of them
    if no connection error occurs, otherwise those up to the one that raised it. -/
theorem acted_once (cfg : Cfg) (c : Conn) (gs : Grease) (ins : List In) (g : List GAns)
    (hc : c.err = none) (hctl : c.control = true) :
    driveAll false cfg (ins.length + 1) c gs ins g = refRun cfg c ins ∧
    (refRun cfg c ins).1 <+: delivered ins ∧
    ((refRun cfg c ins).2.1 = none → (refRun cfg c ins).1 = delivered ins) :=
  ⟨driveAll_spec cfg _ c gs ins g hc (by omega), refRun_prefix cfg ins c hctl⟩

/-- the same without assuming that the control stream has already been accepted (then items that
    precede it in `ins` are not deliverable) -/
theorem acted_once_any (cfg : Cfg) (c : Conn) (gs : Grease) (ins : List In) (g : List GAns)
    (hc : c.err = none) :
    driveAll false cfg (ins.length + 1) c gs ins g = refRun cfg c ins :=
  driveAll_spec cfg _ c gs ins g hc (by omega)

/-- the connection error the polled machine returns is the one raised at the first input that
    raises one -/
theorem first_error (cfg : Cfg) (c : Conn) (gs : Grease) (ins : List In) (g : List GAns)
    (hc : c.err = none) :
    (driveAll false cfg (ins.length + 1) c gs ins g).2.1 = firstErr cfg c ins := by
  rw [driveAll_spec cfg _ c gs ins g hc (by omega)]
  exact refRun_err cfg ins c

end H3.Lemmas.C04
