import H3.Lemmas.C06Frame
import H3.Lemmas.ReqRecv
/-! The documented receive pattern of a request stream (`H3.ReqRecv` over `fsSrc`, the
    `FrameStream` model against a transport script) for C06.

    * `Phase`, `pollPhase`, `nextPhase`: the pattern as a state machine — one API poll per step;
      `resolve_request`/`recv_response`, then `recv_data` until it answers `None`, then
      `recv_trailers`; a call that fails ends the pattern, a call that is pending is polled again.
    * `PhaseOK`: the invariant that keeps the `assert!(remaining_data == 0)` of `poll_next` from
      firing: before the head and before the trailers `remaining_data = 0`; while the body is read
      `remaining_data < 2^62` (so `poll_data` never takes the WebTransport branch that answers
      `None` with data outstanding).
    * `runDoc`: the pattern run against a script, every `Pending` retried while the script has
      events left (each `pend` of the script ends one poll).
    * `DocReach`: every schedule — the configurations reachable by documented calls, with events
      arriving between any two polls. -/
namespace H3.C06
open H3.ReqRecv H3.Frame H3.Gen.Consts
open H3.Varint (WF)
open H3.Lemmas.C04 (ScriptWF)

abbrev RSt := H3.ReqRecv.St FSt

inductive Phase where
  | head | body | trailers
deriving Repr, DecidableEq

/-- one poll of the call the documented pattern makes in this phase -/
def pollPhase (role : Role) (H : Hdr) (N : Nat) : Phase → RSt → Res × RSt
  | .head, st => pollHead role fsSrc H st
  | .body, st => pollRecvData fsSrc N st
  | .trailers, st => pollRecvTrailers fsSrc H st

/-- what the application does with an answer: `none` = the pattern has ended (the last call
    answered, or a call failed); `Pending` = the same call is polled again when the task is woken -/
def nextPhase : Phase → Res → Option Phase
  | ph, .pending => some ph
  | .head, .head _ => some .body
  | .body, .data _ => some .body
  | .body, .end_ => some .trailers
  | _, _ => none

def PhaseOK : Phase → RSt → Prop
  | .head, st => st.src.1.remaining = 0
  | .body, st => st.src.1.remaining < 2 ^ 62
  | .trailers, st => st.src.1.remaining = 0

def WFSt (st : RSt) : Prop := BufWF st.src.1 ∧ ScriptWF st.src.2

/-- the end of the stream has been read, or a reset is the next thing the transport says -/
def AtEnd (c : FSt) : Prop := c.1.eos = true ∨ ∃ x r, c.2 = .reset x :: r

/-- the answers that complete the pattern: the trailers, or an error -/
def final : Res → Bool
  | .trailers _ | .noTrailers | .errConn _ | .errStream _ | .errReset _ => true
  | _ => false

/-- what one step of the pattern guarantees -/
structure StepOK (ph : Phase) (st : RSt) (x : Res × RSt) : Prop where
  noPanic : x.1 ≠ .panic
  pendOpen : x.1 = .pending → x.2.src.1.eos = false
  next : ∀ ph', nextPhase ph x.1 = some ph' → PhaseOK ph' x.2 ∧ WFSt x.2
  atEnd : AtEnd st.src → x.1 ≠ .pending ∧ ∀ ph', nextPhase ph x.1 = some ph' → AtEnd x.2.src

theorem stepOK_final {ph : Phase} {st : RSt} {x : Res × RSt} (h : final x.1 = true) : StepOK ph st x := by
  obtain ⟨r, st'⟩ := x
  cases r <;> simp [final] at h <;>
    exact ⟨by simp, by simp, by cases ph <;> simp [nextPhase],
      fun _ => ⟨by simp, by cases ph <;> simp [nextPhase]⟩⟩

theorem stepOK_invalid {ph : Phase} {st st' : RSt} : StepOK ph st (.invalid, st') :=
  ⟨by simp, by simp, by cases ph <;> simp [nextPhase], fun _ => ⟨by simp, by cases ph <;> simp [nextPhase]⟩⟩

theorem connErr_final (st : RSt) (c : Nat) : final (connErr st c).1 = true := by
  unfold connErr; split <;> rfl

theorem decodeTrailers_final (H : Hdr) (st : RSt) (enc : Bytes) : final (decodeTrailers H st enc).1 = true := by
  unfold decodeTrailers; split <;> first | rfl | exact connErr_final _ _

theorem fsErr_final (st : RSt) (o : FOut) (h : FS.Out.isErr o = true ∧ o ≠ .panic) :
    final (fsErr st o).1 = true := by
  obtain ⟨he, hp⟩ := h
  cases o <;> first | rfl | exact connErr_final _ _ | exact absurd rfl hp | cases he

/-! ### the frame layer as `fsSrc` presents it -/

theorem fs_next (c : FSt) (o : FOut) (s' : FS.St) (r : List FS.Ev)
    (h : FS.pollNext FS.frameDec c.1 c.2 = (o, s', r)) : fsSrc.pollNext c = (o, (s', r)) := by
  simp [fsSrc, h]

theorem fs_data (c : FSt) (o : FOut) (s' : FS.St) (r : List FS.Ev)
    (h : FS.pollData (F := Frame) (E := FrameErr) c.1 c.2 = (o, s', r)) : fsSrc.pollData c = (o, (s', r)) := by
  simp [fsSrc, h]

theorem atEnd_next {c : FSt} {o : FOut} {s' : FS.St} {r : List FS.Ev} (h0 : c.1.remaining = 0)
    (h : FS.pollNext FS.frameDec c.1 c.2 = (o, s', r)) (hN : NextSafe FS.frameDec c.1 c.2 o s' r)
    (hE : AtEnd c) : o ≠ .pending ∧ ((∃ f, o = .frame f) ∨ o = .none → AtEnd (s', r)) := by
  rcases hE with he | ⟨x, r0, hr⟩
  · obtain ⟨h1, h2, _⟩ := hN.sticky he
    exact ⟨h2, fun _ => Or.inl h1⟩
  · cases he : c.1.eos with
    | true =>
      obtain ⟨h1, h2, _⟩ := hN.sticky he
      exact ⟨h2, fun _ => Or.inl h1⟩
    | false =>
      rw [hr, pollNext_reset FS.frameDec c.1 x r0 h0 he] at h
      simp only [Prod.mk.injEq] at h
      obtain ⟨rfl, _, _⟩ := h
      refine ⟨by simp, ?_⟩
      rintro (⟨f, hf⟩ | hf) <;> cases hf

theorem atEnd_data {c : FSt} {o : FOut} {s' : FS.St} {r : List FS.Ev} (h0 : c.1.remaining ≠ 0)
    (h : FS.pollData (F := Frame) (E := FrameErr) c.1 c.2 = (o, s', r))
    (hD : DataSafe (F := Frame) (E := FrameErr) c.1 c.2 o s' r)
    (hE : AtEnd c) : o ≠ .pending ∧ ((∃ d, o = .data d) → AtEnd (s', r)) := by
  rcases hE with he | ⟨x, r0, hr⟩
  · obtain ⟨h1, h2, _⟩ := hD.sticky he
    exact ⟨h2, fun _ => Or.inl h1⟩
  · cases he : c.1.eos with
    | true =>
      obtain ⟨h1, h2, _⟩ := hD.sticky he
      exact ⟨h2, fun _ => Or.inl h1⟩
    | false =>
      rw [hr, pollData_reset c.1 x r0 h0 he] at h
      simp only [Prod.mk.injEq] at h
      obtain ⟨rfl, _, _⟩ := h
      refine ⟨by simp, ?_⟩
      rintro ⟨d, hd⟩
      cases hd

/-! ### the head -/

theorem pollHead_safe (role : Role) (H : Hdr) (st : RSt) (h0 : st.src.1.remaining = 0) (hwf : WFSt st) :
    StepOK .head st (pollHead role fsSrc H st) := by
  have hN := pollNext_safe FS.frameDec st.src.1 st.src.2 h0
  rcases hp : FS.pollNext FS.frameDec st.src.1 st.src.2 with ⟨o, s', r⟩
  rw [hp] at hN
  simp only at hN
  have hfs := fs_next st.src o s' r hp
  have hwf' := hN.wf hwf.1 hwf.2
  have hrem := hN.rem
  have hout := hN.out
  have hend := fun hE => atEnd_next h0 hp hN hE
  cases role
  all_goals
    first
      | (show StepOK .head st (pollResolve fsSrc H st); unfold pollResolve)
      | (show StepOK .head st (pollRecvResponse fsSrc H st); unfold pollRecvResponse)
    rw [hfs]
    simp only
    cases o with
    | frame f =>
      cases f with
      | headers enc =>
        simp only
        cases H.head enc with
        | ok =>
          simp only
          refine ⟨by simp, by simp, ?_, ?_⟩
          · intro ph' h
            simp only [nextPhase, Option.some.injEq] at h
            subst h
            have hrem' : s'.remaining = 0 := hrem
            exact ⟨by simp [PhaseOK, hrem'], hwf'.1, hwf'.2.1⟩
          · intro hE
            exact ⟨by simp, fun ph' _ => (hend hE).2 (Or.inl ⟨_, rfl⟩)⟩
        | malformed => exact stepOK_final rfl
        | qpack => exact stepOK_final (connErr_final _ _)
      | _ => exact stepOK_final (connErr_final _ _)
    | none => first | exact stepOK_final rfl | exact stepOK_final (connErr_final _ _)
    | pending =>
      refine ⟨by simp, fun _ => hN.pend rfl, ?_, ?_⟩
      · intro ph' h
        simp only [nextPhase, Option.some.injEq] at h
        subst h
        exact ⟨by simp only [PhaseOK]; rw [show s'.remaining = st.src.1.remaining from hrem, h0], hwf'.1, hwf'.2.1⟩
      · intro hE
        exact absurd rfl (hend hE).1
    | panic => exact hout.elim
    | data d => exact hout.elim
    | errProto e => exact stepOK_final (fsErr_final _ _ (by simp [FS.Out.isErr]))
    | errEnd => exact stepOK_final (fsErr_final _ _ (by simp [FS.Out.isErr]))
    | errQuic c => exact stepOK_final (fsErr_final _ _ (by simp [FS.Out.isErr]))

/-! ### the body -/

theorem pollRecvData_safe : ∀ (N : Nat) (st : RSt), st.src.1.remaining < 2 ^ 62 → WFSt st →
    StepOK .body st (pollRecvData fsSrc N st) := by
  intro N
  induction N with
  | zero => intro st _ _; exact stepOK_invalid
  | succ N ih =>
    intro st hlt hwf
    rw [pollRecvData]
    by_cases hd : fsSrc.hasData st.src = true
    · -- `poll_data`
      rw [if_pos hd]
      have h0 : st.src.1.remaining ≠ 0 := by simpa [fsSrc] using hd
      have hD := pollData_safe (F := Frame) (E := FrameErr) st.src.1 st.src.2
      rcases hp : FS.pollData (F := Frame) (E := FrameErr) st.src.1 st.src.2 with ⟨o, s', r⟩
      rw [hp] at hD
      simp only at hD
      rw [fs_data st.src o s' r hp]
      simp only
      have hwf' := hD.wf hwf.1 hwf.2
      have hout := hD.out
      have hend := fun hE => atEnd_data h0 hp hD hE
      cases o with
      | data d =>
        have hout' : s'.remaining = st.src.1.remaining - d.length := hout
        show StepOK .body st (Res.data d, ({ st with src := (s', r) } : RSt))
        refine ⟨by simp, by simp, ?_, ?_⟩
        · intro ph' h
          simp only [nextPhase, Option.some.injEq] at h
          subst h
          exact ⟨by simp only [PhaseOK]; omega, hwf'⟩
        · intro hE
          exact ⟨by simp, fun ph' _ => (hend hE).2 ⟨_, rfl⟩⟩
      | none =>
        have hout' : s'.remaining = st.src.1.remaining ∧
            (st.src.1.remaining = 0 ∨ st.src.1.remaining = FS.USIZE_MAX) := hout
        rcases hout'.2 with hz | hm
        · exact absurd hz h0
        · exfalso
          rw [hm] at hlt
          simp [FS.USIZE_MAX] at hlt
      | pending =>
        have hout' : s'.remaining = st.src.1.remaining := hout
        show StepOK .body st (Res.pending, ({ st with src := (s', r) } : RSt))
        refine ⟨by simp, fun _ => hD.pend rfl, ?_, ?_⟩
        · intro ph' h
          simp only [nextPhase, Option.some.injEq] at h
          subst h
          exact ⟨by simp only [PhaseOK]; omega, hwf'⟩
        · intro hE
          exact absurd rfl (hend hE).1
      | frame f => exact hout.elim
      | errProto e => exact hout.elim
      | panic => exact hout.elim
      | errEnd => exact stepOK_final (fsErr_final _ _ (by simp [FS.Out.isErr]))
      | errQuic c => exact stepOK_final (fsErr_final _ _ (by simp [FS.Out.isErr]))
    · -- `poll_next`
      rw [if_neg hd]
      have h0 : st.src.1.remaining = 0 := by simpa [fsSrc] using hd
      have hN := pollNext_safe FS.frameDec st.src.1 st.src.2 h0
      rcases hp : FS.pollNext FS.frameDec st.src.1 st.src.2 with ⟨o, s', r⟩
      rw [hp] at hN
      simp only at hN
      rw [fs_next st.src o s' r hp]
      simp only
      have hwf' := hN.wf hwf.1 hwf.2
      have hrem := hN.rem
      have hout := hN.out
      have hend := fun hE => atEnd_next h0 hp hN hE
      cases o with
      | frame f =>
        cases f with
        | headers enc =>
          refine ⟨by simp, by simp, ?_, ?_⟩
          · intro ph' h
            simp only [nextPhase, Option.some.injEq] at h
            subst h
            have hrem' : s'.remaining = 0 := hrem
            exact ⟨by simp [PhaseOK, hrem'], hwf'.1, hwf'.2.1⟩
          · intro hE
            exact ⟨by simp, fun ph' _ => (hend hE).2 (Or.inl ⟨_, rfl⟩)⟩
        | data n =>
          simp only
          obtain ⟨b, k, hb, hdec⟩ := hwf'.2.2 _ rfl
          have hn : n < 2 ^ 62 := frameDec_frameOK b hb _ k hdec
          have hrem' : s'.remaining = n := hrem
          have hst' : WFSt ({ st with src := (s', r) } : RSt) := ⟨hwf'.1, hwf'.2.1⟩
          have := ih ({ st with src := (s', r) } : RSt) (by simp only; omega) hst'
          refine ⟨this.noPanic, this.pendOpen, this.next, ?_⟩
          intro hE
          exact this.atEnd ((hend hE).2 (Or.inl ⟨_, rfl⟩))
        | _ => exact stepOK_final (connErr_final _ _)
      | none =>
        refine ⟨by simp, by simp, ?_, ?_⟩
        · intro ph' h
          simp only [nextPhase, Option.some.injEq] at h
          subst h
          exact ⟨by simp only [PhaseOK]; rw [show s'.remaining = st.src.1.remaining from hrem, h0], hwf'.1, hwf'.2.1⟩
        · intro hE
          exact ⟨by simp, fun ph' _ => (hend hE).2 (Or.inr rfl)⟩
      | pending =>
        refine ⟨by simp, fun _ => hN.pend rfl, ?_, ?_⟩
        · intro ph' h
          simp only [nextPhase, Option.some.injEq] at h
          subst h
          exact ⟨by simp only [PhaseOK]; rw [show s'.remaining = st.src.1.remaining from hrem, h0]; decide, hwf'.1, hwf'.2.1⟩
        · intro hE
          exact absurd rfl (hend hE).1
      | panic => exact hout.elim
      | data d => exact hout.elim
      | errProto e => exact stepOK_final (fsErr_final _ _ (by simp [FS.Out.isErr]))
      | errEnd => exact stepOK_final (fsErr_final _ _ (by simp [FS.Out.isErr]))
      | errQuic c => exact stepOK_final (fsErr_final _ _ (by simp [FS.Out.isErr]))

/-! ### the trailers -/

theorem trailersCheck_safe (H : Hdr) (st : RSt) (enc : Bytes) (h0 : st.src.1.remaining = 0) (hwf : WFSt st)
    (st0 : RSt) (hsrc : AtEnd st0.src → AtEnd st.src) :
    StepOK .trailers st0 (trailersCheck fsSrc H st enc) := by
  have hN := pollNext_safe FS.frameDec st.src.1 st.src.2 h0
  rcases hp : FS.pollNext FS.frameDec st.src.1 st.src.2 with ⟨o, s', r⟩
  rw [hp] at hN
  simp only at hN
  unfold trailersCheck
  rw [fs_next st.src o s' r hp]
  simp only
  have hwf' := hN.wf hwf.1 hwf.2
  have hrem := hN.rem
  have hout := hN.out
  have hend := fun hE => atEnd_next h0 hp hN (hsrc hE)
  cases o with
  | frame f => exact stepOK_final (connErr_final _ _)
  | none => exact stepOK_final (decodeTrailers_final _ _ _)
  | pending =>
    refine ⟨by simp, fun _ => hN.pend rfl, ?_, ?_⟩
    · intro ph' h
      simp only [nextPhase, Option.some.injEq] at h
      subst h
      exact ⟨by simp only [PhaseOK]; rw [show s'.remaining = st.src.1.remaining from hrem, h0], hwf'.1, hwf'.2.1⟩
    · intro hE
      exact absurd rfl (hend hE).1
  | panic => exact hout.elim
  | data d => exact hout.elim
  | errProto e => exact stepOK_final (fsErr_final _ _ (by simp [FS.Out.isErr]))
  | errEnd => exact stepOK_final (fsErr_final _ _ (by simp [FS.Out.isErr]))
  | errQuic c => exact stepOK_final (fsErr_final _ _ (by simp [FS.Out.isErr]))

theorem trailersTail_safe (H : Hdr) (st : RSt) (enc : Bytes) (h0 : st.src.1.remaining = 0) (hwf : WFSt st)
    (st0 : RSt) (hsrc : AtEnd st0.src → AtEnd st.src) :
    StepOK .trailers st0 (trailersTail fsSrc H st enc) := by
  unfold trailersTail
  split
  · exact stepOK_final (decodeTrailers_final _ _ _)
  · exact trailersCheck_safe H st enc h0 hwf st0 hsrc

theorem pollRecvTrailers_safe (H : Hdr) (st : RSt) (h0 : st.src.1.remaining = 0) (hwf : WFSt st) :
    StepOK .trailers st (pollRecvTrailers fsSrc H st) := by
  unfold pollRecvTrailers
  cases ht : st.trailers with
  | some enc =>
    simp only
    exact trailersTail_safe H { st with trailers := none } enc h0 hwf st (fun h => h)
  | none =>
    simp only
    have hN := pollNext_safe FS.frameDec st.src.1 st.src.2 h0
    rcases hp : FS.pollNext FS.frameDec st.src.1 st.src.2 with ⟨o, s', r⟩
    rw [hp] at hN
    simp only at hN
    unfold trailersFirst
    rw [fs_next st.src o s' r hp]
    simp only
    have hwf' := hN.wf hwf.1 hwf.2
    have hrem := hN.rem
    have hout := hN.out
    have hend := fun hE => atEnd_next h0 hp hN hE
    cases o with
    | frame f =>
      cases f with
      | headers enc =>
        have hrem' : s'.remaining = 0 := hrem
        exact trailersTail_safe H { st with src := (s', r) } enc hrem' ⟨hwf'.1, hwf'.2.1⟩ st
          (fun hE => (hend hE).2 (Or.inl ⟨_, rfl⟩))
      | _ => exact stepOK_final (connErr_final _ _)
    | none => exact stepOK_final rfl
    | pending =>
      refine ⟨by simp, fun _ => hN.pend rfl, ?_, ?_⟩
      · intro ph' h
        simp only [nextPhase, Option.some.injEq] at h
        subst h
        exact ⟨by simp only [PhaseOK]; rw [show s'.remaining = st.src.1.remaining from hrem, h0], hwf'.1, hwf'.2.1⟩
      · intro hE
        exact absurd rfl (hend hE).1
    | panic => exact hout.elim
    | data d => exact hout.elim
    | errProto e => exact stepOK_final (fsErr_final _ _ (by simp [FS.Out.isErr]))
    | errEnd => exact stepOK_final (fsErr_final _ _ (by simp [FS.Out.isErr]))
    | errQuic c => exact stepOK_final (fsErr_final _ _ (by simp [FS.Out.isErr]))

/-- **the step lemma**: from a configuration that satisfies the phase invariant, the call of the
    phase does not panic, and if the pattern goes on the next configuration satisfies it again -/
theorem pollPhase_safe (role : Role) (H : Hdr) (N : Nat) (ph : Phase) (st : RSt) (hok : PhaseOK ph st)
    (hwf : WFSt st) : StepOK ph st (pollPhase role H N ph st) := by
  cases ph with
  | head => exact pollHead_safe role H st hok hwf
  | body => exact pollRecvData_safe N st hok hwf
  | trailers => exact pollRecvTrailers_safe H st hok hwf

/-! ## Progress: the pattern comes to an end -/

def rank : Phase → Nat
  | .head => 2
  | .body => 1
  | .trailers => 0

def muS (st : RSt) : Nat := mu st.src.1 st.src.2
def GoodS (st : RSt) : Prop := Good FS.frameDec st.src.1 st.src.2
def EndsS (st : RSt) : Prop := Ends st.src.1 st.src.2

/-- what one step of the pattern means for its termination (`N` = the bound handed to
    `poll_recv_data`'s loop over empty DATA frames) -/
structure StepLive (N : Nat) (ph : Phase) (st : RSt) (x : Res × RSt) : Prop where
  fuel : x.1 = .invalid → ph = .body ∧ N ≤ muS st
  next : ∀ ph', nextPhase ph x.1 = some ph' →
    GoodS x.2 ∧ (EndsS st → EndsS x.2) ∧ muS x.2 ≤ muS st ∧
    (x.1 = .pending → x.2.src.2 ≠ [] → muS x.2 < muS st) ∧
    (x.1 ≠ .pending → rank ph' + muS x.2 < rank ph + muS st)

theorem stepLive_final {N : Nat} {ph : Phase} {st : RSt} {x : Res × RSt} (h : final x.1 = true) :
    StepLive N ph st x := by
  obtain ⟨r, st'⟩ := x
  cases r <;> simp [final] at h <;>
    exact ⟨by simp, by cases ph <;> simp [nextPhase]⟩

theorem pollHead_live (role : Role) (H : Hdr) (N : Nat) (st : RSt) (h0 : st.src.1.remaining = 0)
    (hG : GoodS st) : StepLive N .head st (pollHead role fsSrc H st) := by
  have hout := (pollNext_safe FS.frameDec st.src.1 st.src.2 h0).out
  rcases hp : FS.pollNext FS.frameDec st.src.1 st.src.2 with ⟨o, s', r⟩
  rw [hp] at hout
  simp only at hout
  have hfs := fs_next st.src o s' r hp
  obtain ⟨hE, hL⟩ := pollNext_live FS.frameDec FS.frameDec_laws st.src.1 st.src.2 hG h0 o s' r hp
  cases role
  all_goals
    first
      | (show StepLive N .head st (pollResolve fsSrc H st); unfold pollResolve)
      | (show StepLive N .head st (pollRecvResponse fsSrc H st); unfold pollRecvResponse)
    rw [hfs]
    simp only
    cases o with
    | frame f =>
      cases f with
      | headers enc =>
        simp only
        cases H.head enc with
        | ok =>
          simp only
          have hL' : Good FS.frameDec s' r ∧ mu s' r < mu st.src.1 st.src.2 := hL
          refine ⟨by simp, ?_⟩
          intro ph' h
          simp only [nextPhase, Option.some.injEq] at h
          subst h
          exact ⟨hL'.1, hE, Nat.le_of_lt hL'.2, by simp, fun _ => by simp only [rank, muS]; omega⟩
        | malformed => exact stepLive_final rfl
        | qpack => exact stepLive_final (connErr_final _ _)
      | _ => exact stepLive_final (connErr_final _ _)
    | none => first | exact stepLive_final rfl | exact stepLive_final (connErr_final _ _)
    | pending =>
      have hL' : Good FS.frameDec s' r ∧ mu s' r ≤ mu st.src.1 st.src.2 ∧
          (st.src.2 ≠ [] → mu s' r < mu st.src.1 st.src.2) ∧ (st.src.2 = [] → r = []) := hL
      refine ⟨by simp, ?_⟩
      intro ph' h
      simp only [nextPhase, Option.some.injEq] at h
      subst h
      refine ⟨hL'.1, hE, hL'.2.1, fun _ hr => hL'.2.2.1 (fun hnil => hr (hL'.2.2.2 hnil)), fun h => absurd rfl h⟩
    | panic => exact hout.elim
    | data d => exact hout.elim
    | errProto e => exact stepLive_final (fsErr_final _ _ (by simp [FS.Out.isErr]))
    | errEnd => exact stepLive_final (fsErr_final _ _ (by simp [FS.Out.isErr]))
    | errQuic c => exact stepLive_final (fsErr_final _ _ (by simp [FS.Out.isErr]))

theorem pollRecvData_live : ∀ (N : Nat) (st : RSt), GoodS st →
    StepLive N .body st (pollRecvData fsSrc N st) := by
  intro N
  induction N with
  | zero =>
    intro st _
    exact ⟨fun _ => ⟨rfl, Nat.zero_le _⟩, by simp [pollRecvData, nextPhase]⟩
  | succ N ih =>
    intro st hG
    rw [pollRecvData]
    by_cases hd : fsSrc.hasData st.src = true
    · rw [if_pos hd]
      have hout := (pollData_safe (F := Frame) (E := FrameErr) st.src.1 st.src.2).out
      rcases hp : FS.pollData (F := Frame) (E := FrameErr) st.src.1 st.src.2 with ⟨o, s', r⟩
      rw [hp] at hout
      simp only at hout
      rw [fs_data st.src o s' r hp]
      simp only
      obtain ⟨hE, hL⟩ := pollData_live FS.frameDec st.src.1 st.src.2 hG o s' r hp
      cases o with
      | data d =>
        have hL' : d ≠ [] ∧ Good FS.frameDec s' r ∧ mu s' r < mu st.src.1 st.src.2 := hL
        show StepLive (N + 1) .body st (Res.data d, ({ st with src := (s', r) } : RSt))
        refine ⟨by simp, ?_⟩
        intro ph' h
        simp only [nextPhase, Option.some.injEq] at h
        subst h
        exact ⟨hL'.2.1, hE, Nat.le_of_lt hL'.2.2, by simp, fun _ => by simp only [rank, muS]; omega⟩
      | none =>
        have hL' : Good FS.frameDec s' r ∧ mu s' r ≤ mu st.src.1 st.src.2 := hL
        show StepLive (N + 1) .body st (Res.end_, ({ st with src := (s', r) } : RSt))
        refine ⟨by simp, ?_⟩
        intro ph' h
        simp only [nextPhase, Option.some.injEq] at h
        subst h
        exact ⟨hL'.1, hE, hL'.2, by simp, fun _ => by simp only [rank, muS]; omega⟩
      | pending =>
        have hL' : Good FS.frameDec s' r ∧ mu s' r ≤ mu st.src.1 st.src.2 ∧
            (st.src.2 ≠ [] → mu s' r < mu st.src.1 st.src.2) ∧ (st.src.2 = [] → r = []) := hL
        show StepLive (N + 1) .body st (Res.pending, ({ st with src := (s', r) } : RSt))
        refine ⟨by simp, ?_⟩
        intro ph' h
        simp only [nextPhase, Option.some.injEq] at h
        subst h
        exact ⟨hL'.1, hE, hL'.2.1, fun _ hr => hL'.2.2.1 (fun hnil => hr (hL'.2.2.2 hnil)), fun h => absurd rfl h⟩
      | frame f => exact hout.elim
      | errProto e => exact hout.elim
      | panic => exact hout.elim
      | errEnd => exact stepLive_final (fsErr_final _ _ (by simp [FS.Out.isErr]))
      | errQuic c => exact stepLive_final (fsErr_final _ _ (by simp [FS.Out.isErr]))
    · rw [if_neg hd]
      have h0 : st.src.1.remaining = 0 := by simpa [fsSrc] using hd
      have hout := (pollNext_safe FS.frameDec st.src.1 st.src.2 h0).out
      rcases hp : FS.pollNext FS.frameDec st.src.1 st.src.2 with ⟨o, s', r⟩
      rw [hp] at hout
      simp only at hout
      rw [fs_next st.src o s' r hp]
      simp only
      obtain ⟨hE, hL⟩ := pollNext_live FS.frameDec FS.frameDec_laws st.src.1 st.src.2 hG h0 o s' r hp
      cases o with
      | frame f =>
        have hL' : Good FS.frameDec s' r ∧ mu s' r < mu st.src.1 st.src.2 := hL
        cases f with
        | headers enc =>
          refine ⟨by simp, ?_⟩
          intro ph' h
          simp only [nextPhase, Option.some.injEq] at h
          subst h
          exact ⟨hL'.1, hE, Nat.le_of_lt hL'.2, by simp, fun _ => by simp only [rank, muS]; omega⟩
        | data n =>
          simp only
          have := ih ({ st with src := (s', r) } : RSt) hL'.1
          have hmu : muS ({ st with src := (s', r) } : RSt) < muS st := hL'.2
          refine ⟨fun hi => ⟨rfl, ?_⟩, ?_⟩
          · have := (this.fuel hi).2
            omega
          · intro ph' h
            obtain ⟨h1, h2, h3, h4, h5⟩ := this.next ph' h
            refine ⟨h1, fun hE0 => h2 (hE hE0), by omega, fun hp' hr => ?_, fun hnp => ?_⟩
            · have := h4 hp' hr; omega
            · have := h5 hnp; omega
        | _ => exact stepLive_final (connErr_final _ _)
      | none =>
        have hL' : Good FS.frameDec s' r ∧ mu s' r ≤ mu st.src.1 st.src.2 := hL
        refine ⟨by simp, ?_⟩
        intro ph' h
        simp only [nextPhase, Option.some.injEq] at h
        subst h
        exact ⟨hL'.1, hE, hL'.2, by simp, fun _ => by simp only [rank, muS]; omega⟩
      | pending =>
        have hL' : Good FS.frameDec s' r ∧ mu s' r ≤ mu st.src.1 st.src.2 ∧
            (st.src.2 ≠ [] → mu s' r < mu st.src.1 st.src.2) ∧ (st.src.2 = [] → r = []) := hL
        refine ⟨by simp, ?_⟩
        intro ph' h
        simp only [nextPhase, Option.some.injEq] at h
        subst h
        exact ⟨hL'.1, hE, hL'.2.1, fun _ hr => hL'.2.2.1 (fun hnil => hr (hL'.2.2.2 hnil)), fun h => absurd rfl h⟩
      | panic => exact hout.elim
      | data d => exact hout.elim
      | errProto e => exact stepLive_final (fsErr_final _ _ (by simp [FS.Out.isErr]))
      | errEnd => exact stepLive_final (fsErr_final _ _ (by simp [FS.Out.isErr]))
      | errQuic c => exact stepLive_final (fsErr_final _ _ (by simp [FS.Out.isErr]))

theorem trailersCheck_live (H : Hdr) (N : Nat) (st : RSt) (enc : Bytes) (h0 : st.src.1.remaining = 0)
    (hG : GoodS st) (st0 : RSt) (hE0 : EndsS st0 → EndsS st) (hmu0 : muS st ≤ muS st0) :
    StepLive N .trailers st0 (trailersCheck fsSrc H st enc) := by
  have hout := (pollNext_safe FS.frameDec st.src.1 st.src.2 h0).out
  rcases hp : FS.pollNext FS.frameDec st.src.1 st.src.2 with ⟨o, s', r⟩
  rw [hp] at hout
  simp only at hout
  unfold trailersCheck
  rw [fs_next st.src o s' r hp]
  simp only
  obtain ⟨hE, hL⟩ := pollNext_live FS.frameDec FS.frameDec_laws st.src.1 st.src.2 hG h0 o s' r hp
  cases o with
  | frame f => exact stepLive_final (connErr_final _ _)
  | none => exact stepLive_final (decodeTrailers_final _ _ _)
  | pending =>
    have hL' : Good FS.frameDec s' r ∧ mu s' r ≤ mu st.src.1 st.src.2 ∧
        (st.src.2 ≠ [] → mu s' r < mu st.src.1 st.src.2) ∧ (st.src.2 = [] → r = []) := hL
    refine ⟨by simp, ?_⟩
    intro ph' h
    simp only [nextPhase, Option.some.injEq] at h
    subst h
    have hmu : mu st.src.1 st.src.2 ≤ mu st0.src.1 st0.src.2 := hmu0
    refine ⟨hL'.1, fun h => hE (hE0 h), ?_, fun _ hr => ?_, fun h => absurd rfl h⟩
    · show mu s' r ≤ mu st0.src.1 st0.src.2
      omega
    · have := hL'.2.2.1 (fun hnil => hr (hL'.2.2.2 hnil))
      show mu s' r < mu st0.src.1 st0.src.2
      omega
  | panic => exact hout.elim
  | data d => exact hout.elim
  | errProto e => exact stepLive_final (fsErr_final _ _ (by simp [FS.Out.isErr]))
  | errEnd => exact stepLive_final (fsErr_final _ _ (by simp [FS.Out.isErr]))
  | errQuic c => exact stepLive_final (fsErr_final _ _ (by simp [FS.Out.isErr]))

theorem trailersTail_live (H : Hdr) (N : Nat) (st : RSt) (enc : Bytes) (h0 : st.src.1.remaining = 0)
    (hG : GoodS st) (st0 : RSt) (hE0 : EndsS st0 → EndsS st) (hmu0 : muS st ≤ muS st0) :
    StepLive N .trailers st0 (trailersTail fsSrc H st enc) := by
  unfold trailersTail
  split
  · exact stepLive_final (decodeTrailers_final _ _ _)
  · exact trailersCheck_live H N st enc h0 hG st0 hE0 hmu0

theorem pollRecvTrailers_live (H : Hdr) (N : Nat) (st : RSt) (h0 : st.src.1.remaining = 0) (hG : GoodS st) :
    StepLive N .trailers st (pollRecvTrailers fsSrc H st) := by
  unfold pollRecvTrailers
  cases ht : st.trailers with
  | some enc =>
    simp only
    exact trailersTail_live H N { st with trailers := none } enc h0 hG st (fun h => h) (Nat.le_refl _)
  | none =>
    simp only
    have hN := pollNext_safe FS.frameDec st.src.1 st.src.2 h0
    rcases hp : FS.pollNext FS.frameDec st.src.1 st.src.2 with ⟨o, s', r⟩
    rw [hp] at hN
    simp only at hN
    have hout := hN.out
    have hrem := hN.rem
    unfold trailersFirst
    rw [fs_next st.src o s' r hp]
    simp only
    obtain ⟨hE, hL⟩ := pollNext_live FS.frameDec FS.frameDec_laws st.src.1 st.src.2 hG h0 o s' r hp
    cases o with
    | frame f =>
      cases f with
      | headers enc =>
        have hrem' : s'.remaining = 0 := hrem
        have hL' : Good FS.frameDec s' r ∧ mu s' r < mu st.src.1 st.src.2 := hL
        exact trailersTail_live H N { st with src := (s', r) } enc hrem' hL'.1 st hE (Nat.le_of_lt hL'.2)
      | _ => exact stepLive_final (connErr_final _ _)
    | none => exact stepLive_final rfl
    | pending =>
      have hL' : Good FS.frameDec s' r ∧ mu s' r ≤ mu st.src.1 st.src.2 ∧
          (st.src.2 ≠ [] → mu s' r < mu st.src.1 st.src.2) ∧ (st.src.2 = [] → r = []) := hL
      refine ⟨by simp, ?_⟩
      intro ph' h
      simp only [nextPhase, Option.some.injEq] at h
      subst h
      exact ⟨hL'.1, hE, hL'.2.1, fun _ hr => hL'.2.2.1 (fun hnil => hr (hL'.2.2.2 hnil)), fun h => absurd rfl h⟩
    | panic => exact hout.elim
    | data d => exact hout.elim
    | errProto e => exact stepLive_final (fsErr_final _ _ (by simp [FS.Out.isErr]))
    | errEnd => exact stepLive_final (fsErr_final _ _ (by simp [FS.Out.isErr]))
    | errQuic c => exact stepLive_final (fsErr_final _ _ (by simp [FS.Out.isErr]))

theorem pollPhase_live (role : Role) (H : Hdr) (N : Nat) (ph : Phase) (st : RSt) (hok : PhaseOK ph st)
    (hG : GoodS st) : StepLive N ph st (pollPhase role H N ph st) := by
  cases ph with
  | head => exact pollHead_live role H N st hok hG
  | body => exact pollRecvData_live N st hG
  | trailers => exact pollRecvTrailers_live H N st hok hG

end H3.C06
