import H3.Model.Settings
import H3.Model.Config
import H3.Spec.Settings
import H3.Lemmas.Varint
import H3.Props.C16
/-! Helper lemmas for C13 (SETTINGS). -/
namespace H3.Settings
open H3.Varint H3.Gen.Consts H3.Gen.Settings

/-! ### varints -/

theorem wf_append {a b : Bytes} (ha : WF a) (hb : WF b) : WF (a ++ b) := by
  intro x hx
  rcases List.mem_append.mp hx with h | h
  · exact ha x h
  · exact hb x h

theorem wf_nil : WF [] := by intro x hx; cases hx

theorem wf_of_append_right {a b : Bytes} (h : WF (a ++ b)) : WF b :=
  fun x hx => h x (List.mem_append.mpr (Or.inr hx))

theorem wf_drop {bs : Bytes} (h : WF bs) (n : Nat) : WF (bs.drop n) :=
  fun x hx => h x (List.mem_of_mem_drop hx)

theorem encode_wf (x : Nat) (hx : x < 2^62) : WF (encode x) :=
  (H3.Props.C16.C16_decode_encode x hx []).2.2

theorem encode_length (x : Nat) (hx : x < 2^62) : (encode x).length = size x :=
  (H3.Props.C16.C16_decode_encode x hx []).2.1

theorem size_pos (x : Nat) : 1 ≤ size x := by
  unfold size; repeat' split
  all_goals omega

theorem size_le (x : Nat) : size x ≤ 8 := by
  unfold size; repeat' split
  all_goals omega

theorem writeVar_eq (x : Nat) (hx : x < 2^62) : writeVar x = some (encode x) := by
  rw [H3.Props.C16.C16_write_var, if_pos hx]

theorem writeVar_big (x : Nat) (hx : ¬ x < 2^62) : writeVar x = none := by
  rw [H3.Props.C16.C16_write_var, if_neg hx]

theorem encode_small (x : Nat) (hx : x < 64) : encode x = [x] := by
  have : x < 2^6 := by omega
  unfold Varint.encode Varint.encode?
  rw [if_pos this]; rfl

/-- The RFC reading of an encoding followed by well-formed bytes. -/
theorem rfcDecode_encode (x : Nat) (hx : x < 2^62) (rest : Bytes) (hr : WF rest) :
    rfcDecode (encode x ++ rest) = some (x, rest) := by
  have hwf : WF (encode x ++ rest) := wf_append (encode_wf x hx) hr
  obtain ⟨h1, h2⟩ := H3.Props.C16.C16_decode_total (encode x ++ rest) hwf
  have hd := (H3.Props.C16.C16_decode_encode x hx rest).1
  cases h : rfcDecode (encode x ++ rest) with
  | none => obtain ⟨k, hk⟩ := h2 h; rw [hd] at hk; cases hk
  | some p =>
    obtain ⟨v, r⟩ := p
    obtain ⟨hv, _⟩ := h1 v r h
    rw [hd] at hv
    cases hv; rfl

/-- what `rfcDecode` returns is a strict suffix -/
theorem rfcDecode_some {bs : Bytes} {v : Nat} {r : Bytes} (h : rfcDecode bs = some (v, r)) :
    ∃ k, 1 ≤ k ∧ k ≤ bs.length ∧ r = bs.drop k := by
  cases bs with
  | nil => simp [rfcDecode] at h
  | cons b0 t =>
    simp only [rfcDecode] at h
    split at h
    · cases h
    · rename_i hlen
      simp only [Option.some.injEq, Prod.mk.injEq] at h
      refine ⟨rfcLen b0, ?_, by omega, h.2.symm⟩
      unfold rfcLen; exact Nat.one_le_two_pow

theorem rfcDecode_length {bs : Bytes} {v : Nat} {r : Bytes} (h : rfcDecode bs = some (v, r)) :
    r.length < bs.length := by
  obtain ⟨k, h1, h2, rfl⟩ := rfcDecode_some h
  simp; omega

theorem rfcDecode_wf {bs : Bytes} {v : Nat} {r : Bytes} (h : rfcDecode bs = some (v, r))
    (hwf : WF bs) : WF r := by
  obtain ⟨k, _, _, rfl⟩ := rfcDecode_some h
  exact wf_drop hwf k

/-! ### the encoder -/

/-- the bytes of a list of identifier/value pairs -/
def encPairs : List (Nat × Nat) → Bytes
  | [] => []
  | (id, v) :: r => Varint.encode id ++ Varint.encode v ++ encPairs r

/-- all identifiers and values fit a varint -/
def Fits (ps : List (Nat × Nat)) : Prop := ∀ p ∈ ps, p.1 < 2^62 ∧ p.2 < 2^62

theorem fits_cons {p : Nat × Nat} {ps : List (Nat × Nat)} :
    Fits (p :: ps) ↔ (p.1 < 2^62 ∧ p.2 < 2^62) ∧ Fits ps := by
  simp [Fits]

theorem fits_nil : Fits [] := by simp [Fits]

theorem fits_append {a b : List (Nat × Nat)} : Fits (a ++ b) ↔ Fits a ∧ Fits b := by
  simp only [Fits, List.mem_append]
  constructor
  · intro h; exact ⟨fun p hp => h p (Or.inl hp), fun p hp => h p (Or.inr hp)⟩
  · rintro ⟨h1, h2⟩ p (hp | hp)
    · exact h1 p hp
    · exact h2 p hp

theorem encPairs_wf (ps : List (Nat × Nat)) (h : Fits ps) : WF (encPairs ps) := by
  induction ps with
  | nil => exact wf_nil
  | cons p r ih =>
    obtain ⟨id, v⟩ := p
    obtain ⟨⟨h1, h2⟩, hr⟩ := fits_cons.mp h
    exact wf_append (wf_append (encode_wf id h1) (encode_wf v h2)) (ih hr)

theorem encPairs_append (a b : List (Nat × Nat)) : encPairs (a ++ b) = encPairs a ++ encPairs b := by
  induction a with
  | nil => rfl
  | cons p r ih => obtain ⟨id, v⟩ := p; simp [encPairs, ih]

/-- sum of the encoded sizes -/
def sizePairs : List (Nat × Nat) → Nat
  | [] => 0
  | (id, v) :: r => size id + size v + sizePairs r

theorem encPairs_length (ps : List (Nat × Nat)) (h : Fits ps) :
    (encPairs ps).length = sizePairs ps := by
  induction ps with
  | nil => rfl
  | cons p r ih =>
    obtain ⟨id, v⟩ := p
    obtain ⟨⟨h1, h2⟩, hr⟩ := fits_cons.mp h
    simp [encPairs, sizePairs, encode_length, h1, h2, ih hr]; omega

theorem sizePairs_ge (ps : List (Nat × Nat)) : 2 * ps.length ≤ sizePairs ps := by
  induction ps with
  | nil => simp [sizePairs]
  | cons p r ih =>
    obtain ⟨id, v⟩ := p
    have := size_pos id; have := size_pos v
    simp only [sizePairs, List.length_cons]; omega

theorem sizePairs_le (ps : List (Nat × Nat)) : sizePairs ps ≤ 16 * ps.length := by
  induction ps with
  | nil => simp [sizePairs]
  | cons p r ih =>
    obtain ⟨id, v⟩ := p
    have := size_le id; have := size_le v
    simp only [sizePairs, List.length_cons]; omega

theorem sizeQ_eq (x : Nat) (hx : x < 2^62) : (fromU64 x).bind size? = some (size x) := by
  simp [fromU64, hx, size_eq_of_lt hx]

/-- `Settings::len` and the entry loop of `Settings::encode` do not panic on entries that fit. -/
theorem payload_eq (ps : List (Nat × Nat)) (h : Fits ps) :
    payload? ps = some (encPairs ps) ∧ payloadLen? ps = some (sizePairs ps) := by
  induction ps with
  | nil => exact ⟨rfl, rfl⟩
  | cons p r ih =>
    obtain ⟨id, v⟩ := p
    obtain ⟨⟨h1, h2⟩, hr⟩ := fits_cons.mp h
    obtain ⟨i1, i2⟩ := ih hr
    constructor
    · simp [payload?, writeVar_eq, h1, h2, i1, encPairs]
    · simp [payloadLen?, sizeQ_eq, h1, h2, i2, sizePairs]

/-- and they do panic as soon as one entry does not fit -/
theorem payloadLen_panic (ps : List (Nat × Nat)) (h : ¬ Fits ps) : payloadLen? ps = none := by
  induction ps with
  | nil => exact absurd fits_nil h
  | cons p r ih =>
    obtain ⟨id, v⟩ := p
    by_cases h1 : id < 2^62
    · by_cases h2 : v < 2^62
      · have hr : ¬ Fits r := fun hr => h (fits_cons.mpr ⟨⟨h1, h2⟩, hr⟩)
        simp [payloadLen?, ih hr]
      · simp [payloadLen?, fromU64, h2]
    · simp [payloadLen?, fromU64, h1]

theorem encode?_eq (s : Settings) (h : Fits s.entries) (hl : sizePairs s.entries < 2^62) :
    encode? s = some ([FRAME_SETTINGS] ++ Varint.encode (sizePairs s.entries) ++ encPairs s.entries) := by
  obtain ⟨h1, h2⟩ := payload_eq s.entries h
  have ht : writeVar FRAME_SETTINGS = some [FRAME_SETTINGS] := by decide
  simp [encode?, ht, h1, h2, writeVar_eq _ hl]

theorem encode?_panic (s : Settings) (h : ¬ Fits s.entries) : encode? s = none := by
  have ht : writeVar FRAME_SETTINGS = some [FRAME_SETTINGS] := by decide
  simp [encode?, ht, payloadLen_panic _ h]

/-! ### the specification parser -/

open H3.Spec.Settings (parse parseFuel)

theorem parseFuel_nil (f : Nat) : parseFuel f [] = some [] := by
  cases f <;> rfl

theorem parseFuel_succ (f : Nat) (bs : Bytes) (h : bs ≠ []) :
    parseFuel (f+1) bs =
      match rfcDecode bs with
      | none => none
      | some (id, r1) =>
        match rfcDecode r1 with
        | none => none
        | some (v, r2) =>
          match parseFuel f r2 with
          | none => none
          | some ps => some ((id, v) :: ps) := by
  cases bs with
  | nil => exact absurd rfl h
  | cons b t => rfl

theorem encode_ne_nil (x : Nat) (hx : x < 2^62) : Varint.encode x ≠ [] := by
  intro h
  have := encode_length x hx
  have := size_pos x
  rw [h] at *; simp at *; omega

/-- The RFC parse of encoded pairs gives the pairs back (any sufficient bound). -/
theorem parseFuel_encPairs (ps : List (Nat × Nat)) (h : Fits ps) (f : Nat) (hf : ps.length ≤ f) :
    parseFuel f (encPairs ps) = some ps := by
  induction ps generalizing f with
  | nil => exact parseFuel_nil f
  | cons p r ih =>
    obtain ⟨id, v⟩ := p
    obtain ⟨⟨h1, h2⟩, hr⟩ := fits_cons.mp h
    cases f with
    | zero => simp at hf
    | succ f =>
      have hne : encPairs ((id, v) :: r) ≠ [] := by
        simp only [encPairs]
        intro h0
        have := encode_ne_nil id h1
        simp at h0; exact this h0.1
      rw [parseFuel_succ f _ hne]
      simp only [encPairs, List.append_assoc]
      rw [rfcDecode_encode id h1 _ (wf_append (encode_wf v h2) (encPairs_wf r hr))]
      simp only
      rw [rfcDecode_encode v h2 _ (encPairs_wf r hr)]
      simp only
      rw [ih hr f (by simpa using hf)]

theorem parse_encPairs (ps : List (Nat × Nat)) (h : Fits ps) : parse (encPairs ps) = some ps := by
  unfold parse
  apply parseFuel_encPairs ps h
  rw [encPairs_length ps h]
  have := sizePairs_ge ps
  omega

/-! ### `insert` -/

theorem hasId_false {s : Settings} {id : Nat} (h : ∀ e ∈ s.entries, e.1 ≠ id) : hasId s id = false := by
  unfold hasId
  rw [List.any_eq_false]
  intro e he
  simpa using h e he

theorem hasId_true {s : Settings} {id : Nat} (h : ∃ e ∈ s.entries, e.1 = id) : hasId s id = true := by
  unfold hasId
  rw [List.any_eq_true]
  obtain ⟨e, he, h⟩ := h
  exact ⟨e, he, by simpa using h⟩

theorem insert_ok (s : Settings) (id v : Nat) (hlen : s.entries.length < SETTINGS_LEN)
    (hid : id < 2^62) (hv : v < 2^62) (hnot : ∀ e ∈ s.entries, e.1 ≠ id) :
    insert s id v = .ok ⟨s.entries ++ [(id, v)]⟩ := by
  unfold insert
  rw [if_neg (by omega), if_neg (by omega), if_neg (by omega), hasId_false hnot]
  rfl

theorem insert_repeated (s : Settings) (id v : Nat) (hlen : s.entries.length < SETTINGS_LEN)
    (hid : id < 2^62) (hv : v < 2^62) (hin : ∃ e ∈ s.entries, e.1 = id) :
    insert s id v = .error (.repeated id) := by
  unfold insert
  rw [if_neg (by omega), if_neg (by omega), if_neg (by omega), hasId_true hin]
  rfl

theorem insert_big_value (s : Settings) (id v : Nat) (hlen : s.entries.length < SETTINGS_LEN)
    (hid : id < 2^62) (hv : ¬ v < 2^62) :
    insert s id v = .error (.invalidSettingValue id v) := by
  unfold insert
  rw [if_neg (by omega), if_neg (by omega), if_pos (by omega)]

/-! ### the decoder, on pairs -/

/-- what one iteration of `Settings::decode` does with a pair that has been read -/
def step (s : Settings) (p : Nat × Nat) : Except SettingsError Settings :=
  if isForbidden p.1 then .error (.invalidSettingId p.1)
  else if isSupported p.1 then
    (if badValue p.1 p.2 then .error (.invalidSettingValue p.1 p.2) else insert s p.1 p.2)
  else .ok s

def foldPairs : Settings → List (Nat × Nat) → Except SettingsError Settings
  | s, [] => .ok s
  | s, p :: ps =>
    match step s p with
    | .error e => .error e
    | .ok s' => foldPairs s' ps

/-- what `decode` keeps: supported identifiers, each once -/
def Inv (s : Settings) : Prop :=
  (∀ e ∈ s.entries, isSupported e.1 = true) ∧ (s.entries.map (·.1)).Nodup

theorem inv_empty : Inv empty := by simp [Inv, empty]

/-- seven supported identifiers, eight slots: `Exceeded` is out of reach -/
theorem inv_length {s : Settings} (h : Inv s) : s.entries.length < SETTINGS_LEN := by
  have hsub : (s.entries.map (·.1)) ⊆ supportedIds := by
    intro x hx
    obtain ⟨e, he, rfl⟩ := List.mem_map.mp hx
    have := h.1 e he
    simpa [isSupported] using this
  have := List.Nodup.length_le_of_subset h.2 hsub
  simp only [List.length_map] at this
  have h7 : supportedIds.length = 7 := by decide
  simp only [SETTINGS_LEN]; omega

/-- the errors `decode` can produce, with what causes each -/
def ErrKind (e : SettingsError) : Prop :=
  e = .malformed ∨ (∃ id, e = .invalidSettingId id ∧ isForbidden id = true) ∨
  (∃ id, e = .repeated id ∧ isSupported id = true) ∨
  (∃ id v, e = .invalidSettingValue id v ∧ isSupported id = true ∧ badValue id v = true)

theorem errKind_ne_exceeded {e : SettingsError} (h : ErrKind e) : e ≠ .exceeded := by
  rcases h with rfl | ⟨id, rfl, _⟩ | ⟨id, rfl, _⟩ | ⟨id, v, rfl, _⟩ <;> simp

theorem step_spec (s : Settings) (p : Nat × Nat) (hi : Inv s) (h1 : p.1 < 2^62) (h2 : p.2 < 2^62) :
    (isForbidden p.1 = true ∧ step s p = .error (.invalidSettingId p.1)) ∨
    (isForbidden p.1 = false ∧ isSupported p.1 = false ∧ step s p = .ok s) ∨
    (isForbidden p.1 = false ∧ isSupported p.1 = true ∧ badValue p.1 p.2 = false ∧ (∃ e ∈ s.entries, e.1 = p.1) ∧
      step s p = .error (.repeated p.1)) ∨
    (isForbidden p.1 = false ∧ isSupported p.1 = true ∧ badValue p.1 p.2 = false ∧ (∀ e ∈ s.entries, e.1 ≠ p.1) ∧
      step s p = .ok ⟨s.entries ++ [p]⟩ ∧ Inv ⟨s.entries ++ [p]⟩) ∨
    (isForbidden p.1 = false ∧ isSupported p.1 = true ∧ badValue p.1 p.2 = true ∧
      step s p = .error (.invalidSettingValue p.1 p.2)) := by
  have hlen := inv_length hi
  unfold step
  by_cases hf : isForbidden p.1 = true
  · left; exact ⟨hf, by rw [if_pos hf]⟩
  · right
    have hf' : isForbidden p.1 = false := by simpa using hf
    rw [if_neg hf]
    by_cases hs : isSupported p.1 = true
    · right
      rw [if_pos hs]
      by_cases hb : badValue p.1 p.2 = true
      · right; right; exact ⟨hf', hs, hb, by rw [if_pos hb]⟩
      have hb' : badValue p.1 p.2 = false := by simpa using hb
      rw [if_neg hb]
      by_cases hin : ∃ e ∈ s.entries, e.1 = p.1
      · left; exact ⟨hf', hs, hb', hin, insert_repeated s p.1 p.2 hlen h1 h2 hin⟩
      · right; left
        have hnot : ∀ e ∈ s.entries, e.1 ≠ p.1 := fun e he heq => hin ⟨e, he, heq⟩
        refine ⟨hf', hs, hb', hnot, insert_ok s p.1 p.2 hlen h1 h2 hnot, ?_, ?_⟩
        · intro e he
          rcases List.mem_append.mp he with h | h
          · exact hi.1 e h
          · simp at h; subst h; exact hs
        · simp only [List.map_append, List.map_cons, List.map_nil]
          rw [List.nodup_append]
          refine ⟨hi.2, by simp, ?_⟩
          intro a ha b hb
          simp at hb; subst hb
          obtain ⟨e, he, rfl⟩ := List.mem_map.mp ha
          exact hnot e he
    · left
      have hs' : isSupported p.1 = false := by simpa using hs
      exact ⟨hf', hs', by rw [if_neg hs]⟩

/-- the pairs `decode` keeps -/
def kept (ps : List (Nat × Nat)) : List (Nat × Nat) := ps.filter (fun p => isSupported p.1)

theorem foldPairs_ok (s : Settings) (ps : List (Nat × Nat)) (hi : Inv s) (hf : Fits ps)
    (hnf : ∀ p ∈ ps, isForbidden p.1 = false)
    (hnb : ∀ p ∈ ps, isSupported p.1 = true → badValue p.1 p.2 = false)
    (hnd : ((s.entries ++ kept ps).map (·.1)).Nodup) :
    foldPairs s ps = .ok ⟨s.entries ++ kept ps⟩ := by
  induction ps generalizing s with
  | nil => simp [foldPairs, kept]
  | cons p r ih =>
    obtain ⟨⟨h1, h2⟩, hr⟩ := fits_cons.mp hf
    have hnf' : ∀ q ∈ r, isForbidden q.1 = false := fun q hq => hnf q (List.mem_cons_of_mem _ hq)
    have hnb' : ∀ q ∈ r, isSupported q.1 = true → badValue q.1 q.2 = false :=
      fun q hq => hnb q (List.mem_cons_of_mem _ hq)
    have hp := hnf p (List.mem_cons_self ..)
    simp only [foldPairs]
    rcases step_spec s p hi h1 h2 with ⟨hx, _⟩ | ⟨_, hs, hst⟩ | ⟨_, hs, _, hin, _⟩ | ⟨_, hs, _, _, hst, hi'⟩ |
      ⟨_, hs, hb, _⟩
    · rw [hp] at hx; cases hx
    · rw [hst]
      simp only
      have hk : kept (p :: r) = kept r := by simp [kept, hs]
      rw [hk] at hnd ⊢
      exact ih s hi hr hnf' hnb' hnd
    · exfalso
      have hk : kept (p :: r) = p :: kept r := by simp [kept, hs]
      rw [hk, List.map_append, List.nodup_append] at hnd
      obtain ⟨e, he, heq⟩ := hin
      exact hnd.2.2 e.1 (List.mem_map_of_mem he) p.1 (by simp) heq
    · rw [hst]
      simp only
      have hk : kept (p :: r) = p :: kept r := by simp [kept, hs]
      rw [hk] at hnd ⊢
      rw [ih ⟨s.entries ++ [p]⟩ hi' hr hnf' hnb' (by simpa using hnd)]
      simp
    · rw [hnb p (List.mem_cons_self ..) hs] at hb; cases hb

theorem foldPairs_err (s : Settings) (ps : List (Nat × Nat)) (hi : Inv s) (hf : Fits ps)
    (h : (∃ p ∈ ps, isForbidden p.1 = true) ∨ ¬ ((s.entries ++ kept ps).map (·.1)).Nodup ∨
      (∃ p ∈ ps, isSupported p.1 = true ∧ badValue p.1 p.2 = true)) :
    ∃ e, foldPairs s ps = .error e ∧ ErrKind e := by
  induction ps generalizing s with
  | nil =>
    rcases h with ⟨p, hp, _⟩ | h | ⟨p, hp, _⟩
    · cases hp
    · exact absurd (by simpa [kept] using hi.2) h
    · cases hp
  | cons p r ih =>
    obtain ⟨⟨h1, h2⟩, hr⟩ := fits_cons.mp hf
    simp only [foldPairs]
    rcases step_spec s p hi h1 h2 with ⟨hx, hst⟩ | ⟨hx, hs, hst⟩ | ⟨_, hs, _, hin, hst⟩ | ⟨hx, hs, hb, _, hst, hi'⟩ |
      ⟨_, hs, hb, hst⟩
    · rw [hst]; exact ⟨_, rfl, Or.inr (Or.inl ⟨_, rfl, hx⟩)⟩
    · rw [hst]
      simp only
      have hk : kept (p :: r) = kept r := by simp [kept, hs]
      rw [hk] at h
      apply ih s hi hr
      rcases h with ⟨q, hq, hqf⟩ | h | ⟨q, hq, hqs, hqb⟩
      · left
        rcases List.mem_cons.mp hq with rfl | hq
        · rw [hx] at hqf; cases hqf
        · exact ⟨q, hq, hqf⟩
      · right; left; exact h
      · right; right
        rcases List.mem_cons.mp hq with rfl | hq
        · rw [hs] at hqs; cases hqs
        · exact ⟨q, hq, hqs, hqb⟩
    · rw [hst]; exact ⟨_, rfl, Or.inr (Or.inr (Or.inl ⟨_, rfl, hs⟩))⟩
    · rw [hst]
      simp only
      have hk : kept (p :: r) = p :: kept r := by simp [kept, hs]
      rw [hk] at h
      apply ih ⟨s.entries ++ [p]⟩ hi' hr
      rcases h with ⟨q, hq, hqf⟩ | h | ⟨q, hq, hqs, hqb⟩
      · left
        rcases List.mem_cons.mp hq with rfl | hq
        · rw [hx] at hqf; cases hqf
        · exact ⟨q, hq, hqf⟩
      · right; left; simpa using h
      · right; right
        rcases List.mem_cons.mp hq with rfl | hq
        · rw [hb] at hqb; cases hqb
        · exact ⟨q, hq, hqs, hqb⟩
    · rw [hst]; exact ⟨_, rfl, Or.inr (Or.inr (Or.inr ⟨_, _, rfl, hs, hb⟩))⟩

/-! ### the decoder, on bytes -/

theorem readEntry_some {bs r1 r2 : Bytes} {id v : Nat} (hwf : WF bs)
    (h1 : rfcDecode bs = some (id, r1)) (h2 : rfcDecode r1 = some (v, r2)) :
    readEntry bs = some (id, v, r2) ∧ id < 2^62 ∧ v < 2^62 ∧ WF r2 ∧ r2.length + 2 ≤ bs.length := by
  have hwf1 := rfcDecode_wf h1 hwf
  have hwf2 := rfcDecode_wf h2 hwf1
  have l1 := rfcDecode_length h1
  have l2 := rfcDecode_length h2
  obtain ⟨d1, b1⟩ := (H3.Props.C16.C16_decode_total bs hwf).1 id r1 h1
  obtain ⟨d2, b2⟩ := (H3.Props.C16.C16_decode_total r1 hwf1).1 v r2 h2
  refine ⟨?_, b1, b2, hwf2, by omega⟩
  unfold readEntry
  rw [if_neg (by omega), d1]
  simp only
  rw [d2]

theorem readEntry_none1 {bs : Bytes} (hwf : WF bs) (h : rfcDecode bs = none) : readEntry bs = none := by
  obtain ⟨k, hk⟩ := (H3.Props.C16.C16_decode_total bs hwf).2 h
  unfold readEntry
  split
  · rfl
  · rw [hk]

theorem readEntry_none2 {bs r1 : Bytes} {id : Nat} (hwf : WF bs)
    (h1 : rfcDecode bs = some (id, r1)) (h2 : rfcDecode r1 = none) : readEntry bs = none := by
  have hwf1 := rfcDecode_wf h1 hwf
  obtain ⟨d1, _⟩ := (H3.Props.C16.C16_decode_total bs hwf).1 id r1 h1
  obtain ⟨k, hk⟩ := (H3.Props.C16.C16_decode_total r1 hwf1).2 h2
  unfold readEntry
  split
  · rfl
  · rw [d1]; simp only; rw [hk]

theorem decodeLoop_succ (f : Nat) (s : Settings) (bs : Bytes) (h : bs ≠ []) :
    decodeLoop (f+1) s bs =
      match readEntry bs with
      | none => .error .malformed
      | some (id, v, rest) =>
        match step s (id, v) with
        | .error e => .error e
        | .ok s' => decodeLoop f s' rest := by
  have hne : bs.isEmpty = false := by cases bs <;> simp_all
  simp only [decodeLoop, hne, step]
  cases readEntry bs with
  | none => rfl
  | some t =>
    obtain ⟨id, v, rest⟩ := t
    simp only [Bool.false_eq_true, if_false]
    by_cases hf : isForbidden id = true
    · simp [hf]
    · by_cases hs : isSupported id = true
      · simp only [hf, hs, if_true, if_false, Bool.false_eq_true]
        by_cases hb : badValue id v = true
        · simp [hb]
        · simp only [hb, if_false, Bool.false_eq_true]
          cases insert s id v <;> rfl
      · simp only [hf, hs, if_false, Bool.false_eq_true]

/-- `Settings::decode`'s loop against the RFC parse of the same bytes. -/
theorem decodeLoop_spec (f : Nat) (s : Settings) (bs : Bytes) (hwf : WF bs) (hlen : bs.length ≤ f)
    (hi : Inv s) :
    match parseFuel f bs with
    | some ps => Fits ps ∧ decodeLoop f s bs = foldPairs s ps
    | none => ∃ e, decodeLoop f s bs = .error e ∧ ErrKind e := by
  induction f generalizing s bs with
  | zero =>
    have : bs = [] := by cases bs <;> simp_all
    subst this
    simp [parseFuel, decodeLoop, foldPairs, fits_nil]
  | succ f ih =>
    by_cases hne : bs = []
    · subst hne
      simp [parseFuel_nil, decodeLoop, foldPairs, fits_nil]
    · rw [parseFuel_succ f bs hne, decodeLoop_succ f s bs hne]
      cases h1 : rfcDecode bs with
      | none =>
        simp only
        rw [readEntry_none1 hwf h1]
        exact ⟨_, rfl, Or.inl rfl⟩
      | some t1 =>
        obtain ⟨id, r1⟩ := t1
        simp only
        cases h2 : rfcDecode r1 with
        | none =>
          simp only
          rw [readEntry_none2 hwf h1 h2]
          exact ⟨_, rfl, Or.inl rfl⟩
        | some t2 =>
          obtain ⟨v, r2⟩ := t2
          simp only
          obtain ⟨hre, b1, b2, hwf2, hl2⟩ := readEntry_some hwf h1 h2
          rw [hre]
          simp only
          rcases step_spec s (id, v) hi b1 b2 with ⟨hx, hst⟩ | ⟨hx, hs, hst⟩ | ⟨_, hs, _, hin, hst⟩ |
            ⟨hx, hs, _, _, hst, hi'⟩ | ⟨_, hs, hb, hst⟩
          · -- forbidden identifier
            rw [hst]
            cases h3 : parseFuel f r2 with
            | none => exact ⟨_, rfl, Or.inr (Or.inl ⟨_, rfl, hx⟩)⟩
            | some ps =>
              simp only
              have := ih s r2 hwf2 (by omega) hi
              rw [h3] at this
              refine ⟨fits_cons.mpr ⟨⟨b1, b2⟩, this.1⟩, ?_⟩
              simp [foldPairs, hst]
          · -- unknown identifier: skipped
            rw [hst]
            simp only
            have := ih s r2 hwf2 (by omega) hi
            cases h3 : parseFuel f r2 with
            | none => rw [h3] at this; exact this
            | some ps =>
              rw [h3] at this
              simp only
              refine ⟨fits_cons.mpr ⟨⟨b1, b2⟩, this.1⟩, ?_⟩
              simp [foldPairs, hst, this.2]
          · -- repeated supported identifier
            rw [hst]
            cases h3 : parseFuel f r2 with
            | none => exact ⟨_, rfl, Or.inr (Or.inr (Or.inl ⟨_, rfl, hs⟩))⟩
            | some ps =>
              simp only
              have := ih s r2 hwf2 (by omega) hi
              rw [h3] at this
              refine ⟨fits_cons.mpr ⟨⟨b1, b2⟩, this.1⟩, ?_⟩
              simp [foldPairs, hst]
          · -- stored
            rw [hst]
            simp only
            have := ih ⟨s.entries ++ [(id, v)]⟩ r2 hwf2 (by omega) hi'
            cases h3 : parseFuel f r2 with
            | none => rw [h3] at this; exact this
            | some ps =>
              rw [h3] at this
              simp only
              refine ⟨fits_cons.mpr ⟨⟨b1, b2⟩, this.1⟩, ?_⟩
              simp [foldPairs, hst, this.2]
          · -- a 0/1 setting with another value
            rw [hst]
            cases h3 : parseFuel f r2 with
            | none => exact ⟨_, rfl, Or.inr (Or.inr (Or.inr ⟨_, _, rfl, hs, hb⟩))⟩
            | some ps =>
              simp only
              have := ih s r2 hwf2 (by omega) hi
              rw [h3] at this
              refine ⟨fits_cons.mpr ⟨⟨b1, b2⟩, this.1⟩, ?_⟩
              simp [foldPairs, hst]

theorem decode_spec (bs : Bytes) (hwf : WF bs) :
    match parse bs with
    | some ps => Fits ps ∧ decode bs = foldPairs empty ps
    | none => ∃ e, decode bs = .error e ∧ ErrKind e :=
  decodeLoop_spec bs.length empty bs hwf (Nat.le_refl _) inv_empty

/-! ### model notions against specification notions -/

open H3.Spec.Settings (reserved known occurrences hasReserved repeatsKnown repeatsUnknown carried)

/-- the code's reserved list is the RFC's (§11.2.2) -/
theorem forbidden_eq_reserved : forbiddenIds = reserved := by decide

/-- the code's supported identifiers are the ones the specification calls understood -/
theorem supported_iff_known (id : Nat) : isSupported id = true ↔ id ∈ known := by
  simp only [isSupported, supportedIds, known, H3.Spec.Settings.MAX_FIELD_SECTION_SIZE,
    H3.Spec.Settings.QPACK_MAX_TABLE_CAPACITY, H3.Spec.Settings.QPACK_BLOCKED_STREAMS,
    H3.Spec.Settings.ENABLE_CONNECT_PROTOCOL, H3.Spec.Settings.H3_DATAGRAM,
    H3.Spec.Settings.ENABLE_WEBTRANSPORT, H3.Spec.Settings.WEBTRANSPORT_MAX_SESSIONS,
    List.contains_eq_mem, List.mem_cons, List.not_mem_nil, or_false, decide_eq_true_eq]
  omega

theorem hasReserved_iff (ps : List (Nat × Nat)) :
    hasReserved ps = true ↔ ∃ p ∈ ps, isForbidden p.1 = true := by
  simp [hasReserved, isForbidden, forbidden_eq_reserved]

/-- the identifiers `Settings::decode` tests for a value above 1 (`SettingId::is_boolean`, read from the
    source by the translator) are the ones RFC 9297 §2.1.1 / RFC 8441 §3 restrict to 0 and 1 (D-13b: on a
    source without that test the list is empty and this fails to prove) -/
theorem boolean_eq_spec : booleanIds = H3.Spec.Settings.boolean01 := by decide

theorem boolean_supported (id : Nat) (h : H3.Spec.Settings.boolean01.contains id = true) :
    isSupported id = true := by
  simp only [H3.Spec.Settings.boolean01, H3.Spec.Settings.ENABLE_CONNECT_PROTOCOL, H3.Spec.Settings.H3_DATAGRAM,
    List.contains_eq_mem, List.mem_cons, List.not_mem_nil, or_false, decide_eq_true_eq] at h
  rcases h with rfl | rfl <;> decide

theorem badValue_eq (id v : Nat) :
    badValue id v = (H3.Spec.Settings.boolean01.contains id && decide (1 < v)) := by
  simp only [badValue, isBoolean, boolean_eq_spec]

theorem hasBadFlag_iff (ps : List (Nat × Nat)) :
    H3.Spec.Settings.hasBadFlag ps = true ↔ ∃ p ∈ ps, isSupported p.1 = true ∧ badValue p.1 p.2 = true := by
  simp only [H3.Spec.Settings.hasBadFlag, List.any_eq_true, badValue_eq]
  constructor
  · rintro ⟨p, hp, h⟩
    refine ⟨p, hp, boolean_supported p.1 ?_, h⟩
    simp only [Bool.and_eq_true] at h; exact h.1
  · rintro ⟨p, hp, _, h⟩; exact ⟨p, hp, h⟩

theorem count_kept (ps : List (Nat × Nat)) (a : Nat) :
    List.count a ((kept ps).map (·.1)) = if isSupported a = true then occurrences ps a else 0 := by
  induction ps with
  | nil => simp [kept, occurrences]
  | cons p r ih =>
    unfold kept at ih ⊢
    unfold occurrences at ih ⊢
    by_cases hs : isSupported p.1 = true
    · by_cases he : p.1 = a
      · subst he
        simp only [List.filter_cons, hs, if_true, List.map_cons, List.count_cons_self, ih,
          beq_self_eq_true, List.length_cons]
      · have hb : (p.1 == a) = false := by simpa using he
        simp only [List.filter_cons, hs, if_true, List.map_cons, hb, Bool.false_eq_true, if_false]
        rw [List.count_cons_of_ne he]
        exact ih
    · have hs' : isSupported p.1 = false := by simpa using hs
      by_cases he : p.1 = a
      · subst he
        simp only [List.filter_cons, hs', Bool.false_eq_true, if_false, ih]
      · have hb : (p.1 == a) = false := by simpa using he
        simp only [List.filter_cons, hs', hb, Bool.false_eq_true, if_false, ih]

/-- no understood identifier repeats ⇔ what `decode` keeps has distinct identifiers -/
theorem repeatsKnown_false_iff (ps : List (Nat × Nat)) :
    repeatsKnown ps = false ↔ ((kept ps).map (·.1)).Nodup := by
  rw [List.nodup_iff_count]
  simp only [count_kept]
  unfold repeatsKnown
  rw [List.any_eq_false]
  constructor
  · intro h a
    by_cases hs : isSupported a = true
    · rw [if_pos hs]
      have := h a ((supported_iff_known a).mp hs)
      simp at this; omega
    · rw [if_neg hs]; omega
  · intro h a ha
    have hs := (supported_iff_known a).mpr ha
    have := h a
    rw [if_pos hs] at this
    simp; omega

/-! ### `get` -/

theorem get_eq_find (s : Settings) (id : Nat) (h0 : id ≠ SETTING_NONE) :
    get s id = (s.entries.find? (fun e => e.1 == id)).map (·.2) := by
  unfold get slots
  rw [List.find?_append, List.find?_replicate_of_neg (by simpa using fun h => h0 h.symm)]
  simp

theorem find_kept (ps : List (Nat × Nat)) (id : Nat) (hs : isSupported id = true) :
    ((kept ps).find? (fun e => e.1 == id)).map (·.2) = ps.lookup id := by
  induction ps with
  | nil => simp [kept]
  | cons p r ih =>
    obtain ⟨a, b⟩ := p
    unfold kept at ih ⊢
    by_cases he : a = id
    · subst he
      simp [hs]
    · have hb : (a == id) = false := by simpa using he
      have hb' : (id == a) = false := by simpa using fun h => he h.symm
      rw [List.lookup_cons, hb']
      simp only [List.filter_cons]
      split
      · simp only [List.find?_cons, hb]; exact ih
      · exact ih

/-- what `get` reports after a successful decode is what the payload carries -/
theorem get_kept (ps : List (Nat × Nat)) (id : Nat) (hs : isSupported id = true) :
    get ⟨kept ps⟩ id = carried ps id := by
  have h0 : id ≠ SETTING_NONE := by
    intro h; rw [h] at hs; revert hs; decide
  rw [get_eq_find _ _ h0]
  exact find_kept ps id hs

/-! ### values reachable by inserts; decode ∘ encode -/

/-- the `Settings` values the API can build: `default()` and successful `insert`s -/
inductive Reachable : Settings → Prop
  | default : Reachable empty
  | insert {s s' : Settings} {id v : Nat} : Reachable s → insert s id v = .ok s' → Reachable s'

theorem insert_ok_inv {s s' : Settings} {id v : Nat} (h : insert s id v = .ok s') :
    s' = ⟨s.entries ++ [(id, v)]⟩ ∧ s.entries.length < SETTINGS_LEN ∧ id < 2^62 ∧ v < 2^62 ∧
    ∀ e ∈ s.entries, e.1 ≠ id := by
  unfold insert at h
  split at h
  · cases h
  · split at h
    · cases h
    · split at h
      · cases h
      · split at h
        · cases h
        · rename_i h1 h2 h3 h4
          refine ⟨by cases h; rfl, by omega, by omega, by omega, ?_⟩
          intro e he heq
          apply h4
          exact hasId_true ⟨e, he, heq⟩

theorem reachable_inv {s : Settings} (h : Reachable s) :
    s.entries.length ≤ SETTINGS_LEN ∧ Fits s.entries ∧ (s.entries.map (·.1)).Nodup := by
  induction h with
  | default => simp [empty, fits_nil]
  | insert hr hi ih =>
    obtain ⟨rfl, h1, h2, h3, h4⟩ := insert_ok_inv hi
    obtain ⟨i1, i2, i3⟩ := ih
    refine ⟨by simp; omega, fits_append.mpr ⟨i2, by intro p hp; simp at hp; subst hp; exact ⟨h2, h3⟩⟩, ?_⟩
    simp only [List.map_append, List.map_cons, List.map_nil]
    rw [List.nodup_append]
    refine ⟨i3, by simp, ?_⟩
    intro a ha b hb
    simp at hb; subst hb
    obtain ⟨e, he, rfl⟩ := List.mem_map.mp ha
    exact h4 e he

theorem frameDecode_frame (payload : Bytes) (hl : payload.length < 2^62) :
    frameDecode ([FRAME_SETTINGS] ++ Varint.encode payload.length ++ payload) = some (decode payload, []) := by
  unfold frameDecode
  have h4 : Varint.decode ([FRAME_SETTINGS] ++ Varint.encode payload.length ++ payload)
      = .ok FRAME_SETTINGS (Varint.encode payload.length ++ payload) := by
    simp only [List.cons_append, List.nil_append]
    rw [decode1 _ _ (by decide)]; rfl
  rw [h4]
  simp only [ne_eq, not_true_eq_false, if_false]
  rw [(H3.Props.C16.C16_decode_encode payload.length hl payload).1]
  simp

theorem kept_nodup_of_nodup {ps : List (Nat × Nat)} (h : (ps.map (·.1)).Nodup) :
    ((kept ps).map (·.1)).Nodup := by
  apply List.Nodup.sublist _ h
  exact List.Sublist.map _ List.filter_sublist

/-- decoding the payload `encode` writes for a reachable value -/
theorem decode_encPairs (s : Settings) (hr : Reachable s)
    (hnf : ∀ e ∈ s.entries, isForbidden e.1 = false)
    (hnb : ∀ e ∈ s.entries, isSupported e.1 = true → badValue e.1 e.2 = false) :
    decode (encPairs s.entries) = .ok ⟨kept s.entries⟩ := by
  obtain ⟨_, hf, hnd⟩ := reachable_inv hr
  have := decode_spec (encPairs s.entries) (encPairs_wf _ hf)
  rw [parse_encPairs _ hf] at this
  rw [this.2, foldPairs_ok empty s.entries inv_empty hf hnf hnb (by simpa [empty] using kept_nodup_of_nodup hnd)]
  simp [empty]

theorem kept_eq_self {ps : List (Nat × Nat)} (h : ∀ e ∈ ps, isSupported e.1 = true) : kept ps = ps := by
  unfold kept
  rw [List.filter_eq_self]
  exact h

end H3.Settings

namespace H3.Config
open H3.Varint H3.Settings H3.Gen.Consts H3.Gen.Settings

/-- the entries `TryFrom<Config>` produces, in its order -/
def entriesOf (c : Config) (n : Nat) : List (Nat × Nat) :=
  (if c.grease then [(greaseId n, 0)] else []) ++
  [(SETTING_MAX_HEADER_LIST_SIZE, c.settings.mfs), (SETTING_ENABLE_CONNECT_PROTOCOL, boolVal c.settings.ec),
   (SETTING_ENABLE_WEBTRANSPORT, boolVal c.settings.wt), (SETTING_H3_DATAGRAM, boolVal c.settings.dg),
   (SETTING_WEBTRANSPORT_MAX_SESSIONS, c.settings.wts)]

theorem boolVal_lt (b : Bool) : boolVal b < 2 := by cases b <;> decide

/-- A grease identifier is none of the identifiers h3 sends or refuses (mod 31). -/
theorem grease_distinct (n : Nat) :
    greaseId n ≠ SETTING_MAX_HEADER_LIST_SIZE ∧ greaseId n ≠ SETTING_ENABLE_CONNECT_PROTOCOL ∧
    greaseId n ≠ SETTING_ENABLE_WEBTRANSPORT ∧ greaseId n ≠ SETTING_H3_DATAGRAM ∧
    greaseId n ≠ SETTING_WEBTRANSPORT_MAX_SESSIONS ∧ greaseId n ≠ SETTING_QPACK_MAX_TABLE_CAPACITY ∧
    greaseId n ≠ SETTING_QPACK_MAX_BLOCKED_STREAMS ∧ greaseId n ∉ forbiddenIds := by
  simp only [greaseId, GREASE_MUL, GREASE_ADD, SETTING_MAX_HEADER_LIST_SIZE, SETTING_ENABLE_CONNECT_PROTOCOL,
    SETTING_ENABLE_WEBTRANSPORT, SETTING_H3_DATAGRAM, SETTING_WEBTRANSPORT_MAX_SESSIONS,
    SETTING_QPACK_MAX_TABLE_CAPACITY, SETTING_QPACK_MAX_BLOCKED_STREAMS, forbiddenIds,
    List.mem_cons, List.not_mem_nil, or_false, not_or]
  omega

/-- a sequence of `insert(..)?` calls -/
def insertList : Settings → List (Nat × Nat) → Except SettingsError Settings
  | s, [] => .ok s
  | s, (id, v) :: r =>
    match insert s id v with
    | .error e => .error e
    | .ok s' => insertList s' r

theorem insertList_ok (s : Settings) (ps : List (Nat × Nat))
    (hlen : s.entries.length + ps.length ≤ SETTINGS_LEN) (hf : Fits ps)
    (hnd : ((s.entries ++ ps).map (·.1)).Nodup) : insertList s ps = .ok ⟨s.entries ++ ps⟩ := by
  induction ps generalizing s with
  | nil => simp [insertList]
  | cons p r ih =>
    obtain ⟨id, v⟩ := p
    obtain ⟨⟨h1, h2⟩, hr⟩ := fits_cons.mp hf
    have hnot : ∀ e ∈ s.entries, e.1 ≠ id := by
      intro e he heq
      rw [List.map_append, List.nodup_append] at hnd
      exact hnd.2.2 e.1 (List.mem_map_of_mem he) id (by simp) heq
    simp only [List.length_cons] at hlen
    simp only [insertList]
    rw [insert_ok s id v (by omega) h1 h2 hnot]
    simp only
    rw [ih ⟨s.entries ++ [(id, v)]⟩ (by simp; omega) hr (by simpa using hnd)]
    simp

theorem insertAll_eq (s : Settings) (r : Record) :
    insertAll s r = insertList s
      [(SETTING_MAX_HEADER_LIST_SIZE, r.mfs), (SETTING_ENABLE_CONNECT_PROTOCOL, boolVal r.ec),
       (SETTING_ENABLE_WEBTRANSPORT, boolVal r.wt), (SETTING_H3_DATAGRAM, boolVal r.dg),
       (SETTING_WEBTRANSPORT_MAX_SESSIONS, r.wts)] := by
  simp only [insertAll, insertList, bind, Except.bind]
  repeat' split
  all_goals simp_all

theorem entriesOf_nodup (c : Config) (n : Nat) : ((entriesOf c n).map (·.1)).Nodup := by
  obtain ⟨g1, g2, g3, g4, g5, _⟩ := grease_distinct n
  unfold entriesOf
  cases c.grease
  · simp; decide
  · simp only [if_true, List.cons_append, List.nil_append, List.map_cons, List.map_nil, List.nodup_cons,
      List.mem_cons, List.not_mem_nil, or_false, not_or]
    refine ⟨⟨g1, g2, g3, g4, g5⟩, ?_⟩
    decide

theorem entriesOf_fits (c : Config) (n : Nat) (hm : c.settings.mfs < 2^62) (hw : c.settings.wts < 2^62)
    (hg : greaseId n < 2^62) : Fits (entriesOf c n) := by
  have b1 := boolVal_lt c.settings.ec
  have b2 := boolVal_lt c.settings.wt
  have b3 := boolVal_lt c.settings.dg
  unfold entriesOf
  rw [fits_append]
  constructor
  · cases c.grease
    · exact fits_nil
    · intro p hp; simp at hp; subst hp; exact ⟨hg, by simp only; decide⟩
  · intro p hp
    simp only [List.mem_cons, List.not_mem_nil, or_false] at hp
    rcases hp with rfl | rfl | rfl | rfl | rfl
    · exact ⟨by simp only; decide, hm⟩
    · exact ⟨by simp only; decide, by simp only; omega⟩
    · exact ⟨by simp only; decide, by simp only; omega⟩
    · exact ⟨by simp only; decide, by simp only; omega⟩
    · exact ⟨by simp only; decide, hw⟩

theorem entriesOf_length (c : Config) (n : Nat) : (entriesOf c n).length ≤ 6 := by
  unfold entriesOf; cases c.grease <;> simp

theorem toSettings_ok (c : Config) (n : Nat) (hm : c.settings.mfs < 2^62) (hw : c.settings.wts < 2^62)
    (hg : greaseId n < 2^62) : toSettings c n = .ok ⟨entriesOf c n⟩ := by
  have hnd := entriesOf_nodup c n
  have hf := entriesOf_fits c n hm hw hg
  have hl := entriesOf_length c n
  unfold toSettings
  simp only [insertAll_eq]
  unfold entriesOf at hnd hf hl ⊢
  rw [fits_append] at hf
  cases hgr : c.grease
  · rw [hgr] at hnd hf hl
    simp only [Bool.false_eq_true, if_false] at hnd hf hl ⊢
    rw [insertList_ok empty _ (by simp [SETTINGS_LEN, empty]) hf.2 hnd]
    rfl
  · rw [hgr] at hnd hf hl
    simp only [if_true] at hnd hf hl ⊢
    rw [insert_ok empty (greaseId n) 0 (by decide) hg (by decide) (by simp [empty])]
    simp only
    rw [insertList_ok _ _ (by simp [SETTINGS_LEN, empty]) hf.2 (by simpa [empty] using hnd)]
    rfl

theorem size_small (x : Nat) (h : x < 64) : size x = 1 := by
  unfold size; rw [if_pos (by omega)]

theorem entriesOf_size (c : Config) (n : Nat) : sizePairs (entriesOf c n) ≤ 39 := by
  have b1 := size_small _ (Nat.lt_trans (boolVal_lt c.settings.ec) (by decide))
  have b2 := size_small _ (Nat.lt_trans (boolVal_lt c.settings.wt) (by decide))
  have b3 := size_small _ (Nat.lt_trans (boolVal_lt c.settings.dg) (by decide))
  have s1 := size_le (greaseId n)
  have s2 := size_le c.settings.mfs
  have s3 := size_le c.settings.wts
  have c1 : size SETTING_MAX_HEADER_LIST_SIZE = 1 := by decide
  have c2 : size SETTING_ENABLE_CONNECT_PROTOCOL = 1 := by decide
  have c3 : size SETTING_ENABLE_WEBTRANSPORT = 4 := by decide
  have c4 : size SETTING_H3_DATAGRAM = 1 := by decide
  have c5 : size SETTING_WEBTRANSPORT_MAX_SESSIONS = 4 := by decide
  have c0 : size 0 = 1 := by decide
  unfold entriesOf
  cases c.grease
  · simp only [Bool.false_eq_true, if_false, List.nil_append, sizePairs, b1, b2, b3, c1, c2, c3, c4, c5]
    omega
  · simp only [if_true, List.cons_append, List.nil_append, sizePairs, b1, b2, b3, c1, c2, c3, c4, c5, c0]
    omega

/-- The control-stream header for a configuration whose numbers fit a varint. -/
theorem controlHeader_entriesOf (c : Config) (n : Nat) (hm : c.settings.mfs < 2^62)
    (hw : c.settings.wts < 2^62) (hg : greaseId n < 2^62) :
    controlHeader? ⟨entriesOf c n⟩ =
      some ([STREAM_CONTROL, FRAME_SETTINGS, (encPairs (entriesOf c n)).length] ++ encPairs (entriesOf c n)) := by
  have hf := entriesOf_fits c n hm hw hg
  have hs := entriesOf_size c n
  have hlen := encPairs_length _ hf
  have ht : writeVar STREAM_CONTROL = some [STREAM_CONTROL] := by decide
  unfold controlHeader?
  rw [ht, encode?_eq ⟨entriesOf c n⟩ hf (by simp only; omega)]
  simp only [encode_small _ (by omega : sizePairs (entriesOf c n) < 64), bind, Option.bind, pure]
  rw [if_neg]
  · simp [hlen]
  · simp [hlen, WRITE_BUF_ENCODE_SIZE]; omega

/-- `From<&frame::Settings>` after a successful decode, in terms of what the payload carries -/
theorem fromSettings_kept (ps : List (Nat × Nat)) :
    fromSettings ⟨kept ps⟩ =
      { mfs := (ps.lookup SETTING_MAX_HEADER_LIST_SIZE).getD Record.default.mfs
        wt := ((ps.lookup SETTING_ENABLE_WEBTRANSPORT).map (· != 0)).getD Record.default.wt
        wts := (ps.lookup SETTING_WEBTRANSPORT_MAX_SESSIONS).getD Record.default.wts
        dg := ((ps.lookup SETTING_H3_DATAGRAM).map (· != 0)).getD Record.default.dg
        ec := ((ps.lookup SETTING_ENABLE_CONNECT_PROTOCOL).map (· != 0)).getD Record.default.ec } := by
  unfold fromSettings
  rw [get_kept ps _ (by decide), get_kept ps _ (by decide), get_kept ps _ (by decide),
    get_kept ps _ (by decide), get_kept ps _ (by decide)]
  rfl

theorem insertList_big (s : Settings) (ps : List (Nat × Nat))
    (hlen : s.entries.length + ps.length ≤ SETTINGS_LEN) (hids : ∀ p ∈ ps, p.1 < 2^62)
    (hnd : ((s.entries ++ ps).map (·.1)).Nodup) (hbig : ∃ p ∈ ps, ¬ p.2 < 2^62) :
    ∃ id v, insertList s ps = .error (.invalidSettingValue id v) ∧ ¬ v < 2^62 := by
  induction ps generalizing s with
  | nil => obtain ⟨p, hp, _⟩ := hbig; cases hp
  | cons p r ih =>
    obtain ⟨id, v⟩ := p
    simp only [List.length_cons] at hlen
    have h1 : id < 2^62 := hids (id, v) (List.mem_cons_self ..)
    simp only [insertList]
    by_cases h2 : v < 2^62
    · have hnot : ∀ e ∈ s.entries, e.1 ≠ id := by
        intro e he heq
        rw [List.map_append, List.nodup_append] at hnd
        exact hnd.2.2 e.1 (List.mem_map_of_mem he) id (by simp) heq
      rw [insert_ok s id v (by omega) h1 h2 hnot]
      simp only
      apply ih ⟨s.entries ++ [(id, v)]⟩ (by simp; omega) (fun q hq => hids q (List.mem_cons_of_mem _ hq))
        (by simpa using hnd)
      obtain ⟨q, hq, hqb⟩ := hbig
      rcases List.mem_cons.mp hq with rfl | hq
      · exact absurd h2 hqb
      · exact ⟨q, hq, hqb⟩
    · rw [insert_big_value s id v (by omega) h1 h2]
      exact ⟨id, v, rfl, h2⟩

/-- a number that does not fit a varint makes the conversion fail (D-13 repaired) -/
theorem toSettings_big (c : Config) (n : Nat) (hg : greaseId n < 2^62)
    (hbig : ¬ c.settings.mfs < 2^62 ∨ ¬ c.settings.wts < 2^62) :
    ∃ id v, toSettings c n = .error (.invalidSettingValue id v) ∧ ¬ v < 2^62 := by
  have hnd := entriesOf_nodup c n
  have hl := entriesOf_length c n
  have hids : ∀ p ∈ [(SETTING_MAX_HEADER_LIST_SIZE, c.settings.mfs), (SETTING_ENABLE_CONNECT_PROTOCOL, boolVal c.settings.ec),
      (SETTING_ENABLE_WEBTRANSPORT, boolVal c.settings.wt), (SETTING_H3_DATAGRAM, boolVal c.settings.dg),
      (SETTING_WEBTRANSPORT_MAX_SESSIONS, c.settings.wts)], p.1 < 2^62 := by
    intro p hp
    simp only [List.mem_cons, List.not_mem_nil, or_false] at hp
    rcases hp with rfl | rfl | rfl | rfl | rfl <;> (simp only; decide)
  have hb : ∃ p ∈ [(SETTING_MAX_HEADER_LIST_SIZE, c.settings.mfs), (SETTING_ENABLE_CONNECT_PROTOCOL, boolVal c.settings.ec),
      (SETTING_ENABLE_WEBTRANSPORT, boolVal c.settings.wt), (SETTING_H3_DATAGRAM, boolVal c.settings.dg),
      (SETTING_WEBTRANSPORT_MAX_SESSIONS, c.settings.wts)], ¬ p.2 < 2^62 := by
    rcases hbig with h | h
    · exact ⟨_, List.mem_cons_self .., h⟩
    · exact ⟨(SETTING_WEBTRANSPORT_MAX_SESSIONS, c.settings.wts), by simp, h⟩
  unfold toSettings
  simp only [insertAll_eq]
  unfold entriesOf at hnd hl
  cases hgr : c.grease
  · rw [hgr] at hnd hl
    simp only [Bool.false_eq_true, if_false] at hnd hl ⊢
    exact insertList_big empty _ (by simp [SETTINGS_LEN, empty]) hids hnd hb
  · rw [hgr] at hnd hl
    simp only [if_true] at hnd hl ⊢
    rw [insert_ok empty (greaseId n) 0 (by decide) hg (by decide) (by simp [empty])]
    simp only
    exact insertList_big _ _ (by simp [SETTINGS_LEN, empty]) hids (by simpa [empty] using hnd) hb

theorem entriesOf_eq_expected (c : Config) (n : Nat) :
    entriesOf c n = H3.Spec.Settings.expectedSent c.grease n c.settings.mfs c.settings.ec c.settings.wt
      c.settings.dg c.settings.wts := by
  unfold entriesOf H3.Spec.Settings.expectedSent
  have : greaseId n = 0x1f * n + 0x21 := by simp [greaseId, GREASE_MUL, GREASE_ADD, Nat.mul_comm]
  rw [this]
  rfl

/-- `value != 0` is an acceptable reading of a 0/1 setting -/
theorem flagOk_lookup (ps : List (Nat × Nat)) (id : Nat) :
    H3.Spec.Settings.FlagOk ps id (((ps.lookup id).map (· != 0)).getD false) := by
  unfold H3.Spec.Settings.FlagOk H3.Spec.Settings.carried
  cases ps.lookup id with
  | none => rfl
  | some v =>
    match v with
    | 0 => rfl
    | 1 => rfl
    | (k+2) => trivial

theorem lookup_mem {ps : List (Nat × Nat)} {id v : Nat} (h : ps.lookup id = some v) : (id, v) ∈ ps := by
  induction ps with
  | nil => simp at h
  | cons p r ih =>
    obtain ⟨a, b⟩ := p
    by_cases he : id = a
    · subst he
      simp only [List.lookup_cons_self] at h
      cases h; exact List.mem_cons_self ..
    · rw [List.lookup_cons] at h
      have : (id == a) = false := by simpa using he
      simp only [this] at h
      exact List.mem_cons_of_mem _ (ih h)

/-- where only 0 and 1 occur, `value != 0` is the exact reading: on iff the value 1 is carried -/
theorem flagExact_lookup (ps : List (Nat × Nat)) (id : Nat) (hid : H3.Spec.Settings.boolean01.contains id = true)
    (hb : H3.Spec.Settings.hasBadFlag ps = false) :
    H3.Spec.Settings.FlagExact ps id (((ps.lookup id).map (· != 0)).getD false) := by
  unfold H3.Spec.Settings.FlagExact H3.Spec.Settings.carried
  cases h : ps.lookup id with
  | none => rfl
  | some v =>
    have hm := lookup_mem h
    have hv : ¬ 1 < v := by
      intro hv
      have : H3.Spec.Settings.hasBadFlag ps = true := by
        simp only [H3.Spec.Settings.hasBadFlag, List.any_eq_true]
        exact ⟨(id, v), hm, by simp only [hid, Bool.true_and, decide_eq_true_eq]; exact hv⟩
      rw [hb] at this; cases this
    match v, hv with
    | 0, _ => rfl
    | 1, _ => rfl
    | (k+2), hv => exact absurd (by omega) hv

end H3.Config
