import H3.Lemmas.ReqRecv
set_option linter.unusedSimpArgs false
/-! Re-polling.  An API call of the request layer that answers `Pending` is polled again when the
    task is woken (`retry`): the call starts over from its first line with whatever the previous
    poll left in the stream object.  This file shows, for ANY frame layer `S` in which a `Pending`
    answer is inert (`PendLaws`: it changes neither `has_data` nor — for `poll_next` — `is_eos`,
    and something is used up whenever more is still to come), that polling a call again until it
    answers something else is the same as ONE poll of the call over the frame layer `skipSrc S`
    whose `poll_next` / `poll_data` themselves wait out the `Pending` answers:

      `retry (pollHead role S H) K st        = pollHead role (skipSrc S) H st`
      `retry (pollRecvTrailers S H) K st     = pollRecvTrailers (skipSrc S) H st`
      `retry (pollRecvData S N) K st         = pollRecvData (skipSrc S) f st`   (loop bounds permitting)

    i.e. every call resumes exactly where its previous poll stopped: `poll_recv_data` re-enters
    its `while !has_data` loop at the same frame boundary or inside the same DATA payload;
    `poll_recv_trailers` finds the trailers it saved before answering `Pending` and repeats only the
    look at the frame behind them (`C03_trailers_retry`); nothing is read twice, nothing is lost.
    Hence the documented pattern with re-polling (`documentedR`) over `S` is the one-poll-per-call
    pattern `documented` over `skipSrc S`. -/
namespace H3.ReqRecv
open H3.Frame H3.Gen.Consts

def isPend : FOut → Bool
  | .pending => true
  | _ => false

section Generic
variable {σ : Type}

/-- poll the frame layer again while it answers `Pending` and more is to come (`len ≠ 0`) -/
def skipPoll (len : σ → Nat) (poll : σ → FOut × σ) : Nat → σ → FOut × σ
  | 0, c => poll c
  | k+1, c => if isPend (poll c).1 = true ∧ len (poll c).2 ≠ 0 then skipPoll len poll k (poll c).2 else poll c

/-- the frame layer whose calls wait out the `Pending` answers -/
def skipSrc (S : Src σ) (len : σ → Nat) : Src σ where
  pollNext := fun c => skipPoll len S.pollNext (len c) c
  pollData := fun c => skipPoll len S.pollData (len c) c
  hasData := S.hasData
  isEos := S.isEos

/-- an API call polled again while it answers `Pending` and more is to come -/
def retry (len : σ → Nat) (f : St σ → Res × St σ) : Nat → St σ → Res × St σ
  | 0, st => f st
  | k+1, st => if (f st).1 = .pending ∧ len (f st).2.src ≠ 0 then retry len f k (f st).2 else f st

/-- `Pending` is inert: `len` = how much is still to come (for the `FrameStream` model: the events
    left in the transport script) never grows and shrinks with every `Pending` that is not the last
    word; a `Pending` from `poll_next` leaves `has_data = false`, `is_eos = false`; a `Pending` from
    `poll_data` leaves `has_data` as it was. -/
structure PendLaws (S : Src σ) (len : σ → Nat) : Prop where
  next_len : ∀ c, len (S.pollNext c).2 ≤ len c
  data_len : ∀ c, len (S.pollData c).2 ≤ len c
  next_pend : ∀ c, isPend (S.pollNext c).1 = true →
    S.hasData (S.pollNext c).2 = false ∧ S.isEos (S.pollNext c).2 = false ∧
      (len (S.pollNext c).2 ≠ 0 → len (S.pollNext c).2 < len c)
  data_pend : ∀ c, isPend (S.pollData c).1 = true →
    S.hasData (S.pollData c).2 = S.hasData c ∧ (len (S.pollData c).2 ≠ 0 → len (S.pollData c).2 < len c)

variable {S : Src σ} {len : σ → Nat}

theorem skipPoll_fuel' (poll : σ → FOut × σ)
    (hlaw : ∀ c, isPend (poll c).1 = true → len (poll c).2 ≠ 0 → len (poll c).2 < len c) :
    ∀ (m : Nat) (c : σ), len c = m → ∀ K, m ≤ K → skipPoll len poll K c = skipPoll len poll m c := by
  intro m
  induction m using Nat.strongRecOn with
  | _ m ih =>
    intro c hm K hK
    by_cases hc : isPend (poll c).1 = true ∧ len (poll c).2 ≠ 0
    · have hlt := hlaw c hc.1 hc.2
      obtain ⟨n, hn⟩ : ∃ n, m = n + 1 := ⟨m - 1, by omega⟩
      obtain ⟨K', hK'⟩ : ∃ K', K = K' + 1 := ⟨K - 1, by omega⟩
      subst hn hK'
      rw [skipPoll, skipPoll, if_pos hc, if_pos hc,
        ih (len (poll c).2) (by omega) _ rfl K' (by omega), ih (len (poll c).2) (by omega) _ rfl n (by omega)]
    · cases K with
      | zero =>
        have : m = 0 := by omega
        rw [this]
      | succ K' =>
        cases m with
        | zero => rw [skipPoll, skipPoll, if_neg hc]
        | succ n => rw [skipPoll, skipPoll, if_neg hc, if_neg hc]

theorem skipPoll_fuel (poll : σ → FOut × σ)
    (hlaw : ∀ c, isPend (poll c).1 = true → len (poll c).2 ≠ 0 → len (poll c).2 < len c)
    (K : Nat) (c : σ) (h : len c ≤ K) : skipPoll len poll K c = skipPoll len poll (len c) c :=
  skipPoll_fuel' poll hlaw (len c) c rfl K h

/-- one step of the waiting call -/
theorem skipPoll_unfold (poll : σ → FOut × σ)
    (hlaw : ∀ c, isPend (poll c).1 = true → len (poll c).2 ≠ 0 → len (poll c).2 < len c) (c : σ) :
    skipPoll len poll (len c) c =
      if isPend (poll c).1 = true ∧ len (poll c).2 ≠ 0 then skipPoll len poll (len (poll c).2) (poll c).2
      else poll c := by
  by_cases hc : isPend (poll c).1 = true ∧ len (poll c).2 ≠ 0
  · have hlt := hlaw c hc.1 hc.2
    obtain ⟨n, hn⟩ : ∃ n, len c = n + 1 := ⟨len c - 1, by omega⟩
    rw [hn, skipPoll, if_pos hc, if_pos hc, skipPoll_fuel poll hlaw _ _ (by omega)]
  · rw [if_neg hc]
    cases hn : len c with
    | zero => rw [skipPoll]
    | succ n => rw [skipPoll, if_neg hc]

theorem skipNext_unfold (L : PendLaws S len) (c : σ) :
    (skipSrc S len).pollNext c =
      if isPend (S.pollNext c).1 = true ∧ len (S.pollNext c).2 ≠ 0 then (skipSrc S len).pollNext (S.pollNext c).2
      else S.pollNext c :=
  skipPoll_unfold S.pollNext (fun c h1 h2 => (L.next_pend c h1).2.2 h2) c

theorem skipData_unfold (L : PendLaws S len) (c : σ) :
    (skipSrc S len).pollData c =
      if isPend (S.pollData c).1 = true ∧ len (S.pollData c).2 ≠ 0 then (skipSrc S len).pollData (S.pollData c).2
      else S.pollData c :=
  skipPoll_unfold S.pollData (fun c h1 h2 => (L.data_pend c h1).2 h2) c

@[simp] theorem skip_hasData (c : σ) : (skipSrc S len).hasData c = S.hasData c := rfl
@[simp] theorem skip_isEos (c : σ) : (skipSrc S len).isEos c = S.isEos c := rfl

/-! ### answers that are not `Pending` -/

theorem connErr_ne_pending (st : St σ) (c : Nat) : (connErr st c).1 ≠ .pending := by
  unfold connErr; split <;> simp

theorem fsErr_ne_pending (st : St σ) (o : FOut) : (fsErr st o).1 ≠ .pending := by
  cases o <;> simp [fsErr, connErr_ne_pending]

theorem decodeTrailers_ne_pending (H : Hdr) (st : St σ) (enc : Bytes) :
    (decodeTrailers H st enc).1 ≠ .pending := by
  unfold decodeTrailers; split <;> simp [connErr_ne_pending]

/-- what the first-frame calls make of a frame-layer answer -/
def headOut (role : Role) (H : Hdr) (st' : St σ) (o : FOut) : Res × St σ :=
  match role with
  | .server =>
    match o with
    | .frame (.headers enc) =>
      match H.head enc with
      | .ok => (.head enc, st')
      | .qpack => connErr st' CODE_QPACK_DECOMPRESSION_FAILED
      | .malformed =>
        (.errStream CODE_H3_MESSAGE_ERROR,
         { st' with env := { st'.env with rst := first st'.env.rst CODE_H3_MESSAGE_ERROR,
                                          stop := first st'.env.stop CODE_H3_MESSAGE_ERROR } })
    | .none =>
      (.errStream CODE_H3_REQUEST_INCOMPLETE,
       { st' with env := { st'.env with rst := first st'.env.rst CODE_H3_REQUEST_INCOMPLETE } })
    | .frame _ => connErr st' CODE_H3_FRAME_UNEXPECTED
    | .pending => (.pending, st')
    | e => fsErr st' e
  | .client =>
    match o with
    | .frame (.headers enc) =>
      match H.head enc with
      | .ok => (.head enc, st')
      | .qpack => connErr st' CODE_QPACK_DECOMPRESSION_FAILED
      | .malformed =>
        (.errStream CODE_H3_MESSAGE_ERROR,
         { st' with env := { st'.env with stop := first st'.env.stop CODE_H3_MESSAGE_ERROR } })
    | .none => (.errStream CODE_H3_MESSAGE_ERROR, st')
    | .frame _ => connErr st' CODE_H3_FRAME_UNEXPECTED
    | .pending => (.pending, st')
    | e => fsErr st' e

theorem pollHead_eq (role : Role) (S : Src σ) (H : Hdr) (st : St σ) :
    pollHead role S H st = headOut role H { st with src := (S.pollNext st.src).2 } (S.pollNext st.src).1 := by
  cases role <;> rfl

theorem headOut_pending (role : Role) (H : Hdr) (st' : St σ) (o : FOut) (h : isPend o = true) :
    headOut role H st' o = (.pending, st') := by
  cases o <;> simp [isPend] at h
  cases role <;> rfl

theorem headOut_ne_pending (role : Role) (H : Hdr) (st' : St σ) (o : FOut) (h : isPend o = false) :
    (headOut role H st' o).1 ≠ .pending := by
  cases role
  · cases o with
    | pending => simp [isPend] at h
    | frame f =>
      cases f with
      | headers enc =>
        simp only [headOut]
        cases H.head enc <;> simp [connErr_ne_pending]
      | _ => exact connErr_ne_pending _ _
    | none => simp [headOut]
    | _ => exact fsErr_ne_pending _ _
  · cases o with
    | pending => simp [isPend] at h
    | frame f =>
      cases f with
      | headers enc =>
        simp only [headOut]
        cases H.head enc <;> simp [connErr_ne_pending]
      | _ => exact connErr_ne_pending _ _
    | none => simp [headOut]
    | _ => exact fsErr_ne_pending _ _


/-! ### the first-frame calls -/

theorem retry_pollHead (L : PendLaws S len) (role : Role) (H : Hdr) : ∀ (K : Nat) (st : St σ), len st.src ≤ K →
    retry len (pollHead role S H) K st = pollHead role (skipSrc S len) H st := by
  intro K
  induction K with
  | zero =>
    intro st h
    have hc : ¬ (isPend (S.pollNext st.src).1 = true ∧ len (S.pollNext st.src).2 ≠ 0) := fun hc => by
      have := L.next_len st.src; omega
    rw [retry, pollHead_eq, pollHead_eq, skipNext_unfold L, if_neg hc]
  | succ K ih =>
    intro st h
    rw [retry]
    by_cases hc : isPend (S.pollNext st.src).1 = true ∧ len (S.pollNext st.src).2 ≠ 0
    · have hp : pollHead role S H st = (.pending, { st with src := (S.pollNext st.src).2 }) := by
        rw [pollHead_eq, headOut_pending _ _ _ _ hc.1]
      have hlt := (L.next_pend _ hc.1).2.2 hc.2
      rw [hp, if_pos ⟨rfl, hc.2⟩, ih _ (by simp only; omega), pollHead_eq,
        pollHead_eq (S := skipSrc S len) (st := st), skipNext_unfold L st.src, if_pos hc]
    · have hne : ¬ ((pollHead role S H st).1 = .pending ∧ len (pollHead role S H st).2.src ≠ 0) := by
        rintro ⟨h1, h2⟩
        by_cases hp : isPend (S.pollNext st.src).1 = true
        · rw [pollHead_eq, headOut_pending _ _ _ _ hp] at h2
          exact hc ⟨hp, h2⟩
        · rw [pollHead_eq] at h1
          exact headOut_ne_pending _ _ _ _ (by simpa using hp) h1
      rw [if_neg hne, pollHead_eq, pollHead_eq (S := skipSrc S len) (st := st), skipNext_unfold L st.src, if_neg hc]

/-! ### `poll_recv_trailers` -/

/-- what the look behind the trailers makes of a frame-layer answer -/
def checkOut (H : Hdr) (st' : St σ) (enc : Bytes) (o : FOut) : Res × St σ :=
  match o with
  | .frame _ => connErr st' CODE_H3_FRAME_UNEXPECTED
  | .none => decodeTrailers H st' enc
  | .pending => (.pending, { st' with trailers := some enc })
  | .data _ => (.invalid, st')
  | e => fsErr st' e

theorem trailersCheck_eq (S : Src σ) (H : Hdr) (st : St σ) (enc : Bytes) :
    trailersCheck S H st enc = checkOut H { st with src := (S.pollNext st.src).2 } enc (S.pollNext st.src).1 := rfl

theorem checkOut_pending (H : Hdr) (st' : St σ) (enc : Bytes) (o : FOut) (h : isPend o = true) :
    checkOut H st' enc o = (.pending, { st' with trailers := some enc }) := by
  cases o <;> simp [isPend] at h
  rfl

theorem checkOut_ne_pending (H : Hdr) (st' : St σ) (enc : Bytes) (o : FOut) (h : isPend o = false) :
    (checkOut H st' enc o).1 ≠ .pending := by
  cases o with
  | pending => simp [isPend] at h
  | frame f => exact connErr_ne_pending _ _
  | none => exact decodeTrailers_ne_pending _ _ _
  | data d => simp [checkOut]
  | _ => exact fsErr_ne_pending _ _

/-- the look behind the trailers, re-polled: the retry finds the saved trailers and repeats the look -/
theorem retry_check (L : PendLaws S len) (H : Hdr) (enc : Bytes) : ∀ (K : Nat) (st : St σ),
    st.trailers = none → len st.src ≤ K →
    (if (trailersCheck S H st enc).1 = .pending ∧ len (trailersCheck S H st enc).2.src ≠ 0
      then retry len (pollRecvTrailers S H) K (trailersCheck S H st enc).2 else trailersCheck S H st enc) =
      trailersCheck (skipSrc S len) H st enc := by
  intro K
  induction K with
  | zero =>
    intro st ht h
    have hc : ¬ (isPend (S.pollNext st.src).1 = true ∧ len (S.pollNext st.src).2 ≠ 0) := fun hc => by
      have := L.next_len st.src; omega
    have hne : ¬ ((trailersCheck S H st enc).1 = .pending ∧ len (trailersCheck S H st enc).2.src ≠ 0) := by
      rintro ⟨h1, h2⟩
      by_cases hp : isPend (S.pollNext st.src).1 = true
      · rw [trailersCheck_eq, checkOut_pending _ _ _ _ hp] at h2
        exact hc ⟨hp, h2⟩
      · rw [trailersCheck_eq] at h1
        exact checkOut_ne_pending _ _ _ _ (by simpa using hp) h1
    rw [if_neg hne, trailersCheck_eq, trailersCheck_eq (S := skipSrc S len), skipNext_unfold L, if_neg hc]
  | succ K ih =>
    intro st ht h
    by_cases hc : isPend (S.pollNext st.src).1 = true ∧ len (S.pollNext st.src).2 ≠ 0
    · have hp : trailersCheck S H st enc =
          (.pending, { st with src := (S.pollNext st.src).2, trailers := some enc }) := by
        rw [trailersCheck_eq, checkOut_pending _ _ _ _ hc.1]
      obtain ⟨_, heos, hlt⟩ := L.next_pend _ hc.1
      have hlt := hlt hc.2
      rw [hp, if_pos ⟨rfl, hc.2⟩, retry]
      -- the retry: the saved trailers are found, `is_eos` is false, the look is repeated
      have hre : pollRecvTrailers S H { st with src := (S.pollNext st.src).2, trailers := some enc } =
          trailersCheck S H { st with src := (S.pollNext st.src).2 } enc := by
        have : ({ st with src := (S.pollNext st.src).2, trailers := none } : St σ) =
            { st with src := (S.pollNext st.src).2 } := by
          cases st; simp only at ht; subst ht; rfl
        simp only [pollRecvTrailers, trailersTail, heos, this]
        rfl
      rw [hre, ih { st with src := (S.pollNext st.src).2 } ht (by simp only; omega),
        trailersCheck_eq (S := skipSrc S len), trailersCheck_eq (S := skipSrc S len) (st := st),
        skipNext_unfold L st.src, if_pos hc]
    · have hne : ¬ ((trailersCheck S H st enc).1 = .pending ∧ len (trailersCheck S H st enc).2.src ≠ 0) := by
        rintro ⟨h1, h2⟩
        by_cases hp : isPend (S.pollNext st.src).1 = true
        · rw [trailersCheck_eq, checkOut_pending _ _ _ _ hp] at h2
          exact hc ⟨hp, h2⟩
        · rw [trailersCheck_eq] at h1
          exact checkOut_ne_pending _ _ _ _ (by simpa using hp) h1
      rw [if_neg hne, trailersCheck_eq, trailersCheck_eq (S := skipSrc S len), skipNext_unfold L, if_neg hc]


theorem retry_tail (L : PendLaws S len) (H : Hdr) (enc : Bytes) (K : Nat) (st : St σ)
    (ht : st.trailers = none) (h : len st.src ≤ K) :
    (if (trailersTail S H st enc).1 = .pending ∧ len (trailersTail S H st enc).2.src ≠ 0
      then retry len (pollRecvTrailers S H) K (trailersTail S H st enc).2 else trailersTail S H st enc) =
      trailersTail (skipSrc S len) H st enc := by
  unfold trailersTail
  rw [skip_isEos]
  by_cases he : S.isEos st.src = true
  · rw [if_pos he, if_pos he, if_neg (fun hc => decodeTrailers_ne_pending H st enc hc.1)]
  · rw [if_neg he, if_neg he]
    exact retry_check L H enc K st ht h

theorem firstStep_pending (H : Hdr) (st : St σ) (h : isPend (S.pollNext st.src).1 = true) :
    trailersFirst S H st = (.pending, { st with src := (S.pollNext st.src).2 }) := by
  unfold trailersFirst
  rcases hp : S.pollNext st.src with ⟨o, c'⟩
  rw [hp] at h
  cases o <;> simp [isPend] at h
  rfl

/-- `poll_recv_trailers` with nothing saved, re-polled -/
theorem retry_first (L : PendLaws S len) (H : Hdr) : ∀ (K : Nat) (st : St σ),
    st.trailers = none → len st.src ≤ K →
    (if (trailersFirst S H st).1 = .pending ∧ len (trailersFirst S H st).2.src ≠ 0
      then retry len (pollRecvTrailers S H) K (trailersFirst S H st).2 else trailersFirst S H st) =
      trailersFirst (skipSrc S len) H st := by
  intro K
  induction K with
  | zero =>
    intro st ht h
    have hc : ¬ (isPend (S.pollNext st.src).1 = true ∧ len (S.pollNext st.src).2 ≠ 0) := fun hc => by
      have := L.next_len st.src; omega
    by_cases hp : isPend (S.pollNext st.src).1 = true
    · rw [firstStep_pending H st hp, if_neg (fun hx => hc ⟨hp, hx.2⟩)]
      unfold trailersFirst
      rw [skipNext_unfold L, if_neg hc]
      rcases hq : S.pollNext st.src with ⟨o, c'⟩
      rw [hq] at hp
      cases o <;> simp [isPend] at hp
      rfl
    · -- a frame, the end or an error: no retry of this call; after HEADERS the look behind them
      have hlen := L.next_len st.src
      unfold trailersFirst
      rw [skipNext_unfold L, if_neg hc]
      rcases hq : S.pollNext st.src with ⟨o, c'⟩
      rw [hq] at hp hlen
      simp only at hlen
      cases o with
      | pending => simp [isPend] at hp
      | frame f =>
        cases f with
        | headers enc => exact retry_tail L H enc 0 { st with src := c' } ht (by simp only; omega)
        | _ => exact if_neg (fun hx => connErr_ne_pending _ _ hx.1)
      | none => exact if_neg (fun hx => by simp at hx)
      | data d => exact if_neg (fun hx => by simp at hx)
      | _ => exact if_neg (fun hx => fsErr_ne_pending _ _ hx.1)
  | succ K ih =>
    intro st ht h
    by_cases hc : isPend (S.pollNext st.src).1 = true ∧ len (S.pollNext st.src).2 ≠ 0
    · have hlt := (L.next_pend _ hc.1).2.2 hc.2
      rw [firstStep_pending H st hc.1, if_pos ⟨rfl, hc.2⟩, retry]
      have hre : pollRecvTrailers S H { st with src := (S.pollNext st.src).2 } =
          trailersFirst S H { st with src := (S.pollNext st.src).2 } := by
        simp only [pollRecvTrailers, ht]
      rw [hre, ih { st with src := (S.pollNext st.src).2 } ht (by simp only; omega)]
      conv => rhs; unfold trailersFirst; rw [skipNext_unfold L, if_pos hc]
      rfl
    · by_cases hp : isPend (S.pollNext st.src).1 = true
      · rw [firstStep_pending H st hp, if_neg (fun hx => hc ⟨hp, hx.2⟩)]
        unfold trailersFirst
        rw [skipNext_unfold L, if_neg hc]
        rcases hq : S.pollNext st.src with ⟨o, c'⟩
        rw [hq] at hp
        cases o <;> simp [isPend] at hp
        rfl
      · have hlen := L.next_len st.src
        unfold trailersFirst
        rw [skipNext_unfold L, if_neg hc]
        rcases hq : S.pollNext st.src with ⟨o, c'⟩
        rw [hq] at hp hlen
        simp only at hlen
        cases o with
        | pending => simp [isPend] at hp
        | frame f =>
          cases f with
          | headers enc => exact retry_tail L H enc (K + 1) { st with src := c' } ht (by simp only; omega)
          | _ => exact if_neg (fun hx => connErr_ne_pending _ _ hx.1)
        | none => exact if_neg (fun hx => by simp at hx)
        | data d => exact if_neg (fun hx => by simp at hx)
        | _ => exact if_neg (fun hx => fsErr_ne_pending _ _ hx.1)

/-- `poll_recv_trailers` polled again while it answers `Pending` = one poll over the waiting frame layer -/
theorem retry_pollRecvTrailers (L : PendLaws S len) (H : Hdr) (K : Nat) (st : St σ) (h : len st.src < K) :
    retry len (pollRecvTrailers S H) K st = pollRecvTrailers (skipSrc S len) H st := by
  obtain ⟨K', rfl⟩ : ∃ K', K = K' + 1 := ⟨K - 1, by omega⟩
  rw [retry]
  cases ht : st.trailers with
  | none =>
    have h1 : pollRecvTrailers S H st = trailersFirst S H st := by simp only [pollRecvTrailers, ht]
    have h2 : pollRecvTrailers (skipSrc S len) H st = trailersFirst (skipSrc S len) H st := by
      simp only [pollRecvTrailers, ht]
    rw [h1, h2]
    exact retry_first L H K' st ht (by omega)
  | some enc =>
    have h1 : pollRecvTrailers S H st = trailersTail S H { st with trailers := none } enc := by
      simp only [pollRecvTrailers, ht]
    have h2 : pollRecvTrailers (skipSrc S len) H st = trailersTail (skipSrc S len) H { st with trailers := none } enc := by
      simp only [pollRecvTrailers, ht]
    rw [h1, h2]
    exact retry_tail L H enc K' { st with trailers := none } rfl (by simp only; omega)


/-! ### `poll_recv_data` -/

theorem dataOut_pending (st' : St σ) (o : FOut) (h : isPend o = true) : dataOut st' o = (.pending, st') := by
  cases o <;> simp [isPend] at h
  rfl

theorem dataOut_ne_pending (st' : St σ) (o : FOut) (h : isPend o = false) : (dataOut st' o).1 ≠ .pending := by
  cases o with
  | pending => simp [isPend] at h
  | data d => simp [dataOut]
  | none => simp [dataOut]
  | frame f => simp [dataOut]
  | _ => exact fsErr_ne_pending _ _

/-- the loop bound of `poll_recv_data` is a device of the model: once it suffices, more changes nothing -/
theorem pollRecvData_mono (S : Src σ) : ∀ (f : Nat) (st : St σ), (pollRecvData S f st).1 ≠ .invalid →
    pollRecvData S (f + 1) st = pollRecvData S f st := by
  intro f
  induction f with
  | zero => intro st h; exact absurd rfl h
  | succ f ih =>
    intro st h
    rw [pollRecvData.eq_2 S st f] at h
    rw [pollRecvData.eq_2 S st (f + 1), pollRecvData.eq_2 S st f]
    by_cases hd : S.hasData st.src = true
    · rw [if_pos hd, if_pos hd]
    · rw [if_neg hd] at h
      rw [if_neg hd, if_neg hd]
      rcases hq : S.pollNext st.src with ⟨o, c'⟩
      rw [hq] at h
      cases o with
      | frame fr =>
        cases fr with
        | data n => exact ih _ h
        | _ => rfl
      | _ => rfl

theorem pollRecvData_mono' (S : Src σ) (f g : Nat) (st : St σ) (h : (pollRecvData S f st).1 ≠ .invalid)
    (hfg : f ≤ g) : pollRecvData S g st = pollRecvData S f st := by
  obtain ⟨d, rfl⟩ : ∃ d, g = f + d := ⟨g - f, by omega⟩
  clear hfg
  induction d with
  | zero => rfl
  | succ d ih =>
    have : pollRecvData S (f + d + 1) st = pollRecvData S (f + d) st :=
      pollRecvData_mono S (f + d) st (by rw [ih]; exact h)
    rw [show f + (d + 1) = f + d + 1 by omega, this, ih]

/-- what `poll_recv_data` makes of the answer of `poll_next` -/
def nextOut (S : Src σ) (f : Nat) (st' : St σ) (o : FOut) : Res × St σ :=
  match o with
  | .frame (.headers enc) => (.end_, { st' with trailers := some enc })
  | .frame (.data _) => pollRecvData S f st'
  | .frame _ => connErr st' CODE_H3_FRAME_UNEXPECTED
  | .none => (.end_, st')
  | .pending => (.pending, st')
  | .data _ => (.invalid, st')
  | e => fsErr st' e

theorem pollRecvData_has (S : Src σ) (f : Nat) (st : St σ) (hd : S.hasData st.src = true) :
    pollRecvData S (f + 1) st = dataOut { st with src := (S.pollData st.src).2 } (S.pollData st.src).1 := by
  rw [pollRecvData, if_pos hd]

theorem pollRecvData_no (S : Src σ) (f : Nat) (st : St σ) (hd : ¬ S.hasData st.src = true) :
    pollRecvData S (f + 1) st = nextOut S f { st with src := (S.pollNext st.src).2 } (S.pollNext st.src).1 := by
  rw [pollRecvData, if_neg hd]
  rfl

theorem nextOut_pending (S : Src σ) (f : Nat) (st' : St σ) (o : FOut) (h : isPend o = true) :
    nextOut S f st' o = (.pending, st') := by
  cases o <;> simp [isPend] at h
  rfl

/-- one poll with loop bound `g`, then — while the answer is `Pending` and more is to come — polled
    again (each poll with the full bound `N`) -/
theorem retry_data_core (L : PendLaws S len) (N K m : Nat)
    (hrec : ∀ (st₁ : St σ) (f₁ : Nat), len st₁.src < m → f₁ ≤ N →
      (pollRecvData (skipSrc S len) f₁ st₁).1 ≠ .invalid →
      retry len (pollRecvData S N) K st₁ = pollRecvData (skipSrc S len) f₁ st₁) :
    ∀ (f g : Nat) (st : St σ), len st.src ≤ m → f ≤ g → g ≤ N →
      (pollRecvData (skipSrc S len) f st).1 ≠ .invalid →
      (if (pollRecvData S g st).1 = .pending ∧ len (pollRecvData S g st).2.src ≠ 0
        then retry len (pollRecvData S N) K (pollRecvData S g st).2 else pollRecvData S g st) =
        pollRecvData (skipSrc S len) f st := by
  intro f
  induction f with
  | zero => intro g st _ _ _ h; exact absurd rfl h
  | succ f ih =>
    intro g st hm hfg hgN hni
    obtain ⟨g', rfl⟩ : ∃ g', g = g' + 1 := ⟨g - 1, by omega⟩
    by_cases hd : S.hasData st.src = true
    · have hd' : (skipSrc S len).hasData st.src = true := hd
      rw [pollRecvData_has _ _ _ hd'] at hni
      rw [pollRecvData_has _ _ _ hd, pollRecvData_has _ _ _ hd']
      by_cases hc : isPend (S.pollData st.src).1 = true ∧ len (S.pollData st.src).2 ≠ 0
      · obtain ⟨hhd, hlt⟩ := L.data_pend _ hc.1
        have hlt := hlt hc.2
        rw [skipData_unfold L, if_pos hc] at hni ⊢
        rw [dataOut_pending _ _ hc.1, if_pos ⟨rfl, hc.2⟩]
        have hstep : pollRecvData (skipSrc S len) (f + 1) { st with src := (S.pollData st.src).2 } =
            dataOut { st with src := ((skipSrc S len).pollData (S.pollData st.src).2).2 }
              ((skipSrc S len).pollData (S.pollData st.src).2).1 :=
          pollRecvData_has _ _ _ (by simp only [skip_hasData]; rw [hhd]; exact hd)
        rw [hrec { st with src := (S.pollData st.src).2 } (f + 1) (by simp only; omega) (by omega)
          (by rw [hstep]; exact hni), hstep]
      · rw [skipData_unfold L, if_neg hc]
        refine if_neg ?_
        rintro ⟨h1, h2⟩
        by_cases hp : isPend (S.pollData st.src).1 = true
        · rw [dataOut_pending _ _ hp] at h2
          exact hc ⟨hp, h2⟩
        · exact dataOut_ne_pending _ _ (by simpa using hp) h1
    · have hd' : ¬ (skipSrc S len).hasData st.src = true := hd
      rw [pollRecvData_no _ _ _ hd'] at hni
      rw [pollRecvData_no _ _ _ hd, pollRecvData_no _ _ _ hd']
      by_cases hc : isPend (S.pollNext st.src).1 = true ∧ len (S.pollNext st.src).2 ≠ 0
      · obtain ⟨hhd, _, hlt⟩ := L.next_pend _ hc.1
        have hlt := hlt hc.2
        rw [skipNext_unfold L, if_pos hc] at hni ⊢
        rw [nextOut_pending _ _ _ _ hc.1, if_pos ⟨rfl, hc.2⟩]
        have hstep : pollRecvData (skipSrc S len) (f + 1) { st with src := (S.pollNext st.src).2 } =
            nextOut (skipSrc S len) f { st with src := ((skipSrc S len).pollNext (S.pollNext st.src).2).2 }
              ((skipSrc S len).pollNext (S.pollNext st.src).2).1 :=
          pollRecvData_no _ _ _ (by simp only [skip_hasData]; rw [hhd]; simp)
        rw [hrec { st with src := (S.pollNext st.src).2 } (f + 1) (by simp only; omega) (by omega)
          (by rw [hstep]; exact hni), hstep]
      · rw [skipNext_unfold L, if_neg hc] at hni ⊢
        have hlen := L.next_len st.src
        rcases hq : S.pollNext st.src with ⟨o, c'⟩
        rw [hq] at hc hni hlen
        simp only at hc hni hlen ⊢
        cases o with
        | frame fr =>
          cases fr with
          | data n => exact ih g' { st with src := c' } (by simp only; omega) (by omega) (by omega) hni
          | headers enc => exact if_neg (fun hx => by simp [nextOut] at hx)
          | _ => exact if_neg (fun hx => connErr_ne_pending _ _ hx.1)
        | pending => exact if_neg (fun hx => hc ⟨rfl, hx.2⟩)
        | none => exact if_neg (fun hx => by simp [nextOut] at hx)
        | data d => exact if_neg (fun hx => by simp [nextOut] at hx)
        | _ => exact if_neg (fun hx => fsErr_ne_pending _ _ hx.1)

/-- `poll_recv_data` polled again while it answers `Pending` = one poll over the waiting frame
    layer (whenever the latter's loop bound `f ≤ N` suffices) -/
theorem retry_pollRecvData (L : PendLaws S len) (N : Nat) : ∀ (m K : Nat) (st : St σ) (f : Nat),
    len st.src ≤ m → m < K → f ≤ N → (pollRecvData (skipSrc S len) f st).1 ≠ .invalid →
    retry len (pollRecvData S N) K st = pollRecvData (skipSrc S len) f st := by
  intro m
  induction m with
  | zero =>
    intro K st f hm hK hf hni
    obtain ⟨K', rfl⟩ : ∃ K', K = K' + 1 := ⟨K - 1, by omega⟩
    rw [retry]
    exact retry_data_core L N K' 0 (fun st₁ f₁ h => absurd h (by omega)) f N st hm hf (Nat.le_refl _) hni
  | succ m ih =>
    intro K st f hm hK hf hni
    obtain ⟨K', rfl⟩ : ∃ K', K = K' + 1 := ⟨K - 1, by omega⟩
    rw [retry]
    exact retry_data_core L N K' (m + 1)
      (fun st₁ f₁ h1 h2 h3 => ih K' st₁ f₁ (by omega) (by omega) h2 h3) f N st hm hf (Nat.le_refl _) hni


/-! ### nothing to come ever grows -/

theorem skipPoll_len (poll : σ → FOut × σ) (hle : ∀ c, len (poll c).2 ≤ len c) :
    ∀ (k : Nat) (c : σ), len (skipPoll len poll k c).2 ≤ len c := by
  intro k
  induction k with
  | zero => intro c; exact hle c
  | succ k ih =>
    intro c
    rw [skipPoll]
    split
    · exact Nat.le_trans (ih _) (hle c)
    · exact hle c

theorem skip_next_len (L : PendLaws S len) (c : σ) : len ((skipSrc S len).pollNext c).2 ≤ len c :=
  skipPoll_len S.pollNext L.next_len _ c

theorem skip_data_len (L : PendLaws S len) (c : σ) : len ((skipSrc S len).pollData c).2 ≤ len c :=
  skipPoll_len S.pollData L.data_len _ c

section Len
variable {S' : Src σ} (hn : ∀ c, len (S'.pollNext c).2 ≤ len c) (hdl : ∀ c, len (S'.pollData c).2 ≤ len c)
include hn hdl

theorem pollRecvData_len : ∀ (f : Nat) (st : St σ), len (pollRecvData S' f st).2.src ≤ len st.src := by
  intro f
  induction f with
  | zero => intro st; exact Nat.le_refl _
  | succ f ih =>
    intro st
    by_cases hd : S'.hasData st.src = true
    · rw [pollRecvData_has _ _ _ hd, (dataOut_keeps _ _).1]
      exact hdl _
    · rw [pollRecvData_no _ _ _ hd]
      have h1 := hn st.src
      rcases hq : S'.pollNext st.src with ⟨o, c'⟩
      rw [hq] at h1
      simp only at h1 ⊢
      cases o with
      | frame fr =>
        cases fr with
        | data n => exact Nat.le_trans (ih _) h1
        | headers enc => exact h1
        | _ => simp only [nextOut]; rw [(connErr_keeps _ _).1]; exact h1
      | none => exact h1
      | pending => exact h1
      | data d => exact h1
      | _ => simp only [nextOut]; rw [(fsErr_keeps _ _).1]; exact h1

omit hn hdl in
theorem headOut_src (role : Role) (H : Hdr) (st' : St σ) (o : FOut) : (headOut role H st' o).2.src = st'.src := by
  cases role
  · cases o with
    | frame f =>
      cases f with
      | headers enc =>
        simp only [headOut]
        cases H.head enc <;> first | rfl | exact (connErr_keeps _ _).1
      | _ => exact (connErr_keeps _ _).1
    | none => rfl
    | pending => rfl
    | _ => exact (fsErr_keeps _ _).1
  · cases o with
    | frame f =>
      cases f with
      | headers enc =>
        simp only [headOut]
        cases H.head enc <;> first | rfl | exact (connErr_keeps _ _).1
      | _ => exact (connErr_keeps _ _).1
    | none => rfl
    | pending => rfl
    | _ => exact (fsErr_keeps _ _).1

omit hdl in
theorem pollHead_len (role : Role) (H : Hdr) (st : St σ) : len (pollHead role S' H st).2.src ≤ len st.src := by
  rw [pollHead_eq, headOut_src]
  exact hn _

theorem drain_len : ∀ (fuel : Nat) (st : St σ), len (drain S' fuel st).2.src ≤ len st.src := by
  intro fuel
  induction fuel with
  | zero => intro st; exact Nat.le_refl _
  | succ f ih =>
    intro st
    have h1 := pollRecvData_len hn hdl (f + 1) st
    rw [drain]
    rcases hq : pollRecvData S' (f + 1) st with ⟨r, st'⟩
    rw [hq] at h1
    cases r with
    | data d => exact Nat.le_trans (ih st') h1
    | _ => exact h1

end Len

/-! ### the documented call pattern with re-polling -/

/-- `recv_data` — polled again while it answers `Pending` — until it answers something else than data -/
def drainR (S : Src σ) (len : σ → Nat) (N K : Nat) : Nat → St σ → List Res × St σ
  | 0, st => ([.invalid], st)
  | fuel+1, st =>
    let (r, st') := retry len (pollRecvData S N) K st
    match r with
    | .data d =>
      let (rs, st'') := drainR S len N K fuel st'
      (.data d :: rs, st'')
    | r => ([r], st')

def bodyRunR (S : Src σ) (len : σ → Nat) (H : Hdr) (N K fuel : Nat) (st : St σ) : List Res × Option Res × Env :=
  let (rs, st2) := drainR S len N K fuel st
  if rs.getLast? = some .end_ then
    let (t, st3) := retry len (pollRecvTrailers S H) K st2
    (rs, some t, st3.env)
  else (rs, none, st2.env)

/-- The documented call pattern, every call polled again while it answers `Pending` and more is to
    come: `resolve_request` / `recv_response`; `recv_data` until it answers `None` or fails;
    `recv_trailers` after a clean end of the body.  `N` bounds the `while !has_data` loop of one
    poll of `poll_recv_data`, `K` the number of polls of one call, `fuel` the number of `recv_data`
    calls; a `Pending` in the trace is the last word: nothing more will arrive. -/
def documentedR (role : Role) (S : Src σ) (len : σ → Nat) (H : Hdr) (N K fuel : Nat) (st : St σ) : Trace :=
  let (h, st1) := retry len (pollHead role S H) K st
  match h with
  | .head _ =>
    let (rs, t, env) := bodyRunR S len H N K fuel st1
    { head := h, body := rs, trailers := t, env := env }
  | _ => { head := h, env := st1.env }

theorem drainR_eq (L : PendLaws S len) (N K : Nat) : ∀ (fuel : Nat) (st : St σ), len st.src < K → fuel ≤ N →
    (∀ r ∈ (drain (skipSrc S len) fuel st).1, r ≠ .invalid) →
    drainR S len N K fuel st = drain (skipSrc S len) fuel st := by
  intro fuel
  induction fuel with
  | zero => intro st _ _ _; rfl
  | succ f ih =>
    intro st hK hN hni
    have hlen := pollRecvData_len (len := len) (skip_next_len L) (skip_data_len L) (f + 1) st
    rw [drain] at hni
    rw [drainR, drain]
    have hfirst : (pollRecvData (skipSrc S len) (f + 1) st).1 ≠ .invalid := by
      intro hc
      rcases hq : pollRecvData (skipSrc S len) (f + 1) st with ⟨r, st'⟩
      rw [hq] at hni hc
      simp only at hc
      subst hc
      exact hni .invalid (by simp) rfl
    rw [retry_pollRecvData L N (len st.src) K st (f + 1) (Nat.le_refl _) hK hN hfirst]
    rcases hq : pollRecvData (skipSrc S len) (f + 1) st with ⟨r, st'⟩
    rw [hq] at hni hlen
    simp only at hlen
    cases r with
    | data d =>
      simp only at hni ⊢
      rw [ih st' (by omega) (by omega) (fun r hr => hni r (by simp [hr]))]
    | _ => rfl

/-- **Re-polling = waiting frame layer.**  The documented pattern with every call polled again while
    it answers `Pending` is the one-poll-per-call pattern over the frame layer that waits out the
    `Pending` answers — provided the loop bounds of the latter run suffice (no `invalid` in its body). -/
theorem documentedR_eq (L : PendLaws S len) (role : Role) (H : Hdr) (N K fuel : Nat) (st : St σ)
    (hK : len st.src < K) (hN : fuel ≤ N)
    (hni : ∀ r ∈ (documented role (skipSrc S len) H fuel st).body, r ≠ .invalid) :
    documentedR role S len H N K fuel st = documented role (skipSrc S len) H fuel st := by
  have hlen1 := pollHead_len (len := len) (skip_next_len L) role H st
  unfold documentedR documented at *
  rw [retry_pollHead L role H K st (by omega)]
  rcases hq : pollHead role (skipSrc S len) H st with ⟨h, st1⟩
  rw [hq] at hni hlen1
  simp only at hlen1
  cases h with
  | head b =>
    simp only [bodyRunR, bodyRun] at hni ⊢
    have hni' : ∀ r ∈ (drain (skipSrc S len) fuel st1).1, r ≠ .invalid := by
      intro r hr
      apply hni r
      split <;> exact hr
    have hlen2 := drain_len (len := len) (skip_next_len L) (skip_data_len L) fuel st1
    rw [drainR_eq L N K fuel st1 (by omega) hN hni']
    rcases hd : drain (skipSrc S len) fuel st1 with ⟨rs, st2⟩
    rw [hd] at hlen2
    simp only at hlen2 ⊢
    rw [retry_pollRecvTrailers L H K st2 (by omega)]
  | _ => rfl

end Generic
end H3.ReqRecv
