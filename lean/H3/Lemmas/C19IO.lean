import H3.Model.Session
import H3.Lemmas.C19
import H3.Lemmas.WriteBuf
import H3.Lemmas.SendFrames
/-! Lemmas behind the C19 theorems on reading a WebTransport stream with caller-sized buffers
    (`Session.readLim` over `Session.pollRead`) and on what an opened stream puts on the wire
    (`Session.openBidi` / `Session.openUni`). -/
namespace H3.Session
open H3.FS
open H3.Lemmas.C04 (bytesOf)

/-! ## Reading -/

/-- how the script ends, in the vocabulary of the read loop: FIN ⇒ `eof`, RESET ⇒ `err`,
    neither ⇒ still open -/
def endOf : List Ev → RdEnd
  | [] => .open_
  | .chunk _ :: r => endOf r
  | .pend :: r => endOf r
  | .fin :: _ => .eof
  | .reset c :: _ => .err c

/-- `BufList` holds no empty chunk -/
def BufOK (buf : List (List Nat)) : Prop := ∀ c ∈ buf, c ≠ []

theorem takeChunk_spec (n : Nat) (hn : 0 < n) (c : List Nat) (cs : List (List Nat)) (hc : c ≠ [])
    (hcs : BufOK cs) :
    ∃ d buf', takeChunk n (c :: cs) = (some d, buf') ∧ d ≠ [] ∧ d.length ≤ n ∧
      d ++ buf'.flatten = (c :: cs).flatten ∧ BufOK buf' := by
  have hlen : 0 < c.length := List.length_pos_iff.mpr hc
  refine ⟨c.take (min n c.length),
    if min n c.length = c.length then cs else c.drop (min n c.length) :: cs, rfl, ?_, ?_, ?_, ?_⟩
  · intro h
    have := congrArg List.length h
    simp only [List.length_take, List.length_nil] at this
    omega
  · simp only [List.length_take]
    omega
  · by_cases h : min n c.length = c.length
    · rw [if_pos h, h]; simp
    · rw [if_neg h, List.flatten_cons, ← List.append_assoc, List.take_append_drop, List.flatten_cons]
  · by_cases h : min n c.length = c.length
    · rw [if_pos h]; exact hcs
    · rw [if_neg h]
      intro x hx
      rcases List.mem_cons.mp hx with rfl | hx
      · intro h0
        have := congrArg List.length h0
        simp only [List.length_drop, List.length_nil] at this
        omega
      · exact hcs x hx

theorem bytesOf_skipPend (sc : List Ev) : bytesOf (skipPend sc) = bytesOf sc := by
  induction sc with
  | nil => rfl
  | cons e r ih => cases e <;> simp [skipPend, bytesOf, ih]

theorem endOf_skipPend (sc : List Ev) : endOf (skipPend sc) = endOf sc := by
  induction sc with
  | nil => rfl
  | cons e r ih => cases e <;> simp [skipPend, endOf, ih]

theorem skipPend_sub (sc : List Ev) : ∀ e ∈ skipPend sc, e ∈ sc := by
  induction sc with
  | nil => intro e he; exact he
  | cons a r ih =>
    cases a with
    | pend => intro e he; exact List.mem_cons_of_mem _ (ih e he)
    | chunk b => intro e he; exact he
    | fin => intro e he; exact he
    | reset c => intro e he; exact he

theorem skipPend_head (sc r : List Ev) : skipPend sc ≠ .pend :: r := by
  induction sc with
  | nil => simp [skipPend]
  | cons a t ih => cases a <;> simp [skipPend, ih]

/-- the `k`-th completed call reports at most as many bytes as the `k`-th buffer holds -/
def Fits : List (List Nat) → List Nat → Prop
  | [], _ => True
  | _ :: _, [] => False
  | p :: ps, n :: ns => p.length ≤ n ∧ Fits ps ns

/-- the summary of one run of the read loop -/
structure ReadOK (sizes : List Nat) (s : Rd) (sc : List Ev) (r : RdRes) : Prop where
  /-- nothing is lost, duplicated or reordered, wherever the loop stops -/
  conserve : r.pieces.flatten ++ (r.s.buf.flatten ++ bytesOf r.script) = s.buf.flatten ++ bytesOf sc
  /-- every completed call before the last reports at least one byte … -/
  nonempty : ∀ p ∈ r.pieces, p ≠ []
  /-- … and never more than its buffer holds -/
  fits : Fits r.pieces sizes
  /-- the loop ends as the stream does — FIN ⇒ `Ok(0)`, RESET ⇒ the error, neither ⇒ `Pending` —
      and only once every byte delivered before that has been handed out -/
  ended : r.fin ≠ .more → r.fin = endOf sc ∧ r.pieces.flatten = s.buf.flatten ++ bytesOf sc
  /-- the caller stops early only because it ran out of buffers -/
  more : r.fin = .more → r.pieces.length = sizes.length
  bufOK : BufOK r.s.buf

theorem bufOK_flatten_ne {c : List Nat} {cs : List (List Nat)} (h : BufOK (c :: cs)) :
    (c :: cs).flatten ≠ [] := by
  intro h0
  have hc := h c (List.mem_cons_self ..)
  simp only [List.flatten_cons, List.append_eq_nil_iff] at h0
  exact hc h0.1

private theorem step_data (n : Nat) (ns : List Nat) (s s' : Rd) (sc r : List Ev) (d : List Nat)
    (t : RdRes) (hd : d ≠ []) (hdn : d.length ≤ n)
    (hbytes : d ++ (s'.buf.flatten ++ bytesOf r) = s.buf.flatten ++ bytesOf sc)
    (hend : endOf r = endOf sc)
    (ht : ReadOK ns s' r t) :
    ReadOK (n :: ns) s sc { t with pieces := d :: t.pieces } := by
  refine ⟨?_, ?_, ?_, ?_, ?_, ht.bufOK⟩
  · show (d :: t.pieces).flatten ++ _ = _
    rw [List.flatten_cons, List.append_assoc, ht.conserve, hbytes]
  · intro p hp
    rcases List.mem_cons.mp hp with rfl | hp
    · exact hd
    · exact ht.nonempty p hp
  · exact ⟨hdn, ht.fits⟩
  · intro hne
    obtain ⟨h1, h2⟩ := ht.ended hne
    refine ⟨by rw [← hend]; exact h1, ?_⟩
    show (d :: t.pieces).flatten = _
    rw [List.flatten_cons, h2, hbytes]
  · intro hm
    show (d :: t.pieces).length = (n :: ns).length
    simp only [List.length_cons]
    rw [ht.more hm]

/-- **The read loop, for every sequence of positive buffer sizes.** -/
theorem readLim_ok (sizes : List Nat) (hpos : ∀ n ∈ sizes, 0 < n) (s : Rd) (hbuf : BufOK s.buf)
    (sc : List Ev) (hsc : ScriptOK sc) : ReadOK sizes s sc (readLim sizes s sc) := by
  induction sizes generalizing s sc with
  | nil =>
    refine ⟨by simp [readLim], by simp [readLim], trivial, ?_, by simp [readLim], hbuf⟩
    intro h; exact absurd rfl h
  | cons n ns ih =>
    have hn : 0 < n := hpos n (List.mem_cons_self ..)
    have hns : ∀ m ∈ ns, 0 < m := fun m hm => hpos m (List.mem_cons_of_mem _ hm)
    cases hb : s.buf with
    | cons c cs =>
      have hbuf' : BufOK (c :: cs) := hb ▸ hbuf
      have hne : s.buf.flatten ≠ [] := by rw [hb]; exact bufOK_flatten_ne hbuf'
      obtain ⟨d, buf', htc, hd, hdn, hcat, hok⟩ :=
        takeChunk_spec n hn c cs (hbuf' c (List.mem_cons_self ..))
          (fun x hx => hbuf' x (List.mem_cons_of_mem _ hx))
      have hpr : pollRead n s sc = (.data d, { s with buf := buf' }, sc) := by
        unfold pollRead
        rw [if_pos hne]
        simp only [takeLim, hb, htc]
      have hrl : readLim (n :: ns) s sc =
          { readLim ns { s with buf := buf' } sc with
            pieces := d :: (readLim ns { s with buf := buf' } sc).pieces } := by
        rw [readLim]
        simp only [if_pos hne, hpr, if_neg hd]
      rw [hrl]
      apply step_data n ns s { s with buf := buf' } sc sc d _ hd hdn ?_ rfl (ih hns _ hok sc hsc)
      show d ++ (buf'.flatten ++ bytesOf sc) = s.buf.flatten ++ bytesOf sc
      rw [← List.append_assoc, hcat, hb]
    | nil =>
      have he : ¬ s.buf.flatten ≠ [] := by rw [hb]; simp
      have hsk : ScriptOK (skipPend sc) := fun b hb' => hsc b (skipPend_sub sc _ hb')
      cases hs1 : skipPend sc with
      | nil =>
        have hrl : readLim (n :: ns) s sc =
            { pieces := [], fin := .open_, s := s, script := [], left := n :: ns } := by
          rw [readLim]
          simp only [if_neg he, hs1, pollRead]
        rw [hrl]
        have hby : bytesOf sc = [] := by rw [← bytesOf_skipPend, hs1]; rfl
        have hen : endOf sc = .open_ := by rw [← endOf_skipPend, hs1]; rfl
        refine ⟨by simp [hby, bytesOf], by simp, trivial, ?_, by simp, hbuf⟩
        intro _
        exact ⟨hen.symm, by simp [hb, hby]⟩
      | cons e r =>
        cases e with
        | pend => exact absurd hs1 (skipPend_head sc r)
        | fin =>
          have hrl : readLim (n :: ns) s sc =
              { pieces := [], fin := .eof, s := { s with eos := true }, script := .fin :: r, left := ns } := by
            rw [readLim]
            simp only [if_neg he, hs1, pollRead]
          rw [hrl]
          have hby : bytesOf sc = [] := by rw [← bytesOf_skipPend, hs1]; rfl
          have hen : endOf sc = .eof := by rw [← endOf_skipPend, hs1]; rfl
          refine ⟨by simp [hby, hb, bytesOf], by simp, trivial, ?_, by simp, by simpa using hbuf⟩
          intro _
          exact ⟨hen.symm, by simp [hb, hby]⟩
        | reset c =>
          have hrl : readLim (n :: ns) s sc =
              { pieces := [], fin := .err c, s := s, script := .reset c :: r, left := ns } := by
            rw [readLim]
            simp only [if_neg he, hs1, pollRead]
          rw [hrl]
          have hby : bytesOf sc = [] := by rw [← bytesOf_skipPend, hs1]; rfl
          have hen : endOf sc = .err c := by rw [← endOf_skipPend, hs1]; rfl
          refine ⟨by simp [hby, hb, bytesOf], by simp, trivial, ?_, by simp, hbuf⟩
          intro _
          exact ⟨hen.symm, by simp [hb, hby]⟩
        | chunk b =>
          have hbne : b ≠ [] := hsk b (by rw [hs1]; exact List.mem_cons_self ..)
          have hr : ScriptOK r := fun x hx => hsk x (by rw [hs1]; exact List.mem_cons_of_mem _ hx)
          obtain ⟨d, buf', htc, hd, hdn, hcat, hok⟩ :=
            takeChunk_spec n hn b [] hbne (fun x hx => absurd hx (List.not_mem_nil))
          have hpr : pollRead n s (.chunk b :: r) = (.data d, { s with buf := buf' }, r) := by
            unfold pollRead
            rw [if_neg he]
            simp only [takeLim, hb, List.nil_append, htc]
          have hrl : readLim (n :: ns) s sc =
              { readLim ns { s with buf := buf' } r with
                pieces := d :: (readLim ns { s with buf := buf' } r).pieces } := by
            rw [readLim]
            simp only [if_neg he, hs1, hpr, if_neg hd]
          rw [hrl]
          have hby : bytesOf sc = b ++ bytesOf r := by rw [← bytesOf_skipPend, hs1]; rfl
          have hen : endOf sc = endOf r := by rw [← endOf_skipPend, hs1]; rfl
          apply step_data n ns s { s with buf := buf' } sc r d _ hd hdn ?_ hen.symm (ih hns _ hok r hr)
          show d ++ (buf'.flatten ++ bytesOf r) = s.buf.flatten ++ bytesOf sc
          rw [← List.append_assoc, hcat, hb, hby]
          simp

/-- a loop that stops early only for lack of buffers has handed out everything once there are
    more buffers than bytes -/
theorem length_le_flatten (ps : List (List Nat)) (h : ∀ p ∈ ps, p ≠ []) : ps.length ≤ ps.flatten.length := by
  induction ps with
  | nil => simp
  | cons p r ih =>
    have hp : 0 < p.length := List.length_pos_iff.mpr (h p (List.mem_cons_self ..))
    have := ih (fun q hq => h q (List.mem_cons_of_mem _ hq))
    simp only [List.length_cons, List.flatten_cons, List.length_append]
    omega

theorem ReadOK.prefix {sizes s sc r} (h : ReadOK sizes s sc r) :
    ∃ rest, r.pieces.flatten ++ rest = s.buf.flatten ++ bytesOf sc := ⟨_, h.conserve⟩

theorem ReadOK.complete {sizes s sc r} (h : ReadOK sizes s sc r)
    (hlen : (s.buf.flatten ++ bytesOf sc).length < sizes.length) :
    r.pieces.flatten = s.buf.flatten ++ bytesOf sc ∧ r.fin = endOf sc := by
  have hne : r.fin ≠ .more := by
    intro hm
    have h1 := h.more hm
    have h2 := length_le_flatten _ h.nonempty
    have h3 := congrArg List.length h.conserve
    simp only [List.length_append] at h3 hlen
    omega
  exact ⟨(h.ended hne).2, (h.ended hne).1⟩

/-! ### nothing behind the end of the stream -/

/-- the transport delivers nothing behind FIN / RESET -/
def EndLast : List Ev → Prop
  | [] => True
  | .fin :: r => evBytes r = []
  | .reset _ :: r => evBytes r = []
  | .chunk _ :: r => EndLast r
  | .pend :: r => EndLast r

theorem endLast_of_evBytes_nil (sc : List Ev) (h : evBytes sc = []) : EndLast sc := by
  induction sc with
  | nil => trivial
  | cons e r ih =>
    cases e with
    | chunk b =>
      simp only [evBytes, List.append_eq_nil_iff] at h
      exact ih h.2
    | pend => exact ih h
    | fin => exact h
    | reset c => exact h

theorem endLast_suffix (a b : List Ev) (h : EndLast (a ++ b)) : EndLast b := by
  induction a with
  | nil => exact h
  | cons e r ih =>
    cases e with
    | chunk c => exact ih h
    | pend => exact ih h
    | fin =>
      have h' : evBytes (r ++ b) = [] := h
      rw [evBytes_append, List.append_eq_nil_iff] at h'
      exact endLast_of_evBytes_nil b h'.2
    | reset c =>
      have h' : evBytes (r ++ b) = [] := h
      rw [evBytes_append, List.append_eq_nil_iff] at h'
      exact endLast_of_evBytes_nil b h'.2

theorem bytesOf_eq_evBytes (sc : List Ev) (h : EndLast sc) : bytesOf sc = evBytes sc := by
  induction sc with
  | nil => rfl
  | cons e r ih =>
    cases e with
    | chunk c => simp only [bytesOf, evBytes]; rw [ih h]
    | pend => simp only [bytesOf, evBytes]; exact ih h
    | fin => simp only [bytesOf, evBytes]; exact h.symm
    | reset c => simp only [bytesOf, evBytes]; exact h.symm

/-! ## Writing -/

open H3.WriteBuf H3.Varint

/-- the transport is willing to take at least `n` bytes, one or more at a time -/
def Accepts (script : List Nat) (n : Nat) : Prop := n ≤ (script.filter (0 < ·)).length

theorem sendSlice_spec (d : List Nat) (sc : List Nat) :
    (sendSlice d sc).1 ++ (sendSlice d sc).2 = d := by
  induction sc generalizing d with
  | nil => simp [sendSlice]
  | cons k ks ih =>
    unfold sendSlice
    by_cases hd : d = []
    · simp [hd]
    · rw [if_neg hd]
      simp only [List.append_assoc]
      rw [ih, List.take_append_drop]

theorem sendSlice_complete (d : List Nat) (sc : List Nat) (h : Accepts sc d.length) :
    (sendSlice d sc).2 = [] := by
  induction sc generalizing d with
  | nil =>
    have : d.length = 0 := by simpa [Accepts] using h
    simp [sendSlice, List.eq_nil_of_length_eq_zero this]
  | cons k ks ih =>
    unfold sendSlice
    by_cases hd : d = []
    · simp [hd]
    · rw [if_neg hd]
      apply ih
      have hpos : 0 < d.length := List.length_pos_iff.mpr hd
      unfold Accepts at h ⊢
      simp only [List.length_drop]
      by_cases hk : 0 < k
      · simp only [List.filter_cons, hk, decide_true, if_true, List.length_cons] at h
        omega
      · simp only [List.filter_cons, hk, decide_false] at h
        simp at h
        omega

/-- the bytes of an HTTP/3 DATA frame (RFC 9114 §7.2.1: type 0x00, length, payload) -/
def dataFrame (p : List Nat) : List Nat := [0x00] ++ Varint.encode p.length ++ p

/-- the bytes handed to the write calls, in order -/
def handed : List WOp → List Nat
  | [] => []
  | .slice d _ :: r => d ++ handed r
  | .frame p _ :: r => dataFrame p ++ handed r
  | .finish :: r => handed r
  | .reset _ :: r => handed r

/-- every write call is given enough acceptance by the transport to complete -/
def Enough : List WOp → Prop
  | [] => True
  | .slice d sc :: r => Accepts sc d.length ∧ Enough r
  | .frame p sc :: r => Accepts sc (dataFrame p).length ∧ Enough r
  | .finish :: r => Enough r
  | .reset _ :: r => Enough r

def FramesOK (ops : List WOp) : Prop := ∀ p sc, WOp.frame p sc ∈ ops → p.length < 2^62

theorem fromFrame_data_some (p : List Nat) (hp : p.length < 2^62) :
    ∃ w, fromFrame (.data p) = some w ∧ w.WF ∧ w.view = dataFrame p := by
  have he : encodeFrame (.data p) = some (encode 0 ++ encode p.length) := by
    simp only [encodeFrame, H3.Gen.Consts.FRAME_DATA]
    rw [writeVar_eq 0 (by decide), writeVar_eq _ hp]
    rfl
  have hl : (encode 0 ++ encode p.length).length ≤ H3.Gen.WriteBuf.WRITE_BUF_ENCODE_SIZE := by
    have := encode_length_le p.length hp
    have h0 : (encode 0).length = 1 := by decide
    simp only [List.length_append, h0, H3.Gen.WriteBuf.WRITE_BUF_ENCODE_SIZE]
    omega
  obtain ⟨w, hw⟩ := putOpt_new_some (framePayload (.data p)) _ hl
  have hw' : fromFrame (.data p) = some w := by unfold fromFrame; rw [he]; exact hw
  obtain ⟨bs, hbs, _, hwf, _, _, _, hv⟩ := putOpt_new hw
  cases hbs
  refine ⟨w, hw', hwf, ?_⟩
  rw [hv]
  have h0 : encode 0 = [0] := by decide
  simp [framePayload, dataFrame, h0]

theorem fromBidiHeader_some (sid : Nat) (hsid : sid < 2^62) :
    ∃ w, fromBidiHeader sid = some w ∧ w.WF ∧ w.view = bidiHeader sid := by
  have he : (do
      let t ← writeVar H3.Gen.Consts.STREAM_WEBTRANSPORT_BIDI
      let s ← writeVar sid
      pure (t ++ s)) = some (bidiHeader sid) := by
    rw [writeVar_eq _ (by decide), writeVar_eq _ hsid]
    rfl
  have hl : (bidiHeader sid).length ≤ H3.Gen.WriteBuf.WRITE_BUF_ENCODE_SIZE := by
    have := encode_length_le sid hsid
    have h0 : (encode H3.Gen.Consts.FRAME_WEBTRANSPORT_BI_STREAM).length = 2 := by decide
    simp only [bidiHeader, List.length_append, h0, H3.Gen.WriteBuf.WRITE_BUF_ENCODE_SIZE]
    omega
  obtain ⟨w, hw⟩ := putOpt_new_some none _ hl
  have hw' : fromBidiHeader sid = some w := by unfold fromBidiHeader; rw [he]; exact hw
  obtain ⟨bs, hbs, _, hwf, _, _, _, hv⟩ := putOpt_new hw
  cases hbs
  exact ⟨w, hw', hwf, by rw [hv]; simp⟩

theorem fromUniHeader_some (sid : Nat) (hsid : sid < 2^62) :
    ∃ w, fromUniHeader (.webTransportUni sid) = some w ∧ w.WF ∧ w.view = uniHeader sid := by
  have he : encodeUniHeader (.webTransportUni sid) = some (uniHeader sid) := by
    simp only [encodeUniHeader]
    rw [writeVar_eq _ (by decide), writeVar_eq _ hsid]
    rfl
  have hl : (uniHeader sid).length ≤ H3.Gen.WriteBuf.WRITE_BUF_ENCODE_SIZE := by
    have := encode_length_le sid hsid
    have h0 : (encode H3.Gen.Consts.STREAM_WEBTRANSPORT_UNI).length = 2 := by decide
    simp only [uniHeader, List.length_append, h0, H3.Gen.WriteBuf.WRITE_BUF_ENCODE_SIZE]
    omega
  obtain ⟨w, hw⟩ := putOpt_new_some none _ hl
  have hw' : fromUniHeader (.webTransportUni sid) = some w := by unfold fromUniHeader; rw [he]; exact hw
  obtain ⟨bs, hbs, _, hwf, _, _, _, hv⟩ := putOpt_new hw
  cases hbs
  exact ⟨w, hw', hwf, by rw [hv]; simp⟩

/-- what is known about the send side after some calls: `pre` is what has been handed over so far -/
structure TxOK (t : Tx) (pre : List Nat) : Prop where
  noPanic : t.panic = false
  /-- the wire is a prefix of what was handed over … -/
  pfx : ∃ rest, t.wire ++ rest = pre ∧ (t.stuck = false → rest = [])

/-- handing a well-formed `WriteBuf` with content `v` to the transport -/
theorem writeBuf_ok (t : Tx) (pre : List Nat) (h : TxOK t pre) (w : WB) (hwf : w.WF) (script : List Nat) :
    TxOK (t.writeBuf (some w) script) (pre ++ w.view) ∧
    (t.stuck = false → Accepts script w.view.length → (t.writeBuf (some w) script).stuck = false) ∧
    (t.writeBuf (some w) script).fin = t.fin ∧ (t.stuck = true → (t.writeBuf (some w) script).stuck = true) := by
  obtain ⟨rest, hr, hre⟩ := h.pfx
  unfold Tx.writeBuf
  by_cases hs : t.stuck = true
  · rw [if_pos hs]
    refine ⟨⟨h.noPanic, rest ++ w.view, by rw [← List.append_assoc, hr], fun h0 => ?_⟩, fun h0 => ?_, rfl, fun _ => hs⟩
    · rw [hs] at h0; cases h0
    · rw [hs] at h0; cases h0
  · have hs' : t.stuck = false := by cases hst : t.stuck <;> simp_all
    rw [if_neg hs]
    have hrest : rest = [] := hre hs'
    subst hrest
    rw [List.append_nil] at hr
    obtain ⟨o, w', hd, hwf', hov⟩ := drain_spec w hwf script
    unfold H3.WriteBuf.write
    simp only [hd]
    by_cases hrem : w'.remaining = 0
    · rw [if_pos hrem]
      have hv : w'.view = [] := by
        apply List.eq_nil_of_length_eq_zero
        rw [← remaining_eq_view w' hwf']; exact hrem
      rw [hv, List.append_nil] at hov
      refine ⟨⟨h.noPanic, [], ?_, fun _ => rfl⟩, fun _ _ => hs', rfl, fun h0 => absurd h0 hs⟩
      simp only [List.append_nil]
      rw [hr, hov]
    · rw [if_neg hrem]
      refine ⟨⟨h.noPanic, w'.view, ?_, fun h0 => by cases h0⟩, fun _ hacc => ?_, rfl, fun _ => rfl⟩
      · show t.wire ++ o ++ w'.view = pre ++ w.view
        rw [List.append_assoc, hov, hr]
      · exfalso
        obtain ⟨o2, w2, hd2, hv2, _⟩ := drain_complete w hwf script hacc
        rw [hd] at hd2
        cases hd2
        apply hrem
        rw [remaining_eq_view w' hwf', hv2]; rfl

theorem op_ok (t : Tx) (pre : List Nat) (h : TxOK t pre) (op : WOp)
    (hf : ∀ p sc, op = .frame p sc → p.length < 2^62) :
    TxOK (t.op op) (pre ++ handed [op]) ∧
    (t.stuck = false → Enough [op] → (t.op op).stuck = false) ∧
    (t.stuck = true → (t.op op).stuck = true ∧ (t.op op).fin = t.fin) ∧
    (t.stuck = false → ((t.op op).fin = true ↔ (t.fin = true ∨ op = .finish))) := by
  obtain ⟨rest, hr, hre⟩ := h.pfx
  cases op with
  | slice d sc =>
    simp only [Tx.op, handed, List.append_nil]
    by_cases hs : t.stuck = true
    · rw [if_pos hs]
      refine ⟨⟨h.noPanic, rest ++ d, by rw [← List.append_assoc, hr], fun h0 => ?_⟩, fun h0 => ?_,
        fun _ => ⟨hs, rfl⟩, fun h0 => ?_⟩ <;> (rw [hs] at h0; cases h0)
    · have hs' : t.stuck = false := by cases hst : t.stuck <;> simp_all
      rw [if_neg hs]
      have hrest : rest = [] := hre hs'
      subst hrest
      rw [List.append_nil] at hr
      refine ⟨⟨h.noPanic, (sendSlice d sc).2, ?_, fun h0 => ?_⟩, fun _ he => ?_, fun h0 => absurd h0 hs,
        fun _ => by simp⟩
      · show t.wire ++ (sendSlice d sc).1 ++ (sendSlice d sc).2 = pre ++ d
        rw [List.append_assoc, sendSlice_spec, hr]
      · have h1 : (!(sendSlice d sc).2.isEmpty) = false := h0
        simpa using h1
      · show (!(sendSlice d sc).2.isEmpty) = false
        rw [sendSlice_complete d sc he.1]; rfl
  | frame p sc =>
    obtain ⟨w, hw, hwf, hv⟩ := fromFrame_data_some p (hf p sc rfl)
    obtain ⟨h1, h2, h3, h4⟩ := writeBuf_ok t pre h w hwf sc
    simp only [Tx.op, handed, List.append_nil, hw]
    rw [hv] at h1 h2
    refine ⟨h1, fun hs he => h2 hs he.1, fun hs => ⟨h4 hs, h3⟩, fun _ => ?_⟩
    rw [h3]; simp
  | finish =>
    simp only [Tx.op, handed, List.append_nil]
    by_cases hs : t.stuck = true
    · rw [if_pos hs]
      refine ⟨h, fun h0 => ?_, fun _ => ⟨hs, rfl⟩, fun h0 => ?_⟩ <;> (rw [hs] at h0; cases h0)
    · rw [if_neg hs]
      have hs' : t.stuck = false := by cases hst : t.stuck <;> simp_all
      exact ⟨⟨h.noPanic, rest, hr, hre⟩, fun _ _ => hs', fun h0 => absurd h0 hs, fun _ => by simp⟩
  | reset c =>
    simp only [Tx.op, handed, List.append_nil]
    by_cases hs : t.stuck = true
    · rw [if_pos hs]
      refine ⟨h, fun h0 => ?_, fun _ => ⟨hs, rfl⟩, fun h0 => ?_⟩ <;> (rw [hs] at h0; cases h0)
    · rw [if_neg hs]
      have hs' : t.stuck = false := by cases hst : t.stuck <;> simp_all
      exact ⟨⟨h.noPanic, rest, hr, hre⟩, fun _ _ => hs', fun h0 => absurd h0 hs, fun _ => by simp⟩

theorem handed_cons (op : WOp) (r : List WOp) : handed (op :: r) = handed [op] ++ handed r := by
  cases op <;> simp [handed]

theorem enough_cons (op : WOp) (r : List WOp) : Enough (op :: r) ↔ Enough [op] ∧ Enough r := by
  cases op <;> simp [Enough]

/-- the calls of an application, one after the other -/
theorem ops_ok (ops : List WOp) (hf : FramesOK ops) (t : Tx) (pre : List Nat) (h : TxOK t pre) :
    TxOK (ops.foldl Tx.op t) (pre ++ handed ops) ∧
    (t.stuck = false → Enough ops → (ops.foldl Tx.op t).stuck = false) ∧
    (t.stuck = true → (ops.foldl Tx.op t).stuck = true ∧ (ops.foldl Tx.op t).fin = t.fin) ∧
    ((ops.foldl Tx.op t).stuck = false →
      ((ops.foldl Tx.op t).fin = true ↔ (t.fin = true ∨ WOp.finish ∈ ops))) := by
  induction ops generalizing t pre with
  | nil =>
    simp only [List.foldl_nil, handed, List.append_nil]
    exact ⟨h, fun hs _ => hs, fun hs => ⟨hs, trivial⟩, fun _ => by simp⟩
  | cons op r ih =>
    have hf1 : ∀ p sc, op = .frame p sc → p.length < 2^62 :=
      fun p sc e => hf p sc (e ▸ List.mem_cons_self ..)
    have hfr : FramesOK r := fun p sc hm => hf p sc (List.mem_cons_of_mem _ hm)
    obtain ⟨a1, a2, a3, a4⟩ := op_ok t pre h op hf1
    obtain ⟨b1, b2, b3, b4⟩ := ih hfr (t.op op) (pre ++ handed [op]) a1
    simp only [List.foldl_cons]
    rw [handed_cons, ← List.append_assoc]
    refine ⟨b1, fun hs he => ?_, fun hs => ?_, fun hns => ?_⟩
    · rw [enough_cons] at he
      exact b2 (a2 hs he.1) he.2
    · obtain ⟨c1, c2⟩ := a3 hs
      obtain ⟨d1, d2⟩ := b3 c1
      exact ⟨d1, by rw [d2, c2]⟩
    · have hst : t.stuck = false := by
        cases hx : t.stuck with
        | false => rfl
        | true =>
          have := (b3 (a3 hx).1).1
          rw [hns] at this; cases this
      rw [b4 hns, a4 hst]
      simp only [List.mem_cons]
      constructor
      · rintro ((h1 | h1) | h1)
        · exact Or.inl h1
        · exact Or.inr (Or.inl h1.symm)
        · exact Or.inr (Or.inr h1)
      · rintro (h1 | h1 | h1)
        · exact Or.inl (Or.inl h1)
        · exact Or.inl (Or.inr h1.symm)
        · exact Or.inr h1

/-- `open_bi` / `open_uni`: a stream header `hdr` in a well-formed `WriteBuf`, then the calls -/
theorem opened_ok (w : WB) (hwf : w.WF) (hs : List Nat) (ops : List WOp) (hf : FramesOK ops) :
    let t := ops.foldl Tx.op (({} : Tx).writeBuf (some w) hs)
    t.panic = false ∧ (∃ rest, t.wire ++ rest = w.view ++ handed ops) ∧
    (t.stuck = false → t.wire = w.view ++ handed ops ∧ (t.fin = true ↔ WOp.finish ∈ ops)) ∧
    (Accepts hs w.view.length → Enough ops → t.stuck = false) := by
  intro t
  have h0 : TxOK ({} : Tx) [] := ⟨rfl, [], rfl, fun _ => rfl⟩
  obtain ⟨a1, a2, a3, _⟩ := writeBuf_ok {} [] h0 w hwf hs
  rw [List.nil_append] at a1
  obtain ⟨b1, b2, _, b4⟩ := ops_ok ops hf _ _ a1
  obtain ⟨rest, hr, hre⟩ := b1.pfx
  refine ⟨b1.noPanic, ⟨rest, hr⟩, fun hst => ⟨?_, ?_⟩, fun ha he => b2 (a2 rfl ha) he⟩
  · have := hre hst
    subst this
    simpa using hr
  · rw [b4 hst, a3]
    simp

end H3.Session

/-! ## `resolve` hands back a suffix of the script -/
namespace H3.UniAccept

theorem pollVarint_suffix (s : St) (sc : List Ev) : ∃ pre, sc = pre ++ (pollVarint s sc).2.2 := by
  induction sc generalizing s with
  | nil =>
    unfold pollVarint
    split
    · exact ⟨[], rfl⟩
    · split <;> exact ⟨[], rfl⟩
  | cons e r ih =>
    unfold pollVarint
    split
    · exact ⟨[], rfl⟩
    · rename_i s1 _
      split
      · exact ⟨[], rfl⟩
      · cases e with
        | pend => exact ⟨[.pend], rfl⟩
        | chunk b =>
          obtain ⟨pre, hp⟩ := ih { s1 with buf := s1.buf ++ b }
          exact ⟨.chunk b :: pre, by rw [List.cons_append]; exact congrArg _ hp⟩
        | fin =>
          obtain ⟨pre, hp⟩ := ih { s1 with ended := some .fin }
          exact ⟨.fin :: pre, by rw [List.cons_append]; exact congrArg _ hp⟩
        | reset c =>
          obtain ⟨pre, hp⟩ := ih { s1 with ended := some (.reset c) }
          exact ⟨.reset c :: pre, by rw [List.cons_append]; exact congrArg _ hp⟩

theorem pollId_suffix (s : St) (sc : List Ev) : ∃ pre, sc = pre ++ (pollId s sc).2.2 := by
  unfold pollId
  split
  · obtain ⟨pre, hp⟩ := pollVarint_suffix s sc
    split <;> rename_i h <;> rw [h] at hp <;> exact ⟨pre, hp⟩
  · exact ⟨[], rfl⟩

theorem pollType_suffix (s : St) (sc : List Ev) : ∃ pre, sc = pre ++ (pollType s sc).2.2 := by
  unfold pollType
  split
  · exact pollId_suffix s sc
  · obtain ⟨pre, hp⟩ := pollVarint_suffix s sc
    split <;> rename_i h <;> rw [h] at hp
    · rename_i v s1 r
      obtain ⟨pre2, hp2⟩ := pollId_suffix { s1 with ty := some v } r
      exact ⟨pre ++ pre2, by rw [List.append_assoc, ← hp2]; exact hp⟩
    · exact ⟨pre, hp⟩
    · exact ⟨pre, hp⟩
    · exact ⟨pre, hp⟩

theorem resolve_suffix (fuel : Nat) (s : St) (sc : List Ev) (s' : St) (r : List Ev)
    (h : resolve fuel s sc = .resolved s' r) : ∃ pre, sc = pre ++ r := by
  induction fuel generalizing s sc with
  | zero => simp [resolve] at h
  | succ n ih =>
    unfold resolve at h
    obtain ⟨pre, hp⟩ := pollType_suffix s sc
    split at h
    · rename_i s1 r1 heq
      rw [heq] at hp
      cases h
      exact ⟨pre, hp⟩
    · cases h
    · cases h
    · rename_i s1 r1 heq
      rw [heq] at hp
      split at h
      · cases h
      · obtain ⟨pre2, hp2⟩ := ih s1 r1 h
        exact ⟨pre ++ pre2, by rw [List.append_assoc, ← hp2]; exact hp⟩

end H3.UniAccept
