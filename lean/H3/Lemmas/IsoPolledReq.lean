import H3.Lemmas.IsoPolledFS
/-! C07, a healthy stream whose polls are interleaved with its deliveries — the request layer.

    One poll of `resolve_request`/`recv_response`, `recv_data`, the `recv_data` loop and
    `recv_trailers` over the `FrameStream` model, from a configuration of a healthy stream
    (`HeadSt`, `BodySt`, `EndSt`: the C02 invariant relative to what has been delivered, plus what the
    frame layer has handed out so far): the answer is a value or `Pending` — `Pending` only while
    FIN is outstanding —, never an error; the invariant of the next phase holds; the body bytes
    answered are exactly the byte tokens the frame layer handed out (`bodyOf`).

    The polls of `H3.ReqRecv` are used through the equation lemmas of the first section only. -/
namespace H3.Iso
open H3.ReqRecv H3.Frame

abbrev RSt := St FSt

/-! ### the polls of the request layer, one answer of the frame layer at a time -/
section Eqs
variable {σ : Type} (S : Src σ)

theorem pollHead_headers_ok (role : Role) (H : ReqRecv.Hdr) (st : St σ) (enc : ReqRecv.Bytes) (s' : σ)
    (hn : S.pollNext st.src = (.frame (.headers enc), s')) (hok : H.head enc = .ok) :
    pollHead role S H st = (.head enc, { st with src := s' }) := by
  cases role <;> simp [pollHead, pollResolve, pollRecvResponse, hn, hok]

theorem pollHead_pending (role : Role) (H : ReqRecv.Hdr) (st : St σ) (s' : σ)
    (hn : S.pollNext st.src = (.pending, s')) :
    pollHead role S H st = (.pending, { st with src := s' }) := by
  cases role <;> simp [pollHead, pollResolve, pollRecvResponse, hn]

theorem pollRecvData_data (f : Nat) (st : St σ) (d : ReqRecv.Bytes) (s' : σ) (hd : S.hasData st.src = true)
    (hp : S.pollData st.src = (.data d, s')) :
    pollRecvData S (f + 1) st = (.data d, { st with src := s' }) := by
  rw [pollRecvData]; simp [hd, hp, dataOut]

theorem pollRecvData_data_pending (f : Nat) (st : St σ) (s' : σ) (hd : S.hasData st.src = true)
    (hp : S.pollData st.src = (.pending, s')) :
    pollRecvData S (f + 1) st = (.pending, { st with src := s' }) := by
  rw [pollRecvData]; simp [hd, hp, dataOut]

theorem pollRecvData_next_data (f : Nat) (st : St σ) (n : Nat) (s' : σ) (hd : S.hasData st.src = false)
    (hn : S.pollNext st.src = (.frame (.data n), s')) :
    pollRecvData S (f + 1) st = pollRecvData S f { st with src := s' } := by
  rw [pollRecvData]; simp [hd, hn]

theorem pollRecvData_next_headers (f : Nat) (st : St σ) (enc : ReqRecv.Bytes) (s' : σ)
    (hd : S.hasData st.src = false) (hn : S.pollNext st.src = (.frame (.headers enc), s')) :
    pollRecvData S (f + 1) st = (.end_, { st with src := s', trailers := some enc }) := by
  rw [pollRecvData]; simp [hd, hn]

theorem pollRecvData_next_none (f : Nat) (st : St σ) (s' : σ) (hd : S.hasData st.src = false)
    (hn : S.pollNext st.src = (.none, s')) :
    pollRecvData S (f + 1) st = (.end_, { st with src := s' }) := by
  rw [pollRecvData]; simp [hd, hn]

theorem pollRecvData_next_pending (f : Nat) (st : St σ) (s' : σ) (hd : S.hasData st.src = false)
    (hn : S.pollNext st.src = (.pending, s')) :
    pollRecvData S (f + 1) st = (.pending, { st with src := s' }) := by
  rw [pollRecvData]; simp [hd, hn]

theorem drain_succ (f : Nat) (st : St σ) :
    drain S (f + 1) st =
      match pollRecvData S (f + 1) st with
      | (.data d, st') => (.data d :: (drain S f st').1, (drain S f st').2)
      | (r, st') => ([r], st') := by
  rw [drain]
  generalize pollRecvData S (f + 1) st = p
  obtain ⟨r, st'⟩ := p
  cases r <;> rfl

theorem pollRecvTrailers_some_eos (H : ReqRecv.Hdr) (st : St σ) (enc : ReqRecv.Bytes)
    (ht : st.trailers = some enc) (he : S.isEos st.src = true) (hok : H.trailer enc = .ok) :
    pollRecvTrailers S H st = (.trailers enc, { st with trailers := none }) := by
  simp [pollRecvTrailers, ht, trailersTail, he, decodeTrailers, hok]

theorem pollRecvTrailers_some_none (H : ReqRecv.Hdr) (st : St σ) (enc : ReqRecv.Bytes) (s' : σ)
    (ht : st.trailers = some enc) (he : S.isEos st.src = false) (hn : S.pollNext st.src = (.none, s'))
    (hok : H.trailer enc = .ok) :
    pollRecvTrailers S H st = (.trailers enc, { st with src := s', trailers := none }) := by
  simp [pollRecvTrailers, ht, trailersTail, he, trailersCheck, hn, decodeTrailers, hok]

theorem pollRecvTrailers_some_pending (H : ReqRecv.Hdr) (st : St σ) (enc : ReqRecv.Bytes) (s' : σ)
    (ht : st.trailers = some enc) (he : S.isEos st.src = false) (hn : S.pollNext st.src = (.pending, s')) :
    pollRecvTrailers S H st = (.pending, { st with src := s', trailers := some enc }) := by
  simp [pollRecvTrailers, ht, trailersTail, he, trailersCheck, hn]

theorem pollRecvTrailers_none_none (H : ReqRecv.Hdr) (st : St σ) (s' : σ)
    (ht : st.trailers = none) (hn : S.pollNext st.src = (.none, s')) :
    pollRecvTrailers S H st = (.noTrailers, { st with src := s' }) := by
  simp [pollRecvTrailers, ht, trailersFirst, hn]

end Eqs

theorem fs_hasData_iff (s : FS.St) (sc : List FS.Ev) : fsSrc.hasData (s, sc) = (s.remaining != 0) := rfl
theorem fs_isEos_eq (s : FS.St) (sc : List FS.Ev) : fsSrc.isEos (s, sc) = (s.eos && s.flat.isEmpty) := rfl

/-! ### the tokens of a valid message -/

/-- between the head and the trailers the frame layer hands out DATA frame headers and payload bytes -/
def Bodyish (X : List RefTok) : Prop :=
  ∀ tok ∈ X, (∃ n, tok = FS.Tok.frame (Frame.data n)) ∨ ∃ b, tok = FS.Tok.byte b

/-- the payload bytes among the tokens -/
def bodyOf : List RefTok → ReqRecv.Bytes
  | [] => []
  | .byte b :: r => b :: bodyOf r
  | _ :: r => bodyOf r

theorem bodyOf_append (x y : List RefTok) : bodyOf (x ++ y) = bodyOf x ++ bodyOf y := by
  induction x with
  | nil => rfl
  | cons t r ih => cases t <;> simp [bodyOf, ih]

theorem bodyOf_bytes (d : ReqRecv.Bytes) : bodyOf (d.map FS.Tok.byte) = d := by
  induction d with
  | nil => rfl
  | cons b d ih => simp [bodyOf, ih]

theorem bodyOf_bodyToks (ds : List ReqRecv.Bytes) : bodyOf (bodyToks ds) = ds.flatten := by
  induction ds with
  | nil => rfl
  | cons p ds ih =>
    rw [bodyToks_cons]
    simp [bodyOf, bodyOf_append, bodyOf_bytes, ih]

theorem bodyOf_trToks (tr : Option ReqRecv.Bytes) : bodyOf (trToks tr) = [] := by
  cases tr <;> rfl

theorem bodyOf_msgToks (h : ReqRecv.Bytes) (ds : List ReqRecv.Bytes) (tr : Option ReqRecv.Bytes) :
    bodyOf (msgToks h ds tr) = ds.flatten := by
  rw [msgToks_eq]
  simp [bodyOf, bodyOf_append, bodyOf_bodyToks, bodyOf_trToks]

theorem bodyish_bodyToks (ds : List ReqRecv.Bytes) : Bodyish (bodyToks ds) := by
  intro tok htok
  simp only [bodyToks, List.mem_flatMap, List.mem_cons, List.mem_map] at htok
  obtain ⟨p, _, hp | ⟨x, _, hx⟩⟩ := htok
  · exact Or.inl ⟨_, hp⟩
  · exact Or.inr ⟨x, hx.symm⟩

theorem bodyish_append {X Y : List RefTok} (hX : Bodyish X) (hY : Bodyish Y) : Bodyish (X ++ Y) := by
  intro tok htok
  rcases List.mem_append.mp htok with h | h
  · exact hX tok h
  · exact hY tok h

theorem bodyish_bytes (d : ReqRecv.Bytes) : Bodyish (d.map FS.Tok.byte) := by
  intro tok htok
  obtain ⟨b, _, rfl⟩ := List.mem_map.mp htok
  exact Or.inr ⟨b, rfl⟩

theorem bodyish_data (n : Nat) : Bodyish [FS.Tok.frame (Frame.data n)] := by
  intro tok htok
  simp only [List.mem_singleton] at htok
  exact Or.inl ⟨n, htok⟩

theorem headers_not_bodyish {X : List RefTok} (hX : Bodyish X) (t : ReqRecv.Bytes) :
    FS.Tok.frame (Frame.headers t) ∉ X := by
  intro hm
  rcases hX _ hm with ⟨n, hn⟩ | ⟨b, hb⟩
  · cases hn
  · cases hb

/-- the first token is the head -/
theorem first_frame_is_head {h : ReqRecv.Bytes} {ds : List ReqRecv.Bytes} {tr : Option ReqRecv.Bytes} {f : Frame}
    (hp : [FS.Tok.frame f] <+: msgToks h ds tr) : f = .headers h := by
  obtain ⟨more, hm⟩ := hp
  rw [msgToks_eq] at hm
  simp only [List.cons_append, List.nil_append, List.cons.injEq, FS.Tok.frame.injEq] at hm
  exact hm.1

/-- behind the head: a frame token is a DATA frame header, or it is the trailers and the last token -/
theorem next_frame_in_body {h : ReqRecv.Bytes} {ds : List ReqRecv.Bytes} {tr : Option ReqRecv.Bytes} {X : List RefTok}
    {f : Frame} (hp : (FS.Tok.frame (Frame.headers h) :: X) ++ [FS.Tok.frame f] <+: msgToks h ds tr) :
    (∃ n, f = .data n) ∨
    (∃ t, f = .headers t ∧ tr = some t ∧ (FS.Tok.frame (Frame.headers h) :: X) ++ [FS.Tok.frame f] = msgToks h ds tr) := by
  obtain ⟨more, hm⟩ := hp
  rw [msgToks_eq] at hm ⊢
  simp only [List.cons_append, List.cons.injEq, true_and] at hm
  have hdata : FS.Tok.frame f ∈ bodyToks ds → ∃ n, f = .data n := by
    intro hmem
    rcases bodyish_bodyToks ds _ hmem with ⟨n, hn⟩ | ⟨b, hb⟩
    · exact ⟨n, by simpa using hn⟩
    · cases hb
  rcases List.append_eq_append_iff.mp hm with ⟨a', h1, _⟩ | ⟨c', h1, h2⟩
  · exact Or.inl (hdata (by rw [h1]; simp))
  · cases c' with
    | nil =>
      rw [List.append_nil] at h1
      exact Or.inl (hdata (by rw [← h1]; simp))
    | cons c r =>
      cases tr with
      | none => simp [trToks] at h2
      | some t =>
        simp only [trToks, List.cons_append, List.cons.injEq] at h2
        obtain ⟨rfl, h3⟩ := h2
        have hr : r = [] := (List.append_eq_nil_iff.mp h3.symm).1
        subst hr
        obtain ⟨hX, hf⟩ := List.append_inj' h1 rfl
        simp only [List.cons.injEq, FS.Tok.frame.injEq, and_true] at hf
        refine Or.inr ⟨t, hf, rfl, ?_⟩
        simp only [List.cons_append, trToks]
        rw [hX, hf]

/-- every token handed out and the stream at its end in the body: there are no trailers -/
theorem no_trailers_of_bodyish {h : ReqRecv.Bytes} {ds : List ReqRecv.Bytes} {tr : Option ReqRecv.Bytes} {X : List RefTok}
    (hX : Bodyish X) (he : FS.Tok.frame (Frame.headers h) :: X = msgToks h ds tr) : tr = none := by
  cases tr with
  | none => rfl
  | some t =>
    exfalso
    rw [msgToks_eq] at he
    simp only [List.cons.injEq, true_and] at he
    exact headers_not_bodyish hX t (by rw [he]; simp [trToks])

theorem not_prefix_longer {α : Type} (T : List α) (x : α) : ¬ (T ++ [x] <+: T) := by
  intro hp
  have := hp.length_le
  simp only [List.length_append, List.length_singleton] at this
  omega

/-! ### the states of a healthy stream's receive half -/

section Healthy
variable {w : FS.Bytes} {h : ReqRecv.Bytes} {ds : List ReqRecv.Bytes} {tr : Option ReqRecv.Bytes}

/-- before the head: nothing handed out -/
def HeadSt (w : FS.Bytes) (D : List FS.Ev) (st : RSt) : Prop :=
  HInv w D [] st.src ∧ st.trailers = none ∧ st.src.1.remaining = 0

/-- reading the body: the head and then only DATA headers and payload bytes have been handed out -/
structure BodySt (w : FS.Bytes) (h : ReqRecv.Bytes) (D : List FS.Ev) (out : List RefTok) (st : RSt) : Prop where
  inv : HInv w D out st.src
  tr : st.trailers = none
  shape : ∃ X, out = FS.Tok.frame (Frame.headers h) :: X ∧ Bodyish X

/-- the end of the body has been reported: every token of the message has been handed out; either
    the trailers' block is remembered, or there are none and the stream is at its end -/
def EndSt (w : FS.Bytes) (h : ReqRecv.Bytes) (ds : List ReqRecv.Bytes) (tr : Option ReqRecv.Bytes) (D : List FS.Ev)
    (st : RSt) : Prop :=
  HInv w D (msgToks h ds tr) st.src ∧ st.src.1.remaining = 0 ∧
    ((∃ t, tr = some t ∧ st.trailers = some t) ∨
     (tr = none ∧ st.trailers = none ∧ st.src.1.eos = true ∧ st.src.1.flat = []))

/-- `resolve_request` / `recv_response`, one poll -/
theorem healthy_head (hw : Wire w (msgToks h ds tr)) (role : Role) (H : ReqRecv.Hdr) (hH : H.head h = .ok)
    (D : List FS.Ev) (st : RSt) (hst : HeadSt w D st) :
    ∃ r st', pollHead role fsSrc H st = (r, st') ∧ st'.env = st.env ∧
      ((r = .head h ∧ BodySt w h D [FS.Tok.frame (Frame.headers h)] st') ∨
       (r = .pending ∧ HeadSt w D st' ∧ FS.Ev.fin ∉ D)) := by
  obtain ⟨⟨s, sc⟩, trl, env⟩ := st
  obtain ⟨hI, htr, h0⟩ := hst
  simp only at hI htr h0
  obtain ⟨o, s', sc', hres, hcase⟩ := healthy_next hw hI h0
  have hn := fs_pollNext s sc o s' sc' hres
  rcases hcase with ⟨f, rfl, hI', hrem⟩ | ⟨rfl, hI', hrem, hfin⟩ | ⟨rfl, hI', _, hT, _⟩
  · have hf := first_frame_is_head (hinv_prefix hw hI')
    subst hf
    refine ⟨_, _, pollHead_headers_ok fsSrc role H _ h (s', sc') hn hH, rfl, Or.inl ⟨rfl, hI', htr, [], rfl, ?_⟩⟩
    intro tok htok; cases htok
  · exact ⟨_, _, pollHead_pending fsSrc role H _ (s', sc') hn, rfl, Or.inr ⟨rfl, ⟨hI', htr, hrem⟩, hfin⟩⟩
  · rw [msgToks_eq] at hT
    cases hT

/-- `recv_data`, one poll -/
theorem healthy_recvData (hw : Wire w (msgToks h ds tr)) : ∀ (fuel : Nat) (st : RSt) (D : List FS.Ev)
    (out : List RefTok), BodySt w h D out st → (msgToks h ds tr).length - out.length < fuel →
    ∃ r st' out', pollRecvData fsSrc fuel st = (r, st') ∧ st'.env = st.env ∧
      ((∃ d, r = .data d ∧ BodySt w h D out' st' ∧ bodyOf out' = bodyOf out ++ d ∧ out.length < out'.length) ∨
       (r = .pending ∧ BodySt w h D out' st' ∧ bodyOf out' = bodyOf out ∧ out.length ≤ out'.length ∧
          FS.Ev.fin ∉ D) ∨
       (r = .end_ ∧ EndSt w h ds tr D st' ∧ bodyOf out = ds.flatten)) := by
  intro fuel
  induction fuel with
  | zero => intro st D out _ hlt; omega
  | succ f ih =>
    intro st D out hst hlt
    obtain ⟨⟨s, sc⟩, trl, env⟩ := st
    obtain ⟨hI, htr, X, hX, hXb⟩ := hst
    simp only at hI htr
    by_cases h0 : s.remaining = 0
    · have hd : fsSrc.hasData (s, sc) = false := by rw [fs_hasData_iff]; simp [h0]
      obtain ⟨o, s', sc', hres, hcase⟩ := healthy_next hw hI h0
      have hn := fs_pollNext s sc o s' sc' hres
      rcases hcase with ⟨fr, rfl, hI', hrem⟩ | ⟨rfl, hI', hrem, hfin⟩ | ⟨rfl, hI', hrem, hT, heos, hfl⟩
      · have hpre := hinv_prefix hw hI'
        rw [hX] at hpre
        rcases next_frame_in_body hpre with ⟨n, rfl⟩ | ⟨t, rfl, htr', hfull⟩
        · -- a DATA frame header: `recv_data` goes on inside the same poll
          have hst1 : BodySt w h D (out ++ [FS.Tok.frame (Frame.data n)])
              ({ src := (s', sc'), trailers := trl, env := env } : RSt) :=
            ⟨hI', htr, X ++ [FS.Tok.frame (Frame.data n)], by rw [hX]; rfl, bodyish_append hXb (bodyish_data n)⟩
          have hlen := (hinv_prefix hw hI').length_le
          simp only [List.length_append, List.length_singleton] at hlen
          obtain ⟨r, st', out', he, henv, hc⟩ := ih _ D _ hst1 (by simp only [List.length_append, List.length_singleton]; omega)
          refine ⟨r, st', out', ?_, henv, ?_⟩
          · rw [pollRecvData_next_data fsSrc f _ n (s', sc') hd hn]; exact he
          · have hb : bodyOf (out ++ [FS.Tok.frame (Frame.data n)]) = bodyOf out := by
              rw [bodyOf_append]; simp [bodyOf]
            rw [hb] at hc
            simp only [List.length_append, List.length_singleton] at hc
            rcases hc with ⟨d, h1, h2, h3, h4⟩ | ⟨h1, h2, h3, h4, h5⟩ | ⟨h1, h2, h3⟩
            · exact Or.inl ⟨d, h1, h2, h3, by omega⟩
            · exact Or.inr (Or.inl ⟨h1, h2, h3, by omega, h5⟩)
            · exact Or.inr (Or.inr ⟨h1, h2, h3⟩)
        · -- the trailers' HEADERS: end of the body, the block is remembered
          refine ⟨.end_, _, out, pollRecvData_next_headers fsSrc f _ t (s', sc') hd hn, rfl, Or.inr (Or.inr ⟨rfl, ?_, ?_⟩)⟩
          · rw [← hX] at hfull
            rw [hfull] at hI'
            exact ⟨hI', by rw [hrem]; rfl, Or.inl ⟨t, htr', rfl⟩⟩
          · rw [← hX] at hfull
            have := bodyOf_msgToks h ds tr
            rw [← hfull, bodyOf_append] at this
            simpa [bodyOf] using this
      · exact ⟨.pending, _, out, pollRecvData_next_pending fsSrc f _ (s', sc') hd hn, rfl,
          Or.inr (Or.inl ⟨rfl, ⟨hI', htr, X, hX, hXb⟩, rfl, Nat.le_refl _, hfin⟩)⟩
      · -- the stream has ended on a frame boundary: end of the body, no trailers
        have htrn : tr = none := no_trailers_of_bodyish hXb (by rw [← hX, hT])
        refine ⟨.end_, _, out, pollRecvData_next_none fsSrc f _ (s', sc') hd hn, rfl, Or.inr (Or.inr ⟨rfl, ?_, ?_⟩)⟩
        · rw [hT] at hI'
          exact ⟨hI', hrem, Or.inr ⟨htrn, htr, heos, hfl⟩⟩
        · rw [hT]; exact bodyOf_msgToks h ds tr
    · have hd : fsSrc.hasData (s, sc) = true := by rw [fs_hasData_iff]; simp [h0]
      obtain ⟨o, s', sc', hres, hcase⟩ := healthy_data hw hI h0
      have hp := fs_pollData s sc o s' sc' hres
      rcases hcase with ⟨d, rfl, hdne, hI', _⟩ | ⟨rfl, hI', _, hfin⟩
      · refine ⟨.data d, _, out ++ d.map .byte, pollRecvData_data fsSrc f _ d (s', sc') hd hp, rfl,
          Or.inl ⟨d, rfl, ⟨hI', htr, X ++ d.map .byte, by rw [hX]; rfl, bodyish_append hXb (bodyish_bytes d)⟩, ?_, ?_⟩⟩
        · rw [bodyOf_append, bodyOf_bytes]
        · have : 0 < d.length := List.length_pos_iff.mpr hdne
          simp only [List.length_append, List.length_map]; omega
      · exact ⟨.pending, _, out, pollRecvData_data_pending fsSrc f _ (s', sc') hd hp, rfl,
          Or.inr (Or.inl ⟨rfl, ⟨hI', htr, X, hX, hXb⟩, rfl, Nat.le_refl _, hfin⟩)⟩

/-- the `recv_data` loop of one `body` poll: pieces of the body, then `Pending` or the end -/
theorem healthy_drain (hw : Wire w (msgToks h ds tr)) : ∀ (fuel : Nat) (st : RSt) (D : List FS.Ev)
    (out : List RefTok), BodySt w h D out st → (msgToks h ds tr).length - out.length < fuel →
    ∃ (pieces : List ReqRecv.Bytes) (last : Res) (st' : RSt),
      drain fsSrc fuel st = (pieces.map .data ++ [last], st') ∧ st'.env = st.env ∧
      ((last = .pending ∧ (∃ out', BodySt w h D out' st' ∧ bodyOf out' = bodyOf out ++ pieces.flatten) ∧
          FS.Ev.fin ∉ D) ∨
       (last = .end_ ∧ EndSt w h ds tr D st' ∧ bodyOf out ++ pieces.flatten = ds.flatten)) := by
  intro fuel
  induction fuel with
  | zero => intro st D out _ hlt; omega
  | succ f ih =>
    intro st D out hst hlt
    obtain ⟨r, st1, out1, he, henv, hc⟩ := healthy_recvData hw (f + 1) st D out hst hlt
    rw [drain_succ, he]
    rcases hc with ⟨d, rfl, hst1, hb, hlen⟩ | ⟨rfl, hst1, hb, _, hfin⟩ | ⟨rfl, hst1, hb⟩
    · have hle := (hinv_prefix hw hst1.inv).length_le
      obtain ⟨pieces, last, st', hd, henv', hc'⟩ := ih st1 D out1 hst1 (by omega)
      refine ⟨d :: pieces, last, st', ?_, by rw [henv', henv], ?_⟩
      · simp only [hd, List.map_cons, List.cons_append]
      · rw [hb] at hc'
        simp only [List.flatten_cons, ← List.append_assoc]
        exact hc'
    · exact ⟨[], .pending, st1, rfl, henv, Or.inl ⟨rfl, ⟨out1, hst1, by simpa using hb⟩, hfin⟩⟩
    · exact ⟨[], .end_, st1, rfl, henv, Or.inr ⟨rfl, hst1, by simpa using hb⟩⟩

/-- `recv_trailers`, one poll, after the end of the body has been reported -/
theorem healthy_trailers (hw : Wire w (msgToks h ds tr)) (H : ReqRecv.Hdr) (hH : ∀ t, tr = some t → H.trailer t = .ok)
    (D : List FS.Ev) (st : RSt) (hst : EndSt w h ds tr D st) :
    ∃ r st', pollRecvTrailers fsSrc H st = (r, st') ∧ st'.env = st.env ∧
      (r = trRes tr ∨ (r = .pending ∧ EndSt w h ds tr D st' ∧ FS.Ev.fin ∉ D)) := by
  obtain ⟨⟨s, sc⟩, trl, env⟩ := st
  obtain ⟨hI, h0, hcase⟩ := hst
  simp only at hI h0 hcase
  rcases hcase with ⟨t, htr, htrl⟩ | ⟨htr, htrl, heos, hfl⟩
  · subst htr
    subst htrl
    by_cases he : fsSrc.isEos (s, sc) = true
    · exact ⟨_, _, pollRecvTrailers_some_eos fsSrc H _ t rfl he (hH t rfl), rfl, Or.inl rfl⟩
    · have he' : fsSrc.isEos (s, sc) = false := by simpa using he
      obtain ⟨o, s', sc', hres, hc⟩ := healthy_next hw hI h0
      have hn := fs_pollNext s sc o s' sc' hres
      rcases hc with ⟨fr, rfl, hI', _⟩ | ⟨rfl, hI', hrem, hfin⟩ | ⟨rfl, _⟩
      · exact absurd (hinv_prefix hw hI') (not_prefix_longer _ _)
      · exact ⟨_, _, pollRecvTrailers_some_pending fsSrc H _ t (s', sc') rfl he' hn, rfl,
          Or.inr ⟨rfl, ⟨hI', hrem, Or.inl ⟨t, rfl, rfl⟩⟩, hfin⟩⟩
      · exact ⟨_, _, pollRecvTrailers_some_none fsSrc H _ t (s', sc') rfl he' hn (hH t rfl), rfl, Or.inl rfl⟩
  · subst htr
    obtain ⟨s', sc', hres⟩ := healthy_next_at_end s sc h0 heos hfl
    have hn := fs_pollNext s sc _ s' sc' hres
    exact ⟨_, _, pollRecvTrailers_none_none fsSrc H _ (s', sc') htrl hn, rfl, Or.inl rfl⟩

end Healthy

end H3.Iso
