import H3.Lemmas.HuffLoop
import H3.Lemmas.HuffEnc
import H3.Lemmas.HuffSpec
/-! Agreement of the two generated tables with the RFC's canonical code (kernel evaluation), and
    what follows for the encoder. -/
namespace H3.Huffman
open H3.Bits H3.Spec.Huffman
open H3.Gen.HuffDec (root)

/-- equality of model results is decidable (for `decide` witnesses) -/
instance decEqExcept {α : Type} [DecidableEq α] : DecidableEq (Except Err α)
  | .ok a, .ok b => if h : a = b then isTrue (by rw [h]) else isFalse (by intro h'; cases h'; exact h rfl)
  | .error a, .error b =>
    if h : a = b then isTrue (by rw [h]) else isFalse (by intro h'; cases h'; exact h rfl)
  | .ok _, .error _ => isFalse (by intro h; cases h)
  | .error _, .ok _ => isFalse (by intro h; cases h)

/-- the tree's root-to-symbol paths, in table order, are the canonical code words of the RFC
    lengths for the 256 bytes, in canonical order (EOS, the last code word, has no path) -/
theorem root_paths_eq : pathsL root = codes.take 256 := by decide +kernel

/-- the encode table's row of every byte is the RFC code word -/
theorem codeT_eq_codeOf : ∀ c < 256, codeT c = codeOf c := by decide +kernel

theorem encT_eq_enc (s : List Nat) (hs : ∀ x ∈ s, x < 256) : encT s = enc s := by
  induction s with
  | nil => rfl
  | cons x s ih =>
    rw [encT, enc, codeT_eq_codeOf x (hs x (by simp)), ih (fun y hy => hs y (by simp [hy]))]

theorem validPad_ones (k : Nat) (hk : k ≤ 7) : validPad (List.replicate k true) = true := by
  simp [validPad, hk]

/-- the encoder's output is the RFC encoding -/
theorem hencode_spec (s : List Nat) (hs : ∀ x ∈ s, x < 256) : hencode s = specEncode s := by
  rw [hencode_eq s hs, encT_eq_enc s hs, specEncode]

/-- … and decodes, through the strict branch, to what was encoded -/
theorem hdecodeX_hencode (s : List Nat) (hs : ∀ x ∈ s, x < 256) :
    hdecodeX (hencode s) = .ok (s, false) := by
  rw [hencode_eq s hs]
  apply hdecodeX_complete _ (pack_lt _) s _ hs
  · rw [bitsOf_pack, encT_eq_enc s hs]
  · apply validPad_ones; omega

end H3.Huffman
