import H3.Lemmas.DynBasic
import H3.Spec.Dyn
/-! Table-level lemmas: the model's `DynamicTable` refines the oracle's abstract table. -/
namespace H3.Dyn
open H3.Spec.Dyn (STable size evictCount)

/-! ### sizes -/

@[simp] theorem size_nil : size [] = 0 := rfl
@[simp] theorem size_cons (f : Field) (l : List Field) : size (f :: l) = f.memSize + size l := by
  simp [size]
theorem size_append (a b : List Field) : size (a ++ b) = size a + size b := by
  induction a with
  | nil => simp
  | cons f r ih => simp [ih]; omega

theorem memSize_ge (f : Field) : 32 ≤ f.memSize := by simp [Field.memSize]

theorem size_ge_length (l : List Field) : 32 * l.length ≤ size l := by
  induction l with
  | nil => simp
  | cons f r ih => have := memSize_ge f; simp; omega

theorem size_drop_le (l : List Field) (n : Nat) : size (l.drop n) ≤ size l := by
  induction l generalizing n with
  | nil => simp
  | cons f r ih =>
    cases n with
    | zero => simp
    | succ n => have := ih n; simp; omega

/-! ### the abstraction relation -/

structure Abs (t : Table) (st : STable) : Prop where
  fields : t.fields = st.all.drop st.dropped
  ins : t.vas.inserted = st.all.length
  drp : t.vas.dropped = st.dropped
  delta : t.vas.delta = t.fields.length
  curr : t.currSize = size t.fields
  max : t.maxSize = st.cap
  le : st.dropped ≤ st.all.length
  cap : t.currSize ≤ t.maxSize

theorem Abs.length {t st} (h : Abs t st) : t.fields.length = st.all.length - st.dropped := by
  rw [h.fields]; simp

/-- position `a - dropped - 1` of the deque is absolute index `a` (1-based) of the abstract table -/
theorem Abs.getElem {t st} (h : Abs t st) {a : Nat} (ha : st.dropped < a) :
    t.fields[a - st.dropped - 1]? = st.all[a - 1]? := by
  rw [h.fields, List.getElem?_drop]
  congr 1; omega

/-- two tables that abstract to the same oracle table have the same contents and counters -/
theorem Abs.core_eq {t t' st} (h : Abs t st) (h' : Abs t' st) :
    t.fields = t'.fields ∧ t.currSize = t'.currSize ∧ t.maxSize = t'.maxSize ∧ t.vas = t'.vas := by
  have hf : t.fields = t'.fields := by rw [h.fields, h'.fields]
  refine ⟨hf, by rw [h.curr, h'.curr, hf], by rw [h.max, h'.max], ?_⟩
  have h1 := h.ins; have h2 := h'.ins; have h3 := h.drp; have h4 := h'.drp
  have h5 := h.delta; have h6 := h'.delta
  rw [hf] at h5
  cases hv : t.vas; cases hv' : t'.vas
  simp_all

/-! ### `can_free` -/

theorem Table.isTracked_iff (t : Table) (a : Nat) : t.isTracked a = true ↔ 0 < cnt t.trackMap a := by
  simp [Table.isTracked]

theorem canFreeLoop_spec (t : Table) (lb : Nat) (fs : List Field) (idx ev : Nat)
    (hidx : idx + fs.length ≤ t.vas.delta) :
    ∃ n, n ≤ fs.length ∧ canFreeLoop t lb fs idx (size fs) ev = .ok (size (fs.drop n), ev + n) ∧
      (∀ i, i < n → t.isTracked (t.vas.dropped + idx + i + 1) = false) ∧
      (∀ i, i < n → lb < size (fs.drop i)) ∧
      (size (fs.drop n) ≤ lb ∨
        (n < fs.length ∧ lb < size (fs.drop n) ∧ t.isTracked (t.vas.dropped + idx + n + 1) = true)) := by
  induction fs generalizing idx ev with
  | nil => exact ⟨0, by simp [canFreeLoop]⟩
  | cons f fs ih =>
    by_cases h1 : size (f :: fs) ≤ lb
    · exact ⟨0, by simp, by rw [canFreeLoop, if_pos h1]; simp, by simp, by simp, Or.inl (by simpa using h1)⟩
    · have hi : t.vas.index idx = some (idx + t.vas.dropped + 1) := by
        simp only [Vas.index]; rw [if_neg]; simp at hidx; omega
      by_cases h2 : t.isTracked (idx + t.vas.dropped + 1) = true
      · refine ⟨0, by simp, ?_, by simp, by simp, Or.inr ⟨by simp, by simpa using h1, ?_⟩⟩
        · rw [canFreeLoop, if_neg h1]; simp only [hi, h2, if_true]; simp
        · rw [← h2]; congr 1; omega
      · have h3 : ¬ size (f :: fs) < f.memSize := by simp
        obtain ⟨n, hn, heq, ht, hlb, hend⟩ := ih (idx + 1) (ev + 1) (by simp at hidx ⊢; omega)
        refine ⟨n + 1, by simp; omega, ?_, ?_, ?_, ?_⟩
        · rw [canFreeLoop, if_neg h1]; simp only [hi]
          rw [if_neg h2, if_neg h3]
          have : size (f :: fs) - f.memSize = size fs := by simp
          rw [this, heq]; simp; omega
        · intro i hi'
          cases i with
          | zero => simp at h2 ⊢; rw [← h2]; congr 1; omega
          | succ i => have := ht i (by omega); rw [← this]; congr 1; omega
        · intro i hi'
          cases i with
          | zero => simpa using h1
          | succ i => simpa using hlb i (by omega)
        · rcases hend with h | ⟨h, hb, h'⟩
          · exact Or.inl (by simpa using h)
          · exact Or.inr ⟨by simp; omega, by simpa using hb, by rw [← h']; congr 1; omega⟩

theorem evictCount_eq (b : Nat) (l : List Field) (n : Nat) (hn : n ≤ l.length)
    (h1 : ∀ i, i < n → b < size (l.drop i)) (h2 : size (l.drop n) ≤ b) : evictCount b l = n := by
  induction l generalizing n with
  | nil => simp at hn; subst hn; rfl
  | cons f r ih =>
    cases n with
    | zero => simp at h2; simp [evictCount, h2]
    | succ m =>
      have := h1 0 (by omega)
      simp at this
      have hne : ¬ size (f :: r) ≤ b := by simp; omega
      simp only [evictCount, if_neg hne]
      rw [ih m (by simpa using hn) (fun i hi => by simpa using h1 (i + 1) (by omega)) (by simpa using h2)]

theorem evictCount_le (b : Nat) (l : List Field) : evictCount b l ≤ l.length := by
  induction l with
  | nil => simp [evictCount]
  | cons f r ih => simp only [evictCount]; split <;> simp; omega

theorem evictCount_size (b : Nat) (l : List Field) : size (l.drop (evictCount b l)) ≤ b := by
  induction l with
  | nil => simp [evictCount]
  | cons f r ih =>
    simp only [evictCount]; split
    · simpa
    · simpa using ih

/-- outcome of `can_free` on a well-formed table, for a request that fits the capacity -/
theorem canFree_spec {t : Table} {st : STable} (h : Abs t st) (req : Nat) (hreq : req ≤ t.maxSize) :
    (t.canFree req = .ok (some (evictCount (t.maxSize - req) t.fields)) ∧
      (∀ i, i < evictCount (t.maxSize - req) t.fields → t.isTracked (t.vas.dropped + i + 1) = false)) ∨
    (t.canFree req = .ok none ∧ ∃ i, i < t.fields.length ∧ t.isTracked (t.vas.dropped + i + 1) = true) := by
  have hc := h.cap
  unfold Table.canFree
  rw [if_neg (by omega), if_neg (by omega)]
  by_cases h0 : t.maxSize - t.currSize ≥ req
  · left
    rw [if_pos h0]
    have : evictCount (t.maxSize - req) t.fields = 0 := by
      apply evictCount_eq _ _ 0 (by simp) (by simp)
      simp; rw [← h.curr]; omega
    rw [this]; simp
  · rw [if_neg h0]
    obtain ⟨n, hn, heq, ht, hlb, hend⟩ := canFreeLoop_spec t (t.maxSize - req) t.fields 0 0 (by rw [h.delta]; simp)
    rw [h.curr, heq]
    have hsz := size_drop_le t.fields n
    have hcs := h.curr
    simp only
    rw [if_neg (by omega)]
    rcases hend with hb | ⟨hlt, hgt, htr⟩
    · left
      have hev := evictCount_eq (t.maxSize - req) t.fields n hn hlb hb
      rw [if_pos (by omega), hev]
      refine ⟨by simp, fun i hi => ?_⟩
      have := ht i hi; simpa using this
    · right
      rw [if_neg (by omega)]
      exact ⟨rfl, n, hlt, by simpa using htr⟩

/-! ### lookup maps -/

/-- every entry of the two lookup maps names a live entry with that field / that name -/
structure MapsOK (t : Table) (st : STable) : Prop where
  fm : ∀ f a, aget t.fieldMap f = some a → st.dropped < a ∧ st.all[a - 1]? = some f
  nm : ∀ n a, aget t.nameMap n = some a → st.dropped < a ∧ ∃ f, st.all[a - 1]? = some f ∧ f.name = n

theorem eraseIfEvicted_get {κ : Type} [DecidableEq κ] {m : List (κ × Nat)} {v : Vas} {k x : κ} {a : Nat}
    (h : aget (eraseIfEvicted m v k) x = some a) :
    aget m x = some a ∧ ¬ (x = k ∧ v.evicted a = true) := by
  unfold eraseIfEvicted at h
  cases hk : aget m k with
  | none =>
    rw [hk] at h; simp only at h
    refine ⟨h, fun ⟨e, _⟩ => ?_⟩
    subst e; rw [hk] at h; simp at h
  | some a0 =>
    rw [hk] at h; simp only at h
    by_cases he : v.evicted a0 = true
    · rw [if_pos he, aget_aerase] at h
      split at h
      · simp at h
      · rename_i hne; exact ⟨h, fun ⟨e, _⟩ => hne e.symm⟩
    · rw [if_neg he] at h
      refine ⟨h, fun ⟨e, hev⟩ => ?_⟩
      subst e; rw [hk] at h; simp at h; subst h; exact he hev

/-- the lookup maps of `t'` are restrictions of those of `t` (evictions only remove bindings) -/
def SubMaps (t' t : Table) : Prop :=
  (∀ k a, aget t'.fieldMap k = some a → aget t.fieldMap k = some a) ∧
  (∀ k a, aget t'.nameMap k = some a → aget t.nameMap k = some a)

theorem SubMaps.refl (t : Table) : SubMaps t t := ⟨fun _ _ h => h, fun _ _ h => h⟩
theorem SubMaps.trans {a b c : Table} (h1 : SubMaps a b) (h2 : SubMaps b c) : SubMaps a c :=
  ⟨fun k x h => h2.1 k x (h1.1 k x h), fun k x h => h2.2 k x (h1.2 k x h)⟩

/-- the parts of a table that `insert`/`evict`/`put`/`set_max_size` never touch -/
def Table.aux (t : Table) : RefMap × List (Nat × List RefMap) × Nat × Nat × Nat × RefMap :=
  (t.trackMap, t.trackBlocks, t.lkr, t.blockedMax, t.blockedCount, t.blockedStreams)

theorem Abs.head {t st} (h : Abs t st) {f : Field} {rest : List Field} (hf : t.fields = f :: rest) :
    st.all[st.dropped]? = some f ∧ st.dropped < st.all.length := by
  have h1 := h.fields
  rw [hf] at h1
  have : (List.drop st.dropped st.all)[0]? = some f := by rw [← h1]; rfl
  rw [List.getElem?_drop] at this
  have hl : st.dropped < st.all.length := by
    have := congrArg List.length h1; simp at this; omega
  exact ⟨by simpa using this, hl⟩

theorem evict1_spec {t st} (h : Abs t st) (hne : t.fields ≠ []) :
    ∃ t', t.evict1 = .ok t' ∧ Abs t' { st with dropped := st.dropped + 1 } ∧ t'.aux = t.aux ∧
      t'.fields = t.fields.drop 1 ∧ SubMaps t' t ∧
      (MapsOK t st → MapsOK t' { st with dropped := st.dropped + 1 }) := by
  cases hf : t.fields with
  | nil => exact absurd hf hne
  | cons f rest =>
    obtain ⟨hhead, hlen⟩ := h.head hf
    have hcurr : t.currSize = f.memSize + size rest := by rw [h.curr, hf]; simp
    have hd : t.vas.delta ≠ 0 := by rw [h.delta, hf]; simp
    have hdrop : t.vas.drop = .ok { t.vas with dropped := t.vas.dropped + 1, delta := t.vas.delta - 1 } := by
      simp [Vas.drop, hd]
    let v' : Vas := { t.vas with dropped := t.vas.dropped + 1, delta := t.vas.delta - 1 }
    have heq : t.evict1 = .ok { t with fields := rest, currSize := t.currSize - f.memSize, vas := v', nameMap := eraseIfEvicted t.nameMap v' f.name, fieldMap := eraseIfEvicted t.fieldMap v' f } := by
      simp only [Table.evict1, hf]; rw [if_neg (by omega), hdrop]
    refine ⟨_, heq, ?_, rfl, by simp, ⟨fun k a hk => (eraseIfEvicted_get hk).1, fun k a hk => (eraseIfEvicted_get hk).1⟩, ?_⟩
    · constructor
      · simp only; rw [← List.drop_drop, ← h.fields, hf]; rfl
      · exact h.ins
      · show t.vas.dropped + 1 = _; rw [h.drp]
      · show t.vas.delta - 1 = _; rw [h.delta, hf]; simp
      · simp only; rw [hcurr]; omega
      · exact h.max
      · simp only; omega
      · simp only; have := h.cap; omega
    · intro hm
      have hev : ∀ a, ({ t.vas with dropped := t.vas.dropped + 1, delta := t.vas.delta - 1 } : Vas).evicted a = true
          ↔ a ≠ 0 ∧ a ≤ st.dropped + 1 := by
        intro a; simp [Vas.evicted, h.drp]
      constructor
      · intro g a hg
        obtain ⟨hg1, hg2⟩ := eraseIfEvicted_get hg
        obtain ⟨hlt, hget⟩ := hm.fm g a hg1
        refine ⟨?_, hget⟩
        simp only
        by_cases ha : a = st.dropped + 1
        · exfalso; apply hg2
          subst ha
          simp at hget; rw [hhead] at hget; simp at hget
          exact ⟨hget.symm, (hev _).mpr ⟨by omega, by omega⟩⟩
        · omega
      · intro n a hg
        obtain ⟨hg1, hg2⟩ := eraseIfEvicted_get hg
        obtain ⟨hlt, g, hget, hname⟩ := hm.nm n a hg1
        refine ⟨?_, g, hget, hname⟩
        simp only
        by_cases ha : a = st.dropped + 1
        · exfalso; apply hg2
          subst ha
          simp at hget; rw [hhead] at hget; simp at hget
          subst hget
          exact ⟨hname.symm, (hev _).mpr ⟨by omega, by omega⟩⟩
        · omega

theorem evict_spec {t st} (h : Abs t st) (n : Nat) (hn : n ≤ t.fields.length) :
    ∃ t', t.evict n = .ok t' ∧ Abs t' { st with dropped := st.dropped + n } ∧ t'.aux = t.aux ∧
      t'.fields = t.fields.drop n ∧ SubMaps t' t ∧
      (MapsOK t st → MapsOK t' { st with dropped := st.dropped + n }) := by
  induction n generalizing t st with
  | zero => exact ⟨t, rfl, by simpa using h, rfl, by simp, SubMaps.refl t, by simp⟩
  | succ n ih =>
    have hne : t.fields ≠ [] := by intro e; rw [e] at hn; simp at hn
    obtain ⟨t1, h1, habs1, haux1, hf1, hs1, hm1⟩ := evict1_spec h hne
    obtain ⟨t2, h2, habs2, haux2, hf2, hs2, hm2⟩ := ih habs1 (by rw [hf1]; simp; omega)
    refine ⟨t2, by simp only [Table.evict, h1, Res.bind_ok, h2], ?_, by rw [haux2, haux1], ?_, hs2.trans hs1, ?_⟩
    · have : st.dropped + 1 + n = st.dropped + (n + 1) := by omega
      simpa [this] using habs2
    · rw [hf2, hf1, List.drop_drop]; congr 1; omega
    · intro hm
      have : st.dropped + 1 + n = st.dropped + (n + 1) := by omega
      simpa [this] using hm2 (hm1 hm)

/-! ### `DynamicTable::insert` -/

/-- `insert` on a well-formed table: the four possible outcomes -/
inductive InsertOutcome (t : Table) (st : STable) (f : Field) : Res (Option Nat × Table) → Prop where
  | zeroCap : t.maxSize = 0 → InsertOutcome t st f (.ok (none, t))
  | tooLarge : t.maxSize ≠ 0 → t.maxSize < f.memSize → InsertOutcome t st f (.err .maxTableSizeReached)
  | pinned : t.maxSize ≠ 0 → f.memSize ≤ t.maxSize →
      (∃ i, i < t.fields.length ∧ t.isTracked (t.vas.dropped + i + 1) = true) → InsertOutcome t st f (.ok (none, t))
  | inserted (t' : Table) (st' : STable) : st.insert f = some st' → Abs t' st' → t'.aux = t.aux →
      SubMaps t' t → (MapsOK t st → MapsOK t' st') →
      (∀ a, st.dropped < a → a ≤ st'.dropped → t.isTracked a = false) → st'.dropped ≤ st.all.length →
      InsertOutcome t st f (.ok (some (st.all.length + 1), t'))

theorem insert_spec {t st} (h : Abs t st) (f : Field) : InsertOutcome t st f (t.insert f) := by
  unfold Table.insert
  by_cases h0 : t.maxSize = 0
  · rw [if_pos h0]; exact .zeroCap h0
  · rw [if_neg h0]
    by_cases hbig : t.maxSize < f.memSize
    · have : t.canFree f.memSize = .err .maxTableSizeReached := by
        unfold Table.canFree; rw [if_pos (by omega)]
      rw [this]; exact .tooLarge h0 hbig
    · rcases canFree_spec h f.memSize (by omega) with ⟨hc, hunt⟩ | ⟨hc, hpin⟩
      · rw [hc]; simp only
        obtain ⟨t1, h1, habs1, haux1, hf1, hs1, hm1⟩ :=
          evict_spec h (evictCount (t.maxSize - f.memSize) t.fields) (evictCount_le _ _)
        rw [h1]; simp only [Res.bind_ok, Vas.add]
        have hins : st.insert f = some { st with all := st.all ++ [f], dropped := st.dropped + evictCount (st.cap - f.memSize) st.live } := by
          unfold STable.insert; rw [if_neg (by rw [← h.max]; omega)]
        have hlive : st.live = t.fields := by rw [STable.live, h.fields]
        rw [hlive, ← h.max] at hins
        have hi1 : t1.vas.inserted = st.all.length := habs1.ins
        rw [hi1]
        refine .inserted _ _ hins ?_ (by simpa [Table.aux] using haux1) hs1 ?_ ?_ (by
          have := evictCount_le (t.maxSize - f.memSize) t.fields
          have := h.length; have := h.le; simp only; omega)
        · have hc1 : t1.currSize = size t1.fields := habs1.curr
          have hsz := evictCount_size (t.maxSize - f.memSize) t.fields
          rw [← hf1] at hsz
          constructor
          · simp only; rw [habs1.fields]; simp only
            rw [List.drop_append_of_le_length (by have := habs1.le; simpa using this)]
          · simp
          · simp only; exact habs1.drp
          · simp only; rw [habs1.delta]; simp
          · simp only; rw [hc1, size_append]; simp
          · have hmx1 : t1.maxSize = st.cap := habs1.max
            simp only; rw [hmx1, h.max]
          · simp only; have := habs1.le; simp at this ⊢; omega
          · have hmx1 : t1.maxSize = st.cap := habs1.max
            simp only; rw [hc1, hmx1, ← h.max]; omega
        · intro hm
          have hm' := hm1 hm
          constructor
          · intro g a hg
            obtain ⟨h1', h2'⟩ := hm'.fm g a hg
            refine ⟨h1', ?_⟩
            simp only at h2' ⊢
            rw [List.getElem?_append_left]; exact h2'
            have := (List.getElem?_eq_some_iff.mp h2').1; exact this
          · intro n a hg
            obtain ⟨h1', g, h2', h3'⟩ := hm'.nm n a hg
            refine ⟨h1', g, ?_, h3'⟩
            simp only at h2' ⊢
            rw [List.getElem?_append_left]; exact h2'
            have := (List.getElem?_eq_some_iff.mp h2').1; exact this
        · intro a ha1 ha2
          simp only at ha2
          have := hunt (a - st.dropped - 1) (by omega)
          rw [← this]; congr 1; rw [h.drp]; omega
      · rw [hc]; exact .pinned h0 (by omega) hpin

/-! ### `set_max_size` -/

inductive SetMaxOutcome (t : Table) (st : STable) (sz : Nat) : Res Table → Prop where
  | tooLarge : sz > SETTINGS_MAX_TABLE_CAPACITY_MAX → SetMaxOutcome t st sz (.err .maximumTableSizeTooLarge)
  | pinned : sz ≤ SETTINGS_MAX_TABLE_CAPACITY_MAX → sz < t.maxSize →
      (∃ i, i < t.fields.length ∧ t.isTracked (t.vas.dropped + i + 1) = true) →
      SetMaxOutcome t st sz (.err .maxTableSizeReached)
  | done (t' : Table) : sz ≤ SETTINGS_MAX_TABLE_CAPACITY_MAX → Abs t' (st.setCap sz) → t'.aux = t.aux →
      SubMaps t' t → (MapsOK t st → MapsOK t' (st.setCap sz)) →
      (∀ a, st.dropped < a → a ≤ (st.setCap sz).dropped → t.isTracked a = false) →
      SetMaxOutcome t st sz (.ok t')

theorem setMaxSize_spec {t st} (h : Abs t st) (sz : Nat) : SetMaxOutcome t st sz (t.setMaxSize sz) := by
  unfold Table.setMaxSize
  by_cases h0 : sz > SETTINGS_MAX_TABLE_CAPACITY_MAX
  · rw [if_pos h0]; exact .tooLarge h0
  · rw [if_neg h0]
    have hlive : st.live = t.fields := by rw [STable.live, h.fields]
    by_cases h1 : sz ≥ t.maxSize
    · rw [if_pos h1]
      have hev : evictCount sz st.live = 0 := by
        rw [hlive]; apply evictCount_eq _ _ 0 (by simp) (by simp)
        have := h.cap; have := h.curr; simp; omega
      have hst : st.setCap sz = { st with cap := sz } := by simp [STable.setCap, hev]
      refine .done _ (by omega) ?_ rfl (SubMaps.refl _) ?_ ?_
      · rw [hst]
        exact ⟨h.fields, h.ins, h.drp, h.delta, h.curr, rfl, h.le, by have := h.cap; simp only; omega⟩
      · rw [hst]; intro hm; exact ⟨hm.fm, hm.nm⟩
      · rw [hst]; intro a h1 h2; simp only at h2; omega
    · rw [if_neg h1]
      have hreq : t.maxSize - (t.maxSize - sz) = sz := by omega
      rcases canFree_spec h (t.maxSize - sz) (by omega) with ⟨hc, hunt⟩ | ⟨hc, hpin⟩
      · rw [hc, hreq]; simp only
        rw [hreq] at hunt
        obtain ⟨t1, he, habs1, haux1, hf1, hs1, hm1⟩ := evict_spec h (evictCount sz t.fields) (evictCount_le _ _)
        rw [he]; simp only [Res.bind_ok]
        have hst : st.setCap sz = { st with cap := sz, dropped := st.dropped + evictCount sz t.fields } := by
          simp [STable.setCap, hlive]
        have hsz := evictCount_size sz t.fields
        rw [← hf1] at hsz
        have hc1 : t1.currSize = size t1.fields := habs1.curr
        refine .done _ (by omega) ?_ (by simpa [Table.aux] using haux1) hs1 ?_ ?_
        · rw [hst]
          exact ⟨habs1.fields, habs1.ins, habs1.drp, habs1.delta, habs1.curr, rfl, habs1.le, by simp only; omega⟩
        · rw [hst]; intro hm; have := hm1 hm; exact ⟨this.fm, this.nm⟩
        · rw [hst]; intro a ha1 ha2
          simp only at ha2
          have := hunt (a - st.dropped - 1) (by omega)
          rw [← this]; congr 1; rw [h.drp]; omega
      · rw [hc]; exact .pinned (by omega) (by omega) hpin

/-! ### relative lookups on the encoder stream -/

theorem getRelative_spec {t st} (h : Abs t st) {rel : Nat} {f : Field} (hf : st.relEntry rel = some f) :
    t.getRelative rel = .ok f := by
  unfold STable.relEntry at hf
  split at hf
  · rename_i hlt
    unfold STable.entry at hf
    split at hf
    · simp at hf
    · rename_i hd
      have hlen := h.length
      have hrel : t.vas.relative rel = some (st.all.length - st.dropped - rel - 1) := by
        unfold Vas.relative
        rw [h.ins, h.drp, h.delta, hlen, if_neg (by omega)]
      unfold Table.getRelative
      rw [hrel]; simp only
      have : st.all.length - st.dropped - rel - 1 = (st.all.length - rel) - st.dropped - 1 := by omega
      rw [this, h.getElem (by omega)]
      have : st.all.length - rel - 1 = st.all.length - 1 - rel := by omega
      rw [this, hf]
  · simp at hf

/-! ### the decoder's side of one instruction -/

def Untracked (t : Table) : Prop := t.trackMap = []

theorem Untracked.isTracked {t : Table} (h : Untracked t) (a : Nat) : t.isTracked a = false := by
  unfold Untracked at h
  unfold Table.isTracked; rw [h]; simp

theorem put_spec {t st} (h : Abs t st) (hu : Untracked t) {f : Field} {st' : STable}
    (hs : st.insert f = some st') : ∃ t', t.put f = .ok t' ∧ Abs t' st' ∧ t'.aux = t.aux := by
  have hfit : f.memSize ≤ st.cap := by
    unfold STable.insert at hs; split at hs
    · simp at hs
    · omega
  have h32 := memSize_ge f
  unfold Table.put
  have hi := insert_spec h f
  generalize t.insert f = r at hi
  cases hi with
  | zeroCap h0 => rw [h.max] at h0; omega
  | tooLarge _ hb => rw [h.max] at hb; omega
  | pinned _ _ hp =>
    obtain ⟨i, _, hi⟩ := hp
    rw [hu.isTracked] at hi; simp at hi
  | inserted t1 st1 hs1 habs haux _ _ _ _ =>
    simp only [Res.bind_ok]
    rw [hs] at hs1; simp at hs1; subst hs1
    split
    · exact ⟨_, rfl, ⟨habs.fields, habs.ins, habs.drp, habs.delta, habs.curr, habs.max, habs.le, habs.cap⟩,
        by simpa [Table.aux] using haux⟩
    · exact ⟨_, rfl, ⟨habs.fields, habs.ins, habs.drp, habs.delta, habs.curr, habs.max, habs.le, habs.cap⟩,
        by simpa [Table.aux] using haux⟩

theorem Untracked.of_aux {t t' : Table} (h : Untracked t) (ha : t'.aux = t.aux) : Untracked t' := by
  unfold Untracked at *
  have : t'.trackMap = t.trackMap := by simpa [Table.aux] using congrArg (·.1) ha
  rw [this, h]

theorem encoderInstr_spec {t st} (h : Abs t st) (hu : Untracked t) {i : EncInstr} {st' : STable}
    (hs : st.apply i = some st') : ∃ t', encoderInstr t i = .ok t' ∧ Abs t' st' ∧ t'.aux = t.aux := by
  cases i with
  | sizeUpdate c =>
    simp only [STable.apply] at hs
    split at hs
    · simp at hs
    · rename_i hc
      simp at hs; subst hs
      simp only [encoderInstr]
      have ho := setMaxSize_spec h c
      generalize t.setMaxSize c = r at ho
      cases ho with
      | tooLarge hb => simp [SETTINGS_MAX_TABLE_CAPACITY_MAX] at hb; omega
      | pinned _ _ hp => obtain ⟨j, _, hj⟩ := hp; rw [hu.isTracked] at hj; simp at hj
      | done t' _ habs haux _ _ _ => exact ⟨t', rfl, habs, haux⟩
  | insertLit n v =>
    simp only [STable.apply] at hs
    exact put_spec h hu hs
  | insertStatic idx v =>
    simp only [STable.apply] at hs
    cases hg : staticGet idx with
    | none => rw [hg] at hs; simp at hs
    | some f =>
      rw [hg] at hs; simp only [Option.bind_some] at hs
      simp only [encoderInstr, hg]
      exact put_spec h hu hs
  | insertDyn rel v =>
    simp only [STable.apply] at hs
    cases hg : st.relEntry rel with
    | none => rw [hg] at hs; simp at hs
    | some f =>
      rw [hg] at hs; simp only [Option.bind_some] at hs
      simp only [encoderInstr, getRelative_spec h hg, Res.bind_ok]
      exact put_spec h hu hs
  | dup rel =>
    simp only [STable.apply] at hs
    cases hg : st.relEntry rel with
    | none => rw [hg] at hs; simp at hs
    | some f =>
      rw [hg] at hs; simp only [Option.bind_some] at hs
      simp only [encoderInstr, getRelative_spec h hg, Res.bind_ok]
      exact put_spec h hu hs

theorem STable.insert_all {st st' : STable} {f : Field} (h : st.insert f = some st') :
    st'.all = st.all ++ [f] ∧ st'.cap = st.cap ∧ st.dropped ≤ st'.dropped := by
  unfold STable.insert at h; split at h
  · simp at h
  · simp at h; subst h; simp

/-- one instruction appends at most one entry and never un-evicts -/
theorem STable.apply_mono {st st' : STable} {i : EncInstr} (h : st.apply i = some st') :
    (∃ l, st'.all = st.all ++ l ∧ l.length ≤ 1) ∧ st.dropped ≤ st'.dropped := by
  cases i with
  | sizeUpdate c =>
    simp only [STable.apply] at h; split at h
    · simp at h
    · simp at h; subst h; exact ⟨⟨[], by simp [STable.setCap]⟩, by simp [STable.setCap]⟩
  | insertLit n v =>
    simp only [STable.apply] at h
    have := STable.insert_all h; exact ⟨⟨_, this.1, by simp⟩, this.2.2⟩
  | insertStatic idx v =>
    simp only [STable.apply] at h
    cases hg : staticGet idx with
    | none => rw [hg] at h; simp at h
    | some f =>
      rw [hg] at h; simp only [Option.bind_some] at h
      have := STable.insert_all h; exact ⟨⟨_, this.1, by simp⟩, this.2.2⟩
  | insertDyn rel v =>
    simp only [STable.apply] at h
    cases hg : st.relEntry rel with
    | none => rw [hg] at h; simp at h
    | some f =>
      rw [hg] at h; simp only [Option.bind_some] at h
      have := STable.insert_all h; exact ⟨⟨_, this.1, by simp⟩, this.2.2⟩
  | dup rel =>
    simp only [STable.apply] at h
    cases hg : st.relEntry rel with
    | none => rw [hg] at h; simp at h
    | some f =>
      rw [hg] at h; simp only [Option.bind_some] at h
      have := STable.insert_all h; exact ⟨⟨_, this.1, by simp⟩, this.2.2⟩

theorem STable.run_mono {st st' : STable} {ins : List EncInstr} (h : st.run ins = some st') :
    (∃ l, st'.all = st.all ++ l ∧ l.length ≤ ins.length) ∧ st.dropped ≤ st'.dropped := by
  induction ins generalizing st with
  | nil => simp [STable.run] at h; subst h; exact ⟨⟨[], by simp⟩, Nat.le_refl _⟩
  | cons i r ih =>
    simp only [STable.run] at h
    cases hi : st.apply i with
    | none => rw [hi] at h; simp at h
    | some st1 =>
      rw [hi] at h; simp only [Option.bind_some] at h
      obtain ⟨⟨l1, hl1, hn1⟩, hd1⟩ := STable.apply_mono hi
      obtain ⟨⟨l2, hl2, hn2⟩, hd2⟩ := ih h
      exact ⟨⟨l1 ++ l2, by rw [hl2, hl1, List.append_assoc], by simp; omega⟩, by omega⟩

theorem STable.apply_cap_le {st st' : STable} {i : EncInstr} (h : st.apply i = some st')
    (hc : st.cap ≤ 1073741823) : st'.cap ≤ 1073741823 := by
  cases i with
  | sizeUpdate c =>
    simp only [STable.apply] at h; split at h
    · simp at h
    · simp at h; subst h; simp [STable.setCap]; omega
  | insertLit n v =>
    simp only [STable.apply] at h
    rw [(STable.insert_all h).2.1]; exact hc
  | insertStatic idx v =>
    simp only [STable.apply] at h
    cases hg : staticGet idx with
    | none => rw [hg] at h; simp at h
    | some f => rw [hg] at h; simp only [Option.bind_some] at h; rw [(STable.insert_all h).2.1]; exact hc
  | insertDyn rel v =>
    simp only [STable.apply] at h
    cases hg : st.relEntry rel with
    | none => rw [hg] at h; simp at h
    | some f => rw [hg] at h; simp only [Option.bind_some] at h; rw [(STable.insert_all h).2.1]; exact hc
  | dup rel =>
    simp only [STable.apply] at h
    cases hg : st.relEntry rel with
    | none => rw [hg] at h; simp at h
    | some f => rw [hg] at h; simp only [Option.bind_some] at h; rw [(STable.insert_all h).2.1]; exact hc

theorem STable.run_cap_le {st st' : STable} {ins : List EncInstr} (h : st.run ins = some st')
    (hc : st.cap ≤ 1073741823) : st'.cap ≤ 1073741823 := by
  induction ins generalizing st with
  | nil => simp [STable.run] at h; subst h; exact hc
  | cons i r ih =>
    simp only [STable.run] at h
    cases hi : st.apply i with
    | none => rw [hi] at h; simp at h
    | some st1 => rw [hi] at h; simp only [Option.bind_some] at h; exact ih h (STable.apply_cap_le hi hc)

theorem STable.run_append {st : STable} {a b : List EncInstr} :
    st.run (a ++ b) = (st.run a).bind fun s => s.run b := by
  induction a generalizing st with
  | nil => simp [STable.run]
  | cons i r ih =>
    simp only [List.cons_append, STable.run]
    cases st.apply i with
    | none => simp
    | some s => simp [ih]

theorem encoderInstrs_spec {t st} (h : Abs t st) (hu : Untracked t) {ins : List EncInstr} {st' : STable}
    (hs : st.run ins = some st') :
    ∃ t', encoderInstrs t ins = (t', none) ∧ Abs t' st' ∧ t'.aux = t.aux := by
  induction ins generalizing t st with
  | nil => simp [STable.run] at hs; subst hs; exact ⟨t, rfl, h, rfl⟩
  | cons i r ih =>
    simp only [STable.run] at hs
    cases hi : st.apply i with
    | none => rw [hi] at hs; simp at hs
    | some st1 =>
      rw [hi] at hs; simp only [Option.bind_some] at hs
      obtain ⟨t1, h1, habs1, haux1⟩ := encoderInstr_spec h hu hi
      obtain ⟨t2, h2, habs2, haux2⟩ := ih habs1 (hu.of_aux haux1) hs
      exact ⟨t2, by simp only [encoderInstrs, h1, h2], habs2, by rw [haux2, haux1]⟩

end H3.Dyn
