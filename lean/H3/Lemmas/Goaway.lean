import H3.Model.Goaway
import H3.Spec.Goaway
/-! Invariants of `H3.Goaway.step` against the observable history of `H3.Spec.Goaway` (helper
lemmas for `H3.Props.C08`). -/
namespace H3.Lemmas.Goaway
open H3.Goaway H3.Spec.Goaway H3.StreamId

/-- the history after more observations. -/
def pushAll (h : Hist) (os : List Obs) : Hist := os.foldl Hist.push h

theorem pushAll_append (h : Hist) (a b : List Obs) : pushAll h (a ++ b) = pushAll (pushAll h a) b := by
  simp [pushAll, List.foldl_append]

theorem valid_append (strict : Bool) (a b : List Obs) : ∀ h : Hist,
    valid strict h (a ++ b) = (valid strict h a && valid strict (pushAll h a) b) := by
  induction a with
  | nil => intro h; simp [valid, pushAll]
  | cons o r ih => intro h; simp [valid, pushAll, ih, Bool.and_assoc]

theorem outcomes_append (a b : List Obs) : outcomes (a ++ b) = outcomes a ++ outcomes b := by
  induction a with
  | nil => rfl
  | cons o r ih => cases o <;> simp [outcomes, ih]

/-! ### identifier arithmetic -/

/-- the identifier `shutdown` announces is always a client-initiated bidirectional stream ID,
    saturated or not. -/
theorem shutdownId_valid (l : Option Nat) (n : Nat) (hl : ∀ L, l = some L → L % 4 = 0) :
    clientBidi (shutdownId l n) = true := by
  cases l with
  | none =>
    simp only [shutdownId, FIRST_REQUEST, add, new, satAdd, index, dir, initiator, U64MAX, VARINT_MAX, clientBidi]
    simp
    omega
  | some L =>
    have := hl L rfl
    simp only [shutdownId, succSat, add, new, satAdd, index, dir, initiator, U64MAX, VARINT_MAX, clientBidi]
    simp
    omega

/-- below the saturation point it lies `n+1` requests past the largest accepted one. -/
theorem shutdownId_above (L n : Nat) (h4 : L % 4 = 0) (hb : L / 4 + n + 1 ≤ 2^60 - 1) :
    shutdownId (some L) n = L + 4 * (n + 1) := by
  simp only [shutdownId, succSat, add, new, satAdd, index, dir, initiator, U64MAX, VARINT_MAX]
  omega

theorem shutdownId_none (n : Nat) (hb : n ≤ 2^60 - 1) : shutdownId none n = 4 * n := by
  simp only [shutdownId, FIRST_REQUEST, add, new, satAdd, index, dir, initiator, U64MAX, VARINT_MAX]
  omega

/-! ### the invariant -/

/-- state against observable history; `P` is what is known of every stream ID the transport
    delivers. -/
structure GInv (P : Nat → Prop) (s : State) (h : Hist) : Prop where
  /-- `sent_closing` is the identifier of the last GOAWAY on the wire -/
  sent_eq : h.sent.head? = s.sentClosing
  /-- … and the smallest one sent -/
  sent_min : ∀ g, s.sentClosing = some g → ∀ p ∈ h.sent, g ≤ p
  /-- the recorded largest accepted ID bounds every request shown to the application -/
  surf_le : ∀ i ∈ h.surfaced, ∃ L, s.largest = some L ∧ i ≤ L
  largest_ok : ∀ L, s.largest = some L → P L
  incoming_ok : ∀ id ∈ s.incoming, P id

theorem ginv_init (P : Nat → Prop) : GInv P {} {} := by
  constructor <;> simp

theorem mustReject_eq (h : Hist) (i : Nat) : mustReject h i = rejects (lastSent h) i := by
  unfold mustReject rejects
  cases lastSent h <;> rfl

/-- hypotheses on the identifiers, shared by the lemmas below: `P` gives request IDs; in the
    strict reading every `shutdown` count `n` with `Q n` announces an ID above the largest. -/
structure Hyp (strict : Bool) (P Q : Nat → Prop) : Prop where
  req : ∀ id, P id → id % 4 = 0
  zero : Q 0
  above : strict = true → ∀ L n, P L → Q n → L < shutdownId (some L) n

theorem procCtlServer_fields (l : List Nat) : ∀ s : State,
    (procCtlServer s l).sentClosing = s.sentClosing ∧ (procCtlServer s l).largest = s.largest ∧
    (procCtlServer s l).incoming = s.incoming ∧ (procCtlServer s l).ongoing = s.ongoing := by
  induction l with
  | nil => intro s; simp [procCtlServer]
  | cons id rest ih =>
    intro s
    unfold procCtlServer
    have hp : (processGoaway s id).sentClosing = s.sentClosing ∧ (processGoaway s id).largest = s.largest ∧
        (processGoaway s id).incoming = s.incoming ∧ (processGoaway s id).ongoing = s.ongoing := by
      unfold processGoaway; split <;> simp
    by_cases hf : (processGoaway s id).failed = true
    · simp only [hf, if_true]; exact hp
    · simp only [hf]
      simp only [Bool.false_eq_true, if_false]
      obtain ⟨a, b, c, d⟩ := ih (processGoaway s id)
      exact ⟨a.trans hp.1, b.trans hp.2.1, c.trans hp.2.2.1, d.trans hp.2.2.2⟩

section
variable {strict : Bool} {P Q : Nat → Prop} (H : Hyp strict P Q)
include H

theorem shutdown_ok (s : State) (h : Hist) (n : Nat) (hn : Q n) (hi : GInv P s h) :
    valid strict h (shutdown s n).2 = true ∧ GInv P (shutdown s n).1 (pushAll h (shutdown s n).2) ∧
    (shutdown s n).1.incoming = s.incoming ∧ (shutdown s n).1.ongoing = s.ongoing ∧
    (shutdown s n).1.recvClosing = s.recvClosing ∧ (shutdown s n).1.largest = s.largest ∧
    outcomes (shutdown s n).2 = [] := by
  by_cases hk : keepsPrevious s.sentClosing (shutdownId s.largest n) = true
  · have e : shutdown s n = (s, []) := by simp [shutdown, hk]
    rw [e]
    exact ⟨by simp [valid], by simpa [pushAll] using hi, rfl, rfl, rfl, rfl, by simp [outcomes]⟩
  · have e : shutdown s n = ({ s with sentClosing := some (shutdownId s.largest n), closing := true },
        [.goaway (shutdownId s.largest n)]) := by simp [shutdown, hk]
    rw [e]
    have hvalid : clientBidi (shutdownId s.largest n) = true :=
      shutdownId_valid _ _ (fun L hL => H.req L (hi.largest_ok L hL))
    -- every identifier sent before is at least the new one
    have hle : ∀ p ∈ h.sent, shutdownId s.largest n ≤ p := by
      intro p hp
      cases hs : s.sentClosing with
      | none =>
        have := hi.sent_eq
        rw [hs] at this
        have : h.sent = [] := by simpa using this
        rw [this] at hp; cases hp
      | some g =>
        have hg : ¬ g ≤ shutdownId s.largest n := by
          simpa [keepsPrevious, hs] using hk
        have := hi.sent_min g hs p hp
        omega
    refine ⟨?_, ⟨?_, ?_, ?_, ?_, ?_⟩, rfl, rfl, rfl, rfl, by simp [outcomes]⟩
    · -- the GOAWAY observation is acceptable
      simp only [valid, okObs, okGoaway, Bool.and_true, Bool.and_eq_true, hvalid, true_and]
      refine ⟨by simpa using hle, ?_⟩
      cases hst : strict with
      | false => simp
      | true =>
        simp only [Bool.not_true, Bool.false_or, noRetract, List.all_eq_true, decide_eq_true_eq]
        intro i hi'
        obtain ⟨L, hL, hiL⟩ := hi.surf_le i hi'
        have := H.above hst L n (hi.largest_ok L hL) hn
        rw [hL]
        omega
    · simp [pushAll, Hist.push]
    · intro g hg p hp
      simp only [Option.some.injEq] at hg
      subst hg
      simp only [pushAll, List.foldl, Hist.push, List.mem_cons] at hp
      rcases hp with rfl | hp
      · exact Nat.le_refl _
      · exact hle p hp
    · simpa [pushAll, Hist.push] using hi.surf_le
    · exact hi.largest_ok
    · exact hi.incoming_ok

theorem acceptNone_ok (s : State) (h : Hist) (hi : GInv P s h) :
    valid strict h (acceptNone s).2 = true ∧ GInv P (acceptNone s).1 (pushAll h (acceptNone s).2) ∧
    (acceptNone s).1.incoming = s.incoming ∧ outcomes (acceptNone s).2 = [] := by
  obtain ⟨h1, h2, h3, _, _, _, h7⟩ := shutdown_ok H s h 0 H.zero hi
  unfold acceptNone
  refine ⟨?_, ?_, h3, ?_⟩
  · rw [valid_append, h1]; simp [valid, okObs]
  · rw [pushAll_append]; simpa [pushAll, Hist.push] using h2
  · rw [outcomes_append, h7]; simp [outcomes]

theorem acceptLoop_ok (l : List Nat) : ∀ (refused : Bool) (s : State) (h : Hist), GInv P s h → (∀ id ∈ l, P id) →
    valid strict h (acceptLoop refused s l).2 = true ∧
    GInv P (acceptLoop refused s l).1 (pushAll h (acceptLoop refused s l).2) ∧
    outcomes (acceptLoop refused s l).2 ++ (acceptLoop refused s l).1.incoming = l := by
  induction l with
  | nil =>
    intro refused s h hi _
    have hi0 : GInv P { s with incoming := [] } h :=
      ⟨hi.sent_eq, hi.sent_min, hi.surf_le, hi.largest_ok, by simp⟩
    unfold acceptLoop
    by_cases hd : drained refused { s with incoming := [] } = true
    · simp only [hd, if_true]
      obtain ⟨h1, h2, h3, h4⟩ := acceptNone_ok H _ h hi0
      exact ⟨h1, h2, by simp [h4, h3]⟩
    · simp only [hd]
      simp only [Bool.false_eq_true, if_false]
      exact ⟨by simp [valid, okObs], by simpa [pushAll, Hist.push] using hi0, by simp [outcomes]⟩
  | cons id rest ih =>
    intro refused s h hi hl
    have hrest : ∀ j ∈ rest, P j := fun j hj => hl j (List.mem_cons_of_mem _ hj)
    unfold acceptLoop
    by_cases hrj : rejects s.sentClosing id = true
    · simp only [hrj, if_true]
      have hok : okObs strict h (.rejected id) = true := by
        simp only [okObs, mustReject_eq, lastSent, hi.sent_eq, hrj]
      have hi' : GInv P s (h.push (.rejected id)) :=
        ⟨by simpa [Hist.push] using hi.sent_eq, by simpa [Hist.push] using hi.sent_min,
          by simpa [Hist.push] using hi.surf_le, hi.largest_ok, hi.incoming_ok⟩
      obtain ⟨h1, h2, h3⟩ := ih true s (h.push (.rejected id)) hi' hrest
      refine ⟨by simp only [valid, hok, h1, Bool.and_self], ?_, ?_⟩
      · simpa [pushAll] using h2
      · simp only [outcomes, List.cons_append, h3]
    · simp only [hrj]
      simp only [Bool.false_eq_true, if_false]
      have hrj' : rejects s.sentClosing id = false := by simpa using hrj
      refine ⟨?_, ⟨?_, ?_, ?_, ?_, ?_⟩, ?_⟩
      · simp only [valid, okObs, mustReject_eq, lastSent, hi.sent_eq, hrj', Bool.not_false, Bool.and_self]
      · simpa [pushAll, Hist.push, surface] using hi.sent_eq
      · simpa [pushAll, Hist.push, surface] using hi.sent_min
      · intro i hi'
        simp only [pushAll, List.foldl, Hist.push, List.mem_cons] at hi'
        refine ⟨maxOpt s.largest id, rfl, ?_⟩
        rcases hi' with rfl | hi'
        · unfold maxOpt; cases s.largest <;> simp <;> omega
        · obtain ⟨L, hL, hiL⟩ := hi.surf_le i hi'
          simp only [maxOpt, hL]
          omega
      · intro L hL
        simp only [surface, Option.some.injEq] at hL
        subst hL
        cases hl' : s.largest with
        | none => simpa [maxOpt] using hl id (by simp)
        | some L0 =>
          simp only [maxOpt]
          rcases Nat.le_total L0 id with h' | h'
          · rw [Nat.max_eq_right h']; exact hl id (by simp)
          · rw [Nat.max_eq_left h']; exact hi.largest_ok L0 hl'
      · simpa [surface] using hrest
      · simp [outcomes, surface]

theorem accept_ok (s : State) (h : Hist) (hi : GInv P s h) :
    valid strict h (accept s).2 = true ∧ GInv P (accept s).1 (pushAll h (accept s).2) ∧
    outcomes (accept s).2 ++ (accept s).1.incoming = s.incoming := by
  unfold accept
  by_cases hf : s.failed = true
  · simp only [hf, if_true]
    exact ⟨by simp [valid, okObs], by simpa [pushAll, Hist.push] using hi, by simp [outcomes]⟩
  · simp only [hf]
    simp only [Bool.false_eq_true, if_false]
    obtain ⟨e1, e2, e3, _⟩ := procCtlServer_fields s.ctl s
    have hi1 : GInv P (procCtlServer s s.ctl) h :=
      ⟨by rw [e1]; exact hi.sent_eq, by rw [e1]; exact hi.sent_min, by rw [e2]; exact hi.surf_le,
        by rw [e2]; exact hi.largest_ok, by rw [e3]; exact hi.incoming_ok⟩
    by_cases hf1 : (procCtlServer s s.ctl).failed = true
    · simp only [hf1, if_true]
      exact ⟨by simp [valid, okObs], by simpa [pushAll, Hist.push] using hi1, by simp [outcomes, e3]⟩
    · simp only [hf1]
      simp only [Bool.false_eq_true, if_false]
      have := acceptLoop_ok H (procCtlServer s s.ctl).incoming false _ h hi1 hi1.incoming_ok
      rw [e3] at this ⊢
      exact this

end


/-! ### client side -/

theorem procCtlClient_fields (l : List Nat) : ∀ s : State,
    (procCtlClient s l).sentClosing = s.sentClosing ∧ (procCtlClient s l).largest = s.largest ∧
    (procCtlClient s l).incoming = s.incoming ∧ (procCtlClient s l).opened = s.opened := by
  induction l with
  | nil => intro s; simp [procCtlClient]
  | cons id rest ih =>
    intro s
    unfold procCtlClient
    have hp : (processGoaway s id).sentClosing = s.sentClosing ∧ (processGoaway s id).largest = s.largest ∧
        (processGoaway s id).incoming = s.incoming ∧ (processGoaway s id).opened = s.opened := by
      unfold processGoaway; split <;> simp
    by_cases hr : isRequest id = true
    · simp only [hr, if_true]
      by_cases hf : (processGoaway s id).failed = true
      · simp only [hf, if_true]; exact hp
      · simp only [hf]
        simp only [Bool.false_eq_true, if_false]
        obtain ⟨a, b, c, d⟩ := ih (processGoaway s id)
        exact ⟨a.trans hp.1, b.trans hp.2.1, c.trans hp.2.2.1, d.trans hp.2.2.2⟩
    · simp [hr]

/-- the oracle's view of a client state. -/
def absClient (s : State) : Client := ⟨s.recvClosing, s.failed, s.closing⟩

theorem clientStep_err (l : List Nat) : ∀ c : Client, c.err = true → l.foldl clientStep c = c := by
  induction l with
  | nil => intro c _; rfl
  | cons id r ih =>
    intro c h
    have : clientStep c id = c := by simp [clientStep, h]
    simp only [List.foldl, this]
    exact ih c h

theorem clientStep_stopped (l : List Nat) : ∀ c : Client, c.stopped = true → (l.foldl clientStep c).stopped = true := by
  induction l with
  | nil => intro c h; exact h
  | cons id r ih =>
    intro c h
    simp only [List.foldl]
    apply ih
    unfold clientStep
    split
    · exact h
    · split <;> simp [h]

theorem isRequest_iff (id : Nat) : isRequest id = true ↔ id % 4 = 0 := by
  simp only [isRequest, dir, initiator, Bool.and_eq_true, beq_iff_eq]
  omega

theorem clientBad_eq (prev : Option Nat) (id : Nat) (h4 : id % 4 = 0) (hlt : id < 2^62) :
    clientBad prev id = largerThanBefore prev id := by
  have : clientBidi id = true := by simp [clientBidi, h4]; omega
  unfold clientBad largerThanBefore
  rw [this]
  cases prev <;> simp

theorem procCtlClient_abs (l : List Nat) : ∀ s : State, s.failed = false → (∀ id ∈ l, id < 2^62) →
    absClient (procCtlClient s l) = l.foldl clientStep (absClient s) ∧
    ((procCtlClient s l).failed = false → (procCtlClient s l).ctl = []) := by
  induction l with
  | nil => intro s _ _; simp [procCtlClient, absClient]
  | cons id rest ih =>
    intro s hf hl
    have hid : id < 2^62 := hl id (by simp)
    have hrest : ∀ j ∈ rest, j < 2^62 := fun j hj => hl j (List.mem_cons_of_mem _ hj)
    unfold procCtlClient
    by_cases hr : isRequest id = true
    · simp only [hr, if_true]
      have h4 := (isRequest_iff id).mp hr
      by_cases hlb : largerThanBefore s.recvClosing id = true
      · have hp : processGoaway s id = { s with failed := true } := by simp [processGoaway, hlb]
        have hc : clientStep (absClient s) id = { absClient s with err := true } := by
          simp [clientStep, absClient, hf, clientBad_eq _ _ h4 hid, hlb]
        simp only [hp, if_true, List.foldl, hc]
        rw [clientStep_err rest _ rfl]
        exact ⟨rfl, by simp⟩
      · have hlb' : largerThanBefore s.recvClosing id = false := by simpa using hlb
        have hp : processGoaway s id = { s with recvClosing := some id, closing := true } := by
          simp [processGoaway, hlb']
        have hc : clientStep (absClient s) id = absClient { s with recvClosing := some id, closing := true } := by
          simp [clientStep, absClient, hf, clientBad_eq _ _ h4 hid, hlb']
        simp only [hp, hf, List.foldl, hc]
        simp only [Bool.false_eq_true, if_false]
        exact ih _ (by simp) hrest
    · simp only [hr]
      simp only [Bool.false_eq_true, if_false]
      have h4 : id % 4 ≠ 0 := fun h => hr ((isRequest_iff id).mpr h)
      have hb : clientBad s.recvClosing id = true := by
        have : clientBidi id = false := by simp [clientBidi, h4]
        simp [clientBad, this]
      have hc : clientStep (absClient s) id = { absClient s with err := true } := by
        simp [clientStep, absClient, hf, hb]
      simp only [List.foldl, hc]
      rw [clientStep_err rest _ rfl]
      exact ⟨rfl, by simp⟩

/-- the oracle without the fold: no error so far ⇔ every identifier is a request ID and the
    sequence never increases (also against the identifier accepted before it). -/
theorem clientFold_ok (ids : List Nat) : ∀ c : Client, c.err = false →
    ((ids.foldl clientStep c).err = false ↔
      (∀ id ∈ ids, clientBidi id = true) ∧ ids.Pairwise (fun a b => b ≤ a) ∧
      (∀ p, c.prev = some p → ∀ id ∈ ids, id ≤ p)) := by
  induction ids with
  | nil => intro c hc; simp [hc]
  | cons id r ih =>
    intro c hc
    simp only [List.foldl]
    by_cases hb : clientBad c.prev id = true
    · have hs : clientStep c id = { c with err := true } := by simp [clientStep, hc, hb]
      rw [hs, clientStep_err r _ rfl]
      simp only [Bool.true_eq_false, false_iff, not_and]
      intro h1 _ h3
      have hid := h1 id (by simp)
      unfold clientBad at hb
      rw [hid] at hb
      cases hp : c.prev with
      | none => rw [hp] at hb; simp at hb
      | some p =>
        rw [hp] at hb
        have := h3 p hp id (by simp)
        simp at hb
        omega
    · have hb' : clientBad c.prev id = false := by simpa using hb
      have hs : clientStep c id = { c with prev := some id, stopped := true } := by simp [clientStep, hc, hb']
      rw [hs, ih { c with prev := some id, stopped := true } hc]
      unfold clientBad at hb'
      simp only [Bool.or_eq_false_iff, Bool.not_eq_false'] at hb'
      obtain ⟨hbidi, hprev⟩ := hb'
      simp only [List.mem_cons, forall_eq_or_imp, List.pairwise_cons, Option.some.injEq, forall_eq']
      constructor
      · rintro ⟨h1, h2, h3⟩
        refine ⟨⟨hbidi, h1⟩, ⟨h3, h2⟩, ?_⟩
        intro p hp
        rw [hp] at hprev
        have : id ≤ p := by simpa using hprev
        exact ⟨this, fun x hx => Nat.le_trans (h3 x hx) this⟩
      · rintro ⟨⟨_, h1⟩, ⟨h3, h2⟩, _⟩
        exact ⟨h1, h2, h3⟩

theorem feed_prefix (more : List Ev) : ∀ st : List Nat × List Nat, ∃ y, (more.foldl feed st).1 = st.1 ++ y := by
  induction more with
  | nil => intro st; exact ⟨[], by simp⟩
  | cons e r ih =>
    intro st
    obtain ⟨y, hy⟩ := ih (feed st e)
    simp only [List.foldl]
    cases e with
    | pollClose => exact ⟨st.2 ++ y, by rw [hy]; simp [feed]⟩
    | recvGoaway id => exact ⟨y, by rw [hy]; simp [feed]⟩
    | arrive _ => exact ⟨y, by rw [hy]; simp [feed]⟩
    | accept => exact ⟨y, by rw [hy]; simp [feed]⟩
    | shutdown _ => exact ⟨y, by rw [hy]; simp [feed]⟩
    | complete _ => exact ⟨y, by rw [hy]; simp [feed]⟩
    | sendCall => exact ⟨y, by rw [hy]; simp [feed]⟩
    | sendOpened => exact ⟨y, by rw [hy]; simp [feed]⟩
    | resolve _ => exact ⟨y, by rw [hy]; simp [feed]⟩

/-! ### `accept` answers `None` only when drained -/

theorem surfacedIn_append (a b : List Obs) : surfacedIn (a ++ b) = surfacedIn a ++ surfacedIn b := by
  induction a with
  | nil => rfl
  | cons o r ih => cases o <;> simp [surfacedIn, ih]

theorem shutdown_quiet (s : State) (n : Nat) :
    (shutdown s n).1.ongoing = s.ongoing ∧ surfacedIn (shutdown s n).2 = [] ∧ Obs.acceptNone ∉ (shutdown s n).2 := by
  simp only [shutdown]
  split <;> simp [surfacedIn]

theorem acceptNone_shape (s : State) :
    (acceptNone s).1.ongoing = s.ongoing ∧ surfacedIn (acceptNone s).2 = [] ∧ Obs.acceptNone ∈ (acceptNone s).2 := by
  obtain ⟨h1, h2, _⟩ := shutdown_quiet s 0
  refine ⟨h1, ?_, ?_⟩
  · simp [acceptNone, surfacedIn_append, h2, surfacedIn]
  · simp [acceptNone]

/-- which requests one run of the accept loop adds to `ongoing_streams`: the one it surfaces. -/
theorem acceptLoop_ongoing (q : List Nat) : ∀ (refused : Bool) (s : State),
    (acceptLoop refused s q).1.ongoing = surfacedIn (acceptLoop refused s q).2 ++ s.ongoing := by
  induction q with
  | nil =>
    intro refused s
    unfold acceptLoop
    by_cases hd : drained refused { s with incoming := [] } = true
    · simp only [hd, if_true]
      obtain ⟨h1, h2, _⟩ := acceptNone_shape { s with incoming := [] }
      rw [h1, h2]; rfl
    · simp only [hd]
      simp [surfacedIn]
  | cons id rest ih =>
    intro refused s
    unfold acceptLoop
    by_cases hr : rejects s.sentClosing id = true
    · simp only [hr, if_true, surfacedIn]
      exact ih true s
    · simp only [hr]
      simp [surface, surfacedIn]

/-- exactly when one run of the accept loop answers `None`: no request is ongoing, every stream in
    the transport's queue is one the filter rejects — no acceptable stream is left waiting —, and
    either a stream has been rejected in this poll (local shutdown) or a GOAWAY of the peer has been
    processed. -/
theorem acceptLoop_none_iff (q : List Nat) : ∀ (refused : Bool) (s : State),
    Obs.acceptNone ∈ (acceptLoop refused s q).2 ↔
      s.ongoing = [] ∧ (∀ id ∈ q, rejects s.sentClosing id = true) ∧
      (refused = true ∨ q ≠ [] ∨ s.recvClosing.isSome = true) := by
  induction q with
  | nil =>
    intro refused s
    unfold acceptLoop
    by_cases hd : drained refused { s with incoming := [] } = true
    · simp only [hd, if_true]
      obtain ⟨_, _, h3⟩ := acceptNone_shape { s with incoming := [] }
      simp only [drained, Bool.and_eq_true, Bool.or_eq_true, List.isEmpty_iff] at hd
      refine ⟨fun _ => ⟨hd.2, by simp, ?_⟩, fun _ => h3⟩
      rcases hd.1 with h | h
      · exact Or.inl h
      · exact Or.inr (Or.inr h)
    · simp only [hd]
      simp only [drained, Bool.and_eq_true, Bool.or_eq_true, List.isEmpty_iff, not_and] at hd
      simp only [Bool.false_eq_true, if_false, List.mem_singleton, reduceCtorEq, false_iff, not_and]
      intro h1 _ h2
      rcases h2 with h | h | h
      · exact hd (Or.inl h) h1
      · exact h rfl
      · exact hd (Or.inr h) h1
  | cons id rest ih =>
    intro refused s
    unfold acceptLoop
    by_cases hr : rejects s.sentClosing id = true
    · simp only [hr, if_true, List.mem_cons, reduceCtorEq, false_or]
      rw [ih true s]
      constructor
      · rintro ⟨h1, h2, _⟩
        refine ⟨h1, ?_, Or.inr (Or.inl (by simp))⟩
        intro j hj
        rcases hj with rfl | hj
        · exact hr
        · exact h2 j hj
      · rintro ⟨h1, h2, _⟩
        exact ⟨h1, fun j hj => h2 j (Or.inr hj), Or.inl rfl⟩
    · simp only [hr]
      simp only [Bool.false_eq_true, if_false, List.mem_singleton, reduceCtorEq, false_iff, not_and]
      intro _ h2
      exact absurd (h2 id (by simp)) hr

/-- a run of the accept loop that answers `None` has surfaced nothing. -/
theorem acceptLoop_none_quiet (q : List Nat) : ∀ (refused : Bool) (s : State),
    Obs.acceptNone ∈ (acceptLoop refused s q).2 → surfacedIn (acceptLoop refused s q).2 = [] := by
  induction q with
  | nil =>
    intro refused s hn
    unfold acceptLoop at hn ⊢
    by_cases hd : drained refused { s with incoming := [] } = true
    · simp only [hd, if_true]; exact (acceptNone_shape _).2.1
    · simp only [hd]; simp [surfacedIn]
  | cons id rest ih =>
    intro refused s hn
    unfold acceptLoop at hn ⊢
    by_cases hr : rejects s.sentClosing id = true
    · simp only [hr, if_true, List.mem_cons, reduceCtorEq, false_or] at hn
      simp only [hr, if_true, surfacedIn]
      exact ih true s hn
    · simp only [hr] at hn
      simp at hn

theorem acceptNone_incoming (s : State) : (acceptNone s).1.incoming = s.incoming ∧ outcomes (acceptNone s).2 = [] := by
  simp only [acceptNone, shutdown]
  split <;> simp [outcomes]

/-- a run of the accept loop that answers `None` has given every stream of the queue its outcome (all
    refused, by `acceptLoop_none_iff`) and leaves nothing waiting. -/
theorem acceptLoop_none_empties (q : List Nat) : ∀ (refused : Bool) (s : State),
    Obs.acceptNone ∈ (acceptLoop refused s q).2 →
      (acceptLoop refused s q).1.incoming = [] ∧ outcomes (acceptLoop refused s q).2 = q := by
  induction q with
  | nil =>
    intro refused s hn
    unfold acceptLoop at hn ⊢
    by_cases hd : drained refused { s with incoming := [] } = true
    · simp only [hd, if_true]
      obtain ⟨h1, h2⟩ := acceptNone_incoming { s with incoming := [] }
      exact ⟨h1, h2⟩
    · simp only [hd] at hn
      simp at hn
  | cons id rest ih =>
    intro refused s hn
    unfold acceptLoop at hn ⊢
    by_cases hr : rejects s.sentClosing id = true
    · simp only [hr, if_true, List.mem_cons, reduceCtorEq, false_or] at hn
      simp only [hr, if_true, outcomes]
      obtain ⟨h1, h2⟩ := ih true s hn
      exact ⟨h1, by rw [h2]⟩
    · simp only [hr] at hn
      simp at hn

theorem procCtlClient_ongoing (l : List Nat) : ∀ s : State, (procCtlClient s l).ongoing = s.ongoing := by
  induction l with
  | nil => intro s; simp [procCtlClient]
  | cons id rest ih =>
    intro s
    unfold procCtlClient
    have hp : (processGoaway s id).ongoing = s.ongoing := by
      unfold processGoaway; split <;> rfl
    by_cases hr : isRequest id = true
    · simp only [hr, if_true]
      by_cases hf : (processGoaway s id).failed = true
      · simp only [hf, if_true]; exact hp
      · simp only [hf]
        simp only [Bool.false_eq_true, if_false]
        exact (ih _).trans hp
    · simp [hr]

/-- one step of a history: `ongoing_streams` moves as the history-level `inProgress` does, and the
    step shows `None` only as the answer of `accept` on a state without ongoing requests. -/
theorem step_progress (s : State) (e : Ev) :
    (step s e).1.ongoing = progressStep s.ongoing (e, (step s e).2) ∧
    (Obs.acceptNone ∈ (step s e).2 → e = .accept ∧ s.ongoing = [] ∧ (step s e).1.ongoing = []) := by
  cases e with
  | arrive id => simp [step, progressStep, surfacedIn]
  | accept =>
    simp only [step, accept]
    by_cases hf : s.failed = true
    · simp [hf, progressStep, surfacedIn]
    · simp only [hf]
      simp only [Bool.false_eq_true, if_false]
      have hs1 : (procCtlServer s s.ctl).ongoing = s.ongoing := (procCtlServer_fields s.ctl s).2.2.2
      by_cases hf1 : (procCtlServer s s.ctl).failed = true
      · simp [hf1, progressStep, surfacedIn, hs1]
      · simp only [hf1]
        simp only [Bool.false_eq_true, if_false]
        have h1 := acceptLoop_ongoing (procCtlServer s s.ctl).incoming false (procCtlServer s s.ctl)
        refine ⟨by rw [h1, hs1]; rfl, ?_⟩
        intro hn
        have h2 := ((acceptLoop_none_iff _ _ _).mp hn).1
        refine ⟨trivial, hs1 ▸ h2, ?_⟩
        rw [h1, h2, List.append_nil]
        exact acceptLoop_none_quiet _ _ _ hn
  | shutdown n =>
    simp only [step]
    by_cases hf : s.failed = true
    · simp [hf, progressStep, surfacedIn]
    · simp only [hf]
      simp only [Bool.false_eq_true, if_false]
      obtain ⟨h1, h2, h3⟩ := shutdown_quiet s n
      refine ⟨by simp [progressStep, surfacedIn_append, h1, h2, surfacedIn], ?_⟩
      intro hn
      simp only [List.mem_append, List.mem_singleton, reduceCtorEq, or_false] at hn
      exact absurd hn h3
  | complete id => simp [step, progressStep, surfacedIn]
  | recvGoaway id => simp [step, progressStep, surfacedIn]
  | pollClose =>
    simp only [step, pollClose]
    by_cases hf : s.failed = true
    · simp [hf, progressStep, surfacedIn]
    · simp only [hf]
      simp only [Bool.false_eq_true, if_false]
      by_cases hf1 : (procCtlClient s s.ctl).failed = true
      · simp [hf1, progressStep, surfacedIn, procCtlClient_ongoing]
      · simp [hf1, progressStep, surfacedIn, procCtlClient_ongoing]
  | sendCall =>
    simp only [step, sendCall]
    by_cases hc : s.closing = true
    · simp [hc, progressStep, surfacedIn]
    · simp [hc, progressStep, surfacedIn]
  | sendOpened =>
    simp only [step, sendOpened]
    by_cases hp : s.parked = 0
    · simp [hp, progressStep, surfacedIn]
    · by_cases hc : s.closing = true
      · simp [hp, hc, progressStep, surfacedIn]
      · simp [hp, hc, progressStep, surfacedIn]
  | resolve id =>
    simp only [step]
    split <;> simp [progressStep, surfacedIn]

theorem inProgress_snoc (pre : List (Ev × List Obs)) (st : Ev × List Obs) :
    inProgress (pre ++ [st]) = progressStep (inProgress pre) st := by
  simp [inProgress, List.foldl_append]

/-- a whole history: `ongoing_streams` is the history's `inProgress`, and every step that shows
    `None` is an `accept` on a history without a request in progress. -/
theorem trace_progress (evs : List Ev) : ∀ (s : State) (pre : List (Ev × List Obs)),
    inProgress pre = s.ongoing →
    inProgress (pre ++ trace s evs) = (run s evs).1.ongoing ∧
    (∀ a st b, trace s evs = a ++ st :: b → Obs.acceptNone ∈ st.2 →
      st.1 = .accept ∧ inProgress (pre ++ a) = [] ∧ inProgress (pre ++ a ++ [st]) = []) := by
  induction evs with
  | nil =>
    intro s pre h
    refine ⟨by simpa [trace, run] using h, ?_⟩
    intro a st b hab
    simp [trace] at hab
  | cons e es ih =>
    intro s pre h
    obtain ⟨p1, p2⟩ := step_progress s e
    have h' : inProgress (pre ++ [(e, (step s e).2)]) = (step s e).1.ongoing := by
      rw [inProgress_snoc, h, p1]
    obtain ⟨q1, q2⟩ := ih (step s e).1 (pre ++ [(e, (step s e).2)]) h'
    refine ⟨by simpa [trace, run, List.append_assoc] using q1, ?_⟩
    intro a st b hab hn
    cases a with
    | nil =>
      simp only [trace, List.nil_append, List.cons.injEq] at hab
      obtain ⟨hst, _⟩ := hab
      subst hst
      obtain ⟨r1, r2, r3⟩ := p2 hn
      refine ⟨r1, by simpa [h] using r2, ?_⟩
      rw [List.append_nil, h', r3]
    | cons a0 a' =>
      simp only [trace, List.cons_append, List.cons.injEq] at hab
      obtain ⟨ha0, hrest⟩ := hab
      subst ha0
      have := q2 a' st b hrest hn
      simpa [List.append_assoc] using this

end H3.Lemmas.Goaway
