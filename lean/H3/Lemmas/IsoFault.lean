import H3.Lemmas.IsoPolled
/-! C07, whole histories: a stream whose INPUT is of the kind the property quantifies over never
    makes a call answer a connection-level error.

    The input of a stream: its transport events are non-empty chunks carrying a prefix of the bytes `w`
    of a validly framed message (`Wire w T`, `T` the tokens of `U* H (U|D)* (H U*)?`, or no token at
    all: frames of unknown type only), ended by nothing yet, by FIN (only with all of `w` there: on the
    message's last frame boundary) or by RESET with any code after ANY prefix — `DelivR`; STOP_SENDING
    and credit grants anywhere; the header oracle answers anything but a QPACK failure for the head and
    for the trailers (ok, malformed, over the limit).  The calls: the documented receive pattern, each
    call polled again while it answers `Pending`, no receive call once one has answered an error
    (reading R-07), send calls anywhere — `obeys`.

    Proof: the invariant of `IsoPolledFS`/`IsoPolledReq` (C02's `CInv` relative to what has been
    delivered + the shape of what the frame layer has handed out) with the RESET admitted in the
    script: `robust_next` / `robust_data` (from `pollNext_preserves` / `pollData_spec`: the error
    answers `UnexpectedEnd` and `Proto` are excluded because the bytes are a prefix of valid ones and
    FIN comes only at their end; `Quic` is the peer's RESET, a stream-level answer), then one lemma per
    call of the pattern, then induction over the events. -/
namespace H3.Iso
open H3.ReqRecv H3.Frame

/-! ### the frame layer with a RESET in the script -/

/-- what has been delivered so far of a stream whose bytes are a prefix of `w`: as `Deliv`, or chunks
    carrying any prefix of `w` followed by RESET with any code -/
def DelivR (w : FS.Bytes) (D : List FS.Ev) : Prop :=
  Deliv w D ∨ ∃ (c : Nat) (cs : List FS.Bytes), (∀ b ∈ cs, b ≠ []) ∧ D = cs.map FS.Ev.chunk ++ [FS.Ev.reset c] ∧
    cs.flatten <+: w

theorem reset_not_mem_chunks (cs : List FS.Bytes) (c : Nat) : FS.Ev.reset c ∉ cs.map FS.Ev.chunk := by
  intro hm; obtain ⟨_, _, he⟩ := chunk_mem_map hm; cases he

theorem delivR_facts {w : FS.Bytes} {D : List FS.Ev} (h : DelivR w D) : FS.ScriptOK D ∧ FS.Ev.pend ∉ D := by
  rcases h with h | ⟨c, cs, hne, rfl, _⟩
  · exact ⟨(deliv_facts h).1, (deliv_facts h).2.1⟩
  · refine ⟨?_, ?_⟩
    · intro b hb
      rcases List.mem_append.mp hb with hb | hb
      · obtain ⟨b', hb', he⟩ := chunk_mem_map hb
        cases he; exact hne b hb'
      · simp at hb
    · intro hm
      rcases List.mem_append.mp hm with hm | hm
      · obtain ⟨_, _, he⟩ := chunk_mem_map hm; cases he
      · simp at hm

/-- the bytes a configuration has taken are a prefix of `w`, all of `w` once FIN has been taken: the
    RESET is never taken (`TakenOK`), so what has been taken lies inside the chunks before it -/
theorem delivR_taken {w : FS.Bytes} {D taken rest : List FS.Ev} {eos : Bool} (h : DelivR w D)
    (hs : D = taken ++ rest) (htk : FS.TakenOK false eos taken) :
    FS.evBytes taken <+: w ∧ (eos = true → FS.evBytes taken = w) := by
  rcases h with h | ⟨c, cs, hne, rfl, hp⟩
  · exact ⟨(deliv_taken h hs htk).1, (deliv_taken h hs htk).2.1⟩
  · have hnr : FS.Ev.reset c ∉ taken := htk.1 c
    -- `taken` is a prefix of the chunks
    obtain ⟨rest', hrest'⟩ : ∃ rest', cs.map FS.Ev.chunk = taken ++ rest' := by
      rcases List.append_eq_append_iff.mp hs with ⟨a', h1, h2⟩ | ⟨c', h1, _⟩
      · cases a' with
        | nil => exact ⟨[], by simpa using h1.symm⟩
        | cons x r =>
          exfalso
          have hx : x = FS.Ev.reset c := by
            have := congrArg List.head? h2
            simpa using this.symm
          exact hnr (by rw [h1, hx]; simp)
      · exact ⟨c', h1⟩
    have hD0 : Deliv w (cs.map FS.Ev.chunk) := ⟨cs, hne, Or.inl ⟨rfl, hp⟩⟩
    exact ⟨(deliv_taken hD0 hrest' htk).1, (deliv_taken hD0 hrest' htk).2.1⟩

/-- a prefix of a state of delivery is a state of delivery -/
theorem delivR_prefix {w : FS.Bytes} {a b : List FS.Ev} (h : DelivR w (a ++ b)) : DelivR w a := by
  have chunks_prefix : ∀ (cs : List FS.Bytes), (∀ x ∈ cs, x ≠ []) → cs.flatten <+: w →
      ∀ a', a' <+: cs.map FS.Ev.chunk → Deliv w a' := by
    intro cs hne hp a' ha
    have hD := List.prefix_iff_eq_take.mp ha
    rw [← List.map_take] at hD
    refine ⟨cs.take a'.length, fun x hx => hne x (List.mem_of_mem_take hx), Or.inl ⟨hD, ?_⟩⟩
    refine List.IsPrefix.trans ?_ hp
    conv => rhs; rw [← List.take_append_drop a'.length cs, List.flatten_append]
    exact List.prefix_append _ _
  rcases h with ⟨cs, hne, h | h⟩ | ⟨c, cs, hne, heq, hp⟩
  · obtain ⟨heq, hp⟩ := h
    exact Or.inl (chunks_prefix cs hne hp a ⟨b, heq⟩)
  · obtain ⟨heq, hp⟩ := h
    have hpre : a <+: cs.map FS.Ev.chunk ++ [FS.Ev.fin] := ⟨b, heq⟩
    rcases List.prefix_concat_iff.mp hpre with rfl | hpre
    · exact Or.inl ⟨cs, hne, Or.inr ⟨rfl, hp⟩⟩
    · exact Or.inl (chunks_prefix cs hne (by rw [hp]; exact List.prefix_refl _) a hpre)
  · have hpre : a <+: cs.map FS.Ev.chunk ++ [FS.Ev.reset c] := ⟨b, heq⟩
    rcases List.prefix_concat_iff.mp hpre with rfl | hpre
    · exact Or.inr ⟨c, cs, hne, rfl, hp⟩
    · exact Or.inl (chunks_prefix cs hne hp a hpre)

/-- the invariant of the frame layer of a stream of the property's quantifier -/
def RHInv (w : FS.Bytes) (D : List FS.Ev) (out : List RefTok) (c : FSt) : Prop :=
  DelivR w D ∧ FS.CInv FS.frameDec D out c.1 c.2

theorem rhinv_init (w : FS.Bytes) : RHInv w [] [] ({}, []) :=
  ⟨Or.inl (hinv_init w).1, (hinv_init w).2⟩

theorem rhinv_arrive {w : FS.Bytes} {D : List FS.Ev} {out : List RefTok} {c : FSt} (evs : List FS.Ev)
    (h : RHInv w D out c) (hD : DelivR w (D ++ evs)) : RHInv w (D ++ evs) out (c.1, c.2 ++ evs) := by
  obtain ⟨_, taken, hs, htk, hI⟩ := h
  exact ⟨hD, taken, by rw [hs, List.append_assoc], htk, hI⟩

theorem rhinv_prefix {w : FS.Bytes} {T : List RefTok} (hw : Wire w T) {D : List FS.Ev} {out : List RefTok}
    {c : FSt} (h : RHInv w D out c) : out <+: T := by
  obtain ⟨hD, taken, hs, htk, hI⟩ := h
  obtain ⟨⟨x, hx⟩, _⟩ := delivR_taken hD hs htk
  obtain ⟨more, hm⟩ := FS.inv_toks_prefix FS.frameDec hI x
  rw [hx, hw.run] at hm
  exact ⟨more, hm.symm⟩

theorem rhinv_rem_bound {w : FS.Bytes} {T : List RefTok} (hw : Wire w T) {D : List FS.Ev} {out : List RefTok}
    {c : FSt} (h : RHInv w D out c) : c.1.remaining < FS.USIZE_MAX := by
  obtain ⟨more, hm⟩ := rhinv_prefix hw h
  obtain ⟨_, taken, _, _, hI⟩ := h
  refine FS.inv_rem_bound FS.frameDec FS.USIZE_MAX hI ?_ FS.usize_pos
  intro f hf
  apply hw.noraw f
  rw [hw.run, ← hm]
  exact List.mem_append_left _ hf

/-- `poll_next`: a frame, `Pending`, `None` (everything handed out, the stream at its clean end), or
    the peer's RESET — never `UnexpectedEnd`, never a frame error -/
theorem robust_next {w : FS.Bytes} {T : List RefTok} (hw : Wire w T) {D : List FS.Ev} {out : List RefTok}
    {s : FS.St} {sc : List FS.Ev} (hI : RHInv w D out (s, sc)) (h0 : s.remaining = 0) :
    ∃ o s' sc', FS.pollNext FS.frameDec s sc = (o, s', sc') ∧
      ((∃ f, o = .frame f ∧ RHInv w D (out ++ [.frame f]) (s', sc') ∧ s'.remaining = (FS.frameDec.kind f).rem) ∨
       (o = .pending ∧ RHInv w D out (s', sc') ∧ s'.remaining = 0) ∨
       (o = .none ∧ RHInv w D out (s', sc') ∧ s'.remaining = 0 ∧ out = T ∧ s'.eos = true ∧ s'.flat = []) ∨
       (∃ c, o = .errQuic c)) := by
  obtain ⟨hD, taken, hsplit, htk, hInv⟩ := hI
  obtain ⟨hscD, _⟩ := delivR_facts hD
  have hsc : FS.ScriptOK sc := by rw [hsplit] at hscD; exact FS.scriptOK_suffix hscD
  simp only at hsplit htk hInv
  rcases FS.pollNext_preserves FS.frameDec FS.frameDec_laws _ out s sc hInv hsc with ⟨hne, _⟩ | ⟨_, hp⟩
  · exact absurd h0 hne
  · cases hres : FS.pollNext FS.frameDec s sc with
    | mk o rest =>
    obtain ⟨s', sc'⟩ := rest
    rw [hres] at hp
    obtain ⟨tk, hs, htk', hout⟩ := hp
    have htkF := FS.takenOK_trans htk htk'
    have hD' : D = (taken ++ tk) ++ sc' := by rw [hsplit, hs, List.append_assoc]
    obtain ⟨⟨x, hx⟩, hfull⟩ := delivR_taken hD hD' htkF
    rw [FS.evBytes_append] at hx hfull
    refine ⟨o, s', sc', rfl, ?_⟩
    cases o with
    | frame f =>
      refine Or.inl ⟨f, rfl, ⟨hD, taken ++ tk, hD', htkF, by rw [FS.evBytes_append]; exact hout⟩, ?_⟩
      exact FS.pollNext_frame_rem FS.frameDec s s' sc sc' f hres
    | pending =>
      obtain ⟨hI', _, _, hrem⟩ := hout
      exact Or.inr (Or.inl ⟨rfl, ⟨hD, taken ++ tk, hD', htkF, by rw [FS.evBytes_append]; exact hI'⟩, hrem⟩)
    | none =>
      obtain ⟨hI', hfl, heos', hrem⟩ := hout
      refine Or.inr (Or.inr (Or.inl ⟨rfl, ⟨hD, taken ++ tk, hD', htkF, by rw [FS.evBytes_append]; exact hI'⟩, hrem, ?_,
        heos', hfl⟩))
      obtain ⟨c, hseen, hrun⟩ := hI'.split
      rw [hfl, List.append_nil] at hseen
      rw [hrem, FS.PSt.ofRem_zero, ← hseen, hfull heos', hw.run] at hrun
      simp only [Prod.mk.injEq, true_and] at hrun
      exact hrun.symm
    | errEnd =>
      exfalso
      obtain ⟨hI', hne, hinc, heos', hrem⟩ := hout
      obtain ⟨c, hseen, hrun⟩ := hI'.split
      rw [hrem, FS.PSt.ofRem_zero] at hrun
      have := hw.run
      rw [← hfull heos', hseen, FS.run_append, hrun,
        FS.run_incomplete FS.frameDec FS.frameDec_laws s'.flat (Or.inr hinc)] at this
      simp only [Prod.mk.injEq, FS.PSt.hdr.injEq] at this
      exact hne this.1
    | errProto e =>
      exfalso
      obtain ⟨c, k, hseen, hrun, hk1, hk2, hrunE⟩ := hout
      have := hw.run
      rw [← hx, hseen, ← List.take_append_drop k s'.flat, List.append_assoc, List.append_assoc, FS.run_append, hrun,
        FS.run_append, hrunE, FS.run_dead] at this
      simp at this
    | errQuic c => exact Or.inr (Or.inr (Or.inr ⟨c, rfl⟩))
    | data _ => exact absurd hout id
    | panic => exact absurd hout id

/-- `poll_data`: a non-empty piece of the payload, `Pending`, or the peer's RESET -/
theorem robust_data {w : FS.Bytes} {T : List RefTok} (hw : Wire w T) {D : List FS.Ev} {out : List RefTok}
    {s : FS.St} {sc : List FS.Ev} (hI : RHInv w D out (s, sc)) (h0 : s.remaining ≠ 0) :
    ∃ o s' sc', FS.pollData (F := Frame) (E := FrameErr) s sc = (o, s', sc') ∧
      ((∃ d, o = .data d ∧ RHInv w D (out ++ d.map .byte) (s', sc')) ∨
       (o = .pending ∧ RHInv w D out (s', sc') ∧ s'.remaining = s.remaining) ∨
       (∃ c, o = .errQuic c)) := by
  have hbound := rhinv_rem_bound hw hI
  obtain ⟨hD, taken, hsplit, htk, hInv⟩ := hI
  obtain ⟨hscD, _⟩ := delivR_facts hD
  have hsc : FS.ScriptOK sc := by rw [hsplit] at hscD; exact FS.scriptOK_suffix hscD
  simp only at hsplit htk hInv hbound
  have hp := FS.pollData_spec FS.frameDec _ out s sc hInv hsc
  cases hres : FS.pollData (F := Frame) (E := FrameErr) s sc with
  | mk o rest =>
  obtain ⟨s', sc'⟩ := rest
  rw [hres] at hp
  obtain ⟨tk, hs, htk', hout⟩ := hp
  have htkF := FS.takenOK_trans htk htk'
  have hD' : D = (taken ++ tk) ++ sc' := by rw [hsplit, hs, List.append_assoc]
  obtain ⟨⟨x, hx⟩, hfull⟩ := delivR_taken hD hD' htkF
  rw [FS.evBytes_append] at hx hfull
  refine ⟨o, s', sc', rfl, ?_⟩
  cases o with
  | data d =>
    obtain ⟨_, _, _, hI'⟩ := hout
    exact Or.inl ⟨d, rfl, ⟨hD, taken ++ tk, hD', htkF, by rw [FS.evBytes_append]; exact hI'⟩⟩
  | pending =>
    obtain ⟨hI', _, _, hrem'⟩ := hout
    exact Or.inr (Or.inl ⟨rfl, ⟨hD, taken ++ tk, hD', htkF, by rw [FS.evBytes_append]; exact hI'⟩, hrem'⟩)
  | errEnd =>
    exfalso
    obtain ⟨heos', _, c, rest, hseen, hrun, hlt⟩ := hout
    have := hw.run
    rw [← hfull heos', hseen, FS.run_append, hrun, FS.run_data_short FS.frameDec _ rest hlt] at this
    simp at this
  | errQuic c => exact Or.inr (Or.inr ⟨c, rfl⟩)
  | none =>
    exfalso
    obtain ⟨_, hcase⟩ := hout
    rcases hcase with ⟨hz, _⟩ | ⟨hmax, _⟩
    · exact h0 hz
    · omega
  | frame _ => exact absurd hout id
  | errProto _ => exact absurd hout id
  | panic => exact absurd hout id

/-! ### the polls of the request layer: the answers that are not connection-level -/

section Eqs
variable {σ : Type} (S : Src σ)

theorem pollHead_headers_malformed (role : Role) (H : ReqRecv.Hdr) (st : St σ) (enc : ReqRecv.Bytes) (s' : σ)
    (hn : S.pollNext st.src = (.frame (.headers enc), s')) (hm : H.head enc = .malformed) :
    (pollHead role S H st).1 = .errStream H3.Gen.Consts.CODE_H3_MESSAGE_ERROR := by
  cases role <;> simp [pollHead, pollResolve, pollRecvResponse, hn, hm]

theorem pollHead_none (role : Role) (H : ReqRecv.Hdr) (st : St σ) (s' : σ)
    (hn : S.pollNext st.src = (.none, s')) : ∃ c, (pollHead role S H st).1 = .errStream c := by
  cases role
  · exact ⟨H3.Gen.Consts.CODE_H3_REQUEST_INCOMPLETE, by simp [pollHead, pollResolve, hn]⟩
  · exact ⟨H3.Gen.Consts.CODE_H3_MESSAGE_ERROR, by simp [pollHead, pollRecvResponse, hn]⟩

theorem pollHead_quic (role : Role) (H : ReqRecv.Hdr) (st : St σ) (c : Nat) (s' : σ)
    (hn : S.pollNext st.src = (.errQuic c, s')) : (pollHead role S H st).1 = .errReset c := by
  cases role <;> simp [pollHead, pollResolve, pollRecvResponse, hn, fsErr]

theorem pollRecvData_next_quic (f : Nat) (st : St σ) (c : Nat) (s' : σ) (hd : S.hasData st.src = false)
    (hn : S.pollNext st.src = (.errQuic c, s')) : (pollRecvData S (f + 1) st).1 = .errReset c := by
  rw [pollRecvData]; simp [hd, hn, fsErr]

theorem pollRecvData_data_quic (f : Nat) (st : St σ) (c : Nat) (s' : σ) (hd : S.hasData st.src = true)
    (hp : S.pollData st.src = (.errQuic c, s')) : (pollRecvData S (f + 1) st).1 = .errReset c := by
  rw [pollRecvData]; simp [hd, hp, dataOut, fsErr]

theorem decodeTrailers_notConn (H : ReqRecv.Hdr) (st : St σ) (enc : ReqRecv.Bytes) (hq : H.trailer enc ≠ .qpack) :
    resConn (decodeTrailers H st enc).1 = false := by
  unfold decodeTrailers
  cases h : H.trailer enc with
  | ok => rfl
  | malformed => rfl
  | qpack => exact absurd h hq

theorem pollRecvTrailers_some_eos_dec (H : ReqRecv.Hdr) (st : St σ) (enc : ReqRecv.Bytes)
    (ht : st.trailers = some enc) (he : S.isEos st.src = true) :
    pollRecvTrailers S H st = decodeTrailers H { st with trailers := none } enc := by
  simp [pollRecvTrailers, ht, trailersTail, he]

theorem pollRecvTrailers_some_none_dec (H : ReqRecv.Hdr) (st : St σ) (enc : ReqRecv.Bytes) (s' : σ)
    (ht : st.trailers = some enc) (he : S.isEos st.src = false) (hn : S.pollNext st.src = (.none, s')) :
    pollRecvTrailers S H st = decodeTrailers H { st with src := s', trailers := none } enc := by
  simp [pollRecvTrailers, ht, trailersTail, he, trailersCheck, hn]

theorem pollRecvTrailers_some_quic (H : ReqRecv.Hdr) (st : St σ) (enc : ReqRecv.Bytes) (c : Nat) (s' : σ)
    (ht : st.trailers = some enc) (he : S.isEos st.src = false) (hn : S.pollNext st.src = (.errQuic c, s')) :
    (pollRecvTrailers S H st).1 = .errReset c := by
  simp [pollRecvTrailers, ht, trailersTail, he, trailersCheck, hn, fsErr]

end Eqs

theorem decodeTrailers_pending (H : ReqRecv.Hdr) (st : RSt) (enc : ReqRecv.Bytes) :
    (decodeTrailers H st enc).1 ≠ .pending := by
  unfold decodeTrailers
  cases H.trailer enc
  · simp
  · simp
  · simp only [connErr]; split <;> simp

/-! ### the states of the receive half of a stream of the quantifier -/

section Robust
variable {w : FS.Bytes} {T : List RefTok} {h : ReqRecv.Bytes} {ds : List ReqRecv.Bytes} {tr : Option ReqRecv.Bytes}

def HeadStR (w : FS.Bytes) (D : List FS.Ev) (st : RSt) : Prop :=
  RHInv w D [] st.src ∧ st.trailers = none ∧ st.src.1.remaining = 0

structure BodyStR (w : FS.Bytes) (h : ReqRecv.Bytes) (D : List FS.Ev) (out : List RefTok) (st : RSt) : Prop where
  inv : RHInv w D out st.src
  tr : st.trailers = none
  shape : ∃ X, out = FS.Tok.frame (Frame.headers h) :: X ∧ Bodyish X

def EndStR (w : FS.Bytes) (h : ReqRecv.Bytes) (ds : List ReqRecv.Bytes) (tr : Option ReqRecv.Bytes) (D : List FS.Ev)
    (st : RSt) : Prop :=
  RHInv w D (msgToks h ds tr) st.src ∧ st.src.1.remaining = 0 ∧
    ((∃ t, tr = some t ∧ st.trailers = some t) ∨
     (tr = none ∧ st.trailers = none ∧ st.src.1.eos = true ∧ st.src.1.flat = []))

/-- the three invariants look at the frame stream and the remembered trailers only -/
theorem headStR_congr {D : List FS.Ev} {st st' : RSt} (hst : HeadStR w D st) (hs : st'.src = st.src)
    (ht : st'.trailers = st.trailers) : HeadStR w D st' := by
  unfold HeadStR at hst ⊢; rw [hs, ht]; exact hst

theorem bodyStR_congr {D : List FS.Ev} {out : List RefTok} {st st' : RSt} (hst : BodyStR w h D out st)
    (hs : st'.src = st.src) (ht : st'.trailers = st.trailers) : BodyStR w h D out st' :=
  ⟨by rw [hs]; exact hst.inv, by rw [ht]; exact hst.tr, hst.shape⟩

theorem endStR_congr {D : List FS.Ev} {st st' : RSt} (hst : EndStR w h ds tr D st) (hs : st'.src = st.src)
    (ht : st'.trailers = st.trailers) : EndStR w h ds tr D st' := by
  unfold EndStR at hst ⊢; rw [hs, ht]; exact hst

/-- `resolve_request` / `recv_response`, one poll: the head, `Pending`, or a stream-level error (the
    message is malformed; the stream ended before any HEADERS; the peer's RESET) -/
theorem robust_head (hw : Wire w T) (hfirst : ∀ f, [FS.Tok.frame f] <+: T → f = .headers h)
    (role : Role) (H : ReqRecv.Hdr) (hH : H.head h ≠ .qpack) (D : List FS.Ev) (st : RSt) (hst : HeadStR w D st) :
    ∃ r st', pollHead role fsSrc H st = (r, st') ∧ resConn r = false ∧
      (r = .pending → HeadStR w D st') ∧
      (∀ enc, r = .head enc → enc = h ∧ T ≠ [] ∧ BodyStR w h D [FS.Tok.frame (Frame.headers h)] st') := by
  obtain ⟨⟨s, sc⟩, trl, env⟩ := st
  obtain ⟨hI, htr, h0⟩ := hst
  simp only at hI htr h0
  obtain ⟨o, s', sc', hres, hcase⟩ := robust_next hw hI h0
  have hn := fs_pollNext s sc o s' sc' hres
  rcases hcase with ⟨f, rfl, hI', hrem⟩ | ⟨rfl, hI', hrem⟩ | ⟨rfl, _⟩ | ⟨c, rfl⟩
  · have hpre := rhinv_prefix hw hI'
    have hf := hfirst f hpre
    subst hf
    have hTne : T ≠ [] := by
      intro hT; rw [hT] at hpre; simpa using hpre.length_le
    cases hh : H.head h with
    | ok =>
      refine ⟨_, _, pollHead_headers_ok fsSrc role H _ h (s', sc') hn hh, rfl, (fun hc => by cases hc), ?_⟩
      intro enc he
      simp only [Res.head.injEq] at he
      subst he
      exact ⟨rfl, hTne, hI', htr, [], rfl, fun tok htok => by cases htok⟩
    | malformed =>
      have he := pollHead_headers_malformed fsSrc role H
        ({ src := (s, sc), trailers := trl, env := env } : RSt) h (s', sc') hn hh
      generalize pollHead role fsSrc H ({ src := (s, sc), trailers := trl, env := env } : RSt) = p at he
      obtain ⟨r, st'⟩ := p
      simp only at he
      subst he
      exact ⟨_, _, rfl, rfl, (fun hc => by cases hc), fun enc hc => by cases hc⟩
    | qpack => exact absurd hh hH
  · exact ⟨_, _, pollHead_pending fsSrc role H _ (s', sc') hn, rfl, fun _ => ⟨hI', htr, hrem⟩,
      fun enc hc => by cases hc⟩
  · obtain ⟨c, he⟩ := pollHead_none fsSrc role H ({ src := (s, sc), trailers := trl, env := env } : RSt) (s', sc') hn
    generalize pollHead role fsSrc H ({ src := (s, sc), trailers := trl, env := env } : RSt) = p at he
    obtain ⟨r, st'⟩ := p
    simp only at he
    subst he
    exact ⟨_, _, rfl, rfl, (fun hc => by cases hc), fun enc hc => by cases hc⟩
  · have he := pollHead_quic fsSrc role H ({ src := (s, sc), trailers := trl, env := env } : RSt) c (s', sc') hn
    generalize pollHead role fsSrc H ({ src := (s, sc), trailers := trl, env := env } : RSt) = p at he
    obtain ⟨r, st'⟩ := p
    simp only at he
    subst he
    exact ⟨_, _, rfl, rfl, (fun hc => by cases hc), fun enc hc => by cases hc⟩

/-- `recv_data`, one poll (any loop bound): a piece, `Pending`, the end of the body, or the peer's RESET
    (`invalid`: the model's loop bound ran out — not an answer of the code, and not a connection error) -/
theorem robust_recvData (hw : Wire w (msgToks h ds tr)) : ∀ (fuel : Nat) (st : RSt) (D : List FS.Ev)
    (out : List RefTok), BodyStR w h D out st →
    ∃ r st', pollRecvData fsSrc fuel st = (r, st') ∧ resConn r = false ∧
      ((r = .pending ∨ ∃ d, r = .data d) → ∃ out', BodyStR w h D out' st') ∧
      (r = .end_ → EndStR w h ds tr D st') := by
  intro fuel
  induction fuel with
  | zero =>
    intro st D out _
    exact ⟨.invalid, st, rfl, rfl, (fun hc => by rcases hc with hc | ⟨d, hc⟩ <;> cases hc), fun hc => by cases hc⟩
  | succ f ih =>
    intro st D out hst
    obtain ⟨⟨s, sc⟩, trl, env⟩ := st
    obtain ⟨hI, htr, X, hX, hXb⟩ := hst
    simp only at hI htr
    by_cases h0 : s.remaining = 0
    · have hd : fsSrc.hasData (s, sc) = false := by rw [fs_hasData_iff]; simp [h0]
      obtain ⟨o, s', sc', hres, hcase⟩ := robust_next hw hI h0
      have hn := fs_pollNext s sc o s' sc' hres
      rcases hcase with ⟨fr, rfl, hI', hrem⟩ | ⟨rfl, hI', hrem⟩ | ⟨rfl, hI', hrem, hT, heos, hfl⟩ | ⟨c, rfl⟩
      · have hpre := rhinv_prefix hw hI'
        rw [hX] at hpre
        rcases next_frame_in_body hpre with ⟨n, rfl⟩ | ⟨t, rfl, htr', hfull⟩
        · have hst1 : BodyStR w h D (out ++ [FS.Tok.frame (Frame.data n)])
              ({ src := (s', sc'), trailers := trl, env := env } : RSt) :=
            ⟨hI', htr, X ++ [FS.Tok.frame (Frame.data n)], by rw [hX]; rfl, bodyish_append hXb (bodyish_data n)⟩
          obtain ⟨r, st', he, hc⟩ := ih _ D _ hst1
          exact ⟨r, st', by rw [pollRecvData_next_data fsSrc f _ n (s', sc') hd hn]; exact he, hc⟩
        · refine ⟨.end_, _, pollRecvData_next_headers fsSrc f _ t (s', sc') hd hn, rfl,
            (fun hc => by rcases hc with hc | ⟨d, hc⟩ <;> cases hc), fun _ => ?_⟩
          rw [← hX] at hfull
          rw [hfull] at hI'
          exact ⟨hI', by rw [hrem]; rfl, Or.inl ⟨t, htr', rfl⟩⟩
      · exact ⟨.pending, _, pollRecvData_next_pending fsSrc f _ (s', sc') hd hn, rfl,
          fun _ => ⟨out, hI', htr, X, hX, hXb⟩, fun hc => by cases hc⟩
      · have htrn : tr = none := no_trailers_of_bodyish hXb (by rw [← hX, hT])
        refine ⟨.end_, _, pollRecvData_next_none fsSrc f _ (s', sc') hd hn, rfl,
          (fun hc => by rcases hc with hc | ⟨d, hc⟩ <;> cases hc), fun _ => ?_⟩
        rw [hT] at hI'
        exact ⟨hI', hrem, Or.inr ⟨htrn, htr, heos, hfl⟩⟩
      · have he := pollRecvData_next_quic fsSrc f ({ src := (s, sc), trailers := trl, env := env } : RSt) c (s', sc') hd hn
        generalize pollRecvData fsSrc (f + 1) ({ src := (s, sc), trailers := trl, env := env } : RSt) = p at he
        obtain ⟨r, st'⟩ := p
        simp only at he
        subst he
        exact ⟨_, _, rfl, rfl, (fun hc => by rcases hc with hc | ⟨d, hc⟩ <;> cases hc), fun hc => by cases hc⟩
    · have hd : fsSrc.hasData (s, sc) = true := by rw [fs_hasData_iff]; simp [h0]
      obtain ⟨o, s', sc', hres, hcase⟩ := robust_data hw hI h0
      have hp := fs_pollData s sc o s' sc' hres
      rcases hcase with ⟨d, rfl, hI'⟩ | ⟨rfl, hI', _⟩ | ⟨c, rfl⟩
      · exact ⟨.data d, _, pollRecvData_data fsSrc f _ d (s', sc') hd hp, rfl,
          fun _ => ⟨out ++ d.map .byte, hI', htr, X ++ d.map .byte, by rw [hX]; rfl,
            bodyish_append hXb (bodyish_bytes d)⟩, fun hc => by cases hc⟩
      · exact ⟨.pending, _, pollRecvData_data_pending fsSrc f _ (s', sc') hd hp, rfl,
          fun _ => ⟨out, hI', htr, X, hX, hXb⟩, fun hc => by cases hc⟩
      · have he := pollRecvData_data_quic fsSrc f ({ src := (s, sc), trailers := trl, env := env } : RSt) c (s', sc') hd hp
        generalize pollRecvData fsSrc (f + 1) ({ src := (s, sc), trailers := trl, env := env } : RSt) = p at he
        obtain ⟨r, st'⟩ := p
        simp only at he
        subst he
        exact ⟨_, _, rfl, rfl, (fun hc => by rcases hc with hc | ⟨d, hc⟩ <;> cases hc), fun hc => by cases hc⟩

/-- the `recv_data` loop of one `body` poll -/
theorem robust_drain (hw : Wire w (msgToks h ds tr)) : ∀ (fuel : Nat) (st : RSt) (D : List FS.Ev)
    (out : List RefTok), BodyStR w h D out st →
    ∃ rs st', drain fsSrc fuel st = (rs, st') ∧ (∀ r ∈ rs, resConn r = false) ∧
      (rs.getLast? = some .pending → ∃ out', BodyStR w h D out' st') ∧
      (rs.getLast? = some .end_ → EndStR w h ds tr D st') := by
  intro fuel
  induction fuel with
  | zero =>
    intro st D out _
    refine ⟨[.invalid], st, rfl, ?_, (fun hc => by simp at hc), fun hc => by simp at hc⟩
    intro r hr; simp only [List.mem_singleton] at hr; subst hr; rfl
  | succ f ih =>
    intro st D out hst
    obtain ⟨r, st1, he, hnc, hcont, hend⟩ := robust_recvData hw (f + 1) st D out hst
    rw [drain_succ, he]
    cases r with
    | data d =>
      obtain ⟨out1, hst1⟩ := hcont (Or.inr ⟨d, rfl⟩)
      obtain ⟨rs, st', hd, hall, hp, hen⟩ := ih st1 D out1 hst1
      have hne : rs ≠ [] := by
        intro hnil
        rw [hnil] at hd
        cases f with
        | zero => simp [drain] at hd
        | succ f' =>
          rw [drain_succ] at hd
          generalize pollRecvData fsSrc (f' + 1) st1 = q at hd
          obtain ⟨r, st''⟩ := q
          cases r <;> simp at hd
      refine ⟨.data d :: rs, st', by simp only [hd], ?_, ?_, ?_⟩
      · intro r hr
        rcases List.mem_cons.mp hr with rfl | hr
        · rfl
        · exact hall r hr
      · intro hl; rw [getLast?_cons_of_ne _ hne] at hl; exact hp hl
      · intro hl; rw [getLast?_cons_of_ne _ hne] at hl; exact hen hl
    | pending =>
      exact ⟨[.pending], st1, rfl, (by intro r hr; simp only [List.mem_singleton] at hr; subst hr; rfl),
        fun _ => hcont (Or.inl rfl), fun hc => by simp at hc⟩
    | end_ =>
      exact ⟨[.end_], st1, rfl, (by intro r hr; simp only [List.mem_singleton] at hr; subst hr; rfl),
        (fun hc => by simp at hc), fun _ => hend rfl⟩
    | _ =>
      refine ⟨[_], st1, rfl, ?_, (fun hc => by simp at hc), fun hc => by simp at hc⟩
      intro r hr; simp only [List.mem_singleton] at hr; subst hr; exact hnc

/-- `recv_trailers`, one poll, after the end of the body has been reported -/
theorem robust_trailers (hw : Wire w (msgToks h ds tr)) (H : ReqRecv.Hdr) (hH : ∀ t, tr = some t → H.trailer t ≠ .qpack)
    (D : List FS.Ev) (st : RSt) (hst : EndStR w h ds tr D st) :
    ∃ r st', pollRecvTrailers fsSrc H st = (r, st') ∧ resConn r = false ∧
      (r = .pending → EndStR w h ds tr D st') := by
  obtain ⟨⟨s, sc⟩, trl, env⟩ := st
  obtain ⟨hI, h0, hcase⟩ := hst
  simp only at hI h0 hcase
  rcases hcase with ⟨t, htr, htrl⟩ | ⟨htr, htrl, heos, hfl⟩
  · subst htr
    subst htrl
    by_cases he : fsSrc.isEos (s, sc) = true
    · rw [pollRecvTrailers_some_eos_dec fsSrc H _ t rfl he]
      exact ⟨_, _, rfl, decodeTrailers_notConn H _ t (hH t rfl), fun hc => absurd hc (decodeTrailers_pending H _ t)⟩
    · have he' : fsSrc.isEos (s, sc) = false := by simpa using he
      obtain ⟨o, s', sc', hres, hc⟩ := robust_next hw hI h0
      have hn := fs_pollNext s sc o s' sc' hres
      rcases hc with ⟨fr, rfl, hI', _⟩ | ⟨rfl, hI', hrem⟩ | ⟨rfl, _⟩ | ⟨c, rfl⟩
      · exact absurd (rhinv_prefix hw hI') (not_prefix_longer _ _)
      · exact ⟨_, _, pollRecvTrailers_some_pending fsSrc H _ t (s', sc') rfl he' hn, rfl,
          fun _ => ⟨hI', hrem, Or.inl ⟨t, rfl, rfl⟩⟩⟩
      · rw [pollRecvTrailers_some_none_dec fsSrc H _ t (s', sc') rfl he' hn]
        exact ⟨_, _, rfl, decodeTrailers_notConn H _ t (hH t rfl), fun hc => absurd hc (decodeTrailers_pending H _ t)⟩
      · have hq := pollRecvTrailers_some_quic fsSrc H ({ src := (s, sc), trailers := some t, env := env } : RSt) t c
          (s', sc') rfl he' hn
        generalize pollRecvTrailers fsSrc H ({ src := (s, sc), trailers := some t, env := env } : RSt) = p at hq
        obtain ⟨r, st'⟩ := p
        simp only at hq
        subst hq
        exact ⟨_, _, rfl, rfl, fun hc => by cases hc⟩
  · subst htr
    obtain ⟨s', sc', hres⟩ := healthy_next_at_end s sc h0 heos hfl
    have hn := fs_pollNext s sc _ s' sc' hres
    exact ⟨_, _, pollRecvTrailers_none_none fsSrc H _ (s', sc') htrl hn, rfl, fun hc => by cases hc⟩

end Robust

/-! ### the documented calls (reading R-07) -/

/-- the calls of the send half: `send_response` / the request head, `send_data`, `send_trailers`, `finish` -/
def isSend : Call → Bool
  | .sendHead _ | .sendData _ | .sendTrailers _ | .finish => true
  | _ => false

/-- where the documented receive pattern stands after the call `c` of phase `ph` has answered `o`, as the
    application can tell from the answer: `Pending` = poll the same call again; a value = go on; an
    error (or anything else) ENDS the pattern — R-07 -/
def nextPh : DPhase → Call → Obs → DPhase
  | .head, .head, .ans (.res (.head _)) => .body
  | .head, .head, .ans (.res .pending) => .head
  | .body, .body _, .body rs none => if rs.getLast? = some .pending then .body else .done
  | .body, .body _, .body _ (some a) => if a = .res .pending then .trailers else .done
  | .body, .data, .ans (.res (.data _)) => .body
  | .body, .data, .ans (.res .pending) => .body
  | .body, .data, .ans (.res .end_) => .trailers
  | .trailers, .body _, .body _ (some a) => if a = .res .pending then .trailers else .done
  | .trailers, .trailers, .ans a => if a = .res .pending then .trailers else .done
  | _, _, _ => .done

/-- the receive calls the documented pattern makes in a phase: `resolve_request` / `recv_response`; then
    `recv_data` — call by call (`data`) or as the body task (`body`) — until it answers something else than
    data; after a clean end `recv_trailers` — by the body task if that is what read the body, else
    called directly -/
def allowed (ph : DPhase) (r : Req) (c : Call) : Bool :=
  match ph, c with
  | .head, .head => true
  | .body, .body _ => true
  | .body, .data => true
  | .trailers, .body _ => r.atTrailers
  | .trailers, .trailers => !r.atTrailers
  | _, _ => false

/-- `obeys cfg ph cell r evs`: in the run of `evs` from request state `r`, every receive call is one the
    documented pattern makes at that point (`allowed`), none comes after the pattern has ended (R-07: a
    receive call that answered an error was the last one); send calls and peer events anywhere -/
def obeys (cfg : Cfg) : DPhase → Option Nat → Req → List StreamEv → Bool
  | _, _, _, [] => true
  | ph, cell, r, .peer p :: evs => obeys cfg ph cell (r.deliver p) evs
  | ph, cell, r, .call c :: evs =>
    if isSend c then
      obeys cfg ph (Req.step cfg cell r (.call c)).2.1 (Req.step cfg cell r (.call c)).1 evs
    else
      allowed ph r c &&
      obeys cfg (nextPh ph c (Req.step cfg cell r (.call c)).2.2) (Req.step cfg cell r (.call c)).2.1
        (Req.step cfg cell r (.call c)).1 evs

/-! ### the send half never answers a connection-level error -/

theorem flush_notConn (wc : Option Nat) (s : Send) (b : Bytes) : (s.flush wc b).2.isConn = false := by
  unfold Send.flush
  split
  · rfl
  · split <;> rfl

theorem write_notConn (wc : Option Nat) (s : Send) (f : H3.WriteBuf.SFrame) : (s.write wc f).2.isConn = false := by
  unfold Send.write
  split
  · rfl
  · split
    · rfl
    · split
      · exact flush_notConn _ _ _
      · split
        · rfl
        · exact flush_notConn _ _ _

theorem finish_notConn (b : Bool) (s : Send) : (s.finish b).2.isConn = false := by
  unfold Send.finish
  split
  · rfl
  · split
    · split <;> rfl
    · rfl

/-- a write without back-pressure never answers `Pending` -/
theorem write_none_cases (s : Send) (f : H3.WriteBuf.SFrame) :
    (s.write none f).2 = .noHandle ∨ (∃ c, (s.write none f).2 = .ans (.res (.errReset c))) ∨
    (s.write none f).2 = .ans (.res .panic) ∨ (s.write none f).2 = .ok := by
  unfold Send.write
  split
  · exact Or.inl rfl
  · split
    · exact Or.inr (Or.inl ⟨_, rfl⟩)
    · split
      · exact Or.inr (Or.inr (Or.inr rfl))
      · split
        · exact Or.inr (Or.inr (Or.inl rfl))
        · exact Or.inr (Or.inr (Or.inr rfl))

theorem tooBigServer_obs (cfg : Cfg) (r : Req) :
    (tooBigServer cfg r).2.isConn = false ∧ nextPh .head .head (tooBigServer cfg r).2 = .done := by
  unfold tooBigServer
  split
  · exact ⟨rfl, rfl⟩
  · simp only
    split
    · exact ⟨rfl, rfl⟩
    · rcases write_none_cases r.snd (.headers _) with h | ⟨c, h⟩ | h | h <;> rw [h] <;> exact ⟨rfl, rfl⟩

/-- a send call: the cell, the receive half and the life cycle of the handle are untouched, the answer is
    not a connection-level error -/
theorem send_step (cfg : Cfg) (cell : Option Nat) (r : Req) (c : Call) (hs : isSend c = true) :
    (Req.step cfg cell r (.call c)).2.1 = cell ∧ (Req.step cfg cell r (.call c)).2.2.isConn = false ∧
    (Req.step cfg cell r (.call c)).1.rx = r.rx ∧ (Req.step cfg cell r (.call c)).1.gone = r.gone ∧
    (Req.step cfg cell r (.call c)).1.resolved = r.resolved ∧
    (Req.step cfg cell r (.call c)).1.atTrailers = r.atTrailers := by
  by_cases hg : (r.gone || !accepts cfg.role r c) = true
  · rw [Req.step_refused cfg cell r c hg]
    exact ⟨rfl, rfl, rfl, rfl, rfl, rfl⟩
  · have hl : live cfg r c := by simpa [live] using hg
    rw [Req.step_live cfg cell r c hl]
    cases c with
    | head => cases hs
    | data => cases hs
    | trailers => cases hs
    | body f => cases hs
    | sendHead fs => exact ⟨rfl, write_notConn _ _ _, rfl, rfl, rfl, rfl⟩
    | sendData b => exact ⟨rfl, write_notConn _ _ _, rfl, rfl, rfl, rfl⟩
    | sendTrailers fs => exact ⟨rfl, write_notConn _ _ _, rfl, rfl, rfl, rfl⟩
    | finish => exact ⟨rfl, finish_notConn _ _, rfl, rfl, rfl, rfl⟩

/-! ### the invariant of a request of the quantifier, phase by phase -/

section Run
variable {w : FS.Bytes} {T : List RefTok} {h : ReqRecv.Bytes} {ds : List ReqRecv.Bytes} {tr : Option ReqRecv.Bytes}

/-- `done`: the pattern has ended (completed, or a call answered an error): nothing is claimed of the
    receive half any more — no receive call will be made -/
def RInvR (w : FS.Bytes) (T : List RefTok) (h : ReqRecv.Bytes) (ds : List ReqRecv.Bytes) (tr : Option ReqRecv.Bytes) :
    DPhase → List FS.Ev → Req → Prop
  | .head, D, r => r.gone = false ∧ r.resolved = false ∧ r.atTrailers = false ∧ HeadStR w D r.rx
  | .body, D, r => T = msgToks h ds tr ∧ r.gone = false ∧ r.resolved = true ∧ r.atTrailers = false ∧
      ∃ out, BodyStR w h D out r.rx
  | .trailers, D, r => T = msgToks h ds tr ∧ r.gone = false ∧ r.resolved = true ∧ EndStR w h ds tr D r.rx
  | .done, _, _ => True

theorem rinvR_init (w : FS.Bytes) (T : List RefTok) (h : ReqRecv.Bytes) (ds : List ReqRecv.Bytes)
    (tr : Option ReqRecv.Bytes) : RInvR w T h ds tr .head [] {} :=
  ⟨rfl, rfl, rfl, rhinv_init w, rfl, rfl⟩

/-- the invariant looks at the receive half and the life cycle of the handle only -/
theorem rinvR_congr {ph : DPhase} {D : List FS.Ev} {r r' : Req} (hr : RInvR w T h ds tr ph D r)
    (h1 : r'.rx = r.rx) (h2 : r'.gone = r.gone) (h3 : r'.resolved = r.resolved) (h4 : r'.atTrailers = r.atTrailers) :
    RInvR w T h ds tr ph D r' := by
  cases ph with
  | head => simp only [RInvR] at hr ⊢; rw [h1, h2, h3, h4]; exact hr
  | body => simp only [RInvR] at hr ⊢; rw [h1, h2, h3, h4]; exact hr
  | trailers => simp only [RInvR] at hr ⊢; rw [h1, h2, h3]; exact hr
  | done => trivial

/-- a peer event arrives -/
theorem rinvR_deliver {ph : DPhase} {D : List FS.Ev} {r : Req} (p : Peer)
    (hr : RInvR w T h ds tr ph D r) (hD : DelivR w (D ++ fsOf p)) :
    RInvR w T h ds tr ph (D ++ fsOf p) (r.deliver p) := by
  have key : ∀ out, RHInv w D out r.rx.src → RHInv w (D ++ fsOf p) out (r.deliver p).rx.src := by
    intro out hI
    have := rhinv_arrive (fsOf p) hI hD
    cases p <;> simpa [Req.deliver, fsOf] using this
  have htr : (r.deliver p).rx.trailers = r.rx.trailers := by cases p <;> rfl
  have hs1 : (r.deliver p).rx.src.1 = r.rx.src.1 := by cases p <;> rfl
  have hgo : (r.deliver p).gone = r.gone := by cases p <;> rfl
  have hre : (r.deliver p).resolved = r.resolved := by cases p <;> rfl
  have hat : (r.deliver p).atTrailers = r.atTrailers := by cases p <;> rfl
  cases ph with
  | head =>
    obtain ⟨h1, h2, h3, hI, h4, h5⟩ := hr
    exact ⟨by rw [hgo]; exact h1, by rw [hre]; exact h2, by rw [hat]; exact h3, key _ hI, by rw [htr]; exact h4,
      by rw [hs1]; exact h5⟩
  | body =>
    obtain ⟨h0, h1, h2, h3, out, hI, h4, h5⟩ := hr
    exact ⟨h0, by rw [hgo]; exact h1, by rw [hre]; exact h2, by rw [hat]; exact h3, out, key _ hI,
      by rw [htr]; exact h4, h5⟩
  | trailers =>
    obtain ⟨h0, h1, h2, hI, h3, h4⟩ := hr
    refine ⟨h0, by rw [hgo]; exact h1, by rw [hre]; exact h2, key _ hI, by rw [hs1]; exact h3, ?_⟩
    rw [htr, hs1]; exact h4
  | done => trivial

theorem base_head_ne_qpack (cfg : Cfg) (b : Bytes) (hq : cfg.hdr.head b ≠ .qpack) : cfg.hdr.base.head b ≠ .qpack := by
  simp only [Hdr.base]
  cases hc : cfg.hdr.head b <;> simp [HClass.base] <;> exact absurd hc hq

theorem base_trailer_ne_qpack (cfg : Cfg) (b : Bytes) (hq : cfg.hdr.trailer b ≠ .qpack) :
    cfg.hdr.base.trailer b ≠ .qpack := by
  simp only [Hdr.base]
  cases hc : cfg.hdr.trailer b <;> simp [HClass.base] <;> exact absurd hc hq

/-- `trailersPoll` (the size limit put back) after the end of the body -/
theorem robust_trailersPoll (hw : Wire w (msgToks h ds tr)) (cfg : Cfg)
    (hT : ∀ t, tr = some t → cfg.hdr.trailer t ≠ .qpack) (D : List FS.Ev) (st : RSt) (hst : EndStR w h ds tr D st) :
    ∃ a st', trailersPoll cfg st = (a, st') ∧ a.isConn = false ∧ (a = .res .pending → EndStR w h ds tr D st') := by
  obtain ⟨res, st', hp, hnc, hpend⟩ := robust_trailers hw cfg.hdr.base
    (fun t ht => base_trailer_ne_qpack cfg t (hT t ht)) D st hst
  unfold trailersPoll
  rw [hp]
  cases res with
  | trailers enc =>
    simp only
    split
    · exact ⟨_, _, rfl, rfl, fun hc => by cases hc⟩
    · exact ⟨_, _, rfl, rfl, fun hc => by cases hc⟩
    · exact ⟨_, _, rfl, rfl, fun hc => by cases hc⟩
  | pending => exact ⟨_, _, rfl, rfl, fun _ => hpend rfl⟩
  | errConn c => cases hnc
  | _ => exact ⟨_, _, rfl, rfl, fun hc => by cases hc⟩

variable (hw : Wire w T) (hfirst : ∀ f, [FS.Tok.frame f] <+: T → f = .headers h)
  (hbody : T ≠ [] → T = msgToks h ds tr) (cfg : Cfg) (hh : cfg.hdr.head h ≠ .qpack)
  (hT : ∀ t, tr = some t → cfg.hdr.trailer t ≠ .qpack)

include hw hfirst hbody hh in
/-- one poll of `resolve_request` / `recv_response` -/
theorem robust_step_head {D : List FS.Ev} {r : Req} (hr : RInvR w T h ds tr .head D r) :
    (Req.step cfg none r (.call .head)).2.2.isConn = false ∧
    RInvR w T h ds tr (nextPh .head .head (Req.step cfg none r (.call .head)).2.2) D
      (Req.step cfg none r (.call .head)).1 := by
  obtain ⟨hg, hres, hat, hst⟩ := hr
  have hlive : live cfg r .head := by
    simp only [live, hg, accepts, hres]
    cases cfg.role <;> rfl
  rw [Req.step_live cfg none r .head hlive]
  obtain ⟨res, st', hp, hnc, hpend, hhead⟩ := robust_head hw hfirst cfg.role cfg.hdr.base
    (base_head_ne_qpack cfg h hh) D (load none r.rx) (headStR_congr hst rfl rfl)
  show (stepHead cfg none r).2.2.isConn = false ∧
    RInvR w T h ds tr (nextPh .head .head (stepHead cfg none r).2.2) D (stepHead cfg none r).1
  unfold stepHead
  rw [hp]
  cases res with
  | head enc =>
    obtain ⟨rfl, hTne, hb⟩ := hhead enc rfl
    simp only
    split
    · exact ⟨(tooBigServer_obs cfg _).1, by rw [(tooBigServer_obs cfg _).2]; trivial⟩
    · exact ⟨rfl, trivial⟩
    · exact ⟨rfl, hbody hTne, hg, rfl, hat, _, bodyStR_congr hb rfl rfl⟩
  | pending => exact ⟨rfl, hg, hres, hat, headStR_congr (hpend rfl) rfl rfl⟩
  | errConn c => cases hnc
  | _ => exact ⟨rfl, trivial⟩

include hw hT in
/-- one poll of a call of the body / trailers phases -/
theorem robust_step_rest {ph : DPhase} (hph : ph = .body ∨ ph = .trailers) {D : List FS.Ev} {r : Req} (c : Call)
    (ha : allowed ph r c = true) (hr : RInvR w T h ds tr ph D r) :
    (Req.step cfg none r (.call c)).2.2.isConn = false ∧
    RInvR w T h ds tr (nextPh ph c (Req.step cfg none r (.call c)).2.2) D (Req.step cfg none r (.call c)).1 := by
  rcases hph with rfl | rfl
  · -- reading the body
    obtain ⟨hTm, hg, hres, hat, out, hst⟩ := hr
    have hw' : Wire w (msgToks h ds tr) := hTm ▸ hw
    have hst0 : BodyStR w h D out (load none r.rx) := bodyStR_congr hst rfl rfl
    cases c with
    | body f =>
      have hlive : live cfg r (.body f) := by
        simp only [live, hg, accepts, hres]
        cases cfg.role <;> rfl
      rw [Req.step_live cfg none r _ hlive]
      show (stepBody cfg f none r).2.2.isConn = false ∧
        RInvR w T h ds tr (nextPh .body (.body f) (stepBody cfg f none r).2.2) D (stepBody cfg f none r).1
      unfold stepBody
      rw [if_neg (by simp [hat])]
      obtain ⟨rs, st2, hd, hall, hp, hen⟩ := robust_drain hw' f (load none r.rx) D out hst0
      rw [hd]
      have hany : rs.any resConn = false := List.any_eq_false.mpr (fun x hx => by simp [hall x hx])
      by_cases he : rs.getLast? = some .end_
      · simp only [if_pos he]
        obtain ⟨a, st3, hp3, hnc3, hpend3⟩ := robust_trailersPoll hw' cfg hT D st2 (hen he)
        rw [hp3]
        refine ⟨by simp [Obs.isConn, hany, optConn, hnc3], ?_⟩
        show RInvR w T h ds tr (if a = .res .pending then .trailers else .done) D _
        by_cases hap : a = .res .pending
        · rw [if_pos hap]; exact ⟨hTm, hg, hres, endStR_congr (hpend3 hap) rfl rfl⟩
        · rw [if_neg hap]; trivial
      · simp only [if_neg he]
        refine ⟨by simp [Obs.isConn, hany, optConn], ?_⟩
        show RInvR w T h ds tr (if rs.getLast? = some .pending then .body else .done) D _
        by_cases hpe : rs.getLast? = some .pending
        · rw [if_pos hpe]
          obtain ⟨out', hst'⟩ := hp hpe
          exact ⟨hTm, hg, hres, hat, out', bodyStR_congr hst' rfl rfl⟩
        · rw [if_neg hpe]; trivial
    | data =>
      have hlive : live cfg r .data := by
        simp only [live, hg, accepts, hres]
        cases cfg.role <;> rfl
      rw [Req.step_live cfg none r _ hlive]
      show (stepData none r).2.2.isConn = false ∧
        RInvR w T h ds tr (nextPh .body .data (stepData none r).2.2) D (stepData none r).1
      unfold stepData
      obtain ⟨res, st', hp, hnc, hcont, hend⟩ := robust_recvData hw' (fsFuel r.rx.src) (load none r.rx) D out hst0
      rw [hp]
      cases res with
      | data d =>
        obtain ⟨out', hst'⟩ := hcont (Or.inr ⟨d, rfl⟩)
        exact ⟨rfl, hTm, hg, hres, hat, out', bodyStR_congr hst' rfl rfl⟩
      | pending =>
        obtain ⟨out', hst'⟩ := hcont (Or.inl rfl)
        exact ⟨rfl, hTm, hg, hres, hat, out', bodyStR_congr hst' rfl rfl⟩
      | end_ => exact ⟨rfl, hTm, hg, hres, endStR_congr (hend rfl) rfl rfl⟩
      | errConn c => cases hnc
      | _ => exact ⟨rfl, trivial⟩
    | head => cases ha
    | trailers => cases ha
    | sendHead _ => cases ha
    | sendData _ => cases ha
    | sendTrailers _ => cases ha
    | finish => cases ha
  · -- after the end of the body
    obtain ⟨hTm, hg, hres, hst⟩ := hr
    have hw' : Wire w (msgToks h ds tr) := hTm ▸ hw
    obtain ⟨a, st', hp, hnc, hpend⟩ := robust_trailersPoll hw' cfg hT D (load none r.rx) (endStR_congr hst rfl rfl)
    cases c with
    | body f =>
      have hlive : live cfg r (.body f) := by
        simp only [live, hg, accepts, hres]
        cases cfg.role <;> rfl
      rw [Req.step_live cfg none r _ hlive]
      have hat : r.atTrailers = true := ha
      show (stepBody cfg f none r).2.2.isConn = false ∧
        RInvR w T h ds tr (nextPh .trailers (.body f) (stepBody cfg f none r).2.2) D (stepBody cfg f none r).1
      unfold stepBody
      rw [if_pos hat, hp]
      refine ⟨by simp [Obs.isConn, optConn, hnc], ?_⟩
      show RInvR w T h ds tr (if a = .res .pending then .trailers else .done) D _
      by_cases hap : a = .res .pending
      · rw [if_pos hap]; exact ⟨hTm, hg, hres, endStR_congr (hpend hap) rfl rfl⟩
      · rw [if_neg hap]; trivial
    | trailers =>
      have hlive : live cfg r .trailers := by
        simp only [live, hg, accepts, hres]
        cases cfg.role <;> rfl
      rw [Req.step_live cfg none r _ hlive]
      show (stepTrailers cfg none r).2.2.isConn = false ∧
        RInvR w T h ds tr (nextPh .trailers .trailers (stepTrailers cfg none r).2.2) D (stepTrailers cfg none r).1
      unfold stepTrailers
      rw [hp]
      refine ⟨hnc, ?_⟩
      show RInvR w T h ds tr (if a = .res .pending then .trailers else .done) D _
      by_cases hap : a = .res .pending
      · rw [if_pos hap]; exact ⟨hTm, hg, hres, endStR_congr (hpend hap) rfl rfl⟩
      · rw [if_neg hap]; trivial
    | head => cases ha
    | data => cases ha
    | sendHead _ => cases ha
    | sendData _ => cases ha
    | sendTrailers _ => cases ha
    | finish => cases ha

include hw hfirst hbody hh hT in
/-- **Every schedule of a stream of the property's quantifier.**  From a state of the pattern, whatever
    peer events (more bytes, FIN at the end of the message, RESET anywhere, STOP_SENDING, credit) and
    documented calls follow: no call answers a connection-level error. -/
theorem robust_run : ∀ (evs : List StreamEv) (ph : DPhase) (D : List FS.Ev) (r : Req),
    RInvR w T h ds tr ph D r → DelivR w (D ++ fsScript (peersOf evs)) → obeys cfg ph none r evs = true →
    ∀ o ∈ (Req.run cfg none r evs).2.2, o.isConn = false := by
  intro evs
  induction evs with
  | nil => intro ph D r _ _ _ o ho; cases ho
  | cons ev rest ih =>
    intro ph D r hr hD hf o ho
    rw [Req.run_cons] at ho
    cases ev with
    | peer p =>
      have hpeers : D ++ fsScript (peersOf (.peer p :: rest)) = (D ++ fsOf p) ++ fsScript (peersOf rest) := by
        simp only [peersOf, fsScript_cons, List.append_assoc]
      rw [hpeers] at hD
      have hstep : Req.step cfg none r (.peer p) = (r.deliver p, none, .quiet) := rfl
      rw [hstep] at ho
      rcases List.mem_cons.mp ho with rfl | ho
      · rfl
      · exact ih ph (D ++ fsOf p) (r.deliver p) (rinvR_deliver p hr (delivR_prefix hD)) hD hf o ho
    | call c =>
      have hpeers : D ++ fsScript (peersOf (.call c :: rest)) = D ++ fsScript (peersOf rest) := rfl
      rw [hpeers] at hD
      by_cases hs : isSend c = true
      · obtain ⟨h1, h2, h3, h4, h5, h6⟩ := send_step cfg none r c hs
        have hf' : obeys cfg ph none (Req.step cfg none r (.call c)).1 rest = true := by
          have : obeys cfg ph none r (.call c :: rest) =
              obeys cfg ph (Req.step cfg none r (.call c)).2.1 (Req.step cfg none r (.call c)).1 rest := by
            simp only [obeys, hs, if_true]
          rw [this, h1] at hf
          exact hf
        rw [h1] at ho
        rcases List.mem_cons.mp ho with rfl | ho
        · exact h2
        · exact ih ph D _ (rinvR_congr hr h3 h4 h5 h6) hD hf' o ho
      · have hs' : isSend c = false := by simpa using hs
        have hob : allowed ph r c = true ∧
            obeys cfg (nextPh ph c (Req.step cfg none r (.call c)).2.2) (Req.step cfg none r (.call c)).2.1
              (Req.step cfg none r (.call c)).1 rest = true := by
          have : obeys cfg ph none r (.call c :: rest) =
              (allowed ph r c &&
               obeys cfg (nextPh ph c (Req.step cfg none r (.call c)).2.2) (Req.step cfg none r (.call c)).2.1
                 (Req.step cfg none r (.call c)).1 rest) := by
            simp only [obeys, hs', Bool.false_eq_true, if_false]
          rw [this] at hf
          simpa using hf
        obtain ⟨ha, hf'⟩ := hob
        have hstep : (Req.step cfg none r (.call c)).2.2.isConn = false ∧
            RInvR w T h ds tr (nextPh ph c (Req.step cfg none r (.call c)).2.2) D (Req.step cfg none r (.call c)).1 := by
          cases ph with
          | head =>
            cases c with
            | head => exact robust_step_head hw hfirst hbody cfg hh hr
            | data => cases ha
            | trailers => cases ha
            | body f => cases ha
            | sendHead _ => cases ha
            | sendData _ => cases ha
            | sendTrailers _ => cases ha
            | finish => cases ha
          | body => exact robust_step_rest hw cfg hT (Or.inl rfl) c ha hr
          | trailers => exact robust_step_rest hw cfg hT (Or.inr rfl) c ha hr
          | done => cases c <;> cases ha
        have hcell := Req.step_cell_ok cfg none r (.call c) hstep.1
        rw [hcell] at hf' ho
        rcases List.mem_cons.mp ho with rfl | ho
        · exact hstep.1
        · exact ih _ D _ hstep.2 hD hf' o ho

end Run

end H3.Iso
