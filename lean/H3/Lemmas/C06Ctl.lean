import H3.Lemmas.C06Frame
/-! The control stream for C06: the frame layer (`H3.FS.pollNext`) below `poll_control`
    (`H3.Control`), composed as the C04 driver composes them.

    * `ctlOuts`: everything `FrameStream::poll_next` says on the control stream for a transport
      script — polled again after every frame without payload and after every `Pending` while the
      script has events left; a frame with payload (DATA, WebTransport) is the last answer: the
      control machine answers it with a connection error and does not come back.
    * `itemOf`: the `match` of `poll_control` on what `poll_next` returned.
    * no answer is the panic outcome; with the end of the stream in the script the last answer is
      one on which the control machine raises a connection error. -/
namespace H3.C06
open H3.Control H3.Frame H3.Gen.Consts
open H3.Lemmas.C04 (firstErr)

def ctlOuts : Nat → FS.St → List FS.Ev → List FS.FOut
  | 0, _, _ => []
  | k+1, s, rx =>
    match FS.pollNext FS.frameDec s rx with
    | (.frame f, s1, rx1) => .frame f :: (if s1.remaining ≠ 0 then [] else ctlOuts k s1 rx1)
    | (.pending, s1, rx1) => .pending :: (if rx1.isEmpty then [] else ctlOuts k s1 rx1)
    | (o, _, _) => [o]

/-- what `poll_control` makes of an answer of `poll_next`; `none` = an answer `poll_next` does not
    give when it is called with `remaining_data = 0` (a data piece, the panic outcome) -/
def itemOf : FS.FOut → Option In
  | .frame f => some (.item (.frame f))
  | .none => some (.item .fin)
  | .errEnd => some (.item .truncated)
  | .errQuic c => some (.item (.reset c))
  | .errProto e => some (.item (.proto e))
  | .pending => some .pend
  | .data _ => none
  | .panic => none

def ctlIns (k : Nat) (s : FS.St) (rx : List FS.Ev) : List In := (ctlOuts k s rx).filterMap itemOf

/-- answers after which the control machine has raised a connection error -/
def terminalOut : FS.FOut → Prop
  | .none => True
  | .errEnd => True
  | .errQuic _ => True
  | .errProto _ => True
  | .frame f => FS.frameKind f ≠ .plain
  | _ => False

/-- answers after which the control stream may be polled again: `Pending`, a frame (whether the
    control machine accepts the frame is its business: `Control.classify`) -/
def passOut : FS.FOut → Prop
  | .pending => True
  | .frame _ => True
  | _ => False

/-! ### no panic -/

theorem ctlOuts_no_panic : ∀ (k : Nat) (s : FS.St) (rx : List FS.Ev), s.remaining = 0 →
    ∀ o ∈ ctlOuts k s rx, NextOutOK o := by
  intro k
  induction k with
  | zero => intro s rx _ o ho; simp [ctlOuts] at ho
  | succ k ih =>
    intro s rx h0 o ho
    have hN := pollNext_safe FS.frameDec s rx h0
    rw [ctlOuts] at ho
    rcases hp : FS.pollNext FS.frameDec s rx with ⟨o1, s1, rx1⟩
    rw [hp] at hN ho
    simp only at hN
    have hrem := hN.rem
    have hout := hN.out
    cases o1 with
    | frame f =>
      simp only [List.mem_cons] at ho
      rcases ho with rfl | ho
      · exact trivial
      · split at ho
        · simp at ho
        · rename_i h1
          exact ih s1 rx1 (by simpa using h1) o ho
    | pending =>
      simp only [List.mem_cons] at ho
      rcases ho with rfl | ho
      · exact trivial
      · split at ho
        · simp at ho
        · have hrem' : s1.remaining = s.remaining := hrem
          exact ih s1 rx1 (by rw [hrem', h0]) o ho
    | _ =>
      simp only [List.mem_singleton] at ho
      subst ho
      exact hout

theorem itemOf_isSome {o : FS.FOut} (h : NextOutOK o) : ∃ x, itemOf o = some x := by
  cases o <;> first | exact ⟨_, rfl⟩ | exact h.elim

/-! ### completion -/

theorem ctlOuts_complete : ∀ (k : Nat) (s : FS.St) (rx : List FS.Ev), s.remaining = 0 →
    Good FS.frameDec s rx → Ends s rx → mu s rx < k →
    ∃ pre last, ctlOuts k s rx = pre ++ [last] ∧ terminalOut last ∧ ∀ o ∈ pre, passOut o := by
  intro k
  induction k with
  | zero => intro s rx _ _ _ h; omega
  | succ k ih =>
    intro s rx h0 hG hE hk
    have hN := pollNext_safe FS.frameDec s rx h0
    rw [ctlOuts]
    rcases hp : FS.pollNext FS.frameDec s rx with ⟨o1, s1, rx1⟩
    rw [hp] at hN
    simp only at hN
    have hrem := hN.rem
    have hout := hN.out
    obtain ⟨hE', hL⟩ := pollNext_live FS.frameDec FS.frameDec_laws s rx hG h0 o1 s1 rx1 hp
    cases o1 with
    | frame f =>
      have hrem' : s1.remaining = (FS.frameKind f).rem := hrem
      have hL' : Good FS.frameDec s1 rx1 ∧ mu s1 rx1 < mu s rx := hL
      simp only
      by_cases h1 : s1.remaining ≠ 0
      · rw [if_pos h1]
        refine ⟨[], .frame f, rfl, ?_, by simp⟩
        intro hk'
        rw [hrem', hk'] at h1
        exact h1 rfl
      · rw [if_neg h1]
        have h1' : s1.remaining = 0 := by simpa using h1
        obtain ⟨pre, last, h2, h3, h4⟩ := ih s1 rx1 h1' hL'.1 (hE' hE) (by omega)
        refine ⟨.frame f :: pre, last, by rw [h2]; rfl, h3, ?_⟩
        intro o ho
        simp only [List.mem_cons] at ho
        rcases ho with rfl | ho
        · exact trivial
        · exact h4 o ho
    | pending =>
      have hrem' : s1.remaining = s.remaining := hrem
      have hL' : Good FS.frameDec s1 rx1 ∧ mu s1 rx1 ≤ mu s rx ∧
          (rx ≠ [] → mu s1 rx1 < mu s rx) ∧ (rx = [] → rx1 = []) := hL
      simp only
      by_cases hemp : rx1.isEmpty = true
      · exfalso
        have hnil : rx1 = [] := by simpa using hemp
        have h1 := hE' hE
        rw [hnil] at h1
        have h2 := hN.pend rfl
        rcases h1 with h1 | h1 | ⟨c, h1⟩
        · rw [h1] at h2; cases h2
        · simp at h1
        · simp at h1
      · rw [if_neg hemp]
        have hne : rx1 ≠ [] := by simpa using hemp
        have hlt := hL'.2.2.1 (fun hnil => hne (hL'.2.2.2 hnil))
        obtain ⟨pre, last, h2, h3, h4⟩ := ih s1 rx1 (by rw [hrem', h0]) hL'.1 (hE' hE) (by omega)
        refine ⟨.pending :: pre, last, by rw [h2]; rfl, h3, ?_⟩
        intro o ho
        simp only [List.mem_cons] at ho
        rcases ho with rfl | ho
        · exact trivial
        · exact h4 o ho
    | none => exact ⟨[], .none, rfl, trivial, by simp⟩
    | errEnd => exact ⟨[], .errEnd, rfl, trivial, by simp⟩
    | errQuic c => exact ⟨[], .errQuic c, rfl, trivial, by simp⟩
    | errProto e => exact ⟨[], .errProto e, rfl, trivial, by simp⟩
    | data d => exact hout.elim
    | panic => exact hout.elim

/-! ### what the control machine does with the answers -/

theorem processGoaway_control (c : Conn) (id : Nat) : (processGoaway c id).1.control = c.control := by
  unfold processGoaway
  split
  · split <;> rfl
  · rfl

theorem handle_control (role : Role) (c : Conn) (f : Frame) : (handle role c f).1.control = c.control := by
  cases role
  · show (serverHandle c f).1.control = _
    cases f <;> simp only [serverHandle] <;> first | rfl | exact processGoaway_control _ _
  · show (clientHandle c f).1.control = _
    cases f <;> simp only [clientHandle] <;> first | rfl | (split <;> first | rfl | exact processGoaway_control _ _)

theorem classify_pass_control (c c1 : Conn) (i : Item) (f : Frame) (h : classify c i = .pass f c1) :
    c1.control = c.control := by
  cases i with
  | frame fr =>
    cases fr <;> simp only [classify, classifyLater] at h <;> split at h <;> cases h <;> rfl
  | _ => simp [classify] at h

/-- an input that comes from the control stream leaves the control stream in place -/
theorem step_control (cfg : Cfg) (c : Conn) (x : In) (hx : ∀ tag a, x ≠ .uni tag a) (hc : c.control = true) :
    (step cfg c x).1.control = true := by
  cases x with
  | pend => exact hc
  | uni tag a => exact absurd rfl (hx tag a)
  | item i =>
    simp only [step, hc, if_true]
    cases hcl : classify c i with
    | error e => simpa [Conn.fail] using hc
    | pass f c1 =>
      simp only
      rw [handle_control, classify_pass_control c c1 i f hcl]
      exact hc

theorem itemOf_not_uni {o : FS.FOut} {x : In} (h : itemOf o = some x) : ∀ tag a, x ≠ .uni tag a := by
  intro tag a hx
  subst hx
  cases o <;> simp [itemOf] at h

/-- every terminal answer makes the control machine raise a connection error -/
theorem step_terminal (cfg : Cfg) (c : Conn) (o : FS.FOut) (x : In) (hc : c.control = true)
    (ht : terminalOut o) (hx : itemOf o = some x) : ∃ e, (step cfg c x).2.2 = some e := by
  cases o with
  | none => simp only [itemOf, Option.some.injEq] at hx; subst hx; simp [step, hc, classify]
  | errEnd => simp only [itemOf, Option.some.injEq] at hx; subst hx; simp [step, hc, classify]
  | errQuic q => simp only [itemOf, Option.some.injEq] at hx; subst hx; simp [step, hc, classify]
  | errProto e => simp only [itemOf, Option.some.injEq] at hx; subst hx; simp [step, hc, classify]
  | frame f =>
    simp only [itemOf, Option.some.injEq] at hx
    subst hx
    have ht' : FS.frameKind f ≠ .plain := ht
    cases f with
    | data n =>
      simp only [step, hc, if_true, classify, classifyLater]
      cases c.gotSettings <;> simp
    | webTransport sid =>
      simp only [step, hc, if_true, classify, classifyLater]
      cases c.gotSettings <;> simp
    | _ => exact absurd rfl ht'
  | pending => exact ht.elim
  | data d => exact ht.elim
  | panic => exact ht.elim

/-- the codes with which the end of the control stream itself is reported -/
theorem step_stream_end (cfg : Cfg) (c : Conn) (hc : c.control = true) :
    (step cfg c (.item .fin)).2.2 = some CODE_H3_CLOSED_CRITICAL_STREAM ∧
    (∀ q, (step cfg c (.item (.reset q))).2.2 = some CODE_H3_CLOSED_CRITICAL_STREAM) ∧
    (step cfg c (.item .truncated)).2.2 = some CODE_H3_FRAME_ERROR := by
  simp [step, hc, classify]

/-- the connection state after inputs none of which raised an error -/
def after (cfg : Cfg) (c : Conn) (ins : List In) : Conn := ins.foldl (fun c x => (step cfg c x).1) c

theorem firstErr_append_none (cfg : Cfg) : ∀ (ins : List In) (c : Conn) (x : In), firstErr cfg c ins = none →
    firstErr cfg c (ins ++ [x]) = (step cfg (after cfg c ins) x).2.2 := by
  intro ins
  induction ins with
  | nil =>
    intro c x _
    simp only [List.nil_append, firstErr, after, List.foldl_nil]
    cases (step cfg c x).2.2 <;> rfl
  | cons y r ih =>
    intro c x h
    simp only [firstErr] at h
    simp only [List.cons_append, firstErr, after, List.foldl_cons]
    cases hy : (step cfg c y).2.2 with
    | some e => rw [hy] at h; cases h
    | none =>
      rw [hy] at h
      simp only at h ⊢
      exact ih _ x h

theorem after_control (cfg : Cfg) : ∀ (ins : List In) (c : Conn), (∀ x ∈ ins, ∀ tag a, x ≠ .uni tag a) →
    c.control = true → (after cfg c ins).control = true := by
  intro ins
  induction ins with
  | nil => intro c _ h; exact h
  | cons y r ih =>
    intro c hx hc
    simp only [after, List.foldl_cons]
    exact ih _ (fun x hx' => hx x (List.mem_cons_of_mem _ hx')) (step_control cfg c y (hx y (List.mem_cons_self ..)) hc)

theorem filterMap_itemOf_not_uni (outs : List FS.FOut) : ∀ x ∈ outs.filterMap itemOf, ∀ tag a, x ≠ .uni tag a := by
  intro x hx
  obtain ⟨o, _, ho⟩ := List.mem_filterMap.mp hx
  exact itemOf_not_uni ho

/-- a run of answers that ends with a terminal one makes the control machine — the reference run,
    hence by C04 the polled driver whatever the grease stream does — end with a connection error -/
theorem firstErr_of_terminal (cfg : Cfg) (last : FS.FOut) (ht : terminalOut last) :
    ∀ (pre : List FS.FOut) (c : Conn), c.control = true →
      ∃ e, firstErr cfg c ((pre ++ [last]).filterMap itemOf) = some e := by
  intro pre
  induction pre with
  | nil =>
    intro c hc
    have hok : NextOutOK last := by cases last <;> first | exact trivial | exact ht.elim
    obtain ⟨x, hx⟩ := itemOf_isSome hok
    obtain ⟨e, he⟩ := step_terminal cfg c last x hc ht hx
    refine ⟨e, ?_⟩
    simp only [List.nil_append, List.filterMap_cons, hx, List.filterMap_nil, firstErr, he]
  | cons o r ih =>
    intro c hc
    cases ho : itemOf o with
    | none =>
      simp only [List.cons_append, List.filterMap_cons, ho]
      exact ih c hc
    | some x =>
      simp only [List.cons_append, List.filterMap_cons, ho, firstErr]
      cases hs : (step cfg c x).2.2 with
      | some e => exact ⟨e, rfl⟩
      | none =>
        simp only
        exact ih _ (step_control cfg c x (itemOf_not_uni ho) hc)

/-! ### unidirectional stream headers -/

/-- a complete header of a type that carries an id has the id -/
theorem header_id (w : Varint.Bytes) (ty : Nat) (id : Option Nat) (rest : Varint.Bytes)
    (h : Spec.ControlRules.header w = .complete ty id rest) (hid : Spec.ControlRules.hasId ty = true) :
    id.isSome = true := by
  unfold Spec.ControlRules.header at h
  split at h
  · cases h
  · rename_i ty' r1 _
    split at h
    · split at h
      · cases h
      · simp only [Spec.ControlRules.Hdr.complete.injEq] at h
        rw [← h.2.1]; rfl
    · rename_i hn
      simp only [Spec.ControlRules.Hdr.complete.injEq] at h
      rw [h.1] at hn
      exact absurd hid hn

end H3.C06
