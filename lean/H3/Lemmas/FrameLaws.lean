import H3.Lemmas.Frame
import H3.Spec.FrameRef
/-! The three decoder laws (DESIGN App. B.1) for the model of `Frame::decode`. -/
namespace H3.FS
open H3.Frame H3.Varint H3.Gen.Consts

theorem typed_pos (ty : Nat) (p : Bytes) (n n' : Nat)
    (h : (liftRes (typed ty p n)).pos? = some n') : n' = n := by
  unfold typed at h
  repeat' split at h
  all_goals simp [liftRes, DecRes.pos?] at h
  all_goals omega

theorem typed_definite (ty : Nat) (p : Bytes) (n : Nat) :
    (liftRes (typed ty p n)).isIncomplete = false := by
  unfold typed
  repeat' split
  all_goals rfl

/-- `body` is incomplete exactly when the payload of a non-DATA frame is not all there -/
theorem body_incomplete_iff (ty x h : Nat) (b : Bytes) :
    (liftRes (body ty x h b)).isIncomplete = true ↔
      (ty ≠ FRAME_WEBTRANSPORT_BI_STREAM ∧ ty ≠ FRAME_DATA ∧ b.length - h < x) := by
  unfold body
  by_cases hwt : ty = FRAME_WEBTRANSPORT_BI_STREAM
  · rw [if_pos hwt]; simp [liftRes, DecRes.isIncomplete, hwt]
  · rw [if_neg hwt]
    by_cases hd : ty = FRAME_DATA
    · rw [if_pos hd]; simp [liftRes, DecRes.isIncomplete, hd]
    · rw [if_neg hd]
      by_cases hs : b.length - h < x
      · rw [if_pos hs]; simp [liftRes, DecRes.isIncomplete, hwt, hd, hs]
      · rw [if_neg hs, typed_definite]; simp [hs]

theorem body_pos (ty x h : Nat) (b : Bytes) (n : Nat)
    (hp : (liftRes (body ty x h b)).pos? = some n) :
    (ty = FRAME_WEBTRANSPORT_BI_STREAM ∨ ty = FRAME_DATA) ∧ n = h ∨
    (ty ≠ FRAME_WEBTRANSPORT_BI_STREAM ∧ ty ≠ FRAME_DATA ∧ ¬ b.length - h < x ∧ n = h + x) := by
  unfold body at hp
  by_cases hwt : ty = FRAME_WEBTRANSPORT_BI_STREAM
  · rw [if_pos hwt] at hp
    simp [liftRes, DecRes.pos?] at hp
    exact Or.inl ⟨Or.inl hwt, hp.symm⟩
  · rw [if_neg hwt] at hp
    by_cases hd : ty = FRAME_DATA
    · rw [if_pos hd] at hp
      simp [liftRes, DecRes.pos?] at hp
      exact Or.inl ⟨Or.inr hd, hp.symm⟩
    · rw [if_neg hd] at hp
      by_cases hs : b.length - h < x
      · rw [if_pos hs] at hp; simp [liftRes, DecRes.pos?] at hp
      · rw [if_neg hs] at hp
        exact Or.inr ⟨hwt, hd, hs, typed_pos _ _ _ _ hp⟩

/-- the part of `body` that does not depend on how much follows the frame -/
theorem body_congr (ty x h : Nat) (b b' : Bytes) (hb : ¬ b.length - h < x) (hb' : ¬ b'.length - h < x)
    (hp : (b'.drop h).take x = (b.drop h).take x) : body ty x h b' = body ty x h b := by
  unfold body
  rw [if_neg hb, if_neg hb', hp]

theorem body_hdr_only (ty x h : Nat) (b b' : Bytes)
    (hty : ty = FRAME_WEBTRANSPORT_BI_STREAM ∨ ty = FRAME_DATA) : body ty x h b' = body ty x h b := by
  unfold body
  rcases hty with hty | hty
  · rw [if_pos hty, if_pos hty]
  · by_cases hwt : ty = FRAME_WEBTRANSPORT_BI_STREAM
    · rw [if_pos hwt, if_pos hwt]
    · rw [if_neg hwt, if_neg hwt, if_pos hty, if_pos hty]

theorem dec_view (b : Bytes) :
    frameDec.dec b = match hdr2 b with
      | none => .incomplete (incN b)
      | some (ty, x, h) => liftRes (body ty x h b) := by
  show liftRes (decode b) = _
  rw [decode_view]
  cases hdr2 b with
  | none => rfl
  | some t => rfl

theorem frameDec_nil : (frameDec.dec []).isIncomplete = true := by decide

theorem frameDec_stable (b c : Bytes) (h : (frameDec.dec b).isIncomplete = false) :
    frameDec.dec (b ++ c) = frameDec.dec b := by
  rw [dec_view] at h ⊢
  rw [dec_view]
  cases hh : hdr2 b with
  | none => rw [hh] at h; cases h
  | some t =>
    obtain ⟨ty, x, hd⟩ := t
    rw [hh] at h
    simp only at h
    rw [hdr2_append hh c]
    simp only
    have ⟨_, hle⟩ := hdr2_bounds hh
    by_cases hty : ty = FRAME_WEBTRANSPORT_BI_STREAM ∨ ty = FRAME_DATA
    · rw [body_hdr_only ty x hd b (b ++ c) hty]
    · have hni : ¬ (liftRes (body ty x hd b)).isIncomplete = true := by simp [h]
      rw [body_incomplete_iff] at hni
      have hs : ¬ b.length - hd < x := by
        intro hs; exact hni ⟨fun e => hty (Or.inl e), fun e => hty (Or.inr e), hs⟩
      rw [body_congr ty x hd b (b ++ c) hs (by simp; omega)]
      rw [List.drop_append_of_le_length hle, List.take_append_of_le_length (by simp; omega)]

theorem frameDec_pos_le (b : Bytes) (n : Nat) (hp : (frameDec.dec b).pos? = some n) :
    1 ≤ n ∧ n ≤ b.length := by
  rw [dec_view] at hp
  cases hh : hdr2 b with
  | none => rw [hh] at hp; cases hp
  | some t =>
    obtain ⟨ty, x, hd⟩ := t
    rw [hh] at hp
    have ⟨h2, hle⟩ := hdr2_bounds hh
    rcases body_pos ty x hd b n hp with ⟨_, hn⟩ | ⟨_, _, hs, hn⟩
    · omega
    · omega

theorem frameDec_minimal (b : Bytes) (n : Nat) (hp : (frameDec.dec b).pos? = some n) :
    (∀ k, k < n → (frameDec.dec (b.take k)).isIncomplete = true) ∧
    frameDec.dec (b.take n) = frameDec.dec b := by
  rw [dec_view] at hp
  cases hh : hdr2 b with
  | none => rw [hh] at hp; cases hp
  | some t =>
    obtain ⟨ty, x, hd⟩ := t
    rw [hh] at hp
    simp only at hp
    have ⟨h2, hle⟩ := hdr2_bounds hh
    have hview : ∀ k, frameDec.dec (b.take k) =
        if k < hd then .incomplete (incN (b.take k)) else liftRes (body ty x hd (b.take k)) := by
      intro k
      rw [dec_view, hdr2_take hh k]
      by_cases hk : k < hd
      · rw [if_pos hk, if_pos hk]
      · rw [if_neg hk, if_neg hk]
    rw [dec_view b, hh]
    simp only
    rcases body_pos ty x hd b n hp with ⟨hty, hn⟩ | ⟨hwt, hdt, hs, hn⟩
    · have hn' := hn.symm
      subst hn'
      refine ⟨fun k hk => ?_, ?_⟩
      · rw [hview, if_pos hk]; rfl
      · rw [hview, if_neg (by omega), body_hdr_only ty x hd b _ hty]
    · have hn' := hn.symm
      subst hn'
      refine ⟨fun k hk => ?_, ?_⟩
      · rw [hview]
        by_cases hk' : k < hd
        · rw [if_pos hk']; rfl
        · rw [if_neg hk', body_incomplete_iff]
          refine ⟨hwt, hdt, ?_⟩
          simp only [List.length_take]
          omega
      · rw [hview, if_neg (by omega)]
        rw [body_congr ty x hd b (b.take (hd + x)) hs (by simp only [List.length_take]; omega)]
        rw [List.drop_take, List.take_take]
        have : min x (hd + x - hd) = x := by omega
        rw [this]

theorem frameDec_lower (b c : Bytes) (m : Nat) (hm : frameDec.dec b = .incomplete m)
    (hdef : (frameDec.dec (b ++ c)).isIncomplete = false) : m ≤ (b ++ c).length := by
  rw [dec_view] at hm hdef
  cases hh' : hdr2 (b ++ c) with
  | none => rw [hh'] at hdef; cases hdef
  | some t' =>
    obtain ⟨ty, x, hd⟩ := t'
    rw [hh'] at hdef
    simp only at hdef
    have ⟨h2, hle⟩ := hdr2_bounds hh'
    cases hh : hdr2 b with
    | none =>
      rw [hh] at hm
      simp only [DecRes.incomplete.injEq] at hm
      have := (hdr2_none_append hh hh').1
      omega
    | some t =>
      have := hdr2_append hh c
      rw [hh'] at this
      cases this
      rw [hh] at hm
      simp only at hm
      have hinc : (liftRes (body ty x hd b)).isIncomplete = true := by rw [hm]; rfl
      rw [body_incomplete_iff] at hinc
      obtain ⟨hwt, hdt, hs⟩ := hinc
      have hni : ¬ (liftRes (body ty x hd (b ++ c))).isIncomplete = true := by simp [hdef]
      rw [body_incomplete_iff] at hni
      have hs' : ¬ (b ++ c).length - hd < x := fun hs' => hni ⟨hwt, hdt, hs'⟩
      unfold body at hm
      rw [if_neg hwt, if_neg hdt, if_pos hs] at hm
      simp only [liftRes, DecRes.incomplete.injEq] at hm
      omega

theorem liftRes_incomplete_iff (r : H3.Frame.DecRes) :
    (liftRes r).isIncomplete = true ↔ ∃ m, r = .incomplete m := by
  cases r <;> simp [liftRes, DecRes.isIncomplete]

theorem liftRes_definite_iff (r : H3.Frame.DecRes) :
    (liftRes r).isIncomplete = false ↔ ∀ m, r ≠ .incomplete m := by
  cases r <;> simp [liftRes, DecRes.isIncomplete]

theorem liftRes_inj {a b : H3.Frame.DecRes} (h : liftRes a = liftRes b) : a = b := by
  cases a <;> cases b <;> simp_all [liftRes]

theorem vlen_le8 (b0 : Nat) : vlen b0 ≤ 8 := by
  unfold vlen; repeat' split
  all_goals omega

theorem vhead_some_of_long (x : Bytes) (h : 8 ≤ x.length) : ∃ v n, vhead x = some (v, n) ∧ n ≤ 8 := by
  cases x with
  | nil => simp at h
  | cons b0 t =>
    have := vlen_le8 b0
    simp only [List.length_cons] at h
    refine ⟨vval b0 t, vlen b0, ?_, this⟩
    simp only [vhead]
    rw [if_neg (by omega)]

/-- every buffer can be extended to one on which the decoder gives a definite answer -/
theorem frameDec_completable (b : Bytes) :
    ∃ c, (frameDec.dec (b ++ c)).isIncomplete = false := by
  obtain ⟨ty, n1, h1, hn1⟩ := vhead_some_of_long (b ++ List.replicate 16 0) (by simp)
  obtain ⟨x, n2, h2, hn2⟩ := vhead_some_of_long ((b ++ List.replicate 16 0).drop n1)
    (by simp; omega)
  have hh : hdr2 (b ++ List.replicate 16 0) = some (ty, x, n1 + n2) := by
    unfold hdr2; rw [h1]; simp only; rw [h2]
  have hb := hdr2_bounds hh
  refine ⟨List.replicate 16 0 ++ List.replicate x 0, ?_⟩
  rw [← List.append_assoc, dec_view, hdr2_append hh]
  simp only
  cases hi : (liftRes (body ty x (n1 + n2) (b ++ List.replicate 16 0 ++ List.replicate x 0))).isIncomplete with
  | false => rfl
  | true =>
    rw [body_incomplete_iff] at hi
    have := hi.2.2
    simp only [List.length_append, List.length_replicate] at this hb
    omega

theorem frameDec_laws : Laws frameDec :=
  { nil := frameDec_nil
    stable := frameDec_stable
    pos_le := frameDec_pos_le
    minimal := frameDec_minimal
    lower := frameDec_lower }

end H3.FS
