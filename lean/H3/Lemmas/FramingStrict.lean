import H3.Spec.FramingStrict
/-! Helper for `C02_strict_reading_differs_only_on_short_settings`: the strict reading of a SETTINGS
    payload (`entries`) and the lenient one (`pairs`) segment the payload alike. -/
namespace H3.Spec.Framing
open H3.Varint

/-- `entries` and `pairs` read a SETTINGS payload the same way: `pairs` succeeds exactly when the
    payload stops after a complete entry, and then with the same entries. -/
theorem entries_pairs (fuel : Nat) (p : Varint.Bytes) :
    match pairs fuel p with
    | some ps => entries fuel p = (ps, .clean)
    | none => (entries fuel p).2 ≠ .clean := by
  induction fuel generalizing p with
  | zero => simp [pairs, entries]
  | succ n ih =>
    unfold pairs entries
    by_cases hp : p = []
    · simp [hp]
    · simp only [if_neg hp]
      cases h1 : rfcDecode p with
      | none => simp
      | some a =>
        obtain ⟨id, r1⟩ := a
        simp only
        cases h2 : rfcDecode r1 with
        | none => simp
        | some b =>
          obtain ⟨v, r2⟩ := b
          simp only
          have := ih r2
          cases hq : pairs n r2 with
          | none => rw [hq] at this; simpa using this
          | some ps =>
            rw [hq] at this
            simp [this]

end H3.Spec.Framing
