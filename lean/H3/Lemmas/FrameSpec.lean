import H3.Lemmas.Frame
import H3.Spec.Framing
import H3.Props.C16
/-! `Frame.decode` against the RFC 9114 §7.1/§7.2 oracle of `H3.Spec.Framing`, for well-formed
    byte strings: varints (`rfcDecode`, via C16), one-varint payloads, SETTINGS payloads. -/
namespace H3.Frame
open H3.Varint H3.Gen.Consts H3.Spec.Framing

theorem WF_drop {b : Bytes} (h : WF b) (n : Nat) : WF (b.drop n) :=
  fun x hx => h x (List.mem_of_mem_drop hx)

theorem WF_take {b : Bytes} (h : WF b) (n : Nat) : WF (b.take n) :=
  fun x hx => h x (List.mem_of_mem_take hx)

theorem WF_append {a b : Bytes} (h : WF (a ++ b)) : WF a ∧ WF b :=
  ⟨fun x hx => h x (List.mem_append_left _ hx), fun x hx => h x (List.mem_append_right _ hx)⟩

/-- what `rfcDecode` returns as the rest -/
theorem rfc_rest {b r : Bytes} {v : Nat} (h : rfcDecode b = some (v, r)) :
    ∃ n, 1 ≤ n ∧ n ≤ b.length ∧ r = b.drop n := by
  cases b with
  | nil => cases h
  | cons b0 t =>
    simp only [rfcDecode] at h
    split at h
    · cases h
    · rename_i hlen
      cases h
      refine ⟨rfcLen b0, ?_, by omega, rfl⟩
      unfold rfcLen
      exact Nat.one_le_two_pow

/-- the encoded length of the varint `rfcDecode` has read -/
theorem rfc_len {b r : Bytes} {v : Nat} (h : rfcDecode b = some (v, r)) :
    b.length - r.length = rfcLen (b.headD 0) ∧ r.length ≤ b.length := by
  cases b with
  | nil => cases h
  | cons b0 t =>
    simp only [rfcDecode] at h
    split at h
    · cases h
    · rename_i hlen
      cases h
      simp only [List.length_drop, List.headD_cons]
      omega

/-- `Varint.decode` is `rfcDecode` on well-formed bytes (C16) -/
theorem decode_of_rfc (b : Bytes) (hwf : WF b) :
    Varint.decode b = match rfcDecode b with
      | some (v, r) => .ok v r
      | none => .endOf (vkOf b) := by
  have ⟨h1, h2⟩ := H3.Props.C16.C16_decode_total b hwf
  cases hr : rfcDecode b with
  | some p =>
    obtain ⟨v, r⟩ := p
    exact (h1 v r hr).1
  | none =>
    obtain ⟨k, hk⟩ := h2 hr
    rw [decode_vhead] at hk ⊢
    cases hv : vhead b with
    | none => rfl
    | some q => rw [hv] at hk; cases hk

/-- the same through the view `vhead` -/
theorem vhead_of_rfc (b : Bytes) (hwf : WF b) :
    vhead b = match rfcDecode b with
      | some (v, r) => some (v, b.length - r.length)
      | none => none := by
  have hd := decode_of_rfc b hwf
  rw [decode_vhead] at hd
  cases hr : rfcDecode b with
  | some p =>
    obtain ⟨v, r⟩ := p
    rw [hr] at hd
    cases hv : vhead b with
    | none => rw [hv] at hd; cases hd
    | some q =>
      obtain ⟨v', n⟩ := q
      rw [hv] at hd
      simp only [Varint.DecRes.ok.injEq] at hd
      have ⟨_, hn⟩ := vhead_bounds hv
      obtain ⟨rfl, rfl⟩ := hd
      simp only [List.length_drop]
      congr 2
      omega
  | none =>
    rw [hr] at hd
    cases hv : vhead b with
    | none => rfl
    | some q => rw [hv] at hd; cases hd

theorem oneVarint_eq (p : Bytes) (hwf : WF p) : oneVarint p = exactlyOneVarint p := by
  unfold oneVarint exactlyOneVarint
  rw [decode_of_rfc p hwf]
  cases rfcDecode p with
  | none => rfl
  | some q =>
    obtain ⟨v, r⟩ := q
    cases r with
    | nil => rfl
    | cons _ _ => rfl

/-! ### SETTINGS payloads -/

theorem supported_iff (id : Nat) : settingSupported id = definedSettings.contains id := by
  simp only [settingSupported, definedSettings, SETTING_MAX_HEADER_LIST_SIZE,
    SETTING_QPACK_MAX_TABLE_CAPACITY, SETTING_QPACK_MAX_BLOCKED_STREAMS,
    SETTING_ENABLE_CONNECT_PROTOCOL, SETTING_ENABLE_WEBTRANSPORT,
    SETTING_WEBTRANSPORT_MAX_SESSIONS, SETTING_H3_DATAGRAM]
  rw [Bool.eq_iff_iff]
  simp
  omega

theorem forbidden_iff (id : Nat) : settingForbidden id = h2Settings.contains id := by
  simp only [settingForbidden, h2Settings]
  rw [Bool.eq_iff_iff]
  simp
  omega

def idsOf (es : List (Nat × Nat)) : List Nat := es.map (·.1)

/-- the entries collected so far: distinct supported identifiers -/
def EsOK (es : List (Nat × Nat)) : Prop :=
  (idsOf es).Nodup ∧ ∀ id ∈ idsOf es, settingSupported id = true

theorem esOK_length {es : List (Nat × Nat)} (h : EsOK es) : es.length ≤ 7 := by
  have hsub : idsOf es ⊆ definedSettings := by
    intro id hid
    have := h.2 id hid
    rw [supported_iff] at this
    simpa using this
  have := List.Nodup.length_le_of_subset h.1 hsub
  simpa [idsOf, definedSettings] using this

/-- repeated defined identifier, given the identifiers `seen` before this point -/
def Gb (seen : List Nat) (ps : List (Nat × Nat)) : Bool :=
  ps.any (fun e => definedSettings.contains e.1 && seen.contains e.1) || hasRepeatedDefined ps

/-- the specification's verdict on a SETTINGS payload, with identifiers `seen` before it -/
def specBad (seen : List Nat) : Option (List (Nat × Nat)) → Bool
  | none => true
  | some ps => ps.any (fun e => h2Settings.contains e.1) || Gb seen ps || hasBadBool ps

/-- the identifiers `Settings::decode` tests for a value above 1 (read from the source by the translator) are the two
    the RFCs restrict to 0 / 1 (on a source without the test — before the repair of D-13b — this does not prove) -/
theorem boolean_iff (id : Nat) : settingBoolean id = boolSettings.contains id := by
  simp only [settingBoolean, H3.Gen.Settings.booleanIds, boolSettings]

theorem bool_defined (id : Nat) (h : definedSettings.contains id = false) : boolSettings.contains id = false := by
  cases hb : boolSettings.contains id with
  | false => rfl
  | true =>
    exfalso
    simp only [boolSettings, List.contains_eq_mem, List.mem_cons, List.not_mem_nil, or_false,
      decide_eq_true_eq] at hb
    rcases hb with rfl | rfl <;> simp [definedSettings] at h

def isError : Except SettingsErr (List (Nat × Nat)) → Bool
  | .error _ => true
  | .ok _ => false

theorem specBad_forbidden (seen : List Nat) (id v : Nat) (o : Option (List (Nat × Nat)))
    (hf : h2Settings.contains id = true) : specBad seen (o.map ((id, v) :: ·)) = true := by
  cases o with
  | none => rfl
  | some ps => simp only [Option.map_some, specBad, List.any_cons, hf, Bool.true_or]

theorem specBad_badbool (seen : List Nat) (id v : Nat) (o : Option (List (Nat × Nat)))
    (hb : (boolSettings.contains id && decide (1 < v)) = true) : specBad seen (o.map ((id, v) :: ·)) = true := by
  cases o with
  | none => rfl
  | some ps => simp only [Option.map_some, specBad, hasBadBool, List.any_cons, hb, Bool.true_or, Bool.or_true]

theorem specBad_repeated (seen : List Nat) (id v : Nat) (o : Option (List (Nat × Nat)))
    (hd : definedSettings.contains id = true) (hs : seen.contains id = true) :
    specBad seen (o.map ((id, v) :: ·)) = true := by
  cases o with
  | none => rfl
  | some ps =>
    simp only [Option.map_some, specBad, Gb, List.any_cons, hd, hs, Bool.and_self, Bool.true_or,
      Bool.or_true]

theorem specBad_skip (seen : List Nat) (id v : Nat) (o : Option (List (Nat × Nat)))
    (hf : h2Settings.contains id = false) (hd : definedSettings.contains id = false) :
    specBad seen (o.map ((id, v) :: ·)) = specBad seen o := by
  cases o with
  | none => rfl
  | some ps =>
    simp only [Option.map_some, specBad, Gb, hasBadBool, List.any_cons, hasRepeatedDefined, hf, hd,
      bool_defined id hd, Bool.false_and, Bool.false_or]

theorem contains_snoc (seen : List Nat) (id x : Nat) :
    (seen ++ [id]).contains x = (seen.contains x || x == id) := by
  rw [Bool.eq_iff_iff]; simp

theorem bool_snoc (d s q A B : Bool) (h : q = true → d = true) :
    (d && (s || q) || (A || B)) = ((d && s || A) || (q || B)) := by
  cases d <;> cases s <;> cases q <;> cases A <;> cases B <;> simp_all

theorem any_seen_snoc (seen : List Nat) (id : Nat) (ps : List (Nat × Nat))
    (hd : definedSettings.contains id = true) :
    ps.any (fun e => definedSettings.contains e.1 && (seen ++ [id]).contains e.1) =
      (ps.any (fun e => definedSettings.contains e.1 && seen.contains e.1) ||
        ps.any (fun e => e.1 == id)) := by
  induction ps with
  | nil => rfl
  | cons e r ih =>
    simp only [List.any_cons]
    rw [ih, contains_snoc]
    exact bool_snoc _ _ _ _ _ (by intro hq; rw [beq_iff_eq.mp hq]; exact hd)

theorem specBad_insert (seen : List Nat) (id v : Nat) (o : Option (List (Nat × Nat)))
    (hf : h2Settings.contains id = false) (hd : definedSettings.contains id = true)
    (hs : seen.contains id = false) (hb : (boolSettings.contains id && decide (1 < v)) = false) :
    specBad seen (o.map ((id, v) :: ·)) = specBad (seen ++ [id]) o := by
  cases o with
  | none => rfl
  | some ps =>
    simp only [Option.map_some, specBad, Gb, hasBadBool, List.any_cons, hasRepeatedDefined, hf, hd, hs, hb,
      Bool.false_or, Bool.and_false, Bool.true_and]
    rw [any_seen_snoc seen id ps hd]
    cases ps.any (fun e => h2Settings.contains e.1) <;>
      cases ps.any (fun e => definedSettings.contains e.1 && seen.contains e.1) <;>
      cases ps.any (fun e => e.1 == id) <;> cases hasRepeatedDefined ps <;>
      cases ps.any (fun e => boolSettings.contains e.1 && decide (1 < e.2)) <;> rfl

theorem settingsAux_agrees : ∀ (fuel : Nat) (bs : Bytes) (es : List (Nat × Nat)), WF bs →
    bs.length < fuel → EsOK es →
    isError (settingsDecodeAux fuel bs es) = specBad (idsOf es) (pairs fuel bs) := by
  intro fuel
  induction fuel with
  | zero => intro bs es _ h; omega
  | succ fuel ih =>
    intro bs es hwf hlen hes
    unfold settingsDecodeAux pairs
    by_cases hnil : bs = []
    · rw [if_pos hnil, if_pos hnil]; rfl
    · rw [if_neg hnil, if_neg hnil]
      rw [decode_of_rfc bs hwf]
      cases hr1 : rfcDecode bs with
      | none =>
        simp only
        split <;> rfl
      | some p1 =>
        obtain ⟨id, r1⟩ := p1
        obtain ⟨n1, hn1, hn1', hr1eq⟩ := rfc_rest hr1
        have hwf1 : WF r1 := by rw [hr1eq]; exact WF_drop hwf _
        simp only
        rw [decode_of_rfc r1 hwf1]
        cases hr2 : rfcDecode r1 with
        | none =>
          simp only
          split <;> rfl
        | some p2 =>
          obtain ⟨v, r2⟩ := p2
          obtain ⟨n2, hn2, hn2', hr2eq⟩ := rfc_rest hr2
          have hwf2 : WF r2 := by rw [hr2eq]; exact WF_drop hwf1 _
          have hlen1 : r1.length = bs.length - n1 := by rw [hr1eq]; simp
          have hlen2 : r2.length < fuel := by
            have : r2.length = r1.length - n2 := by rw [hr2eq]; simp
            omega
          have h2 : ¬ bs.length < 2 := by omega
          rw [if_neg h2]
          simp only
          by_cases hforb : settingForbidden id = true
          · rw [if_pos hforb]
            rw [specBad_forbidden _ _ _ _ (by rw [← forbidden_iff]; exact hforb)]
            rfl
          · rw [if_neg hforb]
            have hforb' : h2Settings.contains id = false := by
              rw [← forbidden_iff]; simpa using hforb
            by_cases hsup : settingSupported id = true
            · rw [if_pos hsup]
              have hdef : definedSettings.contains id = true := by rw [← supported_iff]; exact hsup
              by_cases hbad : (settingBoolean id && decide (1 < v)) = true
              · rw [if_pos hbad]
                rw [specBad_badbool _ _ _ _ (by rw [← boolean_iff]; exact hbad)]
                rfl
              rw [if_neg hbad]
              have hbad' : (boolSettings.contains id && decide (1 < v)) = false := by
                rw [← boolean_iff]; simpa using hbad
              unfold settingsInsert
              have h8 : ¬ es.length ≥ 8 := by have := esOK_length hes; omega
              rw [if_neg h8]
              by_cases hrep : es.any (fun e => e.1 == id) = true
              · rw [if_pos hrep]
                have hs : (idsOf es).contains id = true := by
                  simp only [List.any_eq_true, beq_iff_eq] at hrep
                  obtain ⟨e, he, rfl⟩ := hrep
                  simp only [idsOf, List.contains_iff_mem, List.mem_map]
                  exact ⟨e, he, rfl⟩
                rw [specBad_repeated _ _ _ _ hdef hs]
                rfl
              · rw [if_neg hrep]
                have hs : (idsOf es).contains id = false := by
                  cases hc : (idsOf es).contains id with
                  | false => rfl
                  | true =>
                    exfalso; apply hrep
                    simp only [idsOf, List.contains_iff_mem, List.mem_map] at hc
                    obtain ⟨e, he, rfl⟩ := hc
                    simp only [List.any_eq_true, beq_iff_eq]
                    exact ⟨e, he, rfl⟩
                simp only
                have hes' : EsOK (es ++ [(id, v)]) := by
                  constructor
                  · simp only [idsOf, List.map_append, List.map_cons, List.map_nil]
                    rw [List.nodup_append]
                    refine ⟨hes.1, by simp, ?_⟩
                    intro a ha b hb
                    simp only [List.mem_singleton] at hb
                    subst hb
                    intro hab; subst hab
                    have : (idsOf es).contains a = true := by simpa [idsOf] using ha
                    rw [hs] at this; cases this
                  · intro x hx
                    simp only [idsOf, List.map_append, List.map_cons, List.map_nil,
                      List.mem_append, List.mem_singleton] at hx
                    rcases hx with hx | rfl
                    · exact hes.2 x hx
                    · exact hsup
                rw [ih r2 _ hwf2 hlen2 hes', specBad_insert _ _ _ _ hforb' hdef hs hbad']
                simp [idsOf]
            · rw [if_neg hsup]
              have hdef : definedSettings.contains id = false := by
                rw [← supported_iff]; simpa using hsup
              rw [ih r2 es hwf2 hlen2 hes, specBad_skip _ _ _ _ hforb' hdef]

/-- SETTINGS: the model reports an error exactly when the specification says `badSettings` -/
theorem settings_agrees (p : Bytes) (hwf : WF p) :
    isError (settingsDecode p) = (classify 4 p == .badSettings) := by
  unfold settingsDecode
  rw [settingsAux_agrees (p.length + 1) p [] hwf (by omega) ⟨by simp [idsOf], by simp [idsOf]⟩]
  unfold classify
  rw [if_neg (by decide), if_neg (by decide), if_pos rfl]
  cases pairs (p.length + 1) p with
  | none => rfl
  | some ps =>
    have hany : ps.any (fun e => definedSettings.contains e.1 && ([] : List Nat).contains e.1) = false := by
      induction ps with
      | nil => rfl
      | cons e r ih => rw [List.any_cons, ih]; simp
    simp only [specBad, Gb, idsOf, List.map_nil, hany, Bool.false_or]
    cases (ps.any (fun e => h2Settings.contains e.1) || hasRepeatedDefined ps || hasBadBool ps) <;> rfl

/-! ### the typed arms against `classify` -/

theorem classify4_cases (p : Bytes) : classify 4 p = .badSettings ∨ classify 4 p = .okSettings := by
  unfold classify
  rw [if_neg (by decide), if_neg (by decide), if_pos rfl]
  cases pairs (p.length + 1) p with
  | none => exact Or.inl rfl
  | some ps =>
    simp only
    split
    · exact Or.inl rfl
    · exact Or.inr rfl

theorem isKnown_cases {ty : Nat} (h : isKnown ty = true) :
    ty = 1 ∨ ty = 3 ∨ ty = 4 ∨ ty = 5 ∨ ty = 7 ∨ ty = 13 ∨ ty = 2 ∨ ty = 6 ∨ ty = 8 ∨ ty = 9 := by
  simp [isKnown, h2Types] at h
  omega

theorem not_known_cases {ty : Nat} (h : isKnown ty = false) :
    ty ≠ 1 ∧ ty ≠ 3 ∧ ty ≠ 4 ∧ ty ≠ 5 ∧ ty ≠ 7 ∧ ty ≠ 13 ∧ ty ≠ 2 ∧ ty ≠ 6 ∧ ty ≠ 8 ∧ ty ≠ 9 := by
  simp [isKnown, h2Types] at h
  omega

/-- unknown types are skipped in full -/
theorem typed_unknown (ty : Nat) (p : Bytes) (n : Nat) (h : isKnown ty = false) :
    typed ty p n = .unknown n := by
  obtain ⟨h1, h3, h4, h5, h7, h13, h2, h6, h8, h9⟩ := not_known_cases h
  have h1' : ty ≠ FRAME_HEADERS := h1
  have h3' : ty ≠ FRAME_CANCEL_PUSH := h3
  have h4' : ty ≠ FRAME_SETTINGS := h4
  have h5' : ty ≠ FRAME_PUSH_PROMISE := h5
  have h7' : ty ≠ FRAME_GOAWAY := h7
  have h13' : ty ≠ FRAME_MAX_PUSH_ID := h13
  unfold typed
  rw [if_neg h1', if_neg h4', if_neg h3', if_neg h5', if_neg h7', if_neg h13']
  have : isH2 ty = false := by
    simp [isH2, FRAME_H2_PRIORITY, FRAME_H2_PING, FRAME_H2_WINDOW_UPDATE, FRAME_H2_CONTINUATION]
    omega
  rw [this]
  rfl

theorem typed_3 (p : Bytes) (n : Nat) : typed 3 p n =
    match oneVarint p with
    | none => .error .malformed
    | some v => .frame (.cancelPush v) n := by
  simp [typed, FRAME_HEADERS, FRAME_SETTINGS, FRAME_CANCEL_PUSH]
  cases oneVarint p <;> rfl

theorem typed_4 (p : Bytes) (n : Nat) : typed 4 p n =
    match settingsDecode p with
    | .error e => .error (.settings e)
    | .ok es => .frame (.settings es) n := by
  simp [typed, FRAME_HEADERS, FRAME_SETTINGS]
  cases settingsDecode p <;> rfl

theorem typed_5 (p : Bytes) (n : Nat) : typed 5 p n =
    match Varint.decode p with
    | .endOf _ => .error .malformed
    | .ok id rest => .frame (.pushPromise id rest) n := by
  simp [typed, FRAME_HEADERS, FRAME_SETTINGS, FRAME_CANCEL_PUSH, FRAME_PUSH_PROMISE]
  cases Varint.decode p <;> rfl

theorem typed_7 (p : Bytes) (n : Nat) : typed 7 p n =
    match oneVarint p with
    | none => .error .malformed
    | some v => .frame (.goaway v) n := by
  simp [typed, FRAME_HEADERS, FRAME_SETTINGS, FRAME_CANCEL_PUSH, FRAME_PUSH_PROMISE, FRAME_GOAWAY]
  cases oneVarint p <;> rfl

theorem typed_13 (p : Bytes) (n : Nat) : typed 13 p n =
    match oneVarint p with
    | none => .error .malformed
    | some v => .frame (.maxPushId v) n := by
  simp [typed, FRAME_HEADERS, FRAME_SETTINGS, FRAME_CANCEL_PUSH, FRAME_PUSH_PROMISE, FRAME_GOAWAY,
    FRAME_MAX_PUSH_ID]
  cases oneVarint p <;> rfl

theorem classify_3 (p : Bytes) : classify 3 p =
    match exactlyOneVarint p with | some v => .frame (.cancelPush v) | none => .malformed := by
  simp [classify]
  cases exactlyOneVarint p <;> rfl

theorem classify_5 (p : Bytes) : classify 5 p =
    match rfcDecode p with | some (id, rest) => .frame (.pushPromise id rest) | none => .malformed := by
  simp [classify]
  cases rfcDecode p with
  | none => rfl
  | some q => rfl

theorem classify_7 (p : Bytes) : classify 7 p =
    match exactlyOneVarint p with | some v => .frame (.goaway v) | none => .malformed := by
  simp [classify]
  cases exactlyOneVarint p <;> rfl

theorem classify_13 (p : Bytes) : classify 13 p =
    match exactlyOneVarint p with | some v => .frame (.maxPushId v) | none => .malformed := by
  simp [classify]
  cases exactlyOneVarint p <;> rfl

/-- how the model's answer on a complete frame of a known type corresponds to the
    specification's classification of its payload -/
def TypedAgrees (n : Nat) (r : DecRes) : Tok → Prop
  | .frame f => r = .frame f n ∧ (∀ es, f ≠ .settings es) ∧ (∀ k, f ≠ .data k) ∧
      (∀ k, f ≠ .webTransport k)
  | .okSettings => ∃ es, r = .frame (.settings es) n
  | .badSettings => ∃ e, r = .error (.settings e)
  | .malformed => r = .error .malformed
  | .h2 t => r = .error (.unsupported t)
  | _ => False

theorem typed_classify (ty : Nat) (p : Bytes) (n : Nat) (hwf : WF p) (h : isKnown ty = true) :
    TypedAgrees n (typed ty p n) (classify ty p) := by
  rcases isKnown_cases h with rfl | rfl | rfl | rfl | rfl | rfl | rfl | rfl | rfl | rfl
  · simp [typed, classify, FRAME_HEADERS, TypedAgrees]
  · rw [typed_3, classify_3, oneVarint_eq p hwf]
    cases exactlyOneVarint p <;> simp [TypedAgrees]
  · have hs := settings_agrees p hwf
    rw [typed_4]
    cases hd : settingsDecode p with
    | error e =>
      rw [hd] at hs
      have : classify 4 p = .badSettings := by simpa [isError] using hs.symm
      rw [this]
      exact ⟨e, rfl⟩
    | ok es =>
      rw [hd] at hs
      have : classify 4 p ≠ .badSettings := by
        intro hc; rw [hc] at hs; simp [isError] at hs
      rcases classify4_cases p with hc | hc
      · exact absurd hc this
      · rw [hc]; exact ⟨es, rfl⟩
  · rw [typed_5, classify_5, decode_of_rfc p hwf]
    cases rfcDecode p with
    | none => simp [TypedAgrees]
    | some q => obtain ⟨id, rest⟩ := q; simp [TypedAgrees]
  · rw [typed_7, classify_7, oneVarint_eq p hwf]
    cases exactlyOneVarint p <;> simp [TypedAgrees]
  · rw [typed_13, classify_13, oneVarint_eq p hwf]
    cases exactlyOneVarint p <;> simp [TypedAgrees]
  all_goals
    simp [typed, classify, FRAME_HEADERS, FRAME_SETTINGS, FRAME_CANCEL_PUSH, FRAME_PUSH_PROMISE,
      FRAME_GOAWAY, FRAME_MAX_PUSH_ID, isH2, FRAME_H2_PRIORITY, FRAME_H2_PING,
      FRAME_H2_WINDOW_UPDATE, FRAME_H2_CONTINUATION, h2Types, TypedAgrees]

/-- the two header varints through `rfcDecode` -/
theorem hdr2_of_rfc (w : Bytes) (hwf : WF w) :
    hdr2 w = match rfcDecode w with
      | none => none
      | some (ty, r1) => match rfcDecode r1 with
        | none => none
        | some (len, r2) => some (ty, len, w.length - r2.length) := by
  unfold hdr2
  rw [vhead_of_rfc w hwf]
  cases h1 : rfcDecode w with
  | none => rfl
  | some p1 =>
    obtain ⟨ty, r1⟩ := p1
    obtain ⟨n1, hn1, hn1', hr1⟩ := rfc_rest h1
    have hl1 : r1.length = w.length - n1 := by rw [hr1]; simp
    have e1 : w.length - r1.length = n1 := by omega
    simp only
    rw [e1, ← hr1, vhead_of_rfc r1 (by rw [hr1]; exact WF_drop hwf _)]
    cases h2 : rfcDecode r1 with
    | none => rfl
    | some p2 =>
      obtain ⟨len, r2⟩ := p2
      obtain ⟨n2, hn2, hn2', hr2⟩ := rfc_rest h2
      have hl2 : r2.length = r1.length - n2 := by rw [hr2]; simp
      simp only
      congr 3
      omega

theorem rfc_rest2 {w r1 r2 : Bytes} {ty len : Nat} (h1 : rfcDecode w = some (ty, r1))
    (h2 : rfcDecode r1 = some (len, r2)) :
    2 ≤ w.length - r2.length ∧ r2.length ≤ w.length ∧ r2 = w.drop (w.length - r2.length) := by
  obtain ⟨n1, hn1, hn1', hr1⟩ := rfc_rest h1
  obtain ⟨n2, hn2, hn2', hr2⟩ := rfc_rest h2
  have hl1 : r1.length = w.length - n1 := by rw [hr1]; simp
  have hl2 : r2.length = r1.length - n2 := by rw [hr2]; simp
  refine ⟨by omega, by omega, ?_⟩
  have : w.length - r2.length = n1 + n2 := by omega
  rw [this, hr2, hr1, List.drop_drop]

end H3.Frame
