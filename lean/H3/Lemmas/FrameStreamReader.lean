import H3.Lemmas.FrameStreamReach
/-! The documented reader loop (`poll_next`; after a frame with payload `poll_data` until it
    is used up; repeat), generic in the decoder: what it hands out and how it ends, as a
    function of the bytes of the script and the kind of ending only. -/
namespace H3.FS
variable {F E : Type}

/-- `readerLoop` of the model, for any decoder -/
def readerG (D : Dec F E) : Nat → St → List Ev → List (Out F E)
  | 0, _, _ => []
  | fuel+1, s, script =>
    if s.remaining ≠ 0 then
      let (o, s', r) := pollData (F := F) (E := E) s script
      match o with
      | .data _ => o :: readerG D fuel s' r
      | .pending => if script.isEmpty then [o] else readerG D fuel s' r
      | _ => [o]
    else
      let (o, s', r) := pollNext D s script
      match o with
      | .frame _ => o :: readerG D fuel s' r
      | .pending => if script.isEmpty then [o] else readerG D fuel s' r
      | _ => [o]

theorem readerLoop_eq (fuel : Nat) (s : St) (script : List Ev) :
    readerLoop fuel s script = readerG frameDec fuel s script := by
  induction fuel generalizing s script with
  | zero => rfl
  | succ fuel ih =>
    rw [readerLoop, readerG]
    split
    · generalize pollData (F := H3.Frame.Frame) (E := H3.Frame.FrameErr) s script = res
      obtain ⟨o, s', r⟩ := res
      cases o <;> simp [ih]
    · generalize pollNext frameDec s script = res
      obtain ⟨o, s', r⟩ := res
      cases o <;> simp [ih]

/-! ### structural facts about `pending` answers -/

theorem advance_len_le (n : Nat) (bs : List Bytes) :
    (advance n bs).flatten.length ≤ bs.flatten.length := by
  induction bs generalizing n with
  | nil => cases n <;> simp [advance]
  | cons c cs ih =>
    cases n with
    | zero => simp [advance]
    | succ n =>
      unfold advance
      split
      · have := ih (n + 1 - c.length)
        simp only [List.flatten_cons, List.length_append]
        omega
      · simp only [List.flatten_cons, List.length_append, List.length_drop]
        omega

theorem afterRecv_buf (D : Dec F E) (s : St) (e : End) (o : Out F E) (s' : St)
    (h : afterRecv D s e = some (o, s')) : ∃ d, s'.buf = advance d s.buf := by
  unfold afterRecv at h
  cases hdl : decLoop D (s.flat.length + 1) s.flat s.expected 0 with
  | frame d f =>
    rw [hdl] at h
    simp only [Option.some.injEq, Prod.mk.injEq] at h
    rw [← h.2]
    cases D.kind f <;> exact ⟨d, rfl⟩
  | error d exp e' =>
    rw [hdl] at h
    simp only [Option.some.injEq, Prod.mk.injEq] at h
    rw [← h.2]
    exact ⟨d, rfl⟩
  | none d exp =>
    rw [hdl] at h
    cases e with
    | more => cases h
    | pending =>
      simp only [Option.some.injEq, Prod.mk.injEq] at h
      rw [← h.2]
      exact ⟨d, rfl⟩
    | eos =>
      simp only at h
      split at h
      all_goals
        simp only [Option.some.injEq, Prod.mk.injEq] at h
        rw [← h.2]
        exact ⟨d, rfl⟩

theorem afterRecv_len (D : Dec F E) (s : St) (e : End) (o : Out F E) (s' : St)
    (h : afterRecv D s e = some (o, s')) : s'.flat.length ≤ s.flat.length := by
  obtain ⟨d, hd⟩ := afterRecv_buf D s e o s' h
  simp only [St.flat, hd]
  exact advance_len_le d s.buf

theorem pollNextLoop_pending (D : Dec F E) (script : List Ev) :
    ∀ (s s' : St) (script' : List Ev), pollNextLoop D s script = (.pending, s', script') →
      ∃ taken, script = taken ++ script' ∧
        s'.flat.length ≤ s.flat.length + (evBytes taken).length ∧
        (s.eos = false → script ≠ [] → taken ≠ []) := by
  have hEos : ∀ (script : List Ev) (s s' : St) (script' : List Ev), s.eos = true →
      (match afterRecv D s .eos with
        | some (o, s') => (o, s', script)
        | none => (.pending, s, script)) = (Out.pending, s', script') →
      ∃ taken, script = taken ++ script' ∧
        s'.flat.length ≤ s.flat.length + (evBytes taken).length ∧
        (s.eos = false → script ≠ [] → taken ≠ []) := by
    intro script s s' script' heos h
    cases hres : afterRecv D s .eos with
    | none =>
      rw [hres] at h
      simp only [Prod.mk.injEq] at h
      obtain ⟨_, rfl, rfl⟩ := h
      exact ⟨[], by simp, by simp [evBytes], fun hf => by rw [heos] at hf; cases hf⟩
    | some p =>
      obtain ⟨o, s1⟩ := p
      rw [hres] at h
      simp only [Prod.mk.injEq] at h
      obtain ⟨_, rfl, rfl⟩ := h
      exact ⟨[], by simp, by simpa [evBytes] using afterRecv_len D s .eos o s1 hres,
        fun hf => by rw [heos] at hf; cases hf⟩
  induction script with
  | nil =>
    intro s s' script' h
    rw [pollNextLoop] at h
    by_cases heos : s.eos = true
    · rw [if_pos heos] at h; exact hEos [] s s' script' heos h
    · rw [if_neg heos] at h
      cases hres : afterRecv D s .pending with
      | none =>
        rw [hres] at h
        simp only [Prod.mk.injEq] at h
        obtain ⟨_, rfl, rfl⟩ := h
        exact ⟨[], by simp, by simp [evBytes], fun _ hn => absurd rfl hn⟩
      | some p =>
        obtain ⟨o, s1⟩ := p
        rw [hres] at h
        simp only [Prod.mk.injEq] at h
        obtain ⟨_, rfl, rfl⟩ := h
        exact ⟨[], by simp, by simpa [evBytes] using afterRecv_len D s .pending o s1 hres,
          fun _ hn => absurd rfl hn⟩
  | cons ev r ih =>
    intro s s' script' h
    by_cases heos : s.eos = true
    · have : pollNextLoop D s (ev :: r) = (match afterRecv D s .eos with
          | some (o, s') => (o, s', ev :: r)
          | none => (.pending, s, ev :: r)) := by
        cases ev <;> rw [pollNextLoop, if_pos heos] <;> rfl
      rw [this] at h
      exact hEos (ev :: r) s s' script' heos h
    · cases ev with
      | pend =>
        rw [pollNextLoop, if_neg heos] at h
        cases hres : afterRecv D s .pending with
        | none =>
          rw [hres] at h
          simp only [Prod.mk.injEq] at h
          obtain ⟨_, rfl, rfl⟩ := h
          exact ⟨[.pend], by simp, by simp [evBytes], fun _ _ => by simp⟩
        | some p =>
          obtain ⟨o, s1⟩ := p
          rw [hres] at h
          simp only [Prod.mk.injEq] at h
          obtain ⟨_, rfl, rfl⟩ := h
          exact ⟨[.pend], by simp, by simpa [evBytes] using afterRecv_len D s .pending o s1 hres,
            fun _ _ => by simp⟩
      | fin =>
        rw [pollNextLoop, if_neg heos] at h
        cases hres : afterRecv D { s with eos := true } .eos with
        | none =>
          rw [hres] at h
          simp only [Prod.mk.injEq] at h
          obtain ⟨_, rfl, rfl⟩ := h
          exact ⟨[.fin], by simp, by simp [evBytes], fun _ _ => by simp⟩
        | some p =>
          obtain ⟨o, s1⟩ := p
          rw [hres] at h
          simp only [Prod.mk.injEq] at h
          obtain ⟨_, rfl, rfl⟩ := h
          have this : s1.flat.length ≤ s.flat.length :=
            afterRecv_len D { s with eos := true } .eos o s1 hres
          exact ⟨[.fin], by simp, by simpa [evBytes] using this, fun _ _ => by simp⟩
      | reset c =>
        rw [pollNextLoop, if_neg heos] at h
        simp only [Prod.mk.injEq] at h
        exact absurd h.1 (by intro hc; cases hc)
      | chunk b =>
        rw [pollNextLoop, if_neg heos] at h
        simp only at h
        have hpush : (s.push b).flat.length = s.flat.length + b.length := by
          simp [St.push, St.flat]
        cases hres : afterRecv D (s.push b) .more with
        | some p =>
          obtain ⟨o, s1⟩ := p
          rw [hres] at h
          simp only [Prod.mk.injEq] at h
          obtain ⟨_, rfl, rfl⟩ := h
          have := afterRecv_len D (s.push b) .more o s1 hres
          exact ⟨[.chunk b], by simp, by simp [evBytes]; omega, fun _ _ => by simp⟩
        | none =>
          rw [hres] at h
          simp only at h
          cases hdl : decLoop D ((s.push b).flat.length + 1) (s.push b).flat (s.push b).expected 0 with
          | none d exp =>
            rw [hdl] at h
            simp only at h
            obtain ⟨taken, rfl, hlen, _⟩ := ih _ s' script' h
            have h2 := advance_len_le d (s.push b).buf
            refine ⟨.chunk b :: taken, by simp, ?_, fun _ _ => by simp⟩
            simp only [evBytes, List.length_append]
            simp only [St.flat] at hlen hpush h2 ⊢
            omega
          | frame d f =>
            rw [hdl] at h
            simp only [Prod.mk.injEq] at h
            obtain ⟨_, rfl, rfl⟩ := h
            exact ⟨[.chunk b], by simp, by simp [evBytes]; omega, fun _ _ => by simp⟩
          | error d exp e' =>
            rw [hdl] at h
            simp only [Prod.mk.injEq] at h
            obtain ⟨_, rfl, rfl⟩ := h
            exact ⟨[.chunk b], by simp, by simp [evBytes]; omega, fun _ _ => by simp⟩

theorem pollData_pending (s s' : St) (script script' : List Ev)
    (h : pollData (F := F) (E := E) s script = (.pending, s', script')) :
    ∃ taken, script = taken ++ script' ∧ (s.eos = false → script ≠ [] → taken ≠ []) := by
  unfold pollData at h
  by_cases h0 : s.remaining = 0
  · rw [if_pos h0] at h
    simp only [Prod.mk.injEq] at h
    exact absurd h.1 (by intro hc; cases hc)
  · rw [if_neg h0] at h
    cases hr : recvForData s script with
    | error c =>
      rw [hr] at h
      simp only [Prod.mk.injEq] at h
      exact absurd h.1 (by intro hc; cases hc)
    | ok p =>
      obtain ⟨e, s1, r⟩ := p
      rw [hr] at h
      simp only at h
      have hs : script' = r := by
        revert h
        cases takeChunk s1.remaining s1.buf with
        | mk od buf' =>
          cases od <;> simp only <;> repeat' split
          all_goals
            intro h
            simp only [Prod.mk.injEq] at h
            first
              | exact h.2.2.symm
              | exact absurd h.1 (by intro hc; cases hc)
      subst hs
      unfold recvForData at hr
      by_cases heos : s.eos = true
      · rw [if_pos heos] at hr
        simp only [Except.ok.injEq, Prod.mk.injEq] at hr
        exact ⟨[], by simp [hr.2.2], fun hf => by rw [heos] at hf; cases hf⟩
      · rw [if_neg heos] at hr
        cases script with
        | nil =>
          simp only [Except.ok.injEq, Prod.mk.injEq] at hr
          exact ⟨[], by simp [hr.2.2], fun _ hn => absurd rfl hn⟩
        | cons ev r' =>
          cases ev with
          | reset c => cases hr
          | pend =>
            simp only [Except.ok.injEq, Prod.mk.injEq] at hr
            exact ⟨[.pend], by simp [hr.2.2], fun _ _ => by simp⟩
          | fin =>
            simp only [Except.ok.injEq, Prod.mk.injEq] at hr
            exact ⟨[.fin], by simp [hr.2.2], fun _ _ => by simp⟩
          | chunk b =>
            simp only [Except.ok.injEq, Prod.mk.injEq] at hr
            exact ⟨[.chunk b], by simp [hr.2.2], fun _ _ => by simp⟩

/-! ### `runCalls` of the model walks along reachable configurations -/

theorem runCalls_reach (sc0 : List Ev) (calls : List Call) :
    ∀ (toks : List (Tok H3.Frame.Frame H3.Frame.FrameErr)) (s : St) (script : List Ev), Reach frameDec sc0 toks s script →
      ∃ s' script', Reach frameDec sc0 (toks ++ (runCalls s script calls).flatMap Out.toks) s' script' := by
  induction calls with
  | nil => intro toks s script h; exact ⟨s, script, by simpa [runCalls] using h⟩
  | cons c cs ih =>
    intro toks s script h
    cases c with
    | next =>
      rw [runCalls]
      simp only
      cases hres : pollNext frameDec s script with
      | mk o rest =>
      obtain ⟨s', r⟩ := rest
      cases o with
      | frame f =>
        obtain ⟨s2, r2, h2⟩ := ih _ s' r (Reach.next h hres rfl)
        exact ⟨s2, r2, by simpa [List.flatMap_cons, List.append_assoc] using h2⟩
      | pending =>
        obtain ⟨s2, r2, h2⟩ := ih _ s' r (Reach.next h hres rfl)
        exact ⟨s2, r2, by simpa [List.flatMap_cons, List.append_assoc] using h2⟩
      | none => exact ⟨s', r, by simpa using Reach.next h hres rfl⟩
      | data d => exact ⟨s', r, by simpa using Reach.next h hres rfl⟩
      | errProto _ => exact ⟨s, script, by simpa [Out.toks] using h⟩
      | errEnd => exact ⟨s, script, by simpa [Out.toks] using h⟩
      | errQuic _ => exact ⟨s, script, by simpa [Out.toks] using h⟩
      | panic => exact ⟨s, script, by simpa [Out.toks] using h⟩
    | data =>
      rw [runCalls]
      simp only
      cases hres : pollData (F := H3.Frame.Frame) (E := H3.Frame.FrameErr) s script with
      | mk o rest =>
      obtain ⟨s', r⟩ := rest
      cases o with
      | data d =>
        obtain ⟨s2, r2, h2⟩ := ih _ s' r (Reach.data h hres rfl)
        exact ⟨s2, r2, by simpa [List.flatMap_cons, List.append_assoc] using h2⟩
      | pending =>
        obtain ⟨s2, r2, h2⟩ := ih _ s' r (Reach.data h hres rfl)
        exact ⟨s2, r2, by simpa [List.flatMap_cons, List.append_assoc] using h2⟩
      | none =>
        obtain ⟨s2, r2, h2⟩ := ih _ s' r (Reach.data h hres rfl)
        exact ⟨s2, r2, by simpa [List.flatMap_cons, List.append_assoc] using h2⟩
      | frame f => exact ⟨s', r, by simpa using Reach.data h hres rfl⟩
      | errProto _ => exact ⟨s, script, by simpa [Out.toks] using h⟩
      | errEnd => exact ⟨s, script, by simpa [Out.toks] using h⟩
      | errQuic _ => exact ⟨s, script, by simpa [Out.toks] using h⟩
      | panic => exact ⟨s, script, by simpa [Out.toks] using h⟩

/-! ### bookkeeping: the bytes of a script up to its first `fin` -/

def NoReset (sc : List Ev) : Prop := ∀ c, Ev.reset c ∉ sc

/-- the events before the first `fin` -/
def upToFin (sc : List Ev) : List Ev := sc.takeWhile (fun e => e != .fin)

def hasFin (sc : List Ev) : Bool := sc.contains .fin

/-- all bytes the reader can ever see: those taken so far plus, if the end has not been
    reached, those of the script up to its first `fin` -/
def wOf (seen : Bytes) (eos : Bool) (script : List Ev) : Bytes :=
  seen ++ (if eos then [] else evBytes (upToFin script))

def finOf (eos : Bool) (script : List Ev) : Bool := eos || hasFin script

theorem upToFin_append_of_not_mem (a b : List Ev) (h : Ev.fin ∉ a) :
    upToFin (a ++ b) = a ++ upToFin b := by
  induction a with
  | nil => rfl
  | cons e r ih =>
    have he : e ≠ .fin := fun hc => h (by simp [hc])
    have hr : Ev.fin ∉ r := fun hc => h (by simp [hc])
    simp only [upToFin, List.cons_append] at ih ⊢
    rw [List.takeWhile_cons_of_pos (by simpa using he), ih hr]

theorem upToFin_fin (a b : List Ev) (h : Ev.fin ∉ a) : upToFin (a ++ .fin :: b) = a := by
  rw [upToFin_append_of_not_mem a _ h]
  simp [upToFin]

theorem hasFin_append_of_not_mem (a b : List Ev) (h : Ev.fin ∉ a) : hasFin (a ++ b) = hasFin b := by
  simp only [hasFin, List.contains_eq_mem, List.mem_append, h, false_or]

theorem w_step (seen : Bytes) (eos eos' : Bool) (taken script' : List Ev)
    (htk : TakenOK eos eos' taken) :
    wOf (seen ++ evBytes taken) eos' script' = wOf seen eos (taken ++ script') ∧
    finOf eos' script' = finOf eos (taken ++ script') := by
  cases eos with
  | true =>
    simp only [TakenOK, if_true] at htk
    obtain ⟨_, rfl, rfl⟩ := htk
    simp [wOf, finOf, evBytes]
  | false =>
    simp only [TakenOK, Bool.false_eq_true, if_false] at htk
    cases eos' with
    | true =>
      simp only [if_true] at htk
      obtain ⟨pre, rfl, hpre⟩ := htk.2
      have h1 : upToFin ((pre ++ [Ev.fin]) ++ script') = pre := by
        rw [List.append_assoc]; exact upToFin_fin pre script' hpre
      simp only [wOf, finOf, if_true, Bool.false_eq_true, if_false, h1, evBytes_append, evBytes,
        List.append_nil, Bool.true_or, Bool.false_or]
      refine ⟨trivial, ?_⟩
      simp [hasFin]
    | false =>
      simp only [Bool.false_eq_true, if_false] at htk
      simp only [wOf, finOf, Bool.false_eq_true, if_false, Bool.false_or,
        upToFin_append_of_not_mem taken script' htk.2, evBytes_append, List.append_assoc,
        hasFin_append_of_not_mem taken script' htk.2, and_self]

/-! ### progress and the raw-mode bound -/

theorem inv_progress (D : Dec F E) {seen x : Bytes} {toks t : List (Tok F E)} {s s' : St}
    (hI : Inv D seen toks s) (hI' : Inv D (seen ++ x) (toks ++ t) s') (ht : t ≠ []) :
    s'.flat.length < s.flat.length + x.length := by
  obtain ⟨c1, h1, r1⟩ := hI.split
  obtain ⟨c2, h2, r2⟩ := hI'.split
  rw [h1, List.append_assoc] at h2
  rcases List.append_eq_append_iff.mp h2 with ⟨a', hc, hf⟩ | ⟨c', hc, hf⟩
  · rw [hc, run_append, r1] at r2
    simp only [Prod.mk.injEq, List.append_cancel_left_eq] at r2
    have ha : a' ≠ [] := by
      intro h0; subst h0
      simp only [run] at r2
      exact ht r2.2.symm
    have hl := congrArg List.length hf
    simp only [List.length_append] at hl
    have : 0 < a'.length := List.length_pos_iff.mpr ha
    omega
  · rw [hc, run_append, r2] at r1
    simp only [Prod.mk.injEq] at r1
    have hl := congrArg List.length r1.2
    simp only [List.length_append] at hl
    have : 0 < t.length := List.length_pos_iff.mpr ht
    omega

theorem run_rem_bound (D : Dec F E) (M : Nat) (x : Bytes) :
    ∀ (p : PSt) (r : Nat) (toks : List (Tok F E)), run D p x = (.data r, toks) →
      (∀ f, Tok.frame f ∈ toks → (D.kind f).rem < M) → (∀ r0, p = .data r0 → r0 < M) → r < M := by
  induction x with
  | nil =>
    intro p r toks h _ hp
    simp only [run, Prod.mk.injEq] at h
    exact hp r h.1
  | cons b x ih =>
    intro p r toks h hf hp
    simp only [run, Prod.mk.injEq] at h
    obtain ⟨h1, h2⟩ := h
    refine ih (feed D p b).1 r (run D (feed D p b).1 x).2 (by rw [← h1]) ?_ ?_
    · intro f hm; exact hf f (by rw [← h2]; exact List.mem_append_right _ hm)
    · intro r0 hr0
      cases p with
      | hdr acc =>
        simp only [feed] at hr0 h2
        cases hd : D.dec (acc ++ [b]) with
        | frame f n =>
          rw [hd] at hr0 h2
          simp only at hr0 h2
          have hlt := hf f (by rw [← h2]; simp)
          unfold PSt.ofRem at hr0
          split at hr0
          · cases hr0
          · cases hr0; exact hlt
        | unknown n => rw [hd] at hr0; cases hr0
        | incomplete m => rw [hd] at hr0; cases hr0
        | error e => rw [hd] at hr0; cases hr0
      | data r1 =>
        simp only [feed] at hr0
        have := hp r1 rfl
        unfold PSt.ofRem at hr0
        split at hr0
        · cases hr0
        · cases hr0; omega
      | dead => simp only [feed] at hr0; cases hr0

theorem inv_rem_bound (D : Dec F E) (M : Nat) {seen : Bytes} {toks : List (Tok F E)} {s : St}
    (hI : Inv D seen toks s) (hf : ∀ f, Tok.frame f ∈ toks → (D.kind f).rem < M) (hM : 0 < M) :
    s.remaining < M := by
  obtain ⟨c, _, hr⟩ := hI.split
  by_cases h0 : s.remaining = 0
  · omega
  · rw [PSt.ofRem_pos h0] at hr
    exact run_rem_bound D M c (.hdr []) s.remaining toks hr hf (by intro r0 h; cases h)

/-- the tokens handed out so far are a prefix of what the automaton emits on any extension -/
theorem inv_toks_prefix (D : Dec F E) {seen : Bytes} {toks : List (Tok F E)} {s : St}
    (hI : Inv D seen toks s) (rest : Bytes) :
    ∃ more, (run D (.hdr []) (seen ++ rest)).2 = toks ++ more := by
  obtain ⟨c, hs, hr⟩ := hI.split
  rw [hs, List.append_assoc, run_append, hr]
  exact ⟨_, rfl⟩

/-! ### the reader loop -/

/-- how a reader loop may end, given the result `R` of the reference automaton over all the
    bytes, whether the stream was finished (`fin`), and the tokens `all` handed out -/
def FinalOK (R : PSt × List (Tok F E)) (fin : Bool) (all : List (Tok F E)) : Out F E → Prop
  | .errProto e => R.1 = .dead ∧ R.2 = all ++ [.errProto e]
  | .none => fin = true ∧ R.1 = .hdr [] ∧ R.2 = all
  | .pending => fin = false ∧ R.2 = all ∧ R.1 ≠ .dead
  | .errEnd => fin = true ∧ ((∃ acc, acc ≠ [] ∧ R.1 = .hdr acc ∧ R.2 = all) ∨
      (∃ (rem : Nat) (bs : Bytes), rem ≠ 0 ∧ R.1 = .data rem ∧ R.2 = all ++ bs.map .byte))
  | _ => False

/-- the answers of a reader loop: frames and data pieces, then exactly one final answer -/
def ReaderPost (R : PSt × List (Tok F E)) (fin : Bool) (toks : List (Tok F E))
    (outs : List (Out F E)) : Prop :=
  ∃ body last, outs = body ++ [last] ∧
    (∀ o ∈ body, (∃ f, o = .frame f) ∨ (∃ d, o = .data d)) ∧
    FinalOK R fin (toks ++ body.flatMap Out.toks) last

theorem readerPost_cons {R : PSt × List (Tok F E)} {fin : Bool} {toks : List (Tok F E)}
    {o : Out F E} {rest : List (Out F E)} (ho : (∃ f, o = .frame f) ∨ (∃ d, o = .data d))
    (h : ReaderPost R fin (toks ++ o.toks) rest) : ReaderPost R fin toks (o :: rest) := by
  obtain ⟨body, last, rfl, hb, hf⟩ := h
  refine ⟨o :: body, last, by simp, ?_, ?_⟩
  · intro x hx
    simp only [List.mem_cons] at hx
    rcases hx with rfl | hx
    · exact ho
    · exact hb x hx
  · simpa [List.flatMap_cons, List.append_assoc] using hf

theorem readerPost_single {R : PSt × List (Tok F E)} {fin : Bool} {toks : List (Tok F E)}
    {o : Out F E} (h : FinalOK R fin toks o) : ReaderPost R fin toks [o] :=
  ⟨[], o, rfl, by simp, by simpa using h⟩

theorem usize_pos : 0 < USIZE_MAX := by decide

theorem readerG_spec (D : Dec F E) (L : Laws D) (w : Bytes) (fin : Bool)
    (hraw : ∀ f, Tok.frame f ∈ (run D (.hdr []) w).2 → (D.kind f).rem < USIZE_MAX) :
    ∀ (fuel : Nat) (s : St) (script : List Ev) (seen : Bytes) (toks : List (Tok F E)),
      Inv D seen toks s → ScriptOK script → NoReset script →
      wOf seen s.eos script = w → finOf s.eos script = fin →
      script.length + (evBytes script).length + s.flat.length < fuel →
      ReaderPost (run D (.hdr []) w) fin toks (readerG D fuel s script) := by
  have hbound : ∀ (seen : Bytes) (toks : List (Tok F E)) (s : St) (script : List Ev),
      Inv D seen toks s → wOf seen s.eos script = w → s.remaining < USIZE_MAX := by
    intro seen toks s script hI hw
    obtain ⟨more, hm⟩ := inv_toks_prefix D hI (if s.eos then [] else evBytes (upToFin script))
    refine inv_rem_bound D USIZE_MAX hI (fun f hf => hraw f ?_) usize_pos
    rw [← hw]
    unfold wOf
    rw [hm]
    exact List.mem_append_left _ hf
  intro fuel
  induction fuel with
  | zero => intro s script seen toks _ _ _ _ _ h; omega
  | succ fuel ih =>
    intro s script seen toks hI hsc hnr hw hfin hmu
    rw [readerG]
    by_cases h0 : s.remaining ≠ 0
    · -- `poll_data`
      rw [if_pos h0]
      have hp := pollData_spec D seen toks s script hI hsc
      cases hres : pollData (F := F) (E := E) s script with
      | mk o rest =>
      obtain ⟨s', script'⟩ := rest
      rw [hres] at hp
      obtain ⟨taken, rfl, htk, hout⟩ := hp
      obtain ⟨hw', hfin'⟩ := w_step seen s.eos s'.eos taken script' htk
      rw [hw] at hw'
      rw [hfin] at hfin'
      have hsc' : ScriptOK script' := scriptOK_suffix hsc
      have hnr' : NoReset script' := fun c hc => hnr c (List.mem_append_right _ hc)
      simp only
      cases o with
      | data d =>
        obtain ⟨hd, _, _, hI'⟩ := hout
        simp only
        refine readerPost_cons (Or.inr ⟨d, rfl⟩) ?_
        have hprog := inv_progress D hI hI' (by simpa using hd)
        refine ih s' script' _ _ hI' hsc' hnr' hw' hfin' ?_
        simp only [List.length_append, evBytes_append] at hmu ⊢
        omega
      | pending =>
        obtain ⟨hI', hfl, heos', hrem⟩ := hout
        simp only
        by_cases hemp : (taken ++ script').isEmpty = true
        · rw [if_pos hemp]
          have hnil : taken ++ script' = [] := by simpa using hemp
          have ht : taken = [] := (List.append_eq_nil_iff.mp hnil).1
          have hs' : script' = [] := (List.append_eq_nil_iff.mp hnil).2
          subst ht hs'
          refine readerPost_single ?_
          obtain ⟨c, hseen, hrun⟩ := hI'.split
          have hwseen : w = seen := by
            rw [← hw']; simp [wOf, heos', upToFin, evBytes]
          rw [hfl, List.append_nil] at hseen
          simp only [evBytes, List.append_nil] at hseen
          rw [hwseen, hseen, hrun]
          refine ⟨by rw [← hfin']; simp [finOf, heos', hasFin], rfl, ?_⟩
          rw [PSt.ofRem_pos (by omega)]
          intro hc; cases hc
        · rw [if_neg hemp]
          have hne : taken ++ script' ≠ [] := by simpa using hemp
          have heosf : s.eos = false := by
            cases hs : s.eos with
            | false => rfl
            | true =>
              rw [hs] at htk
              simp only [TakenOK, if_true] at htk
              rw [htk.2.2] at heos'; cases heos'
          obtain ⟨taken2, ht2, hnt⟩ := pollData_pending s s' (taken ++ script') script' hres
          have : taken2 = taken := List.append_cancel_right ht2.symm
          subst this
          have htne := hnt heosf hne
          have : 0 < taken2.length := List.length_pos_iff.mpr htne
          refine ih s' script' _ _ hI' hsc' hnr' hw' hfin' ?_
          simp only [List.length_append, evBytes_append, hfl, List.length_nil] at hmu ⊢
          omega
      | none =>
        obtain ⟨hI', hcase⟩ := hout
        rcases hcase with ⟨hz, _⟩ | ⟨_, hmax, _, _⟩
        · exact absurd hz h0
        · have := hbound _ toks s' script' hI' hw'
          omega
      | errEnd =>
        obtain ⟨heos', _, c, rest, hseen, hrun, hlt⟩ := hout
        simp only
        refine readerPost_single ?_
        have hwseen : w = seen ++ evBytes taken := by
          rw [← hw']; simp [wOf, heos']
        rw [hwseen, hseen, run_append, hrun, run_data_short D _ rest hlt]
        exact ⟨by rw [← hfin']; simp [finOf, heos'], Or.inr ⟨_, rest, by omega, rfl, rfl⟩⟩
      | errQuic c =>
        obtain ⟨_, ⟨r, hr⟩, _⟩ := hout
        exact absurd (by rw [hr]; simp) (hnr' c)
      | frame _ => exact absurd hout id
      | errProto _ => exact absurd hout id
      | panic => exact absurd hout id
    · -- `poll_next`
      have h0' : s.remaining = 0 := by simpa using h0
      rw [if_neg h0]
      have hpn : pollNext D s script = pollNextLoop D s script := by
        unfold pollNext; rw [if_neg h0]
      rw [hpn]
      have hp := pollNextLoop_spec D L script seen toks s hI h0' hsc
      cases hres : pollNextLoop D s script with
      | mk o rest =>
      obtain ⟨s', script'⟩ := rest
      rw [hres] at hp
      obtain ⟨taken, rfl, htk, hout⟩ := hp
      obtain ⟨hw', hfin'⟩ := w_step seen s.eos s'.eos taken script' htk
      rw [hw] at hw'
      rw [hfin] at hfin'
      have hsc' : ScriptOK script' := scriptOK_suffix hsc
      have hnr' : NoReset script' := fun c hc => hnr c (List.mem_append_right _ hc)
      simp only
      cases o with
      | frame f =>
        have hI' : Inv D (seen ++ evBytes taken) (toks ++ [.frame f]) s' := hout
        simp only
        refine readerPost_cons (Or.inl ⟨f, rfl⟩) ?_
        have hprog := inv_progress D hI hI' (by simp)
        refine ih s' script' _ _ hI' hsc' hnr' hw' hfin' ?_
        simp only [List.length_append, evBytes_append] at hmu ⊢
        omega
      | pending =>
        obtain ⟨hI', hstuck, heos', hrem⟩ := hout
        simp only
        have heosf : s.eos = false := by
          cases hs : s.eos with
          | false => rfl
          | true =>
            rw [hs] at htk
            simp only [TakenOK, if_true] at htk
            rw [htk.2.2] at heos'; cases heos'
        obtain ⟨taken2, ht2, hlen2, hnt⟩ := pollNextLoop_pending D _ s s' script' hres
        have : taken2 = taken := List.append_cancel_right ht2.symm
        subst this
        by_cases hemp : (taken2 ++ script').isEmpty = true
        · rw [if_pos hemp]
          have hnil : taken2 ++ script' = [] := by simpa using hemp
          have ht : taken2 = [] := (List.append_eq_nil_iff.mp hnil).1
          have hs' : script' = [] := (List.append_eq_nil_iff.mp hnil).2
          subst ht hs'
          refine readerPost_single ?_
          obtain ⟨c, hseen, hrun⟩ := hI'.split
          have hwseen : w = seen := by
            rw [← hw']; simp [wOf, heos', upToFin, evBytes]
          simp only [evBytes, List.append_nil] at hseen
          rw [hrem, PSt.ofRem_zero] at hrun
          rw [hwseen, hseen, run_append, hrun, run_incomplete D L s'.flat hstuck]
          exact ⟨by rw [← hfin']; simp [finOf, heos', hasFin], by simp, by intro hc; cases hc⟩
        · rw [if_neg hemp]
          have hne : taken2 ++ script' ≠ [] := by simpa using hemp
          have htne := hnt heosf hne
          have : 0 < taken2.length := List.length_pos_iff.mpr htne
          refine ih s' script' _ _ hI' hsc' hnr' hw' hfin' ?_
          simp only [List.length_append, evBytes_append] at hmu ⊢
          omega
      | none =>
        obtain ⟨hI', hfl, heos', hrem⟩ := hout
        simp only
        refine readerPost_single ?_
        obtain ⟨c, hseen, hrun⟩ := hI'.split
        have hwseen : w = seen ++ evBytes taken := by
          rw [← hw']; simp [wOf, heos']
        rw [hfl, List.append_nil] at hseen
        rw [hrem, PSt.ofRem_zero] at hrun
        rw [hwseen, hseen, hrun]
        exact ⟨by rw [← hfin']; simp [finOf, heos'], rfl, by simp⟩
      | errEnd =>
        obtain ⟨hI', hne, hinc, heos', hrem⟩ := hout
        simp only
        refine readerPost_single ?_
        obtain ⟨c, hseen, hrun⟩ := hI'.split
        have hwseen : w = seen ++ evBytes taken := by
          rw [← hw']; simp [wOf, heos']
        rw [hrem, PSt.ofRem_zero] at hrun
        rw [hwseen, hseen, run_append, hrun, run_incomplete D L s'.flat (Or.inr hinc)]
        exact ⟨by rw [← hfin']; simp [finOf, heos'], Or.inl ⟨s'.flat, hne, rfl, by simp⟩⟩
      | errProto e =>
        obtain ⟨c, n, hseen, hrun, hn1, hn2, hrunE⟩ := hout
        simp only
        refine readerPost_single ?_
        have hsplit : w = c ++ (s'.flat.take n ++ (s'.flat.drop n ++
            (if s'.eos then [] else evBytes (upToFin script')))) := by
          rw [← hw']
          unfold wOf
          rw [hseen]
          simp only [List.append_assoc]
          rw [← List.append_assoc (s'.flat.take n), List.take_append_drop]
        rw [hsplit, run_append, hrun, run_append, hrunE, run_dead]
        exact ⟨rfl, by simp⟩
      | errQuic c =>
        obtain ⟨_, ⟨r, hr⟩, _⟩ := hout
        exact absurd (by rw [hr]; simp) (hnr' c)
      | data _ => exact absurd hout id
      | panic => exact absurd hout id

end H3.FS
