import H3.Model.Qpack
import H3.Lemmas.PrefixInt
import H3.Model.Dyn
import H3.Gen.QpackArms
/-! Agreement of the QPACK models (`H3.Qpack`: the stateless paths with their byte codecs, C11;
    `H3.Dyn`: the stateful paths at the instruction level, C20) with what the translator reads out of
    `h3/src/qpack/{block,stream,decoder,encoder}.rs` on every run (`H3.Gen.QpackArms`):

    * which first byte selects which field line representation / encoder instruction / decoder
      instruction (the `if first & MASK == VALUE` chains, evaluated by the translator for all 256 bytes),
    * the prefix sizes and flag patterns of every representation's `decode` and `encode`,
    * what `decode_stateless`, `parse_header_field`, `parse_instruction` + `on_encoder_recv`,
      `Action::parse` + `on_decoder_recv` do with each representation, the order of the tests of
      `encode_stateless`, what `encode_field` writes for each insertion / lookup result.

    The byte codecs of `stream.rs` have no model (C20 works at the instruction level); for them the
    generated tables are tied to the layouts of RFC 9204 §4.3 / §4.4 written down here, and to each
    other (what `encode` writes is routed back to the same instruction and accepted by its `decode`). -/
namespace H3.GenAgree.Qpack
open H3.Qpack

macro "close_matches" : tactic => `(tactic| ((repeat' split) <;> simp_all))

/-! ### first-byte dispatch -/

def lineOf : HeaderBlockField → Gen.QpackArms.FieldLine
  | .indexed => .indexed
  | .indexedWithPostBase => .indexedWithPostBase
  | .literalWithNameRef => .literalWithNameRef
  | .literalWithPostBaseNameRef => .literalWithPostBaseNameRef
  | .literal => .literal
  | .unknown => .unknown

/-- `HeaderBlockField::decode(first)`: the model decides as the code does, for every byte -/
theorem headerBlockField_agrees :
    ∀ first, first < 256 → lineOf (HeaderBlockField.decode first) = Gen.QpackArms.headerBlockField first := by
  decide +kernel

/-- RFC 9204 §4.3: `1Txxxxxx` Insert With Name Reference, `01Hxxxxx` Insert With Literal Name,
    `001xxxxx` Set Dynamic Table Capacity, `000xxxxx` Duplicate -/
def rfcEncoderInstruction (first : Nat) : Gen.QpackArms.EncInstr :=
  if first / 128 = 1 then .insertWithNameRef
  else if first / 64 = 1 then .insertWithoutNameRef
  else if first / 32 = 1 then .dynamicTableSizeUpdate
  else .duplicate

/-- RFC 9204 §4.4: `1xxxxxxx` Section Acknowledgment, `01xxxxxx` Stream Cancellation, `00xxxxxx`
    Insert Count Increment -/
def rfcDecoderInstruction (first : Nat) : Gen.QpackArms.DecInstr :=
  if first / 128 = 1 then .headerAck
  else if first / 64 = 1 then .streamCancel
  else .insertCountIncrement

theorem encoderInstruction_rfc :
    ∀ first, first < 256 → Gen.QpackArms.encoderInstruction first = rfcEncoderInstruction first := by
  decide +kernel

theorem decoderInstruction_rfc :
    ∀ first, first < 256 → Gen.QpackArms.decoderInstruction first = rfcDecoderInstruction first := by
  decide +kernel

/-! ### prefix sizes and flags of the field line representations (`block.rs`) -/

def intSize (l : List Gen.QpackArms.Read) (k : Nat) : Nat :=
  match l[k]? with
  | some (.int n) => n
  | _ => 0

def strSize (l : List Gen.QpackArms.Read) (k : Nat) : Nat :=
  match l[k]? with
  | some (.str n) => n
  | _ => 0

/-- the flags a prefixed integer of size `n` can carry when its first byte is a byte -/
theorem flags_of_byte (n first f v : Nat) (r rest : List Nat) (hn1 : 1 ≤ n) (hn8 : n ≤ 8) (hb : first < 256)
    (h : PrefixInt.decode n (first :: r) = .ok f v rest) : f < 2 ^ (8 - n) := by
  have hdl : ∀ (bs : List Nat) (fl a p : Nat), PrefixInt.decLoop fl a p bs = .ok f v rest → f = fl := by
    intro bs
    induction bs with
    | nil => intro fl a p h; simp [PrefixInt.decLoop] at h
    | cons b bs ih =>
      intro fl a p h
      simp only [PrefixInt.decLoop] at h
      split at h
      · injection h with h1; exact h1.symm
      · split at h
        · cases h
        · exact ih _ _ _ h
  have hf : f = first / 2 ^ n := by
    unfold PrefixInt.decode at h
    rw [PrefixInt.decode?_cons n first r hn1 hn8 hb] at h
    simp only [Option.getD_some] at h
    split at h
    · injection h with h1; exact h1.symm
    · exact hdl _ _ _ _ h
  subst hf
  have : n = 1 ∨ n = 2 ∨ n = 3 ∨ n = 4 ∨ n = 5 ∨ n = 6 ∨ n = 7 ∨ n = 8 := by omega
  rcases this with rfl | rfl | rfl | rfl | rfl | rfl | rfl | rfl <;> simp <;> omega

/-- `HeaderPrefix::decode` -/
theorem headerPrefix_reads (bs : Bytes) :
    HeaderPrefix.decode bs =
      match PrefixInt.decode (intSize Gen.QpackArms.headerPrefixReads 0) bs with
      | .endOf => .error (.integer .unexpectedEnd)
      | .overflow => .error (.integer .overflow)
      | .ok _ ric r1 =>
        match PrefixInt.decode (intSize Gen.QpackArms.headerPrefixReads 1) r1 with
        | .endOf => .error (.integer .unexpectedEnd)
        | .overflow => .error (.integer .overflow)
        | .ok sign db r2 =>
          if ric > USIZE_MAX then .error (.integer .overflow)
          else if db > USIZE_MAX then .error (.integer .overflow)
          else .ok (⟨ric, sign == 1, db⟩, r2) := rfl

def prefixBytes (p : HeaderPrefix) : List Gen.QpackArms.Write → Option Bytes
  | [.int a b, .intSign c] =>
    some (PrefixInt.encode a b p.encodedInsertCount ++ PrefixInt.encode c (if p.signNegative then 1 else 0) p.deltaBase)
  | _ => none

theorem headerPrefix_writes (p : HeaderPrefix) :
    some (HeaderPrefix.encode p) = prefixBytes p Gen.QpackArms.headerPrefixWrites := rfl

/-- the model's flag tests, as written in `H3.Qpack` -/
def indexedCls (f : Nat) : Option Gen.QpackArms.Ref :=
  if f = 3 then some .static else if f = 2 then some .dynamic else none

def lnrCls (f : Nat) : Option Gen.QpackArms.Ref :=
  if f % 2 = 1 ∧ f / 4 % 2 = 1 then some .static
  else if f % 2 = 0 ∧ f / 4 % 2 = 1 then some .dynamic else none

theorem indexed_factor (bs : Bytes) :
    Indexed.decode bs =
      match PrefixInt.decode (intSize Gen.QpackArms.indexedReads 0) bs with
      | .endOf => .error (.integer .unexpectedEnd)
      | .overflow => .error (.integer .overflow)
      | .ok f i rest =>
        match indexedCls f with
        | some .static => if i > USIZE_MAX then .error (.integer .overflow) else .ok (.static i, rest)
        | some .dynamic => if i > USIZE_MAX then .error (.integer .overflow) else .ok (.dynamic i, rest)
        | none => .error (.invalidPrefix f) := by
  have hs : intSize Gen.QpackArms.indexedReads 0 = 6 := rfl
  rw [hs]
  unfold Indexed.decode indexedCls
  cases PrefixInt.decode 6 bs with
  | ok f i rest => by_cases h1 : f = 3 <;> by_cases h2 : f = 2 <;> simp [h1, h2]
  | _ => rfl

theorem indexed_flags : ∀ f, f < 2 ^ (8 - intSize Gen.QpackArms.indexedReads 0) →
    indexedCls f = Gen.QpackArms.indexedFlags f := by decide

theorem indexedWithPostBase_factor (bs : Bytes) :
    IndexedWithPostBase.decode bs =
      match PrefixInt.decode (intSize Gen.QpackArms.indexedWithPostBaseReads 0) bs with
      | .endOf => .error (.integer .unexpectedEnd)
      | .overflow => .error (.integer .overflow)
      | .ok f i rest =>
        if decide (f = 1) then (if i > USIZE_MAX then .error (.integer .overflow) else .ok (i, rest))
        else .error (.invalidPrefix f) := by
  have hs : intSize Gen.QpackArms.indexedWithPostBaseReads 0 = 4 := rfl
  rw [hs]
  unfold IndexedWithPostBase.decode
  cases PrefixInt.decode 4 bs with
  | ok f i rest => by_cases h1 : f = 1 <;> simp [h1]
  | _ => rfl

theorem indexedWithPostBase_flags : ∀ f, f < 2 ^ (8 - intSize Gen.QpackArms.indexedWithPostBaseReads 0) →
    decide (f = 1) = Gen.QpackArms.indexedWithPostBaseFlags f := by decide

theorem literalWithNameRef_factor (bs : Bytes) :
    LiteralWithNameRef.decode bs =
      match PrefixInt.decode (intSize Gen.QpackArms.literalWithNameRefReads 0) bs with
      | .endOf => .error (.integer .unexpectedEnd)
      | .overflow => .error (.integer .overflow)
      | .ok f i rest =>
        match lnrCls f with
        | some .static =>
          if i > USIZE_MAX then .error (.integer .overflow)
          else match strDecode (strSize Gen.QpackArms.literalWithNameRefReads 1) rest with
            | .error e => .error e
            | .ok (v, rest', lax) => .ok (.static i v, rest', lax)
        | some .dynamic =>
          if i > USIZE_MAX then .error (.integer .overflow)
          else match strDecode (strSize Gen.QpackArms.literalWithNameRefReads 1) rest with
            | .error e => .error e
            | .ok (v, rest', lax) => .ok (.dynamic i v, rest', lax)
        | none => .error (.invalidPrefix f) := by
  have hs : intSize Gen.QpackArms.literalWithNameRefReads 0 = 4 := rfl
  have ht : strSize Gen.QpackArms.literalWithNameRefReads 1 = 8 := rfl
  rw [hs, ht]
  unfold LiteralWithNameRef.decode lnrCls
  cases PrefixInt.decode 4 bs with
  | ok f i rest =>
    by_cases h1 : f % 2 = 1 ∧ f / 4 % 2 = 1 <;> by_cases h2 : f % 2 = 0 ∧ f / 4 % 2 = 1 <;> simp [h1, h2] <;> close_matches
  | _ => rfl

theorem literalWithNameRef_flags : ∀ f, f < 2 ^ (8 - intSize Gen.QpackArms.literalWithNameRefReads 0) →
    lnrCls f = Gen.QpackArms.literalWithNameRefFlags f := by decide

theorem literalWithPostBaseNameRef_factor (bs : Bytes) :
    LiteralWithPostBaseNameRef.decode bs =
      match PrefixInt.decode (intSize Gen.QpackArms.literalWithPostBaseNameRefReads 0) bs with
      | .endOf => .error (.integer .unexpectedEnd)
      | .overflow => .error (.integer .overflow)
      | .ok f i rest =>
        if decide (f / 16 % 16 = 0) then
          if i > USIZE_MAX then .error (.integer .overflow)
          else match strDecode (strSize Gen.QpackArms.literalWithPostBaseNameRefReads 1) rest with
            | .error e => .error e
            | .ok (v, rest', lax) => .ok ((i, v), rest', lax)
        else .error (.invalidPrefix f) := by
  have hs : intSize Gen.QpackArms.literalWithPostBaseNameRefReads 0 = 3 := rfl
  have ht : strSize Gen.QpackArms.literalWithPostBaseNameRefReads 1 = 8 := rfl
  rw [hs, ht]
  unfold LiteralWithPostBaseNameRef.decode
  cases PrefixInt.decode 3 bs with
  | ok f i rest => by_cases h1 : f / 16 % 16 = 0 <;> simp [h1] <;> close_matches
  | _ => rfl

theorem literalWithPostBaseNameRef_flags :
    ∀ f, f < 2 ^ (8 - intSize Gen.QpackArms.literalWithPostBaseNameRefReads 0) →
      decide (f / 16 % 16 = 0) = Gen.QpackArms.literalWithPostBaseNameRefFlags f := by decide

theorem literal_factor (first : Nat) (r : Bytes) :
    Literal.decode (first :: r) =
      if decide (first / 32 % 8 = 1) then
        match strDecode (strSize Gen.QpackArms.literalReads 0) (first :: r) with
        | .error e => .error e
        | .ok (name, r1, lax1) =>
          match strDecode (strSize Gen.QpackArms.literalReads 1) r1 with
          | .error e => .error e
          | .ok (value, r2, lax2) => .ok ((name, value), r2, lax1 || lax2)
      else .error (.invalidPrefix first) := by
  have hs : strSize Gen.QpackArms.literalReads 0 = 4 := rfl
  have ht : strSize Gen.QpackArms.literalReads 1 = 8 := rfl
  rw [hs, ht]
  unfold Literal.decode
  by_cases h1 : first / 32 % 8 = 1 <;> simp [h1] <;> close_matches

theorem literal_first : ∀ first, first < 256 →
    decide (first / 32 % 8 = 1) = Gen.QpackArms.literalFirstOk first := by decide +kernel

/-! ### what the `encode` functions of `block.rs` write -/

/-- the bytes of a list of codec calls for the index `idx` and the strings `strs`; outer `none`: the
    list has no reading, inner `none`: a panic inside the string encoder -/
def emit (idx : Nat) : List Gen.QpackArms.Write → List Bytes → Option (Option Bytes)
  | [], [] => some (some [])
  | .int s f :: r, strs => (emit idx r strs).map (·.map (PrefixInt.encode s f idx ++ ·))
  | .str s f :: r, v :: strs =>
    (emit idx r strs).map fun rest =>
      match PrefixString.encode? s f v, rest with
      | some a, some b => some (a ++ b)
      | _, _ => none
  | _, _ => none

theorem indexed_writes (i : Nat) :
    some (some (Indexed.encode (.static i))) = emit i Gen.QpackArms.indexedWritesStatic [] ∧
    some (some (Indexed.encode (.dynamic i))) = emit i Gen.QpackArms.indexedWritesDynamic [] := by
  simp [emit, Gen.QpackArms.indexedWritesStatic, Gen.QpackArms.indexedWritesDynamic, Indexed.encode]

theorem indexedWithPostBase_writes (i : Nat) :
    some (some (IndexedWithPostBase.encode i)) = emit i Gen.QpackArms.indexedWithPostBaseWrites [] := by
  simp [emit, Gen.QpackArms.indexedWithPostBaseWrites, IndexedWithPostBase.encode]

theorem literalWithNameRef_writes (i : Nat) (v : Bytes) :
    some (LiteralWithNameRef.encode? (.static i v)) = emit i Gen.QpackArms.literalWithNameRefWritesStatic [v] ∧
    some (LiteralWithNameRef.encode? (.dynamic i v)) = emit i Gen.QpackArms.literalWithNameRefWritesDynamic [v] := by
  cases h : PrefixString.encode? 8 0 v <;>
    simp [emit, Gen.QpackArms.literalWithNameRefWritesStatic, Gen.QpackArms.literalWithNameRefWritesDynamic,
      LiteralWithNameRef.encode?, h]

theorem literalWithPostBaseNameRef_writes (i : Nat) (v : Bytes) :
    some (LiteralWithPostBaseNameRef.encode? i v) = emit i Gen.QpackArms.literalWithPostBaseNameRefWrites [v] := by
  cases h : PrefixString.encode? 8 0 v <;>
    simp [emit, Gen.QpackArms.literalWithPostBaseNameRefWrites, LiteralWithPostBaseNameRef.encode?, h]

theorem literal_writes (name value : Bytes) :
    some (Literal.encode? name value) = emit 0 Gen.QpackArms.literalWrites [name, value] := by
  cases h1 : PrefixString.encode? 4 2 name <;> cases h2 : PrefixString.encode? 8 0 value <;>
    simp [emit, Gen.QpackArms.literalWrites, Literal.encode?, h1, h2]

/-! ### `encode` against `decode`, per representation and instruction: what is written is routed back
    to the same representation by the first-byte dispatch, its flags are accepted, the sizes agree -/

/-- every first byte a codec call can produce (the Huffman bit of `prefix_string::encode` is always
    set: `flags << 1 | 1`) -/
def firstBytes : Gen.QpackArms.Write → List Nat
  | .int s f => (List.range (2 ^ s)).map (f * 2 ^ s + ·)
  | .intSign s => (List.range (2 ^ (s + 1))).map id
  | .str s f => (List.range (2 ^ (s - 1))).map ((f * 2 + 1) * 2 ^ (s - 1) + ·)

def routed {α : Type} [DecidableEq α] (d : Nat → α) (x : α) : List Gen.QpackArms.Write → Bool
  | w :: _ => (firstBytes w).all fun b => decide (b < 256) && d b == x
  | [] => false

/-- the reads of `decode` and the writes of `encode` are the same codecs with the same sizes -/
def sameSizes : List Gen.QpackArms.Read → List Gen.QpackArms.Write → Bool
  | [], [] => true
  | .int a :: r, .int b _ :: w => a == b && sameSizes r w
  | .int a :: r, .intSign b :: w => a == b && sameSizes r w
  | .str a :: r, .str b _ :: w => a == b && sameSizes r w
  | _, _ => false

def intFlags : List Gen.QpackArms.Write → Nat
  | .int _ f :: _ => f
  | _ => 256

theorem block_round_trip :
    routed Gen.QpackArms.headerBlockField .indexed Gen.QpackArms.indexedWritesStatic = true ∧
    routed Gen.QpackArms.headerBlockField .indexed Gen.QpackArms.indexedWritesDynamic = true ∧
    routed Gen.QpackArms.headerBlockField .indexedWithPostBase Gen.QpackArms.indexedWithPostBaseWrites = true ∧
    routed Gen.QpackArms.headerBlockField .literalWithNameRef Gen.QpackArms.literalWithNameRefWritesStatic = true ∧
    routed Gen.QpackArms.headerBlockField .literalWithNameRef Gen.QpackArms.literalWithNameRefWritesDynamic = true ∧
    routed Gen.QpackArms.headerBlockField .literalWithPostBaseNameRef Gen.QpackArms.literalWithPostBaseNameRefWrites = true ∧
    routed Gen.QpackArms.headerBlockField .literal Gen.QpackArms.literalWrites = true ∧
    Gen.QpackArms.indexedFlags (intFlags Gen.QpackArms.indexedWritesStatic) = some .static ∧
    Gen.QpackArms.indexedFlags (intFlags Gen.QpackArms.indexedWritesDynamic) = some .dynamic ∧
    Gen.QpackArms.indexedWithPostBaseFlags (intFlags Gen.QpackArms.indexedWithPostBaseWrites) = true ∧
    Gen.QpackArms.literalWithNameRefFlags (intFlags Gen.QpackArms.literalWithNameRefWritesStatic) = some .static ∧
    Gen.QpackArms.literalWithNameRefFlags (intFlags Gen.QpackArms.literalWithNameRefWritesDynamic) = some .dynamic ∧
    Gen.QpackArms.literalWithPostBaseNameRefFlags (intFlags Gen.QpackArms.literalWithPostBaseNameRefWrites) = true ∧
    ((firstBytes (Gen.QpackArms.literalWrites.headD (.int 0 0))).all Gen.QpackArms.literalFirstOk) = true ∧
    sameSizes Gen.QpackArms.headerPrefixReads Gen.QpackArms.headerPrefixWrites = true ∧
    sameSizes Gen.QpackArms.indexedReads Gen.QpackArms.indexedWritesStatic = true ∧
    sameSizes Gen.QpackArms.indexedReads Gen.QpackArms.indexedWritesDynamic = true ∧
    sameSizes Gen.QpackArms.indexedWithPostBaseReads Gen.QpackArms.indexedWithPostBaseWrites = true ∧
    sameSizes Gen.QpackArms.literalWithNameRefReads Gen.QpackArms.literalWithNameRefWritesStatic = true ∧
    sameSizes Gen.QpackArms.literalWithNameRefReads Gen.QpackArms.literalWithNameRefWritesDynamic = true ∧
    sameSizes Gen.QpackArms.literalWithPostBaseNameRefReads Gen.QpackArms.literalWithPostBaseNameRefWrites = true ∧
    sameSizes Gen.QpackArms.literalReads Gen.QpackArms.literalWrites = true := by
  decide +kernel

theorem stream_round_trip :
    routed Gen.QpackArms.encoderInstruction .insertWithNameRef Gen.QpackArms.insertWithNameRefWritesStatic = true ∧
    routed Gen.QpackArms.encoderInstruction .insertWithNameRef Gen.QpackArms.insertWithNameRefWritesDynamic = true ∧
    routed Gen.QpackArms.encoderInstruction .insertWithoutNameRef Gen.QpackArms.insertWithoutNameRefWrites = true ∧
    routed Gen.QpackArms.encoderInstruction .duplicate Gen.QpackArms.duplicateWrites = true ∧
    routed Gen.QpackArms.encoderInstruction .dynamicTableSizeUpdate Gen.QpackArms.dynamicTableSizeUpdateWrites = true ∧
    routed Gen.QpackArms.decoderInstruction .insertCountIncrement Gen.QpackArms.insertCountIncrementWrites = true ∧
    routed Gen.QpackArms.decoderInstruction .headerAck Gen.QpackArms.headerAckWrites = true ∧
    routed Gen.QpackArms.decoderInstruction .streamCancel Gen.QpackArms.streamCancelWrites = true ∧
    Gen.QpackArms.insertWithNameRefFlags (intFlags Gen.QpackArms.insertWithNameRefWritesStatic) = some .static ∧
    Gen.QpackArms.insertWithNameRefFlags (intFlags Gen.QpackArms.insertWithNameRefWritesDynamic) = some .dynamic ∧
    Gen.QpackArms.duplicateFlags (intFlags Gen.QpackArms.duplicateWrites) = true ∧
    Gen.QpackArms.dynamicTableSizeUpdateFlags (intFlags Gen.QpackArms.dynamicTableSizeUpdateWrites) = true ∧
    Gen.QpackArms.insertCountIncrementFlags (intFlags Gen.QpackArms.insertCountIncrementWrites) = true ∧
    Gen.QpackArms.headerAckFlags (intFlags Gen.QpackArms.headerAckWrites) = true ∧
    Gen.QpackArms.streamCancelFlags (intFlags Gen.QpackArms.streamCancelWrites) = true ∧
    sameSizes Gen.QpackArms.insertWithNameRefReads Gen.QpackArms.insertWithNameRefWritesStatic = true ∧
    sameSizes Gen.QpackArms.insertWithNameRefReads Gen.QpackArms.insertWithNameRefWritesDynamic = true ∧
    sameSizes Gen.QpackArms.insertWithoutNameRefReads Gen.QpackArms.insertWithoutNameRefWrites = true ∧
    sameSizes Gen.QpackArms.duplicateReads Gen.QpackArms.duplicateWrites = true ∧
    sameSizes Gen.QpackArms.dynamicTableSizeUpdateReads Gen.QpackArms.dynamicTableSizeUpdateWrites = true ∧
    sameSizes Gen.QpackArms.insertCountIncrementReads Gen.QpackArms.insertCountIncrementWrites = true ∧
    sameSizes Gen.QpackArms.headerAckReads Gen.QpackArms.headerAckWrites = true ∧
    sameSizes Gen.QpackArms.streamCancelReads Gen.QpackArms.streamCancelWrites = true := by
  decide +kernel

/-- RFC 9204 §4.3 / §4.4: the prefix lengths of the instructions (`N+` in the figures; a string
    literal of `prefix_string` size `s` has an `(s-1)`-bit length prefix under its `H` bit) -/
theorem stream_sizes_rfc :
    Gen.QpackArms.insertWithNameRefReads = [.int 6, .str 8] ∧          -- 1 T NameIndex(6+) / H ValueLength(7+)
    Gen.QpackArms.insertWithoutNameRefReads = [.str 6, .str 8] ∧       -- 0 1 H NameLength(5+) / H ValueLength(7+)
    Gen.QpackArms.duplicateReads = [.int 5] ∧                           -- 0 0 0 Index(5+)
    Gen.QpackArms.dynamicTableSizeUpdateReads = [.int 5] ∧              -- 0 0 1 Capacity(5+)
    Gen.QpackArms.headerAckReads = [.int 7] ∧                           -- 1 StreamID(7+)
    Gen.QpackArms.streamCancelReads = [.int 6] ∧                        -- 0 1 StreamID(6+)
    Gen.QpackArms.insertCountIncrementReads = [.int 6] :=               -- 0 0 Increment(6+)
  ⟨rfl, rfl, rfl, rfl, rfl, rfl, rfl⟩

/-! ### `decode_stateless` (`H3.Qpack.decodeField`, `decodeLoop`, `decodeStatelessX`) -/

def cmp : Gen.QpackArms.Cmp → Nat → Nat → Bool
  | .lt, a, b => decide (a < b)
  | .le, a, b => decide (a ≤ b)
  | .gt, a, b => decide (a > b)
  | .ge, a, b => decide (a ≥ b)
  | .eq, a, b => decide (a = b)
  | .ne, a, b => decide (a ≠ b)

/-- the stateless reading of what is done with a decoded representation; the look-ups in the
    dynamic table have none -/
def resolveStateless (first idx : Nat) (name value rest : Bytes) (lax : Bool) :
    Gen.QpackArms.Resolve → Option (Except Err (Field × Bytes × Bool))
  | .staticClone =>
    some (match StaticTable.get idx with
      | none => .error (.invalidStaticIndex idx)
      | some f => .ok (f, rest, false))
  | .staticWithValue =>
    some (match StaticTable.get idx with
      | none => .error (.invalidStaticIndex idx)
      | some f => .ok (f.withValue value, rest, lax))
  | .literal => some (.ok (⟨name, value⟩, rest, lax))
  | .missingRefs n => some (.error (.missingRefs n))
  | .unknownPrefix => some (.error (.unknownPrefix first))
  | _ => none

/-- a representation refused as a whole (`return Err(MissingRefs(n))` in place of its decoder) -/
def refusedWhole : Gen.QpackArms.Resolve → Option (Except Err (Field × Bytes × Bool))
  | .missingRefs n => some (.error (.missingRefs n))
  | _ => none

/-- one iteration of the loop of `decode_stateless` written over the generated table -/
def genDecodeField (first : Nat) (bs : Bytes) : Option (Except Err (Field × Bytes × Bool)) :=
  match lineOf (HeaderBlockField.decode first) with
  | .indexed =>
    match Indexed.decode bs with
    | .error e => some (.error (.ofParse e))
    | .ok (.static i, rest) => resolveStateless first i [] [] rest false (Gen.QpackArms.statelessResolve .indexedStatic)
    | .ok (.dynamic i, rest) => resolveStateless first i [] [] rest false (Gen.QpackArms.statelessResolve .indexedDynamic)
  | .indexedWithPostBase => refusedWhole (Gen.QpackArms.statelessResolve .indexedWithPostBase)
  | .literalWithNameRef =>
    match LiteralWithNameRef.decode bs with
    | .error e => some (.error (.ofParse e))
    | .ok (.static i v, rest, lax) =>
      resolveStateless first i [] v rest lax (Gen.QpackArms.statelessResolve .literalWithNameRefStatic)
    | .ok (.dynamic i v, rest, lax) =>
      resolveStateless first i [] v rest lax (Gen.QpackArms.statelessResolve .literalWithNameRefDynamic)
  | .literalWithPostBaseNameRef => refusedWhole (Gen.QpackArms.statelessResolve .literalWithPostBaseNameRef)
  | .literal =>
    match Literal.decode bs with
    | .error e => some (.error (.ofParse e))
    | .ok ((name, value), rest, lax) =>
      resolveStateless first 0 name value rest lax (Gen.QpackArms.statelessResolve .literal)
  | .unknown => resolveStateless first 0 [] [] [] false (Gen.QpackArms.statelessResolve .unknown)

theorem decodeField_agrees (first : Nat) (bs : Bytes) :
    some (decodeField first bs) = genDecodeField first bs := by
  unfold decodeField genDecodeField
  cases HeaderBlockField.decode first <;>
    simp only [lineOf, Gen.QpackArms.statelessResolve, resolveStateless, refusedWhole] <;> close_matches

/-- the size test sits between `mem_size += field.mem_size()` and `fields.push(field)` and uses the
    generated operator (the early cancel of C10) -/
theorem decodeLoop_limit (max fuel first mem : Nat) (r : Bytes) :
    decodeLoop max (fuel + 1) (first :: r) mem =
      match decodeField first (first :: r) with
      | .error e => (.err e, false)
      | .ok (field, rest, lax) =>
        if cmp Gen.QpackArms.statelessTooLongCmp (mem + field.memSize) max then
          (.err (.headerTooLong (mem + field.memSize)), lax)
        else
          match decodeLoop max fuel rest (mem + field.memSize) with
          | (.ok fs total, lax') => (.ok (field :: fs) total, lax || lax')
          | (.err e, lax') => (.err e, lax || lax') := by
  simp only [decodeLoop, cmp, Gen.QpackArms.statelessTooLongCmp, decide_eq_true_eq]
  cases decodeField first (first :: r) with
  | error e => rfl
  | ok x =>
    obtain ⟨field, rest, lax⟩ := x
    by_cases h : mem + field.memSize > max
    · simp [h]
    · simp only [h, if_false]
      close_matches

/-- the field section prefix of the stateless paths: `HeaderPrefix::new(0, 0, 0, 0)` is written,
    `.get(0, 0)` is asked (`H3.Qpack.HeaderPrefix.{new0, get}` are these instances) -/
theorem stateless_prefix :
    Gen.QpackArms.statelessPrefixNew = (0, 0, 0, 0) ∧ Gen.QpackArms.statelessPrefixGet = (0, 0) := ⟨rfl, rfl⟩

/-! ### `encode_stateless` (`H3.Qpack.encodeField?`) -/

/-- a test of the encoder: `none` no reading, `some none` does not hold, `some (some i)` holds with index `i` -/
def probe (f : Field) : Gen.QpackArms.Probe → Option (Option Nat)
  | .staticFind => some (StaticTable.find f)
  | .staticFindName => some (StaticTable.findName f.name)
  | .otherwise => some (some 0)
  | .dynamicFindRelative => none

def writeRep (f : Field) (idx : Nat) : Gen.QpackArms.FieldRep → Option (Option Bytes)
  | .indexedStatic => some (some (Indexed.encode (.static idx)))
  | .literalWithNameRefStatic => some (LiteralWithNameRef.encode? (.static idx f.value))
  | .literal => some (Literal.encode? f.name f.value)
  | _ => none

def runEncode (f : Field) : List (Gen.QpackArms.Probe × Gen.QpackArms.FieldRep) → Option (Option Bytes)
  | [] => none
  | (p, r) :: rest =>
    match probe f p with
    | none => none
    | some (some idx) => writeRep f idx r
    | some none => runEncode f rest

/-- static full match → static name match → literal, in this order -/
theorem encodeField_agrees (f : Field) : some (encodeField? f) = runEncode f Gen.QpackArms.statelessEncode := by
  simp only [Gen.QpackArms.statelessEncode, runEncode, probe, writeRep, encodeField?]
  cases StaticTable.find f <;> cases StaticTable.findName f.name <;> rfl

/-! ### the stateful decoder (`H3.Dyn.decodeRep`, `decodeHeader`, `encoderInstr`) -/

def repKind : Dyn.Rep → Gen.QpackArms.FieldRep
  | .indexedStatic _ => .indexedStatic
  | .indexedDyn _ => .indexedDynamic
  | .indexedPost _ => .indexedWithPostBase
  | .litStatic _ _ => .literalWithNameRefStatic
  | .litDyn _ _ => .literalWithNameRefDynamic
  | .litPost _ _ => .literalWithPostBaseNameRef
  | .lit _ _ => .literal

def repIndex : Dyn.Rep → Nat
  | .indexedStatic i | .indexedDyn i | .indexedPost i | .litStatic i _ | .litDyn i _ | .litPost i _ => i
  | .lit _ _ => 0

def repValue : Dyn.Rep → Dyn.Bytes
  | .litStatic _ v | .litDyn _ v | .litPost _ v | .lit _ v => v
  | _ => []

def repName : Dyn.Rep → Dyn.Bytes
  | .lit n _ => n
  | _ => []

def resolveDyn (t : Dyn.Table) (base : Nat) (r : Dyn.Rep) : Gen.QpackArms.Resolve → Option (Dyn.Res Dyn.Field)
  | .staticClone => some (Dyn.staticGetR (repIndex r))
  | .staticWithValue => some ((Dyn.staticGetR (repIndex r)).bind fun f => .ok (f.withValue (repValue r)))
  | .relativeClone => some (t.getRelativeBase base (repIndex r))
  | .relativeWithValue => some ((t.getRelativeBase base (repIndex r)).bind fun f => .ok (f.withValue (repValue r)))
  | .postBaseClone => some (t.getPostBase base (repIndex r))
  | .postBaseWithValue => some ((t.getPostBase base (repIndex r)).bind fun f => .ok (f.withValue (repValue r)))
  | .literal => some (.ok ⟨repName r, repValue r⟩)
  | _ => none

/-- `parse_header_field`: static / relative / post-base look-up, `clone` / `with_value`, per representation -/
theorem decodeRep_agrees (t : Dyn.Table) (base : Nat) (r : Dyn.Rep) :
    some (Dyn.decodeRep t base r) = resolveDyn t base r (Gen.QpackArms.statefulResolve (repKind r)) := by
  cases r <;> rfl

/-- every representation of the model is a variant the code knows, and the other way round
    (`unknown` is not a representation) -/
theorem repKind_covers : ∀ k : Gen.QpackArms.FieldRep, k = .unknown ∨ ∃ r, repKind r = k := by
  intro k
  cases k
  · exact .inr ⟨.indexedStatic 0, rfl⟩
  · exact .inr ⟨.indexedDyn 0, rfl⟩
  · exact .inr ⟨.indexedPost 0, rfl⟩
  · exact .inr ⟨.litStatic 0 [], rfl⟩
  · exact .inr ⟨.litDyn 0 [], rfl⟩
  · exact .inr ⟨.litPost 0 [], rfl⟩
  · exact .inr ⟨.lit [] [], rfl⟩
  · exact .inl rfl

/-- `decode_header`: `MissingRefs` iff `required_ref > total_inserted`; `dyn_ref: required_ref > 0` -/
theorem decodeHeader_tests (t : Dyn.Table) (b : Dyn.Block) :
    Dyn.decodeHeader t b =
      (Dyn.prefixGet b.pfx t.totalInserted t.maxSize).bind fun (required, base) =>
        if cmp Gen.QpackArms.missingRefsCmp required t.totalInserted then .err (.missingRefs required)
        else (Dyn.decodeReps t base b.reps).bind fun fs =>
          .ok (fs, cmp Gen.QpackArms.dynRefCmp.1 required Gen.QpackArms.dynRefCmp.2) := by
  simp only [Dyn.decodeHeader, cmp, Gen.QpackArms.missingRefsCmp, Gen.QpackArms.dynRefCmp, decide_eq_true_eq]

def instrKind : Dyn.EncInstr → Gen.QpackArms.InstrRep
  | .sizeUpdate _ => .dynamicTableSizeUpdate
  | .insertStatic _ _ => .insertWithNameRefStatic
  | .insertDyn _ _ => .insertWithNameRefDynamic
  | .insertLit _ _ => .insertWithoutNameRef
  | .dup _ => .duplicate

/-- the first byte of an instruction of the model (Static / Dynamic share `InsertWithNameRef`) -/
def instrLine : Gen.QpackArms.InstrRep → Gen.QpackArms.EncInstr
  | .dynamicTableSizeUpdate => .dynamicTableSizeUpdate
  | .insertWithNameRefStatic | .insertWithNameRefDynamic => .insertWithNameRef
  | .insertWithoutNameRef => .insertWithoutNameRef
  | .duplicate => .duplicate
  | .unknown => .unknown

def iact (t : Dyn.Table) : Dyn.EncInstr → Gen.QpackArms.IAct → Option (Dyn.Res Dyn.Table)
  | .sizeUpdate n, .setMaxSize => some (t.setMaxSize n)
  | .insertLit n v, .putNew => some (t.put ⟨n, v⟩)
  | .dup rel, .putRelativeClone => some ((t.getRelative rel).bind fun f => t.put f)
  | .insertStatic i v, .putStaticWithValue =>
    some (match Dyn.staticGet i with
      | some f => t.put (f.withValue v)
      | none => .err .invalidStaticIndex)
  | .insertDyn rel v, .putRelativeWithValue => some ((t.getRelative rel).bind fun f => t.put (f.withValue v))
  | _, _ => none

/-- `parse_instruction` + the `match` of `on_encoder_recv` -/
theorem encoderInstr_agrees (t : Dyn.Table) (i : Dyn.EncInstr) :
    some (Dyn.encoderInstr t i) = iact t i (Gen.QpackArms.encoderInstr (instrKind i)) := by
  cases i <;> rfl

/-! ### the stateful encoder (`H3.Dyn.decoderInstr`, `emitInsertion`, `emitLookup`, `encodeField`) -/

def dact (t : Dyn.Table) : Dyn.DecInstr → Gen.QpackArms.DAct → Option (Dyn.Res Dyn.Table)
  | .ack sid, .untrack => some (t.untrackBlock sid)
  | .cancel sid, .untrackTwiceLenient =>
    some (match t.untrackBlock sid with
      | .ok t1 => (match t1.untrackBlock sid with
        | .ok t2 => .ok t2
        | .err _ => .ok t1
        | .panic s => .panic s)
      | .err _ => .ok t
      | .panic s => .panic s)
  | .incr n, .updateLargestReceived => some (t.updateLargestReceived n)
  | _, _ => none

def decKind : Dyn.DecInstr → Gen.QpackArms.DecInstr
  | .ack _ => .headerAck
  | .cancel _ => .streamCancel
  | .incr _ => .insertCountIncrement

/-- `Action::parse` + the `match` of `on_decoder_recv` -/
theorem decoderInstr_agrees (t : Dyn.Table) (i : Dyn.DecInstr) :
    some (Dyn.decoderInstr t i) = dact t i (Gen.QpackArms.decoderInstr (decKind i)) := by
  cases i <;> rfl

/-- what an `Emit` of the generated tables writes, for the index / relative index `idx`, the
    post-base index `pb` and the absolute index `abs` bound by the pattern -/
def emitBy (o : Dyn.EncOut) (f : Dyn.Field) (idx pb abs : Nat) (e : Gen.QpackArms.Emit) : Option Dyn.EncOut := do
  let rep ← match e.rep with
    | .indexedStatic => some (Dyn.Rep.indexedStatic idx)
    | .indexedDynamic => some (.indexedDyn idx)
    | .indexedWithPostBase => some (.indexedPost pb)
    | .literalWithNameRefStatic => some (.litStatic idx f.value)
    | .literalWithNameRefDynamic => some (.litDyn idx f.value)
    | .literalWithPostBaseNameRef => some (.litPost idx f.value)
    | .literal => some (.lit f.name f.value)
    | .unknown => none
  let o1 ← match e.instr with
    | none => some { o with reps := o.reps ++ [rep] }
    | some .duplicate => some { o with instrs := o.instrs ++ [.dup idx], reps := o.reps ++ [rep] }
    | some .insertWithoutNameRef => some { o with instrs := o.instrs ++ [.insertLit f.name f.value], reps := o.reps ++ [rep] }
    | some .insertWithNameRefStatic => some { o with instrs := o.instrs ++ [.insertStatic idx f.value], reps := o.reps ++ [rep] }
    | some .insertWithNameRefDynamic => some { o with instrs := o.instrs ++ [.insertDyn idx f.value], reps := o.reps ++ [rep] }
    | some _ => none
  pure (if e.refs then o1.ref abs else o1)

theorem emitLookup_agrees (o : Dyn.EncOut) (f : Dyn.Field) (l : Dyn.Lookup) :
    some (Dyn.emitLookup o f l) =
      match l with
      | .static i => emitBy o f i 0 0 (Gen.QpackArms.lookupEmit .static)
      | .relative i a => emitBy o f i 0 a (Gen.QpackArms.lookupEmit .relative)
      | .postBase i a => emitBy o f i 0 a (Gen.QpackArms.lookupEmit .postBase)
      | .notFound => emitBy o f 0 0 0 (Gen.QpackArms.lookupEmit .notFound) := by
  cases l <;> rfl

theorem emitInsertion_agrees (o : Dyn.EncOut) (f : Dyn.Field) (r : Dyn.Insertion) :
    some (Dyn.emitInsertion o f r) =
      match r with
      | .inserted pb a => (Gen.QpackArms.insertionEmit .inserted).bind (emitBy o f 0 pb a)
      | .duplicated rel pb a => (Gen.QpackArms.insertionEmit .duplicated).bind (emitBy o f rel pb a)
      | .insertedWithNameRef pb rel a => (Gen.QpackArms.insertionEmit .insertedWithNameRef).bind (emitBy o f rel pb a)
      | .insertedWithStaticNameRef pb i a => (Gen.QpackArms.insertionEmit .insertedWithStaticNameRef).bind (emitBy o f i pb a)
      | .notInserted l =>
        match Gen.QpackArms.insertionEmit .notInserted with
        | none => some (Dyn.emitLookup o f l)
        | some _ => none := by
  cases r <;> rfl

/-- `encode_field` before `table.insert(field)?`: a full match in the static table (no reference),
    then a full match in the dynamic table below the Base (a reference) -/
theorem encodeField_early (e : Dyn.TEnc) (o : Dyn.EncOut) (f : Dyn.Field) :
    Gen.QpackArms.encodeFieldEarly = [(.staticFind, .indexedStatic, false), (.dynamicFindRelative, .indexedDynamic, true)] ∧
    (∀ i, Dyn.staticFind f = some i →
      some (Dyn.encodeField e o f) = (emitBy o f i 0 0 ⟨none, .indexedStatic, false⟩).map fun o' => .ok (e, o')) ∧
    (∀ i a, Dyn.staticFind f = none → (e.find f).2 = .relative i a →
      some (Dyn.encodeField e o f) = (emitBy o f i 0 a ⟨none, .indexedDynamic, true⟩).map fun o' => .ok ((e.find f).1, o')) := by
  refine ⟨rfl, ?_, ?_⟩
  · intro i h
    simp [Dyn.encodeField, h, emitBy]
  · intro i a h1 h2
    simp [Dyn.encodeField, h1, h2, emitBy]

end H3.GenAgree.Qpack
