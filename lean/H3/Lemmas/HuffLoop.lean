import H3.Lemmas.HuffDec
/-! The decoding loop of the model (`decodeAll`, `hdecodeX`) against the RFC's code: what it
    accepts is a code-word concatenation followed by a tail, and the ghost flag says whether that
    tail is a valid padding. -/
namespace H3.Huffman
open H3.Bits H3.Spec.Huffman
open H3.Gen.HuffDec (Level Entry root)

/-! ### facts about the generated tree (kernel evaluation) -/

/-- every path of the generated tree is the RFC code word of the byte it leads to -/
theorem root_paths : (pathsL root).all (fun ps => decide (ps.2 < 256) && (codeOf ps.2 == ps.1)) = true := by
  decide +kernel

/-- every byte's RFC code word leads to that byte -/
theorem root_walk_code : ∀ s < 256, walkL root (codeOf s) = .sym s [] := by decide +kernel

def isShortOnes : WalkRes → Bool
  | .short q => q.all (· == true) && decide (q.length ≤ 8)
  | _ => false

/-- up to seven ones are not a symbol: the walk runs out of bits, with only ones left -/
theorem root_walk_ones : ∀ n < 8, isShortOnes (walkL root (List.replicate n true)) = true := by
  decide +kernel

theorem codeOf_nonempty : ∀ s < 256, 1 ≤ (codeOf s).length := by decide +kernel

theorem root_path_mem (p : List Bool) (s : Nat) (h : (p, s) ∈ pathsL root) :
    s < 256 ∧ codeOf s = p := by
  have := List.all_eq_true.mp root_paths (p, s) h
  simpa using this

/-! ### one symbol -/

theorem drop_of_split (bits t p rest : List Bool) (n m : Nat) (ht : bits.drop n = t)
    (hsplit : t = p ++ rest) (hm : m + rest.length = bits.length) (hn : n ≤ bits.length) :
    bits.drop m = rest := by
  have hl : t.length = bits.length - n := by rw [← ht]; simp
  have hm' : m = n + p.length := by
    rw [hsplit] at hl; simp at hl; omega
  rw [hm', ← List.drop_drop, ht, hsplit, List.drop_left]

/-- a `sym` step: the bits at the cursor start with the symbol's RFC code word, and the new
    cursor is just behind it -/
theorem step_sym (inp : List Nat) (hinp : WF inp) (w w' : BitWindow) (x : Nat)
    (hpos : w.endPos ≤ 8 * inp.length) (h : decodeNext root w inp = (w', .sym x)) :
    x < 256 ∧ w'.endPos ≤ 8 * inp.length ∧ w.endPos < w'.endPos ∧
    (bitsOf inp).drop w.endPos = codeOf x ++ (bitsOf inp).drop w'.endPos := by
  have hb := bridgeL inp hinp root w hpos
  rw [h] at hb
  cases hw : walkL root ((bitsOf inp).drop w.endPos) with
  | sym s rest =>
    rw [hw] at hb
    obtain ⟨h1, h2⟩ := hb
    simp only at h1 h2
    cases h1
    obtain ⟨p, hp, ht⟩ := walkL_path root _ _ _ hw
    obtain ⟨hx, hc⟩ := root_path_mem p x hp
    have hd := drop_of_split (bitsOf inp) _ p rest w.endPos w'.endPos rfl ht (by simpa using h2)
      (by simpa using hpos)
    have hpl := codeOf_nonempty x hx
    have htl : ((bitsOf inp).drop w.endPos).length = 8 * inp.length - w.endPos := by simp
    rw [ht] at htl
    simp at htl
    refine ⟨hx, by omega, ?_, ?_⟩
    · rw [hc] at hpl; omega
    · rw [hd, hc]; exact ht
  | short q =>
    rw [hw] at hb
    obtain ⟨h1, h2, _⟩ := hb
    cases hq : eofOK q
    · obtain ⟨_, h⟩ := h2 hq; simp at h
    · have := h1 hq; simp at this
  | unhandled =>
    rw [hw] at hb
    obtain ⟨_, _, h⟩ := hb; simp at h

/-- conversely: if the bits at the cursor start with a byte's code word, the step yields it -/
theorem step_code (inp : List Nat) (hinp : WF inp) (w : BitWindow) (x : Nat) (r : List Bool)
    (hpos : w.endPos ≤ 8 * inp.length) (hx : x < 256)
    (h : (bitsOf inp).drop w.endPos = codeOf x ++ r) :
    ∃ w', decodeNext root w inp = (w', .sym x) ∧ w'.endPos ≤ 8 * inp.length ∧
      (bitsOf inp).drop w'.endPos = r := by
  have hb := bridgeL inp hinp root w hpos
  have hw := walkL_append root _ x [] r (root_walk_code x hx)
  rw [h, hw] at hb
  obtain ⟨h1, h2⟩ := hb
  simp only [List.nil_append] at h1 h2
  refine ⟨(decodeNext root w inp).1, ?_, by omega, ?_⟩
  · rw [← h1]
  · exact drop_of_split (bitsOf inp) _ (codeOf x) r w.endPos _ h rfl (by simpa using h2)
      (by simpa using hpos)

/-- a `done` step happens only by running out of bits -/
theorem step_pad (inp : List Nat) (hinp : WF inp) (w : BitWindow) (pad : List Bool)
    (hpos : w.endPos ≤ 8 * inp.length) (h : (bitsOf inp).drop w.endPos = pad)
    (hp : validPad pad = true) : (decodeNext root w inp).2 = .done := by
  have hb := bridgeL inp hinp root w hpos
  rw [h] at hb
  simp only [validPad, Bool.and_eq_true, decide_eq_true_eq] at hp
  have hrep : pad = List.replicate pad.length true := by
    rw [List.eq_replicate_iff]
    refine ⟨rfl, fun b hb => ?_⟩
    have := List.all_eq_true.mp hp.2 b hb
    simpa using this
  have hones := root_walk_ones pad.length (by omega)
  rw [← hrep] at hones
  cases hw : walkL root pad with
  | sym s rest => rw [hw] at hones; simp [isShortOnes] at hones
  | unhandled => rw [hw] at hones; simp [isShortOnes] at hones
  | short q =>
    rw [hw] at hones hb
    simp only [isShortOnes, Bool.and_eq_true, decide_eq_true_eq] at hones
    apply hb.1
    simp only [eofOK, Bool.or_eq_true, Bool.and_eq_true, decide_eq_true_eq]
    exact Or.inr ⟨hones.2, hones.1⟩

/-! ### the loop -/

theorem decodeAll_succ (fuel : Nat) (w : BitWindow) (inp : List Nat) :
    decodeAll root (fuel + 1) w inp =
      match decodeNext root w inp with
      | (w', .sym s) =>
        match decodeAll root fuel w' inp with
        | .ok (r, lax) => .ok (s :: r, lax)
        | .error e => .error e
      | (w', .done) => .ok ([], laxAt inp w.endPos w')
      | (_, .err e) => .error e := by
  rw [decodeAll]
  rcases decodeNext root w inp with ⟨w', st⟩
  cases st <;> rfl

theorem padOK_eq (inp : List Nat) (pos : Nat) : padOK inp pos = validPad ((bitsOf inp).drop pos) := rfl

/-- on an accepting run the flag computed from `check_eof`'s window is "the bits behind the last complete symbol
    are not a valid padding" -/
theorem laxAt_eq (inp : List Nat) (hinp : WF inp) (w w' : BitWindow) (hpos : w.endPos ≤ 8 * inp.length)
    (h : decodeNext root w inp = (w', .done)) : laxAt inp w.endPos w' = !padOK inp w.endPos := by
  have hb := bridgeL inp hinp root w hpos
  rw [h] at hb
  cases hw : walkL root ((bitsOf inp).drop w.endPos) with
  | sym s rest => rw [hw] at hb; obtain ⟨h1, _⟩ := hb; simp at h1
  | unhandled => rw [hw] at hb; obtain ⟨_, _, h1⟩ := hb; simp at h1
  | short q =>
    rw [hw] at hb
    obtain ⟨_, h2, h3⟩ := hb
    simp only at h2 h3
    have hq : eofOK q = true := by
      cases hq : eofOK q
      · obtain ⟨_, h'⟩ := h2 hq; simp at h'
      · rfl
    obtain ⟨c, hc⟩ := walkL_short_suffix root _ q hw
    have hlen : ((bitsOf inp).drop w.endPos).length = 8 * inp.length - w.endPos := by simp
    have hcl : c.length = 8 * w'.byte + w'.bit - w.endPos := by
      have := congrArg List.length hc
      rw [hlen, List.length_append] at this; omega
    have hql : q.length = 8 * inp.length - (8 * w'.byte + w'.bit) := by omega
    have hqones : q.all (· == true) = true := by
      simp only [eofOK, Bool.or_eq_true, Bool.and_eq_true, List.isEmpty_iff] at hq
      rcases hq with rfl | ⟨_, h⟩
      · rfl
      · exact h
    unfold laxAt
    simp only []
    rw [padOK_eq, hc, ← hcl, List.take_left' rfl, ← hql, validPad, List.length_append, List.all_append, hqones,
      Bool.and_true]
    cases hall : c.all (· == true)
    · rw [List.all_eq_false] at hall
      obtain ⟨x, hx, hne⟩ := hall
      have hx' : false ∈ c := by cases x <;> simp_all
      simp [hx']
    · have : c.any (· == false) = false := by
        rw [List.any_eq_false]
        intro x hx
        have := List.all_eq_true.mp hall x hx
        cases x <;> simp_all
      rw [this]
      by_cases h7 : c.length + q.length ≤ 7
      · simp [h7] <;> omega
      · simp [h7] <;> omega

theorem decodeAll_sound (inp : List Nat) (hinp : WF inp) : ∀ (fuel : Nat) (w : BitWindow)
    (s : List Nat) (lax : Bool), w.endPos ≤ 8 * inp.length →
    decodeAll root fuel w inp = .ok (s, lax) →
    (∀ x ∈ s, x < 256) ∧ ∃ tail, (bitsOf inp).drop w.endPos = enc s ++ tail ∧ lax = !validPad tail := by
  intro fuel
  induction fuel with
  | zero => intro w s lax _ h; simp [decodeAll] at h
  | succ fuel ih =>
    intro w s lax hpos h
    rw [decodeAll_succ] at h
    rcases hres : decodeNext root w inp with ⟨w', st⟩
    rw [hres] at h
    cases st with
    | sym x =>
      simp only at h
      obtain ⟨hx, hpos', _, hd⟩ := step_sym inp hinp w w' x hpos hres
      cases hrec : decodeAll root fuel w' inp with
      | error e => rw [hrec] at h; simp at h
      | ok v =>
        obtain ⟨r, lax'⟩ := v
        rw [hrec] at h
        simp only [Except.ok.injEq, Prod.mk.injEq] at h
        obtain ⟨rfl, rfl⟩ := h
        obtain ⟨hr, tail, ht, hl⟩ := ih w' r lax' hpos' hrec
        refine ⟨?_, tail, ?_, hl⟩
        · intro y hy
          rcases List.mem_cons.mp hy with rfl | hy
          · exact hx
          · exact hr y hy
        · rw [hd, ht, enc, List.append_assoc]
    | done =>
      simp only [Except.ok.injEq, Prod.mk.injEq] at h
      obtain ⟨rfl, rfl⟩ := h
      exact ⟨by simp, (bitsOf inp).drop w.endPos, by simp [enc],
        by rw [laxAt_eq inp hinp w w' hpos hres, padOK_eq]⟩
    | err e => simp at h

theorem decodeAll_complete (inp : List Nat) (hinp : WF inp) : ∀ (s : List Nat) (fuel : Nat)
    (w : BitWindow) (pad : List Bool), w.endPos ≤ 8 * inp.length → (∀ x ∈ s, x < 256) →
    s.length < fuel → (bitsOf inp).drop w.endPos = enc s ++ pad → validPad pad = true →
    decodeAll root fuel w inp = .ok (s, false) := by
  intro s
  induction s with
  | nil =>
    intro fuel w pad hpos _ hf hd hp
    obtain ⟨f, rfl⟩ : ∃ f, fuel = f + 1 := ⟨fuel - 1, by simp at hf; omega⟩
    simp only [enc, List.nil_append] at hd
    have hdone := step_pad inp hinp w pad hpos hd hp
    rw [decodeAll_succ]
    rcases hres : decodeNext root w inp with ⟨w', st⟩
    rw [hres] at hdone
    simp only at hdone
    subst hdone
    simp only [laxAt_eq inp hinp w w' hpos hres, padOK_eq, hd, hp, Bool.not_true]
  | cons x s ih =>
    intro fuel w pad hpos hs hf hd hp
    obtain ⟨f, rfl⟩ : ∃ f, fuel = f + 1 := ⟨fuel - 1, by simp at hf; omega⟩
    have hx : x < 256 := hs x (by simp)
    rw [enc, List.append_assoc] at hd
    obtain ⟨w', hres, hpos', hd'⟩ := step_code inp hinp w x _ hpos hx hd
    rw [decodeAll_succ, hres]
    simp only
    rw [ih f w' pad hpos' (fun y hy => hs y (by simp [hy])) (by simp at hf; omega) hd' hp]

/-- the loop bound of the model is never reached -/
theorem decodeAll_fuel (inp : List Nat) (hinp : WF inp) : ∀ (fuel : Nat) (w : BitWindow),
    w.endPos ≤ 8 * inp.length → 8 * inp.length - w.endPos < fuel →
    decodeAll root fuel w inp ≠ .error .fuel := by
  intro fuel
  induction fuel with
  | zero => intro w _ h; omega
  | succ fuel ih =>
    intro w hpos hf
    rw [decodeAll_succ]
    rcases hres : decodeNext root w inp with ⟨w', st⟩
    cases st with
    | sym x =>
      simp only
      obtain ⟨_, hpos', hlt, _⟩ := step_sym inp hinp w w' x hpos hres
      have := ih w' hpos' (by omega)
      cases hrec : decodeAll root fuel w' inp with
      | error e => rw [hrec] at this; simp only; intro h; cases h; exact this rfl
      | ok v => simp
    | done => simp
    | err e =>
      simp only
      have hb := bridgeL inp hinp root w hpos
      rw [hres] at hb
      intro h; cases h
      cases hw : walkL root ((bitsOf inp).drop w.endPos) with
      | sym s rest => rw [hw] at hb; obtain ⟨h1, _⟩ := hb; simp at h1
      | short q =>
        rw [hw] at hb
        obtain ⟨h1, h2, _⟩ := hb
        cases hq : eofOK q
        · obtain ⟨_, h⟩ := h2 hq; simp at h
        · have := h1 hq; simp at this
      | unhandled => rw [hw] at hb; obtain ⟨_, _, h⟩ := hb; simp at h

theorem length_enc_ge (s : List Nat) (hs : ∀ x ∈ s, x < 256) : s.length ≤ (enc s).length := by
  induction s with
  | nil => simp
  | cons x s ih =>
    have := codeOf_nonempty x (hs x (by simp))
    have := ih (fun y hy => hs y (by simp [hy]))
    simp [enc]; omega

/-! ### `hdecodeX` -/

theorem hdecodeX_sound (b : List Nat) (hb : WF b) (s : List Nat) (lax : Bool)
    (h : hdecodeX b = .ok (s, lax)) :
    (∀ x ∈ s, x < 256) ∧ ∃ tail, bitsOf b = enc s ++ tail ∧ lax = !validPad tail := by
  have := decodeAll_sound b hb _ ⟨0, 0, 0⟩ s lax (by simp [BitWindow.endPos]) h
  simpa [BitWindow.endPos] using this

theorem hdecodeX_complete (b : List Nat) (hb : WF b) (s : List Nat) (pad : List Bool)
    (hs : ∀ x ∈ s, x < 256) (h : bitsOf b = enc s ++ pad) (hp : validPad pad = true) :
    hdecodeX b = .ok (s, false) := by
  apply decodeAll_complete b hb s _ ⟨0, 0, 0⟩ pad (by simp [BitWindow.endPos]) hs
  · have h1 := length_enc_ge s hs
    have h2 := congrArg List.length h
    simp at h2; omega
  · simpa [BitWindow.endPos] using h
  · exact hp

theorem hdecodeX_ne_fuel (b : List Nat) (hb : WF b) : hdecodeX b ≠ .error .fuel :=
  decodeAll_fuel b hb _ ⟨0, 0, 0⟩ (by simp [BitWindow.endPos]) (by simp [BitWindow.endPos])

end H3.Huffman
