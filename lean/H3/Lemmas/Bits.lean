import H3.Model.Bits
/-! Lemmas about bit strings of numbers and byte strings (`H3.Bits`). -/
namespace H3.Bits

@[simp] theorem length_bitsN (n x : Nat) : (bitsN n x).length = n := by
  induction n with
  | zero => rfl
  | succ n ih => simp [bitsN, ih]

theorem val_lt (l : List Bool) : val l < 2 ^ l.length := by
  induction l with
  | nil => simp [val]
  | cons b r ih =>
    simp only [val, List.length_cons, Nat.pow_succ]
    cases b <;> simp <;> omega

theorem val_append (a b : List Bool) : val (a ++ b) = val a * 2 ^ b.length + val b := by
  induction a with
  | nil => simp [val]
  | cons x a ih =>
    simp only [List.cons_append, val, ih, List.length_append, Nat.pow_add]
    rw [Nat.add_mul, Nat.mul_assoc, Nat.add_assoc]

theorem val_bitsN (n x : Nat) : val (bitsN n x) = x % 2 ^ n := by
  induction n with
  | zero => simp [bitsN, val, Nat.mod_one]
  | succ n ih =>
    simp only [bitsN, val, ih, length_bitsN]
    have h2 : x % 2 ^ (n + 1) = (x / 2 ^ n % 2) * 2 ^ n + x % 2 ^ n := by
      rw [Nat.pow_succ, Nat.mod_mul, Nat.add_comm, Nat.mul_comm]
    rw [h2]
    have : x / 2 ^ n % 2 = 0 ∨ x / 2 ^ n % 2 = 1 := by omega
    rcases this with h | h <;> simp [h]

theorem bitsN_congr (n x y : Nat) (h : x % 2 ^ n = y % 2 ^ n) : bitsN n x = bitsN n y := by
  induction n with
  | zero => rfl
  | succ n ih =>
    have hn : x % 2 ^ n = y % 2 ^ n := by
      have := congrArg (· % 2 ^ n) h
      simpa [Nat.pow_succ, Nat.mod_mul_right_mod] using this
    have hb : x / 2 ^ n % 2 = y / 2 ^ n % 2 := by
      have hx : x % 2 ^ (n + 1) = (x / 2 ^ n % 2) * 2 ^ n + x % 2 ^ n := by
        rw [Nat.pow_succ, Nat.mod_mul, Nat.add_comm, Nat.mul_comm]
      have hy : y % 2 ^ (n + 1) = (y / 2 ^ n % 2) * 2 ^ n + y % 2 ^ n := by
        rw [Nat.pow_succ, Nat.mod_mul, Nat.add_comm, Nat.mul_comm]
      rw [hx, hy, hn] at h
      have hp : 0 < 2 ^ n := Nat.two_pow_pos _
      have := Nat.add_right_cancel h
      exact Nat.eq_of_mul_eq_mul_right hp this
    simp [bitsN, hb, ih hn]

theorem bitsN_mod (n x : Nat) : bitsN n (x % 2 ^ n) = bitsN n x :=
  bitsN_congr _ _ _ (Nat.mod_mod _ _)

theorem bitsN_add (m n x : Nat) : bitsN (m + n) x = bitsN m (x / 2 ^ n) ++ bitsN n x := by
  induction m with
  | zero => simp [bitsN]
  | succ m ih =>
    have : m + 1 + n = (m + n) + 1 := by omega
    rw [this]
    simp only [bitsN, ih, List.cons_append]
    congr 2
    rw [Nat.div_div_eq_div_mul, ← Nat.pow_add, Nat.add_comm]

theorem bitsN_val (l : List Bool) : bitsN l.length (val l) = l := by
  induction l with
  | nil => rfl
  | cons b r ih =>
    simp only [List.length_cons, bitsN, val]
    have hr := val_lt r
    have h1 : (b.toNat * 2 ^ r.length + val r) / 2 ^ r.length = b.toNat := by
      rw [Nat.add_comm, Nat.add_mul_div_right _ _ (Nat.two_pow_pos _),
        Nat.div_eq_of_lt hr, Nat.zero_add]
    rw [h1]
    congr 1
    · cases b <;> simp
    · have : bitsN r.length (b.toNat * 2 ^ r.length + val r) = bitsN r.length (val r) := by
        apply bitsN_congr
        rw [Nat.add_comm, Nat.add_mul_mod_self_right]
      rw [this, ih]

/-- `l` bits starting at bit `i` of an `n`-bit number -/
theorem take_drop_bitsN (n i l x : Nat) (h : i + l ≤ n) :
    ((bitsN n x).drop i).take l = bitsN l (x / 2 ^ (n - i - l)) := by
  have e1 : n = i + (l + (n - i - l)) := by omega
  have : bitsN n x = bitsN i (x / 2 ^ (l + (n - i - l))) ++
      (bitsN l (x / 2 ^ (n - i - l)) ++ bitsN (n - i - l) x) := by
    conv => lhs; rw [e1]
    rw [bitsN_add, bitsN_add]
  rw [this, List.drop_append_of_le_length (by simp), List.drop_of_length_le (by simp)]
  simp

theorem val_take_drop_bitsN (n i l x : Nat) (h : i + l ≤ n) :
    val (((bitsN n x).drop i).take l) = x / 2 ^ (n - i - l) % 2 ^ l := by
  rw [take_drop_bitsN n i l x h, val_bitsN]

theorem val_eq_ones_iff (l : List Bool) : val l = 2 ^ l.length - 1 ↔ l.all (· == true) = true := by
  induction l with
  | nil => simp [val]
  | cons b r ih =>
    have hr := val_lt r
    have hp : 0 < 2 ^ r.length := Nat.two_pow_pos _
    simp only [val, List.length_cons, Nat.pow_succ, List.all_cons, Bool.and_eq_true, ← ih]
    cases b <;> simp <;> omega

@[simp] theorem length_bitsOf (bs : List Nat) : (bitsOf bs).length = 8 * bs.length := by
  induction bs with
  | nil => rfl
  | cons b r ih => simp [bitsOf, ih]; omega

theorem bitsOf_append (a b : List Nat) : bitsOf (a ++ b) = bitsOf a ++ bitsOf b := by
  induction a with
  | nil => rfl
  | cons x a ih => simp [bitsOf, ih]

theorem drop_bitsOf (bs : List Nat) (i : Nat) : (bitsOf bs).drop (8 * i) = bitsOf (bs.drop i) := by
  induction i generalizing bs with
  | zero => simp
  | succ i ih =>
    cases bs with
    | nil => simp [bitsOf]
    | cons b r =>
      have : 8 * (i + 1) = 8 + 8 * i := by omega
      rw [this, bitsOf, ← List.drop_drop, List.drop_left' (length_bitsN 8 b), ih]
      simp

theorem bitsN8_pair (a b : Nat) (hb : b < 256) :
    bitsN 8 a ++ bitsN 8 b = bitsN 16 (a * 256 + b) := by
  have := bitsN_add 8 8 (a * 256 + b)
  rw [this]
  congr 1
  · congr 1; omega
  · apply bitsN_congr; omega

end H3.Bits
