import H3.Lemmas.FrameStreamReach
import H3.Lemmas.C04
/-! Helper lemma for C19 (`payload_after_header`), generic in the frame decoder: on a byte
    string `hdr ++ payload` whose header the decoder answers with a *raw* frame (WebTransport:
    the rest of the stream is payload) consuming exactly `hdr`, the only prefix on which the
    reference automaton emits exactly one frame token is the header itself.  A proper prefix
    of the header emits nothing (L2), the header emits the frame and enters data mode, every
    further byte emits a `.byte` token. -/
namespace H3.FS
variable {F E : Type}

theorem take_of_append_eq {α : Type} {a b c d : List α} (h : a ++ b = c ++ d)
    (hle : a.length ≤ c.length) : a = c.take a.length := by
  have h1 := congrArg (List.take a.length) h
  rw [List.take_left, List.take_append_of_le_length hle] at h1
  exact h1

theorem split_of_append_eq {α : Type} {a b c d : List α} (h : a ++ b = c ++ d)
    (hge : c.length ≤ a.length) : a = c ++ d.take (a.length - c.length) := by
  have h1 := congrArg (List.take a.length) h
  rw [List.take_left, List.take_append] at h1
  rw [List.take_of_length_le hge] at h1
  exact h1

/-- the only prefix of `hdr ++ payload` on which the automaton has emitted exactly one frame
    token is `hdr` -/
theorem run_raw_header_prefix (D : Dec F E) (L : Laws D) (hdr payload consumed rest : Bytes) (f g : F)
    (hdec : ∀ p, D.dec (hdr ++ p) = .frame f hdr.length)
    (hraw : payload.length ≤ (D.kind f).rem)
    (hsplit : consumed ++ rest = hdr ++ payload)
    (p : PSt) (hrun : run D (.hdr []) consumed = (p, [.frame g])) :
    consumed = hdr ∧ g = f := by
  have hd0 : D.dec hdr = .frame f hdr.length := by simpa using hdec []
  have hpos0 : (D.dec hdr).pos? = some hdr.length := by rw [hd0]; rfl
  rcases Nat.lt_or_ge consumed.length hdr.length with hlt | hge
  · -- a proper prefix of the header: nothing is emitted
    exfalso
    have hc : ∀ i, i ≤ consumed.length → consumed.take i = hdr.take i := by
      intro i hi
      have h1 := congrArg (List.take i) hsplit
      rwa [List.take_append_of_le_length hi, List.take_append_of_le_length (by omega)] at h1
    have hmin := (L.minimal hdr hdr.length hpos0).1
    have hr := run_hdr_incomplete D consumed (by
      intro i hi _
      rw [hc i hi]
      exact hmin i (by omega))
    rw [hr] at hrun
    cases hrun
  · have hc : consumed = hdr ++ payload.take (consumed.length - hdr.length) :=
      split_of_append_eq hsplit hge
    generalize payload.take (consumed.length - hdr.length) = d at hc
    have hdl : d.length ≤ (D.kind f).rem := by
      have h1 : d.length ≤ payload.length := by
        have := congrArg List.length hsplit
        rw [hc] at this
        simp only [List.length_append] at this
        omega
      omega
    subst hc
    have hpos : (D.dec (hdr ++ d)).pos? = some hdr.length := by rw [hdec d]; rfl
    have hr := run_of_pos D L (hdr ++ d) hdr.length hpos
    rw [hdec d] at hr
    simp only [DecRes.fed, List.drop_left] at hr
    rw [hr] at hrun
    by_cases h0 : (D.kind f).rem = 0
    · have : d = [] := List.eq_nil_of_length_eq_zero (by omega)
      subst this
      simp only [run, List.append_nil, Prod.mk.injEq, List.cons.injEq, Tok.frame.injEq, and_true] at hrun
      exact ⟨by simp, hrun.2.symm⟩
    · rw [PSt.ofRem_pos h0, run_data D d _ h0 hdl] at hrun
      simp only [Prod.mk.injEq, List.singleton_append, List.cons.injEq, Tok.frame.injEq,
        List.map_eq_nil_iff] at hrun
      obtain ⟨_, hfg, hd⟩ := hrun
      subst hd
      exact ⟨by simp, hfg.symm⟩

theorem PSt.ofRem_inj {a b : Nat} (h : PSt.ofRem a = PSt.ofRem b) : a = b := by
  unfold PSt.ofRem at h
  split at h <;> split at h
  · omega
  · cases h
  · cases h
  · simpa using h

/-- the chunks a script still delivers, one list element per `poll_data` answer -/
def evChunks : List Ev → List Bytes
  | [] => []
  | .chunk b :: r => b :: evChunks r
  | _ :: r => evChunks r

theorem evChunks_flatten (sc : List Ev) : (evChunks sc).flatten = evBytes sc := by
  induction sc with
  | nil => rfl
  | cons e r ih => cases e <;> simp [evChunks, evBytes, ih]

end H3.FS

namespace H3.Lemmas.C04
open H3.UniAccept

/-- the chunks the transport delivers before the stream ends (cf. `bytesOf`) -/
def chunksBeforeEnd : List Ev → List (List Nat)
  | [] => []
  | .chunk b :: r => b :: chunksBeforeEnd r
  | .pend :: r => chunksBeforeEnd r
  | .fin :: _ => []
  | .reset _ :: _ => []

theorem chunksBeforeEnd_flatten (sc : List Ev) : (chunksBeforeEnd sc).flatten = bytesOf sc := by
  induction sc with
  | nil => rfl
  | cons e r ih => cases e <;> simp [chunksBeforeEnd, bytesOf, ih]

/-- the chunks still to come for a stream in state `s` with the script `sc` left (cf. `future`) -/
def futureChunks (s : St) (sc : List Ev) : List (List Nat) :=
  if s.ended.isSome then [] else chunksBeforeEnd sc

theorem futureChunks_flatten (s : St) (sc : List Ev) : (futureChunks s sc).flatten = future s sc := by
  unfold futureChunks future
  split <;> simp [chunksBeforeEnd_flatten]

end H3.Lemmas.C04
