import H3.Model.FrameStream
/-! A faster way to EVALUATE the model of `FrameStream::poll_next` on long frames, proved equal to
    the model (`pollNextLoopF_eq`, `readerLoopF_eq`, `runCallsF_eq`), for the driver only.

    `pollNextLoop` flattens the whole buffer after every chunk before it looks at the `expected`
    memo; on a 70 000-byte HEADERS frame delivered in 7-byte chunks that is 10 000 × 70 000 list
    cells.  The fast version looks at the memo first (sum of the chunk lengths, no flattening) — which
    is what `FrameDecoder::decode` does (`if src.remaining() < min { return Ok(None) }`) — and only
    otherwise runs the model's step.  Theorems are stated about the model; the driver runs the fast
    version and this file says the two are the same function. -/
namespace H3.FS

/-- `BufList::remaining` -/
def bufLen (buf : List Bytes) : Nat := buf.foldl (fun a c => a + c.length) 0

theorem foldl_len (buf : List Bytes) (a : Nat) :
    buf.foldl (fun a c => a + c.length) a = a + buf.flatten.length := by
  induction buf generalizing a with
  | nil => simp
  | cons c cs ih => simp [List.foldl_cons, ih, Nat.add_assoc]

theorem bufLen_eq (buf : List Bytes) : bufLen buf = buf.flatten.length := by
  simp [bufLen, foldl_len]

variable {F E : Type}

theorem decLoop_blocked (D : Dec F E) (fuel : Nat) (flat : Bytes) (exp : Option Nat)
    (h : expBlocks exp flat.length = true) : decLoop D (fuel + 1) flat exp 0 = .none 0 exp := by
  unfold decLoop
  split <;> first | rfl | simp [h]

theorem advance_zero (buf : List Bytes) : advance 0 buf = buf := by
  unfold advance; rfl

/-- `pollNextLoop`, asking the memo before flattening the buffer -/
def pollNextLoopF (D : Dec F E) : St → List Ev → Out F E × St × List Ev
  | s, [] => pollNextLoop D s []
  | s, .chunk b :: r =>
    if s.eos then pollNextLoop D s (.chunk b :: r)
    else if expBlocks (s.push b).expected (bufLen (s.push b).buf) then pollNextLoopF D (s.push b) r
    else
      match afterRecv D (s.push b) .more with
      | some (o, s') => (o, s', r)
      | none =>
        match decLoop D ((s.push b).flat.length + 1) (s.push b).flat (s.push b).expected 0 with
        | .none d exp => pollNextLoopF D { (s.push b) with buf := advance d (s.push b).buf, expected := exp } r
        | _ => (.pending, s.push b, r)
  | s, e :: r => pollNextLoop D s (e :: r)

theorem pollNextLoopF_eq (D : Dec F E) (s : St) (script : List Ev) :
    pollNextLoopF D s script = pollNextLoop D s script := by
  induction script generalizing s with
  | nil => rfl
  | cons e r ih =>
    cases e with
    | pend => rfl
    | fin => rfl
    | reset c => rfl
    | chunk b =>
      unfold pollNextLoopF
      by_cases he : s.eos = true
      · rw [if_pos he]
      · rw [if_neg he]
        conv => rhs; unfold pollNextLoop
        rw [if_neg he]
        simp only
        by_cases hb : expBlocks (s.push b).expected (bufLen (s.push b).buf) = true
        · rw [if_pos hb, ih]
          have hb' : expBlocks (s.push b).expected (s.push b).flat.length = true := by
            rw [St.flat, ← bufLen_eq]; exact hb
          have hd := decLoop_blocked D (s.push b).flat.length (s.push b).flat (s.push b).expected hb'
          have ha : afterRecv D (s.push b) .more = none := by
            unfold afterRecv; rw [hd]
          rw [ha]
          simp only [hd, advance_zero]
        · rw [if_neg hb]
          cases afterRecv D (s.push b) .more with
          | some p => rfl
          | none =>
            simp only
            cases decLoop D ((s.push b).flat.length + 1) (s.push b).flat (s.push b).expected 0 with
            | none d exp => simp only [ih]
            | frame d f => rfl
            | error d exp e => rfl

def pollNextF (D : Dec F E) (s : St) (script : List Ev) : Out F E × St × List Ev :=
  if s.remaining ≠ 0 then (.panic, s, script) else pollNextLoopF D s script

theorem pollNextF_eq (D : Dec F E) (s : St) (script : List Ev) :
    pollNextF D s script = pollNext D s script := by
  unfold pollNextF pollNext; rw [pollNextLoopF_eq]

/-- `runCalls` over `pollNextF` -/
def runCallsF : St → List Ev → List Call → List FOut
  | _, _, [] => []
  | s, script, c :: cs =>
    match c with
    | .next =>
      let (o, s', r) := pollNextF frameDec s script
      match o with
      | .frame _ => o :: runCallsF s' r cs
      | .pending => o :: runCallsF s' r cs
      | _ => [o]
    | .data =>
      let (o, s', r) := pollData (F := H3.Frame.Frame) (E := H3.Frame.FrameErr) s script
      match o with
      | .data _ => o :: runCallsF s' r cs
      | .pending => o :: runCallsF s' r cs
      | .none => o :: runCallsF s' r cs
      | _ => [o]

theorem runCallsF_eq (s : St) (script : List Ev) (calls : List Call) :
    runCallsF s script calls = runCalls s script calls := by
  induction calls generalizing s script with
  | nil => rfl
  | cons c cs ih =>
    cases c with
    | next =>
      simp only [runCallsF, runCalls, pollNextF_eq]
      generalize pollNext frameDec s script = res
      obtain ⟨o, s', r⟩ := res
      cases o <;> simp only [ih]
    | data =>
      simp only [runCallsF, runCalls]
      generalize pollData (F := H3.Frame.Frame) (E := H3.Frame.FrameErr) s script = res
      obtain ⟨o, s', r⟩ := res
      cases o <;> simp only [ih]

/-- `readerLoop` over `pollNextF` -/
def readerLoopF : Nat → St → List Ev → List FOut
  | 0, _, _ => []
  | fuel+1, s, script =>
    if s.remaining ≠ 0 then
      let (o, s', r) := pollData (F := H3.Frame.Frame) (E := H3.Frame.FrameErr) s script
      match o with
      | .data _ => o :: readerLoopF fuel s' r
      | .pending => if script.isEmpty then [o] else readerLoopF fuel s' r
      | _ => [o]
    else
      let (o, s', r) := pollNextF frameDec s script
      match o with
      | .frame _ => o :: readerLoopF fuel s' r
      | .pending => if script.isEmpty then [o] else readerLoopF fuel s' r
      | _ => [o]

theorem readerLoopF_eq (fuel : Nat) (s : St) (script : List Ev) :
    readerLoopF fuel s script = readerLoop fuel s script := by
  induction fuel generalizing s script with
  | zero => rfl
  | succ n ih =>
    simp only [readerLoopF, readerLoop, pollNextF_eq]
    split
    · generalize pollData (F := H3.Frame.Frame) (E := H3.Frame.FrameErr) s script = res
      obtain ⟨o, s', r⟩ := res
      cases o <;> simp only [ih]
    · generalize pollNext frameDec s script = res
      obtain ⟨o, s', r⟩ := res
      cases o <;> simp only [ih]

end H3.FS
