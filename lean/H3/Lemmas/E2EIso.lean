import H3.Model.E2E
/-! Interleavings on the receive side.  The request streams of a connection share one thing in
    the receive model: the connection error cell (`SharedState.connection_error`, first error
    wins).  Every receive call touches it only on the way to answering a connection error.  So as
    long as no call answers a connection error — in particular while valid messages are being
    received — each stream's calls see exactly what they would see if that stream were alone,
    however the polls of the tasks are interleaved. -/
namespace H3.E2E
open H3.ReqRecv

def isErrConn : Res → Bool
  | .errConn _ => true
  | _ => false

section cell
variable {σ : Type}

theorem connErr_isErr (st : St σ) (c : Nat) : isErrConn (connErr st c).1 = true := by
  unfold connErr; split <;> rfl

theorem fsErr_cell (st : St σ) (o : FOut) (h : isErrConn (fsErr st o).1 = false) :
    (fsErr st o).2.env.cell = st.env.cell := by
  cases o <;> simp only [fsErr] at h ⊢ <;> first | rfl | (rw [connErr_isErr] at h; cases h)

theorem pollResolve_cell (S : Src σ) (H : Hdr) (st : St σ)
    (h : isErrConn (pollResolve S H st).1 = false) :
    (pollResolve S H st).2.env.cell = st.env.cell := by
  unfold pollResolve at h ⊢
  generalize S.pollNext st.src = res at h ⊢
  obtain ⟨o, s'⟩ := res
  cases o with
  | frame f =>
    cases f with
    | headers enc =>
      simp only at h ⊢
      cases hh : H.head enc <;> simp only [hh] at h ⊢ <;>
        first | rfl | (rw [connErr_isErr] at h; cases h)
    | data _ | cancelPush _ | settings _ | pushPromise _ _ | goaway _ | maxPushId _ | webTransport _ =>
      simp only at h; rw [connErr_isErr] at h; cases h
  | none => rfl
  | pending => rfl
  | data _ | errProto _ | errEnd | errQuic _ | panic => exact fsErr_cell _ _ h

theorem pollRecvResponse_cell (S : Src σ) (H : Hdr) (st : St σ)
    (h : isErrConn (pollRecvResponse S H st).1 = false) :
    (pollRecvResponse S H st).2.env.cell = st.env.cell := by
  unfold pollRecvResponse at h ⊢
  generalize S.pollNext st.src = res at h ⊢
  obtain ⟨o, s'⟩ := res
  cases o with
  | frame f =>
    cases f with
    | headers enc =>
      simp only at h ⊢
      cases hh : H.head enc <;> simp only [hh] at h ⊢ <;>
        first | rfl | (rw [connErr_isErr] at h; cases h)
    | data _ | cancelPush _ | settings _ | pushPromise _ _ | goaway _ | maxPushId _ | webTransport _ =>
      simp only at h; rw [connErr_isErr] at h; cases h
  | none => rfl
  | pending => rfl
  | data _ | errProto _ | errEnd | errQuic _ | panic => exact fsErr_cell _ _ h

theorem dataOut_cell (st : St σ) (o : FOut) (h : isErrConn (dataOut st o).1 = false) :
    (dataOut st o).2.env.cell = st.env.cell := by
  cases o <;> simp only [dataOut] at h ⊢ <;> first | rfl | exact fsErr_cell _ _ h

theorem pollRecvData_cell (S : Src σ) : ∀ (fuel : Nat) (st : St σ),
    isErrConn (pollRecvData S fuel st).1 = false → (pollRecvData S fuel st).2.env.cell = st.env.cell := by
  intro fuel
  induction fuel with
  | zero => intro st _; rfl
  | succ fuel ih =>
    intro st h
    rw [pollRecvData] at h ⊢
    split at h
    · rename_i hd
      rw [if_pos hd]
      generalize S.pollData st.src = res at h ⊢
      obtain ⟨o, s'⟩ := res
      exact dataOut_cell _ _ h
    · rename_i hd
      rw [if_neg hd]
      generalize S.pollNext st.src = res at h ⊢
      obtain ⟨o, s'⟩ := res
      cases o with
      | frame f =>
        cases f with
        | headers enc => rfl
        | data n => exact ih _ h
        | cancelPush _ | settings _ | pushPromise _ _ | goaway _ | maxPushId _ | webTransport _ =>
          simp only at h; rw [connErr_isErr] at h; cases h
      | none => rfl
      | pending => rfl
      | data _ => rfl
      | errProto _ | errEnd | errQuic _ | panic => exact fsErr_cell _ _ h

theorem decodeTrailers_cell (H : Hdr) (st : St σ) (enc : Bytes)
    (h : isErrConn (decodeTrailers H st enc).1 = false) :
    (decodeTrailers H st enc).2.env.cell = st.env.cell := by
  unfold decodeTrailers at h ⊢
  cases hh : H.trailer enc <;> simp only [hh] at h ⊢ <;>
    first | rfl | (rw [connErr_isErr] at h; cases h)

theorem trailersCheck_cell (S : Src σ) (H : Hdr) (st : St σ) (enc : Bytes)
    (h : isErrConn (trailersCheck S H st enc).1 = false) :
    (trailersCheck S H st enc).2.env.cell = st.env.cell := by
  unfold trailersCheck at h ⊢
  generalize S.pollNext st.src = res at h ⊢
  obtain ⟨o, s'⟩ := res
  cases o with
  | frame f => simp only at h; rw [connErr_isErr] at h; cases h
  | none => exact decodeTrailers_cell H _ enc h
  | pending => rfl
  | data _ => rfl
  | errProto _ | errEnd | errQuic _ | panic => exact fsErr_cell _ _ h

theorem trailersTail_cell (S : Src σ) (H : Hdr) (st : St σ) (enc : Bytes)
    (h : isErrConn (trailersTail S H st enc).1 = false) :
    (trailersTail S H st enc).2.env.cell = st.env.cell := by
  unfold trailersTail at h ⊢
  split at h
  · rename_i he; rw [if_pos he]; exact decodeTrailers_cell H st enc h
  · rename_i he; rw [if_neg he]; exact trailersCheck_cell S H st enc h

theorem pollRecvTrailers_cell (S : Src σ) (H : Hdr) (st : St σ)
    (h : isErrConn (pollRecvTrailers S H st).1 = false) :
    (pollRecvTrailers S H st).2.env.cell = st.env.cell := by
  unfold pollRecvTrailers at h ⊢
  cases ht : st.trailers with
  | some enc =>
    simp only [ht] at h ⊢
    exact trailersTail_cell S H _ enc h
  | none =>
    simp only [ht] at h ⊢
    unfold trailersFirst at h ⊢
    generalize S.pollNext st.src = res at h ⊢
    obtain ⟨o, s'⟩ := res
    cases o with
    | frame f =>
      cases f with
      | headers enc => exact trailersTail_cell S H _ enc h
      | data _ | cancelPush _ | settings _ | pushPromise _ _ | goaway _ | maxPushId _ | webTransport _ =>
        simp only at h; rw [connErr_isErr] at h; cases h
    | none => rfl
    | pending => rfl
    | data _ => rfl
    | errProto _ | errEnd | errQuic _ | panic => exact fsErr_cell _ _ h

end cell

/-- **The error cell is written only on the way to a connection error**: a poll of any receive
    call that answers anything else leaves the cell as it found it. -/
theorem poll_cell (H : Hdr) (call : RCall) (st : St FSt)
    (h : isErrConn (call.poll H st).1 = false) : (call.poll H st).2.env.cell = st.env.cell := by
  cases call with
  | head role =>
    cases role
    · exact pollResolve_cell fsSrc H st h
    · exact pollRecvResponse_cell fsSrc H st h
  | data => exact pollRecvData_cell fsSrc _ st h
  | trailers => exact pollRecvTrailers_cell fsSrc H st h

/-! ### the receive side of a connection as a product -/

/-- what one request stream owns on the receive side: its `FrameStream` with the transport events
    still to come, the remembered trailers, the reset / stop codes it has sent -/
structure Comp where
  src : FSt
  trailers : Option Bytes := none
  rst : Option Nat := none
  stop : Option Nat := none

def Comp.toSt (c : Comp) (cell : Option Nat) : St FSt :=
  { src := c.src, trailers := c.trailers, env := { cell := cell, rst := c.rst, stop := c.stop } }

def Comp.ofSt (st : St FSt) : Comp :=
  { src := st.src, trailers := st.trailers, rst := st.env.rst, stop := st.env.stop }

/-- one poll of a call on one component, given the cell: answer, cell afterwards, component -/
def pollComp (H : Hdr) (cell : Option Nat) (c : Comp) (call : RCall) : Res × Option Nat × Comp :=
  ((call.poll H (c.toSt cell)).1, (call.poll H (c.toSt cell)).2.env.cell,
    Comp.ofSt (call.poll H (c.toSt cell)).2)

/-- a stream alone: its calls polled one after the other -/
def isolated (H : Hdr) : Option Nat → Comp → List RCall → List Res × Option Nat × Comp
  | cell, c, [] => ([], cell, c)
  | cell, c, call :: r =>
    ((pollComp H cell c call).1 :: (isolated H (pollComp H cell c call).2.1 (pollComp H cell c call).2.2 r).1,
     (isolated H (pollComp H cell c call).2.1 (pollComp H cell c call).2.2 r).2)

/-- the receive side of a connection: the shared cell and one component per request stream -/
structure Conn where
  cell : Option Nat
  comps : Nat → Comp

/-- stream `sid`'s task polls `call` -/
def Conn.poll (H : Nat → Hdr) (k : Conn) (sid : Nat) (call : RCall) : Res × Conn :=
  ((pollComp (H sid) k.cell (k.comps sid) call).1,
   { cell := (pollComp (H sid) k.cell (k.comps sid) call).2.1,
     comps := fun i => if i = sid then (pollComp (H sid) k.cell (k.comps sid) call).2.2 else k.comps i })

/-- a schedule: which task polls which call, in any order -/
def Conn.run (H : Nat → Hdr) : Conn → List (Nat × RCall) → List (Nat × Res) × Conn
  | k, [] => ([], k)
  | k, (sid, call) :: r =>
    ((sid, (k.poll H sid call).1) :: (Conn.run H (k.poll H sid call).2 r).1,
     (Conn.run H (k.poll H sid call).2 r).2)

/-- the calls of stream `i` in a schedule, in their order -/
def callsFor (σ : List (Nat × RCall)) (i : Nat) : List RCall := (σ.filter (fun e => e.1 = i)).map (·.2)

/-- the answers stream `i` got -/
def answersFor (as : List (Nat × Res)) (i : Nat) : List Res := (as.filter (fun e => e.1 = i)).map (·.2)

theorem pollComp_cell (H : Hdr) (cell : Option Nat) (c : Comp) (call : RCall)
    (h : isErrConn (pollComp H cell c call).1 = false) : (pollComp H cell c call).2.1 = cell :=
  poll_cell H call (c.toSt cell) h

/-- **Interleaving is irrelevant on the receive side.**  Take any schedule of polls of any number
    of request streams.  If each stream, run alone on its own calls, never answers a connection
    error, then in the interleaved run every stream gets exactly the answers of its isolated run
    and ends in exactly that state, and the error cell is untouched. -/
theorem conn_run_projects (H : Nat → Hdr) (σ : List (Nat × RCall)) : ∀ (k : Conn),
    (∀ i, ∀ a ∈ (isolated (H i) k.cell (k.comps i) (callsFor σ i)).1, isErrConn a = false) →
    (∀ i, answersFor (Conn.run H k σ).1 i = (isolated (H i) k.cell (k.comps i) (callsFor σ i)).1 ∧
      (Conn.run H k σ).2.comps i = (isolated (H i) k.cell (k.comps i) (callsFor σ i)).2.2) ∧
    (Conn.run H k σ).2.cell = k.cell := by
  induction σ with
  | nil => intro k _; exact ⟨fun i => ⟨rfl, rfl⟩, rfl⟩
  | cons e r ih =>
    obtain ⟨sid, call⟩ := e
    intro k hk
    have hfor : callsFor ((sid, call) :: r) sid = call :: callsFor r sid := by simp [callsFor]
    have hother : ∀ i, i ≠ sid → callsFor ((sid, call) :: r) i = callsFor r i := by
      intro i hi
      have : ¬ sid = i := fun e => hi e.symm
      simp [callsFor, this]
    -- the first poll answers no connection error, so it leaves the cell alone
    have hfirst : isErrConn (pollComp (H sid) k.cell (k.comps sid) call).1 = false := by
      have := hk sid
      rw [hfor] at this
      exact this _ (by simp [isolated])
    have hcell := pollComp_cell (H sid) k.cell (k.comps sid) call hfirst
    have hkc : (k.poll H sid call).2.cell = k.cell := by simp only [Conn.poll, hcell]
    have hks : (k.poll H sid call).2.comps sid = (pollComp (H sid) k.cell (k.comps sid) call).2.2 := by
      simp only [Conn.poll, if_true]
    have hko : ∀ i, i ≠ sid → (k.poll H sid call).2.comps i = k.comps i := by
      intro i hi; simp only [Conn.poll, if_neg hi]
    have hk' : ∀ i, ∀ a ∈ (isolated (H i) (k.poll H sid call).2.cell ((k.poll H sid call).2.comps i)
        (callsFor r i)).1, isErrConn a = false := by
      intro i a ha
      rw [hkc] at ha
      by_cases hi : i = sid
      · subst hi
        rw [hks] at ha
        have := hk i
        rw [hfor] at this
        apply this
        simp only [isolated, hcell, List.mem_cons]
        exact Or.inr ha
      · rw [hko i hi] at ha
        have := hk i
        rw [hother i hi] at this
        exact this a ha
    obtain ⟨hall, hc⟩ := ih (k.poll H sid call).2 hk'
    simp only [Conn.run]
    refine ⟨fun i => ?_, ?_⟩
    · obtain ⟨h1, h2⟩ := hall i
      rw [hkc] at h1 h2
      by_cases hi : i = sid
      · subst hi
        rw [hks] at h1 h2
        rw [hfor]
        simp only [isolated, hcell]
        refine ⟨?_, h2⟩
        simp only [answersFor, List.filter_cons, decide_true, if_true, List.map_cons] at h1 ⊢
        rw [h1]
        rfl
      · rw [hko i hi] at h1 h2
        rw [hother i hi]
        refine ⟨?_, h2⟩
        have : ¬ sid = i := fun e => hi e.symm
        simp only [answersFor, List.filter_cons, this, decide_false, Bool.false_eq_true, if_false] at h1 ⊢
        exact h1
    · rw [hc, hkc]

/-- two polls of different streams commute when neither answers a connection error -/
theorem conn_polls_commute (H : Nat → Hdr) (k : Conn) (i j : Nat) (hij : i ≠ j) (ci cj : RCall)
    (hi : isErrConn (k.poll H i ci).1 = false) (hj : isErrConn (k.poll H j cj).1 = false) :
    ((k.poll H i ci).2.poll H j cj).1 = (k.poll H j cj).1 ∧
    ((k.poll H j cj).2.poll H i ci).1 = (k.poll H i ci).1 ∧
    ((k.poll H i ci).2.poll H j cj).2.cell = ((k.poll H j cj).2.poll H i ci).2.cell ∧
    ∀ x, ((k.poll H i ci).2.poll H j cj).2.comps x = ((k.poll H j cj).2.poll H i ci).2.comps x := by
  have hci := pollComp_cell (H i) k.cell (k.comps i) ci hi
  have hcj := pollComp_cell (H j) k.cell (k.comps j) cj hj
  have hji : ¬ j = i := fun e => hij e.symm
  simp only [Conn.poll, hci, hcj, if_neg hij, if_neg hji]
  refine ⟨trivial, trivial, trivial, fun x => ?_⟩
  by_cases hx : x = i
  · subst hx; simp [hij]
  · by_cases hx' : x = j
    · subst hx'; simp [hji]
    · simp [hx, hx']

/-! Split streams: see `Model/Split.lean` (`Handle`, `Whole.split`) and `Lemmas/E2ESplit.lean`. -/

end H3.E2E
