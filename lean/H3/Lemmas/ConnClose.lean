import H3.Model.ConnClose
import H3.Lemmas.C06Free
/-! Lemmas about the additive connection-error event (`H3.ConnClose`): the naming of
    `StreamErrorIncoming` by numbers loses nothing; a lowered `connErr` at the head of a script is an
    `AtEnd` configuration of the request-stream machine. -/
namespace H3.ConnClose
open H3.FS H3.ErrCell

theorem decQ_encQ (q : QErr) : decQ (encQ q) = q := by
  cases q with
  | appClose c =>
    show decQ (4 * c) = .appClose c
    unfold decQ
    split
    · congr 1; omega
    · next h => exact absurd (by omega : 4 * c % 4 = 0) h
  | timeout => decide
  | internal t =>
    show decQ (4 * t + 2) = .internal t
    unfold decQ
    split
    · next h => exact absurd h (by omega)
    · split
      · next h => exact absurd h (by omega)
      · split
        · congr 1; omega
        · next h => exact absurd (by omega : (4 * t + 2) % 4 = 2) h
  | undefined t =>
    show decQ (4 * t + 3) = .undefined t
    unfold decQ
    split
    · next h => exact absurd h (by omega)
    · split
      · next h => exact absurd h (by omega)
      · split
        · next h => exact absurd h (by omega)
        · congr 1; omega

/-- the naming is lossless (QUIC error codes are varints, `< 2^62`) -/
theorem ofCode_code (e : TErr) (h : ∀ c, e = .terminated c → c < 2 ^ 62) : TErr.ofCode e.code = e := by
  cases e with
  | terminated c =>
    have := h c rfl
    show TErr.ofCode c = .terminated c
    unfold TErr.ofCode
    split
    · rfl
    · next h' => exact absurd this h'
  | conn q =>
    show TErr.ofCode (2 ^ 62 + 2 * encQ q) = .conn q
    unfold TErr.ofCode
    split
    · next h' => exact absurd h' (by omega)
    · split
      · have h3 : (2 ^ 62 + 2 * encQ q - 2 ^ 62) / 2 = encQ q := by omega
        rw [h3, decQ_encQ]
      · next h' => exact absurd (by omega : (2 ^ 62 + 2 * encQ q - 2 ^ 62) % 2 = 0) h'
  | unknown t =>
    show TErr.ofCode (2 ^ 62 + 2 * t + 1) = .unknown t
    unfold TErr.ofCode
    split
    · next h' => exact absurd h' (by omega)
    · split
      · next h' => exact absurd h' (by omega)
      · congr 1; omega

/-- a connection error never has the number of a RESET_STREAM code -/
theorem conn_code_ge (q : QErr) : 2 ^ 62 ≤ TErr.code (.conn q) := by
  show 2 ^ 62 ≤ 2 ^ 62 + 2 * encQ q
  omega

theorem lower_connErr (q : QErr) (r : List EvC) :
    lower (.connErr q :: r) = .reset (TErr.code (.conn q)) :: lower r := rfl

theorem atEnd_closed (c : H3.ReqRecv.FSt) (q : QErr) (r : List EvC) (h : c.2 = lower (.connErr q :: r)) :
    H3.C06.AtEnd c := Or.inr ⟨_, _, h⟩

end H3.ConnClose
