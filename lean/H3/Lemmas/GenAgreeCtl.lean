import H3.Model.Control
import H3.Gen.CtlArms
import H3.Gen.UniArms
import H3.Gen.FrameErrCodes
/-! Agreement of the control-stream / unidirectional-stream models (`H3.Control`, `H3.UniAccept`;
    C04, C06) with the decision tables the translator reads out of the Rust sources on every run:

    * `H3.Gen.CtlArms`       — `ConnectionInner::poll_control`, `process_goaway`, server
                               `poll_next_control`, client `poll_close`,
    * `H3.Gen.UniArms`       — `AcceptRecvStream::{poll_type,into_stream}`, `poll_accept_recv`,
    * `H3.Gen.FrameErrCodes` — `got_frame_error`.

    Each theorem says: the model's decision function equals the generated table, read through a
    fixed interpretation of the table's action names.  A changed arm in the Rust source changes the
    generated table and the theorem about it stops to hold. -/
namespace H3.GenAgree.Ctl
open H3.Frame H3.Control H3.Gen.Consts

def kindOf : Frame → Gen.CtlArms.Kind
  | .data _ => .data
  | .headers _ => .headers
  | .cancelPush _ => .cancelPush
  | .settings _ => .settings
  | .pushPromise _ _ => .pushPromise
  | .goaway _ => .goaway
  | .maxPushId _ => .maxPushId
  | .webTransport _ => .webTransportStream

/-- every variant of the Rust `enum Frame` but `Grease` is a frame of the model -/
theorem kindOf_covers : ∀ k : Gen.CtlArms.Kind, k = .grease ∨ ∃ f, kindOf f = k := by
  intro k
  cases k
  · exact .inr ⟨.data 0, rfl⟩
  · exact .inr ⟨.headers [], rfl⟩
  · exact .inr ⟨.cancelPush 0, rfl⟩
  · exact .inr ⟨.settings [], rfl⟩
  · exact .inr ⟨.pushPromise 0 [], rfl⟩
  · exact .inr ⟨.goaway 0, rfl⟩
  · exact .inr ⟨.maxPushId 0, rfl⟩
  · exact .inr ⟨.webTransport 0, rfl⟩
  · exact .inl rfl

/-! ### `ConnectionInner::poll_control` -/

/-- the frame-error classes of the model and the variants of `FrameProtocolError` they stand for -/
def protoOf : FrameErr → Gen.FrameErrCodes.ProtoErr
  | .malformed => .malformed
  | .unsupported _ => .forbiddenFrame
  | .settings _ => .settings

/-- `got_frame_error` -/
theorem protoCode_agrees : ∀ e, protoCode e = Gen.FrameErrCodes.code (protoOf e) := by
  intro e
  cases e <;> rfl

/-- where the model's frame-error classes come from: the arms of `FrameDecoder::decode` -/
theorem protoOf_decoder :
    Gen.FrameErrCodes.decoder .malformed = .proto (protoOf .malformed) ∧
    (∀ ty, Gen.FrameErrCodes.decoder .unsupportedFrame = .proto (protoOf (.unsupported ty))) ∧
    (∀ e, Gen.FrameErrCodes.decoder .settings = .proto (protoOf (.settings e))) :=
  ⟨rfl, fun _ => rfl, fun _ => rfl⟩

/-- the model's reading of an action of `poll_control`'s `match`; `e?` is the frame error of a
    `Proto` item -/
def react (c : Conn) (f? : Option Frame) (e? : Option FrameErr) : Gen.CtlArms.Act → Option Class
  | .pass => f?.map (fun f => .pass f c)
  | .applySettings => f?.map (fun f => .pass f { c with gotSettings := true })
  | .err code => some (.error code)
  | .gotFrameError => e?.map (fun e => .error (Gen.FrameErrCodes.code (protoOf e)))
  | .passConnErr => none

def frameTable (c : Conn) : Gen.CtlArms.Kind → Gen.CtlArms.Act :=
  if c.gotSettings then Gen.CtlArms.afterSettings else Gen.CtlArms.beforeSettings

theorem classify_frame : ∀ (c : Conn) (f : Frame),
    some (classify c (.frame f)) = react c (some f) none (frameTable c (kindOf f)) := by
  intro c f
  cases hg : c.gotSettings <;> cases f <;> simp [classify, classifyLater, hg, frameTable, kindOf, react,
    Gen.CtlArms.beforeSettings, Gen.CtlArms.afterSettings, CODE_H3_FRAME_UNEXPECTED, CODE_H3_MISSING_SETTINGS]

theorem classify_fin (c : Conn) : some (classify c .fin) = react c none none Gen.CtlArms.onFin := rfl

theorem classify_reset (c : Conn) (x : Nat) :
    some (classify c (.reset x)) = react c none none Gen.CtlArms.onReset := rfl

theorem classify_truncated (c : Conn) :
    some (classify c .truncated) = react c none none Gen.CtlArms.onTruncated := rfl

theorem classify_proto (c : Conn) (e : FrameErr) :
    some (classify c (.proto e)) = react c none (some e) Gen.CtlArms.onProto := by
  cases e <;> rfl

/-- the property theorems are about `blocking = false`: the tail of `poll_control` does not wait
    for the grease stream -/
theorem grease_not_blocking : Gen.CtlArms.greaseBlocking = false := rfl

/-! ### the role handlers -/

/-- `process_goaway` -/
theorem processGoaway_agrees (c : Conn) (id : Nat) :
    processGoaway c id =
      match c.recvClosing with
      | some prev =>
        if prev < id then (c.fail Gen.CtlArms.goawayIncreaseCode, some Gen.CtlArms.goawayIncreaseCode)
        else ({ c with recvClosing := some id }, none)
      | none => ({ c with recvClosing := some id }, none) := rfl

def goawayId : Frame → Option Nat
  | .goaway id => some id
  | _ => none

def hReact (c : Conn) (f : Frame) : Gen.CtlArms.HAct → Option (Conn × Option Nat)
  | .nothing => some (c, none)
  | .goaway => (goawayId f).map (processGoaway c)
  | .goawayRequestId code =>
    (goawayId f).map (fun id => if id % 4 = 0 then processGoaway c id else (c.fail code, some code))
  | .err code => some (c.fail code, some code)

def roleTable : Role → Gen.CtlArms.Kind → Gen.CtlArms.HAct
  | .server => Gen.CtlArms.server
  | .client => Gen.CtlArms.client

theorem handle_agrees : ∀ (role : Role) (c : Conn) (f : Frame),
    some (handle role c f) = hReact c f (roleTable role (kindOf f)) := by
  intro role c f
  cases role <;> cases f <;> rfl

/-! ### unidirectional streams: `poll_type`, `into_stream`, `poll_accept_recv` -/

open H3.UniAccept in
/-- `matches!(self.ty, Some(StreamType::PUSH | StreamType::WEBTRANSPORT_UNI))` -/
theorem needsId_agrees : ∀ ty, needsId ty = decide (ty ∈ Gen.UniArms.needsId) := by
  intro ty
  rw [Bool.eq_iff_iff]
  simp [needsId, Gen.UniArms.needsId, STREAM_PUSH, STREAM_WEBTRANSPORT_UNI]

/-- the model's `Kind` for a variant of `AcceptedRecvStream` -/
def kindFor (ty : Nat) (id : Option Nat) : Gen.UniArms.Accepted → Option UniAccept.Kind
  | .control => some .control
  | .push => some .push
  | .encoder => some .encoder
  | .decoder => some .decoder
  | .webTransportUni => id.map .wtUni
  | .unknown => some (.unknown ty)

theorem intoStream_agrees : ∀ (s : UniAccept.St) (ty : Nat), s.ty = some ty →
    UniAccept.intoStream s = kindFor ty s.id (Gen.UniArms.intoStream ty) := by
  intro s ty h
  cases hid : s.id <;>
    by_cases h0 : ty = STREAM_CONTROL <;> by_cases h1 : ty = STREAM_PUSH <;> by_cases h2 : ty = STREAM_ENCODER <;>
    by_cases h3 : ty = STREAM_DECODER <;> by_cases h4 : ty = STREAM_WEBTRANSPORT_UNI <;>
    simp_all [UniAccept.intoStream, kindFor, Gen.UniArms.intoStream, STREAM_CONTROL, STREAM_PUSH, STREAM_ENCODER,
      STREAM_DECODER, STREAM_WEBTRANSPORT_UNI]

/-- only the arms that the table marks as reading `self.id` can hit the `expect` on it -/
theorem usesId_agrees : ∀ a ty, Gen.UniArms.usesId a = false → (kindFor ty none a).isSome = true := by
  intro a ty h
  cases a <;> first | rfl | exact absurd h (by decide)

def acceptedOf : UniAccept.Kind → Gen.UniArms.Accepted
  | .control => .control
  | .push => .push
  | .encoder => .encoder
  | .decoder => .decoder
  | .wtUni _ => .webTransportUni
  | .unknown _ => .unknown

/-- the connection's slot for a kind of stream that may exist once -/
def slot (c : Conn) : UniAccept.Kind → Option (Bool × Conn)
  | .control => some (c.control, { c with control := true })
  | .encoder => some (c.encoder, { c with encoder := true })
  | .decoder => some (c.decoder, { c with decoder := true })
  | _ => none

def accReact (c : Conn) (k : UniAccept.Kind) : Gen.UniArms.AccAct → Option AccRes
  | .unique code =>
    (slot c k).map (fun (taken, c') =>
      if taken then { conn := c.fail code, err := some code } else { conn := c' })
  | .store =>
    match k with
    | .wtUni sid => some { conn := { c with wtUni := c.wtUni ++ [sid] } }
    | _ => none
  | .stopSending code => some { conn := c, stop := some code }
  | .drop => some { conn := c }

def acceptTable (wt : Bool) : Gen.UniArms.Accepted → Gen.UniArms.AccAct :=
  if wt then Gen.UniArms.acceptWt else Gen.UniArms.acceptNoWt

theorem acceptKind_agrees : ∀ (cfg : Cfg) (c : Conn) (k : UniAccept.Kind),
    some (acceptKind cfg c k) = accReact c k (acceptTable cfg.wt (acceptedOf k)) := by
  intro cfg c k
  cases hw : cfg.wt <;> cases k <;>
    simp [acceptKind, hw, acceptTable, acceptedOf, accReact, slot, Gen.UniArms.acceptWt, Gen.UniArms.acceptNoWt,
      CODE_H3_STREAM_CREATION_ERROR] <;> split <;> simp_all

/-- the answers of `poll_type` that are not a resolved stream -/
theorem acceptArrival_agrees (cfg : Cfg) (c : Conn) :
    (Gen.UniArms.onEndOfStream = .forget ∧ acceptArrival cfg c .dropped = { conn := c }) ∧
    (Gen.UniArms.onInternalError = .connErr ∧
      acceptArrival cfg c .internal =
        { conn := c.fail Gen.UniArms.internalCode, err := some Gen.UniArms.internalCode }) ∧
    Gen.UniArms.onOk = .resolved ∧ Gen.UniArms.onPending = .wait :=
  ⟨⟨rfl, rfl⟩, ⟨rfl, rfl⟩, rfl, rfl⟩

end H3.GenAgree.Ctl
