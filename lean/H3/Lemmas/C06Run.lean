import H3.Lemmas.C06Req
/-! The documented receive pattern run against a transport script (`runDoc`: every `Pending`
    retried while the script has events left), every schedule (`DocReach`), and the model's own
    driver `documented` (one poll per call): no panic; with the end of the stream in the script,
    completion. -/
namespace H3.C06
open H3.ReqRecv H3.Frame H3.Gen.Consts
open H3.Varint (WF)
open H3.Lemmas.C04 (ScriptWF)

/-- The documented pattern against the script held by `st`: the call of the phase is polled; an
    answer is logged and the pattern moves on as `nextPhase` says; a `Pending` is not logged but
    retried (the script's next event has woken the task) unless the script is used up — then the
    call stays pending for good and that is the last entry.  `k` bounds the number of polls
    (`(ph, invalid)` = bound reached), `N` is handed to `poll_recv_data`'s loop. -/
def runDoc (role : Role) (H : Hdr) (N : Nat) : Nat → Phase → RSt → List (Phase × Res)
  | 0, ph, _ => [(ph, .invalid)]
  | k+1, ph, st =>
    let x := pollPhase role H N ph st
    match nextPhase ph x.1 with
    | none => [(ph, x.1)]
    | some ph' =>
      if x.1 = .pending then
        (if x.2.src.2.isEmpty then [(ph, .pending)] else runDoc role H N k ph' x.2)
      else (ph, x.1) :: runDoc role H N k ph' x.2

def initSt (script : List FS.Ev) : RSt := { src := ({}, script) }

/-- both layers composed, with re-polling: the bound is the one the model's drivers use -/
def documentedPolled (role : Role) (H : Hdr) (script : List FS.Ev) : List (Phase × Res) :=
  runDoc role H (fsFuel ({}, script)) (fsFuel ({}, script)) .head (initSt script)

/-- a value or an error: the call has completed -/
def settled : Res → Bool
  | .pending | .invalid | .panic => false
  | _ => true

theorem phaseOK_init (script : List FS.Ev) : PhaseOK .head (initSt script) := rfl

theorem wfSt_init (script : List FS.Ev) (h : ScriptWF script) : WFSt (initSt script) :=
  ⟨fun c hc => by simp [initSt] at hc, h⟩

theorem nextPhase_pending {ph ph' : Phase} (h : nextPhase ph .pending = some ph') : ph' = ph := by
  cases ph <;> simp [nextPhase] at h <;> exact h.symm

theorem scriptBytes_eq (script : List FS.Ev) : scriptBytes script = (FS.evBytes script).length := by
  induction script with
  | nil => rfl
  | cons e r ih => cases e <;> simp [scriptBytes, FS.evBytes, ih]

/-! ### no panic -/

theorem runDoc_no_panic (role : Role) (H : Hdr) (N : Nat) : ∀ (k : Nat) (ph : Phase) (st : RSt),
    PhaseOK ph st → WFSt st → ∀ e ∈ runDoc role H N k ph st, e.2 ≠ .panic := by
  intro k
  induction k with
  | zero =>
    intro ph st _ _ e he
    simp only [runDoc, List.mem_singleton] at he
    subst he
    simp
  | succ k ih =>
    intro ph st hok hwf e he
    have hS := pollPhase_safe role H N ph st hok hwf
    rw [runDoc] at he
    cases hn : nextPhase ph (pollPhase role H N ph st).1 with
    | none =>
      rw [hn] at he
      simp only [List.mem_singleton] at he
      subst he
      exact hS.noPanic
    | some ph' =>
      rw [hn] at he
      simp only at he
      obtain ⟨hok', hwf'⟩ := hS.next ph' hn
      split at he
      · split at he
        · simp only [List.mem_singleton] at he
          subst he
          simp
        · exact ih ph' _ hok' hwf' e he
      · simp only [List.mem_cons] at he
        rcases he with rfl | he
        · exact hS.noPanic
        · exact ih ph' _ hok' hwf' e he

/-! ### completion -/

theorem settled_of {r : Res} (h1 : r ≠ .panic) (h2 : r ≠ .pending) (h3 : r ≠ .invalid) : settled r = true := by
  cases r <;> simp_all [settled]

theorem ends_nil {s : FS.St} (h : Ends s []) : s.eos = true := by
  rcases h with h | h | ⟨c, h⟩
  · exact h
  · simp at h
  · simp at h

theorem runDoc_complete (role : Role) (H : Hdr) (N : Nat) : ∀ (k : Nat) (ph : Phase) (st : RSt),
    PhaseOK ph st → WFSt st → GoodS st → EndsS st → muS st < N → rank ph + muS st < k →
    (∀ e ∈ runDoc role H N k ph st, settled e.2 = true) ∧
    ∃ pre last, runDoc role H N k ph st = pre ++ [last] ∧ nextPhase last.1 last.2 = none := by
  intro k
  induction k with
  | zero => intro ph st _ _ _ _ _ h; omega
  | succ k ih =>
    intro ph st hok hwf hG hE hN hk
    have hS := pollPhase_safe role H N ph st hok hwf
    have hL := pollPhase_live role H N ph st hok hG
    rw [runDoc]
    cases hn : nextPhase ph (pollPhase role H N ph st).1 with
    | none =>
      simp only
      have hset : settled (pollPhase role H N ph st).1 = true := by
        refine settled_of hS.noPanic ?_ ?_
        · intro hp
          rw [hp] at hn
          cases ph <;> simp [nextPhase] at hn
        · intro hi
          have := (hL.fuel hi).2
          omega
      refine ⟨?_, [], (ph, (pollPhase role H N ph st).1), by simp, hn⟩
      intro e he
      simp only [List.mem_singleton] at he
      subst he
      exact hset
    | some ph' =>
      simp only
      obtain ⟨hok', hwf'⟩ := hS.next ph' hn
      obtain ⟨hG', hE', hmu, hpend, hnp⟩ := hL.next ph' hn
      by_cases hp : (pollPhase role H N ph st).1 = .pending
      · rw [if_pos hp]
        by_cases hemp : (pollPhase role H N ph st).2.src.2.isEmpty = true
        · exfalso
          have hnil : (pollPhase role H N ph st).2.src.2 = [] := by simpa using hemp
          have h1 := hE' hE
          unfold EndsS at h1
          rw [hnil] at h1
          have h2 := hS.pendOpen hp
          rw [ends_nil h1] at h2
          cases h2
        · rw [if_neg hemp]
          have hne : (pollPhase role H N ph st).2.src.2 ≠ [] := by simpa using hemp
          have hlt := hpend hp hne
          have hph : ph' = ph := by rw [hp] at hn; exact nextPhase_pending hn
          subst hph
          exact ih ph' _ hok' hwf' hG' (hE' hE) (by omega) (by omega)
      · rw [if_neg hp]
        have hlt := hnp hp
        obtain ⟨h1, pre, last, h2, h3⟩ := ih ph' _ hok' hwf' hG' (hE' hE) (by omega) (by omega)
        refine ⟨?_, (ph, (pollPhase role H N ph st).1) :: pre, last, by rw [h2]; simp, h3⟩
        intro e he
        simp only [List.mem_cons] at he
        rcases he with rfl | he
        · refine settled_of hS.noPanic hp ?_
          intro hi
          replace hi : (pollPhase role H N ph st).1 = .invalid := hi
          rw [hi] at hn
          cases ph <;> simp [nextPhase] at hn
        · exact h1 e he

/-! ### every schedule -/

/-- Configurations the documented pattern can be in: it starts before the head with nothing read;
    the call of the phase is polled and the pattern moves on as `nextPhase` says (a `Pending` call
    is polled again — whenever, and as often as, the executor likes); between any two polls more
    events may arrive from the peer. -/
inductive DocReach (role : Role) (H : Hdr) (N : Nat) : Phase → RSt → Prop where
  | init (script : List FS.Ev) (hwf : ScriptWF script) : DocReach role H N .head (initSt script)
  | poll {ph ph' : Phase} {st : RSt} : DocReach role H N ph st →
      nextPhase ph (pollPhase role H N ph st).1 = some ph' →
      DocReach role H N ph' (pollPhase role H N ph st).2
  | arrive {ph : Phase} {st : RSt} (evs : List FS.Ev) (hwf : ScriptWF evs) : DocReach role H N ph st →
      DocReach role H N ph { st with src := (st.src.1, st.src.2 ++ evs) }

theorem docReach_inv {role : Role} {H : Hdr} {N : Nat} {ph : Phase} {st : RSt}
    (h : DocReach role H N ph st) : PhaseOK ph st ∧ WFSt st := by
  induction h with
  | init script hwf => exact ⟨phaseOK_init script, wfSt_init script hwf⟩
  | poll _ hn ih => exact (pollPhase_safe role H N _ _ ih.1 ih.2).next _ hn
  | @arrive ph st evs hwf _ ih =>
    refine ⟨?_, ih.2.1, scriptWF_append ih.2.2 hwf⟩
    have := ih.1
    cases ph <;> exact this

theorem atEnd_arrive {c : FSt} (evs : List FS.Ev) (h : AtEnd c) : AtEnd (c.1, c.2 ++ evs) := by
  rcases h with h | ⟨x, r, h⟩
  · exact Or.inl h
  · exact Or.inr ⟨x, r ++ evs, by simp [h]⟩

/-! ### the model's own driver `documented` (one poll per call) -/

theorem drain_safe : ∀ (fuel : Nat) (st : RSt), PhaseOK .body st → WFSt st →
    (∀ r ∈ (drain fsSrc fuel st).1, r ≠ .panic) ∧
    ((drain fsSrc fuel st).1.getLast? = some .end_ →
      PhaseOK .trailers (drain fsSrc fuel st).2 ∧ WFSt (drain fsSrc fuel st).2) := by
  intro fuel
  induction fuel with
  | zero =>
    intro st _ _
    simp [drain]
  | succ f ih =>
    intro st hok hwf
    have hS := pollRecvData_safe (f + 1) st hok hwf
    rw [drain]
    generalize pollRecvData fsSrc (f + 1) st = p at hS
    obtain ⟨r, st'⟩ := p
    cases r with
    | data d =>
      simp only
      obtain ⟨hok', hwf'⟩ := hS.next .body rfl
      obtain ⟨h1, h2⟩ := ih st' hok' hwf'
      have hne := drain_ne_nil fsSrc f st'
      refine ⟨?_, ?_⟩
      · intro r hr
        simp only [List.mem_cons] at hr
        rcases hr with rfl | hr
        · simp
        · exact h1 r hr
      · intro hl
        rw [List.getLast?_cons_of_ne_nil hne] at hl
        exact h2 hl
    | end_ =>
      simp only
      exact ⟨by simp, fun _ => hS.next .trailers rfl⟩
    | panic => exact absurd rfl hS.noPanic
    | _ => simp

theorem documented_no_panic (role : Role) (H : Hdr) (fuel : Nat) (st : RSt) (hok : PhaseOK .head st)
    (hwf : WFSt st) :
    (documented role fsSrc H fuel st).head ≠ .panic ∧
    (∀ r ∈ (documented role fsSrc H fuel st).body, r ≠ .panic) ∧
    (documented role fsSrc H fuel st).trailers ≠ some .panic := by
  have hS := pollHead_safe role H st hok hwf
  unfold documented
  generalize pollHead role fsSrc H st = p at hS
  obtain ⟨h, st1⟩ := p
  cases h with
  | head b =>
    simp only
    obtain ⟨hok1, hwf1⟩ := hS.next .body rfl
    obtain ⟨h1, h2⟩ := drain_safe fuel st1 hok1 hwf1
    unfold bodyRun
    simp only
    split
    · rename_i hl
      obtain ⟨hok2, hwf2⟩ := h2 hl
      have hT := pollRecvTrailers_safe H _ hok2 hwf2
      refine ⟨by simp, h1, ?_⟩
      simp only [ne_eq, Option.some.injEq]
      exact hT.noPanic
    · exact ⟨by simp, h1, by simp⟩
  | panic => exact absurd rfl hS.noPanic
  | _ => simp

end H3.C06
