import H3.Model.PrefixInt
/-! Helper lemmas for the prefixed-integer model (`H3.Model.PrefixInt`). -/
namespace H3.PrefixInt
open H3.Gen.PrefixInt (MAX_POWER)

/-! ### `encLoop` -/

theorem encLoop_eq (x : Nat) :
    encLoop x = if x ≥ 128 then (x % 128 + 128) :: encLoop (x / 128) else [x] := by
  rw [encLoop]

theorem encLoop_lt {x : Nat} (h : x < 128) : encLoop x = [x] := by
  rw [encLoop_eq, if_neg (by omega)]

theorem encLoop_ge {x : Nat} (h : 128 ≤ x) :
    encLoop x = (x % 128 + 128) :: encLoop (x / 128) := by
  rw [encLoop_eq, if_pos h]

theorem encLoop_bytes (x : Nat) : ∀ b ∈ encLoop x, b < 256 := by
  induction x using Nat.strongRecOn with
  | _ x ih =>
    by_cases h : 128 ≤ x
    · rw [encLoop_ge h]
      intro b hb
      rcases List.mem_cons.mp hb with rfl | hb
      · omega
      · exact ih (x / 128) (by omega) b hb
    · rw [encLoop_lt (by omega)]
      intro b hb
      rcases List.mem_cons.mp hb with rfl | hb
      · omega
      · cases hb

/-! ### one step of `decLoop` -/

theorem decLoop_nil (f v p : Nat) : decLoop f v p [] = .endOf := by
  simp [decLoop]

theorem decLoop_last (f v p b : Nat) (r : List Nat) (hb : b / 128 % 2 = 0) :
    decLoop f v p (b :: r) = .ok f (v + b % 128 * 2 ^ p) r := by
  simp [decLoop, hb]

theorem decLoop_ovf (f v p b : Nat) (r : List Nat) (hb : b / 128 % 2 ≠ 0) (hp : 63 ≤ p + 7) :
    decLoop f v p (b :: r) = .overflow := by
  have : p + 7 ≥ MAX_POWER := by simp [MAX_POWER]; omega
  simp [decLoop, hb, this]

theorem decLoop_more (f v p b : Nat) (r : List Nat) (hb : b / 128 % 2 ≠ 0) (hp : p + 7 < 63) :
    decLoop f v p (b :: r) = decLoop f (v + b % 128 * 2 ^ p) (p + 7) r := by
  have : ¬ p + 7 ≥ MAX_POWER := by simp [MAX_POWER]; omega
  simp [decLoop, hb, this]

/-- `2^(7(i+1)) = 2^(7i)·128`, and the base-128 digit split of the accumulated value. -/
theorem acc_step (acc x i : Nat) :
    acc + x % 128 * 2 ^ (7 * i) + x / 128 * 2 ^ (7 * (i + 1)) = acc + x * 2 ^ (7 * i) := by
  have h1 : 2 ^ (7 * (i + 1)) = 128 * 2 ^ (7 * i) := by
    rw [Nat.mul_add, Nat.pow_add, Nat.mul_comm]
  have h2 : x % 128 + x / 128 * 128 = x := by omega
  rw [h1, ← Nat.mul_assoc, Nat.add_assoc, ← Nat.add_mul, h2]

theorem acc_step' (acc b c i : Nat) :
    acc + b * 2 ^ (7 * i) + c * 2 ^ (7 * (i + 1)) = acc + (b + 128 * c) * 2 ^ (7 * i) := by
  have h1 : 2 ^ (7 * (i + 1)) = 128 * 2 ^ (7 * i) := by
    rw [Nat.mul_add, Nat.pow_add, Nat.mul_comm]
  rw [h1, ← Nat.mul_assoc, Nat.add_assoc, ← Nat.add_mul, Nat.mul_comm c 128]

theorem pow128_pos (k : Nat) : 1 ≤ 128 ^ k := Nat.pow_pos (by decide)

/-! ### decoder loop on the encoder loop's output -/

theorem decLoop_encLoop (f : Nat) (rest : List Nat) :
    ∀ (k x i acc : Nat), i + k ≤ 9 → x < 128 ^ k →
      decLoop f acc (7 * i) (encLoop x ++ rest) = .ok f (acc + x * 2 ^ (7 * i)) rest := by
  intro k
  induction k with
  | zero =>
    intro x i acc _ hx
    have : x = 0 := by simpa using hx
    subst this
    rw [encLoop_lt (by omega), List.singleton_append, decLoop_last _ _ _ _ _ (by decide)]
  | succ k ih =>
    intro x i acc hik hx
    by_cases h : x < 128
    · rw [encLoop_lt h, List.singleton_append, decLoop_last _ _ _ _ _ (by omega),
        Nat.mod_eq_of_lt h]
    · have h128 : 128 ≤ x := by omega
      have hk : 1 ≤ k := by
        rcases k with _ | k
        · simp at hx; omega
        · omega
      have hx' : x / 128 < 128 ^ k := by
        rw [Nat.div_lt_iff_lt_mul (by decide)]
        rw [Nat.pow_succ] at hx; exact hx
      rw [encLoop_ge h128, List.cons_append,
        decLoop_more _ _ _ _ _ (by omega) (by omega),
        show 7 * i + 7 = 7 * (i + 1) by omega,
        ih (x / 128) (i + 1) _ (by omega) hx',
        show (x % 128 + 128) % 128 = x % 128 by omega, acc_step]

theorem decLoop_encLoop_ovf (f : Nat) (rest : List Nat) :
    ∀ (k x i acc : Nat), i + k = 8 → 128 ^ (k + 1) ≤ x →
      decLoop f acc (7 * i) (encLoop x ++ rest) = .overflow := by
  intro k
  induction k with
  | zero =>
    intro x i acc hik hx
    have h128 : 128 ≤ x := by simpa using hx
    rw [encLoop_ge h128, List.cons_append, decLoop_ovf _ _ _ _ _ (by omega) (by omega)]
  | succ k ih =>
    intro x i acc hik hx
    have hp := pow128_pos (k + 1)
    have hx' : 128 ^ (k + 1) ≤ x / 128 := by
      rw [Nat.le_div_iff_mul_le (by decide)]
      rw [Nat.pow_succ] at hx; exact hx
    have h128 : 128 ≤ x := by
      rw [Nat.pow_succ] at hx; omega
    rw [encLoop_ge h128, List.cons_append,
      decLoop_more _ _ _ _ _ (by omega) (by omega),
      show 7 * i + 7 = 7 * (i + 1) by omega,
      ih (x / 128) (i + 1) _ (by omega) hx']

/-! ### decoder loop on arbitrary well-formed bytes -/

theorem decLoop_cons_wf (f v i b : Nat) (r : List Nat) (hb : b < 256) (hi : i ≤ 8) :
    decLoop f v (7 * i) (b :: r) =
      if b < 128 then .ok f (v + b * 2 ^ (7 * i)) r
      else if i = 8 then .overflow
      else decLoop f (v + b % 128 * 2 ^ (7 * i)) (7 * (i + 1)) r := by
  by_cases h : b < 128
  · rw [if_pos h, decLoop_last _ _ _ _ _ (by omega), Nat.mod_eq_of_lt h]
  · rw [if_neg h]
    by_cases h8 : i = 8
    · rw [if_pos h8, decLoop_ovf _ _ _ _ _ (by omega) (by omega)]
    · rw [if_neg h8, decLoop_more _ _ _ _ _ (by omega) (by omega),
        show 7 * i + 7 = 7 * (i + 1) by omega]

theorem rfcCont_lt (b : Nat) (r : List Nat) (h : b < 128) : rfcCont (b :: r) = some (b, r) := by
  simp [rfcCont, h]

theorem rfcCont_ge_some (b : Nat) (r : List Nat) (h : ¬ b < 128) (c : Nat) (rest : List Nat)
    (hc : rfcCont r = some (c, rest)) : rfcCont (b :: r) = some (b % 128 + 128 * c, rest) := by
  simp [rfcCont, h, hc]

theorem rfcCont_ge_none (b : Nat) (r : List Nat) (h : ¬ b < 128)
    (hc : rfcCont r = none) : rfcCont (b :: r) = none := by
  simp [rfcCont, h, hc]

theorem rfcCont_none_iff (r : List Nat) : rfcCont r = none ↔ ∀ b ∈ r, 128 ≤ b := by
  induction r with
  | nil => simp [rfcCont]
  | cons b r ih =>
    by_cases h : b < 128
    · rw [rfcCont_lt b r h]
      constructor
      · intro h'; cases h'
      · intro h'; have := h' b (List.mem_cons_self ..); omega
    · cases hc : rfcCont r with
      | none =>
        rw [rfcCont_ge_none b r h hc]
        have := ih.mp hc
        simp only [true_iff]
        intro x hx
        rcases List.mem_cons.mp hx with rfl | hx
        · omega
        · exact this x hx
      | some p =>
        obtain ⟨c, rest⟩ := p
        rw [rfcCont_ge_some b r h c rest hc]
        constructor
        · intro h'; cases h'
        · intro h'
          have : rfcCont r = none := ih.mpr (fun x hx => h' x (List.mem_cons_of_mem _ hx))
          rw [hc] at this; cases this

theorem contLen_of_all_ge (r : List Nat) (h : ∀ b ∈ r, 128 ≤ b) : contLen r = r.length := by
  induction r with
  | nil => simp [contLen]
  | cons b r ih =>
    have hb : ¬ b < 128 := by have := h b (List.mem_cons_self ..); omega
    simp only [contLen, if_neg hb, List.length_cons]
    rw [ih (fun x hx => h x (List.mem_cons_of_mem _ hx))]; omega

theorem contLen_pos (r : List Nat) (h : r ≠ []) : 1 ≤ contLen r := by
  cases r with
  | nil => exact absurd rfl h
  | cons b r => simp only [contLen]; split <;> omega

/-- soundness of an `ok` result of the loop: it is the RFC continuation value, in range. -/
theorem decLoop_ok_sound (f : Nat) :
    ∀ (r : List Nat) (k i acc f' v : Nat) (rest : List Nat), (∀ b ∈ r, b < 256) → i + k = 9 → 1 ≤ k →
      decLoop f acc (7 * i) r = .ok f' v rest →
      f' = f ∧ ∃ c, rfcCont r = some (c, rest) ∧ v = acc + c * 2 ^ (7 * i) ∧ c < 128 ^ k := by
  intro r
  induction r with
  | nil => intro k i acc f' v rest _ _ _ h; rw [decLoop_nil] at h; cases h
  | cons b r ih =>
    intro k i acc f' v rest hwf hik hk h
    have hb : b < 256 := hwf b (List.mem_cons_self ..)
    have hwf' : ∀ x ∈ r, x < 256 := fun x hx => hwf x (List.mem_cons_of_mem _ hx)
    rw [decLoop_cons_wf _ _ _ _ _ hb (by omega)] at h
    obtain ⟨k, rfl⟩ : ∃ k', k = k' + 1 := ⟨k - 1, by omega⟩
    have hp := pow128_pos k
    by_cases hlt : b < 128
    · rw [if_pos hlt] at h
      injection h with h1 h2 h3
      subst h1 h2 h3
      refine ⟨rfl, b, rfcCont_lt b r hlt, rfl, ?_⟩
      rw [Nat.pow_succ]; omega
    · rw [if_neg hlt] at h
      by_cases h8 : i = 8
      · rw [if_pos h8] at h; cases h
      · rw [if_neg h8] at h
        obtain ⟨hf, c, hc, hv, hlt'⟩ := ih k (i + 1) _ f' v rest hwf' (by omega) (by omega) h
        refine ⟨hf, b % 128 + 128 * c, rfcCont_ge_some b r hlt c rest hc, ?_, ?_⟩
        · rw [hv, acc_step']
        · rw [Nat.pow_succ]; omega

theorem decLoop_endOf_iff (f : Nat) :
    ∀ (r : List Nat) (i acc : Nat), (∀ b ∈ r, b < 256) → i ≤ 8 →
      (decLoop f acc (7 * i) r = .endOf ↔ r.length + i < 9 ∧ ∀ b ∈ r, 128 ≤ b) := by
  intro r
  induction r with
  | nil => intro i acc _ hi; rw [decLoop_nil]; simp; omega
  | cons b r ih =>
    intro i acc hwf hi
    have hb : b < 256 := hwf b (List.mem_cons_self ..)
    have hwf' : ∀ x ∈ r, x < 256 := fun x hx => hwf x (List.mem_cons_of_mem _ hx)
    rw [decLoop_cons_wf _ _ _ _ _ hb hi]
    by_cases hlt : b < 128
    · rw [if_pos hlt]
      constructor
      · intro h; cases h
      · intro ⟨_, h⟩; have := h b (List.mem_cons_self ..); omega
    · rw [if_neg hlt]
      by_cases h8 : i = 8
      · rw [if_pos h8]
        constructor
        · intro h; cases h
        · intro ⟨h, _⟩; simp at h; omega
      · rw [if_neg h8, ih (i + 1) _ hwf' (by omega)]
        simp only [List.length_cons, List.mem_cons, forall_eq_or_imp]
        constructor
        · intro ⟨h1, h2⟩; exact ⟨by omega, by omega, h2⟩
        · intro ⟨h1, _, h2⟩; exact ⟨by omega, h2⟩

theorem decLoop_overflow_iff (f : Nat) :
    ∀ (r : List Nat) (k i acc : Nat), (∀ b ∈ r, b < 256) → i + k = 9 → 1 ≤ k →
      (decLoop f acc (7 * i) r = .overflow ↔ k ≤ r.length ∧ ∀ b ∈ r.take k, 128 ≤ b) := by
  intro r
  induction r with
  | nil => intro k i acc _ hik hk; rw [decLoop_nil]; simp; omega
  | cons b r ih =>
    intro k i acc hwf hik hk
    have hb : b < 256 := hwf b (List.mem_cons_self ..)
    have hwf' : ∀ x ∈ r, x < 256 := fun x hx => hwf x (List.mem_cons_of_mem _ hx)
    obtain ⟨k, rfl⟩ : ∃ k', k = k' + 1 := ⟨k - 1, by omega⟩
    rw [decLoop_cons_wf _ _ _ _ _ hb (by omega), List.take_succ_cons]
    simp only [List.length_cons, List.mem_cons, forall_eq_or_imp]
    by_cases hlt : b < 128
    · rw [if_pos hlt]
      constructor
      · intro h; cases h
      · intro ⟨_, h, _⟩; omega
    · rw [if_neg hlt]
      by_cases h8 : i = 8
      · rw [if_pos h8]
        have : k = 0 := by omega
        subst this
        simp; omega
      · rw [if_neg h8, ih k (i + 1) _ hwf' (by omega) (by omega)]
        constructor
        · intro ⟨h1, h2⟩; exact ⟨by omega, by omega, h2⟩
        · intro ⟨h1, _, h2⟩; exact ⟨by omega, h2⟩

theorem decLoop_complete (f : Nat) :
    ∀ (r : List Nat) (i acc c : Nat) (rest : List Nat), (∀ b ∈ r, b < 256) →
      rfcCont r = some (c, rest) → contLen r + i ≤ 9 →
      decLoop f acc (7 * i) r = .ok f (acc + c * 2 ^ (7 * i)) rest := by
  intro r
  induction r with
  | nil => intro i acc c rest _ h; simp [rfcCont] at h
  | cons b r ih =>
    intro i acc c rest hwf hc hlen
    have hb : b < 256 := hwf b (List.mem_cons_self ..)
    have hwf' : ∀ x ∈ r, x < 256 := fun x hx => hwf x (List.mem_cons_of_mem _ hx)
    by_cases hlt : b < 128
    · rw [rfcCont_lt b r hlt] at hc
      injection hc with hc; injection hc with h1 h2; subst h1 h2
      simp only [contLen, if_pos hlt] at hlen
      rw [decLoop_cons_wf _ _ _ _ _ hb (by omega), if_pos hlt]
    · simp only [contLen, if_neg hlt] at hlen
      cases hr : rfcCont r with
      | none => rw [rfcCont_ge_none b r hlt hr] at hc; cases hc
      | some p =>
        obtain ⟨c', rest'⟩ := p
        rw [rfcCont_ge_some b r hlt c' rest' hr] at hc
        injection hc with hc; injection hc with h1 h2; subst h1 h2
        have hne : r ≠ [] := by intro h; subst h; simp [rfcCont] at hr
        have := contLen_pos r hne
        rw [decLoop_cons_wf _ _ _ _ _ hb (by omega), if_neg hlt, if_neg (by omega),
          ih (i + 1) _ c' rest' hwf' hr (by omega), acc_step']

/-! ### the first byte -/

theorem mul_pow_or (a b n : Nat) (h : b < 2 ^ n) : a * 2 ^ n ||| b = a * 2 ^ n + b := by
  rw [← Nat.shiftLeft_eq, Nat.shiftLeft_add_eq_or_of_lt h]

theorem or_mul_pow (a b n : Nat) (h : b < 2 ^ n) : b ||| a * 2 ^ n = a * 2 ^ n + b := by
  rw [Nat.or_comm, mul_pow_or a b n h]

theorem decode?_nil (n : Nat) (hn8 : n ≤ 8) : decode? n [] = some .endOf := by
  simp [decode?]; omega

theorem decode?_cons (n first : Nat) (r : List Nat) (hn1 : 1 ≤ n) (hn8 : n ≤ 8)
    (hf : first < 256) :
    decode? n (first :: r) =
      some (if first % 2 ^ n < 2 ^ n - 1 then .ok (first / 2 ^ n) (first % 2 ^ n) r
            else decLoop (first / 2 ^ n) (2 ^ n - 1) 0 r) := by
  have h : first / 2 ^ n % 256 = first / 2 ^ n :=
    Nat.mod_eq_of_lt (Nat.lt_of_le_of_lt (Nat.div_le_self _ _) hf)
  have : n = 1 ∨ n = 2 ∨ n = 3 ∨ n = 4 ∨ n = 5 ∨ n = 6 ∨ n = 7 ∨ n = 8 := by omega
  rcases this with rfl | rfl | rfl | rfl | rfl | rfl | rfl | rfl <;>
    simp [decode?] at h ⊢ <;> rw [Nat.mod_eq_of_lt h] <;> split <;> rfl

theorem decode_of_decode? {n : Nat} {bs : List Nat} {x : Res} (h : decode? n bs = some x) :
    decode n bs = x := by
  simp [decode, h]

theorem pow_63 : (2 : Nat) ^ 63 = 128 ^ 9 := by decide

/-! ### arithmetic of the first byte, `1 ≤ n ≤ 8` -/

theorem two_pow_le_256 {n : Nat} (hn8 : n ≤ 8) : 2 ^ n ≤ 256 :=
  Nat.pow_le_pow_right (by decide) hn8

theorem flags_shift_add_le {n flags : Nat} (hn8 : n ≤ 8) (hf : flags < 2 ^ (8 - n)) :
    flags * 2 ^ n + 2 ^ n ≤ 256 := by
  have h1 : 2 ^ (8 - n) * 2 ^ n = 256 := by
    rw [← Nat.pow_add, show 8 - n + n = 8 by omega]
  have h2 : (flags + 1) * 2 ^ n ≤ 2 ^ (8 - n) * 2 ^ n := Nat.mul_le_mul_right _ hf
  rw [Nat.succ_mul] at h2
  omega

theorem first_div (a w n : Nat) (h : w < 2 ^ n) : (a * 2 ^ n + w) / 2 ^ n = a := by
  rw [Nat.add_comm, Nat.add_mul_div_right _ _ (Nat.two_pow_pos n), Nat.div_eq_of_lt h,
    Nat.zero_add]

theorem first_mod (a w n : Nat) (h : w < 2 ^ n) : (a * 2 ^ n + w) % 2 ^ n = w := by
  rw [Nat.add_comm, Nat.add_mul_mod_self_right, Nat.mod_eq_of_lt h]

/-- `encode?` with the `u8` truncations and the bit-ORs resolved. -/
theorem encode?_eq (n flags v : Nat) (hn8 : n ≤ 8) (hf : flags < 2 ^ (8 - n)) :
    encode? n flags v =
      some (if v < 2 ^ n - 1 then [flags * 2 ^ n + v]
            else (flags * 2 ^ n + (2 ^ n - 1)) :: encLoop (v - (2 ^ n - 1))) := by
  have h256 := two_pow_le_256 hn8
  have hpos := Nat.two_pow_pos n
  have hfl := flags_shift_add_le hn8 hf
  have hm : (2 ^ n - 1) % 256 = 2 ^ n - 1 := Nat.mod_eq_of_lt (by omega)
  have hfm : flags * 2 ^ n % 256 = flags * 2 ^ n := Nat.mod_eq_of_lt (by omega)
  unfold encode?
  rw [if_neg (by omega)]
  simp only [hm, hfm]
  by_cases h : v < 2 ^ n - 1
  · rw [if_pos h, if_pos h, mul_pow_or _ _ _ (by omega)]
  · rw [if_neg h, if_neg h, or_mul_pow _ _ _ (by omega)]

theorem encode_eq (n flags v : Nat) (hn8 : n ≤ 8) (hf : flags < 2 ^ (8 - n)) :
    encode n flags v =
      if v < 2 ^ n - 1 then [flags * 2 ^ n + v]
      else (flags * 2 ^ n + (2 ^ n - 1)) :: encLoop (v - (2 ^ n - 1)) := by
  simp [encode, encode?_eq n flags v hn8 hf]

theorem encode_bytes (n flags v : Nat) (hn8 : n ≤ 8) (hf : flags < 2 ^ (8 - n)) :
    ∀ b ∈ encode n flags v, b < 256 := by
  have hpos := Nat.two_pow_pos n
  have hfl := flags_shift_add_le hn8 hf
  rw [encode_eq n flags v hn8 hf]
  intro b hb
  by_cases h : v < 2 ^ n - 1
  · rw [if_pos h] at hb
    rcases List.mem_cons.mp hb with rfl | hb
    · omega
    · cases hb
  · rw [if_neg h] at hb
    rcases List.mem_cons.mp hb with rfl | hb
    · omega
    · exact encLoop_bytes _ b hb

/-- the decoder on the encoder's output, in range -/
theorem decode?_encode (n flags v : Nat) (hn1 : 1 ≤ n) (hn8 : n ≤ 8)
    (hf : flags < 2 ^ (8 - n)) (hv : v - (2 ^ n - 1) < 2 ^ 63) (rest : List Nat) :
    decode? n (encode n flags v ++ rest) = some (.ok flags v rest) := by
  have hpos := Nat.two_pow_pos n
  have hfl := flags_shift_add_le hn8 hf
  rw [encode_eq n flags v hn8 hf]
  by_cases h : v < 2 ^ n - 1
  · have hv' : v < 2 ^ n := by omega
    rw [if_pos h, List.singleton_append, decode?_cons n _ rest hn1 hn8 (by omega),
      first_mod _ _ _ hv', first_div _ _ _ hv', if_pos h]
  · have hm : 2 ^ n - 1 < 2 ^ n := by omega
    have hloop := decLoop_encLoop flags rest 9 (v - (2 ^ n - 1)) 0 (2 ^ n - 1) (by omega)
      (by rw [← pow_63]; exact hv)
    rw [if_neg h, List.cons_append, decode?_cons n _ _ hn1 hn8 (by omega),
      first_mod _ _ _ hm, first_div _ _ _ hm, if_neg (by omega)]
    simp only [Nat.mul_zero, Nat.pow_zero, Nat.mul_one] at hloop
    rw [hloop, show 2 ^ n - 1 + (v - (2 ^ n - 1)) = v by omega]

/-- the decoder on the encoder's output, beyond range -/
theorem decode?_encode_beyond (n flags v : Nat) (hn1 : 1 ≤ n) (hn8 : n ≤ 8)
    (hf : flags < 2 ^ (8 - n)) (hv : 2 ^ 63 ≤ v - (2 ^ n - 1)) (rest : List Nat) :
    decode? n (encode n flags v ++ rest) = some .overflow := by
  have hpos := Nat.two_pow_pos n
  have hfl := flags_shift_add_le hn8 hf
  have h63 : (0 : Nat) < 2 ^ 63 := Nat.two_pow_pos 63
  have h : ¬ v < 2 ^ n - 1 := by omega
  have hm : 2 ^ n - 1 < 2 ^ n := by omega
  have hloop := decLoop_encLoop_ovf flags rest 8 (v - (2 ^ n - 1)) 0 (2 ^ n - 1) rfl
    (by rw [← pow_63]; exact hv)
  rw [encode_eq n flags v hn8 hf, if_neg h, List.cons_append,
    decode?_cons n _ _ hn1 hn8 (by omega),
    first_mod _ _ _ hm, first_div _ _ _ hm, if_neg (by omega)]
  simp only [Nat.mul_zero] at hloop
  rw [hloop]

/-! ### `decode` / `rfcDecode` on a non-empty well-formed input -/

theorem decode_nil (n : Nat) (hn8 : n ≤ 8) : decode n [] = .endOf :=
  decode_of_decode? (decode?_nil n hn8)

theorem decode_cons_unsat (n first : Nat) (r : List Nat) (hn1 : 1 ≤ n) (hn8 : n ≤ 8)
    (hf : first < 256) (hs : first % 2 ^ n < 2 ^ n - 1) :
    decode n (first :: r) = .ok (first / 2 ^ n) (first % 2 ^ n) r := by
  rw [decode_of_decode? (decode?_cons n first r hn1 hn8 hf), if_pos hs]

theorem decode_cons_sat (n first : Nat) (r : List Nat) (hn1 : 1 ≤ n) (hn8 : n ≤ 8)
    (hf : first < 256) (hs : ¬ first % 2 ^ n < 2 ^ n - 1) :
    decode n (first :: r) = decLoop (first / 2 ^ n) (2 ^ n - 1) (7 * 0) r := by
  rw [decode_of_decode? (decode?_cons n first r hn1 hn8 hf), if_neg hs]

theorem rfcDecode_cons_unsat (n first : Nat) (r : List Nat) (hs : first % 2 ^ n < 2 ^ n - 1) :
    rfcDecode n (first :: r) = some (first % 2 ^ n, r) := by
  simp [rfcDecode, hs]

theorem rfcDecode_cons_sat_none (n first : Nat) (r : List Nat) (hs : ¬ first % 2 ^ n < 2 ^ n - 1)
    (hc : rfcCont r = none) : rfcDecode n (first :: r) = none := by
  simp [rfcDecode, hs, hc]

theorem rfcDecode_cons_sat_some (n first : Nat) (r : List Nat) (hs : ¬ first % 2 ^ n < 2 ^ n - 1)
    (c : Nat) (rest : List Nat) (hc : rfcCont r = some (c, rest)) :
    rfcDecode n (first :: r) = some (2 ^ n - 1 + c, rest) := by
  simp [rfcDecode, hs, hc]

theorem rfcDecode_nil (n : Nat) : rfcDecode n [] = none := by simp [rfcDecode]

end H3.PrefixInt
