import H3.Lemmas.E2EFrames
/-! The request layer (`H3.ReqRecv` over the `FrameStream` model) reading a valid message:
    HEADERS, DATA*, optional trailing HEADERS (and frames of unknown type anywhere, which emit no
    token), then FIN — for every transport script carrying those bytes.  The chunk-level
    counterpart of `C03_valid_message_delivered`, proved directly from the C02 invariant. -/
namespace H3.E2E
open H3.FS H3.ReqRecv

/-- tokens of the DATA frames of a body -/
def bodyToks : List Bytes → List RTok'
  | [] => []
  | p :: r => .frame (.data p.length) :: (p.map .byte ++ bodyToks r)

def trToks : Option Bytes → List RTok'
  | none => []
  | some t => [.frame (.headers t)]

/-- tokens of a message: head block, body pieces, trailer block -/
def msgToks (hb : Bytes) (ps : List Bytes) (tr : Option Bytes) : List RTok' :=
  .frame (.headers hb) :: (bodyToks ps ++ trToks tr)

theorem lead_tail (ps : List Bytes) (tr : Option Bytes) : lead (bodyToks ps ++ trToks tr) = 0 := by
  cases ps with
  | nil => cases tr <;> simp [bodyToks, trToks, lead, isByte]
  | cons p r => simp [bodyToks, lead, isByte]

theorem map_byte_inj : ∀ (a b : Bytes), a.map (Tok.byte : Nat → RTok') = b.map .byte → a = b := by
  intro a
  induction a with
  | nil => intro b h; cases b <;> simp_all
  | cons x a ih =>
    intro b h
    cases b with
    | nil => simp at h
    | cons y b =>
      simp only [List.map_cons, List.cons.injEq, Tok.byte.injEq] at h
      rw [h.1, ih b h.2]

section
variable {w : Bytes} {T : List RTok'} (hW : run frameDec (.hdr []) w = (.hdr [], T))
variable (H : Hdr) (tr : Option Bytes)

/-- in the body: `bs` = the rest of the current DATA payload, `ps` = the payloads of the DATA
    frames still to come -/
def BodyInv (w : Bytes) (T : List RTok') (tr : Option Bytes) (st : St FSt) (bs : Bytes)
    (ps : List Bytes) : Prop :=
  ∃ seen toks, Rdy w seen toks st.src ∧ T = toks ++ (bs.map .byte ++ (bodyToks ps ++ trToks tr)) ∧
    st.trailers = none ∧ st.env = {}

/-- after `recv_data` answered `None`: every token has been handed out; the trailers, if any,
    are remembered; without trailers the stream has ended -/
def PostBody (w : Bytes) (T : List RTok') (tr : Option Bytes) (st : St FSt) : Prop :=
  (∃ seen, Rdy w seen T st.src) ∧ st.env = {} ∧
    ((∃ t, tr = some t ∧ st.trailers = some t) ∨
     (tr = none ∧ st.trailers = none ∧ st.src.1.eos = true ∧ st.src.1.flat = []))

/-- one poll of `poll_recv_data` in the body (`N` bounds the measure afterwards, `B` = the body
    bytes still to be delivered) -/
def DataPost (w : Bytes) (T : List RTok') (tr : Option Bytes) (N : Nat) (B : Bytes)
    (r : Res × St FSt) : Prop :=
  (r.1 = .pending ∧ r.2.src.1.eos = false ∧
    (∃ bs' ps', BodyInv w T tr r.2 bs' ps' ∧ bs' ++ ps'.flatten = B) ∧ fsFuel r.2.src < N) ∨
  (∃ d, r.1 = .data d ∧ d ≠ [] ∧
    (∃ bs' ps', BodyInv w T tr r.2 bs' ps' ∧ d ++ (bs' ++ ps'.flatten) = B) ∧ fsFuel r.2.src < N) ∨
  (r.1 = .end_ ∧ B = [] ∧ PostBody w T tr r.2)

theorem DataPost.mono {N N' : Nat} {B : Bytes} {r : Res × St FSt} (h : DataPost w T tr N B r)
    (hN : N ≤ N') : DataPost w T tr N' B r := by
  rcases h with ⟨a, b, c, d⟩ | ⟨d, a, b, c, e⟩ | h
  · exact Or.inl ⟨a, b, c, by omega⟩
  · exact Or.inr (Or.inl ⟨d, a, b, c, by omega⟩)
  · exact Or.inr (Or.inr h)

include hW in
theorem pollRecvData_body : ∀ (fuel : Nat) (st : St FSt) (bs : Bytes) (ps : List Bytes),
    BodyInv w T tr st bs ps → fsFuel st.src ≤ fuel →
    DataPost w T tr (fsFuel st.src) (bs ++ ps.flatten) (pollRecvData fsSrc fuel st) := by
  intro fuel
  induction fuel with
  | zero => intro st bs ps _ hf; have := fsFuel_pos st.src; omega
  | succ fuel ih =>
    intro st bs ps hB hf
    obtain ⟨seen, toks, hR, hT, htr, henv⟩ := hB
    have hrem : st.src.1.remaining = bs.length := by
      rw [rdy_rem hW hR hT, lead_bytes, lead_tail]; omega
    by_cases hbs : bs = []
    · subst hbs
      have h0 : st.src.1.remaining = 0 := by simpa using hrem
      have hhd : fsSrc.hasData st.src = false := by simp [fsSrc, h0]
      rw [pollRecvData, hhd, if_neg Bool.false_ne_true]
      obtain ⟨seen', hN⟩ := fs_next hW hR h0
      generalize hres : fsSrc.pollNext st.src = res at hN ⊢
      obtain ⟨o, c'⟩ := res
      simp only at hN ⊢
      simp only [List.map_nil, List.nil_append] at hT ⊢
      rcases hN with ⟨ho, hR', _, heos', hfu⟩ | ⟨f, ho, hR', hfu⟩ | ⟨ho, htoks, hR', heos', hfl⟩
      · -- nothing decodable yet
        subst ho
        simp only
        exact Or.inl ⟨rfl, heos', ⟨[], ps, ⟨seen', toks, hR', by simpa using hT, htr, henv⟩, rfl⟩, hfu⟩
      · -- the next frame: DATA or the trailers
        subst ho
        obtain ⟨more, hmore⟩ := rdy_prefix hW hR'
        rw [hT, List.append_assoc] at hmore
        have hcons : bodyToks ps ++ trToks tr = .frame f :: more := by
          simpa using List.append_cancel_left hmore
        cases ps with
        | nil =>
          cases tr with
          | none => simp [bodyToks, trToks] at hcons
          | some t =>
            simp only [bodyToks, trToks, List.nil_append, List.cons.injEq, Tok.frame.injEq] at hcons
            obtain ⟨hf', hm⟩ := hcons
            subst hf' hm
            simp only
            refine Or.inr (Or.inr ⟨rfl, rfl, ⟨seen', ?_⟩, henv, Or.inl ⟨t, rfl, rfl⟩⟩)
            rw [hT]
            simpa [bodyToks, trToks] using hR'
        | cons p ps' =>
          simp only [bodyToks, List.cons_append, List.cons.injEq, Tok.frame.injEq] at hcons
          obtain ⟨hf', hm⟩ := hcons
          subst hf'
          simp only
          have hB' : BodyInv w T tr { src := c', trailers := st.trailers, env := st.env } p ps' := by
            refine ⟨seen', toks ++ [.frame (.data p.length)], hR', ?_, htr, henv⟩
            rw [hT]; simp [bodyToks]
          have := ih _ p ps' hB' (by simp only; omega)
          simp only [List.flatten_cons]
          exact this.mono tr (by simp only; omega)
      · -- clean end of stream
        subst ho
        simp only
        have hnil : bodyToks ps ++ trToks tr = [] := by
          have := hT
          rw [← htoks] at this
          simpa using this
        have hps : ps = [] := by
          cases ps with
          | nil => rfl
          | cons p r => simp [bodyToks] at hnil
        subst hps
        have htr0 : tr = none := by
          cases tr with
          | none => rfl
          | some t => simp [bodyToks, trToks] at hnil
        subst htr0
        refine Or.inr (Or.inr ⟨rfl, rfl, ⟨seen', by rw [← htoks]; exact hR'⟩, henv,
          Or.inr ⟨rfl, htr, heos', hfl⟩⟩)
    · -- payload outstanding: poll_data
      have h0 : st.src.1.remaining ≠ 0 := by
        rw [hrem]; intro h; exact hbs (List.eq_nil_of_length_eq_zero h)
      have hhd : fsSrc.hasData st.src = true := by simp [fsSrc, h0]
      rw [pollRecvData, hhd, if_pos rfl]
      obtain ⟨seen', hD⟩ := fs_data hW hR h0
      generalize hres : fsSrc.pollData st.src = res at hD ⊢
      obtain ⟨o, c'⟩ := res
      simp only at hD ⊢
      rcases hD with ⟨ho, hR', heos', hfu⟩ | ⟨d, ho, hd, hdl, hR', hfu⟩
      · subst ho
        simp only [dataOut]
        exact Or.inl ⟨rfl, heos', ⟨bs, ps, ⟨seen', toks, hR', hT, htr, henv⟩, rfl⟩, hfu⟩
      · subst ho
        simp only [dataOut]
        obtain ⟨more, hmore⟩ := rdy_prefix hW hR'
        rw [hT, List.append_assoc] at hmore
        have hcut : bs.map Tok.byte ++ (bodyToks ps ++ trToks tr) = d.map .byte ++ more :=
          List.append_cancel_left hmore
        rw [hrem] at hdl
        -- `d` is the front of the outstanding payload
        have hd' : d = bs.take d.length := by
          have h1 := congrArg (List.take d.length) hcut
          rw [List.take_append_of_le_length (by simpa using hdl),
            List.take_append_of_le_length (by simp), ← List.map_take] at h1
          have hle : (d.map (Tok.byte : Nat → RTok')).length ≤ d.length := by
            rw [List.length_map]; exact Nat.le_refl _
          rw [List.take_of_length_le hle] at h1
          exact (map_byte_inj _ _ h1).symm
        have hbs' : bs = d ++ bs.drop d.length := by
          conv => lhs; rw [← List.take_append_drop d.length bs, ← hd']
        refine Or.inr (Or.inl ⟨d, rfl, hd, ⟨bs.drop d.length, ps, ⟨seen', toks ++ d.map .byte, hR', ?_, htr, henv⟩, ?_⟩, hfu⟩)
        · rw [hT]
          conv => lhs; rw [hbs']
          simp
        · conv => rhs; rw [hbs']
          simp

/-- the rule for `await`: a poll that answers `Pending` leaves the precondition intact, has events
    left and has made progress; any other answer satisfies the postcondition -/
theorem await_spec (poll : St FSt → Res × St FSt) (P : St FSt → Prop) (Q : Res × St FSt → Prop)
    (hstep : ∀ st, P st →
      ((poll st).1 = .pending ∧ (poll st).2.src.2 ≠ [] ∧ P (poll st).2 ∧
        fsFuel (poll st).2.src < fsFuel st.src) ∨
      ((poll st).1 ≠ .pending ∧ Q (poll st))) :
    ∀ fuel st, P st → fsFuel st.src ≤ fuel → Q (await poll fuel st) := by
  intro fuel
  induction fuel with
  | zero => intro st _ hf; have := fsFuel_pos st.src; omega
  | succ fuel ih =>
    intro st hP hf
    rw [await]
    rcases hstep st hP with ⟨h1, h2, h3, h4⟩ | ⟨h1, h2⟩
    · rw [if_pos ⟨h1, h2⟩]
      exact ih _ h3 (by omega)
    · rw [if_neg (fun h => h1 h.1)]
      exact h2

theorem bodyInv_script_ne {st : St FSt} {bs : Bytes} {ps : List Bytes} (h : BodyInv w T tr st bs ps)
    (he : st.src.1.eos = false) : st.src.2 ≠ [] := by
  obtain ⟨_, _, hR, _⟩ := h
  exact rdy_script_ne hR he

/-- `recv_data().await` in the body -/
def AwaitedData (w : Bytes) (T : List RTok') (tr : Option Bytes) (N : Nat) (B : Bytes)
    (r : Res × St FSt) : Prop :=
  (∃ d, r.1 = .data d ∧ d ≠ [] ∧
    (∃ bs' ps', BodyInv w T tr r.2 bs' ps' ∧ d ++ (bs' ++ ps'.flatten) = B) ∧ fsFuel r.2.src < N) ∨
  (r.1 = .end_ ∧ B = [] ∧ PostBody w T tr r.2)

include hW in
theorem recvData_body (st : St FSt) (bs : Bytes) (ps : List Bytes) (hB : BodyInv w T tr st bs ps) :
    AwaitedData w T tr (fsFuel st.src) (bs ++ ps.flatten) (recvData st) := by
  unfold recvData awaitCall
  refine await_spec _
    (fun x => (∃ bs' ps', BodyInv w T tr x bs' ps' ∧ bs' ++ ps'.flatten = bs ++ ps.flatten) ∧
      fsFuel x.src ≤ fsFuel st.src)
    (AwaitedData w T tr (fsFuel st.src) (bs ++ ps.flatten)) ?_ _ st ⟨⟨bs, ps, hB, rfl⟩, Nat.le_refl _⟩
    (Nat.le_refl _)
  intro x hx
  obtain ⟨⟨bs', ps', hB', hflat⟩, hle⟩ := hx
  have := pollRecvData_body hW tr (fsFuel x.src) x bs' ps' hB' (Nat.le_refl _)
  rw [hflat] at this
  rcases this with ⟨a, b, ⟨bs2, ps2, hB2, h2⟩, d⟩ | ⟨d, a, b, c, e⟩ | ⟨a, b, c⟩
  · exact Or.inl ⟨a, bodyInv_script_ne tr hB2 b, ⟨⟨bs2, ps2, hB2, h2⟩, by omega⟩, d⟩
  · exact Or.inr ⟨(by rw [a]; intro h; cases h), Or.inl ⟨d, a, b, c, by omega⟩⟩
  · exact Or.inr ⟨(by rw [a]; intro h; cases h), Or.inr ⟨a, b, c⟩⟩

include hW in
/-- `recv_data().await` until `None`: non-empty pieces whose concatenation is the rest of the body,
    then `None` -/
theorem recvBody_spec : ∀ (fuel : Nat) (st : St FSt) (bs : Bytes) (ps : List Bytes),
    BodyInv w T tr st bs ps → fsFuel st.src ≤ fuel →
    ∃ ds : List Bytes, (recvBody fuel st).1 = ds.map .data ++ [.end_] ∧ ds.flatten = bs ++ ps.flatten ∧
      (∀ d ∈ ds, d ≠ []) ∧ PostBody w T tr (recvBody fuel st).2 := by
  intro fuel
  induction fuel with
  | zero => intro st _ _ _ hf; have := fsFuel_pos st.src; omega
  | succ fuel ih =>
    intro st bs ps hB hf
    have hA := recvData_body hW tr st bs ps hB
    rw [recvBody]
    simp only
    generalize recvData st = r at hA ⊢
    obtain ⟨r1, r2⟩ := r
    rcases hA with ⟨d, a, b, ⟨bs', ps', hB', hfl⟩, e⟩ | ⟨a, b, c⟩
    · simp only at a e hB' ⊢
      subst a
      simp only
      obtain ⟨ds, h1, h2, h3, h4⟩ := ih r2 bs' ps' hB' (by omega)
      refine ⟨d :: ds, by simp [h1], by simp [h2, hfl], ?_, h4⟩
      intro x hx
      simp only [List.mem_cons] at hx
      rcases hx with rfl | hx
      · exact b
      · exact h3 x hx
    · simp only at a c ⊢
      subst a
      simp only
      exact ⟨[], by simp, by simp [b], by simp, c⟩


theorem postBody_rem {st : St FSt} (hW : run frameDec (.hdr []) w = (.hdr [], T))
    (hP : PostBody w T tr st) : st.src.1.remaining = 0 := by
  obtain ⟨⟨seen, hR⟩, _, _⟩ := hP
  have := rdy_rem (rest := []) hW hR (by simp)
  simpa [lead] using this

theorem no_more_frames {seen : Bytes} {c : FSt} {f : H3.Frame.Frame} {p : PSt}
    (hW : run frameDec (.hdr []) w = (p, T)) (hR : Rdy w seen (T ++ [.frame f]) c) : False := by
  obtain ⟨more, hm⟩ := rdy_prefix hW hR
  have := congrArg List.length hm
  simp only [List.length_append, List.length_cons, List.length_nil] at this
  omega

theorem decodeTrailers_ok (st : St FSt) (t : Bytes) (h : H.trailer t = .ok) :
    decodeTrailers H st t = (.trailers t, st) := by
  unfold decodeTrailers; rw [h]

/-- the answer `recv_trailers` owes after this body -/
def trailersAns : Option Bytes → Res
  | some t => .trailers t
  | none => .noTrailers

/-! one-step equations of the request layer, by the answer of `poll_next` -/

theorem trailersCheck_pending {σ : Type} (S : Src σ) (st : St σ) (enc : Bytes) (c' : σ)
    (h : S.pollNext st.src = (.pending, c')) :
    trailersCheck S H st enc = (.pending, { st with src := c', trailers := some enc }) := by
  unfold trailersCheck; rw [h]

theorem trailersCheck_none {σ : Type} (S : Src σ) (st : St σ) (enc : Bytes) (c' : σ)
    (h : S.pollNext st.src = (.none, c')) :
    trailersCheck S H st enc = decodeTrailers H { st with src := c' } enc := by
  unfold trailersCheck; rw [h]

theorem trailersFirst_none {σ : Type} (S : Src σ) (st : St σ) (c' : σ)
    (h : S.pollNext st.src = (.none, c')) :
    trailersFirst S H st = (.noTrailers, { st with src := c' }) := by
  unfold trailersFirst; rw [h]

theorem pollHead_pending {σ : Type} (role : Role) (S : Src σ) (st : St σ) (c' : σ)
    (h : S.pollNext st.src = (.pending, c')) :
    pollHead role S H st = (.pending, { st with src := c' }) := by
  cases role
  · simp only [pollHead]; unfold pollResolve; rw [h]
  · simp only [pollHead]; unfold pollRecvResponse; rw [h]

theorem pollHead_headers {σ : Type} (role : Role) (S : Src σ) (st : St σ) (c' : σ) (hb : Bytes)
    (hH : H.head hb = .ok) (h : S.pollNext st.src = (.frame (.headers hb), c')) :
    pollHead role S H st = (.head hb, { st with src := c' }) := by
  cases role
  · simp only [pollHead]; unfold pollResolve; rw [h]; simp only [hH]
  · simp only [pollHead]; unfold pollRecvResponse; rw [h]; simp only [hH]

include hW in
/-- `recv_trailers().await` after the body: the remembered trailers once the stream has ended
    (the look at the next frame may have to wait: `Pending ⇒ save the trailers, try again`), or
    `None` -/
theorem recvTrailers_spec (hTr : ∀ t, tr = some t → H.trailer t = .ok) (st : St FSt)
    (hP : PostBody w T tr st) :
    (awaitCall (pollRecvTrailers fsSrc H) st).1 = trailersAns tr ∧
    (awaitCall (pollRecvTrailers fsSrc H) st).2.env = {} := by
  unfold awaitCall
  refine await_spec _ (PostBody w T tr) (fun r => r.1 = trailersAns tr ∧ r.2.env = {}) ?_ _ st hP
    (Nat.le_refl _)
  intro x hx
  have h0 := postBody_rem tr hW hx
  obtain ⟨⟨seen, hR⟩, henv, hcase⟩ := hx
  obtain ⟨seen', hN⟩ := fs_next hW hR h0
  cases hres : fsSrc.pollNext x.src with
  | mk o c' =>
  rw [hres] at hN
  simp only at hN
  rcases hcase with ⟨t, htr, hmemo⟩ | ⟨htr, hmemo, heos, hfl⟩
  · -- the trailers were met by `recv_data` and remembered
    subst htr
    have hok := hTr t rfl
    rw [pollRecvTrailers, hmemo]
    simp only [trailersTail]
    by_cases he : fsSrc.isEos x.src = true
    · rw [if_pos he, decodeTrailers_ok H _ t hok]
      exact Or.inr ⟨(by intro h; cases h), rfl, henv⟩
    · rw [if_neg he]
      rcases hN with ⟨ho, hR', _, heos', hfu⟩ | ⟨f, ho, hR', hfu⟩ | ⟨ho, _, hR', heos', hfl⟩
      · subst ho
        rw [trailersCheck_pending H fsSrc { x with trailers := none } t c' hres]
        exact Or.inl ⟨rfl, rdy_script_ne hR' heos', ⟨⟨seen', hR'⟩, henv, Or.inl ⟨t, rfl, rfl⟩⟩, hfu⟩
      · exact (no_more_frames hW hR').elim
      · subst ho
        rw [trailersCheck_none H fsSrc { x with trailers := none } t c' hres, decodeTrailers_ok H _ t hok]
        exact Or.inr ⟨(by intro h; cases h), rfl, henv⟩
  · -- no trailers: the stream has ended
    subst htr
    rw [pollRecvTrailers, hmemo]
    simp only
    rcases hN with ⟨_, _, heos0, _, _⟩ | ⟨f, ho, hR', hfu⟩ | ⟨ho, _, hR', heos', hfl⟩
    · rw [heos] at heos0; cases heos0
    · exact (no_more_frames hW hR').elim
    · subst ho
      rw [trailersFirst_none H fsSrc _ c' hres]
      exact Or.inr ⟨(by intro h; cases h), rfl, henv⟩

include hW in
/-- `resolve_request().await` / `recv_response().await` -/
theorem recvHead_spec (role : Role) (hb : Bytes) (ps : List Bytes) (hT : T = msgToks hb ps tr)
    (hH : H.head hb = .ok) (st : St FSt) (hR0 : ∃ seen, Rdy w seen [] st.src)
    (htr0 : st.trailers = none) (henv0 : st.env = {}) :
    (awaitCall (pollHead role fsSrc H) st).1 = .head hb ∧
    BodyInv w T tr (awaitCall (pollHead role fsSrc H) st).2 [] ps := by
  unfold awaitCall
  refine await_spec _ (fun x => (∃ seen, Rdy w seen [] x.src) ∧ x.trailers = none ∧ x.env = {})
    (fun r => r.1 = .head hb ∧ BodyInv w T tr r.2 [] ps) ?_ _ st ⟨hR0, htr0, henv0⟩ (Nat.le_refl _)
  intro x hx
  obtain ⟨⟨seen, hR⟩, htr, henv⟩ := hx
  have h0 : x.src.1.remaining = 0 := by
    have := rdy_rem (rest := T) hW hR (by simp)
    rw [this, hT]; simp [msgToks, lead, isByte]
  obtain ⟨seen', hN⟩ := fs_next hW hR h0
  cases hres : fsSrc.pollNext x.src with
  | mk o c' =>
  rw [hres] at hN
  simp only at hN
  rcases hN with ⟨ho, hR', _, heos', hfu⟩ | ⟨f, ho, hR', hfu⟩ | ⟨_, htoks, _⟩
  · subst ho
    rw [pollHead_pending H role fsSrc x c' hres]
    exact Or.inl ⟨rfl, rdy_script_ne hR' heos', ⟨⟨seen', hR'⟩, htr, henv⟩, hfu⟩
  · obtain ⟨more, hmore⟩ := rdy_prefix hW hR'
    rw [hT] at hmore
    simp only [msgToks, List.nil_append, List.cons_append, List.cons.injEq, Tok.frame.injEq] at hmore
    subst ho
    rw [← hmore.1] at hres hR'
    rw [pollHead_headers H role fsSrc x c' hb hH hres]
    refine Or.inr ⟨(by intro h; cases h), rfl, ⟨seen', _, hR', ?_, htr, henv⟩⟩
    rw [hT]; simp [msgToks]
  · rw [hT] at htoks; simp [msgToks] at htoks

end

/-- **The documented receive pattern over the `FrameStream` model, for every transport script.**
    Let `w` be a byte string that the reference automaton of the frame layer reads as: a HEADERS
    frame with block `hb`, DATA frames with payloads `ps` (empty ones included), optionally a
    HEADERS frame with block `t`, ending at a frame boundary (frames of unknown type may stand
    anywhere: they emit no token).  Then for EVERY script that carries exactly `w` before its first
    FIN — cut into non-empty chunks in any way, `pend` anywhere — the awaited calls answer: the head
    `hb`; non-empty pieces of data whose concatenation is the concatenation of `ps`; exactly one
    `None`; the trailers `t` (or `None`); no error, nothing reset, nothing stopped. -/
theorem recvPattern_valid (role : Role) (H : Hdr) (w hb : Bytes) (ps : List Bytes) (tr : Option Bytes)
    (hrun : run frameDec (.hdr []) w = (.hdr [], msgToks hb ps tr))
    (hH : H.head hb = .ok) (hTr : ∀ t, tr = some t → H.trailer t = .ok)
    (script : List Ev) (hsc : ScriptOK script) (hnr : NoReset script) (hfin : hasFin script = true)
    (hw : evBytes (upToFin script) = w) :
    ∃ ds : List Bytes, recvPattern role H script =
        { head := .head hb, body := ds.map .data ++ [.end_], trailers := some (trailersAns tr),
          env := {} } ∧
      ds.flatten = ps.flatten ∧ ∀ d ∈ ds, d ≠ [] := by
  subst hw
  have hR0 := rdy_init script hsc hnr hfin
  obtain ⟨hh, hB⟩ := recvHead_spec hrun H tr role hb ps rfl hH { src := ({}, script) } ⟨[], hR0⟩ rfl rfl
  unfold recvPattern
  generalize awaitCall (pollHead role fsSrc H) { src := ({}, script) } = p at hh hB ⊢
  obtain ⟨p1, p2⟩ := p
  simp only at hh hB ⊢
  subst hh
  simp only
  obtain ⟨ds, h1, h2, h3, h4⟩ := recvBody_spec hrun tr (fsFuel p2.src) p2 [] ps hB (Nat.le_refl _)
  obtain ⟨t1, t2⟩ := recvTrailers_spec hrun H tr hTr _ h4
  refine ⟨ds, ?_, by simpa using h2, h3⟩
  have hlast : (recvBody (fsFuel p2.src) p2).1.getLast? = some .end_ := by rw [h1]; simp
  rw [h1] at hlast
  unfold recvTail
  simp only [h1, t1, t2]
  rw [if_pos hlast]

end H3.E2E
