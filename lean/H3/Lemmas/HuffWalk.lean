import H3.Model.Huffman
import H3.Spec.Huffman
import H3.Lemmas.Bits
/-! The level tree of the decoder, seen as a function on bit strings (`walkL`) and as a set of
    root-to-symbol paths (`pathsL`); generic lemmas relating the two. -/
namespace H3.Huffman
open H3.Bits
open H3.Gen.HuffDec (Level Entry)

inductive WalkRes where
  /-- a symbol was reached; the bits not consumed -/
  | sym (s : Nat) (rest : List Bool)
  /-- a level's `lookup` bits are not there; the bits left at that level's start -/
  | short (q : List Bool)
  /-- the level's table has no entry for the bits read -/
  | unhandled
deriving DecidableEq, Repr

mutual
def walkL : Level → List Bool → WalkRes
  | .mk k tbl, t =>
    if k = 0 ∨ k > 8 ∨ t.length < k then .short t
    else walkT tbl (val (t.take k)) (t.drop k)
def walkT : List Entry → Nat → List Bool → WalkRes
  | [], _, _ => .unhandled
  | e :: _, 0, t => walkE e t
  | _ :: es, i+1, t => walkT es i t
def walkE : Entry → List Bool → WalkRes
  | .sym s, t => .sym s t
  | .sub l, t => walkL l t
end

mutual
/-- all (path, symbol) pairs below a level -/
def pathsL : Level → List (List Bool × Nat)
  | .mk k tbl => pathsT tbl k 0
def pathsT : List Entry → Nat → Nat → List (List Bool × Nat)
  | [], _, _ => []
  | e :: es, k, i => (pathsE e).map (fun ps => (bitsN k i ++ ps.1, ps.2)) ++ pathsT es k (i + 1)
def pathsE : Entry → List (List Bool × Nat)
  | .sym s => [([], s)]
  | .sub l => pathsL l
end

end H3.Huffman

namespace H3.Huffman
open H3.Bits
open H3.Gen.HuffDec (Level Entry)

theorem walkL_mk (k : Nat) (tbl : List Entry) (t : List Bool) :
    walkL (.mk k tbl) t =
      if k = 0 ∨ k > 8 ∨ t.length < k then .short t
      else walkT tbl (val (t.take k)) (t.drop k) := by
  rw [walkL]

/-! ### a symbol result is determined by the consumed prefix -/

mutual
theorem walkL_append : ∀ (l : Level) (t : List Bool) (s : Nat) (rest r : List Bool),
    walkL l t = .sym s rest → walkL l (t ++ r) = .sym s (rest ++ r)
  | .mk k tbl, t, s, rest, r, h => by
    rw [walkL_mk] at h ⊢
    by_cases hc : k = 0 ∨ k > 8 ∨ t.length < k
    · rw [if_pos hc] at h; cases h
    · rw [if_neg hc] at h
      have hk : k ≤ t.length := by omega
      rw [if_neg (by simp; omega), List.take_append_of_le_length hk,
        List.drop_append_of_le_length hk]
      exact walkT_append tbl _ _ s rest r h
theorem walkT_append : ∀ (tbl : List Entry) (i : Nat) (t : List Bool) (s : Nat)
    (rest r : List Bool), walkT tbl i t = .sym s rest → walkT tbl i (t ++ r) = .sym s (rest ++ r)
  | [], _, _, _, _, _, h => by simp [walkT] at h
  | e :: _, 0, t, s, rest, r, h => by
    rw [walkT] at h ⊢; exact walkE_append e t s rest r h
  | _ :: es, i+1, t, s, rest, r, h => by
    rw [walkT] at h ⊢; exact walkT_append es i t s rest r h
theorem walkE_append : ∀ (e : Entry) (t : List Bool) (s : Nat) (rest r : List Bool),
    walkE e t = .sym s rest → walkE e (t ++ r) = .sym s (rest ++ r)
  | .sym x, t, s, rest, r, h => by
    rw [walkE] at h ⊢; cases h; rfl
  | .sub l, t, s, rest, r, h => by
    rw [walkE] at h ⊢; exact walkL_append l t s rest r h
end

/-! ### a symbol result spells a path of the tree -/

mutual
theorem walkL_path : ∀ (l : Level) (t : List Bool) (s : Nat) (rest : List Bool),
    walkL l t = .sym s rest → ∃ p, (p, s) ∈ pathsL l ∧ t = p ++ rest
  | .mk k tbl, t, s, rest, h => by
    rw [walkL_mk] at h
    by_cases hc : k = 0 ∨ k > 8 ∨ t.length < k
    · rw [if_pos hc] at h; cases h
    · rw [if_neg hc] at h
      have hk : k ≤ t.length := by omega
      obtain ⟨p, hp, ht⟩ := walkT_path tbl k 0 _ _ s rest h
      refine ⟨bitsN k (val (t.take k)) ++ p, ?_, ?_⟩
      · rw [pathsL]; simpa using hp
      · have hl : (t.take k).length = k := by simp [hk]
        have := bitsN_val (t.take k)
        rw [hl] at this
        rw [this, List.append_assoc, ← ht, List.take_append_drop]
theorem walkT_path : ∀ (tbl : List Entry) (k i j : Nat) (t : List Bool) (s : Nat)
    (rest : List Bool), walkT tbl j t = .sym s rest →
      ∃ p, (bitsN k (i + j) ++ p, s) ∈ pathsT tbl k i ∧ t = p ++ rest
  | [], _, _, _, _, _, _, h => by simp [walkT] at h
  | e :: es, k, i, 0, t, s, rest, h => by
    rw [walkT] at h
    obtain ⟨p, hp, ht⟩ := walkE_path e t s rest h
    refine ⟨p, ?_, ht⟩
    rw [pathsT]
    apply List.mem_append_left
    rw [List.mem_map]
    exact ⟨(p, s), hp, rfl⟩
  | e :: es, k, i, j+1, t, s, rest, h => by
    rw [walkT] at h
    obtain ⟨p, hp, ht⟩ := walkT_path es k (i + 1) j t s rest h
    refine ⟨p, ?_, ht⟩
    rw [pathsT]
    apply List.mem_append_right
    have : i + 1 + j = i + (j + 1) := by omega
    rw [← this]; exact hp
theorem walkE_path : ∀ (e : Entry) (t : List Bool) (s : Nat) (rest : List Bool),
    walkE e t = .sym s rest → ∃ p, (p, s) ∈ pathsE e ∧ t = p ++ rest
  | .sym x, t, s, rest, h => by
    rw [walkE] at h; cases h
    exact ⟨[], by simp [pathsE], rfl⟩
  | .sub l, t, s, rest, h => by
    rw [walkE] at h
    obtain ⟨p, hp, ht⟩ := walkL_path l t s rest h
    exact ⟨p, by rw [pathsE]; exact hp, ht⟩
end

/-! ### a `.short` result leaves a suffix of the bits -/

mutual
theorem walkL_short_suffix : ∀ (l : Level) (t q : List Bool), walkL l t = .short q → ∃ c, t = c ++ q
  | .mk k tbl, t, q, h => by
    rw [walkL_mk] at h
    by_cases hc : k = 0 ∨ k > 8 ∨ t.length < k
    · rw [if_pos hc] at h; cases h; exact ⟨[], rfl⟩
    · rw [if_neg hc] at h
      obtain ⟨c, hc'⟩ := walkT_short_suffix tbl _ _ q h
      exact ⟨t.take k ++ c, by rw [List.append_assoc, ← hc', List.take_append_drop]⟩
theorem walkT_short_suffix : ∀ (tbl : List Entry) (i : Nat) (t q : List Bool),
    walkT tbl i t = .short q → ∃ c, t = c ++ q
  | [], _, _, _, h => by rw [walkT] at h; cases h
  | e :: _, 0, t, q, h => by rw [walkT] at h; exact walkE_short_suffix e t q h
  | _ :: es, i+1, t, q, h => by rw [walkT] at h; exact walkT_short_suffix es i t q h
theorem walkE_short_suffix : ∀ (e : Entry) (t q : List Bool), walkE e t = .short q → ∃ c, t = c ++ q
  | .sym s, t, q, h => by rw [walkE] at h; cases h
  | .sub l, t, q, h => by rw [walkE] at h; exact walkL_short_suffix l t q h
end

end H3.Huffman
